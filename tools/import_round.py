#!/usr/bin/env python3
"""tools/import_round.py <round> <outroot> <letterA> <letterB> <pid>... — take the two changes a sub-agent left in
<outroot>/out_<pid>/{A,B} (patch.diff, demo.py, notes.md), copy them to seeded/<pid><letter>/, validate each with
tools/seedtest.py in a scratch worktree (demo on the clean checkout, suite with the change, demo with the change) and run the
quick check of the target property against it; write meta.json.  Prints one line per change."""
import sys, os, json, shutil, subprocess, concurrent.futures as cf
VERIF = os.path.dirname(os.path.dirname(os.path.abspath(__file__)))
rnd, root, la, lb = sys.argv[1:5]
pids = sys.argv[5:]
titles = {}
for l in open(os.path.join(VERIF, 'properties.jsonl')):
    d = json.loads(l); titles[d['id']] = d['title']

def one(pid, sub, letter):
    src = os.path.join(root, 'out_' + pid, sub)
    sid = pid + letter
    dst = os.path.join(VERIF, 'seeded', sid)
    if not os.path.exists(os.path.join(src, 'patch.diff')):
        return sid, 'missing'
    os.makedirs(dst, exist_ok=True)
    for f in ('patch.diff', 'demo.py', 'notes.md'):
        if os.path.exists(os.path.join(src, f)):
            shutil.copy(os.path.join(src, f), os.path.join(dst, f))
    r = subprocess.run([sys.executable, os.path.join(VERIF, 'tools/seedtest.py'), dst, '--props', pid],
                       capture_output=True, text=True)
    try:
        res = json.loads(r.stdout)
    except Exception:
        return sid, 'seedtest-failed: ' + (r.stdout + r.stderr)[-300:]
    st = res.get('steps', {})
    meta = dict(id=sid, property=pid, property_title=titles[pid], round=int(rnd),
                origin='written by an independent sub-agent (round %s) that saw only the property text, one-line summaries of the earlier changes for the property (so as to produce different ones) and a scratch worktree of /repo' % rnd,
                needs_to_manifest="see notes.md (the sub-agent's description of the change and of the specific input / sequence / fault / interleaving it needs)",
                confirmed=dict(how='tools/seedtest.py in a scratch git worktree of /repo: demo.py on the clean checkout, git apply patch.diff, the pinned test suite, demo.py again',
                               demo_on_clean_tree_rc=st.get('demo_clean_rc'), tests_with_change=st.get('tests'),
                               tests_baseline=st.get('tests_baseline'), demo_with_change_rc=st.get('demo_patched_rc')),
                checks_run={p: dict(rc=c['rc'], violations=c['violations'], clause=c.get('clause', ''), wall=c['wall'], first_run=True)
                            for p, c in res.get('checks', {}).items()})
    json.dump(meta, open(os.path.join(dst, 'meta.json'), 'w'), indent=1)
    valid = st.get('demo_clean_rc') == 0 and st.get('tests_baseline') and st.get('demo_patched_rc') not in (0, None)
    c = res.get('checks', {}).get(pid, {})
    return sid, 'valid=%s caught=%s rc=%s %s' % (valid, bool(c.get('violations')), c.get('rc'), (c.get('violations') or [c.get('summary', '')])[0][:160])

jobs = [(p, s, l) for p in pids for s, l in (('A', la), ('B', lb))]
with cf.ThreadPoolExecutor(max_workers=int(os.environ.get('LANES', '4'))) as ex:
    for sid, msg in ex.map(lambda j: one(*j), jobs):
        print(sid, msg, flush=True)
