#!/bin/bash
# tools/quick_seeds.sh [seeds...] — every registered check in the quick tier under several VERIF_SEED values (default 2 3 7);
# one summary line each (meant for `vp run -- tools/quick_seeds.sh`)
cd "$(dirname "$0")/.." || exit 2
(cd lean && lake build >/dev/null 2>&1)
seeds="$@"; [ -z "$seeds" ] && seeds="2 3 7"
for s in $seeds; do
  for i in 01 02 03 04 05 06 07 08 09 10 11 12 13 14 15 16 17 18 19 20; do
    VERIF_SEED=$s ./check C$i --tier quick > quick_s${s}_C$i.log 2>&1
    echo "seed=$s C$i exit=$? $(tail -1 quick_s${s}_C$i.log | cut -c1-120)"
    grep VIOLATION quick_s${s}_C$i.log | head -2
  done
done
