#!/usr/bin/env python3
"""tools/register.py <prop> <module> name[:kind] ... — add theorems to lean/theorems.json (kind: full|partial|refutation|lemma)"""
import json, sys
p = '/verif/lean/theorems.json'
reg = json.load(open(p))
prop, module = sys.argv[1], sys.argv[2]
lst = reg.setdefault(prop, [])
have = {t['name'] for t in lst}
for a in sys.argv[3:]:
    name, _, kind = a.partition(':')
    name = name if name.startswith('SV.') else 'SV.' + name
    if name not in have:
        lst.append(dict(name=name, module=module, kind=kind or 'full'))
json.dump(reg, open(p, 'w'), indent=1)
print(prop, len(lst), 'theorems')
