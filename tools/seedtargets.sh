#!/bin/bash
# tools/seedtargets.sh [seed ids...] — validate every seeded change (demo on the clean checkout, the pinned suite with the
# change, demo with the change) and run the quick check of its TARGET property against it (plus, for the three changes
# their target check does not see, the registered check that does); results in ./targets_out/<seed>.json
# meant for `vp run -- tools/seedtargets.sh`; LANES (default 4) seeds at a time.
cd "$(dirname "$0")/.." || exit 2
(cd lean && lake build >/dev/null 2>&1)
mkdir -p targets_out
seeds="$@"
[ -z "$seeds" ] && seeds=$(for d in seeded/C*; do grep -qE '"status": "(retired|stale)"' $d/meta.json || basename $d; done)
LANES=${LANES:-4}
one() {
  p=${1:0:3}
  case $1 in
    C04d) p=C04,C16 ;;
    C13d) p=C13,C17 ;;
    C05e) p=C05,C17 ;;
  esac
  python3 tools/seedtest.py seeded/$1 --props $p > targets_out/$1.json 2> targets_out/$1.err
}
n=0
for s in $seeds; do
  one $s &
  n=$((n+1))
  if [ $((n % LANES)) -eq 0 ]; then wait; fi
done
wait
echo done
