#!/bin/bash
# tools/thorough_all.sh — every registered check in the thorough tier, one after the other; one summary line each
# (meant for `vp run -- tools/thorough_all.sh`; the evidence it writes belongs to the snapshot, not to /verif)
cd "$(dirname "$0")/.." || exit 2
(cd lean && lake build >/dev/null 2>&1)
for i in 01 02 03 04 05 06 07 08 09 10 11 12 13 14 15 16 17 18 19 20; do
  ./check C$i --tier thorough > thorough_C$i.log 2>&1
  echo "C$i exit=$? $(tail -1 thorough_C$i.log | cut -c1-150)"
  grep VIOLATION thorough_C$i.log | head -3
done
