#!/bin/bash
# tools/probe_seed.sh <seedid> <module.func> [arg] — run ONE rt probe of harness/<module>.py against a scratch worktree of /repo with seeded/<seedid>/patch.diff applied (seconds instead of a whole check)
sid=$1; fn=$2; arg=$3
wt=/tmp/ps_$sid
git -C /repo worktree remove --force $wt >/dev/null 2>&1
git -C /repo worktree add --detach $wt HEAD >/dev/null 2>&1
(cd $wt && git apply /verif/seeded/$sid/patch.diff) || echo "PATCH DOES NOT APPLY"
cd /verif && SIGTOOLS_REPO=$wt PYTHONPATH=/verif /venv/bin/python -c "
import sys; sys.path.insert(0,'$wt')
from harness import core
import importlib
m, f = '$fn'.rsplit('.',1)
mod = importlib.import_module('harness.'+m)
req = ('rt:x',) + (('$arg',) if '$arg' else ())
r = getattr(mod, f)(req)
print(r[0], len(r[1]), r[2] if len(r)>2 else '')
for p in r[1][:3]: print('  ', str(p)[:400])
"
git -C /repo worktree remove --force $wt >/dev/null 2>&1
