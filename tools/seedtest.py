#!/usr/bin/env python3
"""tools/seedtest.py — validate a seeded change and run the checks against it.

  tools/seedtest.py <seed_dir> [--props C01,C08,...] [--tier quick] [--keep]

<seed_dir> holds patch.diff and demo.py.  Steps (all in a scratch git worktree of /repo under
/tmp, never in /repo itself):
  1. demo.py on the clean checkout must exit 0
  2. `git apply patch.diff`; the pinned test suite must give the baseline outcome
  3. demo.py must now exit non-zero
  4. each requested check is run with SIGTOOLS_REPO pointing at the patched checkout (evidence is
     written to a scratch directory, not to /verif/evidence)
The worktree is removed afterwards.  Prints one JSON object.
"""
import sys, os, subprocess, json, re, argparse, shutil, hashlib, time

VERIF = os.path.dirname(os.path.dirname(os.path.abspath(__file__)))
PY = '/venv/bin/python'
BASE = '294 passed, 2 skipped'


def sh(cmd, cwd=None, env=None, timeout=3600):
    r = subprocess.run(cmd, cwd=cwd, env=env, capture_output=True, text=True, timeout=timeout)
    return r.returncode, r.stdout + r.stderr


def main():
    ap = argparse.ArgumentParser()
    ap.add_argument('seed')
    ap.add_argument('--props', default='')
    ap.add_argument('--tier', default='quick')
    ap.add_argument('--novalidate', action='store_true')
    a = ap.parse_args()
    seed = os.path.abspath(a.seed)
    tag = hashlib.sha1(seed.encode()).hexdigest()[:8]
    wt = '/tmp/sv_wt_%s' % tag
    evd = '/tmp/sv_ev_%s' % tag
    res = dict(seed=seed, steps={}, checks={})
    sh(['git', '-C', '/repo', 'worktree', 'remove', '--force', wt])
    rc, out = sh(['git', '-C', '/repo', 'worktree', 'add', '--detach', wt, 'HEAD'])
    if rc:
        print(json.dumps(dict(error='worktree', out=out)))
        return 2
    try:
        demo = os.path.join(seed, 'demo.py')
        env = dict(os.environ, PYTHONPATH=wt)
        if not a.novalidate:
            rc, out = sh([PY, demo], cwd=wt, env=env, timeout=900)
            res['steps']['demo_clean_rc'] = rc
            if rc:
                res['steps']['demo_clean_out'] = out[-1500:]
        rc, out = sh(['git', 'apply', os.path.join(seed, 'patch.diff')], cwd=wt)
        res['steps']['apply_rc'] = rc
        if rc:
            res['steps']['apply_out'] = out[-800:]
            print(json.dumps(res, indent=1))
            return 2
        if not a.novalidate:
            rc, out = sh([PY, '-m', 'pytest', '-q', '-p', 'no:cacheprovider', '--timeout=900',
                          '--continue-on-collection-errors'], cwd=wt, timeout=1800)
            tail = out.strip().splitlines()[-1] if out.strip() else ''
            res['steps']['tests'] = tail
            res['steps']['tests_baseline'] = (BASE in tail and '10 errors' in tail and 'failed' not in tail)
            rc, out = sh([PY, demo], cwd=wt, env=env, timeout=900)
            res['steps']['demo_patched_rc'] = rc
            res['steps']['demo_patched_tail'] = out[-600:]
        for p in [x for x in a.props.split(',') if x]:
            t0 = time.time()
            env2 = dict(os.environ, SIGTOOLS_REPO=wt, VERIF_EVIDENCE_DIR=evd)
            try:
                rc, out = sh([os.path.join(VERIF, 'check'), p, '--tier', a.tier], cwd=VERIF, env=env2, timeout=3600)
            except subprocess.TimeoutExpired:
                rc, out = 124, 'timeout'
            viol = [l for l in out.splitlines() if l.startswith('VIOLATION')]
            last = [l for l in out.splitlines() if re.match(r'^C\d\d (ok|FAIL)', l)]
            clause = ''
            for v in viol[:1]:
                m = re.search(r'replay=(\S+)', v)
                if m and os.path.exists(m.group(1)):
                    try:
                        rp = json.load(open(m.group(1)))
                        clause = str(rp.get('clause') or rp.get('broken') or '')[:300]
                        res.setdefault('replays', {})[p] = rp.get('request', '')[:300] if isinstance(rp.get('request'), str) else ''
                    except Exception:
                        pass
            res['checks'][p] = dict(rc=rc, violations=viol[:3], summary=last[-1] if last else out[-400:],
                                    clause=clause, wall=round(time.time() - t0, 1))
    finally:
        sh(['git', '-C', '/repo', 'worktree', 'remove', '--force', wt])
        shutil.rmtree(evd, ignore_errors=True)
    print(json.dumps(res, indent=1))
    return 0


if __name__ == '__main__':
    sys.exit(main())
