#!/bin/bash
# tools/seedmatrix.sh [seed ids...] — every registered quick check against every seeded change (or the given ones);
# meant for `vp run -- tools/seedmatrix.sh` (runs from a snapshot of the committed /verif; results in ./matrix_out/)
cd "$(dirname "$0")/.." || exit 2
(cd lean && lake build >/dev/null 2>&1)
mkdir -p matrix_out
ALL=C01,C02,C03,C04,C05,C06,C07,C08,C09,C10,C11,C12,C13,C14,C15,C16,C17,C18,C19,C20
seeds="$@"
[ -z "$seeds" ] && seeds=$(ls seeded)
for s in $seeds; do
  python3 tools/seedtest.py seeded/$s --novalidate --props $ALL > matrix_out/$s.json 2> matrix_out/$s.err
done
echo done
