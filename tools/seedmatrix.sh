#!/bin/bash
# tools/seedmatrix.sh [seed ids...] — every registered quick check against every seeded change (or the given ones);
# meant for `vp run -- tools/seedmatrix.sh` (runs from a snapshot of the committed /verif; results in ./matrix_out/)
# LANES (default 3) seeds are processed at a time.
cd "$(dirname "$0")/.." || exit 2
(cd lean && lake build >/dev/null 2>&1)
mkdir -p matrix_out
ALL=C01,C02,C03,C04,C05,C06,C07,C08,C09,C10,C11,C12,C13,C14,C15,C16,C17,C18,C19,C20
seeds="$@"
[ -z "$seeds" ] && seeds=$(for d in seeded/C*; do grep -q '"status": "retired"' $d/meta.json || basename $d; done)
LANES=${LANES:-3}
one() {
  python3 tools/seedtest.py seeded/$1 --novalidate --props $ALL > matrix_out/$1.json 2> matrix_out/$1.err
}
n=0
for s in $seeds; do
  one $s &
  n=$((n+1))
  if [ $((n % LANES)) -eq 0 ]; then wait; fi
done
wait
echo done
