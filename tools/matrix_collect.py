#!/usr/bin/env python3
"""tools/matrix_collect.py DIR... — read the result files written by tools/seedmatrix.sh / tools/seedtest.py
(one <seed>.json per seeded change, each with a "checks" map property -> {rc, violations, clause, …}) and

  * record them in seeded/<seed>/meta.json under "checks_run" (which registered checks were run against the
    change, which of them reported a violation, and the first line of what they reported);
  * print a markdown table (seed, target, checks that caught it, checks run) for DESIGN.md §10.7.

Later directories override earlier ones for the same (seed, property) pair.  Nothing here decides anything: it
only files what the checks printed."""
import json, os, sys, glob

ROOT = os.path.dirname(os.path.dirname(os.path.abspath(__file__)))


def main(dirs):
    rows = {}
    for d in dirs:
        for f in sorted(glob.glob(os.path.join(d, '*.json'))):
            try:
                data = json.load(open(f))
            except Exception:
                continue
            if not isinstance(data, dict) or not data.get('checks'):
                continue
            seed = os.path.basename(str(data.get('seed', f))).replace('.json', '')
            seed = seed.split('_')[-1] if seed.startswith('seeded_') else seed
            rows.setdefault(seed, {}).update(data['checks'])
    out = []
    for seed in sorted(rows):
        mp = os.path.join(ROOT, 'seeded', seed, 'meta.json')
        if not os.path.exists(mp):
            continue
        meta = json.load(open(mp))
        checks = rows[seed]
        caught = sorted(p for p, r in checks.items() if r.get('rc') == 1 and r.get('violations'))
        broken = sorted(p for p, r in checks.items() if r.get('rc') not in (0, 1))
        cr = {
            'tier': 'quick',
            'ran': sorted(checks),
            'caught_by': caught,
            'not_run_to_completion': broken,
            'target_caught': meta['property'] in caught,
            'detail': {p: {'rc': checks[p].get('rc'),
                           'first_line': (checks[p].get('clause') or '')[:300],
                           'no_failing_input_found': any('no-failing-input-found' in v for v in checks[p].get('violations', []))}
                       for p in caught},
        }
        meta['checks_run'] = cr
        json.dump(meta, open(mp, 'w'), indent=1)
        open(mp, 'a').write('\n')
        out.append((seed, meta['property'], caught, len(checks), broken))
    print('| change | target | caught by (quick tier) | checks run |')
    print('|---|---|---|---|')
    for seed, tgt, caught, n, broken in out:
        c = ', '.join(('**%s**' % p) if p == tgt else p for p in caught) or '—'
        print('| %s | %s | %s | %d%s |' % (seed, tgt, c, n, (' (timeout: %s)' % ','.join(broken)) if broken else ''))


if __name__ == '__main__':
    main(sys.argv[1:])
