#!/usr/bin/env python3
"""tools/integrate.py <agent lean dir> <Prefix> <PropsFile>... — copy an agent's Lemmas/<Prefix>*.lean and the given
Props files into /verif/lean, renaming declarations that clash with what is already there (suffix _<Prefix>)."""
import os, re, sys, glob, shutil
src, prefix = sys.argv[1], sys.argv[2]
props = sys.argv[3:]
dst = '/verif/lean'
DECL = re.compile(r'^\s*(?:@\[[^\]]*\]\s*)?(?:private\s+|protected\s+)?(?:theorem|lemma|def|abbrev|instance|structure|inductive)\s+([A-Za-z_][\w\.\']*)', re.M)
new_files = sorted(glob.glob(os.path.join(src, 'Sigverif/Lemmas/%s*.lean' % prefix))) + [os.path.join(src, 'Sigverif/Props', p) for p in props]
new_rel = [os.path.relpath(f, src) for f in new_files]
existing = {}
for f in glob.glob(os.path.join(dst, 'Sigverif/**/*.lean'), recursive=True):
    rel = os.path.relpath(f, dst)
    if rel in new_rel:
        continue
    for m in DECL.finditer(open(f).read()):
        existing[m.group(1)] = rel
texts = {f: open(f).read() for f in new_files}
declared = set()
for t in texts.values():
    declared.update(m.group(1) for m in DECL.finditer(t))
clash = sorted(n for n in declared if n in existing)
print('clashes:', clash)
for n in clash:
    # do not rename property theorems defined in Props files (they should be unique); rename lemma-level ones
    new = n + '_' + prefix
    pat = re.compile(r'(?<![\w\.\'])' + re.escape(n) + r'(?![\w\'])')
    for f in texts:
        texts[f] = pat.sub(new, texts[f])
for f, t in texts.items():
    out = os.path.join(dst, os.path.relpath(f, src))
    os.makedirs(os.path.dirname(out), exist_ok=True)
    open(out, 'w').write(t)
    print('wrote', os.path.relpath(out, dst))
