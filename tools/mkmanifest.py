import json, sys
sys.path.insert(0, '/verif')
from harness import props
allp = [json.loads(l) for l in open('/verif/properties.jsonl')]
checks = []
na = []
for p in allp:
    pid = p['id']
    cfg = props.PROPS.get(pid)
    if cfg is None:
        na.append(dict(property_id=pid, reason='check not built yet in this session (work in progress; see DESIGN.md section 6 for the intended theorems)'))
        continue
    checks.append(dict(
        property_id=pid,
        quick_cmd='./check %s --tier quick' % pid,
        thorough_cmd='./check %s --tier thorough' % pid,
        evidence_file='evidence/%s.json' % pid,
        replay_cmd_template='./check %s --replay {path}' % pid,
        engine='lean4-model+correspondence',
        level_claimed=dict(category='proof', text=cfg['level_text'], design_ref=cfg.get('design_ref', 'DESIGN.md section 6, ' + pid)),
        level_note=cfg['level_note'],
        technique=cfg.get('technique', 'Lean 4 theorems about a hand-written executable model + differential correspondence check model vs /repo'),
    ))
m = dict(
    version=1,
    setup_cmd='cd lean && lake build',
    hooks=dict(guard='SIGTOOLS_VERIF', enable='no source hooks are needed: the harness imports sigtools from /repo and instruments it from outside (monkey-patching, sys.settrace); SIGTOOLS_VERIF=1 is exported by ./check for forward compatibility',
               baseline_off_cmd='cd /repo && /venv/bin/python -m pytest -ra -q -p no:cacheprovider --timeout=900 --continue-on-collection-errors',
               source_commits=[], add_only=True),
    engines=[dict(name='lean4-model+correspondence', path='lean/ harness/ check',
                  serves_properties=[c['property_id'] for c in checks],
                  kind_free_text='Lean 4 proofs about a hand-written executable model (lean/Sigverif), tied to /repo on every run by a line-protocol differential correspondence check (harness/), plus executable property oracles used only to search for concrete failing inputs')],
    checks=checks,
    notes='Every check: lake build + #print axioms audit of the theorems registered in lean/theorems.json, then the correspondence streams and the oracle; see DESIGN.md. known_findings.json lists repaired (fix:) and recorded defects.',
    not_applicable=na,
)
json.dump(m, open('/verif/MANIFEST.json', 'w'), indent=1)
print(len(checks), 'checks', len(na), 'n/a')
