/-
  Lemmas/C01Roles.lean — role assignments (kind and positional index of every name) and the
  invariant `RI` of the intermediate records of `merge` on role-consistent inputs.
-/
import Sigverif.Lemmas.C01Sound
namespace SV

/-- a global role assignment: the kind and the positional index of every name -/
structure Roles where
  κ : Nat → Kind
  ι : Nat → Nat

variable (ρ : Roles)

/-- the parameters of `ps` sit at role indices `off, off+1, …` -/
def IdxOK (off : Nat) : List Param → Prop
  | [] => True
  | p :: t => ρ.ι p.name = off ∧ IdxOK (off + 1) t

@[simp] theorem IdxOK_nil (off : Nat) : IdxOK ρ off [] ↔ True := Iff.rfl
@[simp] theorem IdxOK_cons (off : Nat) (p : Param) (t : List Param) :
    IdxOK ρ off (p :: t) ↔ ρ.ι p.name = off ∧ IdxOK ρ (off + 1) t := Iff.rfl

theorem IdxOK_append (off : Nat) (a b : List Param) :
    IdxOK ρ off (a ++ b) ↔ IdxOK ρ off a ∧ IdxOK ρ (off + a.length) b := by
  induction a generalizing off with
  | nil => simp
  | cons p t ih =>
    simp only [List.cons_append, IdxOK_cons, ih, List.length_cons]
    have : off + 1 + t.length = off + (t.length + 1) := by omega
    rw [this]
    constructor
    · rintro ⟨h1, h2, h3⟩; exact ⟨⟨h1, h2⟩, h3⟩
    · rintro ⟨⟨h1, h2⟩, h3⟩; exact ⟨h1, h2, h3⟩

theorem IdxOK_map_withKind (off : Nat) (ps : List Param) (k : Kind) :
    IdxOK ρ off (ps.map (·.withKind k)) ↔ IdxOK ρ off ps := by
  induction ps generalizing off with
  | nil => simp
  | cons p t ih => simp [ih]

theorem IdxOK_getElem {off : Nat} {ps : List Param} (h : IdxOK ρ off ps) :
    ∀ i p, ps[i]? = some p → ρ.ι p.name = off + i := by
  induction ps generalizing off with
  | nil => simp
  | cons a t ih =>
    intro i p hp
    cases i with
    | zero => simp at hp; subst hp; exact h.1
    | succ i =>
      simp at hp
      have := ih h.2 i p hp
      omega

theorem IdxOK_of_getElem {off : Nat} {ps : List Param}
    (h : ∀ i p, ps[i]? = some p → ρ.ι p.name = off + i) : IdxOK ρ off ps := by
  induction ps generalizing off with
  | nil => trivial
  | cons a t ih =>
    refine ⟨by simpa using h 0 a (by simp), ih ?_⟩
    intro i p hp
    have := h (i + 1) p (by simpa using hp)
    omega

theorem IdxOK_lb {off : Nat} {ps : List Param} (h : IdxOK ρ off ps) :
    ∀ p ∈ ps, off ≤ ρ.ι p.name := by
  intro p hp
  obtain ⟨i, hi⟩ := List.getElem?_of_mem hp
  have := IdxOK_getElem ρ h i p hi
  omega

theorem IdxOK_ub {off : Nat} {ps : List Param} (h : IdxOK ρ off ps) :
    ∀ p ∈ ps, ρ.ι p.name < off + ps.length := by
  intro p hp
  obtain ⟨i, hi⟩ := List.getElem?_of_mem hp
  have := IdxOK_getElem ρ h i p hi
  have := (List.getElem?_eq_some_iff.1 hi).1
  omega

/-- with `IdxOK`, a name determines the element -/
theorem IdxOK_inj {off : Nat} {ps : List Param} (h : IdxOK ρ off ps) {p q : Param}
    (hp : p ∈ ps) (hq : q ∈ ps) (e : ρ.ι p.name = ρ.ι q.name) : p = q := by
  obtain ⟨i, hi⟩ := List.getElem?_of_mem hp
  obtain ⟨j, hj⟩ := List.getElem?_of_mem hq
  have h1 := IdxOK_getElem ρ h i p hi
  have h2 := IdxOK_getElem ρ h j q hj
  have : i = j := by omega
  subst this
  rw [hi] at hj
  exact Option.some.inj hj

/-- invariant of the intermediate records of a merge of role-consistent signatures -/
structure RI (IsIn : Nat → Prop) (M : Sorted) : Prop where
  bk : BucketKinds M
  kw : KwInv M
  isin : ∀ p, p ∈ M.pos ∨ p ∈ M.pok ∨ p ∈ M.kwo → IsIn p.name
  idx : IdxOK ρ 0 (M.pos ++ M.pok)
  kpos : ∀ p ∈ M.pos, ρ.κ p.name = .po ∨ ρ.κ p.name = .pk
  kpok : ∀ p ∈ M.pok, ρ.κ p.name = .pk
  kkwo : ∀ p ∈ M.kwo, ρ.κ p.name = .ko ∨
    (ρ.κ p.name = .pk ∧ M.va.isSome = false ∧ M.pos.length + M.pok.length ≤ ρ.ι p.name)

/-- what became of a required positional parameter `p` of one operand -/
def Fate (pos pok kwo own : List Param) (p : Param) : Prop :=
  (∃ c ∈ pos, c.required = true ∧ ρ.ι c.name = ρ.ι p.name) ∨
  ((hasReq pok p.name ∨ hasReq kwo p.name) ∧ p ∈ own)

end SV
