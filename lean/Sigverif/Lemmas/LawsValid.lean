/-
  Lemmas/LawsValid.lean — exact characterisation of `validate`.
-/
import Sigverif.Lemmas.LawsFold
namespace SV
set_option linter.unusedSimpArgs false
set_option linter.unusedVariables false

/-- no required positional parameter after an optional one -/
def dfltOK (ps : List Param) : Prop :=
  ps.Pairwise (fun p q => isPositional p = true → isPositional q = true → p.dflt.isSome = true → q.dflt.isSome = true)

theorem isPositional_iff (p : Param) : isPositional p = true ↔ (p.kind = .po ∨ p.kind = .pk) := by
  simp [isPositional]

theorem validateGo_iff (ps : List Param) (top : Nat) (sd : Bool) (seen : List Nat) :
    validateGo top sd seen ps = .ok () ↔
      (∀ p ∈ ps, top ≤ p.kind.rank) ∧ rankSorted ps ∧ (names ps).Nodup ∧ (∀ p ∈ ps, p.name ∉ seen) ∧
      (sd = true → ∀ p ∈ ps, isPositional p = true → p.dflt.isSome = true) ∧ dfltOK ps := by
  induction ps generalizing top sd seen with
  | nil => simp [validateGo, rankSorted, names, dfltOK]
  | cons p ps ih =>
    simp only [validateGo]
    by_cases h1 : p.kind.rank < top
    · rw [if_pos h1]
      constructor
      · intro h; cases h
      · rintro ⟨h, _⟩
        have := h p (by simp)
        omega
    · rw [if_neg h1]
      by_cases h2 : ((p.kind = .po || p.kind = .pk) && p.dflt.isNone && sd) = true
      · rw [if_pos h2]
        constructor
        · intro h; cases h
        · rintro ⟨_, _, _, _, h, _⟩
          simp only [Bool.and_eq_true, Bool.or_eq_true, decide_eq_true_eq] at h2
          have := h h2.2 p (by simp) (by simp [isPositional, h2.1.1])
          have h3 := h2.1.2
          cases hd : p.dflt <;> simp_all
      · rw [if_neg h2]
        by_cases h3 : seen.contains p.name = true
        · rw [if_pos h3]
          constructor
          · intro h; cases h
          · rintro ⟨_, _, _, h, _⟩
            have := h p (by simp)
            simp at h3
            exact absurd h3 this
        · rw [if_neg h3]
          rw [ih]
          have h3' : p.name ∉ seen := by simpa using h3
          constructor
          · rintro ⟨i1, i2, i3, i4, i5, i6⟩
            have hle : ∀ q ∈ ps, p.kind.rank ≤ q.kind.rank ∧ top ≤ q.kind.rank := by
              intro q hq
              have := i1 q hq
              split at this <;> omega
            refine ⟨?_, ?_, ?_, ?_, ?_, ?_⟩
            · intro q hq
              simp only [List.mem_cons] at hq
              rcases hq with rfl | hq
              · omega
              · exact (hle q hq).2
            · simp only [rankSorted, List.pairwise_cons]
              exact ⟨fun q hq => (hle q hq).1, i2⟩
            · simp only [names, List.map_cons, List.nodup_cons]
              refine ⟨?_, i3⟩
              intro hm
              simp only [List.mem_map] at hm
              obtain ⟨q, hq, hqn⟩ := hm
              have := i4 q hq
              simp [hqn] at this
            · intro q hq
              simp only [List.mem_cons] at hq
              rcases hq with rfl | hq
              · exact h3'
              · have := i4 q hq
                simp only [List.mem_cons, not_or] at this
                exact this.2
            · intro hsd q hq hqp
              simp only [List.mem_cons] at hq
              rcases hq with rfl | hq
              · simp only [hsd, Bool.and_true, Bool.and_eq_true, Bool.or_eq_true, decide_eq_true_eq,
                  not_and] at h2
                have := h2 ((isPositional_iff _).1 hqp)
                cases hd : q.dflt <;> simp_all
              · exact i5 (by simp [hsd]) q hq hqp
            · simp only [dfltOK, List.pairwise_cons]
              refine ⟨?_, i6⟩
              intro q hq hpp hqp hpd
              apply i5 _ q hq hqp
              simp only [Bool.or_eq_true, Bool.and_eq_true, decide_eq_true_eq]
              exact .inr ⟨(isPositional_iff _).1 hpp, hpd⟩
          · rintro ⟨j1, j2, j3, j4, j5, j6⟩
            simp only [rankSorted, List.pairwise_cons] at j2
            simp only [names, List.map_cons, List.nodup_cons] at j3
            simp only [dfltOK, List.pairwise_cons] at j6
            refine ⟨?_, j2.2, j3.2, ?_, ?_, j6.2⟩
            · intro q hq
              have a1 := j2.1 q hq
              have a2 := j1 q (by simp [hq])
              split <;> omega
            · intro q hq
              simp only [List.mem_cons, not_or]
              refine ⟨?_, j4 q (by simp [hq])⟩
              intro e
              exact j3.1 (by rw [← e]; exact List.mem_map_of_mem hq)
            · intro hsd q hq hqp
              simp only [Bool.or_eq_true, Bool.and_eq_true, decide_eq_true_eq] at hsd
              rcases hsd with hsd | ⟨hk, hd⟩
              · exact j5 hsd q (by simp [hq]) hqp
              · exact j6.1 q hq ((isPositional_iff _).2 hk) hqp hd

theorem validate_iff (ps : List Param) :
    validate ps = .ok () ↔ rankSorted ps ∧ (names ps).Nodup ∧ dfltOK ps := by
  unfold validate
  rw [validateGo_iff]
  simp

end SV
