/-
  Lemmas/C09RStep.lean — a raising `mergeStep` leaves no common all-positional call:
  the obstruction found by Lemmas/C09RErr.lean, read at the level of the buckets (`accPosB`).
-/
import Sigverif.Lemmas.C09RErr
namespace SV
variable {l r : Sorted}

theorem bind_eq_error_C09R {α β : Type} {x : Except Err α} {f : α → Except Err β} {e : Err}
    (h : (x >>= f) = .error e) : x = .error e ∨ ∃ a, x = .ok a ∧ f a = .error e := by
  cases x with
  | error e' => simp only [bind, Except.bind, Except.error.injEq] at h; subst h; exact Or.inl rfl
  | ok a => exact Or.inr ⟨a, rfl, h⟩

/-- where a raising `mergeStep` raises -/
theorem mergeStep_err_cases {e : Err} (h : mergeStep l r = .error e) :
    phaseP l r l.pos r.pos l.pok r.pok (stK l r) = .error e ∨
    ∃ st1 il ir, phaseP l r l.pos r.pos l.pok r.pok (stK l r) = .ok (st1, il, ir) ∧
      (phaseQ l r il ir st1 = .error e ∨
       ∃ st2, phaseQ l r il ir st1 = .ok st2 ∧
         (mergeUnmatched .L l r st2 = .error e ∨
          ∃ st3, mergeUnmatched .L l r st2 = .ok st3 ∧ mergeUnmatched .R l r st3 = .error e)) := by
  unfold mergeStep at h
  rcases bind_eq_error_C09R h with h1 | ⟨⟨st1, il, ir⟩, h1, h⟩
  · exact Or.inl h1
  refine Or.inr ⟨st1, il, ir, h1, ?_⟩
  rcases bind_eq_error_C09R h with h2 | ⟨st2, h2, h⟩
  · exact Or.inl h2
  refine Or.inr ⟨st2, h2, ?_⟩
  rcases bind_eq_error_C09R h with h3 | ⟨st3, h3, h⟩
  · exact Or.inl h3
  refine Or.inr ⟨st3, h3, ?_⟩
  rcases bind_eq_error_C09R h with h4 | ⟨st4, h4, h⟩
  · exact h4
  · simp [pure, Except.pure] at h

theorem ObstAt.append_right {xs : List Param} {cap : Nat} (post : List Param) (h : ObstAt xs cap) :
    ObstAt (xs ++ post) cap := by
  obtain ⟨i, p, h1, h2, h3⟩ := h
  refine ⟨i, p, ?_, h2, h3⟩
  have hi : i < xs.length := by
    rcases Nat.lt_or_ge i xs.length with hi | hi
    · exact hi
    · rw [List.getElem?_eq_none hi] at h1; cases h1
  rw [List.getElem?_append_left hi]; exact h1

theorem ObstAt.of_drop {xs : List Param} {k cap : Nat} (h : ObstAt (xs.drop k) cap) :
    ObstAt xs (k + cap) := by
  obtain ⟨i, p, h1, h2, h3⟩ := h
  refine ⟨k + i, p, ?_, h2, by omega⟩
  rw [List.getElem?_drop] at h1; exact h1

/-- the positional capacity of one side is exceeded by the required positionals of the other -/
theorem not_accPosB_of_obst {n : Nat} (sl : OptSuffix (l.pos ++ l.pok))
    (hva : r.va.isSome = false) (ho : ObstAt (l.pos ++ l.pok) (r.pos.length + r.pok.length)) :
    ¬ (accPosB l n ∧ accPosB r n) := by
  rintro ⟨⟨a1, -, -⟩, ⟨-, b2, -⟩⟩
  have := ho.reqCount sl
  rw [hva] at b2
  simp only [Bool.false_eq_true, or_false] at b2
  omega

/-- **a raising step has no common all-positional call** (bucket level) -/
theorem mergeStep_err_no_pos {e : Err} (hlk : (names l.kwo).Nodup) (hrk : (names r.kwo).Nodup)
    (sl : OptSuffix (l.pos ++ l.pok)) (sr : OptSuffix (r.pos ++ r.pok))
    (h : mergeStep l r = .error e) (n : Nat) : ¬ (accPosB l n ∧ accPosB r n) := by
  obtain ⟨-, -, -, hLun, hRun⟩ := stK_upd (l := l) (r := r) hlk hrk
  rcases mergeStep_err_cases h with h1 | ⟨st1, il, ir, h1, h⟩
  · -- phase P
    rcases phaseP_err_obst _ _ _ _ _ _ h1 with ⟨hva, ho⟩ | ⟨hva, ho⟩
    · exact not_accPosB_of_obst sl hva (ho.append_right _)
    · exact fun hh => not_accPosB_of_obst sr hva (ho.append_right _) hh.symm
  have S := phaseP_spec _ _ _ _ _ _ _ _ h1
  obtain ⟨d1, d2⟩ := phaseP_ok_drop _ _ _ _ _ _ _ _ h1
  rcases h with h2 | ⟨st2, h2, h⟩
  · -- phase Q
    rcases phaseQ_err_obst _ _ _ _ h2 with ⟨hva, -, ho⟩ | ⟨hva, -, ho⟩
    · apply not_accPosB_of_obst sl hva
      rw [d1] at ho
      refine (ho.of_drop.append_left l.pos).mono ?_
      rw [d2, List.length_drop]; omega
    · intro hh
      apply not_accPosB_of_obst sr hva _ hh.symm
      rw [d2] at ho
      refine (ho.of_drop.append_left r.pos).mono ?_
      rw [d1, List.length_drop]; omega
  obtain ⟨q1, q2⟩ := phaseQ_un_sub _ _ _ _ h2
  rcases h with h3 | ⟨st3, h3, h4⟩
  · -- a required keyword-only parameter of the left operand
    obtain ⟨p, hp, hr⟩ := mergeUnmatched_L_err h3
    have hp' : p ∈ l.kwo := by
      have := q1 p hp
      rw [S.lun, hLun] at this
      exact (mem_lUnK.1 this).1
    rintro ⟨⟨-, -, a3⟩, -⟩
    exact a3 ⟨p, hp', hr⟩
  · obtain ⟨p, hp, hr⟩ := mergeUnmatched_R_err h4
    have e3 : st3.rUn = st2.rUn := by
      rcases mergeUnmatched_L_inv h3 with ⟨-, hu⟩ | ⟨-, hu⟩ | ⟨-, hu⟩ <;> exact hu.2.2.2.2
    have hp' : p ∈ r.kwo := by
      rw [e3] at hp
      have := q2 p hp
      rw [S.run, hRun] at this
      exact (mem_rUnK.1 this).1
    rintro ⟨-, ⟨-, -, b3⟩⟩
    exact b3 ⟨p, hp', hr⟩

end SV
