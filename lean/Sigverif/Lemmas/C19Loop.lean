/-
  Lemmas/C19Loop.lean — the loop over the keyword bindings of a `functools.partial` object:
  invariant, names, bound keywords, provenance, and exactness with respect to `accepts`.
-/
import Sigverif.Lemmas.C19Step
namespace SV


theorem maskNamesP_cons (vk : Option Param) (st : KState) (x v o : Nat) (kw : List (Nat × Nat)) :
    maskNames vk st (partNames ((x, v) :: kw) o) =
      match maskName vk st x (some (v, o)) with
      | .error e => .error e
      | .ok st' => maskNames vk st' (partNames kw o) := by
  simp only [partNames, List.map_cons, maskNames, bind, Except.bind]
  cases maskName vk st x (some (v, o)) <;> rfl

/-- the keywords `f` finally receives: the bound ones, overridden by the call's -/
def bindK : List Nat → List Nat → List Nat
  | [], K => K
  | x :: xs, K => x :: (bindK xs K).filter (fun k => decide (k ≠ x))

theorem mem_bindK {xs K : List Nat} {y : Nat} : y ∈ bindK xs K ↔ y ∈ xs ∨ y ∈ K := by
  induction xs with
  | nil => simp [bindK]
  | cons x t ih =>
    simp only [bindK, List.mem_cons, List.mem_filter, ih, decide_eq_true_eq]
    by_cases h : y = x
    · simp [h]
    · simp [h]

theorem accP_congr_K {s : Sorted} {m : Nat} {K K' : List Nat} (h : ∀ y, y ∈ K ↔ y ∈ K') :
    AccP s m K ↔ AccP s m K' := by
  unfold AccP
  simp only [h]

theorem starNamed_false_iff {va vk : Option Param} {x : Nat} :
    starNamed va vk x = false ↔ (∀ a, va = some a → a.name ≠ x) ∧ (∀ k, vk = some k → k.name ≠ x) := by
  unfold starNamed
  cases va <;> cases vk <;> simp

theorem starNamed_mono {va va' vk : Option Param} {x : Nat} (h : va' = none ∨ va' = va)
    (hs : starNamed va vk x = false) : starNamed va' vk x = false := by
  rcases h with rfl | rfl
  · rw [starNamed_false_iff] at hs ⊢
    exact ⟨fun a ha => (nomatch ha), hs.2⟩
  · exact hs

/-- pok unchanged or `*args` gone -/
def PokOrVa (st st' : KState) : Prop := st'.pok = st.pok ∨ st'.va = none

theorem loopP_inv {pos : List Param} {vk : Option Param} {o : Nat} (kw : List (Nat × Nat))
    {st st' : KState} (inv : WInv_C19 pos vk st)
    (h : maskNames vk st (partNames kw o) = .ok st') :
    WInv_C19 pos vk st' ∧ (∀ x ∈ kw.map (·.1), x ∉ st.consumed) ∧
    (∀ y, (y ∈ names st'.pok ∨ y ∈ names st'.kwo) →
      (y ∈ names st.pok ∨ y ∈ names st.kwo ∨ y ∈ kw.map (·.1))) ∧
    (st'.va = none ∨ st'.va = st.va) ∧ st'.pok <+: st.pok ∧
    (∀ x ∈ kw.map (·.1), x ∉ names st'.pok) ∧ PokOrVa st st' ∧
    (∀ p ∈ st.kwo, p.name ∉ kw.map (·.1) → p ∈ st'.kwo) ∧
    ((kw.map (·.1)).Nodup →
      ∀ kv ∈ kw, starNamed st.va vk kv.1 = false →
        ∃ p ∈ st'.kwo, p.name = kv.1 ∧ p.kind = .ko ∧ p.dflt = some kv.2) := by
  induction kw generalizing st with
  | nil =>
    simp only [partNames, List.map_nil, maskNames] at h
    cases h
    simp [inv, PokOrVa]
  | cons a rest ih =>
    obtain ⟨x, v⟩ := a
    rw [maskNamesP_cons] at h
    have hk := maskNameP_kind inv x v o
    cases hr : maskName vk st x (some (v, o)) with
    | error e => rw [hr] at h; cases h
    | ok st1 =>
      rw [hr] at h hk
      simp only at h
      obtain ⟨inv1, hc1, hn1, hva1, hpre1, hx1, hxva1, hkeep1, hb1⟩ := stepP_inv inv hk
      obtain ⟨inv', hc', hn', hva', hpre', hx', hpv', hkeep', hb'⟩ := ih inv1 h
      have hxc : x ∉ st.consumed := by
        cases hk with
        | hitPok _ _ _ hc _ _ => exact hc
        | hitKwo _ hc _ _ _ => exact hc
        | toVk hc _ _ _ _ => exact hc
        | toStar hc _ _ _ _ => exact hc
      refine ⟨inv', ?_, ?_, ?_, hpre'.trans hpre1, ?_, ?_, ?_, ?_⟩
      · intro y hy
        simp only [List.map_cons, List.mem_cons] at hy
        rcases hy with rfl | hy
        · exact hxc
        · have := hc' y hy
          rw [hc1] at this
          intro h0; apply this; simp [h0]
      · intro y hy
        simp only [List.map_cons, List.mem_cons]
        rcases hn' y hy with h1 | h1 | h1
        · rcases hn1 y (Or.inl h1) with h2 | h2 | h2
          · exact Or.inl h2
          · exact Or.inr (Or.inl h2)
          · exact Or.inr (Or.inr (Or.inl h2))
        · rcases hn1 y (Or.inr h1) with h2 | h2 | h2
          · exact Or.inl h2
          · exact Or.inr (Or.inl h2)
          · exact Or.inr (Or.inr (Or.inl h2))
        · exact Or.inr (Or.inr (Or.inr h1))
      · rcases hva' with h1 | h1
        · exact Or.inl h1
        · rw [h1]; exact hva1
      · intro y hy
        simp only [List.map_cons, List.mem_cons] at hy
        rcases hy with rfl | hy
        · intro hm
          exact hx1 (by
            obtain ⟨t, ht⟩ := hpre'
            rw [← ht]; simp [hm])
        · exact hx' y hy
      · unfold PokOrVa at hpv' ⊢
        rcases hpv' with h1 | h1
        · by_cases hxp : x ∈ names st.pok
          · right
            rcases hva' with h2 | h2
            · exact h2
            · rw [h2]; exact hxva1 hxp
          · -- no hit: pok unchanged by the first step
            cases hk with
            | hitPok before conv bp hc hpok hx =>
              exfalso; apply hxp; rw [hpok, ← hx]; simp
            | hitKwo _ _ _ _ _ => exact Or.inl h1
            | toVk _ _ _ _ _ => exact Or.inl h1
            | toStar _ _ _ _ _ => exact Or.inl h1
        · exact Or.inr h1
      · intro p hp hne
        simp only [List.map_cons, List.mem_cons, not_or] at hne
        exact hkeep' p (hkeep1 p hp hne.1) hne.2
      · intro hnd kv hkv hns
        simp only [List.map_cons, List.nodup_cons] at hnd
        simp only [List.mem_cons] at hkv
        rcases hkv with rfl | hkv
        · obtain ⟨p, hp, h1, h2, h3⟩ := hb1 (fun hh => by rw [hns] at hh; cases hh.2.2)
          exact ⟨p, hkeep' p hp (by rw [h1]; exact hnd.1), h1, h2, h3⟩
        · exact hb' hnd.2 kv hkv (starNamed_mono hva1 hns)


theorem loopP_acc {pos : List Param} {vk : Option Param} {o : Nat} (kw : List (Nat × Nat))
    {st st' : KState} (inv : WInv_C19 pos vk st)
    (hnd : (names (pos ++ st.pok ++ st.kwo)).Nodup)
    (hxp : ∀ x ∈ kw.map (·.1), x ∉ names pos)
    (h : maskNames vk st (partNames kw o) = .ok st') (m : Nat) (K : List Nat) :
    AccP (sOf pos vk st') m K ↔ AccP (sOf pos vk st) m (bindK (kw.map (·.1)) K) := by
  induction kw generalizing st with
  | nil =>
    simp only [partNames, List.map_nil, maskNames] at h
    cases h
    simp [bindK]
  | cons a rest ih =>
    obtain ⟨x, v⟩ := a
    rw [maskNamesP_cons] at h
    have hk := maskNameP_kind inv x v o
    cases hr : maskName vk st x (some (v, o)) with
    | error e => rw [hr] at h; cases h
    | ok st1 =>
      rw [hr] at h hk
      simp only at h
      have inv1 := (stepP_inv inv hk).1
      obtain ⟨hnd1, hacc1⟩ := stepP_acc hnd (hxp x (by simp)) hk m (bindK (rest.map (·.1)) K)
      rw [ih inv1 hnd1 (fun y hy => hxp y (by simp [hy])) h, hacc1]
      simp [bindK]

theorem loopP_src_keep {pos : List Param} {vk : Option Param} {o : Nat} (kw : List (Nat × Nat))
    {st st' : KState} (inv : WInv_C19 pos vk st)
    (h : maskNames vk st (partNames kw o) = .ok st') (y : Nat) (hy : y ∉ kw.map (·.1))
    (hva : ∀ a, st.va = some a → a.name ≠ y) : dget st'.src y = dget st.src y := by
  induction kw generalizing st with
  | nil =>
    simp only [partNames, List.map_nil, maskNames] at h
    cases h; rfl
  | cons a rest ih =>
    obtain ⟨x, v⟩ := a
    rw [maskNamesP_cons] at h
    have hk := maskNameP_kind inv x v o
    cases hr : maskName vk st x (some (v, o)) with
    | error e => rw [hr] at h; cases h
    | ok st1 =>
      rw [hr] at h hk
      simp only at h
      simp only [List.map_cons, List.mem_cons, not_or] at hy
      obtain ⟨inv1, -, -, hva1, -⟩ := stepP_inv inv hk
      have hva' : ∀ a, st1.va = some a → a.name ≠ y := by
        intro a ha
        rcases hva1 with e | e
        · rw [e] at ha; cases ha
        · rw [e] at ha; exact hva a ha
      rw [ih inv1 h hy.2 hva', (stepP_src hk).1 y hy.1 hva]

theorem loopP_src {pos : List Param} {vk : Option Param} {o : Nat} (kw : List (Nat × Nat))
    {st st' : KState} (inv : WInv_C19 pos vk st) (hnd : (kw.map (·.1)).Nodup)
    (h : maskNames vk st (partNames kw o) = .ok st') :
    ∀ kv ∈ kw, kv.1 ∉ names st.pok → kv.1 ∉ names st.kwo → (∀ a, st.va = some a → a.name ≠ kv.1) →
      (∀ k, vk = some k → k.name ≠ kv.1) → dget st'.src kv.1 = some [o] := by
  induction kw generalizing st with
  | nil => simp
  | cons a rest ih =>
    obtain ⟨x, v⟩ := a
    rw [maskNamesP_cons] at h
    have hk := maskNameP_kind inv x v o
    cases hr : maskName vk st x (some (v, o)) with
    | error e => rw [hr] at h; cases h
    | ok st1 =>
      rw [hr] at h hk
      simp only at h
      simp only [List.map_cons, List.nodup_cons] at hnd
      obtain ⟨inv1, -, hn1, hva1, -⟩ := stepP_inv inv hk
      intro kv hkv h1 h2 h3 h4
      have hva' : ∀ a, st1.va = some a → a.name ≠ kv.1 := by
        intro a ha
        rcases hva1 with e | e
        · rw [e] at ha; cases ha
        · rw [e] at ha; exact h3 a ha
      simp only [List.mem_cons] at hkv
      rcases hkv with rfl | hkv
      · rw [loopP_src_keep rest inv1 h _ hnd.1 hva']
        exact (stepP_src hk).2 h1 h2 (starNamed_false_iff.2 ⟨h3, h4⟩)
      · have hne : kv.1 ≠ x := by
          intro e; apply hnd.1; rw [← e]; exact List.mem_map.2 ⟨kv, hkv, rfl⟩
        apply ih inv1 hnd.2 h kv hkv
        · intro hm
          rcases hn1 _ (Or.inl hm) with c | c | c
          · exact h1 c
          · exact h2 c
          · exact hne c
        · intro hm
          rcases hn1 _ (Or.inr hm) with c | c | c
          · exact h1 c
          · exact h2 c
          · exact hne c
        · exact hva'
        · exact h4

theorem Inv.toWInv {pos : List Param} {vk : Option Param} {st : KState} (inv : Inv pos vk st) :
    WInv_C19 pos vk st := by
  refine ⟨inv.swf.bk, inv.nodup0, inv.swf.df, inv.byn⟩


end SV
