/-
  Lemmas/C03Basic.lean — basic facts used by the C03 (mask) proofs:
  names / pset / pupdate / pget, a declarative reading of `validate`, and the
  bucket decomposition of a well-formed signature by `sortParams`.
-/
import Sigverif.Props.Defs
namespace SV

/-! ### names -/

@[simp] theorem names_nil : names ([] : List Param) = [] := rfl
@[simp] theorem names_cons (p : Param) (l : List Param) : names (p :: l) = p.name :: names l := rfl
@[simp] theorem names_append (a b : List Param) : names (a ++ b) = names a ++ names b := by
  simp [names]
theorem mem_names {x : Nat} {l : List Param} : x ∈ names l ↔ ∃ p ∈ l, p.name = x := by
  simp [names]
theorem mem_names_of_mem {p : Param} {l : List Param} (h : p ∈ l) : p.name ∈ names l :=
  mem_names.2 ⟨p, h, rfl⟩
@[simp] theorem names_map_withKind (l : List Param) (k : Kind) :
    names (l.map (·.withKind k)) = names l := by
  simp [names, Param.withKind]
@[simp] theorem names_toList_none : names (none : Option Param).toList = [] := rfl
@[simp] theorem names_toList_some (p : Param) : names (some p).toList = [p.name] := rfl
@[simp] theorem names_length (l : List Param) : (names l).length = l.length := by simp [names]
theorem names_take (l : List Param) (n : Nat) : names (l.take n) = (names l).take n := by
  simp [names]
theorem names_drop (l : List Param) (n : Nat) : names (l.drop n) = (names l).drop n := by
  simp [names]

/-! ### pset / pupdate / pget / ppop -/

theorem pset_of_not_mem {d : List Param} {p : Param} (h : p.name ∉ names d) :
    pset d p = d ++ [p] := by
  induction d with
  | nil => rfl
  | cons q t ih =>
    simp only [names_cons, List.mem_cons, not_or] at h
    have hq : ¬ q.name = p.name := fun e => h.1 e.symm
    simp [pset, hq, ih h.2]

theorem pupdate_of_disjoint {d e : List Param}
    (hd : ∀ x ∈ names e, x ∉ names d) (he : (names e).Nodup) :
    pupdate d e = d ++ e := by
  induction e generalizing d with
  | nil => simp [pupdate]
  | cons p t ih =>
    simp only [names_cons, List.nodup_cons, List.mem_cons, forall_eq_or_imp] at hd he
    have h1 : pset d p = d ++ [p] := pset_of_not_mem hd.1
    show pupdate (pset d p) t = _
    rw [h1, ih]
    · simp
    · intro x hx
      simp only [names_append, names_cons, names_nil, List.mem_append, List.mem_singleton, not_or]
      exact ⟨hd.2 x hx, fun e => he.1 (e ▸ hx)⟩
    · exact he.2

theorem pget_eq_none {l : List Param} {x : Nat} : pget l x = none ↔ x ∉ names l := by
  simp [pget, mem_names]

theorem pget_some {l : List Param} {x : Nat} {p : Param} (h : pget l x = some p) :
    p ∈ l ∧ p.name = x := by
  unfold pget at h
  have := List.find?_some h
  exact ⟨List.mem_of_find?_eq_some h, by simpa using this⟩

theorem pget_append_of_not_mem {a b : List Param} {x : Nat} (h : x ∉ names a) :
    pget (a ++ b) x = pget b x := by
  have : pget a x = none := pget_eq_none.2 h
  unfold pget at *
  simp [List.find?_append, this]

theorem mem_names_ppop {l : List Param} {x y : Nat} :
    y ∈ names (ppop l x) ↔ y ∈ names l ∧ y ≠ x := by
  simp only [mem_names, ppop, List.mem_filter]
  constructor
  · rintro ⟨p, ⟨hp, hne⟩, rfl⟩
    exact ⟨⟨p, hp, rfl⟩, by simpa using hne⟩
  · rintro ⟨⟨p, hp, rfl⟩, hne⟩
    exact ⟨p, ⟨hp, by simpa using hne⟩, rfl⟩

/-- splitting a list at the parameter found by name -/
theorem pget_split {l : List Param} {x : Nat} {bp : Param} (h : pget l x = some bp) :
    ∃ i, indexOf? l bp = some i ∧ l = l.take i ++ bp :: l.drop (i + 1) ∧
      x ∉ names (l.take i) ∧ bp.name = x := by
  induction l with
  | nil => simp [pget] at h
  | cons q t ih =>
    unfold pget at h
    rw [List.find?_cons] at h
    by_cases hq : q.name = x
    · simp only [hq, decide_true] at h
      cases h
      exact ⟨0, by simp [indexOf?], by simp, by simp, hq⟩
    · simp only [hq, decide_false] at h
      obtain ⟨i, h1, h2, h3, h4⟩ := ih h
      have hne : ¬ q = bp := fun e => hq (e ▸ h4)
      refine ⟨i + 1, by simp [indexOf?, hne, h1], ?_, ?_, h4⟩
      · simpa using h2
      · simp only [List.take_succ_cons, names_cons, List.mem_cons, not_or]
        exact ⟨fun e => hq e.symm, h3⟩

/-! ### validate, declaratively -/

/-- the pairwise relation enforced by `inspect.Signature.__init__` -/
def VR (p q : Param) : Prop :=
  p.kind.rank ≤ q.kind.rank ∧
  (isPositional p = true → p.dflt.isSome = true → isPositional q = true → q.dflt.isSome = true) ∧
  p.name ≠ q.name

theorem validateGo_cons (top : Nat) (seenD : Bool) (seen : List Nat) (p : Param) (ps : List Param) :
    validateGo top seenD seen (p :: ps) =
      if p.kind.rank < top then .error .valueError else
      if ((p.kind = .po || p.kind = .pk) && p.dflt.isNone && seenD) = true then .error .valueError else
      if seen.contains p.name = true then .error .valueError else
      validateGo (if p.kind.rank > top then p.kind.rank else top)
        (seenD || ((p.kind = .po || p.kind = .pk) && p.dflt.isSome)) (p.name :: seen) ps := rfl

theorem validateGo_ok_iff (top : Nat) (seenD : Bool) (seen : List Nat) (ps : List Param) :
    validateGo top seenD seen ps = .ok () ↔
      (∀ p ∈ ps, top ≤ p.kind.rank ∧
         (seenD = true → isPositional p = true → p.dflt.isSome = true) ∧ p.name ∉ seen) ∧
      ps.Pairwise VR := by
  induction ps generalizing top seenD seen with
  | nil => simp [validateGo]
  | cons p ps ih =>
    rw [validateGo_cons]
    by_cases h1 : p.kind.rank < top
    · rw [if_pos h1]
      constructor
      · intro h; cases h
      · rintro ⟨h, -⟩
        have := (h p (by simp)).1
        omega
    · rw [if_neg h1]
      have htop : (if p.kind.rank > top then p.kind.rank else top) = p.kind.rank := by
        split <;> omega
      rw [htop]
      by_cases h2 : ((p.kind = .po || p.kind = .pk) && p.dflt.isNone && seenD) = true
      · rw [if_pos h2]
        constructor
        · intro h; cases h
        · rintro ⟨h, -⟩
          have := (h p (by simp)).2.1
          simp only [Bool.and_eq_true, Bool.or_eq_true, decide_eq_true_eq] at h2
          have hp : isPositional p = true := by simpa [isPositional] using h2.1.1
          have := this h2.2 hp
          have h3 := h2.1.2
          cases hd : p.dflt <;> simp_all
      · rw [if_neg h2]
        by_cases h3 : seen.contains p.name = true
        · rw [if_pos h3]
          constructor
          · intro h; cases h
          · rintro ⟨h, -⟩
            have := (h p (by simp)).2.2
            simp at h3
            exact absurd h3 this
        · rw [if_neg h3, ih]
          simp only [List.mem_cons, forall_eq_or_imp, List.pairwise_cons, VR]
          have h3' : p.name ∉ seen := by simpa using h3
          have h2' : seenD = true → isPositional p = true → p.dflt.isSome = true := by
            intro hs hp
            cases hd : p.dflt with
            | some _ => rfl
            | none =>
              exfalso; apply h2
              simp only [isPositional, Bool.or_eq_true, decide_eq_true_eq] at hp
              simp [hd, hs, hp]
          constructor
          · rintro ⟨hall, hpw⟩
            refine ⟨⟨⟨by omega, h2', h3'⟩, ?_⟩, ?_, hpw⟩
            · intro q hq
              obtain ⟨a, b, c⟩ := hall q hq
              refine ⟨by omega, ?_, ?_⟩
              · intro hs; apply b; simp [hs]
              · intro hc; apply c; simp [hc]
            · intro q hq
              obtain ⟨a, b, c⟩ := hall q hq
              refine ⟨a, ?_, ?_⟩
              · intro hp hd hqp
                apply b _ hqp
                simp only [isPositional, Bool.or_eq_true, decide_eq_true_eq] at hp
                simp [hp, hd]
              · intro e; apply c; simp [e]
          · rintro ⟨⟨⟨a, b, c⟩, hall⟩, hpq, hpw⟩
            refine ⟨?_, hpw⟩
            intro q hq
            obtain ⟨a', b', c'⟩ := hall q hq
            obtain ⟨r1, r2, r3⟩ := hpq q hq
            refine ⟨r1, ?_, ?_⟩
            · intro hs hqp
              simp only [Bool.or_eq_true, Bool.and_eq_true] at hs
              rcases hs with hs | ⟨hs1, hs2⟩
              · exact b' hs hqp
              · apply r2 _ hs2 hqp
                simpa [isPositional] using hs1
            · simp only [not_or]
              exact ⟨fun e => r3 e.symm, c'⟩

theorem validOk_iff (ps : List Param) : validOk ps = true ↔ ps.Pairwise VR := by
  unfold validOk validate
  have := validateGo_ok_iff 0 false [] ps
  cases h : validateGo 0 false [] ps with
  | error e => simp [h] at this ⊢; exact this
  | ok u => cases u; simp [h] at this ⊢; exact this

theorem validate_ok_iff (ps : List Param) : validate ps = .ok () ↔ ps.Pairwise VR := by
  rw [← validOk_iff]; unfold validOk
  cases h : validate ps <;> simp

theorem validateGo_err (top : Nat) (seenD : Bool) (seen : List Nat) (ps : List Param) (e : Err)
    (h : validateGo top seenD seen ps = .error e) : e = .valueError := by
  induction ps generalizing top seenD seen with
  | nil => simp [validateGo] at h
  | cons p ps ih =>
    rw [validateGo_cons] at h
    split at h
    · cases h; rfl
    · split at h
      · cases h; rfl
      · split at h
        · cases h; rfl
        · exact ih _ _ _ h

theorem validate_err (ps : List Param) (e : Err) (h : validate ps = .error e) : e = .valueError :=
  validateGo_err _ _ _ _ _ h

end SV

