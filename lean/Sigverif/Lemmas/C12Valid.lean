/-
  Lemmas/C12Valid.lean — characterisation of `validate` (the Signature constructor check).
-/
import Sigverif.Props.Defs
import Sigverif.Model.Modifiers
namespace SV

theorem validateGo_err_C12 {top : Nat} {sd : Bool} {seen : List Nat} {ps : List Param} {e : Err}
    (h : validateGo top sd seen ps = .error e) : e = .valueError := by
  induction ps generalizing top sd seen with
  | nil => simp [validateGo] at h
  | cons p ps ih =>
    simp only [validateGo] at h
    split at h
    · cases h; rfl
    · split at h
      · cases h; rfl
      · split at h
        · cases h; rfl
        · exact ih h

theorem validate_err_C12 {ps : List Param} {e : Err} (h : validate ps = .error e) : e = .valueError :=
  validateGo_err_C12 h

def RankSorted_C12 (ps : List Param) : Prop := ps.Pairwise (fun p q => p.kind.rank ≤ q.kind.rank)
def NamesDistinct (ps : List Param) : Prop := ps.Pairwise (fun p q => p.name ≠ q.name)
def DefSuffix (ps : List Param) : Prop :=
  (positionals ps).Pairwise (fun p q => p.dflt.isSome = true → q.dflt.isSome = true)

theorem positionals_cons (p : Param) (ps : List Param) :
    positionals (p :: ps) = if isPositional p then p :: positionals ps else positionals ps := by
  simp [positionals, List.filter_cons]

theorem validateGo_ok_iff_C12 {top : Nat} {sd : Bool} {seen : List Nat} {ps : List Param} :
    validateGo top sd seen ps = .ok () ↔
      (∀ p ∈ ps, top ≤ p.kind.rank) ∧ RankSorted_C12 ps ∧ (∀ p ∈ ps, p.name ∉ seen) ∧ NamesDistinct ps ∧
      (sd = true → ∀ p ∈ positionals ps, p.dflt.isSome = true) ∧ DefSuffix ps := by
  induction ps generalizing top sd seen with
  | nil => simp [validateGo, RankSorted_C12, NamesDistinct, DefSuffix, positionals]
  | cons p ps ih =>
    simp only [validateGo]
    by_cases h1 : p.kind.rank < top
    · simp only [h1, if_true]
      constructor
      · intro h; cases h
      · rintro ⟨h, -⟩; have := h p (by simp); omega
    · simp only [h1, if_false]
      by_cases h2 : ((p.kind = .po || p.kind = .pk) && p.dflt.isNone && sd) = true
      · simp only [h2, if_true]
        constructor
        · intro h; cases h
        · rintro ⟨-, -, -, -, h, -⟩
          simp only [Bool.and_eq_true] at h2
          have hp : isPositional p = true := by simpa [isPositional] using h2.1.1
          have := h h2.2 p (by simp [positionals_cons, hp])
          have h3 := h2.1.2
          cases hd : p.dflt <;> simp_all
      · simp only [h2, Bool.false_eq_true, ↓reduceIte]
        by_cases h3 : seen.contains p.name = true
        · simp only [h3, if_true]
          constructor
          · intro h; cases h
          · rintro ⟨-, -, h, -⟩
            have := h p (by simp)
            simp at h3; contradiction
        · simp only [h3, Bool.false_eq_true, ↓reduceIte]
          rw [ih]
          simp only [RankSorted_C12, NamesDistinct, DefSuffix, positionals_cons, List.pairwise_cons,
            List.forall_mem_cons]
          by_cases hp : isPositional p = true
          · have hp' : (p.kind = .po || p.kind = .pk) = true := by simpa [isPositional] using hp
            simp only [hp, hp', if_true, List.pairwise_cons, List.forall_mem_cons, Bool.true_and] at h2 ⊢
            simp at h3
            constructor
            · rintro ⟨a1, a2, a3, a4, a5, a6⟩
              refine ⟨⟨by omega, fun q hq => ?_⟩, ⟨fun q hq => ?_, a2⟩, ⟨h3, fun q hq => ?_⟩, ⟨fun q hq => ?_, a4⟩, ?_, ?_, a6⟩
              · have := a1 q hq; split at this <;> omega
              · have := a1 q hq; split at this <;> omega
              · have := a3 q hq; simp at this; exact this.2
              · have := a3 q hq; simp at this; exact fun h => this.1 h.symm
              · intro hs; subst hs
                refine ⟨by cases hd : p.dflt <;> simp_all, fun q hq => a5 (by simp) q hq⟩
              · intro q hq hd; exact a5 (by simp [hd]) q hq
            · rintro ⟨⟨b1, b1'⟩, ⟨b2, b2'⟩, ⟨b3, b3'⟩, ⟨b4, b4'⟩, b5, b6, b6'⟩
              refine ⟨fun q hq => ?_, b2', fun q hq => ?_, b4', ?_, b6'⟩
              · have := b1' q hq; have := b2 q hq; split <;> omega
              · simp; exact ⟨fun h => b4 q hq h.symm, b3' q hq⟩
              · intro hs q hq
                simp at hs
                rcases hs with hs | hs
                · exact (b5 hs).2 q hq
                · exact b6 q hq hs
          · have hp' : (p.kind = .po || p.kind = .pk) = false := by simpa [isPositional] using hp
            simp only [hp, hp', Bool.false_and, Bool.or_false] at h2 ⊢
            simp at h3
            constructor
            · rintro ⟨a1, a2, a3, a4, a5, a6⟩
              refine ⟨⟨by omega, fun q hq => ?_⟩, ⟨fun q hq => ?_, a2⟩, ⟨h3, fun q hq => ?_⟩, ⟨fun q hq => ?_, a4⟩, ?_, a6⟩
              · have := a1 q hq; split at this <;> omega
              · have := a1 q hq; split at this <;> omega
              · have := a3 q hq; simp at this; exact this.2
              · have := a3 q hq; simp at this; exact fun h => this.1 h.symm
              · simpa using a5
            · rintro ⟨⟨b1, b1'⟩, ⟨b2, b2'⟩, ⟨b3, b3'⟩, ⟨b4, b4'⟩, b5, b6⟩
              refine ⟨fun q hq => ?_, b2', fun q hq => ?_, b4', ?_, b6⟩
              · have := b1' q hq; have := b2 q hq; split <;> omega
              · simp; exact ⟨fun h => b4 q hq h.symm, b3' q hq⟩
              · simpa using b5

theorem validate_ok_iff_C12 {ps : List Param} :
    validate ps = .ok () ↔ RankSorted_C12 ps ∧ NamesDistinct ps ∧ DefSuffix ps := by
  unfold validate
  rw [validateGo_ok_iff_C12]
  simp

theorem validOk_iff_C12 {ps : List Param} :
    validOk ps = true ↔ RankSorted_C12 ps ∧ NamesDistinct ps ∧ DefSuffix ps := by
  rw [← validate_ok_iff_C12]
  unfold validOk
  split
  · rename_i u h; cases u; simp [h]
  · rename_i e h; simp [h]

end SV
