/-
  Lemmas/LawsNeutral.lean — merging with a bare `(*args, **kwargs)`.
-/
import Sigverif.Lemmas.LawsIdem
namespace SV
set_option linter.unusedSimpArgs false
set_option linter.unusedVariables false

theorem sortParams_bare (bare : USig) (a k : Param) (ha : a.kind = .vp) (hk : k.kind = .vk)
    (hb : bare.params = [a, k]) :
    sortParams bare = { va := some a, vk := some k, src := bare.src, depths := bare.depths } := by
  simp [sortParams, sortGo, hb, ha, hk, copyDepths_zero_Laws]

theorem concile_bare (lp a : Param) (ha : a.ann = none) (hd : lp.dflt = none)
    (hu : lp.ann = none → lp.uann = .empty) : concile lp a = lp := by
  obtain ⟨n, k, d, an, u⟩ := lp
  obtain ⟨n', k', d', an', u'⟩ := a
  simp only at ha hd hu
  subst ha hd
  simp only [concile]
  cases an <;> simp_all

theorem mergeStep_bare_r (S B : Sorted) (a k : Param)
    (hBpos : B.pos = []) (hBpok : B.pok = []) (hBkwo : B.kwo = []) (hBva : B.va = some a)
    (hBvk : B.vk = some k) (hn : (names S.kwo).Nodup) :
    ∃ s, mergeStep S B = .ok s ∧ s.pos = S.pos ∧ s.pok = S.pok ∧ s.kwo = S.kwo ∧
      s.va = S.va.map (fun lp => if S.pos = [] then concile lp a else lp) ∧
      s.vk = S.vk.map (fun lp => if S.kwo = [] then concile lp k else lp) := by
  have hva : B.va.isSome = true := by simp [hBva]
  have hvk : B.vk.isSome = true := by simp [hBvk]
  have c1 := phaseK1_none_core S B S.kwo
    { vaL := S.va.isSome, vaR := B.va.isSome, vkL := S.vk.isSome, vkR := B.vk.isSome }
    (fun p hp => by rw [hBkwo]; rfl) hn (by simp [names])
  have c2 : ∀ st, phaseK2 S B.kwo st = st := by intro st; rw [hBkwo]; rfl
  obtain ⟨st1, e1, c3⟩ := phaseP_left_core S B S.pos S.pok (phaseK2 S B.kwo (phaseK1 S B S.kwo
    { vaL := S.va.isSome, vaR := B.va.isSome, vkL := S.vk.isSome, vkR := B.vk.isSome })) hva
  rw [c2] at c3
  have hcore1 : st1.core = ⟨S.pos, [], [], S.va.isSome, S.pos.isEmpty, S.vk.isSome, true, S.kwo, []⟩ := by
    rw [c3]
    have e' : (phaseK1 S B S.kwo
      { vaL := S.va.isSome, vaR := B.va.isSome, vkL := S.vk.isSome, vkR := B.vk.isSome }).pos =
      (phaseK1 S B S.kwo
      { vaL := S.va.isSome, vaR := B.va.isSome, vkL := S.vk.isSome, vkR := B.vk.isSome }).core.pos := rfl
    have e'' : (phaseK1 S B S.kwo
      { vaL := S.va.isSome, vaR := B.va.isSome, vkL := S.vk.isSome, vkR := B.vk.isSome }).vaR =
      (phaseK1 S B S.kwo
      { vaL := S.va.isSome, vaR := B.va.isSome, vkL := S.vk.isSome, vkR := B.vk.isSome }).core.vaR := rfl
    rw [e', e'', c1]
    simp [MState.core, hva, hvk]
  obtain ⟨st2, e2, c4⟩ := phaseQ_left_core S B S.pok st1 hva hvk (congrArg Core.rUn hcore1)
  have hcore2 : st2.core = ⟨S.pos, S.pok, [], S.va.isSome, S.pos.isEmpty, S.vk.isSome, true, S.kwo, []⟩ := by
    rw [c4]
    have e : st1.pok = st1.core.pok := rfl
    rw [e, hcore1]
    simp
  by_cases hkw : S.kwo = []
  · have e3 := mergeUnmatched_L_empty S B st2 ((congrArg Core.lUn hcore2).trans hkw)
    have e4 := mergeUnmatched_R_empty S B st2 (congrArg Core.rUn hcore2)
    refine ⟨_, mergeStep_of S B st1 st2 st2 st2 _ _ (by rw [hBpos, hBpok]; exact e1) e2 e3 e4, congrArg Core.pos hcore2,
      congrArg Core.pok hcore2, (congrArg Core.kwo hcore2).trans hkw.symm, ?_, ?_⟩
    · have a1 : st2.vaL = S.va.isSome := congrArg Core.vaL hcore2
      have a2 : st2.vaR = S.pos.isEmpty := congrArg Core.vaR hcore2
      simp only [a1, a2, hBva]
      cases hSva : S.va with
      | none => simp [addStarargs]
      | some p =>
        by_cases hp : S.pos = []
        · simp [addStarargs, hp]
        · simp [addStarargs, hp]
    · have a1 : st2.vkL = S.vk.isSome := congrArg Core.vkL hcore2
      have a2 : st2.vkR = true := congrArg Core.vkR hcore2
      simp only [a1, a2, hBvk]
      cases hSvk : S.vk with
      | none => simp [addStarargs]
      | some p => simp [addStarargs, hkw]
  · obtain ⟨st3, e3, c5⟩ := mergeUnmatched_L_vk S B st2
      (by rw [show st2.lUn = S.kwo from congrArg Core.lUn hcore2]; exact hkw) hvk
    have hcore3 : st3.core = ⟨S.pos, S.pok, S.kwo, S.va.isSome, S.pos.isEmpty, S.vk.isSome, false, S.kwo, []⟩ := by
      rw [c5]
      have e : st2.kwo = st2.core.kwo := rfl
      have e' : st2.lUn = st2.core.lUn := rfl
      rw [e, e', hcore2]
      simp only [Core.mk.injEq, and_true, true_and]
      rw [pupdate_eq_append _ _ hn (by simp [names])]
      simp
    have e4 := mergeUnmatched_R_empty S B st3 (congrArg Core.rUn hcore3)
    refine ⟨_, mergeStep_of S B st1 st2 st3 st3 _ _ (by rw [hBpos, hBpok]; exact e1) e2 e3 e4, congrArg Core.pos hcore3,
      congrArg Core.pok hcore3, congrArg Core.kwo hcore3, ?_, ?_⟩
    · have a1 : st3.vaL = S.va.isSome := congrArg Core.vaL hcore3
      have a2 : st3.vaR = S.pos.isEmpty := congrArg Core.vaR hcore3
      simp only [a1, a2, hBva]
      cases hSva : S.va with
      | none => simp [addStarargs]
      | some p =>
        by_cases hp : S.pos = []
        · simp [addStarargs, hp]
        · simp [addStarargs, hp]
    · have a1 : st3.vkL = S.vk.isSome := congrArg Core.vkL hcore3
      have a2 : st3.vkR = false := congrArg Core.vkR hcore3
      simp only [a1, a2, hBvk]
      cases hSvk : S.vk with
      | none => simp [addStarargs]
      | some p => simp [addStarargs, hkw]

end SV

namespace SV
set_option linter.unusedSimpArgs false
set_option linter.unusedVariables false

theorem merge_neutral_r' (sig bare : USig) (a k : Param) (hwf : WF sig.params)
    (ha : a.kind = .vp) (hk : k.kind = .vk) (hb : bare.params = [a, k])
    (hann : a.ann = none ∧ k.ann = none)
    (hS : ∀ p ∈ sig.params, (p.kind = .vp ∨ p.kind = .vk) →
            p.dflt = none ∧ (p.ann = none → p.uann = .empty)) :
    ∃ R, merge [sig, bare] = .ok R ∧ R.params = sig.params := by
  have hall := sortParams_all_Laws sig hwf
  have hbk := sortParams_bucketKinds sig
  obtain ⟨_, hnn, _, _⟩ := WF_inv _ hwf
  have hB := sortParams_bare bare a k ha hk hb
  obtain ⟨s, hs, f1, f2, f4, f3, f5⟩ := mergeStep_bare_r (sortParams sig) (sortParams bare) a k
    (by rw [hB]) (by rw [hB]) (by rw [hB]) (by rw [hB]) (by rw [hB])
    (nodup_names_kwo _ (by rw [hall]; exact hnn))
  have f3' : s.va = (sortParams sig).va := by
    rw [f3]
    cases hva : (sortParams sig).va with
    | none => rfl
    | some lp =>
      have hm : lp ∈ sig.params := by
        rw [← hall]; exact (mem_all_iff _ _).2 (.inr (.inr (.inl hva)))
      obtain ⟨h1, h2⟩ := hS lp hm (.inl (hbk.va lp hva))
      simp [concile_bare lp a hann.1 h1 h2]
  have f5' : s.vk = (sortParams sig).vk := by
    rw [f5]
    cases hvk : (sortParams sig).vk with
    | none => rfl
    | some lp =>
      have hm : lp ∈ sig.params := by
        rw [← hall]; exact (mem_all_iff _ _).2 (.inr (.inr (.inr (.inr hvk))))
      obtain ⟨h1, h2⟩ := hS lp hm (.inr (hbk.vk lp hvk))
      simp [concile_bare lp k hann.2 h1 h2]
  have hsa : s.all = sig.params := by rw [all_eq_of_fields s _ f1 f2 f3' f4 f5', hall]
  have hv : validate sig.params = .ok () := (validOk_iff_Laws _).1 hwf.1
  refine ⟨{ params := s.all, src := s.src, depths := s.depths, ret := sig.ret, uret := sig.uret }, ?_,
    hsa⟩
  simp only [merge, mergeFold, hs, bind, Except.bind, applyParams, hsa, hv, pure, Except.pure]

end SV
