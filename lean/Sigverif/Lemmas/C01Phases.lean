/-
  Lemmas/C01Phases.lean — phase Q and phase P of `mergeStep` as a whole.
-/
import Sigverif.Lemmas.C01QStep
namespace SV
variable {l r : Sorted}

/-! ### equations -/

theorem phaseQ_nil (st : MState) : phaseQ l r [] [] st = .ok st := by rw [phaseQ]
theorem phaseQ_cons_cons (lp rp : Param) (ls rs : List Param) (st : MState) :
    phaseQ l r (lp :: ls) (rp :: rs) st =
      if lp.name = rp.name then
        phaseQ l r ls rs { st with
          pok := st.pok ++ [concile lp rp],
          src := addSources st.src lp.name [l.src, r.src] }
      else
        phaseQ l r ls rs { st with
          pos := st.pos ++ st.pok.map (·.withKind .po) ++ [(concile lp rp).withKind .po],
          pok := [],
          src := addSources st.src lp.name [l.src] } := by rw [phaseQ]
theorem phaseQ_cons_nil (lp : Param) (ls : List Param) (st : MState) :
    phaseQ l r (lp :: ls) [] st =
      (unbalancedPok .L l r lp st >>= fun st => phaseQ l r ls [] st) := by rw [phaseQ]
theorem phaseQ_nil_cons (rp : Param) (rs : List Param) (st : MState) :
    phaseQ l r [] (rp :: rs) st =
      (unbalancedPok .R l r rp st >>= fun st => phaseQ l r [] rs st) := by rw [phaseQ]

/-! ### phase Q -/

theorem phaseQ_spec (bl : BucketKinds l) (br : BucketKinds r) (ls rs : List Param) (st st' : MState)
    (h : phaseQ l r ls rs st = .ok st') (hN : NInv ls rs st) :
    NInv [] [] st' ∧ QMono l r ls rs st [] [] st' ∧ (SInv l r ls rs st → SInv l r [] [] st') := by
  induction ls generalizing rs st with
  | nil =>
    induction rs generalizing st with
    | nil =>
      rw [phaseQ_nil] at h
      cases h
      exact ⟨hN, QMono.refl .., id⟩
    | cons rp rs ih =>
      rw [phaseQ_nil_cons] at h
      obtain ⟨st1, h1, h2⟩ := bind_eq_ok h
      obtain ⟨a, b, c⟩ := ih st1 h2 (q_right_N h1 hN)
      exact ⟨a, (q_right_M h1 hN).trans b, fun hs => c (q_right_S br h1 hs)⟩
  | cons lp ls ih =>
    cases rs with
    | nil =>
      rw [phaseQ_cons_nil] at h
      obtain ⟨st1, h1, h2⟩ := bind_eq_ok h
      obtain ⟨a, b, c⟩ := ih [] st1 h2 (q_left_N h1 hN)
      exact ⟨a, (q_left_M h1 hN).trans b, fun hs => c (q_left_S bl h1 hs)⟩
    | cons rp rs =>
      rw [phaseQ_cons_cons] at h
      split at h
      · next hn =>
        have key : ∀ st1 : MState, Upd st1 st.pos (st.pok ++ [concile lp rp]) st.kwo st.lUn st.rUn →
            phaseQ l r ls rs st1 = .ok st' →
            (NInv [] [] st' ∧ QMono l r (lp :: ls) (rp :: rs) st [] [] st' ∧
              (SInv l r (lp :: ls) (rp :: rs) st → SInv l r [] [] st')) := by
          intro st1 hu h
          obtain ⟨a, b, c⟩ := ih rs st1 h (q_match_N hn hu hN)
          exact (⟨a, (q_match_M hn hu).trans b, fun hs => c (q_match_S bl br hn hu hs)⟩ :
            NInv [] [] st' ∧ QMono l r (lp :: ls) (rp :: rs) st [] [] st' ∧
              (SInv l r (lp :: ls) (rp :: rs) st → SInv l r [] [] st'))
        exact key _ (by exact ⟨rfl, rfl, rfl, rfl, rfl⟩) h
      · have key : ∀ st1 : MState,
            Upd st1 (st.pos ++ st.pok.map (·.withKind .po) ++ [(concile lp rp).withKind .po]) []
              st.kwo st.lUn st.rUn →
            phaseQ l r ls rs st1 = .ok st' →
            (NInv [] [] st' ∧ QMono l r (lp :: ls) (rp :: rs) st [] [] st' ∧
              (SInv l r (lp :: ls) (rp :: rs) st → SInv l r [] [] st')) := by
          intro st1 hu h
          obtain ⟨a, b, c⟩ := ih rs st1 h (q_mis_N hu hN)
          exact (⟨a, (q_mis_M hu).trans b, fun hs => c (q_mis_S hu hs)⟩ :
            NInv [] [] st' ∧ QMono l r (lp :: ls) (rp :: rs) st [] [] st' ∧
              (SInv l r (lp :: ls) (rp :: rs) st → SInv l r [] [] st'))
        exact key _ (by exact ⟨rfl, rfl, rfl, rfl, rfl⟩) h

/-! ### phase P: single steps -/

section PStep
variable {lp rp x o : Param} {A B : List Param} {st st' : MState}

/-- one parameter consumed on each side, the conciliated one appended to `pos` -/
theorem p_pair_M (hu : Upd st' (st.pos ++ [concile lp rp]) st.pok st.kwo st.lUn st.rUn) :
    QMono l r (lp :: A) (rp :: B) st A B st' := by
  obtain ⟨h1, h2, h3, h4, h5⟩ := hu
  constructor
  all_goals (try intro y); qm_simp
  all_goals grind

theorem p_pair_M' (hu : Upd st' (st.pos ++ [concile rp lp]) st.pok st.kwo st.lUn st.rUn) :
    QMono l r (lp :: A) (rp :: B) st A B st' := by
  obtain ⟨h1, h2, h3, h4, h5⟩ := hu
  constructor
  all_goals (try intro y); qm_simp
  all_goals grind

theorem p_leftva_M (hva : r.va.isSome = true)
    (hu : Upd st' (st.pos ++ [x]) st.pok st.kwo st.lUn st.rUn) :
    QMono l r (x :: A) B st A B st' := by
  obtain ⟨h1, h2, h3, h4, h5⟩ := hu
  constructor
  all_goals (try intro y); qm_simp
  all_goals grind

theorem p_rightva_M (hva : l.va.isSome = true)
    (hu : Upd st' (st.pos ++ [x]) st.pok st.kwo st.lUn st.rUn) :
    QMono l r A (x :: B) st A B st' := by
  obtain ⟨h1, h2, h3, h4, h5⟩ := hu
  constructor
  all_goals (try intro y); qm_simp
  all_goals grind

theorem p_leftdrop_M (hd : x.dflt.isSome = true)
    (hu : Upd st' st.pos st.pok st.kwo st.lUn st.rUn) :
    QMono l r (x :: A) B st A B st' := by
  obtain ⟨h1, h2, h3, h4, h5⟩ := hu
  have hx := required_iff x
  constructor
  all_goals (try intro y); qm_simp
  all_goals grind

theorem p_rightdrop_M (hd : x.dflt.isSome = true)
    (hu : Upd st' st.pos st.pok st.kwo st.lUn st.rUn) :
    QMono l r A (x :: B) st A B st' := by
  obtain ⟨h1, h2, h3, h4, h5⟩ := hu
  have hx := required_iff x
  constructor
  all_goals (try intro y); qm_simp
  all_goals grind

end PStep

/-! ### phase P: equations and the whole loop -/

theorem phaseP_nil (il ir : List Param) (st : MState) :
    phaseP l r [] [] il ir st = .ok (st, il, ir) := by rw [phaseP]
theorem phaseP_cons_cons (lp rp : Param) (ls rs il ir : List Param) (st : MState) :
    phaseP l r (lp :: ls) (rp :: rs) il ir st =
      phaseP l r ls rs il ir { st with
        pos := st.pos ++ [concile lp rp],
        src := if lp.name = rp.name then addSources st.src lp.name [l.src, r.src]
               else addSources st.src lp.name [l.src] } := by rw [phaseP]
theorem phaseP_cons_nil (lp : Param) (ls il ir : List Param) (st : MState) :
    phaseP l r (lp :: ls) [] il ir st =
      (unbalancedPos .L l r lp ir st >>= fun x => phaseP l r ls [] il x.2 x.1) := by
  rw [phaseP]
theorem phaseP_nil_cons (rp : Param) (rs il ir : List Param) (st : MState) :
    phaseP l r [] (rp :: rs) il ir st =
      (unbalancedPos .R l r rp il st >>= fun x => phaseP l r [] rs x.2 ir x.1) := by
  rw [phaseP]

/-- what phase P guarantees -/
structure PSpec (l r : Sorted) (ls rs il ir : List Param) (st : MState)
    (st' : MState) (il' ir' : List Param) : Prop where
  pok : st'.pok = st.pok
  kwo : st'.kwo = st.kwo
  lun : st'.lUn = st.lUn
  run : st'.rUn = st.rUn
  sufl : ∃ cl, il = cl ++ il'
  sufr : ∃ cr, ir = cr ++ ir'
  mono : QMono l r (ls ++ il) (rs ++ ir) st il' ir' st'
  preq : anyReq ls ∨ anyReq rs → anyReq st'.pos
  kind : (∀ p ∈ ls ++ rs, p.kind = .po) → (∀ p ∈ st.pos, p.kind = .po) → ∀ p ∈ st'.pos, p.kind = .po

theorem phaseP_spec (ls rs il ir : List Param) (st st' : MState) (il' ir' : List Param)
    (h : phaseP l r ls rs il ir st = .ok (st', il', ir')) :
    PSpec l r ls rs il ir st st' il' ir' := by
  induction ls generalizing rs il ir st with
  | nil =>
    induction rs generalizing il ir st with
    | nil =>
      rw [phaseP_nil] at h
      cases h
      exact ⟨rfl, rfl, rfl, rfl, ⟨[], rfl⟩, ⟨[], rfl⟩, QMono.refl .., by simp, fun _ h => h⟩
    | cons rp rs ih =>
      rw [phaseP_nil_cons] at h
      obtain ⟨⟨st1, il1⟩, h1, h2⟩ := bind_eq_ok h
      have I := ih il1 ir st1 h2
      have hrx := required_iff rp
      rcases unbalancedPos_R_inv h1 with ⟨o, rfl, hu⟩ | ⟨rfl, rfl, hva, hu⟩ | ⟨rfl, rfl, hva, hd, hu⟩
      · obtain ⟨cl, hcl⟩ := I.sufl
        refine ⟨I.pok.trans hu.2.1, I.kwo.trans hu.2.2.1, I.lun.trans hu.2.2.2.1,
          I.run.trans hu.2.2.2.2, ⟨o :: cl, by simp [hcl]⟩, I.sufr, ?_, ?_, ?_⟩
        · exact (p_pair_M' hu : QMono l r (o :: ([] ++ il1)) (rp :: (rs ++ ir)) st _ _ st1).trans I.mono
        · have := I.preq; have := I.mono.pr; have h1 := hu.1
          simp only [anyReq_nil, anyReq_cons, false_or] at *
          simp only [h1, anyReq_append, anyReq_cons, anyReq_nil, concile_required] at *
          grind
        · intro k1 k2
          apply I.kind
          · intro p hp; exact k1 p (by simp at hp ⊢; exact Or.inr hp)
          · rw [hu.1]; intro p hp
            simp only [List.mem_append, List.mem_singleton] at hp
            rcases hp with hp | rfl
            · exact k2 p hp
            · simpa using k1 rp (by simp)
      · refine ⟨I.pok.trans hu.2.1, I.kwo.trans hu.2.2.1, I.lun.trans hu.2.2.2.1,
          I.run.trans hu.2.2.2.2, I.sufl, I.sufr, ?_, ?_, ?_⟩
        · exact (p_rightva_M hva hu : QMono l r ([] ++ []) (rp :: (rs ++ ir)) st _ _ st1).trans I.mono
        · have := I.preq; have := I.mono.pr; have h1 := hu.1
          simp only [anyReq_nil, anyReq_cons, false_or] at *
          simp only [h1, anyReq_append, anyReq_cons, anyReq_nil, concile_required] at *
          grind
        · intro k1 k2
          apply I.kind
          · intro p hp; exact k1 p (by simp at hp ⊢; exact Or.inr hp)
          · rw [hu.1]; intro p hp
            simp only [List.mem_append, List.mem_singleton] at hp
            rcases hp with hp | rfl
            · exact k2 p hp
            · simpa using k1 p (by simp)
      · refine ⟨I.pok.trans hu.2.1, I.kwo.trans hu.2.2.1, I.lun.trans hu.2.2.2.1,
          I.run.trans hu.2.2.2.2, I.sufl, I.sufr, ?_, ?_, ?_⟩
        · exact (p_rightdrop_M hd hu : QMono l r ([] ++ []) (rp :: (rs ++ ir)) st _ _ st1).trans I.mono
        · have := I.preq; have := I.mono.pr; have h1 := hu.1
          simp only [anyReq_nil, anyReq_cons, false_or] at *
          grind
        · intro k1 k2
          apply I.kind
          · intro p hp; exact k1 p (by simp at hp ⊢; exact Or.inr hp)
          · rw [hu.1]; exact k2
  | cons lp ls ih =>
    have hlx := required_iff lp
    cases rs with
    | nil =>
      rw [phaseP_cons_nil] at h
      obtain ⟨⟨st1, ir1⟩, h1, h2⟩ := bind_eq_ok h
      have I := ih [] il ir1 st1 h2
      rcases unbalancedPos_L_inv h1 with ⟨o, rfl, hu⟩ | ⟨rfl, rfl, hva, hu⟩ | ⟨rfl, rfl, hva, hd, hu⟩
      · obtain ⟨cr, hcr⟩ := I.sufr
        refine ⟨I.pok.trans hu.2.1, I.kwo.trans hu.2.2.1, I.lun.trans hu.2.2.2.1,
          I.run.trans hu.2.2.2.2, I.sufl, ⟨o :: cr, by simp [hcr]⟩, ?_, ?_, ?_⟩
        · exact (p_pair_M hu : QMono l r (lp :: (ls ++ il)) (o :: ([] ++ ir1)) st _ _ st1).trans I.mono
        · have := I.preq; have := I.mono.pr; have h1 := hu.1
          simp only [anyReq_nil, anyReq_cons, or_false] at *
          simp only [h1, anyReq_append, anyReq_cons, anyReq_nil, concile_required] at *
          grind
        · intro k1 k2
          apply I.kind
          · intro p hp; exact k1 p (by simp at hp ⊢; exact Or.inr hp)
          · rw [hu.1]; intro p hp
            simp only [List.mem_append, List.mem_singleton] at hp
            rcases hp with hp | rfl
            · exact k2 p hp
            · simpa using k1 lp (by simp)
      · refine ⟨I.pok.trans hu.2.1, I.kwo.trans hu.2.2.1, I.lun.trans hu.2.2.2.1,
          I.run.trans hu.2.2.2.2, I.sufl, I.sufr, ?_, ?_, ?_⟩
        · exact (p_leftva_M hva hu : QMono l r (lp :: (ls ++ il)) ([] ++ []) st _ _ st1).trans I.mono
        · have := I.preq; have := I.mono.pr; have h1 := hu.1
          simp only [anyReq_nil, anyReq_cons, or_false] at *
          simp only [h1, anyReq_append, anyReq_cons, anyReq_nil, concile_required] at *
          grind
        · intro k1 k2
          apply I.kind
          · intro p hp; exact k1 p (by simp at hp ⊢; exact Or.inr hp)
          · rw [hu.1]; intro p hp
            simp only [List.mem_append, List.mem_singleton] at hp
            rcases hp with hp | rfl
            · exact k2 p hp
            · simpa using k1 p (by simp)
      · refine ⟨I.pok.trans hu.2.1, I.kwo.trans hu.2.2.1, I.lun.trans hu.2.2.2.1,
          I.run.trans hu.2.2.2.2, I.sufl, I.sufr, ?_, ?_, ?_⟩
        · exact (p_leftdrop_M hd hu : QMono l r (lp :: (ls ++ il)) ([] ++ []) st _ _ st1).trans I.mono
        · have := I.preq; have := I.mono.pr; have h1 := hu.1
          simp only [anyReq_nil, anyReq_cons, or_false] at *
          grind
        · intro k1 k2
          apply I.kind
          · intro p hp; exact k1 p (by simp at hp ⊢; exact Or.inr hp)
          · rw [hu.1]; exact k2
    | cons rp rs =>
      rw [phaseP_cons_cons] at h
      have key : ∀ st1 : MState, Upd st1 (st.pos ++ [concile lp rp]) st.pok st.kwo st.lUn st.rUn →
          phaseP l r ls rs il ir st1 = .ok (st', il', ir') →
          PSpec l r (lp :: ls) (rp :: rs) il ir st st' il' ir' := by
        intro st1 hu h2
        have I := ih rs il ir st1 h2
        have hrx := required_iff rp
        refine ⟨I.pok.trans hu.2.1, I.kwo.trans hu.2.2.1, I.lun.trans hu.2.2.2.1,
          I.run.trans hu.2.2.2.2, I.sufl, I.sufr, ?_, ?_, ?_⟩
        · exact (p_pair_M hu : QMono l r (lp :: (ls ++ il)) (rp :: (rs ++ ir)) st _ _ st1).trans I.mono
        · have := I.preq; have := I.mono.pr; have h1 := hu.1
          simp only [anyReq_nil, anyReq_cons, or_false] at *
          simp only [h1, anyReq_append, anyReq_cons, anyReq_nil, concile_required] at *
          grind
        · intro k1 k2
          apply I.kind
          · intro p hp; exact k1 p (by simp at hp ⊢; grind)
          · rw [hu.1]; intro p hp
            simp only [List.mem_append, List.mem_singleton] at hp
            rcases hp with hp | rfl
            · exact k2 p hp
            · simpa using k1 lp (by simp)
      exact key _ (by exact ⟨rfl, rfl, rfl, rfl, rfl⟩) h

end SV
