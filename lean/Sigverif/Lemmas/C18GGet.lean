/-
  Lemmas/C18GGet.lean — what lookups answer: right instance (identity keys), stability while the
  wrapper is held, a fresh wrapper after collection.
-/
import Sigverif.Lemmas.C18GStep
namespace SV

/-! ### the caller only holds instances that were created -/

def IKnown (s : IState) : Prop := ∀ i ∈ s.heldInst, (s.instOf i).isSome = true

theorem instOf_newInst_stable (s : IState) (i c j : Nat) (k : Inst) (h : s.instOf j = some k) :
    (istep m s (.newInst i c)).1.instOf j = some k := by
  simp only [istep, IState.instOf]
  split
  · exact h
  · rename_i hn
    have hij : ¬ i = j := by
      rintro rfl
      simp only [IState.instOf] at h hn
      rw [h] at hn; cases hn
    have hb : (i == j) = false := by simpa using hij
    simp only [List.find?_cons, hb]
    exact h

theorem instOf_step_stable (m : KeyMode) (s : IState) (op : IOp) (j : Nat) (k : Inst)
    (h : s.instOf j = some k) : (istep m s op).1.instOf j = some k := by
  cases op with
  | newInst i c => exact instOf_newInst_stable s i c j k h
  | get i =>
    simp only [istep]
    split
    · exact h
    · rename_i k' _
      cases hf : s.find m k' with
      | some e => rw [descGet_hit _ _ hf]; exact h
      | none => rw [descGet_miss _ _ hf]; exact h
  | call i =>
    simp only [istep]
    split
    · exact h
    · rename_i k' _
      cases hf : s.find m k' with
      | some e => rw [descGet_hit _ _ hf]; exact h
      | none => rw [descGet_miss _ _ hf]; exact h
  | cls => exact h
  | dropWrapper i => exact h
  | dropInst i => exact h
  | gc => exact h

theorem IKnown_step (m : KeyMode) (s : IState) (op : IOp) (hs : IKnown s) : IKnown (istep m s op).1 := by
  intro j hj
  have key : j ∈ s.heldInst → ((istep m s op).1.instOf j).isSome = true := by
    intro hj'
    obtain ⟨k, hk⟩ := Option.isSome_iff_exists.1 (hs j hj')
    rw [instOf_step_stable m s op j k hk]; rfl
  cases op with
  | newInst i c =>
    simp only [istep, mem_addOnce] at hj
    rcases hj with rfl | hj
    · simp only [istep, IState.instOf]
      split
      · rename_i k hk
        rw [hk]; rfl
      · simp
    · exact key hj
  | get i =>
    apply key
    simp only [istep] at hj
    split at hj
    · exact hj
    · rename_i k' _
      cases hf : s.find m k' with
      | some e => rw [descGet_hit _ _ hf] at hj; exact hj
      | none => rw [descGet_miss _ _ hf] at hj; exact hj
  | call i =>
    apply key
    simp only [istep] at hj
    split at hj
    · exact hj
    · rename_i k' _
      cases hf : s.find m k' with
      | some e => rw [descGet_hit _ _ hf] at hj; exact hj
      | none => rw [descGet_miss _ _ hf] at hj; exact hj
  | cls => exact key hj
  | dropWrapper i => exact key hj
  | dropInst i =>
    apply key
    simp only [istep, List.mem_filter] at hj
    exact hj.1
  | gc => exact key hj

theorem IKnown_init : IKnown {} := by intro i hi; cases hi

theorem IKnown_run (m : KeyMode) (ops : List IOp) : IKnown (irun m ops) :=
  (irunFrom_invariant m IKnown (IKnown_step m) {} IKnown_init ops).1

theorem heldInstOf_of_held {s : IState} (hs : IKnown s) {i : Nat} (hi : i ∈ s.heldInst) :
    ∃ k, s.heldInstOf i = some k ∧ k.id = i := by
  obtain ⟨k, hk⟩ := Option.isSome_iff_exists.1 (hs i hi)
  refine ⟨k, ?_, instOf_id hk⟩
  simp [IState.heldInstOf, hi, hk]

/-! ### the answer of a lookup -/

/-- the answer of `get i` / `call i` (the two differ only in whether the caller keeps the wrapper) -/
theorem lookup_answer (m : KeyMode) (s : IState) (keep : Option Nat) (k : Inst) :
    (descGet m s (some k) 0 keep).2 =
      match s.find m k with
      | some e => .wrapper e.wid e.wrapperInst
      | none => .wrapper s.nextWid k.id := by
  cases hf : s.find m k with
  | some e => rw [descGet_hit _ _ hf]
  | none => rw [descGet_miss _ _ hf]

theorem get_answer (m : KeyMode) (s : IState) (i : Nat) :
    (istep m s (.get i)).2 = some (match s.heldInstOf i with
      | none => .noInst
      | some k => (descGet m s (some k) 0 (some i)).2) := by
  simp only [istep]; cases s.heldInstOf i <;> rfl

theorem call_answer (m : KeyMode) (s : IState) (i : Nat) :
    (istep m s (.call i)).2 = some (match s.heldInstOf i with
      | none => .noInst
      | some k => (descGet m s (some k) 0 none).2) := by
  simp only [istep]; cases s.heldInstOf i <;> rfl

theorem call_answer_eq_get (m : KeyMode) (s : IState) (i : Nat) :
    (istep m s (.call i)).2 = (istep m s (.get i)).2 := by
  rw [get_answer, call_answer]
  split
  · rfl
  · rw [lookup_answer m s, lookup_answer m s]

/-- identity keys: the wrapper a lookup on instance i returns is bound to i -/
theorem step_right_instance (s : IState) (hs : IInv .identity s) (i w b : Nat)
    (h : (istep .identity s (.get i)).2 = some (.wrapper w b)) : b = i := by
  rw [get_answer] at h
  split at h
  · cases h
  · rename_i k hk
    have hid := (heldInstOf_some hk).2.2
    rw [lookup_answer .identity s i] at h
    split at h
    · rename_i e he
      obtain ⟨hmem, hm⟩ := find_some he
      rw [matches_identity] at hm
      simp only [Option.some.injEq, IAns.wrapper.injEq] at h
      rw [← h.2, hs.bound rfl e hmem, hm, hid]
    · simp only [Option.some.injEq, IAns.wrapper.injEq] at h
      rw [← h.2, hid]

theorem trace_right_instance (ops : List IOp) :
    ∀ p ∈ itrace .identity ops, ∀ i, (p.1 = .get i ∨ p.1 = .call i) →
      ∀ w b, p.2 = .wrapper w b → b = i := by
  intro p hp i hop w b hpw
  obtain ⟨s, hs, hstep⟩ := IInv_trace .identity ops p hp
  rw [hpw] at hstep
  rcases hop with h | h <;> rw [h] at hstep
  · exact step_right_instance s hs i w b hstep
  · rw [call_answer_eq_get] at hstep
    exact step_right_instance s hs i w b hstep

/-- a lookup on an instance the caller holds answers with a wrapper; on any other id with `noInst` -/
theorem get_answers_wrapper (m : KeyMode) (s : IState) (hk : IKnown s) (i : Nat) (hi : i ∈ s.heldInst) :
    ∃ w b, (istep m s (.get i)).2 = some (.wrapper w b) := by
  obtain ⟨k, hk, _⟩ := heldInstOf_of_held hk hi
  rw [get_answer, hk]
  simp only [lookup_answer m s]
  split
  · exact ⟨_, _, rfl⟩
  · exact ⟨_, _, rfl⟩

theorem get_noInst (m : KeyMode) (s : IState) (i : Nat) (hi : i ∉ s.heldInst) :
    (istep m s (.get i)).2 = some .noInst := by
  rw [get_answer]
  simp [IState.heldInstOf, hi]

/-- bridging single steps and traces -/
theorem itrace_snoc (m : KeyMode) (ops : List IOp) (op : IOp) :
    itrace m (ops ++ [op]) = itrace m ops ++
      (match (istep m (irun m ops) op).2 with | some a => [(op, a)] | none => []) := by
  rw [itrace_append, irunFrom_cons, irunFrom_nil]
  cases (istep m (irun m ops) op).2 <;> simp

end SV
