/-
  Lemmas/C18GStep.lean — every operation preserves the invariant `IInv`; what a lookup answers.
-/
import Sigverif.Lemmas.C18GInv
namespace SV

/-- the caller keeps wrapper `w` in slot `slot` (or does not keep it) -/
def keepSt (s : IState) (keep : Option Nat) (w : Nat) : IState :=
  match keep with
  | some slot => { s with heldWrap := addPair s.heldWrap (slot, w) }
  | none => s

/-- a new entry for instance `k` -/
def insSt (s : IState) (k : Inst) : IState :=
  { s with entries := { key := k, wrapperInst := k.id, wid := s.nextWid } :: s.entries,
           nextWid := s.nextWid + 1 }

theorem descGet_hit {m : KeyMode} {s : IState} {k : Inst} {e : IEntry} (o : Nat) (keep : Option Nat)
    (h : s.find m k = some e) :
    descGet m s (some k) o keep = (keepSt s keep e.wid, .wrapper e.wid e.wrapperInst) := by
  cases keep <;> simp only [descGet, h, keepSt]

theorem descGet_miss {m : KeyMode} {s : IState} {k : Inst} (o : Nat) (keep : Option Nat)
    (h : s.find m k = none) :
    descGet m s (some k) o keep = (keepSt (insSt s k) keep s.nextWid, .wrapper s.nextWid k.id) := by
  cases keep <;> simp only [descGet, h, keepSt, insSt]

theorem IInv_keepSt {m : KeyMode} {s : IState} (hs : IInv m s) (keep : Option Nat) (w : Nat)
    (e : IEntry) (he : e ∈ s.entries) (hw : e.wid = w)
    (hslot : m = .identity → ∀ slot, keep = some slot → e.key.id = slot) :
    IInv m (keepSt s keep w) := by
  cases keep with
  | none => exact hs
  | some slot =>
    subst hw
    have hs' := hs
    obtain ⟨h1, h2, h3, h4, h5, h6⟩ := hs
    constructor <;> simp only [keepSt, mem_addPair]
    · exact h1
    · rintro h (rfl | hh)
      · exact h1 e he
      · exact h2 h hh
    · rintro h (rfl | hh)
      · exact ⟨e, he, rfl⟩
      · exact h3 h hh
    · exact h4
    · exact h5
    · rintro hm h (rfl | hh) e' he' hw'
      · have := h4 e' he' e he hw'
        subst this
        exact hslot hm slot rfl
      · exact h6 hm h hh e' he' hw'

theorem IInv_insSt {m : KeyMode} {s : IState} (hs : IInv m s) (k : Inst) : IInv m (insSt s k) := by
  obtain ⟨h1, h2, h3, h4, h5, h6⟩ := hs
  constructor <;> simp only [insSt, List.mem_cons]
  · rintro e (rfl | he)
    · simp
    · have := h1 e he; omega
  · intro h hh
    have := h2 h hh; omega
  · intro h hh
    obtain ⟨e, he, hw⟩ := h3 h hh
    exact ⟨e, Or.inr he, hw⟩
  · rintro e (rfl | he) e' (rfl | he') hw
    · rfl
    · have := h1 e' he'; simp at hw; omega
    · have := h1 e he; simp at hw; omega
    · exact h4 e he e' he' hw
  · rintro hm e (rfl | he)
    · rfl
    · exact h5 hm e he
  · rintro hm h hh e (rfl | he) hw
    · have := h2 h hh; simp at hw; omega
    · exact h6 hm h hh e he hw

theorem matches_identity {a b : Inst} : KeyMode.identity.matches a b = true ↔ a.id = b.id := by
  simp [KeyMode.matches]

theorem matches_equality {a b : Inst} : KeyMode.equality.matches a b = true ↔ a.eqClass = b.eqClass := by
  simp [KeyMode.matches]

theorem IInv_descGet {m : KeyMode} {s : IState} (hs : IInv m s) (k : Inst) (o : Nat)
    (keep : Option Nat) (hk : ∀ slot, keep = some slot → k.id = slot) :
    IInv m (descGet m s (some k) o keep).1 := by
  cases h : s.find m k with
  | some e =>
    rw [descGet_hit o keep h]
    obtain ⟨he, hm⟩ := find_some h
    refine IInv_keepSt hs keep e.wid e he rfl ?_
    rintro rfl slot hsl
    rw [matches_identity] at hm
    rw [hm]; exact hk slot hsl
  | none =>
    rw [descGet_miss o keep h]
    refine IInv_keepSt (IInv_insSt hs k) keep s.nextWid ⟨k, k.id, s.nextWid⟩ ?_ rfl ?_
    · simp [insSt]
    · intro _ slot hsl
      exact hk slot hsl

theorem IInv_collect {m : KeyMode} {s : IState} (hs : IInv m s) : IInv m s.collect := by
  obtain ⟨h1, h2, h3, h4, h5, h6⟩ := hs
  constructor <;> simp only [IState.collect, List.mem_filter, List.any_eq_true, beq_iff_eq]
  · exact fun e he => h1 e he.1
  · exact h2
  · intro h hh
    obtain ⟨e, he, hw⟩ := h3 h hh
    exact ⟨e, ⟨he, h, hh, hw.symm⟩, hw⟩
  · exact fun e he e' he' hw => h4 e he.1 e' he'.1 hw
  · exact fun hm e he => h5 hm e he.1
  · exact fun hm h hh e he hw => h6 hm h hh e he.1 hw

theorem IInv_step (m : KeyMode) (s : IState) (op : IOp) (hs : IInv m s) : IInv m (istep m s op).1 := by
  cases op with
  | get i =>
    simp only [istep]
    split
    · exact hs
    · rename_i k hk
      exact IInv_descGet hs k 0 (some i) (by rintro _ ⟨⟩; exact (heldInstOf_some hk).2.2)
  | call i =>
    simp only [istep]
    split
    · exact hs
    · rename_i k hk
      exact IInv_descGet hs k 0 none (by rintro _ ⟨⟩)
  | cls =>
    obtain ⟨h1, h2, h3, h4, h5, h6⟩ := hs
    exact ⟨h1, h2, h3, h4, h5, h6⟩
  | dropWrapper i =>
    obtain ⟨h1, h2, h3, h4, h5, h6⟩ := hs
    constructor <;> simp only [istep, List.mem_filter]
    · exact h1
    · exact fun h hh => h2 h hh.1
    · exact fun h hh => h3 h hh.1
    · exact h4
    · exact h5
    · exact fun hm h hh => h6 hm h hh.1
  | dropInst i =>
    obtain ⟨h1, h2, h3, h4, h5, h6⟩ := hs
    exact ⟨h1, h2, h3, h4, h5, h6⟩
  | newInst i c =>
    obtain ⟨h1, h2, h3, h4, h5, h6⟩ := hs
    exact ⟨h1, h2, h3, h4, h5, h6⟩
  | gc => exact IInv_collect hs

/-- the invariant holds after every history, and in the state of every recorded lookup -/
theorem IInv_run (m : KeyMode) (ops : List IOp) : IInv m (irun m ops) :=
  (irunFrom_invariant m (IInv m) (IInv_step m) {} (IInv_init m) ops).1

theorem IInv_runFrom (m : KeyMode) (s : IState) (hs : IInv m s) (ops : List IOp) :
    IInv m (irunFrom m s ops).1 :=
  (irunFrom_invariant m (IInv m) (IInv_step m) s hs ops).1

theorem IInv_trace (m : KeyMode) (ops : List IOp) :
    ∀ p ∈ itrace m ops, ∃ s, IInv m s ∧ (istep m s p.1).2 = some p.2 :=
  (irunFrom_invariant m (IInv m) (IInv_step m) {} (IInv_init m) ops).2

end SV
