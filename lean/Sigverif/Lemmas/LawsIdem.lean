/-
  Lemmas/LawsIdem.lean — merge(s, s).
-/
import Sigverif.Lemmas.LawsCore
namespace SV
set_option linter.unusedSimpArgs false
set_option linter.unusedVariables false

theorem kwo_sublist_all (S : Sorted) : S.kwo.Sublist S.all := by
  unfold Sorted.all
  exact (List.sublist_append_right _ _).trans (List.sublist_append_left _ _)

theorem nodup_names_kwo (S : Sorted) (hn : (names S.all).Nodup) : (names S.kwo).Nodup :=
  List.Nodup.sublist ((kwo_sublist_all S).map _) hn

theorem mem_all_iff (S : Sorted) (p : Param) :
    p ∈ S.all ↔ p ∈ S.pos ∨ p ∈ S.pok ∨ S.va = some p ∨ p ∈ S.kwo ∨ S.vk = some p := by
  unfold Sorted.all
  simp only [List.mem_append, Option.mem_toList, Option.mem_def]
  simp only [or_assoc]

theorem mergeStep_self (S : Sorted) (hn : (names S.all).Nodup) (hc : ∀ p ∈ S.all, concile p p = p) :
    ∃ s, mergeStep S S = .ok s ∧ s.pos = S.pos ∧ s.pok = S.pok ∧ s.va = S.va ∧ s.kwo = S.kwo ∧
      s.vk = S.vk := by
  have hnk := nodup_names_kwo S hn
  have hcpos : ∀ p ∈ S.pos, concile p p = p := fun p hp => hc p ((mem_all_iff S p).2 (.inl hp))
  have hcpok : ∀ p ∈ S.pok, concile p p = p := fun p hp => hc p ((mem_all_iff S p).2 (.inr (.inl hp)))
  have hckwo : ∀ p ∈ S.kwo, concile p p = p :=
    fun p hp => hc p ((mem_all_iff S p).2 (.inr (.inr (.inr (.inl hp)))))
  have c1 := phaseK1_self_core S S S.kwo
    { vaL := S.va.isSome, vaR := S.va.isSome, vkL := S.vk.isSome, vkR := S.vk.isSome }
    (fun p hp => pget_of_mem _ _ hnk hp) hckwo hnk (by simp [names])
  have c2 := phaseK2_all S S.kwo (phaseK1 S S S.kwo
    { vaL := S.va.isSome, vaR := S.va.isSome, vkL := S.vk.isSome, vkR := S.vk.isSome })
    (fun p hp => phas_of_mem _ _ hp)
  obtain ⟨st1, e1, c3⟩ := phaseP_self_core S S S.pos S.pok S.pok (phaseK2 S S.kwo (phaseK1 S S S.kwo
    { vaL := S.va.isSome, vaR := S.va.isSome, vkL := S.vk.isSome, vkR := S.vk.isSome })) hcpos
  obtain ⟨st2, e2, c4⟩ := phaseQ_self_core S S S.pok st1 hcpok
  rw [c2] at c3
  have hcore : st2.core = ⟨S.pos, S.pok, S.kwo, S.va.isSome, S.va.isSome, S.vk.isSome, S.vk.isSome, [], []⟩ := by
    rw [c4]
    have e : st1.pok = st1.core.pok := rfl
    rw [e, c3]
    have e' : (phaseK1 S S S.kwo
      { vaL := S.va.isSome, vaR := S.va.isSome, vkL := S.vk.isSome, vkR := S.vk.isSome }).pos =
      (phaseK1 S S S.kwo
      { vaL := S.va.isSome, vaR := S.va.isSome, vkL := S.vk.isSome, vkR := S.vk.isSome }).core.pos := rfl
    rw [e', c1]
    simp [MState.core]
  have e3 := mergeUnmatched_L_empty S S st2 (congrArg Core.lUn hcore)
  have e4 := mergeUnmatched_R_empty S S st2 (congrArg Core.rUn hcore)
  refine ⟨_, mergeStep_of S S st1 st2 st2 st2 _ _ e1 e2 e3 e4, congrArg Core.pos hcore,
    congrArg Core.pok hcore, ?_, congrArg Core.kwo hcore, ?_⟩
  · have a1 : st2.vaL = S.va.isSome := congrArg Core.vaL hcore
    have a2 : st2.vaR = S.va.isSome := congrArg Core.vaR hcore
    simp only [a1, a2]
    cases hva : S.va with
    | none => simp [addStarargs]
    | some p =>
      have := hc p ((mem_all_iff S p).2 (.inr (.inr (.inl hva))))
      simp [addStarargs, this]
  · have a1 : st2.vkL = S.vk.isSome := congrArg Core.vkL hcore
    have a2 : st2.vkR = S.vk.isSome := congrArg Core.vkR hcore
    simp only [a1, a2]
    cases hvk : S.vk with
    | none => simp [addStarargs]
    | some p =>
      have := hc p ((mem_all_iff S p).2 (.inr (.inr (.inr (.inr hvk)))))
      simp [addStarargs, this]

theorem all_eq_of_fields (s S : Sorted) (h1 : s.pos = S.pos) (h2 : s.pok = S.pok) (h3 : s.va = S.va)
    (h4 : s.kwo = S.kwo) (h5 : s.vk = S.vk) : s.all = S.all := by
  unfold Sorted.all; rw [h1, h2, h3, h4, h5]

theorem merge_idem' (sig : USig) (hwf : WF sig.params)
    (hU : ∀ p ∈ sig.params, p.ann = none → p.uann = .empty) :
    ∃ R, merge [sig, sig] = .ok R ∧ R.params = sig.params ∧ R.ret = sig.ret ∧ R.uret = sig.uret := by
  have hall := sortParams_all_Laws sig hwf
  obtain ⟨_, hnn, _, _⟩ := WF_inv _ hwf
  obtain ⟨s, hs, f1, f2, f3, f4, f5⟩ := mergeStep_self (sortParams sig) (by rw [hall]; exact hnn)
    (by rw [hall]; exact fun p hp => concile_self p (hU p hp))
  have hsa : s.all = sig.params := by rw [all_eq_of_fields s _ f1 f2 f3 f4 f5, hall]
  have hv : validate sig.params = .ok () := (validOk_iff_Laws _).1 hwf.1
  refine ⟨{ params := s.all, src := s.src, depths := s.depths, ret := sig.ret, uret := sig.uret }, ?_,
    hsa, rfl, rfl⟩
  simp only [merge, mergeFold, hs, bind, Except.bind, applyParams, hsa, hv, pure, Except.pure]

end SV
