/-
  Lemmas/C02Basic.lean — list / dict helpers, validate inversion, sortParams of a valid signature.
-/
import Sigverif.Props.Defs
namespace SV

/-! ### names / pset / pupdate -/

@[simp] theorem names_nil_C02 : names [] = [] := rfl
@[simp] theorem names_cons_C02 (p : Param) (l : List Param) : names (p :: l) = p.name :: names l := rfl
@[simp] theorem names_append_C02 (a b : List Param) : names (a ++ b) = names a ++ names b := by
  simp [names]
theorem mem_names_C02 {x : Nat} {l : List Param} : x ∈ names l ↔ ∃ p ∈ l, p.name = x := by
  simp [names]
theorem mem_names_of_mem_C02 {p : Param} {l : List Param} (h : p ∈ l) : p.name ∈ names l :=
  mem_names_C02.2 ⟨p, h, rfl⟩
@[simp] theorem names_length_C02 (l : List Param) : (names l).length = l.length := by simp [names]
theorem names_take_C02 (l : List Param) (n : Nat) : names (l.take n) = (names l).take n := by
  simp [names, List.map_take]

theorem pset_of_not_mem_C02 (d : List Param) (p : Param) (h : p.name ∉ names d) :
    pset d p = d ++ [p] := by
  induction d with
  | nil => rfl
  | cons q t ih =>
    simp only [names_cons_C02, List.mem_cons, not_or] at h
    have hq : ¬ q.name = p.name := fun e => h.1 e.symm
    simp [pset, hq, ih h.2]

theorem pupdate_nil (d : List Param) : pupdate d [] = d := rfl
theorem pupdate_cons (d : List Param) (p : Param) (e : List Param) :
    pupdate d (p :: e) = pupdate (pset d p) e := rfl

theorem pupdate_of_nodup (d e : List Param) (h : (names (d ++ e)).Nodup) :
    pupdate d e = d ++ e := by
  induction e generalizing d with
  | nil => simp [pupdate_nil]
  | cons p e ih =>
    rw [pupdate_cons]
    have hp : p.name ∉ names d := by
      simp only [names_append_C02, names_cons_C02] at h
      rw [List.nodup_append] at h
      intro hm
      exact h.2.2 _ hm _ (by simp) rfl
    rw [pset_of_not_mem_C02 d p hp, ih]
    · simp
    · simpa using h

theorem pupdate_append (d e f : List Param) : pupdate d (e ++ f) = pupdate (pupdate d e) f := by
  simp [pupdate, List.foldl_append]

/-! ### validate inversion -/

theorem validateGo_ok_C02 {top : Nat} {seenD : Bool} {seen : List Nat} {ps : List Param}
    (h : validateGo top seenD seen ps = .ok ()) :
    (∀ p ∈ ps, top ≤ p.kind.rank) ∧
    ps.Pairwise (fun a b => a.kind.rank ≤ b.kind.rank) ∧
    (∀ p ∈ ps, p.name ∉ seen) ∧ (names ps).Nodup := by
  induction ps generalizing top seenD seen with
  | nil => simp
  | cons p ps ih =>
    unfold validateGo at h
    split at h
    · cases h
    · rename_i h1
      simp only at h
      split at h
      · cases h
      · split at h
        · cases h
        · rename_i h3
          have := ih h
          obtain ⟨a, b, c, d⟩ := this
          have htop : ∀ q ∈ ps, top ≤ q.kind.rank ∧ p.kind.rank ≤ q.kind.rank := by
            intro q hq
            have := a q hq
            split at this <;> omega
          refine ⟨?_, ?_, ?_, ?_⟩
          · intro q hq
            rcases List.mem_cons.1 hq with rfl | hq
            · omega
            · exact (htop q hq).1
          · exact List.pairwise_cons.2 ⟨fun q hq => (htop q hq).2, b⟩
          · intro q hq
            rcases List.mem_cons.1 hq with rfl | hq
            · simpa using h3
            · have := c q hq
              simp only [List.mem_cons, not_or] at this
              exact this.2
          · simp only [names_cons_C02, List.nodup_cons]
            refine ⟨?_, d⟩
            intro hm
            obtain ⟨q, hq, he⟩ := mem_names_C02.1 hm
            have := c q hq
            simp [he] at this

theorem validate_nodup {ps : List Param} (h : validate ps = .ok ()) : (names ps).Nodup :=
  (validateGo_ok_C02 h).2.2.2

theorem validate_sorted {ps : List Param} (h : validate ps = .ok ()) :
    ps.Pairwise (fun a b => a.kind.rank ≤ b.kind.rank) :=
  (validateGo_ok_C02 h).2.1

theorem WF.validate {ps : List Param} (h : WF ps) : validate ps = .ok () := by
  have := h.1
  unfold validOk at this
  split at this
  · rename_i u hu; cases u; exact hu
  · cases this

/-! ### filters of a kind-sorted list -/

def kindIs (k : Kind) (p : Param) : Bool := p.kind = k

theorem filter_kind_eq_nil_of_lb {ps : List Param} {r : Nat} {k : Kind}
    (h : ∀ q ∈ ps, r ≤ q.kind.rank) (hk : k.rank < r) : ps.filter (kindIs k) = [] := by
  rw [List.filter_eq_nil_iff]
  intro q hq
  have := h q hq
  simp only [kindIs, decide_eq_true_eq]
  intro e
  rw [e] at this
  omega

theorem sorted_decomp {ps : List Param}
    (h : ps.Pairwise (fun a b => a.kind.rank ≤ b.kind.rank)) :
    ps = ps.filter (kindIs .po) ++ ps.filter (kindIs .pk) ++ ps.filter (kindIs .vp) ++
         ps.filter (kindIs .ko) ++ ps.filter (kindIs .vk) := by
  induction ps with
  | nil => rfl
  | cons p ps ih =>
    rw [List.pairwise_cons] at h
    have ih := ih h.2
    have hlb := h.1
    have lb : ∀ r, r ≤ p.kind.rank → ∀ q ∈ ps, r ≤ q.kind.rank := fun r hr q hq =>
      Nat.le_trans hr (hlb q hq)
    cases hk : p.kind <;> rw [hk] at lb <;> simp only [Kind.rank] at lb
    · simp only [List.filter_cons, kindIs, hk]
      simpa [kindIs] using ih
    · have e0 := filter_kind_eq_nil_of_lb (k := .po) (lb 1 (by omega)) (by simp [Kind.rank])
      simp only [List.filter_cons, kindIs, hk]
      rw [e0] at ih ⊢
      simpa using ih
    · have e0 := filter_kind_eq_nil_of_lb (k := .po) (lb 2 (by omega)) (by simp [Kind.rank])
      have e1 := filter_kind_eq_nil_of_lb (k := .pk) (lb 2 (by omega)) (by simp [Kind.rank])
      simp only [List.filter_cons, kindIs, hk]
      rw [e0, e1] at ih ⊢
      simpa using ih
    · have e0 := filter_kind_eq_nil_of_lb (k := .po) (lb 3 (by omega)) (by simp [Kind.rank])
      have e1 := filter_kind_eq_nil_of_lb (k := .pk) (lb 3 (by omega)) (by simp [Kind.rank])
      have e2 := filter_kind_eq_nil_of_lb (k := .vp) (lb 3 (by omega)) (by simp [Kind.rank])
      simp only [List.filter_cons, kindIs, hk]
      rw [e0, e1, e2] at ih ⊢
      simpa using ih
    · have e0 := filter_kind_eq_nil_of_lb (k := .po) (lb 4 (by omega)) (by simp [Kind.rank])
      have e1 := filter_kind_eq_nil_of_lb (k := .pk) (lb 4 (by omega)) (by simp [Kind.rank])
      have e2 := filter_kind_eq_nil_of_lb (k := .vp) (lb 4 (by omega)) (by simp [Kind.rank])
      have e3 := filter_kind_eq_nil_of_lb (k := .ko) (lb 4 (by omega)) (by simp [Kind.rank])
      simp only [List.filter_cons, kindIs, hk]
      rw [e0, e1, e2, e3] at ih ⊢
      simpa using ih

end SV
