/-
  Lemmas/C11TEval.lean — concrete witnesses for Props/C11Twin.lean: the D10 pair refutes twin
  invariance of merge / embed / forwards at full strength; a pair of signatures from two modules
  with faithful spellings meets the hypothesis of the partial theorems.
-/
import Sigverif.Lemmas.C11TTwin
namespace SV
set_option linter.unusedSimpArgs false
set_option linter.unusedVariables false

/-! ### D10: the same spelling bound to different objects in two modules -/

theorem d10_merge_twin_ne :
    merge ([d10L, d10R].map (twinSig d10env)) ≠ (merge [d10L, d10R]).map (twinSig d10env) := by
  simp only [d10L, d10R, twinSig, mapRet, mapSig, twinRet, twin, sourceValue, d10env, List.map_cons, List.map_nil]
  sv_eval
  simp [Except.map, twinSig, mapRet, mapSig, twinRet, twin, sourceValue, d10env]

/-- `*args: T` in the forwarding function (module 1) and in the wrapped one (module 2) -/
def d10O : USig := { params := [⟨1, .vp, none, some 7, .post 7 1⟩] }
def d10I : USig := { params := [⟨1, .vp, none, some 7, .post 7 2⟩] }

theorem d10_embed_twin_ne :
    embed true true ([d10O, d10I].map (twinSig d10env)) ≠ (embed true true [d10O, d10I]).map (twinSig d10env) := by
  simp only [d10O, d10I, twinSig, mapRet, mapSig, twinRet, twin, sourceValue, d10env, List.map_cons, List.map_nil]
  sv_eval
  simp [Except.map, twinSig, mapRet, mapSig, twinRet, twin, sourceValue, d10env]

theorem d10_forwards_twin_ne :
    forwards (twinSig d10env d10O) (twinSig d10env d10I) 0 [] false false true true false ≠
      (forwards d10O d10I 0 [] false false true true false).map (twinSig d10env) := by
  simp only [d10O, d10I, twinSig, mapRet, mapSig, twinRet, twin, sourceValue, d10env, List.map_cons, List.map_nil]
  sv_eval
  simp [Except.map, twinSig, mapRet, mapSig, twinRet, twin, sourceValue, d10env]

theorem d10_not_faithful : ¬ FaithfulSet d10env (allParams [d10L, d10R]) := by
  intro h
  have := (h ⟨1, .pk, none, some 7, .post 7 1⟩ (by simp [allParams, d10L, d10R])
    ⟨1, .pk, none, some 7, .post 7 2⟩ (by simp [allParams, d10L, d10R])).2.2 7 7 rfl rfl
  simp [sourceValue, d10env] at this

/-! ### faithful spellings across two modules -/

/-- module 1: `def f(x: T, z: S)`;  module 2: `def g(x: T, z: R)`; `T` (token 7) is the same object
    (40) in both modules, `S` (8) is 50, `R` (9) is 60 -/
def nvA : USig := { params := [⟨1, .pk, none, some 7, .post 7 1⟩, ⟨2, .pk, none, some 8, .post 8 1⟩] }
def nvB : USig := { params := [⟨1, .pk, none, some 7, .post 7 2⟩, ⟨2, .pk, none, some 9, .post 9 2⟩] }
def nvEnv : Nat → Nat → Nat := fun _ raw => if raw = 7 then 40 else if raw = 8 then 50 else 60

theorem nv_faithful : FaithfulSet nvEnv (allParams [nvA, nvB]) := by
  intro l hl r hr
  simp only [allParams, nvA, nvB, List.map_cons, List.map_nil, List.flatten_cons, List.flatten_nil,
    List.cons_append, List.nil_append, List.mem_cons, List.not_mem_nil, or_false] at hl hr
  rcases hl with rfl | rfl | rfl | rfl <;> rcases hr with rfl | rfl | rfl | rfl <;>
    (refine ⟨rfl, rfl, ?_⟩
     intro a b ha hb
     simp only [Option.some.injEq] at ha hb
     subst ha hb
     simp [sourceValue, nvEnv])

theorem nv_merge :
    merge [nvA, nvB] = .ok { params := [⟨1, .pk, none, some 7, .post 7 1⟩, ⟨2, .pk, none, none, .empty⟩],
                              src := [(1, []), (2, [])] } := by
  simp only [nvA, nvB]; sv_eval

/-- module 1: `def outer(*args: T)` forwards to module 2: `def inner(z: S, *args: T)` -/
def nvI : USig := { params := [⟨2, .pk, none, some 8, .post 8 2⟩, ⟨1, .vp, none, some 7, .post 7 2⟩] }

theorem nv_fwd_faithful : FaithfulSet nvEnv (d10O.params ++ nvI.params) := by
  intro l hl r hr
  simp only [d10O, nvI, List.cons_append, List.nil_append, List.mem_cons, List.not_mem_nil, or_false] at hl hr
  rcases hl with rfl | rfl | rfl <;> rcases hr with rfl | rfl | rfl <;>
    (refine ⟨rfl, rfl, ?_⟩
     intro a b ha hb
     simp only [Option.some.injEq] at ha hb
     subst ha hb
     simp [sourceValue, nvEnv])

theorem nv_forwards :
    forwards d10O nvI 0 [] false false true true false =
      .ok { params := [⟨2, .po, none, some 8, .post 8 2⟩, ⟨1, .vp, none, some 7, .post 7 2⟩],
            src := [(2, []), (1, [])] } := by
  simp only [d10O, nvI]; sv_eval

/-- `def k(x: T, **kw: S)` and `functools.partial(k, extra=99)` (partial object 77): a fresh
    keyword-only parameter `extra=99` appears -/
def nvK : USig := { params := [⟨1, .pk, none, some 7, .post 7 1⟩, ⟨3, .vk, none, some 8, .post 8 1⟩] }

theorem nv_partial :
    maskPartial nvK 0 [(5, 99)] 77 =
      .ok { params := [⟨1, .pk, none, some 7, .post 7 1⟩, ⟨5, .ko, some 99, none, .empty⟩,
                       ⟨3, .vk, none, some 8, .post 8 1⟩],
            src := [(5, [77])], depths := [(77, 0)] } := by
  simp only [nvK, maskPartial]; sv_eval
  simp [starNamed, validateGo, Kind.rank]

end SV
