/-
  Lemmas/C09XFold.lean — completeness of `merge` on any number of name-aligned inputs.

  The intermediate records of the fold are NOT results of `merge`, so `nonColl` (which speaks about
  the final result) says nothing about them.  The invariant carried through the fold is therefore
  the weaker `accW9`: it does not say *how* a required positional parameter named by a keyword is
  bound, and it speaks about foreign keywords only.  `nonColl` is used once, on the final record
  (`accB_of_accW9`).
-/
import Sigverif.Lemmas.C09XStep
namespace SV
variable {ρ : Roles} {IsIn : Nat → Prop}

/-- the invariant of the fold for the call shape `(n, K)` -/
def accW9 (ρ : Roles) (IsIn : Nat → Prop) (M : Sorted) (n : Nat) (K : List Nat) : Prop :=
  (n ≤ M.pos.length + M.pok.length ∨ M.va.isSome = true) ∧
  (∀ k ∈ K, ¬ IsIn k → M.vk.isSome = true) ∧
  (∀ (i : Nat) (p : Param), (M.pos ++ M.pok)[i]? = some p → p.required = true →
    i < n ∨ p.name ∈ K) ∧
  (∀ p ∈ M.kwo, p.required = true → p.name ∈ K) ∧
  (∀ k ∈ K, k ∈ names M.pok → n ≤ ρ.ι k)

theorem accW9_of_accB {M : Sorted} (hri : RI ρ IsIn M) {n : Nat} {K : List Nat}
    (h : accB M n K) (g : accG9 ρ M n K) : accW9 ρ IsIn M n K := by
  obtain ⟨a1, a2, a3, a4⟩ := h
  refine ⟨a1, ?_, ?_, a4, g⟩
  · intro k hk hni
    rcases a2 k hk with h' | h' | h'
    · obtain ⟨p, hp, rfl⟩ := mem_names_C01.1 h'
      exact absurd (hri.isin p (Or.inr (Or.inl hp))) hni
    · obtain ⟨p, hp, rfl⟩ := mem_names_C01.1 h'
      exact absurd (hri.isin p (Or.inr (Or.inr hp))) hni
    · exact h'
  · intro i p hi hr
    rcases a3 i p hi hr with h' | ⟨_, h'⟩
    · exact Or.inl h'
    · exact Or.inr h'

theorem step_completeW {l r m : Sorted} (hl : RI ρ IsIn l) (hr : RI ρ IsIn r)
    (F : StepFacts l r m) (G : RStepFacts ρ IsIn l r m) (C : CFacts9 l r m)
    {n : Nat} {K : List Nat} (al : accW9 ρ IsIn l n K) (ar : accW9 ρ IsIn r n K) :
    accW9 ρ IsIn m n K := by
  obtain ⟨l1, l2, l3, l4, gl⟩ := al
  obtain ⟨r1, r2, r3, r4, gr⟩ := ar
  have hm := G.ri
  have c1 : n ≤ m.pos.length + m.pok.length ∨ m.va.isSome = true := by
    have e1 := C.len1; have e2 := C.len2; have e3 := C.len3
    simp only [lenP9] at e1 e2 e3
    rw [F.va]
    rcases l1 with l1 | l1 <;> rcases r1 with r1 | r1
    · left; omega
    · left; have := e1 r1; omega
    · left; have := e2 l1; omega
    · right; simp [l1, r1]
  have idxL : ∀ q, q ∈ l.pos ∨ q ∈ l.pok → (l.pos ++ l.pok)[ρ.ι q.name]? = some q := by
    intro q hq
    obtain ⟨j, hj⟩ := List.getElem?_of_mem (List.mem_append.2 hq)
    have := IdxOK_getElem ρ hl.idx j q hj
    rw [this, Nat.zero_add]; exact hj
  have idxR : ∀ q, q ∈ r.pos ∨ q ∈ r.pok → (r.pos ++ r.pok)[ρ.ι q.name]? = some q := by
    intro q hq
    obtain ⟨j, hj⟩ := List.getElem?_of_mem (List.mem_append.2 hq)
    have := IdxOK_getElem ρ hr.idx j q hj
    rw [this, Nat.zero_add]; exact hj
  refine ⟨c1, ?_, ?_, ?_, ?_⟩
  · intro k hk hni
    rw [F.vk, l2 k hk hni, r2 k hk hni]; rfl
  · intro i p hi hreq
    have hp := List.mem_of_getElem? hi
    have hidx := IdxOK_getElem ρ hm.idx i p hi
    rw [Nat.zero_add] at hidx
    obtain ⟨q, hqn, hqr, hq⟩ := C.rq p (by
      rcases List.mem_append.1 hp with h' | h'
      · exact Or.inl h'
      · exact Or.inr (Or.inl h')) hreq
    rcases hq with hq | hq | hq | hq | hq | hq
    · have := l3 _ q (idxL q (Or.inl hq)) hqr; rwa [hqn, hidx] at this
    · have := l3 _ q (idxL q (Or.inr hq)) hqr; rwa [hqn, hidx] at this
    · exact Or.inr (hqn ▸ l4 q hq hqr)
    · have := r3 _ q (idxR q (Or.inl hq)) hqr; rwa [hqn, hidx] at this
    · have := r3 _ q (idxR q (Or.inr hq)) hqr; rwa [hqn, hidx] at this
    · exact Or.inr (hqn ▸ r4 q hq hqr)
  · intro p hp hreq
    obtain ⟨q, hqn, hqr, hq⟩ := C.rq p (Or.inr (Or.inr hp)) hreq
    have noPos : ∀ (_ : ρ.κ q.name = .po ∨ ρ.κ q.name = .pk), ρ.ι q.name < n → False := by
      intro κq hlt
      rcases hm.kkwo p hp with h' | ⟨_, h2, h3⟩
      · rw [hqn, h'] at κq; rcases κq with h'' | h'' <;> cases h''
      · rw [← hqn] at h3
        rcases c1 with h'' | h''
        · omega
        · rw [h2] at h''; cases h''
    rcases hq with hq | hq | hq | hq | hq | hq
    · rcases l3 _ q (idxL q (Or.inl hq)) hqr with h' | h''
      · exact (noPos (hl.kpos q hq) h').elim
      · exact hqn ▸ h''
    · rcases l3 _ q (idxL q (Or.inr hq)) hqr with h' | h''
      · exact (noPos (Or.inr (hl.kpok q hq)) h').elim
      · exact hqn ▸ h''
    · exact hqn ▸ l4 q hq hqr
    · rcases r3 _ q (idxR q (Or.inl hq)) hqr with h' | h''
      · exact (noPos (hr.kpos q hq) h').elim
      · exact hqn ▸ h''
    · rcases r3 _ q (idxR q (Or.inr hq)) hqr with h' | h''
      · exact (noPos (Or.inr (hr.kpok q hq)) h').elim
      · exact hqn ▸ h''
    · exact hqn ▸ r4 q hq hqr
  · intro k hk hkm
    obtain ⟨c, hc, rfl⟩ := mem_names_C01.1 hkm
    rcases C.nq c hc with h' | h'
    · exact gl _ hk h'
    · exact gr _ hk h'

/-- `nonColl` on the final record turns the invariant into bucket-level acceptance -/
theorem accB_of_accW9 {M : Sorted} (hri : RI ρ IsIn M) {n : Nat} {K : List Nat}
    (w : accW9 ρ IsIn M n K)
    (hnc : ∀ k ∈ K, k ∈ names M.pok ∨ k ∈ names M.kwo ∨ ¬ IsIn k) :
    accB M n K ∧ accG9 ρ M n K := by
  obtain ⟨w1, w2, w3, w4, w5⟩ := w
  refine ⟨⟨w1, ?_, ?_, w4⟩, w5⟩
  · intro k hk
    rcases hnc k hk with h' | h' | h'
    · exact Or.inl h'
    · exact Or.inr (Or.inl h')
    · exact Or.inr (Or.inr (w2 k hk h'))
  · intro i p hi hreq
    rcases w3 i p hi hreq with h' | hk
    · exact Or.inl h'
    · right
      refine ⟨?_, hk⟩
      have hp := List.mem_of_getElem? hi
      have hub := IdxOK_ub ρ hri.idx p hp
      rcases hnc p.name hk with h' | h' | h'
      · obtain ⟨p', hp', hn'⟩ := mem_names_C01.1 h'
        have : p' = p := IdxOK_inj ρ hri.idx (List.mem_append_right _ hp') hp (by rw [hn'])
        exact this ▸ hp'
      · obtain ⟨c, hc, hcn⟩ := mem_names_C01.1 h'
        rcases hri.kkwo c hc with hk' | ⟨_, _, hk'⟩
        · rw [hcn] at hk'
          rcases List.mem_append.1 hp with hp' | hp'
          · rcases hri.kpos p hp' with h'' | h'' <;> rw [hk'] at h'' <;> cases h''
          · have h'' := hri.kpok p hp'; rw [hk'] at h''; cases h''
        · rw [hcn] at hk'; simp only [List.length_append] at hub; omega
      · refine absurd (hri.isin p ?_) h'
        rcases List.mem_append.1 hp with hp' | hp'
        · exact Or.inl hp'
        · exact Or.inr (Or.inl hp')

/-! ### alignment of an intermediate record with an input -/

theorem AL9_of_RI {ins : List (List Param)} (hal : aligned ins)
    (hρ : ∀ s ∈ ins, (∀ p ∈ s, p.kind = ρ.κ p.name) ∧ IdxOK ρ 0 (positionals s))
    {acc : Sorted} (hri : RI ρ (fun x => ∃ ps ∈ ins, x ∈ allNames ps) acc)
    (s : USig) (hs : s.params ∈ ins) (hv : validate s.params = .ok ()) :
    AL9 acc (sortParams s) := by
  intro i p q hp hq
  rw [← positionals_sort s hv] at hq
  have hpm := List.mem_of_getElem? hp
  have hidx := IdxOK_getElem ρ hri.idx i p hp
  rw [Nat.zero_add] at hidx
  have hκ : ρ.κ p.name = .po ∨ ρ.κ p.name = .pk := by
    rcases List.mem_append.1 hpm with h' | h'
    · exact hri.kpos p h'
    · exact Or.inr (hri.kpok p h')
  obtain ⟨t, ht, hx⟩ := hri.isin p (by
    rcases List.mem_append.1 hpm with h' | h'
    · exact Or.inl h'
    · exact Or.inr (Or.inl h'))
  obtain ⟨p', hp', hpn⟩ := mem_names_C01.1 hx
  obtain ⟨k1, k2⟩ := hρ t ht
  have hpos : p' ∈ positionals t := by
    refine List.mem_filter.2 ⟨hp', ?_⟩
    have := k1 p' hp'
    rw [hpn] at this
    rcases hκ with h' | h' <;> simp [isPositional, this, h']
  obtain ⟨j, hj⟩ := List.getElem?_of_mem hpos
  have hj' := IdxOK_getElem ρ k2 j p' hj
  rw [Nat.zero_add, hpn, hidx] at hj'
  subst hj'
  have := hal.2 t ht s.params hs i (List.getElem?_eq_some_iff.1 hj).1
    (List.getElem?_eq_some_iff.1 hq).1
  rw [List.getElem?_map, List.getElem?_map, hj, hq] at this
  have e : p'.name = q.name := by simpa using this
  rw [← hpn, e]

/-! ### the fold -/

theorem mergeFold_complete (ss : List USig) (acc res : Sorted) (hacc : RI ρ IsIn acc)
    (hss : ∀ s ∈ ss, RI ρ IsIn (sortParams s))
    (hAL : ∀ acc', RI ρ IsIn acc' → ∀ s ∈ ss, AL9 acc' (sortParams s))
    (h : mergeFold acc ss = .ok res) {n : Nat} {K : List Nat}
    (w0 : accW9 ρ IsIn acc n K) (ws : ∀ s ∈ ss, accW9 ρ IsIn (sortParams s) n K) :
    RI ρ IsIn res ∧ accW9 ρ IsIn res n K := by
  induction ss generalizing acc with
  | nil =>
    simp only [mergeFold, Except.ok.injEq] at h
    subst h
    exact ⟨hacc, w0⟩
  | cons s ss ih =>
    simp only [mergeFold] at h
    cases hm : mergeStep acc (sortParams s) with
    | error e => simp [hm] at h
    | ok acc' =>
      simp only [hm] at h
      have hs := hss s List.mem_cons_self
      have F := mergeStep_facts hacc.bk hs.bk hacc.kw hs.kw hm
      have G := mergeStep_rfacts hacc hs hm
      have C := mergeStep_cfacts hacc.bk hs.bk hacc.kw hs.kw (hAL acc hacc s List.mem_cons_self)
        (Limbo9_of_RI hacc hs) (Limbo9_of_RI hs hacc) hm
      exact ih acc' G.ri (fun t ht => hss t (List.mem_cons_of_mem _ ht))
        (fun a ha t ht => hAL a ha t (List.mem_cons_of_mem _ ht)) h
        (step_completeW hacc hs F G C w0 (ws s List.mem_cons_self))
        (fun t ht => ws t (List.mem_cons_of_mem _ ht))

/-- the core of `merge_complete_aligned` -/
theorem merge_complete_core (ss : List USig) (R : USig) (n : Nat) (K : List Nat)
    (hwf : ∀ s ∈ ss, WF s.params) (hK : K.Nodup) (hal : aligned (ss.map (·.params)))
    (hR : merge ss = .ok R) (hnc : nonColl R.params (ss.map (·.params)) K)
    (hacc : ∀ s ∈ ss, accepts s.params n K = true) : accepts R.params n K = true := by
  have hv : ∀ s ∈ ss, validate s.params = .ok () := fun s hs => WF_validate (hwf s hs)
  obtain ⟨ρ, hρ⟩ := exists_roles (ss.map (·.params))
    (by
      intro ps hps
      obtain ⟨s, hs, rfl⟩ := List.mem_map.1 hps
      exact validate_nodup_C01 (hv s hs)) hal.1
  let IsIn : Nat → Prop := fun x => ∃ ps ∈ ss.map (·.params), x ∈ allNames ps
  have hri : ∀ s ∈ ss, RI ρ IsIn (sortParams s) := by
    intro s hs
    have hm : s.params ∈ ss.map (·.params) := List.mem_map.2 ⟨s, hs, rfl⟩
    obtain ⟨h1, h2⟩ := hρ s.params hm
    exact RI_sort s (hv s hs) h1 h2 (fun p hp => ⟨s.params, hm, mem_names_of_mem_C01 hp⟩)
  have hw : ∀ s ∈ ss, accW9 ρ IsIn (sortParams s) n K := by
    intro s hs
    obtain ⟨a1, a2⟩ := input_accB_of_accepts s (hwf s hs) (hri s hs) (hacc s hs)
    exact accW9_of_accB (hri s hs) a1 a2
  obtain ⟨s0, ss', res, rfl, hf, hvr, hp⟩ := merge_inv hR
  obtain ⟨hres, wres⟩ := mergeFold_complete ss' _ res (hri s0 List.mem_cons_self)
    (fun t ht => hri t (List.mem_cons_of_mem _ ht))
    (fun acc' ha t ht => AL9_of_RI hal hρ ha t
      (List.mem_map.2 ⟨t, List.mem_cons_of_mem _ ht, rfl⟩) (hv t (List.mem_cons_of_mem _ ht)))
    hf (hw s0 List.mem_cons_self) (fun t ht => hw t (List.mem_cons_of_mem _ ht))
  obtain ⟨m1, m2⟩ := accB_of_accW9 hres wres (by
    intro k hk
    rcases hnc k hk with h' | h'
    · rw [hp, all_kwNames hres.bk, List.mem_append] at h'
      rcases h' with h' | h'
      · exact Or.inl h'
      · exact Or.inr (Or.inl h')
    · right; right
      rintro ⟨ps, hps, hx⟩
      exact h' ps hps hx)
  rw [hp]
  exact accepts_of_accB hres hvr hK m1 m2

end SV
