/-
  Lemmas/C18GInv.lean — the identity-aware descriptor cache (Model/CacheId.lean): generic facts about
  runs (`irunFrom`) and the state invariant `IInv`.
-/
import Sigverif.Model.CacheId
namespace SV

/-! ### runs -/

theorem irunFrom_nil (m : KeyMode) (s : IState) : irunFrom m s [] = (s, []) := rfl

theorem irunFrom_cons (m : KeyMode) (s : IState) (op : IOp) (ops : List IOp) :
    irunFrom m s (op :: ops) =
      ((irunFrom m (istep m s op).1 ops).1,
       (match (istep m s op).2 with | some a => [(op, a)] | none => []) ++
         (irunFrom m (istep m s op).1 ops).2) := rfl

theorem irunFrom_append (m : KeyMode) (s : IState) (a b : List IOp) :
    irunFrom m s (a ++ b) =
      ((irunFrom m (irunFrom m s a).1 b).1, (irunFrom m s a).2 ++ (irunFrom m (irunFrom m s a).1 b).2) := by
  induction a generalizing s with
  | nil => simp [irunFrom_nil]
  | cons op a ih => simp [irunFrom_cons, ih]

theorem irun_append (m : KeyMode) (a b : List IOp) :
    irun m (a ++ b) = (irunFrom m (irun m a) b).1 := by
  simp [irun, irunFrom_append]

theorem itrace_append (m : KeyMode) (a b : List IOp) :
    itrace m (a ++ b) = itrace m a ++ (irunFrom m (irun m a) b).2 := by
  simp [irun, itrace, irunFrom_append]

/-- a step-invariant holds at the end of every run and in the state every recorded lookup was made in -/
theorem irunFrom_invariant (m : KeyMode) (P : IState → Prop)
    (hstep : ∀ s op, P s → P (istep m s op).1) (s : IState) (hs : P s) (ops : List IOp) :
    P (irunFrom m s ops).1 ∧
    ∀ p ∈ (irunFrom m s ops).2, ∃ s', P s' ∧ (istep m s' p.1).2 = some p.2 := by
  induction ops generalizing s with
  | nil => simp [irunFrom_nil, hs]
  | cons op ops ih =>
    obtain ⟨h1, h2⟩ := ih _ (hstep s op hs)
    refine ⟨by simpa [irunFrom_cons] using h1, ?_⟩
    intro p hp
    simp only [irunFrom_cons, List.mem_append] at hp
    rcases hp with hp | hp
    · refine ⟨s, hs, ?_⟩
      split at hp
      · rename_i a ha
        simp only [List.mem_singleton] at hp
        subst hp
        exact ha
      · simp at hp
    · exact h2 p hp

/-! ### the invariant -/

structure IInv (m : KeyMode) (s : IState) : Prop where
  /-- wrapper identities in use are below the counter -/
  widE : ∀ e ∈ s.entries, e.wid < s.nextWid
  widH : ∀ h ∈ s.heldWrap, h.2 < s.nextWid
  /-- a wrapper the caller holds has its entry (weak value: the entry only goes with the wrapper) -/
  hasE : ∀ h ∈ s.heldWrap, ∃ e ∈ s.entries, e.wid = h.2
  /-- two entries never share a wrapper -/
  widInj : ∀ e ∈ s.entries, ∀ e' ∈ s.entries, e.wid = e'.wid → e = e'
  /-- identity keys: every cached wrapper is bound to the instance of its key -/
  bound : m = .identity → ∀ e ∈ s.entries, e.wrapperInst = e.key.id
  /-- identity keys: a wrapper obtained through instance i sits in the entry keyed by i -/
  slot : m = .identity → ∀ h ∈ s.heldWrap, ∀ e ∈ s.entries, e.wid = h.2 → e.key.id = h.1

theorem IInv_init (m : KeyMode) : IInv m {} := by
  constructor <;> simp

theorem instOf_id {s : IState} {i : Nat} {k : Inst} (h : s.instOf i = some k) : k.id = i := by
  have := List.find?_some h
  simpa using this

theorem heldInstOf_some {s : IState} {i : Nat} {k : Inst} (h : s.heldInstOf i = some k) :
    i ∈ s.heldInst ∧ s.instOf i = some k ∧ k.id = i := by
  unfold IState.heldInstOf at h
  split at h
  · rename_i hc
    exact ⟨by simpa using hc, h, instOf_id h⟩
  · cases h

theorem find_some {m : KeyMode} {s : IState} {k : Inst} {e : IEntry} (h : s.find m k = some e) :
    e ∈ s.entries ∧ m.matches e.key k = true := by
  unfold IState.find at h
  exact ⟨List.mem_of_find?_eq_some h, by simpa using List.find?_some h⟩

theorem find_none {m : KeyMode} {s : IState} {k : Inst} (h : s.find m k = none) :
    ∀ e ∈ s.entries, m.matches e.key k = false := by
  intro e he
  unfold IState.find at h
  have := List.find?_eq_none.1 h e he
  simpa using this

theorem mem_addPair {l : List (Nat × Nat)} {p q : Nat × Nat} : q ∈ addPair l p ↔ q = p ∨ q ∈ l := by
  unfold addPair
  split
  · rename_i h
    have : p ∈ l := by simpa using h
    constructor
    · exact Or.inr
    · rintro (rfl | h) <;> assumption
  · simp

theorem mem_addOnce {l : List Nat} {i j : Nat} : j ∈ addOnce l i ↔ j = i ∨ j ∈ l := by
  unfold addOnce
  split
  · rename_i h
    have : i ∈ l := by simpa using h
    constructor
    · exact Or.inr
    · rintro (rfl | h) <;> assumption
  · simp

end SV
