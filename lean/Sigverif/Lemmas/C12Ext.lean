/-
  Lemmas/C12Ext.lean — `prepare` only depends on the sets of names.
-/
import Sigverif.Lemmas.C12Prep
namespace SV
set_option linter.unusedSimpArgs false

def tuEquiv (a b : PrepState) : Prop :=
  a.params = b.params ∧ a.kwoparams = b.kwoparams ∧ a.kwopos = b.kwopos ∧
  a.foundPok = b.foundPok ∧ a.foundKws = b.foundKws ∧ ∀ x, x ∈ a.toUse ↔ x ∈ b.toUse

def resEquiv : Except Err PrepState → Except Err PrepState → Prop
  | .ok a, .ok b => tuEquiv a b
  | .error e, .error e' => e = e'
  | _, _ => False

theorem contains_congr {P P' : List Nat} (h : ∀ x, x ∈ P ↔ x ∈ P') (x : Nat) :
    P.contains x = P'.contains x := by
  rw [Bool.eq_iff_iff]; simp [h]

theorem prepStep_congr {P P' W W' : List Nat} (hP : ∀ x, x ∈ P ↔ x ∈ P') (hW : ∀ x, x ∈ W ↔ x ∈ W')
    (st : PrepState) (i : Nat) (p : Param) : prepStep P W st i p = prepStep P' W' st i p := by
  simp only [prepStep, contains_congr hP, contains_congr hW]

theorem prepLoop_congr {P P' W W' : List Nat} (hP : ∀ x, x ∈ P ↔ x ∈ P') (hW : ∀ x, x ∈ W ↔ x ∈ W')
    (st : PrepState) (i : Nat) (ps : List Param) : prepLoop P W st i ps = prepLoop P' W' st i ps := by
  induction ps generalizing st i with
  | nil => rfl
  | cons p ps ih => simp only [prepLoop, prepStep_congr hP hW, ih]

theorem prepStep_equiv {P W : List Nat} {a b : PrepState} (h : tuEquiv a b) (i : Nat) (p : Param) :
    resEquiv (prepStep P W a i p) (prepStep P W b i p) := by
  obtain ⟨h1, h2, h3, h4, h5, h6⟩ := h
  obtain ⟨pa, ka, kpa, fpa, fka, ua⟩ := a
  obtain ⟨pb, kb, kpb, fpb, fkb, ub⟩ := b
  simp only at h1 h2 h3 h4 h5 h6
  subst h1 h2 h3 h4 h5
  have hc := contains_congr h6 p.name
  unfold prepStep setRemove
  simp only [hc]
  cases hk : p.kind <;> by_cases hP : p.name ∈ P <;> by_cases hW : p.name ∈ W <;>
    by_cases hf : fpa = true <;> by_cases hu : p.name ∈ ub <;>
    simp [hk, hP, hW, hf, hu, resEquiv, tuEquiv, bind, Except.bind, pure, Except.pure, h6]

theorem prepLoop_equiv {P W : List Nat} {a b : PrepState} (h : tuEquiv a b) (i : Nat)
    (ps : List Param) : resEquiv (prepLoop P W a i ps) (prepLoop P W b i ps) := by
  induction ps generalizing a b i with
  | nil => simpa [prepLoop, resEquiv] using h
  | cons p ps ih =>
    simp only [prepLoop, bind, Except.bind]
    have := prepStep_equiv (P := P) (W := W) h i p
    cases ha : prepStep P W a i p <;> cases hb : prepStep P W b i p <;> rw [ha, hb] at this <;>
      simp only [resEquiv] at this
    · subst this; simp [resEquiv]
    · exact ih this (i + 1)

theorem isEmpty_congr {u u' : List Nat} (h : ∀ x, x ∈ u ↔ x ∈ u') : u.isEmpty = u'.isEmpty := by
  cases u with
  | nil =>
    cases u' with
    | nil => rfl
    | cons a l => have := (h a).2 (by simp); simp at this
  | cons a l =>
    cases u' with
    | nil => have := (h a).1 (by simp); simp at this
    | cons b l' => rfl

theorem prepare_ext (F : List Param) (P P' W W' : List Nat)
    (hP : ∀ x, x ∈ P ↔ x ∈ P') (hW : ∀ x, x ∈ W ↔ x ∈ W') :
    prepare F P W = prepare F P' W' := by
  rw [prepare_eq, prepare_eq]
  have h1 : P.any (fun x => W.contains x) = P'.any (fun x => W'.contains x) := by
    rw [Bool.eq_iff_iff]; simp [List.any_eq_true, hP, hW]
  rw [h1, ← prepLoop_congr hP hW]
  have h0 : tuEquiv (st0 P W) (st0 P' W') := by
    refine ⟨rfl, rfl, rfl, rfl, rfl, fun x => ?_⟩
    simp [st0, mem_dedup, hP, hW]
  have := prepLoop_equiv (P := P) (W := W) h0 0 F
  cases ha : prepLoop P W (st0 P W) 0 F <;> cases hb : prepLoop P W (st0 P' W') 0 F <;>
    rw [ha, hb] at this <;> simp only [resEquiv] at this
  · subst this; rfl
  · obtain ⟨e1, e2, e3, e4, e5, e6⟩ := this
    simp only [finalParams, e1, e2, e3, e5, isEmpty_congr e6]

end SV
