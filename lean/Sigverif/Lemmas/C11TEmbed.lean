/-
  Lemmas/C11TEmbed.lean — `_embed` / `embed` commute with a metadata map that commutes with
  `_concile_meta` on the parameters satisfying an invariant `P`.
-/
import Sigverif.Lemmas.C11TMerge
namespace SV
set_option linter.unusedSimpArgs false
set_option linter.unusedVariables false

section
variable {f : Param → Param} {P : Param → Prop}

theorem x11_checkNoDupes_map (hf : MetaMap f) (c : List Nat) (ps : List Param) :
    checkNoDupes c (ps.map f) = checkNoDupes c ps := by
  unfold checkNoDupes
  rw [x11_names_map hf]

theorem x11_checkNoDupes_opt (hf : MetaMap f) (c : List Nat) (o : Option Param) :
    checkNoDupes c (o.map f).toList = checkNoDupes c o.toList := by
  cases o with
  | none => rfl
  | some p => exact x11_checkNoDupes_map hf c [p]

theorem x11_clearDefaults_map (hf : MetaMap f) (l : List Param) :
    clearDefaults (l.map f) = (clearDefaults l).map f := by
  simp only [clearDefaults, List.map_map]
  apply List.map_congr_left
  intro p _
  exact (hf.withDflt p none).symm

theorem x11_cdIf_map (hf : MetaMap f) (c : Bool) (l : List Param) :
    cdIf c (l.map f) = (cdIf c l).map f := by
  unfold cdIf
  split
  · exact x11_clearDefaults_map hf l
  · rfl

theorem x11_innerFirstRequired_map (hf : MetaMap f) (i : Sorted) :
    innerFirstRequired (mapSorted f i) = innerFirstRequired i := by
  unfold innerFirstRequired
  simp only [mapSorted_pos, mapSorted_pok]
  cases i.pos with
  | cons a t => simp only [List.map_cons, hf.dflt]
  | nil =>
    cases i.pok with
    | cons a t => simp only [List.map_nil, List.map_cons, hf.dflt]
    | nil => rfl

theorem x11_ePosC_map (hf : MetaMap f) (O i : Sorted) :
    ePosC (mapSorted f O) (mapSorted f i) = (ePosC O i).map f := by
  unfold ePosC
  simp only [x11_innerFirstRequired_map hf, mapSorted_pos, mapSorted_pok, List.isEmpty_map,
    x11_mapKind_map hf, ← List.map_append, x11_cdIf_map hf]
  split <;> rfl

theorem x11_ePokC_map (hf : MetaMap f) (O i : Sorted) :
    ePokC (mapSorted f O) (mapSorted f i) = (ePokC O i).map f := by
  unfold ePokC
  simp only [x11_innerFirstRequired_map hf, mapSorted_pos, mapSorted_pok, List.isEmpty_map,
    x11_cdIf_map hf]
  split <;> simp only [List.map_append, List.map_nil]

theorem x11_if_opt_map (c : Bool) (a b : Option Param) :
    (if c = true then a.map f else b.map f) = (if c = true then a else b).map f := by
  cases c <;> rfl

theorem x11_embedTailC_map (hf : MetaMap f) (O i : Sorted) (uva uvk : Bool) :
    embedTailC (mapSorted f O) (mapSorted f i) uva uvk = (embedTailC O i uva uvk).map (mapSorted f) := by
  unfold embedTailC
  have e0 : pupdate [] (O.kwo.map f) = (pupdate [] O.kwo).map f := x11_pupdate_map hf [] O.kwo
  simp only [mapSorted_pos, mapSorted_pok, mapSorted_kwo, mapSorted_va, mapSorted_vk, x11_if_opt_map,
    x11_checkNoDupes_map hf, x11_checkNoDupes_opt hf, x11_ePosC_map hf, x11_ePokC_map hf,
    e0, x11_pupdate_map hf, bind, Except.bind]
  cases checkNoDupes [] O.pos with
  | error e => rfl
  | ok n1 =>
  simp only []
  cases checkNoDupes n1 O.pok with
  | error e => rfl
  | ok n2 =>
  simp only []
  cases checkNoDupes n2 i.pos with
  | error e => rfl
  | ok n3 =>
  simp only []
  cases checkNoDupes n3 i.pok with
  | error e => rfl
  | ok n4 =>
  simp only []
  cases checkNoDupes n4 O.kwo with
  | error e => rfl
  | ok n5 =>
  simp only []
  cases checkNoDupes n5 i.kwo with
  | error e => rfl
  | ok n6 =>
  simp only []
  cases checkNoDupes n6 (if uva = true then i.va else O.va).toList with
  | error e => rfl
  | ok n7 =>
  simp only []
  cases checkNoDupes n7 (if uvk = true then i.vk else O.vk).toList with
  | error e => rfl
  | ok n8 => rfl

theorem x11_embedSrc_map (hf : MetaMap f) (O i : Sorted) (uva uvk : Bool) :
    embedSrc (mapSorted f O) (mapSorted f i) uva uvk = embedSrc O i uva uvk := by
  unfold embedSrc
  simp only [mapSorted_va, mapSorted_vk, mapSorted_src]
  cases O.va <;> cases O.vk <;> simp only [Option.map_some, Option.map_none, hf.name]

theorem x11_embedTail_map (hf : MetaMap f) (O i : Sorted) (uva uvk : Bool) (d : Nat) :
    embedTail (mapSorted f O) (mapSorted f i) uva uvk d = (embedTail O i uva uvk d).map (mapSorted f) := by
  rw [embedTail_eq, embedTail_eq, x11_embedTailC_map hf, x11_embedSrc_map hf]
  cases embedTailC O i uva uvk <;> rfl

theorem x11_embedStep_map (hf : MetaMap f) (hc : ClosedP P) (hcomm : ConcComm f P) (O I : Sorted)
    (uva uvk : Bool) (d : Nat) (hO : AllP P O.all) (hI : AllP P I.all) :
    embedStep (mapSorted f O) (mapSorted f I) uva uvk d = (embedStep O I uva uvk d).map (mapSorted f) := by
  obtain ⟨o1, o2, o3, o4, o5⟩ := (allP_all_iff O).1 hO
  have hstars : AllP P (Sorted.all { va := if uva then O.va else none, vk := if uvk then O.vk else none }) := by
    refine (allP_all_iff _).2 ⟨AllP.nil, AllP.nil, ?_, AllP.nil, ?_⟩
    · intro p hp
      cases uva
      · simp at hp
      · simp only [if_true] at hp; exact o3 p hp
    · intro p hp
      cases uvk
      · simp at hp
      · simp only [if_true] at hp; exact o5 p hp
  have e0 : ({ va := if uva then (mapSorted f O).va else none,
               vk := if uvk then (mapSorted f O).vk else none } : Sorted) =
      mapSorted f { va := if uva then O.va else none, vk := if uvk then O.vk else none } := by
    cases uva <;> cases uvk <;> rfl
  rw [embedStep_eq, embedStep_eq, e0, x11_mergeStep_map hf hc hcomm I _ hI hstars]
  simp only [bind, Except.bind]
  cases mergeStep I { va := if uva then O.va else none, vk := if uvk then O.vk else none } with
  | error e => rfl
  | ok i => exact x11_embedTail_map hf O i uva uvk d

theorem x11_embedFold_map (hf : MetaMap f) (hc : ClosedP P) (hcomm : ConcComm f P) (uva uvk : Bool)
    (acc : Sorted) (n : Nat) (ss : List USig) (hacc : AllP P acc.all) (hss : ∀ s ∈ ss, AllP P s.params) :
    embedFold uva uvk (mapSorted f acc) n (ss.map (mapSig f)) =
      (embedFold uva uvk acc n ss).map (mapSorted f) := by
  induction ss generalizing acc n with
  | nil => rfl
  | cons s ss ih =>
    simp only [List.map_cons, embedFold, x11_sortParams_map hf]
    have hs := sortParams_allP s (hss s (by simp))
    rw [x11_embedStep_map hf hc hcomm acc (sortParams s) uva uvk n hacc hs]
    cases hstep : embedStep acc (sortParams s) uva uvk n with
    | error e => rfl
    | ok acc' =>
      simp only [Except.map]
      exact ih acc' (n + 1) (embedStep_all hc _ _ _ _ _ _ hacc hs hstep) (fun t ht => hss t (by simp [ht]))

theorem x11_embed_map (hf : MetaMap f) (hc : ClosedP P) (hcomm : ConcComm f P) (uva uvk : Bool)
    (ss : List USig) (hss : ∀ s ∈ ss, AllP P s.params) :
    embed uva uvk (ss.map (mapSig f)) = (embed uva uvk ss).map (mapSig f) := by
  cases ss with
  | nil => rfl
  | cons s ss =>
    simp only [List.map_cons, embed, bind, Except.bind, x11_sortParams_map hf]
    rw [x11_embedFold_map hf hc hcomm uva uvk _ 1 ss (sortParams_allP s (hss s (by simp)))
      (fun t ht => hss t (by simp [ht]))]
    cases hfold : embedFold uva uvk (sortParams s) 1 ss with
    | error e => rfl
    | ok r =>
      simp only [Except.map]
      exact x11_applyParams_map hf s r

end
end SV
