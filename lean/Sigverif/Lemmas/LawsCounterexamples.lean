/-
  Lemmas/LawsCounterexamples.lean — concrete inputs on which the ORIGINAL statements of
  merge_idem, merge_neutral_r and merge_neutral_l fail (they justify the added hypotheses).
-/
import Sigverif.Lemmas.LawsEval
namespace SV

/-! ### merge_idem: a parameter with no annotation but a non-empty upgraded annotation
    (not a state sigtools produces: model artefact) -/
def cxIdem : USig := { params := [⟨1, .pk, none, none, .pre 3⟩] }

theorem cxIdem_eval : merge [cxIdem, cxIdem] =
    .ok { params := [⟨1, .pk, none, none, .empty⟩], src := [(1, [])], depths := [] } := by
  simp only [cxIdem]; sv_eval

/-- the original statement of merge_idem is false for `cxIdem` -/
example : WF cxIdem.params ∧ ¬ ∃ R, merge [cxIdem, cxIdem] = .ok R ∧ R.params = cxIdem.params ∧
    R.ret = cxIdem.ret ∧ R.uret = cxIdem.uret := by
  refine ⟨by decide, ?_⟩
  rintro ⟨R, h, hp, _⟩
  rw [cxIdem_eval] at h
  cases h
  revert hp; decide

/-! ### merge_neutral_r -/
def cxBare : USig := { params := [⟨11, .vp, none, none, .empty⟩, ⟨12, .vk, none, none, .empty⟩] }
/-- `*args` without annotation but with a non-empty upgraded annotation (model artefact) -/
def cxNr1 : USig := { params := [⟨5, .vp, none, none, .pre 3⟩] }
/-- `*args` with a default value (inspect.Parameter refuses it: model artefact) -/
def cxNr2 : USig := { params := [⟨5, .vp, some 4, none, .empty⟩] }

theorem cxNr1_eval : merge [cxNr1, cxBare] =
    .ok { params := [⟨5, .vp, none, none, .empty⟩], src := [(5, [])], depths := [] } := by
  simp only [cxNr1, cxBare]; sv_eval
theorem cxNr2_eval : merge [cxNr2, cxBare] =
    .ok { params := [⟨5, .vp, none, none, .empty⟩], src := [(5, [])], depths := [] } := by
  simp only [cxNr2, cxBare]; sv_eval

example : WF cxNr1.params ∧ ¬ ∃ R, merge [cxNr1, cxBare] = .ok R ∧ R.params = cxNr1.params := by
  refine ⟨by decide, ?_⟩
  rintro ⟨R, h, hp⟩
  rw [cxNr1_eval] at h
  cases h
  revert hp; decide
example : WF cxNr2.params ∧ ¬ ∃ R, merge [cxNr2, cxBare] = .ok R ∧ R.params = cxNr2.params := by
  refine ⟨by decide, ?_⟩
  rintro ⟨R, h, hp⟩
  rw [cxNr2_eval] at h
  cases h
  revert hp; decide

/-! ### merge_neutral_l: the name of the bare `*args` is the name of an ordinary parameter of
    `sig`: `merge((*a, **k), (a, *args))` builds `(a, *a)` and the final validation raises
    ValueError (duplicate parameter name).  This one is reachable from real code. -/
def cxNl : USig := { params := [⟨11, .pk, none, none, .empty⟩, ⟨5, .vp, none, none, .empty⟩] }

theorem cxNl_eval : merge [cxBare, cxNl] = .error .valueError := by
  simp only [cxNl, cxBare]; sv_eval

example : WF cxNl.params ∧ WF cxBare.params ∧ ¬ ∃ R, merge [cxBare, cxNl] = .ok R := by
  refine ⟨by decide, by decide, ?_⟩
  rintro ⟨R, h⟩
  rw [cxNl_eval] at h
  cases h

/-- the two star parameters of `bare` carry the same name (then `bare` is not a valid signature) -/
def cxBare2 : USig := { params := [⟨11, .vp, none, none, .empty⟩, ⟨11, .vk, none, none, .empty⟩] }
def cxNl2 : USig := { params := [⟨5, .vp, none, none, .empty⟩, ⟨6, .vk, none, none, .empty⟩] }
theorem cxNl2_eval : merge [cxBare2, cxNl2] = .error .valueError := by
  simp only [cxNl2, cxBare2]; sv_eval

end SV
