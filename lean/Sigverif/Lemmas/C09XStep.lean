/-
  Lemmas/C09XStep.lean — the two ends of the completeness proof: from bucket-level acceptance back
  to `accepts` (the result), and from `accepts` to bucket-level acceptance (an input).
-/
import Sigverif.Lemmas.C09XInv
import Sigverif.Lemmas.C01RFinal
import Sigverif.Lemmas.C03Sort
namespace SV
variable {ρ : Roles} {IsIn : Nat → Prop}

/-- `Limbo9` follows from the role invariant -/
theorem Limbo9_of_RI {l r : Sorted} (hl : RI ρ IsIn l) (hr : RI ρ IsIn r) : Limbo9 l r := by
  intro x hx hn
  obtain ⟨q, hq, hqn⟩ := mem_names_C01.1 hn
  have k1 := hl.kpok x hx
  rcases hr.kkwo q hq with h' | h'
  · rw [hqn, k1] at h'; cases h'
  · exact h'.2.1

/-- the keyword clause that `accB` leaves out: a keyword naming a positional-or-keyword parameter
    is not also bound positionally -/
def accG9 (ρ : Roles) (M : Sorted) (n : Nat) (K : List Nat) : Prop :=
  ∀ k ∈ K, k ∈ names M.pok → n ≤ ρ.ι k

/-! ### from bucket-level acceptance back to `accepts` -/

theorem mem_all_cases9 {B : Sorted} {p : Param} (h : p ∈ B.all) :
    p ∈ B.pos ∨ p ∈ B.pok ∨ B.va = some p ∨ p ∈ B.kwo ∨ B.vk = some p := by
  unfold Sorted.all at h
  simp only [List.mem_append, Option.mem_toList] at h
  rcases h with (((h | h) | h) | h) | h
  · exact Or.inl h
  · exact Or.inr (Or.inl h)
  · exact Or.inr (Or.inr (Or.inl h))
  · exact Or.inr (Or.inr (Or.inr (Or.inl h)))
  · exact Or.inr (Or.inr (Or.inr (Or.inr h)))

theorem accepts_of_accB {B : Sorted} (hri : RI ρ IsIn B) (hv : validate B.all = .ok ())
    {n : Nat} {K : List Nat} (hK : K.Nodup) (h : accB B n K) (g : accG9 ρ B n K) :
    accepts B.all n K = true := by
  have bk := hri.bk
  have hn := validate_nodup_C01 hv
  obtain ⟨a1, a2, a3, a4⟩ := h
  rw [accepts_iff_C01, all_positionals bk, all_hasVa bk, all_kwNames bk, all_hasVk bk]
  refine ⟨by simpa using a1, ?_⟩
  have memAll : ∀ p, p ∈ B.pos ++ B.pok → p ∈ B.all := by
    intro p hp
    rcases List.mem_append.1 hp with h | h
    · exact mem_all_of_pos h
    · exact mem_all_of_pok h
  obtain ⟨bound, hb, hbound⟩ := bindKw_ok' (kwp := names B.pok ++ names B.kwo)
    (vk := B.vk.isSome) (b0 := names ((B.pos ++ B.pok).take n)) hK (by
      intro k hk
      refine ⟨?_, ?_⟩
      · intro hkn hm
        obtain ⟨q, hq, hqn⟩ := mem_names_C01.1 hm
        obtain ⟨j, hj⟩ := List.getElem?_of_mem hq
        rw [List.getElem?_take] at hj
        split at hj
        · next hjn =>
          have e1 := IdxOK_getElem ρ hri.idx j q hj
          have hq' := List.mem_of_getElem? hj
          rcases List.mem_append.1 hkn with h' | h'
          · have := g k hk h'
            rw [hqn] at e1; omega
          · obtain ⟨c, hc, hcn⟩ := mem_names_C01.1 h'
            have : c = q := eq_of_nodup_names hn (mem_all_of_kwo hc) (memAll q hq') (hcn.trans hqn.symm)
            subst this
            have k1 := bk.kwo c hc
            rcases List.mem_append.1 hq' with h'' | h''
            · rw [bk.pos c h''] at k1; cases k1
            · rw [bk.pok c h''] at k1; cases k1
        · cases hj
      · intro hkn
        simp only [List.mem_append, not_or] at hkn
        rcases a2 k hk with h' | h' | h'
        · exact absurd h' hkn.1
        · exact absurd h' hkn.2
        · exact h')
  refine ⟨bound, hb, ?_⟩
  intro p hp hnm hr
  apply hbound
  have posCase : p ∈ B.pos ++ B.pok →
      p.name ∈ names ((B.pos ++ B.pok).take n) ∨
        (p.name ∈ K ∧ p.name ∈ names B.pok ++ names B.kwo) := by
    intro hpp'
    obtain ⟨i, hi⟩ := List.getElem?_of_mem hpp'
    rcases a3 i p hi hr with h' | ⟨h1, h2⟩
    · left
      refine mem_names_of_mem_C01 (List.mem_iff_getElem?.2 ⟨i, ?_⟩)
      rw [List.getElem?_take, if_pos h']; exact hi
    · exact Or.inr ⟨h2, List.mem_append_left _ (mem_names_of_mem_C01 h1)⟩
  rcases mem_all_cases9 hp with h' | h' | h' | h' | h'
  · exact posCase (List.mem_append_left _ h')
  · exact posCase (List.mem_append_right _ h')
  · have := bk.va p h'; simp [isNamed, this] at hnm
  · exact Or.inr ⟨a4 p h' hr, List.mem_append_right _ (mem_names_of_mem_C01 h')⟩
  · have := bk.vk p h'; simp [isNamed, this] at hnm

/-- an accepting input, on buckets -/
theorem input_accB_of_accepts (s : USig) (hwf : WF s.params)
    (hri : RI ρ IsIn (sortParams s)) {n : Nat} {K : List Nat}
    (ha : accepts s.params n K = true) :
    accB (sortParams s) n K ∧ accG9 ρ (sortParams s) n K := by
  have hall := sortParams_all hwf
  have hv : validate (sortParams s).all = .ok () := by rw [hall]; exact WF_validate hwf
  obtain ⟨h1, h2⟩ := result_accB hri hv (hall.symm ▸ ha)
  refine ⟨h1, ?_⟩
  intro k hk hkm
  obtain ⟨c, hc, rfl⟩ := mem_names_C01.1 hkm
  exact (h2 _ hk (Or.inl hkm)).2 (hri.kpok c hc)

end SV
