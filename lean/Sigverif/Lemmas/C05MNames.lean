/-
  Lemmas/C05MNames.lean — every parameter name of `forwards(outer, inner, …)` (partial or not) is a
  parameter name of `outer` or of `inner`; the same for what a call record declares.
-/
import Sigverif.Lemmas.C04Partial
import Sigverif.Lemmas.C08Embed
import Sigverif.Props.C06
namespace SV

theorem c05m_starOf_name {l r : Option Param} {w : Bool} {p : Param} (h : starOf l r w = some p) :
    ∃ q, l = some q ∧ q.name = p.name := by
  unfold starOf at h
  split at h
  · rename_i lp rp
    simp only [Option.some.injEq] at h
    subst h
    refine ⟨lp, rfl, ?_⟩
    split <;> rfl
  · cases h

theorem c05m_mergeStars_stars {I i' : Sorted} {sva svk : Option Param}
    (h : mergeStars I sva svk = .ok i') :
    (∀ p, i'.va = some p → ∃ q, I.va = some q ∧ q.name = p.name) ∧
    (∀ p, i'.vk = some p → ∃ q, I.vk = some q ∧ q.name = p.name) := by
  unfold mergeStars at h
  simp only at h
  repeat' split at h
  all_goals cases h
  all_goals
    refine ⟨?_, ?_⟩ <;> intro p hp <;> first
      | exact c05m_starOf_name hp
      | cases hp

/-- every parameter name of `embed [o, i]` is a parameter name of `o` or of `i` -/
theorem c05m_embed_names_subset {o i R : USig} {uva uvk : Bool} (ho : WF o.params) (hi : WF i.params)
    (hR : embed uva uvk [o, i] = .ok R) :
    ∀ x ∈ names R.params, x ∈ names o.params ∨ x ∈ names i.params := by
  obtain ⟨i', r, h1, h2, h3, _⟩ := embed_two_ok hR
  obtain ⟨hallO, hkO, _, _⟩ := sortParams_WF o ho
  obtain ⟨hallI, hkI, _, _⟩ := sortParams_WF i hi
  obtain ⟨sa, sk⟩ := c05m_mergeStars_stars h1
  have hr := embedTailC_ok h2
  intro x hx
  rw [h3, mem_names_all] at hx
  rw [← hallO, ← hallI]
  have named : x ∈ names (r.pos ++ r.pok ++ r.kwo) →
      x ∈ names (sortParams o).all ∨ x ∈ names (sortParams i).all := by
    intro hx
    obtain ⟨p, hp, rfl⟩ := mem_names_C02.1 hx
    rcases embedTailC_named_from h2 p hp with hO | hI
    · exact .inl (names_named_subset_all hO)
    · obtain ⟨q, hq, hqn, -⟩ := mergeStars_named_from h1 p hI
      right
      rw [← hqn]
      exact names_named_subset_all (mem_names_of_mem_C02 hq)
  have va : x ∈ names r.va.toList → x ∈ names (sortParams o).all ∨ x ∈ names (sortParams i).all := by
    intro hx
    obtain ⟨p, hp, rfl⟩ := (mem_names_toList _ _).1 hx
    rw [hr] at hp
    simp only at hp
    split at hp
    · obtain ⟨q, hq, hqn⟩ := sa p hp
      right
      rw [mem_names_all]
      exact .inr (.inr (.inl ((mem_names_toList _ _).2 ⟨q, hq, hqn⟩)))
    · left
      rw [mem_names_all]
      exact .inr (.inr (.inl ((mem_names_toList _ _).2 ⟨p, hp, rfl⟩)))
  have vk : x ∈ names r.vk.toList → x ∈ names (sortParams o).all ∨ x ∈ names (sortParams i).all := by
    intro hx
    obtain ⟨p, hp, rfl⟩ := (mem_names_toList _ _).1 hx
    rw [hr] at hp
    simp only at hp
    split at hp
    · obtain ⟨q, hq, hqn⟩ := sk p hp
      right
      rw [mem_names_all]
      exact .inr (.inr (.inr (.inr ((mem_names_toList _ _).2 ⟨q, hq, hqn⟩))))
    · left
      rw [mem_names_all]
      exact .inr (.inr (.inr (.inr ((mem_names_toList _ _).2 ⟨p, hp, rfl⟩))))
  rcases hx with h | h | h | h | h
  · exact named (by simp only [names_append_C02, List.mem_append]; exact .inl (.inl h))
  · exact named (by simp only [names_append_C02, List.mem_append]; exact .inl (.inr h))
  · exact va h
  · exact named (by simp only [names_append_C02, List.mem_append]; exact .inr h)
  · exact vk h

/-- every parameter name of `forwards(o, i, …)` is a parameter name of `o` or of `i` -/
theorem c05m_forwards_names_subset {o i R : USig} {n : Nat} {nms : List Nat} {ha hk uva uvk pt : Bool}
    (ho : WF o.params) (hi : WF i.params)
    (hR : forwards o i n nms ha hk uva uvk pt = .ok R) :
    ∀ x ∈ names R.params, x ∈ names o.params ∨ x ∈ names i.params := by
  cases pt with
  | false =>
    obtain ⟨M, hM, hE⟩ := forwards_false_ok hR
    have hMwf := mask_wf i M n nms _ hi hM
    intro x hx
    rcases c05m_embed_names_subset ho hMwf hE x hx with h | h
    · exact .inl h
    · exact .inr (mask_names_subset hi hM x h)
  | true =>
    obtain ⟨hv, M, hM, hE⟩ := forwards_true_ok hR
    have hi' : WF (partialParams i.params) := partialParams_WF hi hv
    have hMwf := mask_wf _ M n nms _ hi' hM
    intro x hx
    rcases c05m_embed_names_subset ho hMwf hE x hx with h | h
    · exact .inl h
    · right
      have := mask_names_subset (sig := { i with params := partialParams i.params }) hi' hM x h
      rwa [partialParams_names] at this

/-- every parameter name of what a call record declares is a parameter name of the wrapper or of
    the callee -/
theorem c05m_declared_names (own : USig) (resolve : RM → RVal) (c : CallRec) (s : USig)
    (ho : WF own.params) (hres : ∀ r w, resolve r = .fn w → WF w.params)
    (hd : declared own resolve c = .ok s) :
    ∃ w, (resolve c.wrapped = .fn w ∨
          (resolve c.wrapped = .partialCtor ∧ ∃ a0 t, c.args = a0 :: t ∧ resolve a0 = .fn w)) ∧
      ∀ x ∈ names s.params, x ∈ names own.params ∨ x ∈ names w.params := by
  unfold declared at hd
  split at hd
  · rename_i w hw
    split at hd
    · cases hd
    · split at hd
      · rename_i s' hf
        simp only [Except.ok.injEq] at hd
        subst hd
        exact ⟨w, .inl hw, c05m_forwards_names_subset ho (hres _ _ hw) hf⟩
      · cases hd
  · split at hd
    · cases hd
    · split at hd
      · rename_i w hw
        split at hd
        · cases hd
        · split at hd
          · rename_i s' hf
            simp only [Except.ok.injEq] at hd
            subst hd
            rename_i hpc _ _ _ hargs _ _ _
            exact ⟨w, .inr ⟨hpc, _, _, hargs, hw⟩, c05m_forwards_names_subset ho (hres _ _ hw) hf⟩
          · cases hd
      · cases hd
  · cases hd

end SV
