/-
  Lemmas/C12Names.lean — `autoNames`, `startNames`, `endNames`.
-/
import Sigverif.Lemmas.C12Valid
namespace SV
set_option linter.unusedSimpArgs false

theorem dedup_nil : dedup [] = [] := rfl

theorem autoNames_nil (F : List Param) :
    autoNames F [] = .ok ((F.filter (fun p => p.kind = .pk && p.dflt.isSome)).map (·.name)) := by
  simp [autoNames, dedup_nil]

def pkNames (ps : List Param) : List Nat := (ps.filter (fun p => p.kind = .pk)).map (·.name)

theorem pkNames_cons (p : Param) (ps : List Param) :
    pkNames (p :: ps) = if p.kind = .pk then p.name :: pkNames ps else pkNames ps := by
  simp only [pkNames, List.filter_cons]
  split <;> simp_all

theorem pkNames_nil_of_rank (ps : List Param) (h : ∀ q ∈ ps, 2 ≤ q.kind.rank) : pkNames ps = [] := by
  simp only [pkNames, List.map_eq_nil_iff, List.filter_eq_nil_iff]
  intro q hq
  have := h q hq
  cases hk : q.kind <;> simp_all [Kind.rank]

theorem rank_ge_two_of {p q : Param} (hk : ¬ p.kind = .pk) (hpo : ¬ p.kind = .po)
    (h : p.kind.rank ≤ q.kind.rank) : 2 ≤ q.kind.rank := by
  cases hp : p.kind <;> cases hq : q.kind <;> simp_all [Kind.rank]

theorem mem_pkNames {ps : List Param} {x : Nat} (h : x ∈ pkNames ps) : ∃ p ∈ ps, p.name = x := by
  simp only [pkNames, List.mem_map, List.mem_filter] at h
  obtain ⟨p, ⟨hp, -⟩, rfl⟩ := h
  exact ⟨p, hp, rfl⟩

theorem startGo_true (ps : List Param) (start : Nat) (acc : List Nat)
    (hs : RankSorted_C12 ps) (hn : NamesDistinct ps) (ha : ∀ p ∈ ps, p.name ∉ acc) :
    startNames.go start ps true acc = (true, acc ++ pkNames ps) := by
  induction ps generalizing acc with
  | nil => simp [startNames.go, pkNames]
  | cons p ps ih =>
    simp only [RankSorted_C12, NamesDistinct, List.pairwise_cons] at hs hn
    have hp := ha p (by simp)
    rw [startNames.go, pkNames_cons]
    by_cases hk : p.kind = .pk
    · simp only [hk, ↓reduceIte, Bool.true_or]
      have : acc.contains p.name = false := by simpa using hp
      simp only [this, Bool.false_eq_true, ↓reduceIte]
      rw [ih _ hs.2 hn.2]
      · simp
      · intro q hq
        have := ha q (by simp [hq])
        have := hn.1 q hq
        simp; grind
    · simp only [hk, ↓reduceIte]
      by_cases hpo : p.kind = .po
      · simp only [hpo, ne_eq, not_true_eq_false, ↓reduceIte]
        exact ih _ hs.2 hn.2 (fun q hq => ha q (by simp [hq]))
      · simp only [ne_eq, hpo, not_false_eq_true, ↓reduceIte]
        rw [pkNames_nil_of_rank ps]
        · simp
        · intro q hq
          exact rank_ge_two_of hk hpo (hs.1 q hq)

theorem startGo_false (ps : List Param) (start : Nat) (acc : List Nat)
    (hs : RankSorted_C12 ps) (hn : NamesDistinct ps) (ha : ∀ p ∈ ps, p.name ∉ acc) :
    (start ∉ pkNames ps ∧ startNames.go start ps false acc = (false, acc)) ∨
    (∃ pre post, pkNames ps = pre ++ start :: post ∧ start ∉ pre ∧
      startNames.go start ps false acc = (true, acc ++ start :: post)) := by
  induction ps generalizing acc with
  | nil => simp [startNames.go, pkNames]
  | cons p ps ih =>
    simp only [RankSorted_C12, NamesDistinct, List.pairwise_cons] at hs hn
    have hp := ha p (by simp)
    rw [startNames.go, pkNames_cons]
    by_cases hk : p.kind = .pk
    · simp only [hk, ↓reduceIte, Bool.false_or]
      by_cases hst : p.name = start
      · right
        refine ⟨[], pkNames ps, by simp [hst], by simp, ?_⟩
        have : acc.contains p.name = false := by simpa using hp
        simp only [hst, decide_true, ↓reduceIte]
        rw [hst] at this
        simp only [this, Bool.false_eq_true, ↓reduceIte]
        rw [startGo_true _ _ _ hs.2 hn.2]
        · simp
        · intro q hq
          have := ha q (by simp [hq])
          have := hn.1 q hq
          simp; grind
      · simp only [hst, decide_false, Bool.false_eq_true, ↓reduceIte]
        rcases ih acc hs.2 hn.2 (fun q hq => ha q (by simp [hq])) with ⟨h1, h2⟩ | ⟨pre, post, h1, h2, h3⟩
        · left; exact ⟨by simp [h1]; exact fun h => hst h.symm, h2⟩
        · right; exact ⟨p.name :: pre, post, by simp [h1], by simp [h2]; exact fun h => hst h.symm, h3⟩
    · simp only [hk, ↓reduceIte]
      by_cases hpo : p.kind = .po
      · simp only [hpo, ne_eq, not_true_eq_false, ↓reduceIte]
        exact ih _ hs.2 hn.2 (fun q hq => ha q (by simp [hq]))
      · simp only [ne_eq, hpo, not_false_eq_true, ↓reduceIte]
        left
        rw [pkNames_nil_of_rank ps]
        · simp
        · intro q hq
          exact rank_ge_two_of hk hpo (hs.1 q hq)

theorem endGo_true (ps : List Param) (end_ : Nat) (acc : List Nat) :
    endNames.go end_ ps true acc = (true, acc) := by
  induction ps with
  | nil => simp [endNames.go]
  | cons p ps ih =>
    rw [endNames.go]
    by_cases hk : p.kind = .pk
    · simp [hk, ih]
    · by_cases hpo : p.kind = .po
      · simp [hk, hpo, ih]
      · simp [hk, hpo]

theorem endGo_false (ps : List Param) (end_ : Nat) (acc : List Nat)
    (hs : RankSorted_C12 ps) (hn : NamesDistinct ps) (ha : ∀ p ∈ ps, p.name ∉ acc) :
    (end_ ∉ pkNames ps ∧ endNames.go end_ ps false acc = (false, acc ++ pkNames ps)) ∨
    (∃ pre post, pkNames ps = pre ++ end_ :: post ∧ end_ ∉ pre ∧
      endNames.go end_ ps false acc = (true, acc ++ pre ++ [end_])) := by
  induction ps generalizing acc with
  | nil => simp [endNames.go, pkNames]
  | cons p ps ih =>
    simp only [RankSorted_C12, NamesDistinct, List.pairwise_cons] at hs hn
    have hp := ha p (by simp)
    rw [endNames.go, pkNames_cons]
    by_cases hk : p.kind = .pk
    · have hc : acc.contains p.name = false := by simpa using hp
      simp only [hk, ↓reduceIte, Bool.false_or, Bool.not_false, hc, Bool.false_eq_true]
      by_cases hst : p.name = end_
      · right
        refine ⟨[], pkNames ps, by simp [hst], by simp, ?_⟩
        simp only [hst, decide_true]
        rw [endGo_true]
        simp
      · simp only [hst, decide_false]
        have ha' : ∀ q ∈ ps, q.name ∉ acc ++ [p.name] := by
          intro q hq
          have := ha q (by simp [hq])
          have := hn.1 q hq
          simp; grind
        rcases ih _ hs.2 hn.2 ha' with ⟨h1, h2⟩ | ⟨pre, post, h1, h2, h3⟩
        · left; exact ⟨by simp [h1]; exact fun h => hst h.symm, by rw [h2]; simp⟩
        · right
          exact ⟨p.name :: pre, post, by simp [h1], by simp [h2]; exact fun h => hst h.symm,
            by rw [h3]; simp⟩
    · simp only [hk, ↓reduceIte]
      by_cases hpo : p.kind = .po
      · simp only [hpo, ne_eq, not_true_eq_false, ↓reduceIte]
        exact ih _ hs.2 hn.2 (fun q hq => ha q (by simp [hq]))
      · simp only [ne_eq, hpo, not_false_eq_true, ↓reduceIte]
        left
        rw [pkNames_nil_of_rank ps]
        · simp
        · intro q hq
          exact rank_ge_two_of hk hpo (hs.1 q hq)

theorem startNames_nil_spec (F : List Param) (start : Nat) (w : List Nat) (hwf : WF F)
    (h : startNames F start [] = .ok w) :
    ∃ pre post, pkNames F = pre ++ start :: post ∧ start ∉ pre ∧ w = start :: post := by
  obtain ⟨hs, hn, -⟩ := validOk_iff_C12.1 hwf.1
  unfold startNames at h
  rw [dedup_nil] at h
  rcases startGo_false F start [] hs hn (by simp) with ⟨-, h2⟩ | ⟨pre, post, h1, h2, h3⟩
  · rw [h2] at h; simp at h
  · rw [h3] at h; simp at h
    exact ⟨pre, post, h1, h2, h.symm⟩

theorem endNames_nil_spec (F : List Param) (end_ : Nat) (w : List Nat) (hwf : WF F)
    (h : endNames F end_ [] = .ok w) :
    ∃ pre post, pkNames F = pre ++ end_ :: post ∧ end_ ∉ pre ∧ w = pre ++ [end_] := by
  obtain ⟨hs, hn, -⟩ := validOk_iff_C12.1 hwf.1
  unfold endNames at h
  rw [dedup_nil] at h
  rcases endGo_false F end_ [] hs hn (by simp) with ⟨-, h2⟩ | ⟨pre, post, h1, h2, h3⟩
  · rw [h2] at h; simp at h
  · rw [h3] at h; simp at h
    exact ⟨pre, post, h1, h2, h.symm⟩

end SV
