/-
  Lemmas/C04Partial.lean — where the named parameters of an embed result come from (with their
  defaults), for `forwards(…, partial=True)`.
-/
import Sigverif.Lemmas.C04
namespace SV

/-- a named parameter of the merge of `I` with forwarded stars is a named parameter of `I`
    (possibly of another kind) with the same default -/
theorem mergeStars_named_from {I i' : Sorted} {sva svk : Option Param}
    (h : mergeStars I sva svk = .ok i') :
    ∀ p ∈ i'.pos ++ i'.pok ++ i'.kwo,
      ∃ q ∈ I.pos ++ I.pok ++ I.kwo, q.name = p.name ∧ q.dflt = p.dflt := by
  have kw : ∀ p ∈ pupdate [] I.kwo, p ∈ I.kwo := by
    intro p hp
    rcases mem_pupdate_C02 hp with hp | hp
    · cases hp
    · exact hp
  have conv : ∀ (k : Kind) (p : Param), p ∈ I.pok.map (·.withKind k) →
      ∃ q ∈ I.pos ++ I.pok ++ I.kwo, q.name = p.name ∧ q.dflt = p.dflt := by
    intro k p hp
    obtain ⟨q, hq, rfl⟩ := List.mem_map.1 hp
    exact ⟨q, by simp [hq], rfl, rfl⟩
  unfold mergeStars at h
  simp only at h
  intro p hp
  split at h
  · split at h
    · cases h
      simp only [List.mem_append] at hp
      rcases hp with (hp | hp) | hp
      · exact ⟨p, by simp [hp], rfl, rfl⟩
      · exact ⟨p, by simp [hp], rfl, rfl⟩
      · rcases mem_pupdate_C02 hp with hp | hp
        · cases hp
        · exact ⟨p, by simp [kw p hp], rfl, rfl⟩
    · split at h
      · cases h
      · cases h
        simp only [List.mem_append, List.append_nil] at hp
        rcases hp with hp | hp
        · exact ⟨p, by simp [hp], rfl, rfl⟩
        · exact conv _ p hp
  · split at h
    · cases h
    · split at h
      · cases h
        simp only [List.nil_append] at hp
        rcases mem_pupdate_C02 hp with hp | hp
        · rcases mem_pupdate_C02 hp with hp | hp
          · cases hp
          · exact conv _ p hp
        · exact ⟨p, by simp [kw p hp], rfl, rfl⟩
      · split at h
        · cases h
        · split at h
          · cases h
          · cases h
            cases hp

theorem mem_cdIf_name {c : Bool} {l : List Param} {p : Param} (h : p ∈ cdIf c l) :
    p.name ∈ names l := by
  have := mem_names_of_mem_C02 h
  rwa [names_cdIf] at this

/-- a named parameter of the tail of `_embed` has the name of a named outer parameter or is a
    named parameter of the (merged) inner signature, unchanged -/
theorem embedTailC_named_from {O i' r : Sorted} {uva uvk : Bool}
    (h : embedTailC O i' uva uvk = .ok r) :
    ∀ p ∈ r.pos ++ r.pok ++ r.kwo,
      p.name ∈ names (O.pos ++ O.pok ++ O.kwo) ∨ p ∈ i'.pos ++ i'.pok ++ i'.kwo := by
  rw [embedTailC_ok h]
  intro p hp
  simp only [List.mem_append, names_append_C02] at hp ⊢
  rcases hp with (hp | hp) | hp
  · simp only [ePosC] at hp
    split at hp
    · exact .inl (.inl (.inl (mem_cdIf_name hp)))
    · rcases List.mem_append.1 hp with hp | hp
      · have := mem_cdIf_name hp
        simp only [names_append_C02, names_map_withKind_C02, List.mem_append] at this
        rcases this with h | h
        · exact .inl (.inl (.inl h))
        · exact .inl (.inl (.inr h))
      · exact .inr (.inl (.inl hp))
  · simp only [ePokC] at hp
    rcases List.mem_append.1 hp with hp | hp
    · split at hp
      · exact .inl (.inl (.inr (mem_cdIf_name hp)))
      · cases hp
    · exact .inr (.inl (.inr hp))
  · rcases mem_pupdate_C02 hp with hp | hp
    · rcases mem_pupdate_C02 hp with hp | hp
      · cases hp
      · exact .inl (.inr (mem_names_of_mem_C02 hp))
    · exact .inr (.inr hp)

/-- every named parameter of `embed [o, i]` whose name is not a name of `o` comes from a named
    parameter of `i` with the same default -/
theorem embed_named_from_inner {o i R : USig} {uva uvk : Bool} (ho : WF o.params) (hi : WF i.params)
    (hR : embed uva uvk [o, i] = .ok R) :
    ∀ p ∈ R.params, isNamed p = true → p.name ∉ names o.params →
      ∃ q ∈ i.params, isNamed q = true ∧ q.name = p.name ∧ q.dflt = p.dflt := by
  obtain ⟨i', r, h1, h2, h3, _⟩ := embed_two_ok hR
  obtain ⟨hallO, hkO, _, _⟩ := sortParams_WF o ho
  obtain ⟨hallI, hkI, _, _⟩ := sortParams_WF i hi
  have hkI' := mergeStars_kinds hkI h1
  have hkr := embedTailC_kinds hkO hkI' h2
  intro p hp hnamed hno
  have hp' : p ∈ r.pos ++ r.pok ++ r.kwo := by
    rw [← named_all r hkr, ← h3]
    exact List.mem_filter.2 ⟨hp, hnamed⟩
  rcases embedTailC_named_from h2 p hp' with hO | hI
  · exfalso
    apply hno
    rw [← hallO]
    exact names_named_subset_all hO
  · obtain ⟨q, hq, hqn, hqd⟩ := mergeStars_named_from h1 p hI
    have hq' : q ∈ (sortParams i).all.filter isNamed := by rw [named_all _ hkI]; exact hq
    rw [hallI] at hq'
    obtain ⟨hq1, hq2⟩ := List.mem_filter.1 hq'
    exact ⟨q, hq1, hq2, hqn, hqd⟩

/-! ### the partial'd inner signature -/

theorem partialParams_filter_kind (ps : List Param) (k : Kind) :
    ((partialParams ps).filter (fun p => p.kind = k)).length =
      (ps.filter (fun p => p.kind = k)).length := by
  unfold partialParams
  induction ps with
  | nil => rfl
  | cons p ps ih =>
    have hk : (if (p.kind = .vp || p.kind = .vk) = true then p else p.withDflt (some 0)).kind = p.kind := by
      split <;> rfl
    simp only [List.map_cons, List.filter_cons, hk]
    split
    · simp only [List.length_cons, ih]
    · exact ih

theorem partialParams_WF {ps : List Param} (h : WF ps) (hv : validate (partialParams ps) = .ok ()) :
    WF (partialParams ps) := by
  refine ⟨?_, ?_, ?_⟩
  · unfold validOk; rw [hv]
  · rw [partialParams_filter_kind]; exact h.2.1
  · rw [partialParams_filter_kind]; exact h.2.2

theorem partialParams_names (ps : List Param) : names (partialParams ps) = names ps := by
  unfold partialParams names
  rw [List.map_map]
  apply List.map_congr_left
  intro p _
  simp only [Function.comp]
  split <;> rfl

theorem partialParams_named_dflt {ps : List Param} {q : Param} (hq : q ∈ partialParams ps)
    (hn : isNamed q = true) : q.dflt.isSome = true := by
  unfold partialParams at hq
  obtain ⟨p, _, rfl⟩ := List.mem_map.1 hq
  split at hn
  · rename_i hs
    exfalso
    simp only [isNamed, Bool.or_eq_true, decide_eq_true_eq] at hn hs
    rcases hs with hs | hs <;> rw [hs] at hn <;> simp at hn
  · rename_i hs
    rw [if_neg hs]
    rfl

end SV
