/-
  Lemmas/C20Text.lean — the string layer of `support` (Model/ReadSig.lean): helper lemmas.
  Part 1: the native spelling.  `parseDef` reads back the text of every well-formed signature.
-/
import Sigverif.Model.ReadSig
import Sigverif.Lemmas.C03Basic
namespace SV
set_option linter.unusedSimpArgs false
set_option linter.unusedVariables false

/-- the item a piece becomes in the native spelling (no option set) -/
def Piece.toItem : Piece → Item
  | .slash => .slash
  | .bare => .bare
  | .chev n a d => .par 0 n a d
  | .star two n a d => .par (if two then 2 else 1) n a d
  | .plain n a d => .par 0 n a d

/-- the piece of one parameter -/
def pieceOf (p : Param) : Piece :=
  match p.kind with
  | .vp => .star false p.name p.ann p.dflt
  | .vk => .star true p.name p.ann p.dflt
  | _ => .plain p.name p.ann p.dflt

/-- what a `def` can say about a parameter: everything but the upgraded annotation -/
def Param.bare (p : Param) : Param := { p with uann := .empty }

theorem piecesAux_cons (prev : Option Kind) (p : Param) (ps : List Param) :
    piecesAux prev (p :: ps) =
      (if prev = some .po && p.kind ≠ .po then [Piece.slash] else []) ++
      (if p.kind = .ko && prev ≠ some .vp && prev ≠ some .ko then [Piece.bare] else []) ++
      pieceOf p :: piecesAux (some p.kind) ps := by
  simp only [piecesAux, pieceOf]
  cases p.kind <;> rfl

/-! ### stage 1: the positional-only prefix -/

theorem defLoop_append (st : DefSt) (a b : List Item) :
    defLoop st (a ++ b) = (defLoop st a >>= fun st' => defLoop st' b) := by
  induction a generalizing st with
  | nil => simp [defLoop]; rfl
  | cons x xs ih =>
    simp only [List.cons_append, defLoop]
    cases h : defStep st x with
    | error e => rfl
    | ok st' => simp only [bind, Except.bind] at ih ⊢; exact ih st'


/-- the state of `defLoop` fits the kind of the parameter before (`prev`) and what is still to come -/
structure Compat (prev : Option Kind) (st : DefSt) (rest : List Param) : Prop where
  nk : st.needKw = false
  lo : (prev = none ∨ prev = some .pk) → st.phase ≤ 1
  mid : (prev = some .vp ∨ prev = some .ko) → st.phase = 2
  hi : prev = some .vk → rest = []
  npo : prev ≠ some .po
  rk : ∀ q ∈ rest, q.kind ≠ .po ∧ ∀ k, prev = some k → k.rank ≤ q.kind.rank
  novp : prev = some .vp → ∀ q ∈ rest, q.kind ≠ .vp
  sd : st.seenDflt = true → ∀ q ∈ rest, isPositional q = true → q.dflt.isSome = true

theorem defLoop_rest (rest : List Param) : ∀ (prev : Option Kind) (st : DefSt),
    rest.Pairwise VR → (rest.filter (fun p => p.kind = .vp)).length ≤ 1 →
    (rest.filter (fun p => p.kind = .vk)).length ≤ 1 →
    (∀ p ∈ rest, (p.kind = .vp ∨ p.kind = .vk) → p.dflt = none) →
    Compat prev st rest →
    ∃ st', defLoop st ((piecesAux prev rest).map Piece.toItem) = .ok st' ∧
      st'.out = st.out ++ rest.map Param.bare ∧ st'.needKw = false := by
  induction rest with
  | nil =>
    intro prev st _ _ _ _ hc
    have : prev ≠ some .po := hc.npo
    refine ⟨st, ?_, by simp, hc.nk⟩
    simp [piecesAux, this, defLoop]
  | cons p ps ih =>
    intro prev st hpw hvp hvk hstar hc
    rw [List.pairwise_cons] at hpw
    obtain ⟨hp, hpw⟩ := hpw
    have hnpo : prev ≠ some .po := hc.npo
    have hpk := (hc.rk p (by simp)).1
    have hstar' : ∀ q ∈ ps, (q.kind = .vp ∨ q.kind = .vk) → q.dflt = none :=
      fun q hq => hstar q (List.mem_cons_of_mem _ hq)
    have hvp' : (ps.filter (fun p => p.kind = .vp)).length ≤ 1 := by
      exact Nat.le_trans (List.Sublist.length_le ((List.sublist_cons_self p ps).filter _)) hvp
    have hvk' : (ps.filter (fun p => p.kind = .vk)).length ≤ 1 := by
      exact Nat.le_trans (List.Sublist.length_le ((List.sublist_cons_self p ps).filter _)) hvk
    rw [piecesAux_cons]
    have hrkq : ∀ q ∈ ps, p.kind.rank ≤ q.kind.rank := fun q hq => (hp q hq).1
    cases hk : p.kind with
    | po => exact absurd hk hpk
    | pk =>
      have hprev : prev = none ∨ prev = some .pk := by
        rcases prev with _ | k
        · exact Or.inl rfl
        · have := (hc.rk p (by simp)).2 k rfl
          rw [hk] at this
          cases k <;> simp_all [Kind.rank]
      have hph := hc.lo hprev
      have hsd : ¬ (p.dflt.isNone = true ∧ st.seenDflt = true) := by
        rintro ⟨h1, h2⟩
        have := hc.sd h2 p (by simp) (by simp [isPositional, hk])
        cases hd : p.dflt <;> simp_all
      let st1 : DefSt := { st with out := st.out ++ [p.bare], seenDflt := st.seenDflt || p.dflt.isSome }
      have hc1 : Compat (some .pk) st1 ps := by
        refine ⟨hc.nk, fun _ => hph, ?_, ?_, by simp, ?_, by simp, ?_⟩
        · rintro (h | h) <;> cases h
        · intro h; cases h
        · intro q hq
          have := hrkq q hq
          rw [hk] at this
          refine ⟨?_, ?_⟩
          · intro hq'; rw [hq'] at this; simp [Kind.rank] at this
          · intro k hk'; cases hk'; exact this
        · intro hs q hq hqp
          simp only [st1, Bool.or_eq_true] at hs
          rcases hs with hs | hs
          · exact hc.sd hs q (List.mem_cons_of_mem _ hq) hqp
          · exact (hp q hq).2.1 (by simp [isPositional, hk]) hs hqp
      obtain ⟨st', h1, h2, h3⟩ := ih (some .pk) st1 hpw hvp' hvk' hstar' hc1
      refine ⟨st', ?_, ?_, h3⟩
      · have e1 : (if (prev = some Kind.po && Kind.pk ≠ Kind.po) = true then [Piece.slash] else []) = [] := by
          simp [hnpo]
        simp only [e1, List.nil_append, List.map_cons, pieceOf, hk, Piece.toItem, defLoop, defStep]
        have : (decide (Kind.pk = Kind.ko) && prev ≠ some .vp && prev ≠ some .ko) = false := by simp
        simp only [this]
        simp only [Bool.false_eq_true, if_false, List.nil_append, List.map_cons, Piece.toItem, defLoop, defStep, hph,
          if_true]
        have : (p.dflt.isNone && st.seenDflt) = false := by
          cases h1 : p.dflt.isNone <;> cases h2 : st.seenDflt <;> simp_all
        simp only [this, Bool.false_eq_true, if_false, bind, Except.bind]
        have e : (⟨p.name, .pk, p.dflt, p.ann, .empty⟩ : Param) = p.bare := by
          cases p; simp_all [Param.bare]
        rw [e]; exact h1
      · rw [h2]; simp [st1]
    | vp =>
      have hprev : prev = none ∨ prev = some .pk := by
        rcases prev with _ | k
        · exact Or.inl rfl
        · have := (hc.rk p (by simp)).2 k rfl
          rw [hk] at this
          cases k
          · exact absurd rfl hnpo
          · exact Or.inr rfl
          · exact absurd hk (hc.novp rfl p (by simp))
          · simp [Kind.rank] at this
          · simp [Kind.rank] at this
      have hph := hc.lo hprev
      have hd : p.dflt = none := hstar p (by simp) (Or.inl hk)
      let st1 : DefSt := { st with out := st.out ++ [p.bare], phase := 2 }
      have hnovp : ∀ q ∈ ps, q.kind ≠ .vp := by
        intro q hq hq'
        have h1 : (List.filter (fun p => decide (p.kind = Kind.vp)) (p :: ps)).length ≤ 1 := hvp
        rw [List.filter_cons_of_pos (by simp [hk])] at h1
        have : q ∈ List.filter (fun p => decide (p.kind = Kind.vp)) ps := by simp [List.mem_filter, hq, hq']
        have := List.length_pos_of_mem this
        simp only [List.length_cons] at h1; omega
      have hc1 : Compat (some .vp) st1 ps := by
        refine ⟨hc.nk, ?_, fun _ => rfl, ?_, by simp, ?_, fun _ => hnovp, ?_⟩
        · rintro (h | h) <;> cases h
        · intro h; cases h
        · intro q hq
          have := hrkq q hq
          rw [hk] at this
          refine ⟨?_, ?_⟩
          · intro hq'; rw [hq'] at this; simp [Kind.rank] at this
          · intro k hk'; cases hk'; exact this
        · intro hs q hq hqp
          have := hrkq q hq
          rw [hk] at this
          simp only [isPositional, Bool.or_eq_true, decide_eq_true_eq] at hqp
          rcases hqp with h | h <;> rw [h] at this <;> simp [Kind.rank] at this
      obtain ⟨st', h1, h2, h3⟩ := ih (some .vp) st1 hpw hvp' hvk' hstar' hc1
      refine ⟨st', ?_, ?_, h3⟩
      · have e1 : (if (prev = some Kind.po && Kind.vp ≠ Kind.po) = true then [Piece.slash] else []) = [] := by
          simp [hnpo]
        have e2 : (decide (Kind.vp = Kind.ko) && prev ≠ some .vp && prev ≠ some .ko) = false := by simp
        simp only [e1, e2, List.nil_append, List.map_cons, pieceOf, hk, Piece.toItem, defLoop, defStep,
          Bool.false_eq_true, if_false]
        have e3 : (p.dflt.isSome || decide (1 < st.phase)) = false := by
          rw [hd]; simp; omega
        simp only [e3, Bool.false_eq_true, if_false, bind, Except.bind]
        have e : (⟨p.name, .vp, none, p.ann, .empty⟩ : Param) = p.bare := by
          cases p; simp_all [Param.bare]
        rw [e]; exact h1
      · rw [h2]; simp [st1]
    | ko =>
      have hnvk : prev ≠ some .vk := fun h => by have := hc.hi h; simp at this
      have hnoko : ∀ q ∈ ps, q.kind ≠ .po ∧ ∀ k, some Kind.ko = some k → k.rank ≤ q.kind.rank := by
        intro q hq
        have := hrkq q hq
        rw [hk] at this
        refine ⟨?_, ?_⟩
        · intro hq'; rw [hq'] at this; simp [Kind.rank] at this
        · intro k hk'; cases hk'; exact this
      have hsd1 : ∀ q ∈ ps, isPositional q = true → q.dflt.isSome = true := by
        intro q hq hqp
        have := hrkq q hq
        rw [hk] at this
        simp only [isPositional, Bool.or_eq_true, decide_eq_true_eq] at hqp
        rcases hqp with h | h <;> rw [h] at this <;> simp [Kind.rank] at this
      let st1 : DefSt := { st with out := st.out ++ [p.bare], phase := 2, needKw := false }
      have hc1 : Compat (some .ko) st1 ps := by
        refine ⟨rfl, ?_, fun _ => rfl, ?_, by simp, hnoko, ?_, fun _ => hsd1⟩
        · rintro (h | h) <;> cases h
        · intro h; cases h
        · intro h; cases h
      obtain ⟨st', h1, h2, h3⟩ := ih (some .ko) st1 hpw hvp' hvk' hstar' hc1
      have e : (⟨p.name, .ko, p.dflt, p.ann, .empty⟩ : Param) = p.bare := by
        cases p; simp_all [Param.bare]
      have e1 : (if (prev = some Kind.po && Kind.ko ≠ Kind.po) = true then [Piece.slash] else []) = [] := by
        simp [hnpo]
      refine ⟨st', ?_, ?_, h3⟩
      · by_cases hb : prev = some .vp ∨ prev = some .ko
        · have hph := hc.mid hb
          have e2 : (decide True && decide (prev ≠ some Kind.vp) && decide (prev ≠ some Kind.ko)) = false := by
            rcases hb with hb | hb <;> simp [hb]
          simp only [e1, e2, List.nil_append, List.map_cons, pieceOf, hk, Piece.toItem, defLoop, defStep,
            Bool.false_eq_true, if_false, hph]
          simp only [show ¬ (2 ≤ 1) by omega, if_false, if_true, bind, Except.bind, e]
          exact h1
        · have hprev : prev = none ∨ prev = some .pk := by
            rcases prev with _ | k
            · exact Or.inl rfl
            · cases k <;> simp_all
          have hph := hc.lo hprev
          have e2 : (decide True && decide (prev ≠ some Kind.vp) && decide (prev ≠ some Kind.ko)) = true := by
            rcases hprev with hb | hb <;> simp [hb]
          simp only [e1, e2, List.nil_append, List.map_cons, pieceOf, hk, Piece.toItem, defLoop, defStep,
            if_true, hph, List.cons_append, bind, Except.bind]
          simp only [show ¬ (2 ≤ 1) by omega, if_false, if_true, e]
          exact h1
      · rw [h2]; simp [st1]
    | vk =>
      have hnvk : prev ≠ some .vk := fun h => by have := hc.hi h; simp at this
      have hph : st.phase ≠ 3 := by
        rcases prev with _ | k
        · have := hc.lo (Or.inl rfl); omega
        · cases k
          · exact absurd rfl hnpo
          · have := hc.lo (Or.inr rfl); omega
          · have := hc.mid (Or.inl rfl); omega
          · have := hc.mid (Or.inr rfl); omega
          · exact absurd rfl hnvk
      have hd : p.dflt = none := hstar p (by simp) (Or.inr hk)
      have hps : ps = [] := by
        cases ps with
        | nil => rfl
        | cons q qs =>
          exfalso
          have hq := hrkq q (by simp)
          rw [hk] at hq
          have hqk : q.kind = .vk := by cases h : q.kind <;> simp_all [Kind.rank]
          have h1 : (List.filter (fun p => decide (p.kind = Kind.vk)) (p :: q :: qs)).length ≤ 1 := hvk
          rw [List.filter_cons_of_pos (by simp [hk]), List.filter_cons_of_pos (by simp [hqk])] at h1
          simp at h1
      subst hps
      let st1 : DefSt := { st with out := st.out ++ [p.bare], phase := 3 }
      refine ⟨st1, ?_, by simp [st1], hc.nk⟩
      have e1 : (if (prev = some Kind.po && Kind.vk ≠ Kind.po) = true then [Piece.slash] else []) = [] := by
        simp [hnpo]
      have e2 : (decide (Kind.vk = Kind.ko) && prev ≠ some .vp && prev ≠ some .ko) = false := by simp
      simp only [e1, e2, List.nil_append, List.map_cons, pieceOf, hk, Piece.toItem, defLoop, defStep,
        Bool.false_eq_true, if_false, piecesAux, List.map_nil, if_true]
      have e3 : (p.dflt.isSome || decide (st.phase = 3) || st.needKw) = false := by
        rw [hd, hc.nk]; simp [hph]
      simp only [e3, Bool.false_eq_true, if_false, bind, Except.bind]
      have e : (⟨p.name, .vk, none, p.ann, .empty⟩ : Param) = p.bare := by
        cases p; simp_all [Param.bare]
      rw [e]
      simp [st1, defLoop]

/-! ### stage 1: the positional-only prefix, and the whole signature -/

theorem defLoop_po (L : List Param) : ∀ (st : DefSt), st.phase = 0 →
    (st.seenDflt = true → ∀ p ∈ L, p.dflt.isSome = true) → L.Pairwise VR → (∀ p ∈ L, p.kind = .po) →
    defLoop st (L.map (fun p => (pieceOf p).toItem)) =
      .ok { st with out := st.out ++ L.map (fun p => p.bare.withKind .pk),
                    seenDflt := st.seenDflt || L.any (·.dflt.isSome) } := by
  induction L with
  | nil => intro st _ _ _ _; simp [defLoop]
  | cons p L ih =>
    intro st hph hs hpw hk
    obtain ⟨out, phase, sd, nk⟩ := st
    simp only at hph hs
    subst hph
    rw [List.pairwise_cons] at hpw
    have hkp := hk p (by simp)
    have hnd : (p.dflt.isNone && sd) = false := by
      cases h2 : sd
      · simp
      · have := hs h2 p (by simp); cases hd : p.dflt <;> simp_all
    have e0 : (pieceOf p).toItem = Item.par 0 p.name p.ann p.dflt := by simp [pieceOf, hkp, Piece.toItem]
    rw [List.map_cons, e0]
    simp only [defLoop, defStep, Nat.zero_le, if_true, hnd, decide_true,
      Bool.false_eq_true, if_false, bind, Except.bind]
    rw [ih ⟨out ++ [(⟨p.name, .pk, p.dflt, p.ann, .empty⟩ : Param)], 0, sd || p.dflt.isSome, nk⟩
      rfl ?_ hpw.2 (fun q hq => hk q (List.mem_cons_of_mem _ hq))]
    · have e : (⟨p.name, .pk, p.dflt, p.ann, .empty⟩ : Param) = p.bare.withKind .pk := by
        cases p; simp [Param.bare, Param.withKind]
      simp [e, Bool.or_assoc]
    · intro h q hq
      simp only [Bool.or_eq_true] at h
      rcases h with h | h
      · exact hs h q (List.mem_cons_of_mem _ hq)
      · exact (hpw.1 q hq).2.1 (by simp [isPositional, hkp]) h (by simp [isPositional, hk q (List.mem_cons_of_mem _ hq)])

theorem piecesAux_po_prefix (L rest : List Param) (hk : ∀ p ∈ L, p.kind = .po) :
    ∀ prev, (prev = none ∨ prev = some .po) →
    piecesAux prev (L ++ rest) = L.map pieceOf ++ piecesAux (if L = [] then prev else some .po) rest := by
  induction L with
  | nil => intro prev _; simp
  | cons p L ih =>
    intro prev hprev
    have hkp := hk p (by simp)
    rw [List.cons_append, piecesAux_cons, ih (fun q hq => hk q (List.mem_cons_of_mem _ hq)) _ (Or.inr (by rw [hkp]))]
    simp [hkp]

theorem piecesAux_after_po (rest : List Param) (h : ∀ q ∈ rest, q.kind ≠ .po) :
    piecesAux (some .po) rest = Piece.slash :: piecesAux none rest := by
  cases rest with
  | nil => simp [piecesAux]
  | cons q qs =>
    have := h q (by simp)
    rw [piecesAux_cons, piecesAux_cons]
    simp [this]

theorem nodupNat_of_pairwise (l : List Nat) (h : l.Pairwise (· ≠ ·)) : nodupNat l = true := by
  induction l with
  | nil => rfl
  | cons x xs ih =>
    rw [List.pairwise_cons] at h
    simp only [nodupNat, Bool.and_eq_true, Bool.not_eq_true', ih h.2, and_true]
    cases hc : xs.contains x
    · rfl
    · exfalso
      have : x ∈ xs := by simpa using hc
      exact h.1 x this rfl

/-- **`parseDef` reads back the native text of every well-formed signature** -/
theorem parseDef_pieces' (s : List Param) (hpw : s.Pairwise VR)
    (hvp : (s.filter (fun p => p.kind = .vp)).length ≤ 1) (hvk : (s.filter (fun p => p.kind = .vk)).length ≤ 1)
    (hstar : ∀ p ∈ s, (p.kind = .vp ∨ p.kind = .vk) → p.dflt = none) :
    parseDef ((pieces s).map Piece.toItem) = .ok (s.map Param.bare) := by
  -- split at the end of the positional-only prefix
  obtain ⟨L, rest, hs, hL, hrest⟩ : ∃ L rest, s = L ++ rest ∧ (∀ p ∈ L, p.kind = .po) ∧ (∀ q ∈ rest, q.kind ≠ .po) := by
    clear hvp hvk hstar
    induction s with
    | nil => exact ⟨[], [], rfl, by simp, by simp⟩
    | cons p ps ih =>
      rw [List.pairwise_cons] at hpw
      by_cases hk : p.kind = .po
      · obtain ⟨L, rest, e, h1, h2⟩ := ih hpw.2
        refine ⟨p :: L, rest, by rw [e]; rfl, ?_, h2⟩
        intro q hq
        rcases List.mem_cons.1 hq with rfl | hq
        · exact hk
        · exact h1 q hq
      · refine ⟨[], p :: ps, rfl, by simp, ?_⟩
        intro q hq
        rcases List.mem_cons.1 hq with rfl | hq
        · exact hk
        · intro hq'
          have := (hpw.1 q hq).1
          rw [hq'] at this
          cases h : p.kind <;> simp_all [Kind.rank]
  subst hs
  rw [List.pairwise_append] at hpw
  obtain ⟨hpL, hpR, hLR⟩ := hpw
  have hvpR : (rest.filter (fun p => p.kind = .vp)).length ≤ 1 :=
    Nat.le_trans (List.Sublist.length_le ((List.sublist_append_right L rest).filter _)) hvp
  have hvkR : (rest.filter (fun p => p.kind = .vk)).length ≤ 1 :=
    Nat.le_trans (List.Sublist.length_le ((List.sublist_append_right L rest).filter _)) hvk
  have hstarR : ∀ p ∈ rest, (p.kind = .vp ∨ p.kind = .vk) → p.dflt = none :=
    fun p hp => hstar p (List.mem_append_right _ hp)
  have hnames : nodupNat (((L ++ rest).map Param.bare).map (·.name)) = true := by
    apply nodupNat_of_pairwise
    have : ((L ++ rest).map Param.bare).map (·.name) = (L ++ rest).map (·.name) := by
      simp [Param.bare, Function.comp_def]
    rw [this, List.pairwise_map, List.pairwise_append]
    exact ⟨hpL.imp (fun h => h.2.2), hpR.imp (fun h => h.2.2), fun a ha b hb => (hLR a ha b hb).2.2⟩
  unfold pieces parseDef
  rw [piecesAux_po_prefix L rest hL none (Or.inl rfl)]
  by_cases hLe : L = []
  · subst hLe
    have hc : Compat none ({} : DefSt) rest :=
      ⟨rfl, fun _ => (by simp), (by rintro (h | h) <;> cases h), (by intro h; cases h), (by simp),
       fun q hq => ⟨hrest q hq, (by intro k hk; cases hk)⟩, (by intro h; cases h), (by intro h; cases h)⟩
    obtain ⟨st', h1, h2, h3⟩ := defLoop_rest rest none {} hpR hvpR hvkR hstarR hc
    simp only [List.nil_append] at hnames h2
    have hn : nodupNat (st'.out.map (·.name)) = true := by rw [h2]; exact hnames
    simp only [if_true, List.map_nil, List.nil_append, h1, bind, Except.bind, h3, hn]
    simp [h2]
    rfl
  · rw [if_neg hLe, piecesAux_after_po rest hrest, List.map_append, defLoop_append, List.map_map]
    have h0 := defLoop_po L {} rfl (by intro h; cases h) hpL hL
    simp only [Function.comp_def] at h0 ⊢
    rw [h0]
    simp only [bind, Except.bind, List.map_cons, Piece.toItem, defLoop, defStep]
    have hne : (L.map (fun p => p.bare.withKind .pk)).isEmpty = false := by
      cases L with
      | nil => exact absurd rfl hLe
      | cons _ _ => rfl
    simp only [List.nil_append, ne_eq, not_true_eq_false, decide_false, hne, Bool.or_self, Bool.false_eq_true, if_false]
    have hmap : (L.map (fun p => p.bare.withKind .pk)).map (·.withKind .po) = L.map Param.bare := by
      rw [List.map_map]
      apply List.map_congr_left
      intro p hp
      have := hL p hp
      cases p; simp_all [Param.bare, Param.withKind]
    rw [hmap]
    let st1 : DefSt := { out := L.map Param.bare, phase := 1, seenDflt := false || L.any (·.dflt.isSome) }
    have hc : Compat none st1 rest := by
      refine ⟨rfl, fun _ => (by simp [st1]), (by rintro (h | h) <;> cases h), (by intro h; cases h), (by simp),
        fun q hq => ⟨hrest q hq, (by intro k hk; cases hk)⟩, (by intro h; cases h), ?_⟩
      intro hs q hq hqp
      simp only [st1, Bool.false_or, List.any_eq_true] at hs
      obtain ⟨p, hp, hpd⟩ := hs
      exact (hLR p hp q hq).2.1 (by simp [isPositional, hL p hp]) hpd hqp
    obtain ⟨st', h1, h2, h3⟩ := defLoop_rest rest none st1 hpR hvpR hvkR hstarR hc
    have : (⟨L.map Param.bare, 1, false || L.any (·.dflt.isSome), false⟩ : DefSt) = st1 := rfl
    simp only [st1] at h2
    have hn : nodupNat (st'.out.map (·.name)) = true := by rw [h2, ← List.map_append]; exact hnames
    simp only [this, h1, h3, hn]
    simp [h2]
    rfl


/-! ### `read_sig` in the native spelling copies the pieces -/

def Piece.chevFree : Piece → Bool
  | .chev _ _ _ => false
  | _ => true

/-- `default_index` after a piece -/
def newDfltIdx (st : RS) (i : Nat) (dflt : Option Nat) : Option Nat :=
  if dflt.isSome && st.dfltIdx.isNone then some (if st.foundStar then i - 1 else i) else st.dfltIdx

theorem rsMeta_false (st : RS) (i stars n : Nat) (ann dflt : Option Nat) :
    rsMeta false st i stars n ann dflt = ({ st with dfltIdx := newDfltIdx st i dflt }, .par stars n ann dflt) := by
  cases ann <;> simp only [rsMeta, newDfltIdx, Bool.false_eq_true, if_false] <;> split <;> simp_all

theorem rsLoop_native (ps : List Piece) : ∀ (st : RS) (i : Nat), st.chev = none → (∀ p ∈ ps, p.chevFree = true) →
    (rsLoop false false false st i ps).params = st.params ++ ps.map Piece.toItem ∧
    (rsLoop false false false st i ps).chev = none ∧
    (rsLoop false false false st i ps).poso = st.poso ∧
    (rsLoop false false false st i ps).kwo = st.kwo ∧
    (rsLoop false false false st i ps).anns = st.anns := by
  induction ps with
  | nil => intro st i h _; simp [rsLoop, h]
  | cons p ps ih =>
    intro st i hch hfree
    have hp := hfree p (by simp)
    have hrest : ∀ q ∈ ps, q.chevFree = true := fun q hq => hfree q (List.mem_cons_of_mem _ hq)
    simp only [rsLoop]
    cases p with
    | slash =>
      obtain ⟨a, b, c, d, e⟩ := ih (rsStep false false false st i .slash) (i + 1) (by simp [rsStep]) hrest
      refine ⟨by rw [a]; simp [rsStep, Piece.toItem], b, by rw [c]; simp [rsStep], by rw [d]; simp [rsStep],
        by rw [e]; simp [rsStep]⟩
    | bare =>
      have h0 : rsStep false false false st i .bare = { st with foundStar := true, params := st.params ++ [.bare] } := by
        simp [rsStep, rsChevFix, hch]
      rw [h0]
      obtain ⟨a, b, c, d, e⟩ := ih { st with foundStar := true, params := st.params ++ [.bare] } (i + 1) hch hrest
      exact ⟨by rw [a]; simp [Piece.toItem], b, c, d, e⟩
    | chev n a d => simp [Piece.chevFree] at hp
    | star two n an d =>
      have key : ∃ st1 : RS, rsStep false false false st i (.star two n an d) = st1 ∧
          st1.params = st.params ++ [Item.par (if two then 2 else 1) n an d] ∧ st1.chev = none ∧
          st1.poso = st.poso ∧ st1.kwo = st.kwo ∧ st1.anns = st.anns := by
        refine ⟨_, rfl, ?_⟩
        simp only [rsStep, rsMeta_false, rsChevFix, hch]
        cases two <;> simp
      obtain ⟨st1, e1, k1, k2, k3, k4, k5⟩ := key
      rw [e1]
      obtain ⟨a, b, c, d', e⟩ := ih st1 (i + 1) k2 hrest
      exact ⟨by rw [a, k1]; simp [Piece.toItem], b, by rw [c, k3], by rw [d', k4], by rw [e, k5]⟩
    | plain n an d =>
      have key : ∃ st1 : RS, rsStep false false false st i (.plain n an d) = st1 ∧
          st1.params = st.params ++ [Item.par 0 n an d] ∧ st1.chev = none ∧
          st1.poso = st.poso ∧ st1.kwo = st.kwo ∧ st1.anns = st.anns := by
        refine ⟨_, rfl, ?_⟩
        simp only [rsStep, rsMeta_false, rsNamed, Bool.not_false, if_true, Bool.false_eq_true, if_false]
        split <;> simp [hch]
      obtain ⟨st1, e1, k1, k2, k3, k4, k5⟩ := key
      rw [e1]
      obtain ⟨a, b, c, d', e⟩ := ih st1 (i + 1) k2 hrest
      exact ⟨by rw [a, k1]; simp [Piece.toItem], b, by rw [c, k3], by rw [d', k4], by rw [e, k5]⟩

theorem piecesAux_chevFree (s : List Param) : ∀ prev, ∀ p ∈ piecesAux prev s, p.chevFree = true := by
  induction s with
  | nil => intro prev p hp; simp only [piecesAux] at hp; split at hp <;> simp_all [Piece.chevFree]
  | cons q qs ih =>
    intro prev p hp
    rw [piecesAux_cons] at hp
    simp only [List.mem_append, List.mem_cons] at hp
    rcases hp with (hp | hp) | hp | hp
    · split at hp <;> simp_all [Piece.chevFree]
    · split at hp <;> simp_all [Piece.chevFree]
    · subst hp; simp only [pieceOf]; cases q.kind <;> rfl
    · exact ih _ p hp

/-- in the native spelling `read_sig` hands the pieces over unchanged and asks for no decorator -/
theorem readSig_native (ps : List Piece) (h : ∀ p ∈ ps, p.chevFree = true) :
    (readSig false false false ps).params = ps.map Piece.toItem ∧
    (readSig false false false ps).poso = [] ∧ (readSig false false false ps).kwo = [] ∧
    (readSig false false false ps).anns = [] := by
  obtain ⟨a, b, c, d, e⟩ := rsLoop_native ps {} 0 rfl h
  simp only [readSig, rsChevFix, b]
  exact ⟨by simpa using a, c, d, e⟩

end SV
