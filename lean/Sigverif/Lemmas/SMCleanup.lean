/-
  Lemmas/SMCleanup.lean — the interleaving invariant of the save/restore machine (C17).
-/
import Sigverif.Model.Cleanup
namespace SV

/-- instance-level and class-level value of an attribute never disagree (both present ⇒ same) -/
def Store.Coherent (s : Store) : Prop :=
  ∀ a v c, s.inst a = some v → s.cls a = some c → c = v

/-- thread `t` still owes a restore of `__wrapped__` (1) or not (0) -/
def pendW (t : Thread) : Nat := if t.savedW.isSome ∧ t.pc ≠ .exitS ∧ t.pc ≠ .done then 1 else 0
/-- thread `t` still owes a restore of `__signature__` -/
def pendS (t : Thread) : Nat := if t.savedS.isSome ∧ t.pc ≠ .done then 1 else 0

/-- program points before the thread's own `delattr __wrapped__` / `delattr __signature__` -/
def PC.preW : PC → Bool
  | .getW | .delW _ => true
  | _ => false
def PC.preS : PC → Bool
  | .getW | .delW _ | .getS | .delS _ => true
  | _ => false

/-- thread-local facts relative to the initial store `s0` -/
structure Loc (s0 : Store) (t : Thread) : Prop where
  freshW : t.pc.preW = true → t.savedW = none
  freshS : t.pc.preS = true → t.savedS = none
  savedW : t.savedW = none ∨ t.savedW = s0.instW
  savedS : t.savedS = none ∨ t.savedS = s0.instS
  delW : ∀ v, t.pc = .delW v → ∀ v0, s0.instW = some v0 → v0 = v
  delS : ∀ v, t.pc = .delS v → ∀ v0, s0.instS = some v0 → v0 = v

/-- balance: the attribute has its initial value and nobody owes a restore, or it is deleted and
    exactly one thread owes the restore -/
def Bal (cur init : Option Nat) (cnt : Nat) : Prop := (cur = init ∧ cnt = 0) ∨ (cur = none ∧ cnt = 1)

/-- invariant seen from one thread; `kW`/`kS` = number of OTHER threads owing a restore -/
structure StInv (s0 st : Store) (t : Thread) (kW kS : Nat) : Prop where
  clsW : st.clsW = s0.clsW
  clsS : st.clsS = s0.clsS
  loc : Loc s0 t
  balW : Bal st.instW s0.instW (pendW t + kW)
  balS : Bal st.instS s0.instS (pendS t + kS)

section step
set_option linter.unusedVariables false
variable {iw0 is0 cw cs iw is sw ss : Option Nat} {saw : Option Bool} {kW kS : Nat}

local macro "step_tac" : tactic => `(tactic|
  (simp only [stepThread, Store.get, Store.inst, Store.cls, Store.setInst, Option.orElse] <;>
   refine ⟨rfl, rfl, ⟨?_, ?_, ?_, ?_, ?_, ?_⟩, ?_, ?_⟩ <;>
   simp_all [Bal, pendW, pendS, PC.preW, PC.preS] <;> grind))

theorem step_getW
    (hcW : (∀ v c, iw0 = some v → cw = some c → c = v) ∨ kW = 0)
    (hfw : (PC.getW).preW = true → sw = none) (hfs : (PC.getW).preS = true → ss = none)
    (hsw : sw = none ∨ sw = iw0) (hss : ss = none ∨ ss = is0)
    (hbw : Bal iw iw0 (pendW ⟨.getW, sw, ss, saw⟩ + kW)) (hbs : Bal is is0 (pendS ⟨.getW, sw, ss, saw⟩ + kS)) :
    StInv ⟨iw0, is0, cw, cs⟩ (stepThread ⟨iw, is, cw, cs⟩ ⟨.getW, sw, ss, saw⟩).1
      (stepThread ⟨iw, is, cw, cs⟩ ⟨.getW, sw, ss, saw⟩).2 kW kS := by
  cases iw <;> cases cw <;> step_tac

theorem step_delW {v : Nat}
    (hdw : ∀ v0, iw0 = some v0 → v0 = v)
    (hfw : (PC.delW v).preW = true → sw = none) (hfs : (PC.delW v).preS = true → ss = none)
    (hsw : sw = none ∨ sw = iw0) (hss : ss = none ∨ ss = is0)
    (hbw : Bal iw iw0 (pendW ⟨.delW v, sw, ss, saw⟩ + kW)) (hbs : Bal is is0 (pendS ⟨.delW v, sw, ss, saw⟩ + kS)) :
    StInv ⟨iw0, is0, cw, cs⟩ (stepThread ⟨iw, is, cw, cs⟩ ⟨.delW v, sw, ss, saw⟩).1
      (stepThread ⟨iw, is, cw, cs⟩ ⟨.delW v, sw, ss, saw⟩).2 kW kS := by
  cases iw <;> step_tac

theorem step_getS
    (hcS : (∀ v c, is0 = some v → cs = some c → c = v) ∨ kS = 0)
    (hfw : (PC.getS).preW = true → sw = none) (hfs : (PC.getS).preS = true → ss = none)
    (hsw : sw = none ∨ sw = iw0) (hss : ss = none ∨ ss = is0)
    (hbw : Bal iw iw0 (pendW ⟨.getS, sw, ss, saw⟩ + kW)) (hbs : Bal is is0 (pendS ⟨.getS, sw, ss, saw⟩ + kS)) :
    StInv ⟨iw0, is0, cw, cs⟩ (stepThread ⟨iw, is, cw, cs⟩ ⟨.getS, sw, ss, saw⟩).1
      (stepThread ⟨iw, is, cw, cs⟩ ⟨.getS, sw, ss, saw⟩).2 kW kS := by
  cases is <;> cases cs <;> step_tac

theorem step_delS {v : Nat}
    (hds : ∀ v0, is0 = some v0 → v0 = v)
    (hfw : (PC.delS v).preW = true → sw = none) (hfs : (PC.delS v).preS = true → ss = none)
    (hsw : sw = none ∨ sw = iw0) (hss : ss = none ∨ ss = is0)
    (hbw : Bal iw iw0 (pendW ⟨.delS v, sw, ss, saw⟩ + kW)) (hbs : Bal is is0 (pendS ⟨.delS v, sw, ss, saw⟩ + kS)) :
    StInv ⟨iw0, is0, cw, cs⟩ (stepThread ⟨iw, is, cw, cs⟩ ⟨.delS v, sw, ss, saw⟩).1
      (stepThread ⟨iw, is, cw, cs⟩ ⟨.delS v, sw, ss, saw⟩).2 kW kS := by
  cases is <;> step_tac

theorem step_body
    (hfw : (PC.body).preW = true → sw = none) (hfs : (PC.body).preS = true → ss = none)
    (hsw : sw = none ∨ sw = iw0) (hss : ss = none ∨ ss = is0)
    (hbw : Bal iw iw0 (pendW ⟨.body, sw, ss, saw⟩ + kW)) (hbs : Bal is is0 (pendS ⟨.body, sw, ss, saw⟩ + kS)) :
    StInv ⟨iw0, is0, cw, cs⟩ (stepThread ⟨iw, is, cw, cs⟩ ⟨.body, sw, ss, saw⟩).1
      (stepThread ⟨iw, is, cw, cs⟩ ⟨.body, sw, ss, saw⟩).2 kW kS := by
  step_tac

theorem step_exitW
    (hfw : (PC.exitW).preW = true → sw = none) (hfs : (PC.exitW).preS = true → ss = none)
    (hsw : sw = none ∨ sw = iw0) (hss : ss = none ∨ ss = is0)
    (hbw : Bal iw iw0 (pendW ⟨.exitW, sw, ss, saw⟩ + kW)) (hbs : Bal is is0 (pendS ⟨.exitW, sw, ss, saw⟩ + kS)) :
    StInv ⟨iw0, is0, cw, cs⟩ (stepThread ⟨iw, is, cw, cs⟩ ⟨.exitW, sw, ss, saw⟩).1
      (stepThread ⟨iw, is, cw, cs⟩ ⟨.exitW, sw, ss, saw⟩).2 kW kS := by
  cases sw <;> step_tac

theorem step_exitS
    (hfw : (PC.exitS).preW = true → sw = none) (hfs : (PC.exitS).preS = true → ss = none)
    (hsw : sw = none ∨ sw = iw0) (hss : ss = none ∨ ss = is0)
    (hbw : Bal iw iw0 (pendW ⟨.exitS, sw, ss, saw⟩ + kW)) (hbs : Bal is is0 (pendS ⟨.exitS, sw, ss, saw⟩ + kS)) :
    StInv ⟨iw0, is0, cw, cs⟩ (stepThread ⟨iw, is, cw, cs⟩ ⟨.exitS, sw, ss, saw⟩).1
      (stepThread ⟨iw, is, cw, cs⟩ ⟨.exitS, sw, ss, saw⟩).2 kW kS := by
  cases ss <;> step_tac

theorem step_done
    (hfw : (PC.done).preW = true → sw = none) (hfs : (PC.done).preS = true → ss = none)
    (hsw : sw = none ∨ sw = iw0) (hss : ss = none ∨ ss = is0)
    (hbw : Bal iw iw0 (pendW ⟨.done, sw, ss, saw⟩ + kW)) (hbs : Bal is is0 (pendS ⟨.done, sw, ss, saw⟩ + kS)) :
    StInv ⟨iw0, is0, cw, cs⟩ (stepThread ⟨iw, is, cw, cs⟩ ⟨.done, sw, ss, saw⟩).1
      (stepThread ⟨iw, is, cw, cs⟩ ⟨.done, sw, ss, saw⟩).2 kW kS := by
  step_tac

end step

theorem stepThread_inv {s0 st : Store} {t : Thread} {kW kS : Nat} (hc : s0.Coherent ∨ (kW = 0 ∧ kS = 0))
    (h : StInv s0 st t kW kS) :
    StInv s0 (stepThread st t).1 (stepThread st t).2 kW kS := by
  obtain ⟨hcw, hcs, ⟨hfw, hfs, hsw, hss, hdw, hds⟩, hbw, hbs⟩ := h
  have hcW : (∀ v c, s0.inst .wrapped = some v → s0.cls .wrapped = some c → c = v) ∨ kW = 0 :=
    hc.imp (fun h => h .wrapped) (fun h => h.1)
  have hcS : (∀ v c, s0.inst .signature = some v → s0.cls .signature = some c → c = v) ∨ kS = 0 :=
    hc.imp (fun h => h .signature) (fun h => h.2)
  rcases s0 with ⟨iw0, is0, cw0, cs0⟩
  rcases st with ⟨iw, is, cw, cs⟩
  rcases t with ⟨pc, sw, ss, saw⟩
  simp only [Store.inst, Store.cls] at hcW hcS
  simp only at hcw hcs hfw hfs hsw hss hdw hds hbw hbs
  subst hcw hcs
  cases pc
  case getW => exact step_getW hcW hfw hfs hsw hss hbw hbs
  case delW v => exact step_delW (hdw v rfl) hfw hfs hsw hss hbw hbs
  case getS => exact step_getS hcS hfw hfs hsw hss hbw hbs
  case delS v => exact step_delS (hds v rfl) hfw hfs hsw hss hbw hbs
  case body => exact step_body hfw hfs hsw hss hbw hbs
  case exitW => exact step_exitW hfw hfs hsw hss hbw hbs
  case exitS => exact step_exitS hfw hfs hsw hss hbw hbs
  case done => exact step_done hfw hfs hsw hss hbw hbs

/-! ### lifting to worlds -/

theorem exists_split {α : Type} (l : List α) (i : Nat) (t : α) (h : l[i]? = some t) :
    ∃ pre post, l = pre ++ t :: post ∧ ∀ t', l.set i t' = pre ++ t' :: post := by
  induction l generalizing i with
  | nil => simp at h
  | cons a l ih =>
    cases i with
    | zero =>
      simp at h; subst h
      exact ⟨[], l, rfl, fun _ => rfl⟩
    | succ i =>
      simp at h
      obtain ⟨pre, post, h1, h2⟩ := ih i h
      exact ⟨a :: pre, post, by simp [h1], fun t' => by simp [h2]⟩

def cntW (l : List Thread) : Nat := (l.map pendW).sum
def cntS (l : List Thread) : Nat := (l.map pendS).sum

theorem cntW_zero {l : List Thread} (h : ∀ t ∈ l, pendW t = 0) : cntW l = 0 := by
  induction l with
  | nil => rfl
  | cons a l ih =>
    simp only [cntW, List.map_cons, List.sum_cons] at *
    rw [h a (by simp), ih (fun t ht => h t (by simp [ht]))]

theorem cntS_zero {l : List Thread} (h : ∀ t ∈ l, pendS t = 0) : cntS l = 0 := by
  induction l with
  | nil => rfl
  | cons a l ih =>
    simp only [cntS, List.map_cons, List.sum_cons] at *
    rw [h a (by simp), ih (fun t ht => h t (by simp [ht]))]

/-- the world invariant relative to the initial store `s0` -/
structure WInv (s0 : Store) (w : World) : Prop where
  clsW : w.store.clsW = s0.clsW
  clsS : w.store.clsS = s0.clsS
  loc : ∀ t ∈ w.threads, Loc s0 t
  balW : Bal w.store.instW s0.instW (cntW w.threads)
  balS : Bal w.store.instS s0.instS (cntS w.threads)

theorem WInv_init (s : Store) (n : Nat) : WInv s (World.init s n) := by
  have h0 : ∀ t ∈ (World.init s n).threads, t = {} := by
    intro t ht; simp [World.init] at ht; exact ht.2
  refine ⟨rfl, rfl, ?_, ?_, ?_⟩
  · intro t ht; rw [h0 t ht]
    exact ⟨fun _ => rfl, fun _ => rfl, Or.inl rfl, Or.inl rfl, fun v h => by simp at h, fun v h => by simp at h⟩
  · rw [cntW_zero (fun t ht => by rw [h0 t ht]; simp [pendW])]
    exact Or.inl ⟨rfl, rfl⟩
  · rw [cntS_zero (fun t ht => by rw [h0 t ht]; simp [pendS])]
    exact Or.inl ⟨rfl, rfl⟩

theorem step_length (w : World) (i : Nat) : (w.step i).threads.length = w.threads.length := by
  unfold World.step
  cases w.threads[i]? <;> simp

theorem run_length (w : World) (schedule : List Nat) :
    (w.run schedule).threads.length = w.threads.length := by
  induction schedule generalizing w with
  | nil => rfl
  | cons i rest ih => exact (ih (w.step i)).trans (step_length w i)

theorem WInv_step {s0 : Store} {w : World} (hc : s0.Coherent ∨ w.threads.length ≤ 1)
    (h : WInv s0 w) (i : Nat) : WInv s0 (w.step i) := by
  unfold World.step
  cases hi : w.threads[i]? with
  | none => exact h
  | some t =>
    obtain ⟨pre, post, h1, h2⟩ := exists_split _ _ _ hi
    obtain ⟨hcw, hcs, hloc, hbw, hbs⟩ := h
    have hst : StInv s0 w.store t (cntW pre + cntW post) (cntS pre + cntS post) := by
      refine ⟨hcw, hcs, hloc t (by simp [h1]), ?_, ?_⟩
      · have : cntW w.threads = pendW t + (cntW pre + cntW post) := by
          simp [h1, cntW]; omega
        rw [← this]; exact hbw
      · have : cntS w.threads = pendS t + (cntS pre + cntS post) := by
          simp [h1, cntS]; omega
        rw [← this]; exact hbs
    have hc' : s0.Coherent ∨ (cntW pre + cntW post = 0 ∧ cntS pre + cntS post = 0) := by
      refine hc.imp id (fun hl => ?_)
      rw [h1] at hl
      simp at hl
      have hpre : pre = [] := List.eq_nil_of_length_eq_zero (by omega)
      have hpost : post = [] := List.eq_nil_of_length_eq_zero (by omega)
      subst hpre hpost
      exact ⟨rfl, rfl⟩
    obtain ⟨kcw, kcs, kloc, kbw, kbs⟩ := stepThread_inv hc' hst
    simp only
    refine ⟨kcw, kcs, ?_, ?_, ?_⟩
    · intro t' ht'
      simp only [h2] at ht'
      simp at ht'
      rcases ht' with ht' | rfl | ht'
      · exact hloc t' (by simp [h1, ht'])
      · exact kloc
      · exact hloc t' (by simp [h1, ht'])
    · have : cntW (w.threads.set i (stepThread w.store t).2)
          = pendW (stepThread w.store t).2 + (cntW pre + cntW post) := by
        simp [h2, cntW]; omega
      simp only [this]; exact kbw
    · have : cntS (w.threads.set i (stepThread w.store t).2)
          = pendS (stepThread w.store t).2 + (cntS pre + cntS post) := by
        simp [h2, cntS]; omega
      simp only [this]; exact kbs

theorem WInv_run {s0 : Store} (schedule : List Nat) {w : World}
    (hc : s0.Coherent ∨ w.threads.length ≤ 1) (h : WInv s0 w) :
    WInv s0 (w.run schedule) := by
  induction schedule generalizing w with
  | nil => exact h
  | cons i rest ih =>
    exact ih (hc.imp id (fun hl => by rw [step_length]; exact hl)) (WInv_step hc h i)

theorem WInv_quiescent {s0 : Store} {w : World} (h : WInv s0 w) (hq : w.quiescent) : w.store = s0 := by
  obtain ⟨hcw, hcs, _, hbw, hbs⟩ := h
  rw [cntW_zero (fun t ht => by simp [pendW, hq t ht])] at hbw
  rw [cntS_zero (fun t ht => by simp [pendS, hq t ht])] at hbs
  rcases w with ⟨⟨iw, is, cw, cs⟩, ths⟩
  rcases s0 with ⟨iw0, is0, cw0, cs0⟩
  simp [Bal] at *
  exact ⟨hbw, hbs, hcw, hcs⟩

/-- the hypothesis-carrying form of `restored_at_quiescence` -/
theorem restored_of_WInv (s : Store) (n : Nat) (schedule : List Nat)
    (hc : n ≤ 1 ∨ s.Coherent) (hq : ((World.init s n).run schedule).quiescent) :
    ((World.init s n).run schedule).store = s := by
  refine WInv_quiescent (WInv_run schedule ?_ (WInv_init s n)) hq
  rcases hc with h | h
  · exact Or.inr (by simpa [World.init] using h)
  · exact Or.inl h

/-- fault cases for the three crash points of `cleanupRun` -/
theorem fault_cases (fault : Option Nat) :
    fault = none ∨ fault = some 0 ∨ fault = some 1 ∨ fault = some 2 ∨ ∃ k, fault = some (k + 3) := by
  rcases fault with _ | (_ | _ | _ | k) <;> simp

end SV
