/-
  Lemmas/C20Chars.lean — the character level of `read_sig` (Model/ReadSigText.lean): on the texts the helpers are meant
  for — tokens without commas, colons, equal signs and white space, any white space after the commas — the split and
  the regular expression give back exactly the tokens.
-/
import Sigverif.Model.ReadSigText
namespace SV
set_option linter.unusedSimpArgs false
set_option linter.unusedVariables false

/-- a token of a signature text: non-empty, no comma / colon / equal sign / white space -/
def SimpleTok (t : List Char) : Prop :=
  t ≠ [] ∧ ∀ c ∈ t, c ≠ ',' ∧ c ≠ ':' ∧ c ≠ '=' ∧ isWs c = false

theorem spanLen_append_all (p : Char → Bool) (a b : List Char) (ha : ∀ c ∈ a, p c = true) :
    spanLen p (a ++ b) = a.length + spanLen p b := by
  induction a with
  | nil => simp
  | cons c cs ih =>
    have hc := ha c (by simp)
    simp only [List.cons_append, spanLen, hc, if_true, List.length_cons]
    rw [ih (fun d hd => ha d (List.mem_cons_of_mem _ hd))]; omega

theorem spanLen_stop (p : Char → Bool) (c : Char) (cs : List Char) (h : p c = false) : spanLen p (c :: cs) = 0 := by
  simp [spanLen, h]

/-- the first alternative a greedy quantifier offers: everything it can take -/
theorem greedy_head (p : Char → Bool) (lo : Nat) (s : List Char) (h : lo ≤ spanLen p s) :
    ∃ rest, greedy p lo s = (s.take (spanLen p s), s.drop (spanLen p s)) :: rest := by
  unfold greedy
  have : spanLen p s + 1 - lo = (spanLen p s - lo) + 1 := by omega
  simp only [this, List.range_succ_eq_map, List.map_cons, Nat.sub_zero]
  exact ⟨_, rfl⟩

theorem findSome?_cons_some {α β : Type} (f : α → Option β) (x : α) (xs : List α) (y : β) (h : f x = some y) :
    (x :: xs).findSome? f = some y := by
  simp [List.findSome?, h]

/-- `tailDefault` on `=` + a non-empty text, and on nothing -/
theorem tailDefault_eq (d : List Char) (hd : d ≠ []) : tailDefault ('=' :: d) = some (some d) := by
  cases d with
  | nil => exact absurd rfl hd
  | cons _ _ => rfl

theorem afterAnn_default (d : List Char) (hd : d ≠ []) : afterAnn ('=' :: d) = some (some d) := by
  unfold afterAnn
  obtain ⟨rest, h⟩ := greedy_head isWs 0 ('=' :: d) (Nat.zero_le _)
  rw [h]
  have h0 : spanLen isWs ('=' :: d) = 0 := spanLen_stop isWs '=' d (by decide)
  simp only [h0, List.take_zero, List.drop_zero]
  exact findSome?_cons_some _ _ _ _ (tailDefault_eq d hd)

theorem afterAnn_nil : afterAnn [] = some none := by
  unfold afterAnn greedy
  simp [spanLen, tailDefault]

/-- in front of a token character the tail cannot match -/
theorem afterAnn_tok (c : Char) (cs : List Char) (hw : isWs c = false) (he : c ≠ '=') : afterAnn (c :: cs) = none := by
  unfold afterAnn greedy
  have h0 : spanLen isWs (c :: cs) = 0 := spanLen_stop isWs c cs hw
  simp only [h0, Nat.zero_add, Nat.sub_zero, List.range_one, List.map_cons, List.map_nil, List.take_zero, List.drop_zero,
    List.findSome?]
  cases hcs : tailDefault (c :: cs) with
  | none => rfl
  | some v =>
    exfalso
    unfold tailDefault at hcs
    split at hcs
    · rename_i heq; simp only [List.cons.injEq] at heq; exact he heq.1
    · rename_i heq; cases heq
    · cases hcs


/-- the text of an optional default: nothing, or `=` and a token -/
def dfltText : Option (List Char) → List Char
  | none => []
  | some d => '=' :: d

def annText : Option (List Char) → List Char
  | none => []
  | some a => ':' :: a

theorem afterAnn_dfltText (d : Option (List Char)) (hd : ∀ t ∈ d, SimpleTok t) : afterAnn (dfltText d) = some d := by
  cases d with
  | none => exact afterAnn_nil
  | some t => exact afterAnn_default t (hd t rfl).1

theorem findSome?_range_map {β γ : Type} (g : Nat → β) (f : β → Option γ) (n k : Nat) (y : γ) (hk : k < n)
    (hbefore : ∀ j < k, f (g j) = none) (hat : f (g k) = some y) :
    ((List.range n).map g).findSome? f = some y := by
  induction n generalizing g k with
  | zero => omega
  | succ n ih =>
    rw [List.range_succ_eq_map, List.map_cons, List.map_map]
    cases k with
    | zero => exact findSome?_cons_some _ _ _ _ hat
    | succ k' =>
      have h0 : f (g 0) = none := hbefore 0 (by omega)
      simp only [List.findSome?, h0]
      exact ih (g ∘ Nat.succ) k' (by omega) (fun j hj => hbefore (j + 1) (by omega)) hat

/-- the lazy annotation group stops exactly at the end of the annotation token -/
theorem annAndDefault_ann (a : List Char) (d : Option (List Char)) (ha : SimpleTok a) (hd : ∀ t ∈ d, SimpleTok t) :
    annAndDefault (':' :: a ++ dfltText d) = some (some a, d) := by
  unfold annAndDefault
  have key : (lazyDot (a ++ dfltText d)).findSome?
      (fun (x : List Char × List Char) => (afterAnn x.2).map (fun dd => (some x.1, dd))) = some (some a, d) := by
    unfold lazyDot
    have hlen : a.length - 1 < (a ++ dfltText d).length := by
      have : a.length ≠ 0 := by intro h; exact ha.1 (List.length_eq_zero_iff.1 h)
      simp; omega
    have hpos : 0 < a.length := by
      cases a with
      | nil => exact absurd rfl ha.1
      | cons _ _ => simp
    refine findSome?_range_map _ _ _ (a.length - 1) _ hlen ?_ ?_
    · intro j hj
      have hj' : j + 1 < a.length := by omega
      -- the remainder starts with a character of the token
      have hdrop : (a ++ dfltText d).drop (j + 1) = a.drop (j + 1) ++ dfltText d := by
        rw [List.drop_append_of_le_length (by omega)]
      simp only [hdrop]
      cases hda : a.drop (j + 1) with
      | nil =>
        have := List.drop_eq_nil_iff.1 hda
        omega
      | cons c cs =>
        have hc : c ∈ a := List.mem_of_mem_drop (by rw [hda]; simp)
        obtain ⟨_, _, h3, h4⟩ := ha.2 c hc
        simp [afterAnn_tok c (cs ++ dfltText d) h4 h3]
    · have e1 : a.length - 1 + 1 = a.length := by omega
      simp only [e1, List.take_left', List.drop_left', afterAnn_dfltText d hd, Option.map_some]
  simp only [List.cons_append, key]

/-- without an annotation: straight to the default -/
theorem annAndDefault_noann (d : Option (List Char)) (hd : ∀ t ∈ d, SimpleTok t) :
    annAndDefault (dfltText d) = some (none, d) := by
  unfold annAndDefault
  cases d with
  | none => simp [dfltText, afterAnn_nil]
  | some t =>
    have := afterAnn_default t (hd t rfl).1
    simp [dfltText, this]

theorem annAndDefault_texts (a d : Option (List Char)) (ha : ∀ t ∈ a, SimpleTok t) (hd : ∀ t ∈ d, SimpleTok t) :
    annAndDefault (annText a ++ dfltText d) = some (a, d) := by
  cases a with
  | none => simpa [annText] using annAndDefault_noann d hd
  | some t => simpa [annText] using annAndDefault_ann t d (ha t rfl) hd

/-- **`re_paramname` on a well-formed part**: any white space, the argument token, optionally `:` and the annotation token,
    optionally `=` and the default token — the three groups are exactly the three tokens -/
theorem matchParam_simple (ws arg : List Char) (a d : Option (List Char)) (hws : ∀ c ∈ ws, isWs c = true)
    (harg : SimpleTok arg) (ha : ∀ t ∈ a, SimpleTok t) (hd : ∀ t ∈ d, SimpleTok t) :
    matchParam (ws ++ arg ++ annText a ++ dfltText d) = some (arg, a, d) := by
  unfold matchParam
  -- what follows the argument token starts with `:` or `=` or is empty
  have hstop : ∀ p : Char → Bool, p ':' = false → p '=' = false → spanLen p (annText a ++ dfltText d) = 0 := by
    intro p h1 h2
    cases a with
    | some t => simp [annText, spanLen, h1]
    | none =>
      cases d with
      | some t => simp [annText, dfltText, spanLen, h2]
      | none => simp [annText, dfltText, spanLen]
  obtain ⟨c0, cs0, harg0⟩ : ∃ c cs, arg = c :: cs := by
    cases arg with
    | nil => exact absurd rfl harg.1
    | cons c cs => exact ⟨c, cs, rfl⟩
  have hc0 := harg.2 c0 (by rw [harg0]; simp)
  -- 1: the leading white space
  have h1 : spanLen isWs (ws ++ arg ++ annText a ++ dfltText d) = ws.length := by
    rw [List.append_assoc, List.append_assoc, spanLen_append_all isWs ws _ hws, harg0]
    simp [spanLen, hc0.2.2.2]
  obtain ⟨rest1, g1⟩ := greedy_head isWs 0 (ws ++ arg ++ annText a ++ dfltText d) (Nat.zero_le _)
  rw [g1, h1]
  have hdrop1 : (ws ++ arg ++ annText a ++ dfltText d).drop ws.length = arg ++ (annText a ++ dfltText d) := by
    simp [List.append_assoc]
  refine findSome?_cons_some _ _ _ _ ?_
  simp only [hdrop1]
  -- 2: the argument token
  have harg_all : ∀ c ∈ arg, (fun c => decide (c ≠ ':') && decide (c ≠ '=')) c = true := by
    intro c hc
    obtain ⟨_, h2, h3, _⟩ := harg.2 c hc
    simp [h2, h3]
  have h2 : spanLen (fun c => decide (c ≠ ':') && decide (c ≠ '=')) (arg ++ (annText a ++ dfltText d)) = arg.length := by
    rw [spanLen_append_all _ arg _ harg_all, hstop _ (by decide) (by decide)]; simp
  have hlen : 1 ≤ arg.length := by rw [harg0]; simp
  obtain ⟨rest2, g2⟩ := greedy_head (fun c => decide (c ≠ ':') && decide (c ≠ '=')) 1 (arg ++ (annText a ++ dfltText d))
    (by rw [h2]; exact hlen)
  rw [g2, h2]
  refine findSome?_cons_some _ _ _ _ ?_
  simp only [List.take_left', List.drop_left']
  -- 3: no white space before the annotation / default
  have h3 : spanLen isWs (annText a ++ dfltText d) = 0 := hstop isWs (by decide) (by decide)
  obtain ⟨rest3, g3⟩ := greedy_head isWs 0 (annText a ++ dfltText d) (Nat.zero_le _)
  rw [g3, h3]
  refine findSome?_cons_some _ _ _ _ ?_
  simp only [List.take_zero, List.drop_zero, annAndDefault_texts a d ha hd, Option.map_some]


/-! ### `split(',')` -/

theorem splitComma_cons (c : Char) (cs : List Char) :
    splitComma (c :: cs) = (match splitComma cs with
      | [] => [[c]]
      | w :: ws => if c = ',' then [] :: w :: ws else (c :: w) :: ws) := rfl

theorem splitComma_ne_nil (s : List Char) : splitComma s ≠ [] := by
  induction s with
  | nil => simp [splitComma]
  | cons c cs ih =>
    unfold splitComma
    cases h : splitComma cs with
    | nil => exact absurd h ih
    | cons w ws => by_cases hc : c = ',' <;> simp [hc]

theorem splitComma_nocomma (p : List Char) (h : ∀ c ∈ p, c ≠ ',') : splitComma p = [p] := by
  induction p with
  | nil => rfl
  | cons c cs ih =>
    have hc := h c (by simp)
    unfold splitComma
    rw [ih (fun d hd => h d (List.mem_cons_of_mem _ hd))]
    simp [hc]

theorem splitComma_append (p rest : List Char) (h : ∀ c ∈ p, c ≠ ',') :
    splitComma (p ++ ',' :: rest) = p :: splitComma rest := by
  induction p with
  | nil =>
    simp only [List.nil_append]
    rw [splitComma_cons]
    cases hr : splitComma rest with
    | nil => exact absurd hr (splitComma_ne_nil rest)
    | cons w ws => simp
  | cons c cs ih =>
    have hc := h c (by simp)
    rw [List.cons_append, splitComma_cons, ih (fun d hd => h d (List.mem_cons_of_mem _ hd))]
    simp [hc]

/-- `','.join(parts)` (any separator white space belongs to the parts) -/
def joinComma : List (List Char) → List Char
  | [] => []
  | [p] => p
  | p :: q :: ps => p ++ ',' :: joinComma (q :: ps)

theorem splitComma_join (parts : List (List Char)) (hne : parts ≠ []) (h : ∀ p ∈ parts, ∀ c ∈ p, c ≠ ',') :
    splitComma (joinComma parts) = parts := by
  induction parts with
  | nil => exact absurd rfl hne
  | cons p ps ih =>
    cases ps with
    | nil => exact splitComma_nocomma p (h p (by simp))
    | cons q qs =>
      simp only [joinComma]
      rw [splitComma_append p _ (h p (by simp)), ih (by simp) (fun r hr => h r (List.mem_cons_of_mem _ hr))]

/-- one comma-separated part of a signature text -/
structure Part where
  ws : List Char
  arg : List Char
  ann : Option (List Char)
  dflt : Option (List Char)

def Part.text (p : Part) : List Char := p.ws ++ p.arg ++ annText p.ann ++ dfltText p.dflt

def Part.Simple (p : Part) : Prop :=
  (∀ c ∈ p.ws, isWs c = true) ∧ SimpleTok p.arg ∧ (∀ t ∈ p.ann, SimpleTok t) ∧ (∀ t ∈ p.dflt, SimpleTok t)

theorem Part.text_nocomma (p : Part) (h : p.Simple) : ∀ c ∈ p.text, c ≠ ',' := by
  intro c hc
  obtain ⟨h1, h2, h3, h4⟩ := h
  simp only [Part.text, List.mem_append] at hc
  rcases hc with ((hc | hc) | hc) | hc
  · intro e; subst e; have := h1 _ hc; simp [isWs] at this
  · exact (h2.2 c hc).1
  · cases ha : p.ann with
    | none => rw [ha] at hc; simp [annText] at hc
    | some t =>
      rw [ha] at hc
      simp only [annText, List.mem_cons] at hc
      rcases hc with rfl | hc
      · decide
      · exact ((h3 t ha).2 c hc).1
  · cases hd : p.dflt with
    | none => rw [hd] at hc; simp [dfltText] at hc
    | some t =>
      rw [hd] at hc
      simp only [dfltText, List.mem_cons] at hc
      rcases hc with rfl | hc
      · decide
      · exact ((h4 t hd).2 c hc).1

theorem Part.text_ne_nil (p : Part) (h : p.Simple) : p.text.isEmpty = false := by
  obtain ⟨_, h2, _, _⟩ := h
  cases ha : p.arg with
  | nil => exact absurd ha h2.1
  | cons c cs => cases hw : p.ws <;> simp [Part.text, ha, hw]

/-- **the first two steps of `read_sig` on a well-formed text**: splitting at the commas and matching `re_paramname` gives,
    part by part, exactly the argument, annotation and default tokens that were written -/
theorem splitParams_simple (parts : List Part) (hne : parts ≠ []) (h : ∀ p ∈ parts, p.Simple) :
    splitParams (joinComma (parts.map Part.text)) = parts.map (fun p => some (p.arg, p.ann, p.dflt)) := by
  unfold splitParams
  rw [splitComma_join (parts.map Part.text) (by simpa using hne)
    (by intro t ht; simp only [List.mem_map] at ht; obtain ⟨p, hp, rfl⟩ := ht; exact p.text_nocomma (h p hp))]
  have hfil : (parts.map Part.text).filter (fun w => !w.isEmpty) = parts.map Part.text := by
    rw [List.filter_eq_self]
    intro t ht
    simp only [List.mem_map] at ht
    obtain ⟨p, hp, rfl⟩ := ht
    simp [p.text_ne_nil (h p hp)]
  rw [hfil, List.map_map]
  apply List.map_congr_left
  intro p hp
  obtain ⟨h1, h2, h3, h4⟩ := h p hp
  exact matchParam_simple p.ws p.arg p.ann p.dflt h1 h2 h3 h4

end SV
