/-
  Lemmas/C09RCall.lean — from the buckets to call shapes:
    * a call whose keywords are foreign to a signature is accepted only if the all-positional call
      with the same number of arguments is;
    * a raising merge of two valid signatures has no common call with foreign keywords only;
    * every valid signature accepts a call built from its own required parameters;
    * hence a returning merge of role-consistent inputs has a common non-colliding call.
-/
import Sigverif.Lemmas.C09RStep
import Sigverif.Lemmas.C01RFinal
import Sigverif.Lemmas.LawsRoles3
import Sigverif.Lemmas.LawsErr2
namespace SV

/-! ### calls with foreign keywords -/

theorem bindKw_foreign_C09R {kwp : List Nat} {vk : Bool} {b0 K bound : List Nat}
    (hf : ∀ k ∈ K, k ∉ kwp) (h : bindKw kwp vk b0 K = some bound) : bound = b0 := by
  induction K generalizing b0 with
  | nil => simp only [bindKw, Option.some.injEq] at h; exact h.symm
  | cons k ks ih =>
    have hk : kwp.contains k = false := by simpa using hf k List.mem_cons_self
    simp only [bindKw, hk, Bool.false_eq_true, if_false] at h
    split at h
    · exact ih (fun x hx => hf x (List.mem_cons_of_mem _ hx)) h
    · cases h

theorem kwNames_sub_allNames_C09R {ps : List Param} {k : Nat} (h : k ∈ kwNames ps) : k ∈ allNames ps := by
  unfold kwNames at h
  obtain ⟨p, hp, rfl⟩ := List.mem_map.1 h
  exact List.mem_map.2 ⟨p, (List.mem_filter.1 hp).1, rfl⟩

/-- keywords that are not parameter names of `ps` bind nothing: the call is accepted only if the
    all-positional call with the same `n` is -/
theorem accepts_foreign_pos {ps : List Param} {n : Nat} {K : List Nat}
    (hf : ∀ k ∈ K, k ∉ allNames ps) (h : accepts ps n K = true) : accepts ps n [] = true := by
  rw [accepts_iff_C01] at h ⊢
  obtain ⟨h1, bound, hb, h2⟩ := h
  have := bindKw_foreign_C09R (fun k hk hkw => hf k hk (kwNames_sub_allNames_C09R hkw)) hb
  subst this
  exact ⟨h1, _, rfl, h2⟩

theorem accPosB_of_accepts_C09R (s : USig) (hwf : WF s.params) {n : Nat}
    (h : accepts s.params n [] = true) : accPosB (sortParams s) n := by
  have hv := WF_validate hwf
  have hall := sortParams_all_Laws s hwf
  exact result_pos (sortParams_facts s hv).bk (by rw [hall]; exact hv) (by rw [hall]; exact h)

theorem optSuffix_sort_C09R (s : USig) (hv : validate s.params = .ok ()) :
    OptSuffix ((sortParams s).pos ++ (sortParams s).pok) := by
  rw [← positionals_sort s hv]; exact validate_suffix hv

theorem nodup_kwo_sort_C09R (s : USig) (hv : validate s.params = .ok ()) :
    (names (sortParams s).kwo).Nodup := by
  rw [(sortParams_facts s hv).kwo]
  exact nodup_names_filter (validate_nodup_C01 hv) _

/-- one raising step between two valid signatures: no common call with foreign keywords only -/
theorem mergeStep_err_no_call (a b : USig) (ha : WF a.params) (hb : WF b.params) {e : Err}
    (h : mergeStep (sortParams a) (sortParams b) = .error e) (n : Nat) (K : List Nat)
    (hf : foreignTo [a.params, b.params] K) :
    ¬ (accepts a.params n K = true ∧ accepts b.params n K = true) := by
  rintro ⟨h1, h2⟩
  have hva := WF_validate ha
  have hvb := WF_validate hb
  have fa : ∀ k ∈ K, k ∉ allNames a.params := fun k hk => hf k hk _ (by simp)
  have fb : ∀ k ∈ K, k ∉ allNames b.params := fun k hk => hf k hk _ (by simp)
  exact mergeStep_err_no_pos (nodup_kwo_sort_C09R a hva) (nodup_kwo_sort_C09R b hvb)
    (optSuffix_sort_C09R a hva) (optSuffix_sort_C09R b hvb) h n
    ⟨accPosB_of_accepts_C09R a ha (accepts_foreign_pos fa h1),
     accPosB_of_accepts_C09R b hb (accepts_foreign_pos fb h2)⟩

/-- a raising `merge` of two signatures whose error is IncompatibleSignatures raised in the step -/
theorem merge_pair_err_step (a b : USig) (h : merge [a, b] = .error .incompatible) :
    ∃ e', mergeStep (sortParams a) (sortParams b) = .error e' := by
  cases hs : mergeStep (sortParams a) (sortParams b) with
  | error e' => exact ⟨e', rfl⟩
  | ok s =>
    exfalso
    simp only [merge, mergeFold, bind, Except.bind] at h
    rw [hs] at h
    simp only at h
    have := applyParams_err _ _ _ h
    cases this

theorem merge_raises_aligned_pair' (a b : USig) (e : Err)
    (ha : WF a.params) (hb : WF b.params) (hal : aligned [a.params, b.params])
    (hE : merge [a, b] = .error e) :
    e = .incompatible ∧
    ∀ (n : Nat) (K : List Nat), K.Nodup → foreignTo [a.params, b.params] K →
      ¬ (accepts a.params n K = true ∧ accepts b.params n K = true) := by
  have he := merge_err_roles' a b e ha hb hal.1 hE
  subst he
  obtain ⟨e', hs⟩ := merge_pair_err_step a b hE
  exact ⟨rfl, fun n K _ hf => mergeStep_err_no_call a b ha hb hs n K hf⟩

/-- the same without the alignment hypothesis, for the IncompatibleSignatures error -/
theorem merge_incompatible_pair' (a b : USig)
    (ha : WF a.params) (hb : WF b.params) (hE : merge [a, b] = .error .incompatible) :
    ∀ (n : Nat) (K : List Nat), foreignTo [a.params, b.params] K →
      ¬ (accepts a.params n K = true ∧ accepts b.params n K = true) := by
  obtain ⟨e', hs⟩ := merge_pair_err_step a b hE
  exact fun n K hf => mergeStep_err_no_call a b ha hb hs n K hf

/-! ### every valid signature is callable -/

/-- the canonical call of a signature: all required positionals, then every required keyword-only
    parameter by name -/
def canonN (ps : List Param) : Nat := reqCount (positionals ps)
def canonK (ps : List Param) : List Nat :=
  names (ps.filter (fun p => p.kind = .ko && p.required))

theorem canon_accepts (ps : List Param) (hv : validate ps = .ok ()) :
    (canonK ps).Nodup ∧ (∀ k ∈ canonK ps, k ∈ kwNames ps) ∧
      accepts ps (canonN ps) (canonK ps) = true := by
  have hn := validate_nodup_C01 hv
  have hK : (canonK ps).Nodup := nodup_names_filter hn _
  have hsub : ∀ k ∈ canonK ps, k ∈ kwNames ps := by
    intro k hk
    obtain ⟨p, hp, rfl⟩ := mem_names_C01.1 hk
    obtain ⟨hp1, hp2⟩ := List.mem_filter.1 hp
    simp only [Bool.and_eq_true, decide_eq_true_eq] at hp2
    exact List.mem_map.2 ⟨p, List.mem_filter.2 ⟨hp1, by simp [kwPassable, hp2.1]⟩, rfl⟩
  refine ⟨hK, hsub, ?_⟩
  rw [accepts_iff_C01]
  refine ⟨Or.inl (List.countP_le_length), ?_⟩
  obtain ⟨bound, hb, hbound⟩ := bindKw_ok' (kwp := kwNames ps) (vk := hasVk ps)
    (b0 := names ((positionals ps).take (canonN ps))) hK (by
      intro k hk
      refine ⟨fun _ hb0 => ?_, fun hnk => absurd (hsub k hk) hnk⟩
      obtain ⟨p, hp, rfl⟩ := mem_names_C01.1 hk
      obtain ⟨hp1, hp2⟩ := List.mem_filter.1 hp
      simp only [Bool.and_eq_true, decide_eq_true_eq] at hp2
      obtain ⟨q, hq, hqn⟩ := mem_names_C01.1 hb0
      have hq' := List.mem_filter.1 (List.mem_of_mem_take hq)
      have : q = p := eq_of_nodup_names hn hq'.1 hp1 hqn
      subst this
      have := hq'.2
      simp [isPositional, hp2.1] at this)
  refine ⟨bound, hb, ?_⟩
  intro p hp hnm hr
  apply hbound
  by_cases hk : p.kind = .ko
  · right
    have : p.name ∈ canonK ps :=
      mem_names_of_mem_C01 (List.mem_filter.2 ⟨hp, by simp [hk, hr]⟩)
    exact ⟨this, hsub _ this⟩
  · left
    have hpos : p ∈ positionals ps := by
      refine List.mem_filter.2 ⟨hp, ?_⟩
      unfold isNamed at hnm; unfold isPositional
      cases hk' : p.kind <;> simp_all
    exact mem_names_of_mem_C01
      (optSuffix_take (validate_suffix hv) (Nat.le_refl _) p hpos hr)

theorem valid_has_call' (ps : List Param) (hv : validate ps = .ok ()) :
    ∃ (n : Nat) (K : List Nat), K.Nodup ∧ (∀ k ∈ K, k ∈ kwNames ps) ∧ accepts ps n K = true :=
  ⟨canonN ps, canonK ps, canon_accepts ps hv⟩

theorem merge_ok_common_call' (ss : List USig) (R : USig)
    (hv : ∀ s ∈ ss, validate s.params = .ok ()) (hrc : roleCons (ss.map (·.params)))
    (hR : merge ss = .ok R) :
    ∃ (n : Nat) (K : List Nat), K.Nodup ∧ nonColl R.params (ss.map (·.params)) K ∧
      accepts R.params n K = true ∧ ∀ s ∈ ss, accepts s.params n K = true := by
  have hvR : validate R.params = .ok () := validOk_iff_C01.1 (merge_valid' ss R hR)
  obtain ⟨hK, hsub, hacc⟩ := canon_accepts R.params hvR
  have hnc : nonColl R.params (ss.map (·.params)) (canonK R.params) :=
    fun k hk => Or.inl (hsub k hk)
  exact ⟨canonN R.params, canonK R.params, hK, hnc, hacc,
    merge_sound_roles_core ss R _ _ hv hK hrc hR hnc hacc⟩

/-- totality + the contrapositive of `merge_raises_aligned_pair'` -/
theorem merge_returns_of_common_call' (a b : USig)
    (ha : WF a.params) (hb : WF b.params) (hal : aligned [a.params, b.params])
    (hc : ∃ (n : Nat) (K : List Nat), K.Nodup ∧ foreignTo [a.params, b.params] K ∧
      accepts a.params n K = true ∧ accepts b.params n K = true) :
    ∃ R, merge [a, b] = .ok R := by
  cases hm : merge [a, b] with
  | ok R => exact ⟨R, rfl⟩
  | error e =>
    obtain ⟨n, K, hK, hf, h1, h2⟩ := hc
    exact absurd ⟨h1, h2⟩ ((merge_raises_aligned_pair' a b e ha hb hal hm).2 n K hK hf)

/-! ### the specification predicates on concrete inputs are decidable (for the examples) -/

instance c09r_decRoleCons (inputs : List (List Param)) : Decidable (roleCons inputs) := by
  unfold roleCons; exact inferInstance
instance c09r_decAligned (inputs : List (List Param)) : Decidable (aligned inputs) := by
  unfold aligned; exact inferInstance
instance c09r_decForeignTo (inputs : List (List Param)) (K : List Nat) :
    Decidable (foreignTo inputs K) := by
  unfold foreignTo; exact inferInstance
instance c09r_decNonColl (R : List Param) (inputs : List (List Param)) (K : List Nat) :
    Decidable (nonColl R inputs K) := by
  unfold nonColl; exact inferInstance

end SV
