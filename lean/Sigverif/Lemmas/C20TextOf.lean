/-
  Lemmas/C20TextOf.lean — the text of a list of pieces, and back: `readSigText (textOf ps) = readSig ps`.
-/
import Sigverif.Lemmas.C20Bridge
import Sigverif.Lemmas.C20Text
namespace SV
set_option linter.unusedSimpArgs false
set_option linter.unusedVariables false

/-- how tokens are written: `dec n` is the text of token `n`; `enc` reads it back -/
structure GoodNames (enc : List Char → Nat) (dec : Nat → List Char) : Prop where
  tok : ∀ n, SimpleTok (dec n)
  nostar : ∀ n, (dec n).head? ≠ some '*'
  nochev : ∀ n, (dec n).head? ≠ some '<'
  noslash : ∀ n, dec n ≠ ['/']
  back : ∀ n, enc (dec n) = n

/-- one piece as a part of the text (`ws` = the white space written after the comma) -/
def partOf (dec : Nat → List Char) (ws : List Char) : Piece → Part
  | .slash => ⟨ws, ['/'], none, none⟩
  | .bare => ⟨ws, ['*'], none, none⟩
  | .plain n a d => ⟨ws, dec n, a.map dec, d.map dec⟩
  | .star two n a d => ⟨ws, (if two then ['*', '*'] else ['*']) ++ dec n, a.map dec, d.map dec⟩
  | .chev n a d => ⟨ws, '<' :: dec n ++ ['>'], a.map dec, d.map dec⟩

/-- `', '.join(...)` of the pieces -/
def textOf (dec : Nat → List Char) (ws : List Char) (ps : List Piece) : List Char :=
  joinComma (ps.map (fun pc => (partOf dec ws pc).text))

theorem simpleTok_cons (c : Char) (t : List Char) (ht : SimpleTok t)
    (hc : c ≠ ',' ∧ c ≠ ':' ∧ c ≠ '=' ∧ isWs c = false) : SimpleTok (c :: t) := by
  refine ⟨by simp, ?_⟩
  intro x hx
  rcases List.mem_cons.1 hx with rfl | hx
  · exact hc
  · exact ht.2 x hx

theorem partOf_simple (enc : List Char → Nat) (dec : Nat → List Char) (g : GoodNames enc dec) (ws : List Char)
    (hws : ∀ c ∈ ws, isWs c = true) (pc : Piece) (hc : pc.chevFree = true) : (partOf dec ws pc).Simple := by
  have hopt : ∀ o : Option Nat, ∀ t ∈ o.map dec, SimpleTok t := by
    intro o t ht
    cases o with
    | none => cases ht
    | some n => simp only [Option.map_some, Option.mem_def, Option.some.injEq] at ht; subst ht; exact g.tok n
  have hstar : ('*' : Char) ≠ ',' ∧ ('*' : Char) ≠ ':' ∧ ('*' : Char) ≠ '=' ∧ isWs '*' = false := by decide
  cases pc with
  | slash =>
    refine ⟨hws, ⟨by simp [partOf], ?_⟩, by simp [partOf], by simp [partOf]⟩
    intro c hc'
    simp only [partOf, List.mem_singleton] at hc'
    subst hc'; decide
  | bare =>
    refine ⟨hws, ⟨by simp [partOf], ?_⟩, by simp [partOf], by simp [partOf]⟩
    intro c hc'
    simp only [partOf, List.mem_singleton] at hc'
    subst hc'; decide
  | chev n a d => simp [Piece.chevFree] at hc
  | plain n a d => exact ⟨hws, g.tok n, hopt a, hopt d⟩
  | star two n a d =>
    refine ⟨hws, ?_, hopt a, hopt d⟩
    cases two
    · exact simpleTok_cons '*' _ (g.tok n) hstar
    · exact simpleTok_cons '*' _ (simpleTok_cons '*' _ (g.tok n) hstar) hstar

theorem toPiece_partOf (enc : List Char → Nat) (dec : Nat → List Char) (g : GoodNames enc dec) (ws : List Char)
    (pc : Piece) (hc : pc.chevFree = true) :
    toPiece enc ((partOf dec ws pc).arg, (partOf dec ws pc).ann, (partOf dec ws pc).dflt) = some pc := by
  have hmap : ∀ o : Option Nat, (o.map dec).map enc = o := by
    intro o; cases o <;> simp [g.back]
  cases pc with
  | slash => exact (toPiece_marks enc).2
  | bare => exact (toPiece_marks enc).1
  | chev n a d => simp [Piece.chevFree] at hc
  | plain n a d =>
    have := toPiece_plain enc (dec n) (a.map dec) (d.map dec) (g.nostar n) (g.nochev n) (g.noslash n)
    simpa [partOf, hmap, g.back] using this
  | star two n a d =>
    have := toPiece_star enc (dec n) (a.map dec) (d.map dec) (g.tok n).1 (g.nostar n)
    cases two
    · simpa [partOf, hmap, g.back] using this.1
    · simpa [partOf, hmap, g.back] using this.2

/-- **the text of pieces, read back**: writing the pieces as text (tokens through `dec`, any white space after the commas),
    splitting, matching and classifying gives the pieces back -/
theorem piecesOfText_textOf (enc : List Char → Nat) (dec : Nat → List Char) (g : GoodNames enc dec) (ws : List Char)
    (hws : ∀ c ∈ ws, isWs c = true) (ps : List Piece) (hne : ps ≠ [])
    (hc : ∀ pc ∈ ps, pc.chevFree = true) :
    piecesOfText enc (textOf dec ws ps) = some ps := by
  have key := piecesOfText_parts enc (ps.map (partOf dec ws)) (fun p =>
      (toPiece enc (p.arg, p.ann, p.dflt)).getD .slash)
    (by simpa using hne)
    (by intro p hp
        simp only [List.mem_map] at hp
        obtain ⟨pc, hpc, rfl⟩ := hp
        exact partOf_simple enc dec g ws hws pc (hc pc hpc))
    (by intro p hp
        simp only [List.mem_map] at hp
        obtain ⟨pc, hpc, rfl⟩ := hp
        rw [toPiece_partOf enc dec g ws pc (hc pc hpc)]; rfl)
  have hback : (ps.map (partOf dec ws)).map (fun p => (toPiece enc (p.arg, p.ann, p.dflt)).getD .slash) = ps := by
    rw [List.map_map]
    conv => rhs; rw [← List.map_id ps]
    apply List.map_congr_left
    intro pc hpc
    simp [toPiece_partOf enc dec g ws pc (hc pc hpc)]
  rw [hback] at key
  simpa [textOf, List.map_map, Function.comp_def] using key

theorem readSigText_textOf (enc : List Char → Nat) (dec : Nat → List Char) (g : GoodNames enc dec) (ws : List Char)
    (hws : ∀ c ∈ ws, isWs c = true) (ua upo ukw : Bool) (ps : List Piece) (hne : ps ≠ [])
    (hc : ∀ pc ∈ ps, pc.chevFree = true) :
    readSigText enc ua upo ukw (textOf dec ws ps) = some (readSig ua upo ukw ps) := by
  unfold readSigText
  rw [piecesOfText_textOf enc dec g ws hws ps hne hc]; rfl

theorem pieces_ne_nil (s : List Param) (h : s ≠ []) : pieces s ≠ [] := by
  cases s with
  | nil => exact absurd rfl h
  | cons p ps =>
    unfold pieces
    rw [piecesAux_cons]
    simp

end SV
