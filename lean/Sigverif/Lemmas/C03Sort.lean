/-
  Lemmas/C03Sort.lean — bucketed signatures: declarative well-formedness (`SWF`),
  `sortParams` of a well-formed signature, filters of `Sorted.all`.
-/
import Sigverif.Lemmas.C03Basic
namespace SV

/-! ### generic Pairwise helpers -/

theorem pairwise_and {α : Type} {R S : α → α → Prop} {l : List α} :
    l.Pairwise (fun a b => R a b ∧ S a b) ↔ l.Pairwise R ∧ l.Pairwise S := by
  induction l with
  | nil => simp
  | cons a t ih =>
    simp only [List.pairwise_cons, ih]
    constructor
    · rintro ⟨h, h1, h2⟩
      exact ⟨⟨fun b hb => (h b hb).1, h1⟩, ⟨fun b hb => (h b hb).2, h2⟩⟩
    · rintro ⟨⟨h1, h2⟩, h3, h4⟩
      exact ⟨fun b hb => ⟨h1 b hb, h3 b hb⟩, h2, h4⟩

theorem pairwise_filter_iff {α : Type} {R S : α → α → Prop} {f : α → Bool}
    (hRS : ∀ a b, R a b ↔ (f a = true → f b = true → S a b)) {l : List α} :
    l.Pairwise R ↔ (l.filter f).Pairwise S := by
  induction l with
  | nil => simp
  | cons a t ih =>
    by_cases ha : f a = true
    · simp only [List.pairwise_cons, List.filter_cons, ha, if_true, ih, List.mem_filter]
      constructor
      · rintro ⟨h1, h2⟩
        exact ⟨fun b hb => (hRS a b).1 (h1 b hb.1) ha hb.2, h2⟩
      · rintro ⟨h1, h2⟩
        exact ⟨fun b hb => (hRS a b).2 (fun _ hfb => h1 b ⟨hb, hfb⟩), h2⟩
    · simp only [List.pairwise_cons, List.filter_cons, ha, ih]
      simp only [Bool.false_eq_true, if_false, and_iff_right_iff_imp]
      intro _ b _
      exact (hRS a b).2 (fun h => absurd h ha)

/-! ### filters of `Sorted.all` -/

section Filters
variable {s : Sorted} (bk : BucketKinds s)
include bk

theorem bk_va_toList : ∀ p ∈ s.va.toList, p.kind = .vp := by
  intro p hp
  cases h : s.va with
  | none => simp [h] at hp
  | some a => simp [h] at hp; rw [hp]; exact bk.va a h

theorem bk_vk_toList : ∀ p ∈ s.vk.toList, p.kind = .vk := by
  intro p hp
  cases h : s.vk with
  | none => simp [h] at hp
  | some a => simp [h] at hp; rw [hp]; exact bk.vk a h

theorem filter_all_of_kind (f : Param → Bool) (g : Kind → Bool) (hf : ∀ p, f p = g p.kind) :
    s.all.filter f =
      (if g .po then s.pos else []) ++ (if g .pk then s.pok else []) ++
      (if g .vp then s.va.toList else []) ++ (if g .ko then s.kwo else []) ++
      (if g .vk then s.vk.toList else []) := by
  have key : ∀ (l : List Param) (k : Kind), (∀ p ∈ l, p.kind = k) →
      l.filter f = if g k then l else [] := by
    intro l k hl
    by_cases hg : g k = true
    · rw [if_pos hg]; apply List.filter_eq_self.2
      intro p hp; rw [hf, hl p hp, hg]
    · rw [if_neg hg]; apply List.filter_eq_nil_iff.2
      intro p hp; rw [hf, hl p hp]; exact hg
  simp only [Sorted.all, List.filter_append]
  rw [key _ _ bk.pos, key _ _ bk.pok, key _ _ (bk_va_toList bk), key _ _ bk.kwo,
    key _ _ (bk_vk_toList bk)]

theorem positionals_all : positionals s.all = s.pos ++ s.pok := by
  unfold positionals
  rw [filter_all_of_kind bk isPositional (fun k => k = .po || k = .pk) (fun p => rfl)]
  simp

theorem filter_kwPassable_all : s.all.filter kwPassable = s.pok ++ s.kwo := by
  rw [filter_all_of_kind bk kwPassable (fun k => k = .pk || k = .ko) (fun p => rfl)]
  simp

theorem kwNames_all : kwNames s.all = names s.pok ++ names s.kwo := by
  unfold kwNames
  rw [filter_kwPassable_all bk]; simp [names]

theorem filter_isNamed_all : s.all.filter isNamed = s.pos ++ s.pok ++ s.kwo := by
  rw [filter_all_of_kind bk isNamed (fun k => k = .po || k = .pk || k = .ko) (fun p => rfl)]
  simp

theorem filter_vp_all : s.all.filter (fun p => p.kind = .vp) = s.va.toList := by
  rw [filter_all_of_kind bk _ (fun k => k = .vp) (fun p => rfl)]
  simp

theorem filter_vk_all : s.all.filter (fun p => p.kind = .vk) = s.vk.toList := by
  rw [filter_all_of_kind bk _ (fun k => k = .vk) (fun p => rfl)]
  simp

theorem hasVa_all : hasVa s.all = s.va.isSome := by
  unfold hasVa
  have : s.all.any (fun p => decide (p.kind = .vp)) = !(s.all.filter (fun p => p.kind = .vp)).isEmpty := by
    rw [Bool.eq_iff_iff]; simp [List.any_eq_true, List.filter_eq_nil_iff]
  rw [this, filter_vp_all bk]
  cases s.va <;> rfl

theorem hasVk_all : hasVk s.all = s.vk.isSome := by
  unfold hasVk
  have : s.all.any (fun p => decide (p.kind = .vk)) = !(s.all.filter (fun p => p.kind = .vk)).isEmpty := by
    rw [Bool.eq_iff_iff]; simp [List.any_eq_true, List.filter_eq_nil_iff]
  rw [this, filter_vk_all bk]
  cases s.vk <;> rfl

theorem rank_sorted_all : s.all.Pairwise (fun p q => p.kind.rank ≤ q.kind.rank) := by
  have hva := bk_va_toList bk
  have hvk := bk_vk_toList bk
  have const : ∀ (l : List Param) (k : Kind), (∀ p ∈ l, p.kind = k) →
      l.Pairwise (fun p q => p.kind.rank ≤ q.kind.rank) := by
    intro l k hl
    rw [List.pairwise_iff_forall_sublist]
    intro a b hab
    have ha := hl a (hab.subset (by simp))
    have hb := hl b (hab.subset (by simp))
    rw [ha, hb]; exact Nat.le_refl _
  simp only [Sorted.all, List.pairwise_append, List.mem_append]
  refine ⟨⟨⟨⟨const _ _ bk.pos, const _ _ bk.pok, ?_⟩, const _ _ hva, ?_⟩, const _ _ bk.kwo, ?_⟩,
    const _ _ hvk, ?_⟩
  · intro a ha b hb; rw [bk.pos a ha, bk.pok b hb]; decide
  · rintro a (ha | ha) b hb
    · rw [bk.pos a ha, hva b hb]; decide
    · rw [bk.pok a ha, hva b hb]; decide
  · rintro a ((ha | ha) | ha) b hb
    · rw [bk.pos a ha, bk.kwo b hb]; decide
    · rw [bk.pok a ha, bk.kwo b hb]; decide
    · rw [hva a ha, bk.kwo b hb]; decide
  · rintro a (((ha | ha) | ha) | ha) b hb
    · rw [bk.pos a ha, hvk b hb]; decide
    · rw [bk.pok a ha, hvk b hb]; decide
    · rw [hva a ha, hvk b hb]; decide
    · rw [bk.kwo a ha, hvk b hb]; decide

end Filters

/-! ### declarative well-formedness of a bucketed signature -/

def DF (p q : Param) : Prop := p.dflt.isSome = true → q.dflt.isSome = true

structure SWF (s : Sorted) : Prop where
  bk : BucketKinds s
  nd : (names s.all).Nodup
  df : (s.pos ++ s.pok).Pairwise DF

theorem pairwiseVR_all_iff {s : Sorted} (bk : BucketKinds s) :
    s.all.Pairwise VR ↔ (names s.all).Nodup ∧ (s.pos ++ s.pok).Pairwise DF := by
  unfold VR
  rw [pairwise_and, pairwise_and]
  have h1 : s.all.Pairwise (fun p q => p.name ≠ q.name) ↔ (names s.all).Nodup := by
    unfold names List.Nodup
    rw [List.pairwise_map]
  have h2 : s.all.Pairwise (fun p q => isPositional p = true → p.dflt.isSome = true →
      isPositional q = true → q.dflt.isSome = true) ↔ (s.pos ++ s.pok).Pairwise DF := by
    rw [← positionals_all bk]
    unfold positionals
    apply pairwise_filter_iff
    intro a b; unfold DF
    constructor
    · intro h ha hb hd; exact h ha hd hb
    · intro h ha hd hb; exact h ha hb hd
  rw [h1, h2]
  constructor
  · rintro ⟨-, a, b⟩; exact ⟨b, a⟩
  · rintro ⟨a, b⟩; exact ⟨rank_sorted_all bk, b, a⟩

theorem wf_all_iff {s : Sorted} (bk : BucketKinds s) : WF s.all ↔ SWF s := by
  unfold WF
  rw [validOk_iff, pairwiseVR_all_iff bk, filter_vp_all bk, filter_vk_all bk]
  constructor
  · rintro ⟨⟨a, b⟩, -, -⟩; exact ⟨bk, a, b⟩
  · rintro ⟨-, a, b⟩
    refine ⟨⟨a, b⟩, ?_, ?_⟩
    · cases s.va <;> simp
    · cases s.vk <;> simp

theorem SWF.wf {s : Sorted} (h : SWF s) : WF s.all := (wf_all_iff h.bk).2 h

theorem SWF.validate {s : Sorted} (h : SWF s) : validate s.all = .ok () :=
  (validate_ok_iff _).2 ((pairwiseVR_all_iff h.bk).2 ⟨h.nd, h.df⟩)

/-! ### sortGo -/

theorem mem_pset {d : List Param} {p q : Param} (h : q ∈ pset d p) : q ∈ d ∨ q = p := by
  induction d with
  | nil => simp [pset] at h; exact Or.inr h
  | cons a t ih =>
    unfold pset at h
    split at h
    · simp only [List.mem_cons] at h ⊢
      rcases h with h | h
      · exact Or.inr h
      · exact Or.inl (Or.inr h)
    · simp only [List.mem_cons] at h ⊢
      rcases h with h | h
      · exact Or.inl (Or.inl h)
      · rcases ih h with h | h
        · exact Or.inl (Or.inr h)
        · exact Or.inr h

/-- one step of `sortGo` -/
def sortStep (s : Sorted) (p : Param) : Sorted :=
  match p.kind with
  | .po => { s with pos := s.pos ++ [p] }
  | .pk => { s with pok := s.pok ++ [p] }
  | .vp => { s with va := some p }
  | .ko => { s with kwo := pset s.kwo p }
  | .vk => { s with vk := some p }

theorem sortGo_cons (p : Param) (ps : List Param) (s : Sorted) :
    sortGo (p :: ps) s = sortGo ps (sortStep s p) := rfl

theorem sortStep_bk {s : Sorted} (bk : BucketKinds s) (p : Param) : BucketKinds (sortStep s p) := by
  unfold sortStep
  cases hk : p.kind <;> simp only
  · refine ⟨?_, bk.pok, bk.va, bk.kwo, bk.vk⟩
    intro q hq; simp only [List.mem_append, List.mem_singleton] at hq
    rcases hq with hq | hq
    · exact bk.pos q hq
    · rw [hq]; exact hk
  · refine ⟨bk.pos, ?_, bk.va, bk.kwo, bk.vk⟩
    intro q hq; simp only [List.mem_append, List.mem_singleton] at hq
    rcases hq with hq | hq
    · exact bk.pok q hq
    · rw [hq]; exact hk
  · refine ⟨bk.pos, bk.pok, ?_, bk.kwo, bk.vk⟩
    intro q hq; cases hq; exact hk
  · refine ⟨bk.pos, bk.pok, bk.va, ?_, bk.vk⟩
    intro q hq
    rcases mem_pset hq with hq | hq
    · exact bk.kwo q hq
    · rw [hq]; exact hk
  · refine ⟨bk.pos, bk.pok, bk.va, bk.kwo, ?_⟩
    intro q hq; cases hq; exact hk

theorem sortGo_bk (ps : List Param) {s : Sorted} (bk : BucketKinds s) : BucketKinds (sortGo ps s) := by
  induction ps generalizing s with
  | nil => exact bk
  | cons p ps ih => rw [sortGo_cons]; exact ih (sortStep_bk bk p)

theorem sortStep_src (s : Sorted) (p : Param) :
    (sortStep s p).src = s.src ∧ (sortStep s p).depths = s.depths := by
  unfold sortStep; cases p.kind <;> simp

theorem sortGo_src (ps : List Param) (s : Sorted) :
    (sortGo ps s).src = s.src ∧ (sortGo ps s).depths = s.depths := by
  induction ps generalizing s with
  | nil => exact ⟨rfl, rfl⟩
  | cons p ps ih =>
    rw [sortGo_cons]
    have := sortStep_src s p
    rw [(ih _).1, (ih _).2, this.1, this.2]; exact ⟨rfl, rfl⟩

theorem sortStep_all {s : Sorted} (bk : BucketKinds s) (p : Param)
    (hrank : ∀ q ∈ s.all, q.kind.rank ≤ p.kind.rank)
    (hname : ∀ q ∈ s.all, q.name ≠ p.name)
    (hva : p.kind = .vp → s.va = none) (hvk : p.kind = .vk → s.vk = none) :
    (sortStep s p).all = s.all ++ [p] := by
  have mem_all : ∀ q, q ∈ s.all ↔ q ∈ s.pos ∨ q ∈ s.pok ∨ q ∈ s.va.toList ∨ q ∈ s.kwo ∨ q ∈ s.vk.toList := by
    intro q; simp [Sorted.all]
  have epok : p.kind.rank < 1 → s.pok = [] := by
    intro h; apply List.eq_nil_iff_forall_not_mem.2; intro q hq
    have := hrank q ((mem_all q).2 (Or.inr (Or.inl hq)))
    rw [bk.pok q hq] at this; have e : Kind.rank .pk = 1 := rfl; omega
  have eva : p.kind.rank < 2 → s.va = none := by
    intro h
    cases hv : s.va with
    | none => rfl
    | some a =>
      have := hrank a ((mem_all a).2 (Or.inr (Or.inr (Or.inl (by simp [hv])))))
      rw [bk.va a hv] at this; have e : Kind.rank .vp = 2 := rfl; omega
  have ekwo : p.kind.rank < 3 → s.kwo = [] := by
    intro h; apply List.eq_nil_iff_forall_not_mem.2; intro q hq
    have := hrank q ((mem_all q).2 (Or.inr (Or.inr (Or.inr (Or.inl hq)))))
    rw [bk.kwo q hq] at this; have e : Kind.rank .ko = 3 := rfl; omega
  have evk : p.kind.rank < 4 → s.vk = none := by
    intro h
    cases hv : s.vk with
    | none => rfl
    | some a =>
      have := hrank a ((mem_all a).2 (Or.inr (Or.inr (Or.inr (Or.inr (by simp [hv]))))))
      rw [bk.vk a hv] at this; have e : Kind.rank .vk = 4 := rfl; omega
  unfold sortStep
  cases hk : p.kind <;> simp only [hk, Kind.rank] at epok eva ekwo evk hva hvk ⊢
  · simp [Sorted.all, epok, eva, ekwo, evk]
  · simp [Sorted.all, eva, ekwo, evk]
  · simp [Sorted.all, hva, ekwo, evk]
  · have : pset s.kwo p = s.kwo ++ [p] := by
      apply pset_of_not_mem
      intro hm
      obtain ⟨q, hq, hqn⟩ := mem_names.1 hm
      exact hname q ((mem_all q).2 (Or.inr (Or.inr (Or.inr (Or.inl hq))))) hqn
    simp [Sorted.all, this, evk]
  · simp [Sorted.all, hvk]

theorem sortGo_all (ps : List Param) {s : Sorted} (bk : BucketKinds s)
    (hv : (s.all ++ ps).Pairwise VR)
    (hva : ((s.all ++ ps).filter (fun p => p.kind = .vp)).length ≤ 1)
    (hvk : ((s.all ++ ps).filter (fun p => p.kind = .vk)).length ≤ 1) :
    (sortGo ps s).all = s.all ++ ps := by
  induction ps generalizing s with
  | nil => simp [sortGo]
  | cons p ps ih =>
    rw [sortGo_cons]
    have hstep : (sortStep s p).all = s.all ++ [p] := by
      rw [List.pairwise_append] at hv
      apply sortStep_all bk p
      · intro q hq; exact (hv.2.2 q hq p (by simp)).1
      · intro q hq; exact (hv.2.2 q hq p (by simp)).2.2
      · intro hk
        cases hs : s.va with
        | none => rfl
        | some a =>
          exfalso
          rw [List.filter_append, filter_vp_all bk, hs] at hva
          simp [hk] at hva
      · intro hk
        cases hs : s.vk with
        | none => rfl
        | some a =>
          exfalso
          rw [List.filter_append, filter_vk_all bk, hs] at hvk
          simp [hk] at hvk
    have e : (sortStep s p).all ++ ps = s.all ++ p :: ps := by rw [hstep]; simp
    rw [ih (sortStep_bk bk p) (e ▸ hv) (e ▸ hva) (e ▸ hvk), e]

theorem bk_empty (src : Srcs) (d : Depths) : BucketKinds { src := src, depths := d } :=
  ⟨by simp, by simp, by simp, by simp, by simp⟩

theorem sortParams_bk (sig : USig) : BucketKinds (sortParams sig) := sortGo_bk _ (bk_empty _ _)

@[simp] theorem copyDepths_zero (d : Depths) : copyDepths d 0 = d := by
  unfold copyDepths; simp

theorem sortParams_src (sig : USig) :
    (sortParams sig).src = sig.src ∧ (sortParams sig).depths = sig.depths := by
  unfold sortParams
  have := sortGo_src sig.params { src := sig.src, depths := copyDepths sig.depths 0 }
  simpa using this

theorem sortParams_all {sig : USig} (hwf : WF sig.params) : (sortParams sig).all = sig.params := by
  unfold sortParams
  obtain ⟨h1, h2, h3⟩ := hwf
  rw [validOk_iff] at h1
  have := sortGo_all sig.params (bk_empty sig.src (copyDepths sig.depths 0))
    (by simpa [Sorted.all] using h1) (by simpa [Sorted.all] using h2) (by simpa [Sorted.all] using h3)
  simpa [Sorted.all] using this

theorem sortParams_swf {sig : USig} (hwf : WF sig.params) : SWF (sortParams sig) := by
  apply (wf_all_iff (sortParams_bk sig)).1
  rw [sortParams_all hwf]; exact hwf

theorem buckets_of_all_eq {a b : Sorted} (ha : BucketKinds a) (hb : BucketKinds b)
    (h : a.all = b.all) :
    a.pos = b.pos ∧ a.pok = b.pok ∧ a.va = b.va ∧ a.kwo = b.kwo ∧ a.vk = b.vk := by
  have toList_inj : ∀ x y : Option Param, x.toList = y.toList → x = y := by
    intro x y hxy; cases x <;> cases y <;> simp_all
  have e1 := filter_all_of_kind ha (fun p => p.kind = .po) (fun k => k = .po) (fun p => rfl)
  have e1' := filter_all_of_kind hb (fun p => p.kind = .po) (fun k => k = .po) (fun p => rfl)
  have e2 := filter_all_of_kind ha (fun p => p.kind = .pk) (fun k => k = .pk) (fun p => rfl)
  have e2' := filter_all_of_kind hb (fun p => p.kind = .pk) (fun k => k = .pk) (fun p => rfl)
  have e3 := filter_all_of_kind ha (fun p => p.kind = .ko) (fun k => k = .ko) (fun p => rfl)
  have e3' := filter_all_of_kind hb (fun p => p.kind = .ko) (fun k => k = .ko) (fun p => rfl)
  have e4 := filter_vp_all ha
  have e4' := filter_vp_all hb
  have e5 := filter_vk_all ha
  have e5' := filter_vk_all hb
  rw [h] at e1 e2 e3 e4 e5
  simp at e1 e1' e2 e2' e3 e3'
  refine ⟨e1.symm.trans e1', e2.symm.trans e2', toList_inj _ _ (e4.symm.trans e4'),
    e3.symm.trans e3', toList_inj _ _ (e5.symm.trans e5')⟩

/-- `sortGo` on the flattening of a bucketed signature gives the buckets back -/
theorem sortGo_of_all {s : Sorted} (h : SWF s) (src : Srcs) (d : Depths) :
    sortGo s.all { src := src, depths := d } = { s with src := src, depths := d } := by
  have bk0 := bk_empty src d
  have hwf := h.wf
  obtain ⟨h1, h2, h3⟩ := hwf
  rw [validOk_iff] at h1
  have hall := sortGo_all s.all bk0
    (by simpa [Sorted.all] using h1) (by simpa [Sorted.all] using h2) (by simpa [Sorted.all] using h3)
  have e0 : ({ src := src, depths := d } : Sorted).all = [] := by simp [Sorted.all]
  rw [e0, List.nil_append] at hall
  have hbk := sortGo_bk s.all bk0
  obtain ⟨a1, a2, a3, a4, a5⟩ := buckets_of_all_eq hbk h.bk hall
  obtain ⟨a6, a7⟩ := sortGo_src s.all { src := src, depths := d }
  generalize sortGo s.all { src := src, depths := d } = r at *
  cases r; cases s
  simp_all

end SV
