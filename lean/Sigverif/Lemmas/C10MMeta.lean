/-
  Lemmas/C10MMeta.lean — where the metadata (default, annotation, upgraded annotation) of every
  non-star parameter of a merge step comes from: `Orig`.
-/
import Sigverif.Lemmas.C10MSteps
import Sigverif.Lemmas.C08Merge
import Sigverif.Lemmas.Forall
namespace SV
set_option linter.unusedSimpArgs false
set_option linter.unusedVariables false

section
variable (Lc Rc lk rk : List Param)

/-- the origin of an entry `p` of a merge step whose operands have the positional chains `Lc`, `Rc`
    and the keyword-only buckets `lk`, `rk` -/
inductive Orig (p : Param) : Prop
  | pair (i : Nat) (lp rp : Param) (hl : Lc[i]? = some lp) (hr : Rc[i]? = some rp)
      (hn : p.name = lp.name) (hm : sameMeta p (concile lp rp))
  | pairR (i : Nat) (lp rp : Param) (hl : Lc[i]? = some lp) (hr : Rc[i]? = some rp)
      (hk : lp.kind = .pk ∧ rp.kind = .po)
      (hn : p.name = rp.name) (hm : sameMeta p (concile rp lp))
  | onlyL (i : Nat) (lp : Param) (hl : Lc[i]? = some lp) (hlen : Rc.length ≤ i)
      (hn : p.name = lp.name) (hm : sameMeta p lp)
  | onlyR (i : Nat) (rp : Param) (hr : Rc[i]? = some rp) (hlen : Lc.length ≤ i)
      (hn : p.name = rp.name) (hm : sameMeta p rp)
  | limboL (lp q : Param) (hl : lp ∈ Lc) (hq : q ∈ rk) (hqn : q.name = lp.name)
      (hn : p.name = lp.name) (hm : sameMeta p (concile lp q))
  | limboR (rp q : Param) (hr : rp ∈ Rc) (hq : q ∈ lk) (hqn : q.name = rp.name)
      (hn : p.name = rp.name) (hm : sameMeta p (concile rp q))
  | kw (lp q : Param) (hl : lp ∈ lk) (hq : q ∈ rk) (hqn : q.name = lp.name)
      (hn : p.name = lp.name) (hm : sameMeta p (concile lp q))
  | kwL (lp : Param) (hl : lp ∈ lk) (hun : ∀ q ∈ rk, q.name ≠ lp.name)
      (hn : p.name = lp.name) (hm : sameMeta p lp)
  | kwR (rp : Param) (hr : rp ∈ rk) (hun : ∀ q ∈ lk, q.name ≠ rp.name)
      (hn : p.name = rp.name) (hm : sameMeta p rp)

variable {Lc Rc lk rk}

theorem Orig.congr {p p' : Param} (hn' : p'.name = p.name) (hm' : sameMeta p' p) (h : Orig Lc Rc lk rk p) :
    Orig Lc Rc lk rk p' := by
  cases h with
  | pair i lp rp hl hr hn hm => exact .pair i lp rp hl hr (hn'.trans hn) (hm'.trans hm)
  | pairR i lp rp hl hr hk hn hm => exact .pairR i lp rp hl hr hk (hn'.trans hn) (hm'.trans hm)
  | onlyL i lp hl hlen hn hm => exact .onlyL i lp hl hlen (hn'.trans hn) (hm'.trans hm)
  | onlyR i rp hr hlen hn hm => exact .onlyR i rp hr hlen (hn'.trans hn) (hm'.trans hm)
  | limboL lp q hl hq hqn hn hm => exact .limboL lp q hl hq hqn (hn'.trans hn) (hm'.trans hm)
  | limboR rp q hr hq hqn hn hm => exact .limboR rp q hr hq hqn (hn'.trans hn) (hm'.trans hm)
  | kw lp q hl hq hqn hn hm => exact .kw lp q hl hq hqn (hn'.trans hn) (hm'.trans hm)
  | kwL lp hl hun hn hm => exact .kwL lp hl hun (hn'.trans hn) (hm'.trans hm)
  | kwR rp hr hun hn hm => exact .kwR rp hr hun (hn'.trans hn) (hm'.trans hm)

variable (Lc Rc lk rk)

/-- the invariant of the positional phases -/
structure XInv (xs ys : List Param) (b : Bk) : Prop where
  pre : ∃ pl pr : List Param, Lc = pl ++ xs ∧ Rc = pr ++ ys ∧
    (pl.length = pr.length ∨ (ys = [] ∧ pr.length ≤ pl.length) ∨ (xs = [] ∧ pl.length ≤ pr.length))
  pos : ∀ p ∈ b.pos, Orig Lc Rc lk rk p
  pok : ∀ p ∈ b.pok, Orig Lc Rc lk rk p
  kwo : ∀ p ∈ b.kwo, Orig Lc Rc lk rk p
  lUn : ∀ p ∈ b.lUn, p ∈ lk ∧ ∀ q ∈ rk, q.name ≠ p.name
  rUn : ∀ p ∈ b.rUn, p ∈ rk ∧ ∀ q ∈ lk, q.name ≠ p.name

variable {Lc Rc lk rk}

theorem x10_getElem_pre (pl : List Param) (x : Param) (xs : List Param) :
    (pl ++ x :: xs)[pl.length]? = some x := by simp

theorem x10_add_orig {e : Param} {b b' : Bk} (ha : Add e b b') (he : Orig Lc Rc lk rk e)
    (h1 : ∀ p ∈ b.pos, Orig Lc Rc lk rk p) (h2 : ∀ p ∈ b.pok, Orig Lc Rc lk rk p)
    (h3 : ∀ p ∈ b.kwo, Orig Lc Rc lk rk p) :
    (∀ p ∈ b'.pos, Orig Lc Rc lk rk p) ∧ (∀ p ∈ b'.pok, Orig Lc Rc lk rk p) ∧
    (∀ p ∈ b'.kwo, Orig Lc Rc lk rk p) ∧ b'.lUn = b.lUn ∧ b'.rUn = b.rUn := by
  cases ha with
  | pos hp =>
    refine ⟨?_, h2, h3, rfl, rfl⟩
    intro p hp
    simp only [List.mem_append, List.mem_singleton] at hp
    rcases hp with hp | rfl
    · exact h1 p hp
    · exact he
  | pok =>
    refine ⟨h1, ?_, h3, rfl, rfl⟩
    intro p hp
    simp only [List.mem_append, List.mem_singleton] at hp
    rcases hp with hp | rfl
    · exact h2 p hp
    · exact he
  | kwo =>
    refine ⟨h1, h2, ?_, rfl, rfl⟩
    intro p hp
    rcases mem_pset_Laws _ _ _ hp with hp | rfl
    · exact h3 p hp
    · exact he
  | flush =>
    refine ⟨?_, (by intro p hp; cases hp), h3, rfl, rfl⟩
    intro p hp
    simp only [List.mem_append, List.mem_map, List.mem_singleton] at hp
    rcases hp with (hp | ⟨x, hx, rfl⟩) | rfl
    · exact h1 p hp
    · exact Orig.congr (p := x) rfl (sameMeta_withKind _ _) (h2 x hx)
    · exact he

theorem x10_xinv_step (xs ys : List Param) (b : Bk) (xs' ys' : List Param) (b' : Bk)
    (s : XStep xs ys b xs' ys' b') (h : XInv Lc Rc lk rk xs ys b) : XInv Lc Rc lk rk xs' ys' b' := by
  obtain ⟨⟨pl, pr, eL, eR, hlen⟩, h1, h2, h3, h4, h5⟩ := h
  cases s with
  | both lp rp e xs1 ys1 b0 b1 hn hm ha =>
    have hlen' : pl.length = pr.length := by
      rcases hlen with h | ⟨h, _⟩ | ⟨h, _⟩
      · exact h
      · cases h
      · cases h
    have he : Orig Lc Rc lk rk e :=
      .pair pl.length lp rp (by rw [eL]; exact x10_getElem_pre _ _ _)
        (by rw [eR, hlen']; exact x10_getElem_pre _ _ _) hn hm
    obtain ⟨k1, k2, k3, k4, k5⟩ := x10_add_orig ha he h1 h2 h3
    exact ⟨⟨pl ++ [lp], pr ++ [rp], by simp [eL], by simp [eR], .inl (by simp [hlen'])⟩,
      k1, k2, k3, k4 ▸ h4, k5 ▸ h5⟩
  | bothR lp rp e xs1 ys1 b0 b1 hk hn hm ha =>
    have hlen' : pl.length = pr.length := by
      rcases hlen with h | ⟨h, _⟩ | ⟨h, _⟩
      · exact h
      · cases h
      · cases h
    have he : Orig Lc Rc lk rk e :=
      .pairR pl.length lp rp (by rw [eL]; exact x10_getElem_pre _ _ _)
        (by rw [eR, hlen']; exact x10_getElem_pre _ _ _) hk hn hm
    obtain ⟨k1, k2, k3, k4, k5⟩ := x10_add_orig ha he h1 h2 h3
    exact ⟨⟨pl ++ [lp], pr ++ [rp], by simp [eL], by simp [eR], .inl (by simp [hlen'])⟩,
      k1, k2, k3, k4 ▸ h4, k5 ▸ h5⟩
  | left lp e xs1 b0 b1 hn hm ha =>
    have hlen' : pr.length ≤ pl.length := by
      rcases hlen with h | ⟨_, h⟩ | ⟨h, _⟩
      · omega
      · exact h
      · cases h
    have he : Orig Lc Rc lk rk e :=
      .onlyL pl.length lp (by rw [eL]; exact x10_getElem_pre _ _ _) (by rw [eR]; simpa using hlen') hn hm
    obtain ⟨k1, k2, k3, k4, k5⟩ := x10_add_orig ha he h1 h2 h3
    exact ⟨⟨pl ++ [lp], pr, by simp [eL], eR, .inr (.inl ⟨rfl, by simp; omega⟩)⟩,
      k1, k2, k3, k4 ▸ h4, k5 ▸ h5⟩
  | leftDrop lp xs1 b0 =>
    have hlen' : pr.length ≤ pl.length := by
      rcases hlen with h | ⟨_, h⟩ | ⟨h, _⟩
      · omega
      · exact h
      · cases h
    exact ⟨⟨pl ++ [lp], pr, by simp [eL], eR, .inr (.inl ⟨rfl, by simp; omega⟩)⟩, h1, h2, h3, h4, h5⟩
  | leftLimbo lp q e xs1 b0 hq hn hm =>
    have hlen' : pr.length ≤ pl.length := by
      rcases hlen with h | ⟨_, h⟩ | ⟨h, _⟩
      · omega
      · exact h
      · cases h
    obtain ⟨q1, q2⟩ := pget_mem_name hq
    have he : Orig Lc Rc lk rk e :=
      .limboL lp q (by rw [eL]; simp) (h5 q q1).1 q2 hn hm
    refine ⟨⟨pl ++ [lp], pr, by simp [eL], eR, .inr (.inl ⟨rfl, by simp; omega⟩)⟩, h1, h2, ?_, h4, ?_⟩
    · intro p hp
      rcases mem_pset_Laws _ _ _ hp with hp | rfl
      · exact h3 p hp
      · exact he
    · intro p hp
      exact h5 p (List.mem_filter.1 hp).1
  | right rp e ys1 b0 b1 hn hm ha =>
    have hlen' : pl.length ≤ pr.length := by
      rcases hlen with h | ⟨h, _⟩ | ⟨_, h⟩
      · omega
      · cases h
      · exact h
    have he : Orig Lc Rc lk rk e :=
      .onlyR pr.length rp (by rw [eR]; exact x10_getElem_pre _ _ _) (by rw [eL]; simpa using hlen') hn hm
    obtain ⟨k1, k2, k3, k4, k5⟩ := x10_add_orig ha he h1 h2 h3
    exact ⟨⟨pl, pr ++ [rp], eL, by simp [eR], .inr (.inr ⟨rfl, by simp; omega⟩)⟩,
      k1, k2, k3, k4 ▸ h4, k5 ▸ h5⟩
  | rightDrop rp ys1 b0 =>
    have hlen' : pl.length ≤ pr.length := by
      rcases hlen with h | ⟨h, _⟩ | ⟨_, h⟩
      · omega
      · cases h
      · exact h
    exact ⟨⟨pl, pr ++ [rp], eL, by simp [eR], .inr (.inr ⟨rfl, by simp; omega⟩)⟩, h1, h2, h3, h4, h5⟩
  | rightLimbo rp q e ys1 b0 hq hn hm =>
    have hlen' : pl.length ≤ pr.length := by
      rcases hlen with h | ⟨h, _⟩ | ⟨_, h⟩
      · omega
      · cases h
      · exact h
    obtain ⟨q1, q2⟩ := pget_mem_name hq
    have he : Orig Lc Rc lk rk e :=
      .limboR rp q (by rw [eR]; simp) (h4 q q1).1 q2 hn hm
    refine ⟨⟨pl, pr ++ [rp], eL, by simp [eR], .inr (.inr ⟨rfl, by simp; omega⟩)⟩, h1, h2, ?_, ?_, h5⟩
    · intro p hp
      rcases mem_pset_Laws _ _ _ hp with hp | rfl
      · exact h3 p hp
      · exact he
    · intro p hp
      exact h4 p (List.mem_filter.1 hp).1

/-! ### phase K -/

/-- what phase K establishes -/
structure KInv (Lc Rc lk rk : List Param) (st : MState) : Prop where
  kwo : ∀ p ∈ st.kwo, Orig Lc Rc lk rk p
  lUn : ∀ p ∈ st.lUn, p ∈ lk ∧ ∀ q ∈ rk, q.name ≠ p.name
  rUn : ∀ p ∈ st.rUn, p ∈ rk ∧ ∀ q ∈ lk, q.name ≠ p.name

theorem x10_pget_none {d : List Param} {k : Nat} (h : pget d k = none) : ∀ q ∈ d, q.name ≠ k := by
  intro q hq
  have := List.find?_eq_none.1 h q hq
  simpa using this

theorem x10_phas_false {d : List Param} {k : Nat} (h : ¬ phas d k = true) : ∀ q ∈ d, q.name ≠ k := by
  intro q hq e
  apply h
  simp only [phas, List.any_eq_true, decide_eq_true_eq]
  exact ⟨q, hq, e⟩

theorem x10_phaseK1_inv (l r : Sorted) (ps : List Param) (st : MState)
    (hps : ∀ p ∈ ps, p ∈ l.kwo) (hst : KInv Lc Rc l.kwo r.kwo st) :
    KInv Lc Rc l.kwo r.kwo (phaseK1 l r ps st) := by
  induction ps generalizing st with
  | nil => exact hst
  | cons p ps ih =>
    simp only [phaseK1]
    have hp := hps p (by simp)
    have hps' : ∀ q ∈ ps, q ∈ l.kwo := fun q hq => hps q (by simp [hq])
    split
    · rename_i q hq
      obtain ⟨q1, q2⟩ := pget_mem_name hq
      apply ih _ hps'
      refine { hst with kwo := ?_ }
      intro x hx
      rcases mem_pset_Laws _ _ _ hx with hx | rfl
      · exact hst.kwo x hx
      · exact .kw p q hp q1 q2 rfl (sameMeta.rfl' _)
    · rename_i hq
      apply ih _ hps'
      refine { hst with lUn := ?_ }
      intro x hx
      rcases mem_pset_Laws _ _ _ hx with hx | rfl
      · exact hst.lUn x hx
      · exact ⟨hp, x10_pget_none hq⟩

theorem x10_phaseK2_inv (l : Sorted) (rk : List Param) (ps : List Param) (st : MState)
    (hps : ∀ p ∈ ps, p ∈ rk) (hst : KInv Lc Rc l.kwo rk st) :
    KInv Lc Rc l.kwo rk (phaseK2 l ps st) := by
  induction ps generalizing st with
  | nil => exact hst
  | cons p ps ih =>
    simp only [phaseK2]
    have hp := hps p (by simp)
    have hps' : ∀ q ∈ ps, q ∈ rk := fun q hq => hps q (by simp [hq])
    split
    · exact ih _ hps' hst
    · rename_i hq
      apply ih _ hps'
      refine { hst with rUn := ?_ }
      intro x hx
      rcases mem_pset_Laws _ _ _ hx with hx | rfl
      · exact hst.rUn x hx
      · exact ⟨hp, x10_phas_false hq⟩

/-! ### one merge step -/

/-- **origin of the metadata**: every non-star parameter of the result of a merge step is
    described by `Orig` -/
theorem x10_mergeStep_orig (l r s : Sorted) (bl : BucketKinds l) (br : BucketKinds r)
    (h : mergeStep l r = .ok s) :
    ∀ p, (p ∈ s.pos ∨ p ∈ s.pok ∨ p ∈ s.kwo) → Orig (l.pos ++ l.pok) (r.pos ++ r.pok) l.kwo r.kwo p := by
  obtain ⟨st1, st2, st3, st4, il, ir, h1, h2, h3, h4, rfl⟩ := mergeStep_ok l r s h
  generalize hst0 : ({ vaL := l.va.isSome, vaR := r.va.isSome, vkL := l.vk.isSome,
                       vkR := r.vk.isSome } : MState) = st0 at h1
  have k0 : KInv (l.pos ++ l.pok) (r.pos ++ r.pok) l.kwo r.kwo st0 := by
    subst hst0
    constructor <;> (intro p hp; cases hp)
  have hst0pos : st0.pos = [] := by rw [← hst0]
  have hst0pok : st0.pok = [] := by rw [← hst0]
  have kK := x10_phaseK2_inv l r.kwo r.kwo _ (fun p hp => hp)
    (x10_phaseK1_inv l r l.kwo st0 (fun p hp => hp) k0)
  generalize hstK : phaseK2 l r.kwo (phaseK1 l r l.kwo st0) = stK at h1 kK
  have kpos : stK.pos = [] := by
    rw [← hstK, (phaseK2_cnt l r.kwo _ 0).1, (phaseK1_cnt l r l.kwo st0 0).1, hst0pos]
  have kpok : stK.pok = [] := by
    rw [← hstK, (phaseK2_cnt l r.kwo _ 0).2.1, (phaseK1_cnt l r l.kwo st0 0).2.1, hst0pok]
  have steps : XSteps (l.pos ++ l.pok) (r.pos ++ r.pok) stK.bk [] [] st2.bk :=
    (x10_run_P l r _ _ _ _ _ _ _ _ kpok br.pos bl.pok h1).trans (x10_run_Q l r _ _ _ _ h2)
  have i0 : XInv (l.pos ++ l.pok) (r.pos ++ r.pok) l.kwo r.kwo (l.pos ++ l.pok) (r.pos ++ r.pok) stK.bk := by
    refine ⟨⟨[], [], by simp, by simp, .inl rfl⟩, ?_, ?_, kK.kwo, kK.lUn, kK.rUn⟩
    · intro p hp; simp [MState.bk, kpos] at hp
    · intro p hp; simp [MState.bk, kpok] at hp
  have i2 := XSteps.inv (XInv (l.pos ++ l.pok) (r.pos ++ r.pok) l.kwo r.kwo) x10_xinv_step steps i0
  have a2 : StAll (Orig (l.pos ++ l.pok) (r.pos ++ r.pok) l.kwo r.kwo) st2 := by
    refine ⟨i2.pos, i2.pok, i2.kwo, ?_, ?_⟩
    · intro p hp
      obtain ⟨q1, q2⟩ := i2.lUn p hp
      exact .kwL p q1 q2 rfl (sameMeta.rfl' _)
    · intro p hp
      obtain ⟨q1, q2⟩ := i2.rUn p hp
      exact .kwR p q1 q2 rfl (sameMeta.rfl' _)
  have a3 := mergeUnmatched_all _ _ _ _ _ a2 h3
  have a4 := mergeUnmatched_all _ _ _ _ _ a3 h4
  intro p hp
  rcases hp with hp | hp | hp
  · exact a4.pos p hp
  · exact a4.pok p hp
  · exact a4.kwo p hp

end
end SV
