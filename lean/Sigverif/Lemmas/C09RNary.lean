/-
  Lemmas/C09RNary.lean — the n-ary RAISES theorem: the invariant "every input so far accepts the
  all-positional call with `n` arguments, and so does the accumulator" carried through `mergeFold`
  for role-consistent inputs.
-/
import Sigverif.Lemmas.C09RNaryZip
namespace SV
variable {l r : Sorted} {n : Nat}

/-! ### one step -/

theorem mergeUnmatched_L_kwo {st st' : MState} (h : mergeUnmatched .L l r st = .ok st') :
    st'.pos = st.pos ∧ st'.pok = st.pok ∧ st'.lUn = st.lUn ∧ st'.rUn = st.rUn ∧
    ∀ p ∈ st'.kwo, p ∈ st.kwo ∨ p ∈ st.lUn := by
  rcases mergeUnmatched_L_inv h with ⟨-, hu⟩ | ⟨-, hu⟩ | ⟨-, hu⟩
  · exact ⟨hu.1, hu.2.1, hu.2.2.2.1, hu.2.2.2.2, fun p hp => Or.inl (hu.2.2.1 ▸ hp)⟩
  · refine ⟨hu.1, hu.2.1, hu.2.2.2.1, hu.2.2.2.2, fun p hp => ?_⟩
    rw [hu.2.2.1] at hp
    exact mem_pupdate _ _ _ hp
  · exact ⟨hu.1, hu.2.1, hu.2.2.2.1, hu.2.2.2.2, fun p hp => Or.inl (hu.2.2.1 ▸ hp)⟩

theorem mergeUnmatched_R_kwo {st st' : MState} (h : mergeUnmatched .R l r st = .ok st') :
    st'.pos = st.pos ∧ st'.pok = st.pok ∧ st'.lUn = st.lUn ∧ st'.rUn = st.rUn ∧
    ∀ p ∈ st'.kwo, p ∈ st.kwo ∨ p ∈ st.rUn := by
  rcases mergeUnmatched_R_inv h with ⟨-, hu⟩ | ⟨-, hu⟩ | ⟨-, hu⟩
  · exact ⟨hu.1, hu.2.1, hu.2.2.2.1, hu.2.2.2.2, fun p hp => Or.inl (hu.2.2.1 ▸ hp)⟩
  · refine ⟨hu.1, hu.2.1, hu.2.2.2.1, hu.2.2.2.2, fun p hp => ?_⟩
    rw [hu.2.2.1] at hp
    exact mem_pupdate _ _ _ hp
  · exact ⟨hu.1, hu.2.1, hu.2.2.2.1, hu.2.2.2.2, fun p hp => Or.inl (hu.2.2.1 ▸ hp)⟩

/-- **completeness of one step for all-positional calls**, and where the names of the `pok` and
    `kwo` buckets of the result come from.  `NL1`/`NL2` keep the keyword-only limbo from swallowing
    a positional parameter below index `n`. -/
theorem mergeStep_posI {m : Sorted} (hlk : (names l.kwo).Nodup) (hrk : (names r.kwo).Nodup)
    (h : mergeStep l r = .ok m) (al : accPosI l n) (ar : accPosI r n)
    (NL1 : ∀ x ∈ names l.pok, x ∉ names r.kwo)
    (NL2 : l.va.isSome = true → ∀ x ∈ names r.pok, x ∉ names l.kwo) :
    accPosI m n ∧ (∀ x ∈ names m.pok, x ∈ names l.pok ∨ x ∈ names r.pok) ∧
    (m.va.isSome = true → ∀ x ∈ names m.kwo, x ∈ names l.kwo ∨ x ∈ names r.kwo) := by
  obtain ⟨st1, il, ir, st2, st3, st4, h1, h2, h3, h4, e1, e2, e3, e4, -⟩ := mergeStep_inv h
  obtain ⟨k1, k2, k3, k4, k5⟩ := stK_upd (l := l) (r := r) hlk hrk
  obtain ⟨a1, a2, a3⟩ := al
  obtain ⟨b1, b2, b3⟩ := ar
  have Z0 : ZInv l r n 0 (stK l r) := by
    refine ⟨?_, ?_, ?_, ?_, ?_, ?_, ?_, ?_⟩
    · rw [rq_eq k1 k2]; simp
    · simp
    · rw [rq_eq k1 k2]; simp
    · rw [k3]; rintro ⟨p, hp, hr⟩
      obtain ⟨a, ha, q, hq, rfl⟩ := mem_kwoK.1 hp
      rw [concile_required, Bool.or_eq_true] at hr
      rcases hr with hr | hr
      · exact a3 ⟨a, ha, hr⟩
      · exact b3 ⟨q, (pget_some_C01 hq).1, hr⟩
    · rw [k4]; intro p hp; exact (mem_lUnK.1 hp).1
    · rw [k5]; intro p hp; exact (mem_rUnK.1 hp).1
    · rw [k2]; simp
    · rw [k3]; intro _ _ x hx; exact Or.inl (mem_names_kwoK hx).1
  have RX0 : Rem n 0 l.va.isSome (l.pos ++ l.pok) :=
    ⟨fun j p hj hr => by have := a1 j p hj hr; omega, by simpa using a2⟩
  have RY0 : Rem n 0 r.va.isSome (r.pos ++ r.pok) :=
    ⟨fun j p hj hr => by have := b1 j p hj hr; omega, by simpa using b2⟩
  obtain ⟨c1, Z1, RX1, RY1, -⟩ := phaseP_Z _ _ _ _ _ _ _ _ h1 0 k2 Z0 RX0 RY0
  have S := phaseP_spec _ _ _ _ _ _ _ _ h1
  obtain ⟨cl, hcl⟩ := S.sufl
  obtain ⟨cr, hcr⟩ := S.sufr
  obtain ⟨c2, Z2, RX2, RY2⟩ := phaseQ_Z il ir st1 st2 h2 c1 Z1 RX1 RY1
    (fun p hp => hcl ▸ List.mem_append_right _ hp) (fun p hp => hcr ▸ List.mem_append_right _ hp)
    NL1 NL2 a3
  obtain ⟨u1, u2, u3, u4, u5⟩ := mergeUnmatched_L_kwo h3
  obtain ⟨v1, v2, -, -, v5⟩ := mergeUnmatched_R_kwo h4
  have hpos : m.pos = st2.pos := e1.trans (v1.trans u1)
  have hpok : m.pok = st2.pok := e2.trans (v2.trans u2)
  have hkwo : ∀ p ∈ m.kwo, p ∈ st2.kwo ∨ p ∈ l.kwo ∨ p ∈ r.kwo := by
    intro p hp
    rw [e3] at hp
    rcases v5 p hp with hp | hp
    · rcases u5 p hp with hp | hp
      · exact Or.inl hp
      · exact Or.inr (Or.inl (Z2.lun p hp))
    · rw [u4] at hp
      exact Or.inr (Or.inr (Z2.run p hp))
  have hva : m.va.isSome = (l.va.isSome && r.va.isSome) := by rw [e4, addStarargs_isSome]
  have hlen : (rq_C09R st2).length = m.pos.length + m.pok.length := by
    rw [hpos, hpok, rq_C09R]; simp
  refine ⟨⟨?_, ?_, ?_⟩, ?_, ?_⟩
  · intro i p hi hr
    apply Z2.req i
    rw [rq_C09R, ← hpos, ← hpok, List.getElem?_map, hi]
    simp [hr]
  · by_cases hn : n ≤ c2
    · left
      have := Z2.keep
      omega
    · right
      rw [hva]
      have x1 : l.va.isSome = true := by
        rcases RX2.2 with h | h
        · simp only [List.length_nil] at h; omega
        · exact h
      have x2 : r.va.isSome = true := by
        rcases RY2.2 with h | h
        · simp only [List.length_nil] at h; omega
        · exact h
      simp [x1, x2]
  · rintro ⟨p, hp, hr⟩
    rcases hkwo p hp with hp | hp | hp
    · exact Z2.kw ⟨p, hp, hr⟩
    · exact a3 ⟨p, hp, hr⟩
    · exact b3 ⟨p, hp, hr⟩
  · rw [hpok]; exact Z2.pokN
  · intro hv x hx
    rw [hva, Bool.and_eq_true] at hv
    obtain ⟨p, hp, rfl⟩ := mem_names_C01.1 hx
    rcases hkwo p hp with hp | hp | hp
    · exact Z2.kwoN hv.1 hv.2 _ (mem_names_of_mem_C01 hp)
    · exact Or.inl (mem_names_of_mem_C01 hp)
    · exact Or.inr (mem_names_of_mem_C01 hp)

/-! ### the fold -/

/-- the invariant of the accumulator: it accepts `n` positionals, its `pok` names are `pok` names
    of an input seen so far, and as long as it has `*args` its `kwo` names are `kwo` names of an
    input seen so far (no positional parameter has been turned into a keyword-only one) -/
structure FInv_C09R (S : List USig) (acc : Sorted) (n : Nat) : Prop where
  bk : BucketKinds acc
  nd : KwInv acc
  ok : accPosI acc n
  o1 : ∀ x ∈ names acc.pok, ∃ s ∈ S, x ∈ names (sortParams s).pok
  o2 : acc.va.isSome = true → ∀ x ∈ names acc.kwo, ∃ s ∈ S, x ∈ names (sortParams s).kwo

theorem KwInv.kwo_nodup {B : Sorted} (h : KwInv B) : (names B.kwo).Nodup := by
  unfold KwInv at h
  simp only [names_append_C01, List.nodup_append] at h
  exact h.2.1

theorem mergeFold_err_nary (all : List USig)
    (hv : ∀ s ∈ all, validate s.params = .ok ())
    (cross : ∀ s ∈ all, ∀ t ∈ all, ∀ x ∈ names (sortParams s).pok, x ∉ names (sortParams t).kwo)
    (ss S : List USig) (acc : Sorted) (e : Err)
    (hS : ∀ s ∈ S, s ∈ all) (hss : ∀ s ∈ ss, s ∈ all)
    (F : FInv_C09R S acc n) (hn : ∀ s ∈ ss, accPosB (sortParams s) n)
    (h : mergeFold acc ss = .error e) : False := by
  induction ss generalizing acc S with
  | nil => cases h
  | cons s ss ih =>
    have hs : s ∈ all := hss s List.mem_cons_self
    have hvs := hv s hs
    have SF := sortParams_facts s hvs
    have ai : accPosI (sortParams s) n :=
      accPosI_of_accPosB (optSuffix_sort_C09R s hvs) (hn s List.mem_cons_self)
    simp only [mergeFold] at h
    cases hm : mergeStep acc (sortParams s) with
    | error e' =>
      exact mergeStep_err_no_posI F.nd.kwo_nodup SF.nd.kwo_nodup hm n ⟨F.ok, ai⟩
    | ok m =>
      rw [hm] at h
      simp only at h
      have SFacts := mergeStep_facts F.bk SF.bk F.nd SF.nd hm
      obtain ⟨m1, m2, m3⟩ := mergeStep_posI F.nd.kwo_nodup SF.nd.kwo_nodup hm F.ok ai
        (by
          intro x hx
          obtain ⟨t, ht, hxt⟩ := F.o1 x hx
          exact cross t (hS t ht) s hs x hxt)
        (by
          intro hva x hx hx'
          obtain ⟨t, ht, hxt⟩ := F.o2 hva x hx'
          exact cross s hs t (hS t ht) x hx hxt)
      refine ih (s :: S) m ?_ (fun t ht => hss t (List.mem_cons_of_mem _ ht))
        ⟨SFacts.bk, SFacts.nd, m1, ?_, ?_⟩ (fun t ht => hn t (List.mem_cons_of_mem _ ht)) h
      · intro t ht
        rcases List.mem_cons.1 ht with rfl | ht
        · exact hs
        · exact hS t ht
      · intro x hx
        rcases m2 x hx with hx | hx
        · obtain ⟨t, ht, hxt⟩ := F.o1 x hx
          exact ⟨t, List.mem_cons_of_mem _ ht, hxt⟩
        · exact ⟨s, List.mem_cons_self, hx⟩
      · intro hva x hx
        have hva' : acc.va.isSome = true := by
          rw [SFacts.va, Bool.and_eq_true] at hva; exact hva.1
        rcases m3 hva x hx with hx | hx
        · obtain ⟨t, ht, hxt⟩ := F.o2 hva' x hx
          exact ⟨t, List.mem_cons_of_mem _ ht, hxt⟩
        · exact ⟨s, List.mem_cons_self, hx⟩

/-! ### `merge` -/

/-- role-consistent valid inputs: a `pk` name of one is not a `ko` name of another -/
theorem cross_of_roleCons (ss : List USig) (hv : ∀ s ∈ ss, validate s.params = .ok ())
    (hrc : roleCons (ss.map (·.params))) :
    ∀ s ∈ ss, ∀ t ∈ ss, ∀ x ∈ names (sortParams s).pok, x ∉ names (sortParams t).kwo := by
  intro s hs t ht x hx hx'
  have Fs := sortParams_facts s (hv s hs)
  have Ft := sortParams_facts t (hv t ht)
  rw [Fs.pok] at hx
  rw [Ft.kwo] at hx'
  obtain ⟨p, hp, rfl⟩ := mem_names_C01.1 hx
  obtain ⟨q, hq, hqn⟩ := mem_names_C01.1 hx'
  obtain ⟨hp1, hp2⟩ := List.mem_filter.1 hp
  obtain ⟨hq1, hq2⟩ := List.mem_filter.1 hq
  have := (hrc s.params (List.mem_map.2 ⟨s, hs, rfl⟩) t.params (List.mem_map.2 ⟨t, ht, rfl⟩) p.name
    (mem_names_of_mem_C01 hp1) (hqn ▸ mem_names_of_mem_C01 hq1)).1
  rw [kindOf_mem (validate_nodup_C01 (hv s hs)) hp1, ← hqn,
    kindOf_mem (validate_nodup_C01 (hv t ht)) hq1] at this
  simp only [decide_eq_true_eq] at hp2 hq2
  rw [hp2, hq2] at this
  cases this

/-- **n-ary RAISES**: when `merge` of role-consistent valid inputs raises IncompatibleSignatures,
    no call whose keywords are foreign to every input is accepted by all inputs -/
theorem merge_incompatible_nary' (ss : List USig) (hwf : ∀ s ∈ ss, WF s.params)
    (hrc : roleCons (ss.map (·.params))) (hE : merge ss = .error .incompatible) :
    ∀ (n : Nat) (K : List Nat), foreignTo (ss.map (·.params)) K →
      ¬ ∀ s ∈ ss, accepts s.params n K = true := by
  intro n K hf hall
  have hv : ∀ s ∈ ss, validate s.params = .ok () := fun s hs => WF_validate (hwf s hs)
  have hpos : ∀ s ∈ ss, accPosB (sortParams s) n := by
    intro s hs
    exact accPosB_of_accepts_C09R s (hwf s hs)
      (accepts_foreign_pos (fun k hk => hf k hk _ (List.mem_map.2 ⟨s, hs, rfl⟩)) (hall s hs))
  cases ss with
  | nil => simp [merge] at hE
  | cons s0 rest =>
    have hv0 := hv s0 List.mem_cons_self
    have S0 := sortParams_facts s0 hv0
    cases hm : mergeFold (sortParams s0) rest with
    | error e' =>
      refine mergeFold_err_nary (n := n) (s0 :: rest) hv (cross_of_roleCons _ hv hrc) rest [s0]
        (sortParams s0) e' (by simp) (fun s hs => List.mem_cons_of_mem _ hs)
        ⟨S0.bk, S0.nd,
          accPosI_of_accPosB (optSuffix_sort_C09R s0 hv0) (hpos s0 List.mem_cons_self),
          fun x hx => ⟨s0, List.mem_cons_self, hx⟩, fun _ x hx => ⟨s0, List.mem_cons_self, hx⟩⟩
        (fun s hs => hpos s (List.mem_cons_of_mem _ hs)) hm
    | ok res =>
      simp only [merge, hm, bind, Except.bind] at hE
      have := applyParams_err _ _ _ hE
      cases this

end SV
