/-
  Lemmas/C08Merge.lean — provenance invariant of one merge step (C08).

  `SrcOK l r st` : the source map built so far has exactly one entry per parameter held
  in the state's buckets, no entry is empty, and every callable listed for a name is
  listed for that same name by one of the two operands.
-/
import Sigverif.Lemmas.LawsKinds
import Sigverif.Lemmas.SrcDict
namespace SV
set_option linter.unusedSimpArgs false
set_option linter.unusedVariables false

/-! ### names of dictionaries of parameters -/

theorem mem_names_pset (d : List Param) (p : Param) (k : Nat) :
    k ∈ names (pset d p) ↔ k ∈ names d ∨ k = p.name := by
  induction d with
  | nil => simp [pset, names]
  | cons q t ih =>
    simp only [pset]
    split
    · rename_i hq
      simp only [names, List.map_cons, List.mem_cons] at ih ⊢
      constructor
      · rintro (h | h)
        · exact .inr h
        · exact .inl (.inr h)
      · rintro ((h | h) | h)
        · exact .inl (h.trans hq)
        · exact .inr h
        · exact .inl h
    · simp only [names, List.map_cons, List.mem_cons] at ih ⊢
      rw [ih]
      constructor
      · rintro (h | h | h)
        · exact .inl (.inl h)
        · exact .inl (.inr h)
        · exact .inr h
      · rintro ((h | h) | h)
        · exact .inl h
        · exact .inr (.inl h)
        · exact .inr (.inr h)

theorem mem_names_pupdate (d e : List Param) (k : Nat) :
    k ∈ names (pupdate d e) ↔ k ∈ names d ∨ k ∈ names e := by
  unfold pupdate
  induction e generalizing d with
  | nil => simp [names]
  | cons p t ih =>
    simp only [List.foldl_cons]
    rw [ih, mem_names_pset]
    simp only [names, List.map_cons, List.mem_cons]
    constructor
    · rintro ((h | h) | h)
      · exact .inl h
      · exact .inr (.inl h)
      · exact .inr (.inr h)
    · rintro (h | h | h)
      · exact .inl (.inl h)
      · exact .inl (.inr h)
      · exact .inr h

theorem names_append (a b : List Param) : names (a ++ b) = names a ++ names b := by
  simp [names]

theorem names_map_withKind (ps : List Param) (k : Kind) : names (ps.map (·.withKind k)) = names ps := by
  simp [names, Param.withKind]

theorem names_singleton (x : Param) : names [x] = [x.name] := rfl

theorem mem_names_of_mem_C08 {p : Param} {ps : List Param} (h : p ∈ ps) : p.name ∈ names ps :=
  List.mem_map.2 ⟨p, h, rfl⟩

/-! ### the invariant -/

def MState.held (st : MState) : List Nat := names st.pos ++ names st.pok ++ names st.kwo

/-- every parameter of the list has a non-empty entry in the source map -/
def Sourced (s : Srcs) (ps : List Param) : Prop := ∀ p ∈ ps, sget s p.name ≠ []

theorem Sourced.tail {s : Srcs} {p : Param} {ps : List Param} (h : Sourced s (p :: ps)) : Sourced s ps :=
  fun q hq => h q (by simp [hq])
theorem Sourced.head {s : Srcs} {p : Param} {ps : List Param} (h : Sourced s (p :: ps)) :
    sget s p.name ≠ [] := h p (by simp)
theorem Sourced.pset {s : Srcs} {p : Param} {ps : List Param} (h : Sourced s ps) (hp : sget s p.name ≠ []) :
    Sourced s (pset ps p) := by
  intro q hq
  rcases mem_pset_Laws _ _ _ hq with hq | rfl
  · exact h q hq
  · exact hp
theorem Sourced.ppop {s : Srcs} {ps : List Param} (n : Nat) (h : Sourced s ps) : Sourced s (ppop ps n) :=
  fun q hq => h q (List.mem_filter.1 hq).1
theorem Sourced.nil (s : Srcs) : Sourced s [] := by intro p hp; cases hp

structure SrcOK (l r : Sorted) (st : MState) : Prop where
  keys : ∀ k, dhas st.src k = true ↔ k ∈ st.held
  ne   : ∀ k, k ∈ st.held → sget st.src k ≠ []
  mem  : ∀ k f, f ∈ sget st.src k → f ∈ sget l.src k ∨ f ∈ sget r.src k
  lun  : Sourced l.src st.lUn
  run  : Sourced r.src st.rUn

/-- the source map and the held names both gain (at most) the name `n`, whose entry
    becomes `X` -/
theorem SrcOK.step {l r : Sorted} {st st' : MState} (h : SrcOK l r st) (n : Nat) (X : List Nat)
    (hs : ∀ k, sget st'.src k = if k = n then X else sget st.src k)
    (hd : ∀ k, dhas st'.src k = (decide (k = n) || dhas st.src k))
    (hheld : ∀ k, k ∈ st'.held ↔ (k = n ∨ k ∈ st.held))
    (hX : X ≠ [])
    (hXm : ∀ f ∈ X, f ∈ sget l.src n ∨ f ∈ sget r.src n)
    (hl : Sourced l.src st'.lUn) (hr : Sourced r.src st'.rUn) : SrcOK l r st' := by
  refine ⟨?_, ?_, ?_, hl, hr⟩
  · intro k
    rw [hd, hheld, ← h.keys]
    by_cases hk : k = n <;> simp [hk]
  · intro k hk
    rw [hs]
    by_cases hkn : k = n
    · simp [hkn, hX]
    · simp only [hkn, if_false]
      rcases (hheld k).1 hk with h1 | h1
      · exact absurd h1 hkn
      · exact h.ne k h1
  · intro k f hf
    rw [hs] at hf
    by_cases hkn : k = n
    · subst hkn
      simp only [if_true] at hf
      exact hXm f hf
    · simp only [hkn, if_false] at hf
      exact h.mem k f hf

/-- `addSources` onto an invariant-satisfying state -/
theorem SrcOK.add {l r : Sorted} {st st' : MState} (h : SrcOK l r st) (n : Nat) (frm : List Srcs)
    (hsrc : st'.src = addSources st.src n frm)
    (hheld : ∀ k, k ∈ st'.held ↔ (k = n ∨ k ∈ st.held))
    (hfrm : ∀ s ∈ frm, s = l.src ∨ s = r.src)
    (hne : ∃ s ∈ frm, sget s n ≠ [])
    (hl : Sourced l.src st'.lUn) (hr : Sourced r.src st'.rUn) : SrcOK l r st' := by
  apply h.step n (sget st.src n ++ (frm.map (fun s => sget s n)).flatten)
  · intro k; rw [hsrc, sget_addSources]
  · intro k; rw [hsrc, dhas_addSources]
  · exact hheld
  · obtain ⟨s, hs, hsn⟩ := hne
    intro he
    simp only [List.append_eq_nil_iff, List.flatten_eq_nil_iff, List.mem_map] at he
    exact hsn (he.2 _ ⟨s, hs, rfl⟩)
  · intro f hf
    simp only [List.mem_append, List.mem_flatten, List.mem_map] at hf
    rcases hf with hf | ⟨_, ⟨s, hs, rfl⟩, hf⟩
    · exact h.mem n f hf
    · rcases hfrm s hs with rfl | rfl
      · exact .inl hf
      · exact .inr hf
  · exact hl
  · exact hr

/-- nothing about sources or held names changed -/
theorem SrcOK.same {l r : Sorted} {st st' : MState} (h : SrcOK l r st)
    (hsrc : st'.src = st.src) (hheld : ∀ k, k ∈ st'.held ↔ k ∈ st.held)
    (hl : Sourced l.src st'.lUn) (hr : Sourced r.src st'.rUn) : SrcOK l r st' := by
  refine ⟨?_, ?_, ?_, hl, hr⟩
  · intro k; rw [hsrc, hheld]; exact h.keys k
  · intro k hk; rw [hsrc]; exact h.ne k ((hheld k).1 hk)
  · intro k f hf; rw [hsrc] at hf; exact h.mem k f hf

/-! ### phase K -/

theorem phaseK1_src (l r : Sorted) (ps : List Param) (st : MState)
    (hps : Sourced l.src ps) (hst : SrcOK l r st) : SrcOK l r (phaseK1 l r ps st) := by
  induction ps generalizing st with
  | nil => exact hst
  | cons p ps ih =>
    simp only [phaseK1]
    split
    · rename_i q hq
      apply ih _ hps.tail
      apply hst.step p.name (sget l.src p.name ++ sget r.src p.name)
      · intro k; simp only [sget_dset]
      · intro k; simp only [dhas_dset]
      · intro k
        simp only [MState.held, List.mem_append, mem_names_pset, concile_name]
        constructor
        · rintro ((h | h) | (h | h))
          · exact .inr (.inl (.inl h))
          · exact .inr (.inl (.inr h))
          · exact .inr (.inr h)
          · exact .inl h
        · rintro (h | (h | h) | h)
          · exact .inr (.inr h)
          · exact .inl (.inl h)
          · exact .inl (.inr h)
          · exact .inr (.inl h)
      · intro he
        simp only [List.append_eq_nil_iff] at he
        exact hps.head he.1
      · intro f hf
        simp only [List.mem_append] at hf
        exact hf
      · exact hst.lun
      · exact hst.run
    · apply ih _ hps.tail
      exact hst.same rfl (fun k => Iff.rfl) (hst.lun.pset hps.head) hst.run

theorem phaseK2_src (l r : Sorted) (ps : List Param) (st : MState)
    (hps : Sourced r.src ps) (hst : SrcOK l r st) : SrcOK l r (phaseK2 l ps st) := by
  induction ps generalizing st with
  | nil => exact hst
  | cons p ps ih =>
    simp only [phaseK2]
    split
    · exact ih _ hps.tail hst
    · apply ih _ hps.tail
      exact hst.same rfl (fun k => Iff.rfl) hst.lun (hst.run.pset hps.head)

/-! ### phase P -/

theorem held_pos_append (st : MState) (x : Param) (k : Nat) (pos' : List Param)
    (h : pos' = st.pos ++ [x]) :
    k ∈ names pos' ++ names st.pok ++ names st.kwo ↔ (k = x.name ∨ k ∈ st.held) := by
  subst h
  simp only [MState.held, names_append, names_singleton, List.mem_append, List.mem_singleton]
  constructor
  · rintro (((h | h) | h) | h)
    · exact .inr (.inl (.inl h))
    · exact .inl h
    · exact .inr (.inl (.inr h))
    · exact .inr (.inr h)
  · rintro (h | (h | h) | h)
    · exact .inl (.inl (.inr h))
    · exact .inl (.inl (.inl h))
    · exact .inl (.inr h)
    · exact .inr h

theorem unbalancedPos_src_L (l r : Sorted) (ex : Param) (cf : List Param) (st st' : MState)
    (cf' : List Param) (hex : sget l.src ex.name ≠ []) (hst : SrcOK l r st)
    (h : unbalancedPos .L l r ex cf st = .ok (st', cf')) : SrcOK l r st' := by
  cases cf with
  | cons o rest =>
    simp only [unbalancedPos, Except.ok.injEq, Prod.mk.injEq] at h
    obtain ⟨rfl, rfl⟩ := h
    by_cases hn : ex.name = o.name
    · refine hst.add ex.name [l.src, r.src] ?_ ?_ ?_ ⟨l.src, by simp, hex⟩ hst.lun hst.run
      · show (if ex.name = o.name then _ else _) = _
        rw [if_pos hn]
      · intro k; exact held_pos_append st (concile ex o) k _ rfl
      · intro s hs; simp at hs; rcases hs with rfl | rfl <;> simp
    · refine hst.add ex.name [l.src] ?_ ?_ ?_ ⟨l.src, by simp, hex⟩ hst.lun hst.run
      · show (if ex.name = o.name then _ else _) = _
        rw [if_neg hn]
      · intro k; exact held_pos_append st (concile ex o) k _ rfl
      · intro s hs; simp at hs; simp [hs]
  | nil =>
    simp only [unbalancedPos] at h
    (repeat' split at h)
    · simp only [Except.ok.injEq, Prod.mk.injEq] at h
      obtain ⟨rfl, rfl⟩ := h
      refine hst.add ex.name [l.src] rfl ?_ ?_ ⟨l.src, by simp, hex⟩ hst.lun hst.run
      · intro k; exact held_pos_append st ex k _ rfl
      · intro s hs; simp at hs; simp [hs]
    · cases h
    · simp only [Except.ok.injEq, Prod.mk.injEq] at h
      obtain ⟨rfl, rfl⟩ := h
      exact hst

theorem unbalancedPos_src_R (l r : Sorted) (ex : Param) (cf : List Param) (st st' : MState)
    (cf' : List Param) (hex : sget r.src ex.name ≠ []) (hst : SrcOK l r st)
    (h : unbalancedPos .R l r ex cf st = .ok (st', cf')) : SrcOK l r st' := by
  cases cf with
  | cons o rest =>
    simp only [unbalancedPos, Except.ok.injEq, Prod.mk.injEq] at h
    obtain ⟨rfl, rfl⟩ := h
    by_cases hn : ex.name = o.name
    · refine hst.add ex.name [r.src, l.src] ?_ ?_ ?_ ⟨r.src, by simp, hex⟩ hst.lun hst.run
      · show (if ex.name = o.name then _ else _) = _
        rw [if_pos hn]
      · intro k; exact held_pos_append st (concile ex o) k _ rfl
      · intro s hs; simp at hs; rcases hs with rfl | rfl <;> simp
    · refine hst.add ex.name [r.src] ?_ ?_ ?_ ⟨r.src, by simp, hex⟩ hst.lun hst.run
      · show (if ex.name = o.name then _ else _) = _
        rw [if_neg hn]
      · intro k; exact held_pos_append st (concile ex o) k _ rfl
      · intro s hs; simp at hs; simp [hs]
  | nil =>
    simp only [unbalancedPos] at h
    (repeat' split at h)
    · simp only [Except.ok.injEq, Prod.mk.injEq] at h
      obtain ⟨rfl, rfl⟩ := h
      refine hst.add ex.name [r.src] rfl ?_ ?_ ⟨r.src, by simp, hex⟩ hst.lun hst.run
      · intro k; exact held_pos_append st ex k _ rfl
      · intro s hs; simp at hs; simp [hs]
    · cases h
    · simp only [Except.ok.injEq, Prod.mk.injEq] at h
      obtain ⟨rfl, rfl⟩ := h
      exact hst

theorem phaseP_src (l r : Sorted) (ls rs il ir : List Param) (st st' : MState) (il' ir' : List Param)
    (hls : Sourced l.src ls) (hrs : Sourced r.src rs)
    (hst : SrcOK l r st) (h : phaseP l r ls rs il ir st = .ok (st', il', ir')) :
    SrcOK l r st' ∧ (∃ n, il' = il.drop n) ∧ (∃ n, ir' = ir.drop n) := by
  induction ls, rs, il, ir, st using phaseP.induct l r with
  | case1 il ir st =>
    simp only [phaseP, Except.ok.injEq, Prod.mk.injEq] at h
    obtain ⟨rfl, rfl, rfl⟩ := h
    exact ⟨hst, ⟨0, rfl⟩, ⟨0, rfl⟩⟩
  | case2 lp ls rp rs il ir st st1 ih =>
    simp only [phaseP] at h
    apply ih hls.tail hrs.tail _ h
    by_cases hn : lp.name = rp.name
    · apply hst.add lp.name [l.src, r.src]
      · simp only [st1, hn, ↓reduceDIte, ↓reduceIte]
      · intro k; exact held_pos_append st (concile lp rp) k _ rfl
      · intro s hs; simp at hs; rcases hs with rfl | rfl <;> simp
      · exact ⟨_, by simp, hls.head⟩
      · exact hst.lun
      · exact hst.run
    · apply hst.add lp.name [l.src]
      · simp only [st1, hn, ↓reduceDIte, ↓reduceIte]
      · intro k; exact held_pos_append st (concile lp rp) k _ rfl
      · intro s hs; simp at hs; simp [hs]
      · exact ⟨_, by simp, hls.head⟩
      · exact hst.lun
      · exact hst.run
  | case3 lp ls il ir st ih =>
    simp only [phaseP, bind, Except.bind] at h
    split at h
    · cases h
    · rename_i v hv
      obtain ⟨st1, ir1⟩ := v
      have k1 := unbalancedPos_src_L l r lp ir st st1 ir1 hls.head hst hv
      obtain ⟨a, b, ⟨n, c⟩⟩ := ih _ _ hls.tail hrs k1 h
      refine ⟨a, b, ?_⟩
      cases ir with
      | nil =>
        have : ir1 = [] := by
          cases hs : r.va.isSome <;> simp only [unbalancedPos, hs] at hv <;> (repeat' split at hv) <;>
            first | (cases hv; done) | (simp only [Except.ok.injEq, Prod.mk.injEq] at hv; exact hv.2.symm)
        subst this
        exact ⟨0, by simpa using c⟩
      | cons o rest =>
        simp only [unbalancedPos, Except.ok.injEq, Prod.mk.injEq] at hv
        obtain ⟨_, rfl⟩ := hv
        exact ⟨n + 1, by simpa using c⟩
  | case4 rp rs il ir st ih =>
    simp only [phaseP, bind, Except.bind] at h
    split at h
    · cases h
    · rename_i v hv
      obtain ⟨st1, il1⟩ := v
      have k1 := unbalancedPos_src_R l r rp il st st1 il1 hrs.head hst hv
      obtain ⟨a, ⟨n, b⟩, c⟩ := ih _ _ hls hrs.tail k1 h
      refine ⟨a, ?_, c⟩
      cases il with
      | nil =>
        have : il1 = [] := by
          cases hs : l.va.isSome <;> simp only [unbalancedPos, hs] at hv <;> (repeat' split at hv) <;>
            first | (cases hv; done) | (simp only [Except.ok.injEq, Prod.mk.injEq] at hv; exact hv.2.symm)
        subst this
        exact ⟨0, by simpa using b⟩
      | cons o rest =>
        simp only [unbalancedPos, Except.ok.injEq, Prod.mk.injEq] at hv
        obtain ⟨_, rfl⟩ := hv
        exact ⟨n + 1, by simpa using b⟩

/-! ### phase Q -/

theorem held_pok_append (st : MState) (x : Param) (k : Nat) :
    k ∈ names st.pos ++ names (st.pok ++ [x]) ++ names st.kwo ↔ (k = x.name ∨ k ∈ st.held) := by
  simp only [MState.held, names_append, names_singleton, List.mem_append, List.mem_singleton]
  constructor
  · rintro ((h | h | h) | h)
    · exact .inr (.inl (.inl h))
    · exact .inr (.inl (.inr h))
    · exact .inl h
    · exact .inr (.inr h)
  · rintro (h | (h | h) | h)
    · exact .inl (.inr (.inr h))
    · exact .inl (.inl h)
    · exact .inl (.inr (.inl h))
    · exact .inr h

theorem held_flush (st : MState) (x : Param) (k : Nat) :
    k ∈ names (st.pos ++ st.pok.map (·.withKind .po) ++ [x]) ++ names ([] : List Param) ++ names st.kwo ↔
      (k = x.name ∨ k ∈ st.held) := by
  have hnil : names ([] : List Param) = [] := rfl
  simp only [MState.held, names_append, names_map_withKind, names_singleton, hnil, List.mem_append,
    List.mem_singleton, List.not_mem_nil, or_false]
  constructor
  · rintro (((h | h) | h) | h)
    · exact .inr (.inl (.inl h))
    · exact .inr (.inl (.inr h))
    · exact .inl h
    · exact .inr (.inr h)
  · rintro (h | (h | h) | h)
    · exact .inl (.inr h)
    · exact .inl (.inl (.inl h))
    · exact .inl (.inl (.inr h))
    · exact .inr h

theorem held_kwo_pset (st : MState) (x : Param) (k : Nat) :
    k ∈ names st.pos ++ names st.pok ++ names (pset st.kwo x) ↔ (k = x.name ∨ k ∈ st.held) := by
  simp only [MState.held, List.mem_append, mem_names_pset]
  constructor
  · rintro ((h | h) | (h | h))
    · exact .inr (.inl (.inl h))
    · exact .inr (.inl (.inr h))
    · exact .inr (.inr h)
    · exact .inl h
  · rintro (h | (h | h) | h)
    · exact .inr (.inr h)
    · exact .inl (.inl h)
    · exact .inl (.inr h)
    · exact .inr (.inl h)

theorem pget_mem_name {d : List Param} {k : Nat} {q : Param} (h : pget d k = some q) : q ∈ d ∧ q.name = k := by
  unfold pget at h
  have := List.find?_some h
  exact ⟨List.mem_of_find?_eq_some h, by simpa using this⟩

theorem unbalancedPok_src (side : Side) (l r : Sorted) (ex : Param) (st st' : MState)
    (hex : sget (match side with | .L => l.src | .R => r.src) ex.name ≠ [])
    (hst : SrcOK l r st)
    (h : unbalancedPok side l r ex st = .ok st') : SrcOK l r st' := by
  cases side
  · -- existing comes from the left operand
    simp only [unbalancedPok] at h
    split at h
    · rename_i q hq
      simp only [Except.ok.injEq] at h
      subst h
      apply hst.add ex.name [r.src, l.src] rfl
      · intro k; exact held_kwo_pset st ((concile ex q).withKind .ko) k
      · intro s hs; simp at hs; rcases hs with rfl | rfl <;> simp
      · exact ⟨l.src, by simp, hex⟩
      · exact hst.lun
      · exact hst.run.ppop _
    · (repeat' split at h) <;>
      first
      | (cases h; done)
      | (simp only [Except.ok.injEq] at h
         subst h
         first
         | exact hst
         | (exact hst.add ex.name [l.src] rfl (fun k => held_pok_append st ex k)
              (by intro s hs; simp at hs; simp [hs]) ⟨_, by simp, hex⟩ hst.lun hst.run)
         | (exact hst.add ex.name [l.src] rfl (fun k => held_kwo_pset st (ex.withKind .ko) k)
              (by intro s hs; simp at hs; simp [hs]) ⟨_, by simp, hex⟩ hst.lun hst.run)
         | (exact hst.add ex.name [l.src] rfl (fun k => held_flush st (ex.withKind .po) k)
              (by intro s hs; simp at hs; simp [hs]) ⟨_, by simp, hex⟩ hst.lun hst.run))
  · simp only [unbalancedPok] at h
    split at h
    · rename_i q hq
      simp only [Except.ok.injEq] at h
      subst h
      apply hst.add ex.name [l.src, r.src] rfl
      · intro k; exact held_kwo_pset st ((concile ex q).withKind .ko) k
      · intro s hs; simp at hs; rcases hs with rfl | rfl <;> simp
      · exact ⟨r.src, by simp, hex⟩
      · exact hst.lun.ppop _
      · exact hst.run
    · (repeat' split at h) <;>
      first
      | (cases h; done)
      | (simp only [Except.ok.injEq] at h
         subst h
         first
         | exact hst
         | (exact hst.add ex.name [r.src] rfl (fun k => held_pok_append st ex k)
              (by intro s hs; simp at hs; simp [hs]) ⟨_, by simp, hex⟩ hst.lun hst.run)
         | (exact hst.add ex.name [r.src] rfl (fun k => held_kwo_pset st (ex.withKind .ko) k)
              (by intro s hs; simp at hs; simp [hs]) ⟨_, by simp, hex⟩ hst.lun hst.run)
         | (exact hst.add ex.name [r.src] rfl (fun k => held_flush st (ex.withKind .po) k)
              (by intro s hs; simp at hs; simp [hs]) ⟨_, by simp, hex⟩ hst.lun hst.run))

theorem phaseQ_src (l r : Sorted) (il ir : List Param) (st st' : MState)
    (hil : Sourced l.src il) (hir : Sourced r.src ir)
    (hst : SrcOK l r st) (h : phaseQ l r il ir st = .ok st') : SrcOK l r st' := by
  induction il, ir, st using phaseQ_ind l r with
  | h1 st =>
    simp only [phaseQ, Except.ok.injEq] at h
    subst h; exact hst
  | h2 lp ls rp rs st hn ih =>
    rw [phaseQ, if_pos hn] at h
    apply ih hil.tail hir.tail _ h
    exact hst.add lp.name [l.src, r.src] rfl (fun k => held_pok_append st (concile lp rp) k)
      (by intro s hs; simp at hs; rcases hs with rfl | rfl <;> simp) ⟨_, by simp, hil.head⟩ hst.lun hst.run
  | h3 lp ls rp rs st hn ih =>
    rw [phaseQ, if_neg hn] at h
    apply ih hil.tail hir.tail _ h
    exact hst.add lp.name [l.src] rfl (fun k => held_flush st ((concile lp rp).withKind .po) k)
      (by intro s hs; simp at hs; simp [hs]) ⟨_, by simp, hil.head⟩ hst.lun hst.run
  | h4 lp ls st ih =>
    simp only [phaseQ, bind, Except.bind] at h
    split at h
    · cases h
    · rename_i v hv
      exact ih _ hil.tail hir (unbalancedPok_src .L l r lp st v hil.head hst hv) h
  | h5 rp rs st ih =>
    simp only [phaseQ, bind, Except.bind] at h
    split at h
    · cases h
    · rename_i v hv
      exact ih _ hil hir.tail (unbalancedPok_src .R l r rp st v hir.head hst hv) h

/-! ### unmatched keyword-only parameters -/

theorem SrcOK.addAll {l r : Sorted} {st : MState} (h : SrcOK l r st) (un : List Param) (frm : Srcs)
    (hfrm : frm = l.src ∨ frm = r.src) (hun : Sourced frm un) (st' : MState)
    (hsrc : st'.src = addAllSources st.src un frm)
    (hheld : ∀ k, k ∈ st'.held ↔ (k ∈ names un ∨ k ∈ st.held))
    (hl : Sourced l.src st'.lUn) (hr : Sourced r.src st'.rUn) : SrcOK l r st' := by
  refine ⟨?_, ?_, ?_, hl, hr⟩
  · intro k
    rw [hsrc, dhas_addAllSources, hheld, ← h.keys]
    by_cases hk : k ∈ names un <;> simp [hk]
  · intro k hk
    rw [hsrc]
    rcases (hheld k).1 hk with h1 | h1
    · obtain ⟨p, hp, rfl⟩ := List.mem_map.1 h1
      have hne := hun p hp
      obtain ⟨f, hf⟩ := List.exists_mem_of_ne_nil _ hne
      intro he
      have := sget_addAllSources_from st.src un frm p.name f h1 hf
      rw [he] at this
      cases this
    · have hne := h.ne k h1
      obtain ⟨f, hf⟩ := List.exists_mem_of_ne_nil _ hne
      intro he
      have := sget_addAllSources_mono st.src un frm k f hf
      rw [he] at this
      cases this
  · intro k f hf
    rw [hsrc] at hf
    rcases mem_sget_addAllSources _ _ _ _ _ hf with hf | hf
    · exact h.mem k f hf
    · rcases hfrm with rfl | rfl
      · exact .inl hf
      · exact .inr hf

theorem mergeUnmatched_src (side : Side) (l r : Sorted) (st st' : MState) (hst : SrcOK l r st)
    (h : mergeUnmatched side l r st = .ok st') : SrcOK l r st' := by
  have hheld : ∀ (un : List Param) k,
      k ∈ names st.pos ++ names st.pok ++ names (pupdate st.kwo un) ↔ (k ∈ names un ∨ k ∈ st.held) := by
    intro un k
    simp only [MState.held, List.mem_append, mem_names_pupdate]
    constructor
    · rintro ((h | h) | (h | h))
      · exact .inr (.inl (.inl h))
      · exact .inr (.inl (.inr h))
      · exact .inr (.inr h)
      · exact .inl h
    · rintro (h | (h | h) | h)
      · exact .inr (.inr h)
      · exact .inl (.inl h)
      · exact .inl (.inr h)
      · exact .inr (.inl h)
  cases side <;> simp only [mergeUnmatched] at h <;> (repeat' split at h) <;>
    first
    | (cases h; done)
    | (simp only [Except.ok.injEq] at h
       subst h
       first
       | exact hst
       | exact hst.addAll st.lUn l.src (.inl rfl) hst.lun _ rfl (hheld st.lUn) hst.lun hst.run
       | exact hst.addAll st.rUn r.src (.inr rfl) hst.run _ rfl (hheld st.rUn) hst.lun hst.run)

end SV
