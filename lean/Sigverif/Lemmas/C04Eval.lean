/-
  Lemmas/C04Eval.lean — evaluating `forwards` on closed inputs (for the non-vacuity examples):
  `mask` reduces by `rfl`, the embed part goes through the evaluable closed form `embedParamsC`.
-/
import Sigverif.Lemmas.C04Partial
namespace SV

theorem forwards_false_ok_of {o i M : USig} {n : Nat} {nms : List Nat} {ha hk uva uvk : Bool}
    {ps : List Param}
    (hM : mask i n nms { args := ha, kwargs := hk } = .ok M)
    (hE : embedParamsC o M uva uvk = .ok ps) :
    ∃ R, forwards o i n nms ha hk uva uvk false = .ok R ∧ R.params = ps := by
  obtain ⟨R, h, hp⟩ := embed_two_ok_of hE
  refine ⟨R, ?_, hp⟩
  rw [forwards_false_eq, hM]
  exact h

theorem forwards_true_ok_of {o i M : USig} {n : Nat} {nms : List Nat} {ha hk uva uvk : Bool}
    {ps : List Param}
    (hv : validate (partialParams i.params) = .ok ())
    (hM : mask { i with params := partialParams i.params } n nms { args := ha, kwargs := hk } = .ok M)
    (hE : embedParamsC o M uva uvk = .ok ps) :
    ∃ R, forwards o i n nms ha hk uva uvk true = .ok R ∧ R.params = ps := by
  obtain ⟨R, h, hp⟩ := embed_two_ok_of hE
  refine ⟨R, ?_, hp⟩
  unfold forwards
  simp only [if_true, bind, Except.bind, pure, Except.pure]
  have e : (List.map (fun p : Param =>
      if (decide (p.kind = Kind.vp) || decide (p.kind = Kind.vk)) = true then p
      else p.withDflt (some 0)) i.params) = partialParams i.params := rfl
  rw [e, hv]
  simp only
  rw [hM]
  exact h

end SV
