/-
  Lemmas/SMEq.lean — closed form of the `==` protocol of Model/Eq.lean (C14).
-/
import Sigverif.Model.Eq
namespace SV

/-- closed form of `a == b` -/
def eqSpec (a b : Obj) : Bool :=
  match a, b with
  | .usig i d u, .usig j e w => (i = j ∨ d = e) ∧ u = w
  | .uparam i d u, .uparam j e w => (i = j ∨ d = e) ∧ u = w
  | .usig i d _, .psig j e | .psig i d, .usig j e _ | .psig i d, .psig j e => i = j ∨ d = e
  | .uparam i d _, .pparam j e | .pparam i d, .uparam j e _ | .pparam i d, .pparam j e => i = j ∨ d = e
  | a, b => a.id = b.id

/-- `==` never raises and is the closed form -/
theorem pyEq_spec (a b : Obj) : pyEq a b = .ok (eqSpec a b) := by
  rcases a with ⟨i,d,u⟩|⟨i,d⟩|⟨i,d,u⟩|⟨i,d⟩|⟨i⟩ <;> rcases b with ⟨j,e,w⟩|⟨j,e⟩|⟨j,e,w⟩|⟨j,e⟩|⟨j⟩ <;>
    by_cases h1 : i = j <;> (try by_cases h2 : d = e) <;> (try by_cases h3 : u = w) <;>
    simp [pyEq, dunderEq, baseEq, reflectedFirst, Obj.id, bind, Except.bind, pure, Except.pure, eqSpec, *] <;>
    (try omega) <;> (try grind)

theorem eqSpec_symm (a b : Obj) : eqSpec a b = eqSpec b a := by
  rcases a with ⟨i,d,u⟩|⟨i,d⟩|⟨i,d,u⟩|⟨i,d⟩|⟨i⟩ <;> rcases b with ⟨j,e,w⟩|⟨j,e⟩|⟨j,e,w⟩|⟨j,e⟩|⟨j⟩ <;>
    simp [eqSpec, Obj.id] <;> grind

end SV
