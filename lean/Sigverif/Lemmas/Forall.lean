/-
  Lemmas/Forall.lean — a generic invariant of the algebra: any property of single parameters
  that `_concile_meta` and `replace(kind=…)` / `replace(default=…)` keep is kept by merge,
  embed, mask and forwards — for any number of inputs.

  Used for C11 (every parameter of a result carries the (annotation, upgraded annotation) pair
  of an input parameter, or none) and C10/C08 (names of a result are names of the inputs).
-/
import Sigverif.Lemmas.C08Embed
import Sigverif.Lemmas.C08Fold
import Sigverif.Lemmas.C03Mask
namespace SV
set_option linter.unusedSimpArgs false
set_option linter.unusedVariables false

section
variable (P : Param → Prop)

/-- `P` survives what the algebra does to a single parameter -/
structure ClosedP : Prop where
  concile : ∀ a b, P a → P b → P (concile a b)
  kind : ∀ a k, P a → P (a.withKind k)
  dflt : ∀ a d, P a → P (a.withDflt d)

def AllP (ps : List Param) : Prop := ∀ p ∈ ps, P p

variable {P}

theorem AllP.nil : AllP P [] := by intro p hp; cases hp
theorem AllP.tail {p : Param} {ps : List Param} (h : AllP P (p :: ps)) : AllP P ps :=
  fun q hq => h q (by simp [hq])
theorem AllP.head {p : Param} {ps : List Param} (h : AllP P (p :: ps)) : P p := h p (by simp)
theorem AllP.append {a b : List Param} (ha : AllP P a) (hb : AllP P b) : AllP P (a ++ b) := by
  intro p hp
  rcases List.mem_append.1 hp with h | h
  · exact ha p h
  · exact hb p h
theorem AllP.one {p : Param} (h : P p) : AllP P [p] := by
  intro q hq; simp only [List.mem_singleton] at hq; subst hq; exact h
theorem AllP.pset {ps : List Param} {p : Param} (h : AllP P ps) (hp : P p) : AllP P (pset ps p) := by
  intro q hq
  rcases mem_pset_Laws _ _ _ hq with hq | rfl
  · exact h q hq
  · exact hp
theorem AllP.ppop {ps : List Param} (n : Nat) (h : AllP P ps) : AllP P (ppop ps n) :=
  fun q hq => h q (List.mem_filter.1 hq).1
theorem AllP.pupdate {d e : List Param} (hd : AllP P d) (he : AllP P e) : AllP P (pupdate d e) := by
  intro q hq
  rcases mem_pupdate _ _ _ hq with h | h
  · exact hd q h
  · exact he q h
theorem AllP.mapKind (hc : ClosedP P) {ps : List Param} (k : Kind) (h : AllP P ps) :
    AllP P (ps.map (·.withKind k)) := by
  intro q hq
  obtain ⟨x, hx, rfl⟩ := List.mem_map.1 hq
  exact hc.kind x k (h x hx)
theorem AllP.drop {ps : List Param} (n : Nat) (h : AllP P ps) : AllP P (ps.drop n) :=
  fun q hq => h q (List.mem_of_mem_drop hq)
theorem AllP.take {ps : List Param} (n : Nat) (h : AllP P ps) : AllP P (ps.take n) :=
  fun q hq => h q (List.mem_of_mem_take hq)
theorem pget_P {d : List Param} {k : Nat} {q : Param} (h : AllP P d) (hq : pget d k = some q) : P q :=
  h q (pget_mem_name hq).1

/-- all five buckets of the merger state -/
structure StAll (P : Param → Prop) (st : MState) : Prop where
  pos : AllP P st.pos
  pok : AllP P st.pok
  kwo : AllP P st.kwo
  lUn : AllP P st.lUn
  rUn : AllP P st.rUn

theorem phaseK1_all (hc : ClosedP P) (l r : Sorted) (hr : AllP P r.kwo) (ps : List Param) (st : MState)
    (hps : AllP P ps) (hst : StAll P st) : StAll P (phaseK1 l r ps st) := by
  induction ps generalizing st with
  | nil => exact hst
  | cons p ps ih =>
    simp only [phaseK1]
    split
    · rename_i q hq
      apply ih _ hps.tail
      exact { hst with kwo := hst.kwo.pset (hc.concile _ _ hps.head (pget_P hr hq)) }
    · apply ih _ hps.tail
      exact { hst with lUn := hst.lUn.pset hps.head }

theorem phaseK2_allP (l : Sorted) (ps : List Param) (st : MState)
    (hps : AllP P ps) (hst : StAll P st) : StAll P (phaseK2 l ps st) := by
  induction ps generalizing st with
  | nil => exact hst
  | cons p ps ih =>
    simp only [phaseK2]
    split
    · exact ih _ hps.tail hst
    · apply ih _ hps.tail
      exact { hst with rUn := hst.rUn.pset hps.head }

theorem unbalancedPos_all (hc : ClosedP P) (side : Side) (l r : Sorted) (ex : Param) (cf : List Param)
    (st st' : MState) (cf' : List Param) (hex : P ex) (hcf : AllP P cf) (hst : StAll P st)
    (h : unbalancedPos side l r ex cf st = .ok (st', cf')) : StAll P st' ∧ AllP P cf' := by
  cases cf with
  | cons o rest =>
    simp only [unbalancedPos, Except.ok.injEq, Prod.mk.injEq] at h
    obtain ⟨rfl, rfl⟩ := h
    exact ⟨{ hst with pos := hst.pos.append (AllP.one (hc.concile _ _ hex hcf.head)) }, hcf.tail⟩
  | nil =>
    cases side <;> simp only [unbalancedPos] at h <;> (repeat' split at h) <;>
      first
      | (cases h; done)
      | (simp only [Except.ok.injEq, Prod.mk.injEq] at h
         obtain ⟨rfl, rfl⟩ := h
         first
         | exact ⟨hst, hcf⟩
         | exact ⟨{ hst with pos := hst.pos.append (AllP.one hex) }, hcf⟩)

theorem phaseP_all (hc : ClosedP P) (l r : Sorted) (ls rs il ir : List Param) (st st' : MState)
    (il' ir' : List Param)
    (hls : AllP P ls) (hrs : AllP P rs) (hil : AllP P il) (hir : AllP P ir)
    (hst : StAll P st) (h : phaseP l r ls rs il ir st = .ok (st', il', ir')) :
    StAll P st' ∧ AllP P il' ∧ AllP P ir' := by
  induction ls, rs, il, ir, st using phaseP.induct l r with
  | case1 il ir st =>
    simp only [phaseP, Except.ok.injEq, Prod.mk.injEq] at h
    obtain ⟨rfl, rfl, rfl⟩ := h
    exact ⟨hst, hil, hir⟩
  | case2 lp ls rp rs il ir st st1 ih =>
    simp only [phaseP] at h
    apply ih hls.tail hrs.tail hil hir _ h
    exact { hst with pos := hst.pos.append (AllP.one (hc.concile _ _ hls.head hrs.head)) }
  | case3 lp ls il ir st ih =>
    simp only [phaseP, bind, Except.bind] at h
    split at h
    · cases h
    · rename_i v hv
      obtain ⟨st1, ir1⟩ := v
      obtain ⟨k1, k2⟩ := unbalancedPos_all hc _ _ _ _ _ _ _ _ hls.head hir hst hv
      exact ih _ _ hls.tail hrs hil k2 k1 h
  | case4 rp rs il ir st ih =>
    simp only [phaseP, bind, Except.bind] at h
    split at h
    · cases h
    · rename_i v hv
      obtain ⟨st1, il1⟩ := v
      obtain ⟨k1, k2⟩ := unbalancedPos_all hc _ _ _ _ _ _ _ _ hrs.head hil hst hv
      exact ih _ _ hls hrs.tail k2 hir k1 h

theorem AllP.flush (hc : ClosedP P) {ps qs : List Param} {p : Param} (h : AllP P ps) (hq : AllP P qs) (hp : P p) :
    AllP P (ps ++ qs.map (·.withKind .po) ++ [p.withKind .po]) :=
  (h.append (hq.mapKind hc _)).append (AllP.one (hc.kind _ _ hp))

theorem unbalancedPok_all (hc : ClosedP P) (side : Side) (l r : Sorted) (ex : Param) (st st' : MState)
    (hex : P ex) (hst : StAll P st)
    (h : unbalancedPok side l r ex st = .ok st') : StAll P st' := by
  cases side
  · simp only [unbalancedPok] at h
    split at h
    · rename_i q hq
      simp only [Except.ok.injEq] at h
      subst h
      exact { hst with kwo := hst.kwo.pset (hc.kind _ _ (hc.concile _ _ hex (pget_P hst.rUn hq))),
                       rUn := hst.rUn.ppop _ }
    · (repeat' split at h) <;>
      first
      | (cases h; done)
      | (simp only [Except.ok.injEq] at h
         subst h
         first
         | exact hst
         | exact { hst with pok := hst.pok.append (AllP.one hex) }
         | exact { hst with kwo := hst.kwo.pset (hc.kind _ _ hex) }
         | exact { hst with pos := AllP.flush hc hst.pos hst.pok hex, pok := AllP.nil })
  · simp only [unbalancedPok] at h
    split at h
    · rename_i q hq
      simp only [Except.ok.injEq] at h
      subst h
      exact { hst with kwo := hst.kwo.pset (hc.kind _ _ (hc.concile _ _ hex (pget_P hst.lUn hq))),
                       lUn := hst.lUn.ppop _ }
    · (repeat' split at h) <;>
      first
      | (cases h; done)
      | (simp only [Except.ok.injEq] at h
         subst h
         first
         | exact hst
         | exact { hst with pok := hst.pok.append (AllP.one hex) }
         | exact { hst with kwo := hst.kwo.pset (hc.kind _ _ hex) }
         | exact { hst with pos := AllP.flush hc hst.pos hst.pok hex, pok := AllP.nil })

theorem phaseQ_all (hc : ClosedP P) (l r : Sorted) (il ir : List Param) (st st' : MState)
    (hil : AllP P il) (hir : AllP P ir)
    (hst : StAll P st) (h : phaseQ l r il ir st = .ok st') : StAll P st' := by
  induction il, ir, st using phaseQ_ind l r with
  | h1 st =>
    simp only [phaseQ, Except.ok.injEq] at h
    subst h; exact hst
  | h2 lp ls rp rs st hn ih =>
    rw [phaseQ, if_pos hn] at h
    apply ih hil.tail hir.tail _ h
    exact { hst with pok := hst.pok.append (AllP.one (hc.concile _ _ hil.head hir.head)) }
  | h3 lp ls rp rs st hn ih =>
    rw [phaseQ, if_neg hn] at h
    apply ih hil.tail hir.tail _ h
    exact { hst with pos := AllP.flush hc hst.pos hst.pok (hc.concile _ _ hil.head hir.head), pok := AllP.nil }
  | h4 lp ls st ih =>
    simp only [phaseQ, bind, Except.bind] at h
    split at h
    · cases h
    · rename_i v hv
      exact ih _ hil.tail hir (unbalancedPok_all hc _ _ _ _ _ _ hil.head hst hv) h
  | h5 rp rs st ih =>
    simp only [phaseQ, bind, Except.bind] at h
    split at h
    · cases h
    · rename_i v hv
      exact ih _ hil hir.tail (unbalancedPok_all hc _ _ _ _ _ _ hir.head hst hv) h

theorem mergeUnmatched_all (side : Side) (l r : Sorted) (st st' : MState) (hst : StAll P st)
    (h : mergeUnmatched side l r st = .ok st') : StAll P st' := by
  cases side <;> simp only [mergeUnmatched] at h <;> (repeat' split at h) <;>
    first
    | (cases h; done)
    | (simp only [Except.ok.injEq] at h
       subst h
       first
       | exact hst
       | exact { hst with kwo := hst.kwo.pupdate hst.lUn }
       | exact { hst with kwo := hst.kwo.pupdate hst.rUn })

theorem addStarargs_all (hc : ClosedP P) (l r : Sorted) (wL wR : Bool) (left right : Option Param) (src : Srcs)
    (hl : ∀ p, left = some p → P p) (hr : ∀ p, right = some p → P p) :
    ∀ p, (addStarargs l r wL wR left right src).1 = some p → P p := by
  intro p hp
  unfold addStarargs at hp
  split at hp
  · rename_i lp rp
    (repeat' split at hp) <;> simp only [Option.some.injEq] at hp <;> subst hp
    · exact hc.concile _ _ (hl _ rfl) (hr _ rfl)
    · exact hc.concile _ _ (hl _ rfl) (hr _ rfl)
    · exact hl _ rfl
    · exact hr _ rfl
  · cases hp

theorem allP_all_iff (s : Sorted) :
    AllP P s.all ↔ AllP P s.pos ∧ AllP P s.pok ∧ (∀ p, s.va = some p → P p) ∧ AllP P s.kwo ∧
      (∀ p, s.vk = some p → P p) := by
  unfold Sorted.all AllP
  constructor
  · intro h
    refine ⟨fun p hp => h p (by simp [hp]), fun p hp => h p (by simp [hp]),
      fun p hp => h p (by simp [hp]), fun p hp => h p (by simp [hp]), fun p hp => h p (by simp [hp])⟩
  · rintro ⟨h1, h2, h3, h4, h5⟩ p hp
    simp only [List.mem_append, Option.mem_toList] at hp
    rcases hp with (((hp | hp) | hp) | hp) | hp
    · exact h1 p hp
    · exact h2 p hp
    · exact h3 p hp
    · exact h4 p hp
    · exact h5 p hp

/-- **one merge step**: whatever all parameters of both operands satisfy, all parameters of the
    result satisfy -/
theorem mergeStep_all (hc : ClosedP P) (l r s : Sorted) (hl : AllP P l.all) (hr : AllP P r.all)
    (h : mergeStep l r = .ok s) : AllP P s.all := by
  obtain ⟨l1, l2, l3, l4, l5⟩ := (allP_all_iff l).1 hl
  obtain ⟨r1, r2, r3, r4, r5⟩ := (allP_all_iff r).1 hr
  obtain ⟨st1, st2, st3, st4, il, ir, h1, h2, h3, h4, rfl⟩ := mergeStep_ok l r s h
  have k0 : StAll P ({ vaL := l.va.isSome, vaR := r.va.isSome, vkL := l.vk.isSome,
                       vkR := r.vk.isSome } : MState) :=
    ⟨AllP.nil, AllP.nil, AllP.nil, AllP.nil, AllP.nil⟩
  have kK1 := phaseK1_all hc l r r4 l.kwo _ l4 k0
  have kK2 := phaseK2_allP l r.kwo _ r4 kK1
  obtain ⟨k1, kil, kir⟩ := phaseP_all hc l r _ _ _ _ _ _ _ _ l1 r1 l2 r2 kK2 h1
  have k2 := phaseQ_all hc l r _ _ _ _ kil kir k1 h2
  have k3 := mergeUnmatched_all _ _ _ _ _ k2 h3
  have k4 := mergeUnmatched_all _ _ _ _ _ k3 h4
  exact (allP_all_iff _).2 ⟨k4.pos, k4.pok, addStarargs_all hc _ _ _ _ _ _ _ l3 r3, k4.kwo,
    addStarargs_all hc _ _ _ _ _ _ _ l5 r5⟩

/-! ### sort_params -/

theorem sortGo_allP (ps : List Param) (s : Sorted) (hps : AllP P ps) (hs : AllP P s.all) :
    AllP P (sortGo ps s).all := by
  induction ps generalizing s with
  | nil => exact hs
  | cons p ps ih =>
    simp only [sortGo]
    apply ih _ hps.tail
    obtain ⟨s1, s2, s3, s4, s5⟩ := (allP_all_iff s).1 hs
    have hp := hps.head
    cases hk : p.kind <;> simp only [hk] <;> refine (allP_all_iff _).2 ?_
    · exact ⟨s1.append (AllP.one hp), s2, s3, s4, s5⟩
    · exact ⟨s1, s2.append (AllP.one hp), s3, s4, s5⟩
    · exact ⟨s1, s2, fun q hq => by simp only [Option.some.injEq] at hq; subst hq; exact hp, s4, s5⟩
    · exact ⟨s1, s2, s3, s4.pset hp, s5⟩
    · exact ⟨s1, s2, s3, s4, fun q hq => by simp only [Option.some.injEq] at hq; subst hq; exact hp⟩

theorem sortParams_allP (u : USig) (h : AllP P u.params) : AllP P (sortParams u).all := by
  unfold sortParams
  apply sortGo_allP _ _ h
  intro p hp
  simp [Sorted.all] at hp

/-! ### merge, any number of inputs -/

theorem mergeFold_all (hc : ClosedP P) (acc r : Sorted) (ss : List USig) (hacc : AllP P acc.all)
    (hss : ∀ s ∈ ss, AllP P s.params) (h : mergeFold acc ss = .ok r) : AllP P r.all := by
  induction ss generalizing acc with
  | nil => simp only [mergeFold, Except.ok.injEq] at h; subst h; exact hacc
  | cons s ss ih =>
    simp only [mergeFold] at h
    split at h
    · rename_i acc' hstep
      exact ih acc' (mergeStep_all hc _ _ _ hacc (sortParams_allP s (hss s (by simp))) hstep)
        (fun t ht => hss t (by simp [ht])) h
    · cases h

theorem merge_all (hc : ClosedP P) (ss : List USig) (R : USig) (hss : ∀ s ∈ ss, AllP P s.params)
    (h : merge ss = .ok R) : AllP P R.params := by
  cases ss with
  | nil => simp [merge] at h
  | cons s ss =>
    simp only [merge, bind, Except.bind] at h
    split at h
    · cases h
    · rename_i r hfold
      have := mergeFold_all hc _ _ _ (sortParams_allP s (hss s (by simp))) (fun t ht => hss t (by simp [ht])) hfold
      rw [(applyParams_ok_C08 h).1]
      exact this

/-! ### embed, any number of inputs -/

theorem AllP.clearDefaults (hc : ClosedP P) {l : List Param} (h : AllP P l) : AllP P (clearDefaults l) := by
  intro q hq
  unfold SV.clearDefaults at hq
  obtain ⟨x, hx, rfl⟩ := List.mem_map.1 hq
  exact hc.dflt x none (h x hx)

theorem AllP.cdIf (hc : ClosedP P) (c : Bool) {l : List Param} (h : AllP P l) : AllP P (cdIf c l) := by
  unfold SV.cdIf; split
  · exact h.clearDefaults hc
  · exact h

theorem embedStep_all (hc : ClosedP P) (O I R : Sorted) (uva uvk : Bool) (d : Nat)
    (hO : AllP P O.all) (hI : AllP P I.all) (h : embedStep O I uva uvk d = .ok R) : AllP P R.all := by
  obtain ⟨i, hi, rfl⟩ := embedStep_ok O I R uva uvk d h
  obtain ⟨o1, o2, o3, o4, o5⟩ := (allP_all_iff O).1 hO
  have hstars : AllP P (Sorted.all { va := if uva then O.va else none, vk := if uvk then O.vk else none }) := by
    refine (allP_all_iff _).2 ⟨AllP.nil, AllP.nil, ?_, AllP.nil, ?_⟩
    · intro p hp
      cases uva
      · simp at hp
      · simp only [if_true] at hp; exact o3 p hp
    · intro p hp
      cases uvk
      · simp at hp
      · simp only [if_true] at hp; exact o5 p hp
  have hi' := mergeStep_all hc _ _ _ hI hstars hi
  obtain ⟨i1, i2, i3, i4, i5⟩ := (allP_all_iff i).1 hi'
  refine (allP_all_iff _).2 ⟨?_, ?_, ?_, ?_, ?_⟩
  · show AllP P (ePosC O i)
    unfold ePosC
    split
    · exact o1.cdIf hc _
    · exact ((o1.append (o2.mapKind hc _)).cdIf hc _).append i1
  · show AllP P (ePokC O i)
    unfold ePokC
    split
    · exact (o2.cdIf hc _).append i2
    · exact AllP.nil.append i2
  · intro p hp
    simp only at hp
    cases uva
    · simp only [Bool.false_eq_true, if_false] at hp; exact o3 p hp
    · simp only [if_true] at hp; exact i3 p hp
  · exact (AllP.nil.pupdate o4).pupdate i4
  · intro p hp
    simp only at hp
    cases uvk
    · simp only [Bool.false_eq_true, if_false] at hp; exact o5 p hp
    · simp only [if_true] at hp; exact i5 p hp

theorem embedFold_all (hc : ClosedP P) (uva uvk : Bool) (acc r : Sorted) (n : Nat) (ss : List USig)
    (hacc : AllP P acc.all) (hss : ∀ s ∈ ss, AllP P s.params) (h : embedFold uva uvk acc n ss = .ok r) :
    AllP P r.all := by
  induction ss generalizing acc n with
  | nil => simp only [embedFold, Except.ok.injEq] at h; subst h; exact hacc
  | cons s ss ih =>
    simp only [embedFold] at h
    split at h
    · rename_i acc' hstep
      exact ih acc' (n + 1) (embedStep_all hc _ _ _ _ _ _ hacc (sortParams_allP s (hss s (by simp))) hstep)
        (fun t ht => hss t (by simp [ht])) h
    · cases h

theorem embed_all (hc : ClosedP P) (uva uvk : Bool) (ss : List USig) (R : USig)
    (hss : ∀ s ∈ ss, AllP P s.params) (h : embed uva uvk ss = .ok R) : AllP P R.params := by
  cases ss with
  | nil => simp [embed] at h
  | cons s ss =>
    simp only [embed, bind, Except.bind] at h
    split at h
    · cases h
    · rename_i r hfold
      have := embedFold_all hc uva uvk _ _ _ _ (sortParams_allP s (hss s (by simp)))
        (fun t ht => hss t (by simp [ht])) hfold
      rw [(applyParams_ok_C08 h).1]
      exact this

end
end SV

namespace SV
set_option linter.unusedSimpArgs false
set_option linter.unusedVariables false
section
variable {P : Param → Prop}

/-! ### mask / partial / forwards -/

theorem popChain_all (n : Nat) (pos pok : List Param) (acc : List Nat)
    (h1 : AllP P pos) (h2 : AllP P pok) :
    AllP P (popChain n pos pok acc).2.1 ∧ AllP P (popChain n pos pok acc).2.2.1 := by
  induction n, pos, pok, acc using popChain.induct with
  | case1 pos pok acc => simp only [popChain]; exact ⟨h1, h2⟩
  | case2 p pos pok acc =>
    simp only [popChain, if_true]; exact ⟨h1.tail, h2⟩
  | case3 n p pos pok acc hn ih =>
    simp only [popChain, hn, if_false]; exact ih h1.tail h2
  | case4 p pok acc =>
    simp only [popChain, if_true]; exact ⟨AllP.nil, h2.tail⟩
  | case5 n p pok acc hn ih =>
    simp only [popChain, hn, if_false]; exact ih AllP.nil h2.tail
  | case6 n acc => simp only [popChain]; exact ⟨AllP.nil, AllP.nil⟩

structure KAll (P : Param → Prop) (st : KState) : Prop where
  pok : AllP P st.pok
  va : ∀ p, st.va = some p → P p
  kwo : AllP P st.kwo
  byName : AllP P st.byName

theorem indexOf_getD_mem {ps : List Param} {bp : Param} {i : Nat} (h : indexOf? ps bp = some i) :
    ps.getD i bp ∈ ps := by
  induction ps generalizing i with
  | nil => cases h
  | cons q t ih =>
    simp only [indexOf?] at h
    split at h
    · cases h; simp
    · cases hi : indexOf? t bp with
      | none => rw [hi] at h; cases h
      | some j =>
        rw [hi] at h
        simp only [Option.map_some, Option.some.injEq] at h
        subst h
        simp only [List.getD_cons_succ, List.mem_cons]
        exact .inr (ih hi)

theorem maskName_all (hc : ClosedP P) (hfresh : ∀ n v, P { name := n, kind := .ko, dflt := some v })
    (vk : Option Param) (st st' : KState) (name : Nat) (pv : Option (Nat × Nat)) (hst : KAll P st)
    (h : maskName vk st name pv = .ok st') : KAll P st' := by
  unfold maskName at h
  split at h
  · cases h
  · split at h
    · rename_i bp hbp
      split at h
      · cases h
      · rename_i i hi
        simp only [Except.ok.injEq] at h
        subst h
        have hparam : P (st.pok.getD i bp) := hst.pok _ (indexOf_getD_mem hi)
        have hconv : AllP P ((st.pok.drop (i + 1)).map (·.withKind .ko)) := (hst.pok.drop _).mapKind hc _
        refine ⟨hst.pok.take _, (by intro p hp; cases hp), ?_, hst.pok.take _⟩
        cases pv with
        | none => exact hst.kwo.pupdate hconv
        | some vp =>
          obtain ⟨v, o⟩ := vp
          exact (hst.kwo.pupdate hconv).pset (hc.dflt _ _ (hc.kind _ _ hparam))
    · split at h
      · rename_i param hparam
        cases pv with
        | some vp =>
          obtain ⟨v, o⟩ := vp
          simp only [Except.ok.injEq] at h
          subst h
          exact { hst with kwo := hst.kwo.pset (hc.dflt _ _ (hc.kind _ _ (pget_P hst.kwo hparam))) }
        | none =>
          simp only [Except.ok.injEq] at h
          subst h
          exact { hst with kwo := hst.kwo.ppop _ }
      · split at h
        · cases h
        · cases pv with
          | some vp =>
            obtain ⟨v, o⟩ := vp
            simp only at h
            split at h
            · simp only [Except.ok.injEq] at h
              subst h
              exact ⟨hst.pok, hst.va, hst.kwo, hst.byName⟩
            · simp only [Except.ok.injEq] at h
              subst h
              exact { hst with kwo := hst.kwo.pset (hfresh _ _) }
          | none =>
            simp only [Except.ok.injEq] at h
            subst h
            exact ⟨hst.pok, hst.va, hst.kwo, hst.byName⟩

theorem maskNames_all (hc : ClosedP P) (hfresh : ∀ n v, P { name := n, kind := .ko, dflt := some v })
    (vk : Option Param) (st st' : KState) (nms : List (Nat × Option (Nat × Nat))) (hst : KAll P st)
    (h : maskNames vk st nms = .ok st') : KAll P st' := by
  induction nms generalizing st with
  | nil => simp only [maskNames, Except.ok.injEq] at h; subst h; exact hst
  | cons x t ih =>
    obtain ⟨n, pv⟩ := x
    simp only [maskNames, bind, Except.bind] at h
    split at h
    · cases h
    · rename_i st1 h1
      exact ih st1 (maskName_all hc hfresh vk st st1 n pv hst h1) h

/-- the names loop's input in both modes -/
def loopNames (named : List (Nat × Nat)) (pobj : Option Nat) : List (Nat × Option (Nat × Nat)) :=
  named.map (fun nv => (nv.1, pobj.map (fun o => (nv.2, o))))

/-- `_mask` in three phases, both modes (plain and `functools.partial`) -/
theorem maskCore_eq (sig : USig) (n : Nat) (h : HideFlags) (named : List (Nat × Nat)) (pobj : Option Nat) :
    maskCore sig n h named pobj =
      match prelude (sortParams sig) n h with
      | .error e => .error e
      | .ok (c, pos, pok) =>
        match maskNames (sortParams sig).vk (initState (sortParams sig) h c pok)
            (loopNames (if h.kwargs then [] else named) pobj) with
        | .error e => .error e
        | .ok st =>
          applyParams sig { pos := pos, pok := st.pok, va := st.va, kwo := st.kwo,
                            vk := finalVk (sortParams sig) h,
                            src := finalSrc (sortParams sig) h st,
                            depths := match pobj with
                              | some o => dset (copyDepths (sortParams sig).depths 1) o 0
                              | none => (sortParams sig).depths } := by
  unfold maskCore
  obtain ⟨a, k, va, vk⟩ := h
  cases a <;> cases k <;> cases va <;> cases vk
  all_goals (
    change (prelude (sortParams sig) n _ >>= _) = _
    cases prelude (sortParams sig) n _ with
    | error e => rfl
    | ok t =>
      obtain ⟨c, pos, pok⟩ := t
      simp only [bind, Except.bind, initState, finalVk, finalSrc, srcVa, Bool.or_self, Bool.or_true,
        Bool.or_false, Bool.false_eq_true, if_true, if_false, loopNames, List.map_nil]
      first
      | rfl
      | (cases maskNames _ _ _ <;> cases pobj <;> rfl))

theorem prelude_all (s : Sorted) (n : Nat) (h : HideFlags) (c : List Nat) (pos pok : List Param)
    (h1 : AllP P s.pos) (h2 : AllP P s.pok) (hp : prelude s n h = .ok (c, pos, pok)) :
    AllP P pos ∧ AllP P pok := by
  rw [prelude_eq] at hp
  split at hp
  · simp only [Except.ok.injEq, Prod.mk.injEq] at hp
    obtain ⟨_, rfl, rfl⟩ := hp
    exact ⟨AllP.nil, AllP.nil⟩
  · split at hp
    · cases hp
    · simp only [Except.ok.injEq, Prod.mk.injEq] at hp
      obtain ⟨_, rfl, rfl⟩ := hp
      exact ⟨h1.drop _, h2.drop _⟩

theorem maskCore_all (hc : ClosedP P) (hfresh : ∀ n v, P { name := n, kind := .ko, dflt := some v })
    (sig R : USig) (n : Nat) (hf : HideFlags) (named : List (Nat × Nat)) (pobj : Option Nat)
    (hsig : AllP P sig.params) (h : maskCore sig n hf named pobj = .ok R) : AllP P R.params := by
  have hs := sortParams_allP sig hsig
  obtain ⟨s1, s2, s3, s4, s5⟩ := (allP_all_iff _).1 hs
  rw [maskCore_eq] at h
  split at h
  · cases h
  · rename_i c pos pok hpre
    obtain ⟨hpos, hpok⟩ := prelude_all _ _ _ _ _ _ s1 s2 hpre
    split at h
    · cases h
    · rename_i st hst
      have k0 : KAll P (initState (sortParams sig) hf c pok) := by
        unfold initState
        refine ⟨?_, ?_, ?_, s2⟩
        · show AllP P (if hf.kwargs = true then [] else pok)
          split
          · exact AllP.nil
          · exact hpok
        · intro p hp
          have hp' : (if (hf.args || hf.varargs) = true then none else (sortParams sig).va) = some p := hp
          split at hp'
          · cases hp'
          · exact s3 p hp'
        · show AllP P (if hf.kwargs = true then [] else (sortParams sig).kwo)
          split
          · exact AllP.nil
          · exact s4
      have kst := maskNames_all hc hfresh _ _ _ _ k0 hst
      rw [(applyParams_ok_C08 h).1]
      refine (allP_all_iff _).2 ⟨hpos, kst.pok, kst.va, kst.kwo, ?_⟩
      intro p hp
      have hp' : finalVk (sortParams sig) hf = some p := hp
      unfold finalVk at hp'
      split at hp'
      · cases hp'
      · exact s5 p hp'

theorem mask_all (hc : ClosedP P) (hfresh : ∀ n v, P { name := n, kind := .ko, dflt := some v })
    (sig R : USig) (n : Nat) (nms : List Nat) (hf : HideFlags)
    (hsig : AllP P sig.params) (h : mask sig n nms hf = .ok R) : AllP P R.params :=
  maskCore_all hc hfresh sig R n hf _ none hsig h

theorem maskPartial_all (hc : ClosedP P) (hfresh : ∀ n v, P { name := n, kind := .ko, dflt := some v })
    (sig R : USig) (n : Nat) (kw : List (Nat × Nat)) (pobj : Nat)
    (hsig : AllP P sig.params) (h : maskPartial sig n kw pobj = .ok R) : AllP P R.params :=
  maskCore_all hc hfresh sig R n {} kw (some pobj) hsig h

theorem forwards_all (hc : ClosedP P) (hfresh : ∀ n v, P { name := n, kind := .ko, dflt := some v })
    (outer inner R : USig) (n : Nat) (nms : List Nat) (ha hk uva uvk part : Bool)
    (ho : AllP P outer.params) (hi : AllP P inner.params)
    (h : forwards outer inner n nms ha hk uva uvk part = .ok R) : AllP P R.params := by
  unfold forwards at h
  simp only [bind, Except.bind, pure, Except.pure] at h
  split at h
  · cases h
  · rename_i inner' hinner
    have hi' : AllP P inner'.params := by
      split at hinner
      · split at hinner
        · cases hinner
        · simp only [Except.ok.injEq] at hinner
          subst hinner
          intro q hq
          obtain ⟨x, hx, rfl⟩ := List.mem_map.1 hq
          split
          · exact hi x hx
          · exact hc.dflt _ _ (hi x hx)
      · simp only [Except.ok.injEq] at hinner
        subst hinner
        exact hi
    split at h
    · cases h
    · rename_i m hm
      have hm' := mask_all hc hfresh inner' m n nms _ hi' hm
      apply embed_all hc uva uvk [outer, m] R _ h
      intro s hs
      simp only [List.mem_cons, List.mem_nil_iff, or_false] at hs
      rcases hs with rfl | rfl
      · exact ho
      · exact hm'

end
end SV
