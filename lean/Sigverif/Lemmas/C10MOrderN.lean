/-
  Lemmas/C10MOrderN.lean — positional parameters keep the relative order they have in each input:
  ANY number of role-consistent inputs, from the role invariant `RI` of Lemmas/C01Roles.lean
  (every positional parameter of every accumulator sits at the index its name has in the inputs).
-/
import Sigverif.Lemmas.C01RFinal
import Sigverif.Lemmas.LawsRoles2
namespace SV
set_option linter.unusedSimpArgs false
set_option linter.unusedVariables false

/-- two chains indexed by the same role assignment: what the first shares with the second is a
    subsequence of the second -/
theorem x10_idxOK_sublist (ρ : Roles) (off : Nat) (A B : List Param)
    (hA : IdxOK ρ off A) (hB : IdxOK ρ off B) :
    ((names A).filter (fun x => decide (x ∈ names B))).Sublist (names B) := by
  induction A generalizing off B with
  | nil => simp [names]
  | cons a A' ih =>
    cases B with
    | nil => simp [names]
    | cons b B' =>
      simp only [IdxOK_cons] at hA hB
      have hA' : ∀ p ∈ A', p.name ≠ b.name := by
        intro p hp e
        have := IdxOK_lb ρ hA.2 p hp
        rw [e, hB.1] at this
        omega
      have hrest : (names A').filter (fun x => decide (x ∈ names (b :: B'))) =
          (names A').filter (fun x => decide (x ∈ names B')) := by
        apply List.filter_congr
        intro x hx
        obtain ⟨p, hp, rfl⟩ := mem_names_C01.1 hx
        simp [names, hA' p hp]
      have ih' := ih (off + 1) B' hA.2 hB.2
      show ((a.name :: names A').filter _).Sublist (b.name :: names B')
      rw [List.filter_cons, hrest]
      by_cases e : a.name = b.name
      · have : decide (a.name ∈ names (b :: B')) = true := by simp [names, e]
        rw [if_pos this, e]
        exact ih'.cons_cons _
      · have : decide (a.name ∈ names (b :: B')) = false := by
          simp only [decide_eq_false_iff_not, names, List.map_cons, List.mem_cons, not_or]
          refine ⟨e, ?_⟩
          intro hm
          obtain ⟨p, hp, hpn⟩ := mem_names_C01.1 hm
          have := IdxOK_lb ρ hB.2 p hp
          rw [hpn, hA.1] at this
          omega
        rw [this]
        exact ih'.cons _

theorem merge_pos_order' (ss : List USig) (R : USig) (hwf : ∀ s ∈ ss, WF s.params)
    (hrc : roleCons (ss.map (·.params))) (hR : merge ss = .ok R) :
    ∀ s ∈ ss,
      ((names (positionals R.params)).filter (fun x => x ∈ names (positionals s.params))).Sublist
        (names (positionals s.params)) := by
  have hv : ∀ s ∈ ss, validate s.params = .ok () := fun s hs => WF_validate (hwf s hs)
  obtain ⟨ρ, hρ⟩ := exists_roles (ss.map (·.params))
    (by
      intro ps hps
      obtain ⟨s, hs, rfl⟩ := List.mem_map.1 hps
      exact validate_nodup_C01 (hv s hs)) hrc
  let IsIn : Nat → Prop := fun x => ∃ ps ∈ ss.map (·.params), x ∈ allNames ps
  have hri : ∀ s ∈ ss, RI ρ IsIn (sortParams s) := by
    intro s hs
    have hm : s.params ∈ ss.map (·.params) := List.mem_map.2 ⟨s, hs, rfl⟩
    obtain ⟨h1, h2⟩ := hρ s.params hm
    exact RI_sort s (hv s hs) h1 h2 (fun p hp => ⟨s.params, hm, mem_names_of_mem_C01 hp⟩)
  obtain ⟨s0, ss', res, rfl, hf, hvr, hp⟩ := merge_inv hR
  obtain ⟨hres, _⟩ := mergeFold_accB ss' _ res (hri s0 List.mem_cons_self)
    (fun t ht => hri t (List.mem_cons_of_mem _ ht)) hf
  intro s hs
  have hm : s.params ∈ (s0 :: ss').map (·.params) := List.mem_map.2 ⟨s, hs, rfl⟩
  rw [hp, positionals_all_Laws _ hres.bk]
  exact x10_idxOK_sublist ρ 0 _ _ hres.idx (hρ s.params hm).2

end SV
