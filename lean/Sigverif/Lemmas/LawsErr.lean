/-
  Lemmas/LawsErr.lean — error discipline helper lemmas (C15).
-/
import Sigverif.Props.Defs
namespace SV

theorem validateGo_err_Laws (ps : List Param) (top : Nat) (sd : Bool) (seen : List Nat) (e : Err)
    (h : validateGo top sd seen ps = .error e) : e = .valueError := by
  induction ps generalizing top sd seen with
  | nil => simp [validateGo] at h
  | cons p ps ih =>
    simp only [validateGo] at h
    split at h
    · cases h; rfl
    · split at h
      · cases h; rfl
      · split at h
        · cases h; rfl
        · exact ih _ _ _ h

theorem unbalancedPos_err (side : Side) (l r : Sorted) (ex : Param) (cf : List Param) (st : MState)
    (e : Err) (h : unbalancedPos side l r ex cf st = .error e) : e = .valueError := by
  cases side <;> cases cf <;> simp only [unbalancedPos] at h <;> (repeat' split at h) <;>
    first | (cases h; done) | (cases h; rfl)

theorem phaseP_err (l r : Sorted) (ls rs il ir : List Param) (st : MState) (e : Err)
    (h : phaseP l r ls rs il ir st = .error e) : e = .valueError := by
  fun_induction phaseP l r ls rs il ir st with
  | case1 => cases h
  | case2 _ _ _ _ _ _ _ _ ih => exact ih h
  | case3 lp ls il ir st ih =>
    simp only [bind, Except.bind] at h
    split at h
    · rename_i e' he
      cases h
      exact unbalancedPos_err _ _ _ _ _ _ _ he
    · exact ih _ _ h
  | case4 rp rs il ir st ih =>
    simp only [bind, Except.bind] at h
    split at h
    · rename_i e' he
      cases h
      exact unbalancedPos_err _ _ _ _ _ _ _ he
    · exact ih _ _ h

theorem phaseQ_ind (l r : Sorted) (motive : List Param → List Param → MState → Prop)
  (h1 : ∀ (st : MState), motive [] [] st)
  (h2 : ∀ (lp : Param) (ls : List Param) (rp : Param) (rs : List Param) (st : MState),
        lp.name = rp.name →
          motive ls rs
              { st with
                pok := st.pok ++ [concile lp rp],
                src := addSources st.src lp.name [l.src, r.src] } →
            motive (lp :: ls) (rp :: rs) st)
  (h3 : ∀ (lp : Param) (ls : List Param) (rp : Param) (rs : List Param) (st : MState),
          ¬lp.name = rp.name →
            motive ls rs
                { st with
                  pos := st.pos ++ st.pok.map (·.withKind .po) ++ [(concile lp rp).withKind Kind.po],
                  pok := [],
                  src := addSources st.src lp.name [l.src] } →
              motive (lp :: ls) (rp :: rs) st)
  (h4 : ∀ (lp : Param) (ls : List Param) (st : MState), (∀ (st : MState), motive ls [] st) → motive (lp :: ls) [] st)
  (h5 : ∀ (rp : Param) (rs : List Param) (st : MState),
              (∀ (st : MState), motive [] rs st) → motive [] (rp :: rs) st) :
            ∀ (a a_1 : List Param) (a_2 : MState), motive a a_1 a_2 := by
  intro a b st
  induction a, b, st using phaseQ.induct l r with
  | case1 st => exact h1 st
  | case2 lp ls rp rs st hn ih => exact h2 _ _ _ _ _ hn ih
  | case3 lp ls rp rs st hn ih =>
    apply h3 _ _ _ _ _ hn
    simpa using ih
  | case4 lp ls st ih => exact h4 _ _ _ ih
  | case5 rp rs st ih => exact h5 _ _ _ ih

theorem unbalancedPok_err (side : Side) (l r : Sorted) (ex : Param) (st : MState)
    (e : Err) (h : unbalancedPok side l r ex st = .error e) : e = .valueError := by
  cases side <;> simp only [unbalancedPok] at h <;> (repeat' split at h) <;>
    first | (cases h; done) | (cases h; rfl)

theorem phaseQ_err (l r : Sorted) (il ir : List Param) (st : MState) (e : Err)
    (h : phaseQ l r il ir st = .error e) : e = .valueError := by
  induction il, ir, st using phaseQ_ind l r with
  | h1 => simp [phaseQ] at h
  | h2 _ _ _ _ _ hn ih => rw [phaseQ, if_pos hn] at h; exact ih h
  | h3 _ _ _ _ _ hn ih => rw [phaseQ, if_neg hn] at h; exact ih h
  | h4 lp ls st ih =>
    simp only [phaseQ, bind, Except.bind] at h
    split at h
    · rename_i e' he
      cases h
      exact unbalancedPok_err _ _ _ _ _ _ he
    · exact ih _ h
  | h5 rp rs st ih =>
    simp only [phaseQ, bind, Except.bind] at h
    split at h
    · rename_i e' he
      cases h
      exact unbalancedPok_err _ _ _ _ _ _ he
    · exact ih _ h

theorem mergeUnmatched_err (side : Side) (l r : Sorted) (st : MState)
    (e : Err) (h : mergeUnmatched side l r st = .error e) : e = .valueError := by
  cases side <;> simp only [mergeUnmatched] at h <;> (repeat' split at h) <;>
    first | (cases h; done) | (cases h; rfl)

theorem mergeStep_err' (l r : Sorted) (e : Err) (h : mergeStep l r = .error e) :
    e = .valueError := by
  simp only [mergeStep, bind, Except.bind] at h
  split at h
  · rename_i he; cases h; exact phaseP_err _ _ _ _ _ _ _ _ he
  · split at h
    · rename_i he; cases h; exact phaseQ_err _ _ _ _ _ _ he
    · split at h
      · rename_i he; cases h; exact mergeUnmatched_err _ _ _ _ _ he
      · split at h
        · rename_i he; cases h; exact mergeUnmatched_err _ _ _ _ _ he
        · cases h

theorem mergeFold_err (acc : Sorted) (ss : List USig) (e : Err)
    (h : mergeFold acc ss = .error e) : e = .incompatible := by
  induction ss generalizing acc with
  | nil => cases h
  | cons s ss ih =>
    simp only [mergeFold] at h
    split at h
    · exact ih _ h
    · cases h; rfl

theorem applyParams_err (sig : USig) (s : Sorted) (e : Err)
    (h : applyParams sig s = .error e) : e = .valueError := by
  simp only [applyParams, bind, Except.bind] at h
  split at h
  · rename_i he; cases h; exact validateGo_err_Laws _ _ _ _ _ he
  · cases h

theorem embedFold_err (uva uvk : Bool) (acc : Sorted) (n : Nat) (ss : List USig) (e : Err)
    (h : embedFold uva uvk acc n ss = .error e) : e = .incompatible := by
  induction ss generalizing acc n with
  | nil => cases h
  | cons s ss ih =>
    simp only [embedFold] at h
    split at h
    · exact ih _ _ h
    · cases h; rfl

theorem applyParams_ok (sig : USig) (s : Sorted) (R : USig)
    (h : applyParams sig s = .ok R) :
    validate s.all = .ok () ∧
      R = { params := s.all, src := s.src, depths := s.depths, ret := sig.ret, uret := sig.uret } := by
  simp only [applyParams, bind, Except.bind] at h
  split at h
  · cases h
  · rename_i u hu
    cases u
    simp only [pure, Except.pure] at h
    cases h
    exact ⟨hu, rfl⟩

theorem applyParams_valid (sig : USig) (s : Sorted) (R : USig)
    (h : applyParams sig s = .ok R) : validOk R.params = true := by
  obtain ⟨hv, rfl⟩ := applyParams_ok sig s R h
  simp [validOk, hv]

end SV
