/-
  Lemmas/C10MSteps.lean — the positional phases (P and Q) of a merge step as a transition system
  that remembers WHICH two parameters were conciled into every entry (the system of
  Lemmas/LawsSteps.lean only remembers the name and whether the entry is optional).
-/
import Sigverif.Lemmas.LawsRoles3
namespace SV
set_option linter.unusedSimpArgs false
set_option linter.unusedVariables false

/-- same default, annotation and upgraded annotation -/
def sameMeta (p q : Param) : Prop := p.dflt = q.dflt ∧ p.ann = q.ann ∧ p.uann = q.uann

theorem sameMeta.rfl' (p : Param) : sameMeta p p := ⟨rfl, rfl, rfl⟩
theorem sameMeta.trans {p q r : Param} (h1 : sameMeta p q) (h2 : sameMeta q r) : sameMeta p r :=
  ⟨h1.1.trans h2.1, h1.2.1.trans h2.2.1, h1.2.2.trans h2.2.2⟩
theorem sameMeta_withKind (p : Param) (k : Kind) : sameMeta (p.withKind k) p := ⟨rfl, rfl, rfl⟩

inductive XStep : List Param → List Param → Bk → List Param → List Param → Bk → Prop
  /-- both chains contribute; the entry is the LEFT parameter conciled with the right one -/
  | both (lp rp e : Param) (xs ys : List Param) (b b' : Bk)
      (hn : e.name = lp.name) (hm : sameMeta e (concile lp rp)) (ha : Add e b b') :
      XStep (lp :: xs) (rp :: ys) b xs ys b'
  /-- a positional-only parameter of the right operand absorbs a positional-or-keyword one of the
      left operand: the entry is the RIGHT parameter conciled with the left one -/
  | bothR (lp rp e : Param) (xs ys : List Param) (b b' : Bk)
      (hk : lp.kind = .pk ∧ rp.kind = .po)
      (hn : e.name = rp.name) (hm : sameMeta e (concile rp lp)) (ha : Add e b b') :
      XStep (lp :: xs) (rp :: ys) b xs ys b'
  | left (lp e : Param) (xs : List Param) (b b' : Bk) (hn : e.name = lp.name) (hm : sameMeta e lp)
      (ha : Add e b b') : XStep (lp :: xs) [] b xs [] b'
  | leftDrop (lp : Param) (xs : List Param) (b : Bk) : XStep (lp :: xs) [] b xs [] b
  | leftLimbo (lp q e : Param) (xs : List Param) (b : Bk) (hq : pget b.rUn lp.name = some q)
      (hn : e.name = lp.name) (hm : sameMeta e (concile lp q)) :
      XStep (lp :: xs) [] b xs [] { b with kwo := pset b.kwo e, rUn := ppop b.rUn lp.name }
  | right (rp e : Param) (ys : List Param) (b b' : Bk) (hn : e.name = rp.name) (hm : sameMeta e rp)
      (ha : Add e b b') : XStep [] (rp :: ys) b [] ys b'
  | rightDrop (rp : Param) (ys : List Param) (b : Bk) : XStep [] (rp :: ys) b [] ys b
  | rightLimbo (rp q e : Param) (ys : List Param) (b : Bk) (hq : pget b.lUn rp.name = some q)
      (hn : e.name = rp.name) (hm : sameMeta e (concile rp q)) :
      XStep [] (rp :: ys) b [] ys { b with kwo := pset b.kwo e, lUn := ppop b.lUn rp.name }

inductive XSteps : List Param → List Param → Bk → List Param → List Param → Bk → Prop
  | refl (xs ys : List Param) (b : Bk) : XSteps xs ys b xs ys b
  | head {xs ys xs' ys' xs'' ys'' : List Param} {b b' b'' : Bk} :
      XStep xs ys b xs' ys' b' → XSteps xs' ys' b' xs'' ys'' b'' → XSteps xs ys b xs'' ys'' b''

theorem XSteps.trans {xs ys xs' ys' xs'' ys'' : List Param} {b b' b'' : Bk}
    (h1 : XSteps xs ys b xs' ys' b') (h2 : XSteps xs' ys' b' xs'' ys'' b'') :
    XSteps xs ys b xs'' ys'' b'' := by
  induction h1 with
  | refl => exact h2
  | head s _ ih => exact XSteps.head s (ih h2)

/-- an invariant of single steps is an invariant of runs -/
theorem XSteps.inv (I : List Param → List Param → Bk → Prop)
    (hstep : ∀ xs ys b xs' ys' b', XStep xs ys b xs' ys' b' → I xs ys b → I xs' ys' b')
    {xs ys xs' ys' : List Param} {b b' : Bk}
    (h : XSteps xs ys b xs' ys' b') (h0 : I xs ys b) : I xs' ys' b' := by
  induction h with
  | refl => exact h0
  | head s _ ih => exact ih (hstep _ _ _ _ _ _ s h0)

/-! ### bridge: the code runs are runs of the transition system -/

theorem x10_run_P (l r : Sorted) (ls rs il ir : List Param) (st st' : MState) (il' ir' : List Param)
    (hpok : st.pok = []) (hrs : AllKind .po rs) (hil : AllKind .pk il)
    (h : phaseP l r ls rs il ir st = .ok (st', il', ir')) :
    XSteps (ls ++ il) (rs ++ ir) st.bk il' ir' st'.bk := by
  induction ls, rs, il, ir, st using phaseP.induct l r with
  | case1 il ir st =>
    simp only [phaseP, Except.ok.injEq, Prod.mk.injEq] at h
    obtain ⟨rfl, rfl, rfl⟩ := h
    exact XSteps.refl _ _ _
  | case2 lp ls rp rs il ir st st1 ih =>
    simp only [phaseP] at h
    refine XSteps.head ?_ (ih hpok hrs.tail hil h)
    exact XStep.both lp rp (concile lp rp) _ _ _ _ rfl (sameMeta.rfl' _) (Add.pos hpok)
  | case3 lp ls il ir st ih =>
    simp only [phaseP, bind, Except.bind] at h
    split at h
    · cases h
    · rename_i v hv
      obtain ⟨st1, ir1⟩ := v
      have hpok' : st1.pok = [] := by
        rcases unbalancedPos_step _ _ _ _ _ _ _ _ hv with ⟨o, _, hb⟩ | ⟨_, _, hb⟩ | ⟨_, _, hb, _⟩ <;>
          exact (congrArg Bk.pok hb).trans hpok
      refine XSteps.head ?_ (ih _ _ hpok' hrs hil h)
      rcases unbalancedPos_step _ _ _ _ _ _ _ _ hv with ⟨o, rfl, hb⟩ | ⟨rfl, rfl, hb⟩ | ⟨rfl, rfl, hb, hd⟩
      · rw [hb]
        exact XStep.both lp o (concile lp o) _ _ _ _ rfl (sameMeta.rfl' _) (Add.pos hpok)
      · rw [hb]
        exact XStep.left lp lp _ _ _ rfl (sameMeta.rfl' _) (Add.pos hpok)
      · rw [hb]
        exact XStep.leftDrop lp _ _
  | case4 rp rs il ir st ih =>
    simp only [phaseP, bind, Except.bind] at h
    split at h
    · cases h
    · rename_i v hv
      obtain ⟨st1, il1⟩ := v
      have hpok' : st1.pok = [] := by
        rcases unbalancedPos_step _ _ _ _ _ _ _ _ hv with ⟨o, _, hb⟩ | ⟨_, _, hb⟩ | ⟨_, _, hb, _⟩ <;>
          exact (congrArg Bk.pok hb).trans hpok
      have hil1 : AllKind .pk il1 := by
        rcases unbalancedPos_step _ _ _ _ _ _ _ _ hv with ⟨o, rfl, hb⟩ | ⟨rfl, rfl, hb⟩ | ⟨rfl, rfl, hb, hd⟩
        · exact hil.tail
        · exact hil
        · exact hil
      refine XSteps.head ?_ (ih _ _ hpok' hrs.tail hil1 h)
      rcases unbalancedPos_step _ _ _ _ _ _ _ _ hv with ⟨o, rfl, hb⟩ | ⟨rfl, rfl, hb⟩ | ⟨rfl, rfl, hb, hd⟩
      · rw [hb]
        exact XStep.bothR o rp (concile rp o) _ _ _ _ ⟨hil.head, hrs.head⟩ rfl (sameMeta.rfl' _) (Add.pos hpok)
      · rw [hb]
        exact XStep.right rp rp _ _ _ rfl (sameMeta.rfl' _) (Add.pos hpok)
      · rw [hb]
        exact XStep.rightDrop rp _ _

theorem x10_unbalancedPok_step_L (l r : Sorted) (ex : Param) (st st' : MState)
    (h : unbalancedPok .L l r ex st = .ok st') :
    (∃ q, pget st.rUn ex.name = some q ∧
        st'.bk = { st.bk with kwo := pset st.kwo ((concile ex q).withKind .ko),
                              rUn := ppop st.rUn ex.name }) ∨
    (∃ e, e.name = ex.name ∧ sameMeta e ex ∧ Add e st.bk st'.bk) ∨
    (st'.bk = st.bk) := by
  simp only [unbalancedPok] at h
  split at h
  · rename_i q hq
    simp only [Except.ok.injEq] at h
    subst h
    exact .inl ⟨q, hq, rfl⟩
  · split at h
    · simp only [Except.ok.injEq] at h
      subst h
      exact .inr (.inl ⟨ex, rfl, sameMeta.rfl' _, Add.pok⟩)
    · split at h
      · simp only [Except.ok.injEq] at h
        subst h
        exact .inr (.inl ⟨ex.withKind .ko, rfl, sameMeta_withKind _ _, Add.kwo⟩)
      · split at h
        · simp only [Except.ok.injEq] at h
          subst h
          exact .inr (.inl ⟨ex.withKind .po, rfl, sameMeta_withKind _ _, Add.flush⟩)
        · split at h
          · cases h
          · simp only [Except.ok.injEq] at h
            subst h
            exact .inr (.inr rfl)

theorem x10_unbalancedPok_step_R (l r : Sorted) (ex : Param) (st st' : MState)
    (h : unbalancedPok .R l r ex st = .ok st') :
    (∃ q, pget st.lUn ex.name = some q ∧
        st'.bk = { st.bk with kwo := pset st.kwo ((concile ex q).withKind .ko),
                              lUn := ppop st.lUn ex.name }) ∨
    (∃ e, e.name = ex.name ∧ sameMeta e ex ∧ Add e st.bk st'.bk) ∨
    (st'.bk = st.bk) := by
  simp only [unbalancedPok] at h
  split at h
  · rename_i q hq
    simp only [Except.ok.injEq] at h
    subst h
    exact .inl ⟨q, hq, rfl⟩
  · split at h
    · simp only [Except.ok.injEq] at h
      subst h
      exact .inr (.inl ⟨ex, rfl, sameMeta.rfl' _, Add.pok⟩)
    · split at h
      · simp only [Except.ok.injEq] at h
        subst h
        exact .inr (.inl ⟨ex.withKind .ko, rfl, sameMeta_withKind _ _, Add.kwo⟩)
      · split at h
        · simp only [Except.ok.injEq] at h
          subst h
          exact .inr (.inl ⟨ex.withKind .po, rfl, sameMeta_withKind _ _, Add.flush⟩)
        · split at h
          · cases h
          · simp only [Except.ok.injEq] at h
            subst h
            exact .inr (.inr rfl)

theorem x10_run_Q (l r : Sorted) (il ir : List Param) (st st' : MState)
    (h : phaseQ l r il ir st = .ok st') : XSteps il ir st.bk [] [] st'.bk := by
  induction il, ir, st using phaseQ_ind l r with
  | h1 st =>
    simp only [phaseQ, Except.ok.injEq] at h
    subst h
    exact XSteps.refl _ _ _
  | h2 lp ls rp rs st hn ih =>
    rw [phaseQ, if_pos hn] at h
    refine XSteps.head ?_ (ih h)
    exact XStep.both lp rp (concile lp rp) _ _ _ _ rfl (sameMeta.rfl' _) Add.pok
  | h3 lp ls rp rs st hn ih =>
    rw [phaseQ, if_neg hn] at h
    refine XSteps.head ?_ (ih h)
    exact XStep.both lp rp ((concile lp rp).withKind .po) _ _ _ _ rfl (sameMeta_withKind _ _) Add.flush
  | h4 lp ls st ih =>
    simp only [phaseQ, bind, Except.bind] at h
    split at h
    · cases h
    · rename_i st1 hv
      refine XSteps.head ?_ (ih _ h)
      rcases x10_unbalancedPok_step_L _ _ _ _ _ hv with ⟨q, hq, hb⟩ | ⟨e, hn, hd, ha⟩ | hb
      · rw [hb]
        exact XStep.leftLimbo lp q _ _ _ hq rfl (sameMeta_withKind _ _)
      · exact XStep.left lp e _ _ _ hn hd ha
      · rw [hb]
        exact XStep.leftDrop lp _ _
  | h5 rp rs st ih =>
    simp only [phaseQ, bind, Except.bind] at h
    split at h
    · cases h
    · rename_i st1 hv
      refine XSteps.head ?_ (ih _ h)
      rcases x10_unbalancedPok_step_R _ _ _ _ _ hv with ⟨q, hq, hb⟩ | ⟨e, hn, hd, ha⟩ | hb
      · rw [hb]
        exact XStep.rightLimbo rp q _ _ _ hq rfl (sameMeta_withKind _ _)
      · exact XStep.right rp e _ _ _ hn hd ha
      · rw [hb]
        exact XStep.rightDrop rp _ _

end SV
