/-
  Lemmas/LawsFold.lean — sorting the result of a merge step gives back the bucket record;
  the fold law of merge.
-/
import Sigverif.Lemmas.LawsKinds
namespace SV
set_option linter.unusedSimpArgs false
set_option linter.unusedVariables false

theorem copyDepths_zero_Laws (d : Depths) : copyDepths d 0 = d := by
  unfold copyDepths
  induction d with
  | nil => rfl
  | cons e d ih => simp

theorem filter_eq_self_of_allKind {k : Kind} {ps : List Param} (h : AllKind k ps) :
    ps.filter (·.kind = k) = ps := by
  rw [List.filter_eq_self]
  intro p hp
  simp [h p hp]

theorem filter_eq_nil_of_allKind {k k' : Kind} {ps : List Param} (h : AllKind k ps) (hne : k ≠ k') :
    ps.filter (·.kind = k') = [] := by
  rw [List.filter_eq_nil_iff]
  intro p hp
  simp [h p hp, hne]

theorem allKind_toList {k : Kind} {o : Option Param} (h : ∀ p, o = some p → p.kind = k) :
    AllKind k o.toList := by
  intro p hp
  cases o with
  | none => cases hp
  | some q =>
    simp only [Option.toList_some, List.mem_singleton] at hp
    subst hp
    exact h _ rfl

theorem Option.toList_inj' {α : Type} {a b : Option α} (h : a.toList = b.toList) : a = b := by
  cases a <;> cases b <;> simp_all

theorem filter_all (S : Sorted) (hS : BucketKinds S) :
    S.all.filter (·.kind = .po) = S.pos ∧ S.all.filter (·.kind = .pk) = S.pok ∧
    S.all.filter (·.kind = .vp) = S.va.toList ∧ S.all.filter (·.kind = .ko) = S.kwo ∧
    S.all.filter (·.kind = .vk) = S.vk.toList := by
  have h1 : AllKind .po S.pos := hS.pos
  have h2 : AllKind .pk S.pok := hS.pok
  have h3 : AllKind .vp S.va.toList := allKind_toList hS.va
  have h4 : AllKind .ko S.kwo := hS.kwo
  have h5 : AllKind .vk S.vk.toList := allKind_toList hS.vk
  unfold Sorted.all
  simp only [List.filter_append]
  refine ⟨?_, ?_, ?_, ?_, ?_⟩
  · rw [filter_eq_self_of_allKind h1, filter_eq_nil_of_allKind h2 (by decide),
      filter_eq_nil_of_allKind h3 (by decide), filter_eq_nil_of_allKind h4 (by decide),
      filter_eq_nil_of_allKind h5 (by decide)]
    simp
  · rw [filter_eq_self_of_allKind h2, filter_eq_nil_of_allKind h1 (by decide),
      filter_eq_nil_of_allKind h3 (by decide), filter_eq_nil_of_allKind h4 (by decide),
      filter_eq_nil_of_allKind h5 (by decide)]
    simp
  · rw [filter_eq_self_of_allKind h3, filter_eq_nil_of_allKind h1 (by decide),
      filter_eq_nil_of_allKind h2 (by decide), filter_eq_nil_of_allKind h4 (by decide),
      filter_eq_nil_of_allKind h5 (by decide)]
    simp
  · rw [filter_eq_self_of_allKind h4, filter_eq_nil_of_allKind h1 (by decide),
      filter_eq_nil_of_allKind h2 (by decide), filter_eq_nil_of_allKind h3 (by decide),
      filter_eq_nil_of_allKind h5 (by decide)]
    simp
  · rw [filter_eq_self_of_allKind h5, filter_eq_nil_of_allKind h1 (by decide),
      filter_eq_nil_of_allKind h2 (by decide), filter_eq_nil_of_allKind h3 (by decide),
      filter_eq_nil_of_allKind h4 (by decide)]
    simp

theorem Sorted.ext' (a b : Sorted) (h1 : a.pos = b.pos) (h2 : a.pok = b.pok) (h3 : a.va = b.va)
    (h4 : a.kwo = b.kwo) (h5 : a.vk = b.vk) (h6 : a.src = b.src) (h7 : a.depths = b.depths) : a = b := by
  cases a; cases b; simp_all

/-- sorting the flattened bucket record gives the record back -/
theorem sortGo_all_Laws (S : Sorted) (hS : BucketKinds S) (hn : (names S.all).Nodup) :
    sortGo S.all { src := S.src, depths := copyDepths S.depths 0 } = S := by
  obtain ⟨f1, f2, f3, f4, f5⟩ := filter_all S hS
  apply Sorted.ext'
  · rw [sortGo_pos, f1]; rfl
  · rw [sortGo_pok, f2]; rfl
  · apply Option.toList_inj'
    rw [sortGo_va _ _ (by rw [f3]; cases S.va <;> simp) rfl, f3]
  · rw [sortGo_kwo _ _ hn (by simp [names]), f4]; rfl
  · apply Option.toList_inj'
    rw [sortGo_vk _ _ (by rw [f5]; cases S.vk <;> simp) rfl, f5]
  · rw [(sortGo_src_Laws _ _).1]
  · rw [(sortGo_src_Laws _ _).2, copyDepths_zero_Laws]

theorem merge_two_ok (a b M : USig) (hM : merge [a, b] = .ok M) :
    ∃ S, mergeStep (sortParams a) (sortParams b) = .ok S ∧ validate S.all = .ok () ∧
      M = { params := S.all, src := S.src, depths := S.depths, ret := a.ret, uret := a.uret } := by
  simp only [merge, mergeFold, bind, Except.bind] at hM
  split at hM
  · cases hM
  · rename_i S hS
    split at hS
    · rename_i S' hS'
      simp only [Except.ok.injEq] at hS
      subst hS
      obtain ⟨hv, hM⟩ := applyParams_ok _ _ _ hM
      exact ⟨S', hS', hv, hM⟩
    · cases hS

theorem merge_fold' (a b M : USig) (rest : List USig)
    (hM : merge [a, b] = .ok M) :
    merge (a :: b :: rest) = merge (M :: rest) := by
  obtain ⟨S, hS, hv, rfl⟩ := merge_two_ok a b M hM
  have hk : BucketKinds S :=
    mergeStep_bucketKinds' _ _ _ (sortParams_bucketKinds a) (sortParams_bucketKinds b) hS
  obtain ⟨_, _, hn, _⟩ := validateGo_ok_Laws _ _ _ _ hv
  have hsort : sortParams { params := S.all, src := S.src, depths := S.depths, ret := a.ret,
                            uret := a.uret } = S := by
    unfold sortParams
    exact sortGo_all_Laws S hk hn
  simp only [merge, mergeFold, hS, hsort]
  rfl

end SV
