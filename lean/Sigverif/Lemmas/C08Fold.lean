/-
  Lemmas/C08Fold.lean — provenance well-formedness through the n-ary folds (`merge`, `embed`).
-/
import Sigverif.Lemmas.C08Step
namespace SV
set_option linter.unusedSimpArgs false
set_option linter.unusedVariables false

/-- provenance well-formedness of a signature (C08): exactly one entry per parameter,
    no entry empty, every listed callable has a depth -/
structure ProvWF (u : USig) : Prop where
  keys : ∀ k, dhas u.src k = true ↔ k ∈ names u.params
  ne   : ∀ k, k ∈ names u.params → sget u.src k ≠ []
  dep  : ∀ k f, f ∈ sget u.src k → dhas u.depths f = true

theorem sortParams_srcWF (u : USig) (hwf : WF u.params) (h : ProvWF u) :
    SrcWF (sortParams u) ∧ DepOK (sortParams u).src (sortParams u).depths := by
  have hall := sortParams_all_Laws u hwf
  obtain ⟨_, _, _, _, _, hsrc, hdep⟩ := sortParams_fields u hwf
  refine ⟨⟨?_, ?_⟩, ?_⟩
  · intro k; rw [hall, hsrc]; exact h.keys k
  · intro k hk; rw [hsrc]; rw [hall] at hk; exact h.ne k hk
  · intro k f hf; rw [hsrc] at hf; rw [hdep]; exact h.dep k f hf

theorem mergeFold_src (acc r : Sorted) (ss : List USig)
    (hacc : SrcWF acc) (dacc : DepOK acc.src acc.depths)
    (hss : ∀ s ∈ ss, WF s.params ∧ ProvWF s) (h : mergeFold acc ss = .ok r) :
    SrcWF r ∧ DepOK r.src r.depths ∧
      ∀ k f, f ∈ sget r.src k → f ∈ sget acc.src k ∨ ∃ s ∈ ss, f ∈ sget s.src k := by
  induction ss generalizing acc with
  | nil =>
    simp only [mergeFold, Except.ok.injEq] at h
    subst h
    exact ⟨hacc, dacc, fun k f hf => .inl hf⟩
  | cons s ss ih =>
    simp only [mergeFold] at h
    split at h
    · rename_i acc' hstep
      obtain ⟨hwf, hp⟩ := hss s (by simp)
      obtain ⟨sw, sd⟩ := sortParams_srcWF s hwf hp
      obtain ⟨w1, m1⟩ := mergeStep_srcWF _ _ _ hacc sw hstep
      have d1 := mergeStep_depOK _ _ _ hacc sw dacc sd hstep
      obtain ⟨w2, d2, m2⟩ := ih acc' w1 d1 (fun t ht => hss t (by simp [ht])) h
      refine ⟨w2, d2, ?_⟩
      intro k f hf
      rcases m2 k f hf with h' | ⟨t, ht, h'⟩
      · rcases m1 k f h' with h'' | h''
        · exact .inl h''
        · refine .inr ⟨s, by simp, ?_⟩
          rw [(sortParams_fields s hwf).2.2.2.2.2.1] at h''
          exact h''
      · exact .inr ⟨t, by simp [ht], h'⟩
    · cases h

theorem applyParams_ok_C08 {sig : USig} {s : Sorted} {R : USig} (h : applyParams sig s = .ok R) :
    R.params = s.all ∧ R.src = s.src ∧ R.depths = s.depths := by
  simp only [applyParams, bind, Except.bind] at h
  split at h
  · cases h
  · simp only [pure, Except.pure, Except.ok.injEq] at h
    subst h
    exact ⟨rfl, rfl, rfl⟩

theorem merge_provWF (ss : List USig) (R : USig) (hss : ∀ s ∈ ss, WF s.params ∧ ProvWF s)
    (h : merge ss = .ok R) :
    ProvWF R ∧ ∀ k f, f ∈ sget R.src k → ∃ s ∈ ss, f ∈ sget s.src k := by
  cases ss with
  | nil => simp [merge] at h
  | cons s ss =>
    simp only [merge, bind, Except.bind] at h
    split at h
    · cases h
    · rename_i r hfold
      obtain ⟨hwf, hp⟩ := hss s (by simp)
      obtain ⟨sw, sd⟩ := sortParams_srcWF s hwf hp
      obtain ⟨w, d, m⟩ := mergeFold_src _ _ _ sw sd (fun t ht => hss t (by simp [ht])) hfold
      obtain ⟨e1, e2, e3⟩ := applyParams_ok_C08 h
      refine ⟨⟨?_, ?_, ?_⟩, ?_⟩
      · intro k; rw [e1, e2]; exact w.keys k
      · intro k hk; rw [e2]; rw [e1] at hk; exact w.ne k hk
      · intro k f hf; rw [e2] at hf; rw [e3]; exact d k f hf
      · intro k f hf
        rw [e2] at hf
        rcases m k f hf with h' | ⟨t, ht, h'⟩
        · refine ⟨s, by simp, ?_⟩
          rw [(sortParams_fields s hwf).2.2.2.2.2.1] at h'
          exact h'
        · exact ⟨t, by simp [ht], h'⟩

end SV

namespace SV
set_option linter.unusedSimpArgs false
set_option linter.unusedVariables false
end SV
