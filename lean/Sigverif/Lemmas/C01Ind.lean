/-
  Lemmas/C01Ind.lean — invariant-style induction principles for phase P and phase Q.
  Phase P is presented on the "virtual" remaining lists `ls ++ il` and `rs ++ ir`.
-/
import Sigverif.Lemmas.C01Phases
namespace SV
variable {l r : Sorted}

theorem phaseQ_inv (I : List Param → List Param → MState → Prop)
    (hmatch : ∀ lp rp ls rs st st1, lp.name = rp.name →
      Upd st1 st.pos (st.pok ++ [concile lp rp]) st.kwo st.lUn st.rUn →
      I (lp :: ls) (rp :: rs) st → I ls rs st1)
    (hmis : ∀ lp rp ls rs st st1, lp.name ≠ rp.name →
      Upd st1 (st.pos ++ st.pok.map (·.withKind .po) ++ [(concile lp rp).withKind .po]) []
        st.kwo st.lUn st.rUn →
      I (lp :: ls) (rp :: rs) st → I ls rs st1)
    (hleft : ∀ x ls st st1, unbalancedPok .L l r x st = .ok st1 → I (x :: ls) [] st → I ls [] st1)
    (hright : ∀ x rs st st1, unbalancedPok .R l r x st = .ok st1 → I [] (x :: rs) st → I [] rs st1)
    {ls rs : List Param} {st st' : MState}
    (h : phaseQ l r ls rs st = .ok st') (hI : I ls rs st) : I [] [] st' := by
  induction ls generalizing rs st with
  | nil =>
    induction rs generalizing st with
    | nil => rw [phaseQ_nil] at h; cases h; exact hI
    | cons rp rs ih =>
      rw [phaseQ_nil_cons] at h
      obtain ⟨st1, h1, h2⟩ := bind_eq_ok h
      exact ih h2 (hright _ _ _ _ h1 hI)
  | cons lp ls ih =>
    cases rs with
    | nil =>
      rw [phaseQ_cons_nil] at h
      obtain ⟨st1, h1, h2⟩ := bind_eq_ok h
      exact ih h2 (hleft _ _ _ _ h1 hI)
    | cons rp rs =>
      rw [phaseQ_cons_cons] at h
      split at h
      · next hn => exact ih h (hmatch _ _ _ _ _ _ hn (by exact ⟨rfl, rfl, rfl, rfl, rfl⟩) hI)
      · next hn => exact ih h (hmis _ _ _ _ _ _ hn (by exact ⟨rfl, rfl, rfl, rfl, rfl⟩) hI)

theorem phaseP_inv (I : List Param → List Param → MState → Prop)
    (hpair : ∀ a b A B st st1 c, (c = concile a b ∨ c = concile b a) →
      Upd st1 (st.pos ++ [c]) st.pok st.kwo st.lUn st.rUn → I (a :: A) (b :: B) st → I A B st1)
    (hlva : ∀ x A st st1, r.va.isSome = true →
      Upd st1 (st.pos ++ [x]) st.pok st.kwo st.lUn st.rUn → I (x :: A) [] st → I A [] st1)
    (hldrop : ∀ x A st st1, r.va.isSome = false → x.dflt.isSome = true →
      Upd st1 st.pos st.pok st.kwo st.lUn st.rUn → I (x :: A) [] st → I A [] st1)
    (hrva : ∀ x B st st1, l.va.isSome = true →
      Upd st1 (st.pos ++ [x]) st.pok st.kwo st.lUn st.rUn → I [] (x :: B) st → I [] B st1)
    (hrdrop : ∀ x B st st1, l.va.isSome = false → x.dflt.isSome = true →
      Upd st1 st.pos st.pok st.kwo st.lUn st.rUn → I [] (x :: B) st → I [] B st1)
    {ls rs il ir : List Param} {st st' : MState} {il' ir' : List Param}
    (h : phaseP l r ls rs il ir st = .ok (st', il', ir')) (hI : I (ls ++ il) (rs ++ ir) st) :
    I il' ir' st' := by
  induction ls generalizing rs il ir st with
  | nil =>
    induction rs generalizing il ir st with
    | nil => rw [phaseP_nil] at h; cases h; simpa using hI
    | cons rp rs ih =>
      rw [phaseP_nil_cons] at h
      obtain ⟨⟨st1, il1⟩, h1, h2⟩ := bind_eq_ok h
      apply ih h2
      rcases unbalancedPos_R_inv h1 with ⟨o, rfl, hu⟩ | ⟨rfl, rfl, hva, hu⟩ | ⟨rfl, rfl, hva, hd, hu⟩
      · exact hpair o rp _ _ _ _ _ (Or.inr rfl) hu (by simpa using hI)
      · exact hrva rp _ _ _ hva hu (by simpa using hI)
      · exact hrdrop rp _ _ _ hva hd hu (by simpa using hI)
  | cons lp ls ih =>
    cases rs with
    | nil =>
      rw [phaseP_cons_nil] at h
      obtain ⟨⟨st1, ir1⟩, h1, h2⟩ := bind_eq_ok h
      apply ih h2
      rcases unbalancedPos_L_inv h1 with ⟨o, rfl, hu⟩ | ⟨rfl, rfl, hva, hu⟩ | ⟨rfl, rfl, hva, hd, hu⟩
      · exact hpair lp o _ _ _ _ _ (Or.inl rfl) hu (by simpa using hI)
      · exact hlva lp _ _ _ hva hu (by simpa using hI)
      · exact hldrop lp _ _ _ hva hd hu (by simpa using hI)
    | cons rp rs =>
      rw [phaseP_cons_cons] at h
      apply ih h
      exact hpair lp rp _ _ _ _ _ (Or.inl rfl) (by exact ⟨rfl, rfl, rfl, rfl, rfl⟩)
        (by simpa using hI)

end SV
