/-
  Lemmas/C09RErr.lean — why one `mergeStep` raises: every error point of Model/Merge.lean
  exhibits an *obstruction*, a required parameter of one operand that the other operand cannot
  receive (a required positional parameter at an index beyond the positional capacity of the
  other side, which has no `*args`; or a required keyword-only parameter).
-/
import Sigverif.Lemmas.C01Sound
namespace SV
variable {l r : Sorted}

/-- a required parameter sits at an index `≥ cap` of `xs` -/
def ObstAt (xs : List Param) (cap : Nat) : Prop :=
  ∃ i p, xs[i]? = some p ∧ p.required = true ∧ cap ≤ i

theorem not_ObstAt_nil (cap : Nat) : ¬ ObstAt [] cap := by
  rintro ⟨i, p, h, -⟩; simp at h

theorem ObstAt.mono {xs : List Param} {cap cap' : Nat} (h : ObstAt xs cap) (hle : cap' ≤ cap) :
    ObstAt xs cap' := by
  obtain ⟨i, p, h1, h2, h3⟩ := h
  exact ⟨i, p, h1, h2, Nat.le_trans hle h3⟩

theorem ObstAt.cons {xs : List Param} {cap : Nat} (x : Param) (h : ObstAt xs cap) :
    ObstAt (x :: xs) (cap + 1) := by
  obtain ⟨i, p, h1, h2, h3⟩ := h
  exact ⟨i + 1, p, by simpa using h1, h2, by omega⟩

theorem ObstAt.head {x : Param} (xs : List Param) (hr : x.required = true) : ObstAt (x :: xs) 0 :=
  ⟨0, x, rfl, hr, Nat.le_refl _⟩

/-- an obstruction in a suffix is an obstruction in the whole list, shifted -/
theorem ObstAt.append_left {xs : List Param} {cap : Nat} (pre : List Param) (h : ObstAt xs cap) :
    ObstAt (pre ++ xs) (pre.length + cap) := by
  obtain ⟨i, p, h1, h2, h3⟩ := h
  refine ⟨pre.length + i, p, ?_, h2, by omega⟩
  rw [List.getElem?_append_right (by omega)]
  simpa using h1

/-- with optional parameters forming a suffix, an obstruction bounds the number of required ones -/
theorem ObstAt.reqCount {xs : List Param} {cap : Nat} (hs : OptSuffix xs) (h : ObstAt xs cap) :
    cap < reqCount xs := by
  obtain ⟨i, p, h1, h2, h3⟩ := h
  suffices i < SV.reqCount xs by omega
  clear h3
  induction xs generalizing i with
  | nil => simp at h1
  | cons a t ih =>
    obtain ⟨s1, s2⟩ := List.pairwise_cons.1 hs
    rw [reqCount_cons]
    cases i with
    | zero =>
      simp only [List.getElem?_cons_zero, Option.some.injEq] at h1
      subst h1
      simp only [h2, if_true]
      omega
    | succ j =>
      simp only [List.getElem?_cons_succ] at h1
      have := ih s2 j h1
      have ha : a.required = true := by
        cases ha : a.required
        · have := s1 p (List.mem_of_getElem? h1) ha
          simp [this] at h2
        · rfl
      simp only [ha, if_true]
      omega

/-! ### `_merge_unbalanced_pos` / phase P -/

theorem unbalancedPos_L_err {x : Param} {ir : List Param} {st : MState} {e : Err}
    (h : unbalancedPos .L l r x ir st = .error e) :
    ir = [] ∧ r.va.isSome = false ∧ x.required = true := by
  unfold unbalancedPos at h
  cases ir with
  | cons o rest => simp at h
  | nil =>
    simp only at h
    by_cases hva : r.va.isSome = true
    · simp [hva] at h
    · simp only [hva] at h
      by_cases hd : x.dflt.isNone = true
      · exact ⟨rfl, by simpa using hva, hd⟩
      · simp [hd] at h

theorem unbalancedPos_R_err {x : Param} {il : List Param} {st : MState} {e : Err}
    (h : unbalancedPos .R l r x il st = .error e) :
    il = [] ∧ l.va.isSome = false ∧ x.required = true := by
  unfold unbalancedPos at h
  cases il with
  | cons o rest => simp at h
  | nil =>
    simp only at h
    by_cases hva : l.va.isSome = true
    · simp [hva] at h
    · simp only [hva] at h
      by_cases hd : x.dflt.isNone = true
      · exact ⟨rfl, by simpa using hva, hd⟩
      · simp [hd] at h

theorem unbalancedPos_L_ok_len {x : Param} {ir ir' : List Param} {st st' : MState}
    (h : unbalancedPos .L l r x ir st = .ok (st', ir')) : ir' = ir.drop 1 := by
  rcases unbalancedPos_L_inv h with ⟨o, rfl, -⟩ | ⟨rfl, rfl, -⟩ | ⟨rfl, rfl, -⟩ <;> simp

theorem unbalancedPos_R_ok_len {x : Param} {il il' : List Param} {st st' : MState}
    (h : unbalancedPos .R l r x il st = .ok (st', il')) : il' = il.drop 1 := by
  rcases unbalancedPos_R_inv h with ⟨o, rfl, -⟩ | ⟨rfl, rfl, -⟩ | ⟨rfl, rfl, -⟩ <;> simp

/-- phase P raises only on a required positional-only parameter beyond everything positional the
    other side still has, the other side having no `*args` -/
theorem phaseP_err_obst (ls rs il ir : List Param) (st : MState) (e : Err)
    (h : phaseP l r ls rs il ir st = .error e) :
    (r.va.isSome = false ∧ ObstAt ls (rs.length + ir.length)) ∨
    (l.va.isSome = false ∧ ObstAt rs (ls.length + il.length)) := by
  induction ls generalizing rs il ir st with
  | nil =>
    induction rs generalizing il ir st with
    | nil => rw [phaseP_nil] at h; cases h
    | cons rp rs ih =>
      rw [phaseP_nil_cons] at h
      cases h1 : unbalancedPos .R l r rp il st with
      | error e' =>
        obtain ⟨rfl, hva, hr⟩ := unbalancedPos_R_err h1
        exact Or.inr ⟨hva, ObstAt.head _ hr⟩
      | ok x =>
        obtain ⟨st1, il1⟩ := x
        rw [h1] at h
        have hl := unbalancedPos_R_ok_len h1
        rcases ih il1 ir st1 h with ⟨_, ho⟩ | ⟨hva, ho⟩
        · exact absurd ho (not_ObstAt_nil _)
        · refine Or.inr ⟨hva, (ho.cons rp).mono ?_⟩
          subst hl
          simp only [List.length_nil, Nat.zero_add, List.length_drop]
          omega
  | cons lp ls ih =>
    cases rs with
    | nil =>
      rw [phaseP_cons_nil] at h
      cases h1 : unbalancedPos .L l r lp ir st with
      | error e' =>
        obtain ⟨rfl, hva, hr⟩ := unbalancedPos_L_err h1
        exact Or.inl ⟨hva, ObstAt.head _ hr⟩
      | ok x =>
        obtain ⟨st1, ir1⟩ := x
        rw [h1] at h
        have hl := unbalancedPos_L_ok_len h1
        rcases ih [] il ir1 st1 h with ⟨hva, ho⟩ | ⟨_, ho⟩
        · refine Or.inl ⟨hva, (ho.cons lp).mono ?_⟩
          subst hl
          simp only [List.length_nil, Nat.zero_add, List.length_drop]
          omega
        · exact absurd ho (not_ObstAt_nil _)
    | cons rp rs =>
      rw [phaseP_cons_cons] at h
      rcases ih rs il ir _ h with ⟨hva, ho⟩ | ⟨hva, ho⟩
      · refine Or.inl ⟨hva, (ho.cons lp).mono ?_⟩
        simp only [List.length_cons]; omega
      · refine Or.inr ⟨hva, (ho.cons rp).mono ?_⟩
        simp only [List.length_cons]; omega

/-- what phase P leaves of the two `pokargs` iterators -/
theorem phaseP_ok_drop (ls rs il ir : List Param) (st st' : MState) (il' ir' : List Param)
    (h : phaseP l r ls rs il ir st = .ok (st', il', ir')) :
    il' = il.drop (rs.length - ls.length) ∧ ir' = ir.drop (ls.length - rs.length) := by
  induction ls generalizing rs il ir st with
  | nil =>
    induction rs generalizing il ir st with
    | nil => rw [phaseP_nil] at h; cases h; simp
    | cons rp rs ih =>
      rw [phaseP_nil_cons] at h
      obtain ⟨⟨st1, il1⟩, h1, h2⟩ := bind_eq_ok h
      have hl := unbalancedPos_R_ok_len h1
      obtain ⟨i1, i2⟩ := ih il1 ir st1 h2
      subst hl
      refine ⟨?_, by simpa using i2⟩
      rw [i1]
      simp only [List.length_nil, Nat.sub_zero, List.length_cons, List.drop_drop]
      congr 1; omega
  | cons lp ls ih =>
    cases rs with
    | nil =>
      rw [phaseP_cons_nil] at h
      obtain ⟨⟨st1, ir1⟩, h1, h2⟩ := bind_eq_ok h
      have hl := unbalancedPos_L_ok_len h1
      obtain ⟨i1, i2⟩ := ih [] il ir1 st1 h2
      subst hl
      refine ⟨by simpa using i1, ?_⟩
      rw [i2]
      simp only [List.length_nil, Nat.sub_zero, List.length_cons, List.drop_drop]
      congr 1; omega
    | cons rp rs =>
      rw [phaseP_cons_cons] at h
      obtain ⟨i1, i2⟩ := ih rs il ir _ h
      simp only [List.length_cons, Nat.add_sub_add_right]
      exact ⟨i1, i2⟩

/-! ### `_merge_unbalanced_pok` / phase Q -/

theorem unbalancedPok_L_err {x : Param} {st : MState} {e : Err}
    (h : unbalancedPok .L l r x st = .error e) :
    r.va.isSome = false ∧ r.vk.isSome = false ∧ x.required = true := by
  unfold unbalancedPok at h
  simp only at h
  cases hq : pget st.rUn x.name with
  | some q => simp [hq] at h
  | none =>
    simp only [hq] at h
    by_cases hva : r.va.isSome = true <;> by_cases hvk : r.vk.isSome = true
    · simp [hva, hvk] at h
    · simp [hva, hvk] at h
    · simp [hva, hvk] at h
    · simp only [hva, hvk, Bool.false_and, Bool.false_eq_true, if_false] at h
      by_cases hd : x.dflt.isNone = true
      · exact ⟨by simpa using hva, by simpa using hvk, hd⟩
      · simp [hd] at h

theorem unbalancedPok_R_err {x : Param} {st : MState} {e : Err}
    (h : unbalancedPok .R l r x st = .error e) :
    l.va.isSome = false ∧ l.vk.isSome = false ∧ x.required = true := by
  unfold unbalancedPok at h
  simp only at h
  cases hq : pget st.lUn x.name with
  | some q => simp [hq] at h
  | none =>
    simp only [hq] at h
    by_cases hva : l.va.isSome = true <;> by_cases hvk : l.vk.isSome = true
    · simp [hva, hvk] at h
    · simp [hva, hvk] at h
    · simp [hva, hvk] at h
    · simp only [hva, hvk, Bool.false_and, Bool.false_eq_true, if_false] at h
      by_cases hd : x.dflt.isNone = true
      · exact ⟨by simpa using hva, by simpa using hvk, hd⟩
      · simp [hd] at h

/-- phase Q raises only on a required positional-or-keyword parameter beyond the other side's
    remaining ones, the other side having neither `*args` nor `**kwargs` -/
theorem phaseQ_err_obst (il ir : List Param) (st : MState) (e : Err)
    (h : phaseQ l r il ir st = .error e) :
    (r.va.isSome = false ∧ r.vk.isSome = false ∧ ObstAt il ir.length) ∨
    (l.va.isSome = false ∧ l.vk.isSome = false ∧ ObstAt ir il.length) := by
  induction il generalizing ir st with
  | nil =>
    induction ir generalizing st with
    | nil => rw [phaseQ_nil] at h; cases h
    | cons rp rs ih =>
      rw [phaseQ_nil_cons] at h
      cases h1 : unbalancedPok .R l r rp st with
      | error e' =>
        obtain ⟨hva, hvk, hr⟩ := unbalancedPok_R_err h1
        exact Or.inr ⟨hva, hvk, ObstAt.head _ hr⟩
      | ok st1 =>
        rw [h1] at h
        rcases ih st1 h with ⟨_, _, ho⟩ | ⟨hva, hvk, ho⟩
        · exact absurd ho (not_ObstAt_nil _)
        · exact Or.inr ⟨hva, hvk, (ho.cons rp).mono (by simp)⟩
  | cons lp ls ih =>
    cases ir with
    | nil =>
      rw [phaseQ_cons_nil] at h
      cases h1 : unbalancedPok .L l r lp st with
      | error e' =>
        obtain ⟨hva, hvk, hr⟩ := unbalancedPok_L_err h1
        exact Or.inl ⟨hva, hvk, ObstAt.head _ hr⟩
      | ok st1 =>
        rw [h1] at h
        rcases ih [] st1 h with ⟨hva, hvk, ho⟩ | ⟨_, _, ho⟩
        · exact Or.inl ⟨hva, hvk, (ho.cons lp).mono (by simp)⟩
        · exact absurd ho (not_ObstAt_nil _)
    | cons rp rs =>
      rw [phaseQ_cons_cons] at h
      split at h
      · rcases ih rs _ h with ⟨hva, hvk, ho⟩ | ⟨hva, hvk, ho⟩
        · exact Or.inl ⟨hva, hvk, (ho.cons lp).mono (by simp)⟩
        · exact Or.inr ⟨hva, hvk, (ho.cons rp).mono (by simp)⟩
      · rcases ih rs _ h with ⟨hva, hvk, ho⟩ | ⟨hva, hvk, ho⟩
        · exact Or.inl ⟨hva, hvk, (ho.cons lp).mono (by simp)⟩
        · exact Or.inr ⟨hva, hvk, (ho.cons rp).mono (by simp)⟩

/-- the limbo dictionaries only shrink during phase Q -/
theorem phaseQ_un_sub (il ir : List Param) (st st' : MState)
    (h : phaseQ l r il ir st = .ok st') :
    (∀ p ∈ st'.lUn, p ∈ st.lUn) ∧ (∀ p ∈ st'.rUn, p ∈ st.rUn) := by
  induction il generalizing ir st with
  | nil =>
    induction ir generalizing st with
    | nil => rw [phaseQ_nil] at h; cases h; exact ⟨fun _ h => h, fun _ h => h⟩
    | cons rp rs ih =>
      rw [phaseQ_nil_cons] at h
      obtain ⟨st1, h1, h2⟩ := bind_eq_ok h
      obtain ⟨i1, i2⟩ := ih st1 h2
      rcases unbalancedPok_R_inv h1 with ⟨q, -, hu⟩ | ⟨-, -, -, hu⟩ | ⟨-, -, hu⟩ | ⟨-, -, hu⟩ |
        ⟨-, -, -, -, hu⟩
      · refine ⟨fun p hp => ?_, fun p hp => hu.2.2.2.2 ▸ i2 p hp⟩
        have := i1 p hp
        rw [hu.2.2.2.1] at this
        exact (mem_ppop_C01.1 this).1
      all_goals exact ⟨fun p hp => hu.2.2.2.1 ▸ i1 p hp, fun p hp => hu.2.2.2.2 ▸ i2 p hp⟩
  | cons lp ls ih =>
    cases ir with
    | nil =>
      rw [phaseQ_cons_nil] at h
      obtain ⟨st1, h1, h2⟩ := bind_eq_ok h
      obtain ⟨i1, i2⟩ := ih [] st1 h2
      rcases unbalancedPok_L_inv h1 with ⟨q, -, hu⟩ | ⟨-, -, -, hu⟩ | ⟨-, -, hu⟩ | ⟨-, -, hu⟩ |
        ⟨-, -, -, -, hu⟩
      · refine ⟨fun p hp => hu.2.2.2.1 ▸ i1 p hp, fun p hp => ?_⟩
        have := i2 p hp
        rw [hu.2.2.2.2] at this
        exact (mem_ppop_C01.1 this).1
      all_goals exact ⟨fun p hp => hu.2.2.2.1 ▸ i1 p hp, fun p hp => hu.2.2.2.2 ▸ i2 p hp⟩
    | cons rp rs =>
      rw [phaseQ_cons_cons] at h
      split at h
      · have := ih rs _ h; exact this
      · have := ih rs _ h; exact this

/-! ### `_merge_unmatched_kwoargs` -/

theorem mergeUnmatched_L_err {st : MState} {e : Err} (h : mergeUnmatched .L l r st = .error e) :
    anyReq st.lUn := by
  unfold mergeUnmatched at h
  simp only at h
  by_cases he : st.lUn.isEmpty = true
  · simp [he] at h
  · simp only [he, Bool.false_eq_true, if_false] at h
    by_cases hvk : r.vk.isSome = true
    · simp [hvk] at h
    · simp only [hvk, Bool.false_eq_true, if_false] at h
      by_cases ha : (st.lUn.any (·.dflt.isNone)) = true
      · obtain ⟨p, hp, hd⟩ := List.any_eq_true.1 ha
        exact ⟨p, hp, hd⟩
      · simp [ha] at h

theorem mergeUnmatched_R_err {st : MState} {e : Err} (h : mergeUnmatched .R l r st = .error e) :
    anyReq st.rUn := by
  unfold mergeUnmatched at h
  simp only at h
  by_cases he : st.rUn.isEmpty = true
  · simp [he] at h
  · simp only [he, Bool.false_eq_true, if_false] at h
    by_cases hvk : l.vk.isSome = true
    · simp [hvk] at h
    · simp only [hvk, Bool.false_eq_true, if_false] at h
      by_cases ha : (st.rUn.any (·.dflt.isNone)) = true
      · obtain ⟨p, hp, hd⟩ := List.any_eq_true.1 ha
        exact ⟨p, hp, hd⟩
      · simp [ha] at h

end SV
