/-
  Lemmas/C12Spec.lean — the advertised signature `pokSpec'` of a valid signature is valid.
-/
import Sigverif.Lemmas.C12Prep
namespace SV
set_option linter.unusedSimpArgs false

theorem pokSpec'_countP_name (F : List Param) (P W : List Nat) (x : Nat) :
    (pokSpec' F P W).countP (fun p => p.name = x) ≤ F.countP (fun p => p.name = x) := by
  induction F with
  | nil => simp [pokSpec']
  | cons p F ih =>
    simp only [pokSpec', List.filter_cons] at ih ⊢
    cases hk : p.kind <;> by_cases hw : p.name ∈ W <;> by_cases hP : p.name ∈ P <;>
      simp [hk, hw, hP, List.countP_append, List.countP_cons, Param.withKind] at ih ⊢ <;> omega

theorem pokSpec'_countP_vp (F : List Param) (P W : List Nat) :
    (pokSpec' F P W).countP (fun p => p.kind = .vp) ≤ F.countP (fun p => p.kind = .vp) := by
  induction F with
  | nil => simp [pokSpec']
  | cons p F ih =>
    simp only [pokSpec', List.filter_cons] at ih ⊢
    cases hk : p.kind <;> by_cases hw : p.name ∈ W <;> by_cases hP : p.name ∈ P <;>
      simp [hk, hw, hP, List.countP_append, List.countP_cons, Param.withKind] at ih ⊢ <;> omega

theorem pokSpec'_countP_vk (F : List Param) (P W : List Nat) :
    (pokSpec' F P W).countP (fun p => p.kind = .vk) ≤ F.countP (fun p => p.kind = .vk) := by
  induction F with
  | nil => simp [pokSpec']
  | cons p F ih =>
    simp only [pokSpec', List.filter_cons] at ih ⊢
    cases hk : p.kind <;> by_cases hw : p.name ∈ W <;> by_cases hP : p.name ∈ P <;>
      simp [hk, hw, hP, List.countP_append, List.countP_cons, Param.withKind] at ih ⊢ <;> omega

theorem namesDistinct_iff_countP (l : List Param) :
    NamesDistinct l ↔ ∀ x, l.countP (fun p => p.name = x) ≤ 1 := by
  induction l with
  | nil => simp [NamesDistinct]
  | cons p l ih =>
    simp only [NamesDistinct, List.pairwise_cons] at ih ⊢
    rw [ih]
    constructor
    · rintro ⟨h1, h2⟩ x
      rw [List.countP_cons]
      by_cases hx : p.name = x
      · have : l.countP (fun p => p.name = x) = 0 := by
          rw [List.countP_eq_zero]; intro q hq; simp; rw [← hx]; exact fun h => h1 q hq h.symm
        simp [hx, this]
      · have := h2 x; simp [hx]; exact this
    · intro h
      refine ⟨fun q hq hne => ?_, fun x => ?_⟩
      · have := h p.name
        rw [List.countP_cons] at this
        have hpos : 0 < l.countP (fun r => r.name = p.name) := by
          rw [List.countP_pos_iff]; exact ⟨q, hq, by simp [hne]⟩
        simp only [decide_true, ↓reduceIte] at this; omega
      · have := h x; rw [List.countP_cons] at this; omega

theorem pokSpec'_namesDistinct (F : List Param) (P W : List Nat) (h : NamesDistinct F) :
    NamesDistinct (pokSpec' F P W) := by
  rw [namesDistinct_iff_countP] at h ⊢
  intro x
  exact Nat.le_trans (pokSpec'_countP_name F P W x) (h x)

theorem rs_append {a b : List Param} (r : Nat) (ha : RankSorted_C12 a) (hb : RankSorted_C12 b)
    (h1 : ∀ p ∈ a, p.kind.rank ≤ r) (h2 : ∀ p ∈ b, r ≤ p.kind.rank) : RankSorted_C12 (a ++ b) := by
  unfold RankSorted_C12 at *
  rw [List.pairwise_append]
  exact ⟨ha, hb, fun p hp q hq => Nat.le_trans (h1 p hp) (h2 q hq)⟩

theorem rs_const (l : List Param) (r : Nat) (h : ∀ p ∈ l, p.kind.rank = r) : RankSorted_C12 l := by
  unfold RankSorted_C12
  induction l with
  | nil => simp
  | cons a l ih =>
    rw [List.pairwise_cons]
    refine ⟨fun q hq => ?_, ih (fun p hp => h p (by simp [hp]))⟩
    rw [h a (by simp), h q (by simp [hq])]
    exact Nat.le_refl _

def S1 (F : List Param) (P W : List Nat) : List Param :=
  (F.filter (fun p => (p.kind = .po || p.kind = .pk) && !W.contains p.name)).map
      (fun p => if P.contains p.name then p.withKind .po else p)

theorem mem_S1_rank {F : List Param} {P W : List Nat} {p : Param} (h : p ∈ S1 F P W) :
    p.kind = .po ∨ p.kind = .pk := by
  simp only [S1, List.mem_map, List.mem_filter] at h
  obtain ⟨q, ⟨-, hq⟩, rfl⟩ := h
  split
  · simp [Param.withKind]
  · simp at hq; exact hq.1

theorem S1_rankSorted (F : List Param) (P W : List Nat) (hs : RankSorted_C12 F)
    (hpw : F.Pairwise (fun p q => isKept P W p = true → isPpk P q = false)) :
    RankSorted_C12 (S1 F P W) := by
  unfold S1 RankSorted_C12
  rw [List.pairwise_map]
  rw [List.pairwise_filter]
  have := List.Pairwise.and hs hpw
  refine this.imp ?_
  rintro p q ⟨h1, h2⟩ hp hq
  simp only [Bool.and_eq_true, Bool.or_eq_true, decide_eq_true_eq, Bool.not_eq_true',
    List.contains_eq_mem, decide_eq_false_iff_not] at hp hq
  by_cases hP : p.name ∈ P
  · simp [hP, Param.withKind, Kind.rank]
  · simp only [List.contains_eq_mem, hP, decide_false, Bool.false_eq_true, ↓reduceIte]
    rcases hp.1 with hk | hk
    · simp [hk, Kind.rank]
    · have hq2 : isPpk P q = false := h2 (by simp [isKept, hk, hP, hp.2])
      have hqk : q.kind = .pk := by
        rcases hq.1 with h | h
        · rw [hk, h] at h1; simp [Kind.rank] at h1
        · exact h
      have : q.name ∉ P := by simpa [isPpk, hqk] using hq2
      simp [this, h1]

theorem pokSpec'_eq (F : List Param) (P W : List Nat) :
    pokSpec' F P W = S1 F P W ++ F.filter (fun p => p.kind = .vp) ++ F.filter (fun p => p.kind = .ko)
      ++ (F.filter (fun p => p.kind = .pk && W.contains p.name)).map (·.withKind .ko)
      ++ F.filter (fun p => p.kind = .vk) := rfl

theorem pokSpec'_rankSorted (F : List Param) (P W : List Nat) (hs : RankSorted_C12 F)
    (hpw : F.Pairwise (fun p q => isKept P W p = true → isPpk P q = false)) :
    RankSorted_C12 (pokSpec' F P W) := by
  rw [pokSpec'_eq]
  have m1 : ∀ p ∈ S1 F P W, p.kind.rank ≤ 1 := by
    intro p hp; rcases mem_S1_rank hp with h | h <;> simp [h, Kind.rank]
  have m2 : ∀ p ∈ F.filter (fun p => p.kind = .vp), p.kind.rank = 2 := by
    intro p hp; have := (List.mem_filter.1 hp).2; simp at this; simp [this, Kind.rank]
  have m3 : ∀ p ∈ F.filter (fun p => p.kind = .ko), p.kind.rank = 3 := by
    intro p hp; have := (List.mem_filter.1 hp).2; simp at this; simp [this, Kind.rank]
  have m4 : ∀ p ∈ (F.filter (fun p => p.kind = .pk && W.contains p.name)).map (·.withKind .ko),
      p.kind.rank = 3 := by
    intro p hp; simp only [List.mem_map] at hp; obtain ⟨q, -, rfl⟩ := hp; simp [Param.withKind, Kind.rank]
  have m5 : ∀ p ∈ F.filter (fun p => p.kind = .vk), p.kind.rank = 4 := by
    intro p hp; have := (List.mem_filter.1 hp).2; simp at this; simp [this, Kind.rank]
  refine rs_append 4 (rs_append 3 (rs_append 3 (rs_append 2 (S1_rankSorted F P W hs hpw) (rs_const _ 2 m2) ?_ ?_)
    (rs_const _ 3 m3) ?_ ?_) (rs_const _ 3 m4) ?_ ?_) (rs_const _ 4 m5) ?_ ?_
  · intro p hp; have := m1 p hp; omega
  · intro p hp; have := m2 p hp; omega
  · intro p hp; rcases List.mem_append.1 hp with h | h
    · have := m1 p h; omega
    · have := m2 p h; omega
  · intro p hp; have := m3 p hp; omega
  · intro p hp; rcases List.mem_append.1 hp with h | h
    · rcases List.mem_append.1 h with h | h
      · have := m1 p h; omega
      · have := m2 p h; omega
    · have := m3 p h; omega
  · intro p hp; have := m4 p hp; omega
  · intro p hp; cases p.kind <;> simp [Kind.rank]
  · intro p hp; have := m5 p hp; omega

theorem positionals_pokSpec' (F : List Param) (P W : List Nat) :
    positionals (pokSpec' F P W) = S1 F P W := by
  rw [pokSpec'_eq]
  simp only [positionals, List.filter_append]
  have e1 : (S1 F P W).filter isPositional = S1 F P W := by
    rw [List.filter_eq_self]; intro p hp
    rcases mem_S1_rank hp with h | h <;> simp [isPositional, h]
  have e2 : (F.filter (fun p => p.kind = .vp)).filter isPositional = [] := by
    rw [List.filter_eq_nil_iff]; intro p hp
    have := (List.mem_filter.1 hp).2; simp at this; simp [isPositional, this]
  have e3 : (F.filter (fun p => p.kind = .ko)).filter isPositional = [] := by
    rw [List.filter_eq_nil_iff]; intro p hp
    have := (List.mem_filter.1 hp).2; simp at this; simp [isPositional, this]
  have e4 : ((F.filter (fun p => p.kind = .pk && W.contains p.name)).map (·.withKind .ko)).filter
      isPositional = [] := by
    rw [List.filter_eq_nil_iff]; intro p hp
    simp only [List.mem_map] at hp; obtain ⟨q, -, rfl⟩ := hp; simp [Param.withKind, isPositional]
  have e5 : (F.filter (fun p => p.kind = .vk)).filter isPositional = [] := by
    rw [List.filter_eq_nil_iff]; intro p hp
    have := (List.mem_filter.1 hp).2; simp at this; simp [isPositional, this]
  rw [e1, e2, e3, e4, e5]; simp

theorem S1_eq (F : List Param) (P W : List Nat) :
    S1 F P W = ((positionals F).filter (fun p => !W.contains p.name)).map
      (fun p => if P.contains p.name then p.withKind .po else p) := by
  unfold S1 positionals
  rw [List.filter_filter]
  congr 1
  apply List.filter_congr
  intro p _
  simp [isPositional, Bool.and_comm]

theorem pokSpec'_defSuffix (F : List Param) (P W : List Nat) (h : DefSuffix F) :
    DefSuffix (pokSpec' F P W) := by
  unfold DefSuffix at *
  rw [positionals_pokSpec', S1_eq, List.pairwise_map]
  apply List.Pairwise.filter
  refine h.imp ?_
  intro p q hpq
  have e : ∀ r : Param, (if P.contains r.name = true then r.withKind .po else r).dflt = r.dflt := by
    intro r; split <;> simp [Param.withKind]
  rw [e, e]; exact hpq

theorem pokSpec'_valid (F : List Param) (P W : List Nat) (hwf : WF F)
    (hpw : F.Pairwise (fun p q => isKept P W p = true → isPpk P q = false)) :
    validate (pokSpec' F P W) = .ok () ∧ WF (pokSpec' F P W) := by
  obtain ⟨h1, h2, h3⟩ := hwf
  obtain ⟨hs, hn, hdf⟩ := validOk_iff_C12.1 h1
  have hv : RankSorted_C12 (pokSpec' F P W) ∧ NamesDistinct (pokSpec' F P W) ∧ DefSuffix (pokSpec' F P W) :=
    ⟨pokSpec'_rankSorted F P W hs hpw, pokSpec'_namesDistinct F P W hn, pokSpec'_defSuffix F P W hdf⟩
  refine ⟨validate_ok_iff_C12.2 hv, validOk_iff_C12.2 hv, ?_, ?_⟩
  · rw [← List.countP_eq_length_filter] at h2 ⊢
    exact Nat.le_trans (pokSpec'_countP_vp F P W) h2
  · rw [← List.countP_eq_length_filter] at h3 ⊢
    exact Nat.le_trans (pokSpec'_countP_vk F P W) h3

theorem any_contains_false_iff (P W : List Nat) :
    P.any (fun x => W.contains x) = false ↔ ∀ x ∈ P, x ∉ W := by
  simp [List.any_eq_false]

theorem admissible'_no_po_W {F : List Param} {P W : List Nat} (hn : NamesDistinct F)
    (h : admissible' F P W) : ∀ p ∈ F, p.kind = .po → p.name ∉ W := by
  intro p hp hk hw
  obtain ⟨q, hq, hqn, hqk⟩ := h.2.2.1 _ hw
  have := hn.eq_of_name hq hp hqn
  subst this
  rw [hk] at hqk
  rcases hqk with h | h <;> cases h

theorem prepare_of_admissible (F : List Param) (P W : List Nat) (hwf : WF F)
    (h : admissible' F P W) :
    prepare F P W = .ok (pokSpec' F P W, kwPosFrom P W 0 F) := by
  obtain ⟨hs, hn, hdf⟩ := validOk_iff_C12.1 hwf.1
  have hd := h.1
  obtain ⟨hspec, hempty⟩ := (admissible_iff F hn hd).2 h
  have hloop : prepLoop P W (st0 P W) 0 F = .ok (loopRes P W (st0 P W) 0 F) :=
    prepLoop_ok_iff.2 ⟨(loopCond_iff _ _ _ hn).2 hspec, rfl⟩
  have hfin : finalParams (loopRes P W (st0 P W) 0 F) = pokSpec' F P W := by
    rw [finalParams_loopRes F hs hwf.2.2, advParams_eq_pokSpec F hs hd (admissible'_no_po_W hn h)]
  rw [prepare_eq, (any_contains_false_iff P W).2 hd, hloop]
  simp only [Bool.false_eq_true, ↓reduceIte, hempty, List.isEmpty_nil, Bool.not_true, hfin,
    (pokSpec'_valid F P W hwf hspec.2.1).1, loopRes_kwopos]
  simp [st0]

theorem admissible_of_prepare (F : List Param) (P W : List Nat) (hwf : WF F)
    (r : List Param × List (Nat × Param)) (h : prepare F P W = .ok r) : admissible' F P W := by
  obtain ⟨hs, hn, hdf⟩ := validOk_iff_C12.1 hwf.1
  rw [prepare_eq] at h
  split at h
  · cases h
  · rename_i hany
    have hd := (any_contains_false_iff P W).1 (by simpa using hany)
    split at h
    · cases h
    · rename_i st hst
      obtain ⟨hc, rfl⟩ := prepLoop_ok_iff.1 hst
      split at h
      · cases h
      · rename_i hemp
        refine (admissible_iff F hn hd).1 ⟨(loopCond_iff _ _ _ hn).1 hc, ?_⟩
        simpa using hemp

theorem prepare_error (F : List Param) (P W : List Nat) (hwf : WF F) (e : Err)
    (h : prepare F P W = .error e) : e = .valueError := by
  obtain ⟨hs, hn, hdf⟩ := validOk_iff_C12.1 hwf.1
  rw [prepare_eq] at h
  split at h
  · cases h; rfl
  · split at h
    · rename_i e' hst
      cases h
      refine prepLoop_err _ _ _ _ hn (fun p _ _ hx => ?_) hst
      simpa [st0, mem_dedup] using hx
    · split at h
      · cases h; rfl
      · split at h
        · rename_i e' hv; cases h; exact validate_err_C12 hv
        · cases h

end SV
