/-
  Lemmas/C01Basic.lean — elementary facts about the OrderedDict-of-parameters operations,
  `concile`, and the counting function used for all-positional acceptance.
-/
import Sigverif.Props.Defs
namespace SV

/-! ### names -/

@[simp] theorem names_nil_C01 : names [] = [] := rfl
@[simp] theorem names_cons_C01 (p : Param) (ps : List Param) : names (p :: ps) = p.name :: names ps := rfl
@[simp] theorem names_append_C01 (a b : List Param) : names (a ++ b) = names a ++ names b := by
  simp [names]
theorem mem_names_C01 {x : Nat} {ps : List Param} : x ∈ names ps ↔ ∃ p ∈ ps, p.name = x := by
  simp [names]
theorem mem_names_of_mem_C01 {p : Param} {ps : List Param} (h : p ∈ ps) : p.name ∈ names ps :=
  mem_names_C01.2 ⟨p, h, rfl⟩

/-! ### withKind / withDflt / concile -/

@[simp] theorem withKind_name_C01 (p : Param) (k : Kind) : (p.withKind k).name = p.name := rfl
@[simp] theorem withKind_kind_C01 (p : Param) (k : Kind) : (p.withKind k).kind = k := rfl
@[simp] theorem withKind_dflt_C01 (p : Param) (k : Kind) : (p.withKind k).dflt = p.dflt := rfl
@[simp] theorem withKind_required_C01 (p : Param) (k : Kind) : (p.withKind k).required = p.required := rfl

@[simp] theorem concile_name_C01 (l r : Param) : (concile l r).name = l.name := rfl
@[simp] theorem concile_kind_C01 (l r : Param) : (concile l r).kind = l.kind := rfl
theorem concile_dflt_isSome_C01 (l r : Param) :
    (concile l r).dflt.isSome = (l.dflt.isSome && r.dflt.isSome) := by
  unfold concile
  cases hl : l.dflt <;> cases hr : r.dflt <;> simp
  split <;> simp
@[simp] theorem concile_required (l r : Param) :
    (concile l r).required = (l.required || r.required) := by
  have := concile_dflt_isSome_C01 l r
  unfold Param.required
  cases h1 : (concile l r).dflt <;> cases h2 : l.dflt <;> cases h3 : r.dflt <;> simp_all

@[simp] theorem names_map_withKind_C01 (ps : List Param) (k : Kind) :
    names (ps.map (·.withKind k)) = names ps := by
  simp [names, Function.comp_def]

/-! ### pget / phas / pset / ppop / pupdate -/

theorem pget_some_C01 {d : List Param} {k : Nat} {q : Param} (h : pget d k = some q) :
    q ∈ d ∧ q.name = k := by
  unfold pget at h
  exact ⟨List.mem_of_find?_eq_some h, by simpa using List.find?_some h⟩

theorem pget_eq_none_C01 {d : List Param} {k : Nat} : pget d k = none ↔ k ∉ names d := by
  unfold pget
  simp [mem_names_C01]

theorem phas_iff {d : List Param} {k : Nat} : phas d k = true ↔ k ∈ names d := by
  unfold phas; simp [mem_names_C01]

theorem phas_false_iff {d : List Param} {k : Nat} : phas d k = false ↔ k ∉ names d := by
  rw [← phas_iff]; simp

theorem mem_pset_C01 {d : List Param} {p y : Param} (h : y ∈ pset d p) : y ∈ d ∨ y = p := by
  induction d with
  | nil => simp [pset] at h; exact Or.inr h
  | cons q t ih =>
    simp only [pset] at h
    split at h
    · simp at h; rcases h with h | h
      · exact Or.inr h
      · exact Or.inl (List.mem_cons_of_mem _ h)
    · simp at h; rcases h with h | h
      · exact Or.inl (h ▸ List.mem_cons_self)
      · rcases ih h with h | h
        · exact Or.inl (List.mem_cons_of_mem _ h)
        · exact Or.inr h

theorem pset_of_not_mem_C01 {d : List Param} {p : Param} (h : p.name ∉ names d) :
    pset d p = d ++ [p] := by
  induction d with
  | nil => rfl
  | cons q t ih =>
    simp only [names_cons_C01, List.mem_cons, not_or] at h
    have hq : ¬ q.name = p.name := fun e => h.1 e.symm
    simp [pset, hq, ih h.2]

theorem mem_ppop_C01 {d : List Param} {k : Nat} {y : Param} : y ∈ ppop d k ↔ y ∈ d ∧ y.name ≠ k := by
  simp [ppop]

theorem ppop_sublist (d : List Param) (k : Nat) : (ppop d k).Sublist d := by
  unfold ppop; exact List.filter_sublist

theorem names_ppop_sublist (d : List Param) (k : Nat) : (names (ppop d k)).Sublist (names d) :=
  (ppop_sublist d k).map _

theorem not_mem_names_ppop (d : List Param) (k : Nat) : k ∉ names (ppop d k) := by
  simp [mem_names_C01, mem_ppop_C01]

theorem pupdate_of_disjoint_C01 {d e : List Param} (hn : (names e).Nodup)
    (hd : ∀ x ∈ names e, x ∉ names d) : pupdate d e = d ++ e := by
  unfold pupdate
  induction e generalizing d with
  | nil => simp
  | cons p t ih =>
    simp only [names_cons_C01, List.nodup_cons, List.mem_cons, forall_eq_or_imp] at hn hd
    rw [List.foldl_cons, pset_of_not_mem_C01 hd.1, ih hn.2]
    · simp
    · intro x hx
      simp only [names_append_C01, names_cons_C01, names_nil_C01, List.mem_append, List.mem_singleton, not_or]
      exact ⟨hd.2 x hx, fun e => hn.1 (e ▸ hx)⟩

/-! ### counting required parameters -/

def reqCount (ps : List Param) : Nat := ps.countP (·.required)

@[simp] theorem reqCount_nil : reqCount [] = 0 := rfl
@[simp] theorem reqCount_append (a b : List Param) : reqCount (a ++ b) = reqCount a + reqCount b := by
  simp [reqCount]
theorem reqCount_cons (p : Param) (ps : List Param) :
    reqCount (p :: ps) = (if p.required then 1 else 0) + reqCount ps := by
  simp [reqCount, List.countP_cons]; omega
@[simp] theorem reqCount_singleton (p : Param) : reqCount [p] = if p.required then 1 else 0 := by
  simp [reqCount_cons]
@[simp] theorem reqCount_map_withKind (ps : List Param) (k : Kind) :
    reqCount (ps.map (·.withKind k)) = reqCount ps := by
  simp [reqCount, List.countP_map, Function.comp_def]

theorem reqCount_pos_of_mem {ps : List Param} {p : Param} (h : p ∈ ps) (hr : p.required = true) :
    0 < reqCount ps := by
  unfold reqCount; exact List.countP_pos_iff.2 ⟨p, h, hr⟩

theorem reqCount_eq_zero {ps : List Param} : reqCount ps = 0 ↔ ∀ p ∈ ps, p.required = false := by
  unfold reqCount; simp [List.countP_eq_zero]

theorem required_iff (p : Param) : p.required = true ↔ p.dflt.isSome = false := by
  unfold Param.required; cases p.dflt <;> simp

end SV
