/-
  Lemmas/C02Abstract.lean — soundness / exactness of embed at the level of binding views.
-/
import Sigverif.Lemmas.C02Accepts
namespace SV

structure EmbedFacts (Vo Vi VR : View) (No Ao Ai : List Nat) (uva uvk : Bool) (dobi : Prop) : Prop where
  hP : VR.P = Vo.P ++ (if (uva && Vo.va) = true then Vi.P else [])
  hva : VR.va = if (uva && Vo.va) = true then Vi.va else Vo.va
  hvk : VR.vk = if (uvk && Vo.vk) = true then Vi.vk else Vo.vk
  hkw : ∀ x ∈ VR.kw, x ∈ Vo.kw ∨ ((uvk && Vo.vk) = true ∧ x ∈ Vi.kw)
  hPi : ∀ x ∈ No, (uva && Vo.va) = true → x ∉ Vi.P
  hkwNo : ∀ x ∈ VR.kw, x ∈ No → x ∈ Vo.kw
  hreqiNo : ∀ x ∈ Vi.req, x ∉ No
  hreqo : ∀ x ∈ Vo.req, x ∈ VR.req
  hreqi : ∀ x ∈ Vi.req, x ∈ VR.req
  hreqR : ∀ x ∈ VR.req, x ∈ Vo.req ∨ x ∈ Vi.req ∨ dobi
  hkwo : ∀ x ∈ Vo.kw, x ∈ No
  hPo : ∀ x ∈ Vo.P, x ∈ No
  hreqoNo : ∀ x ∈ Vo.req, x ∈ No
  hNo : ∀ x ∈ No, x ∈ Ao
  hkwi : ∀ x ∈ Vi.kw, x ∈ Ai

def compositeV (Vo Vi : View) (uva uvk : Bool) (n : Nat) (K : List Nat) : Prop :=
  Vo.acc n K ∧
  Vi.acc (if uva then n - Vo.P.length else 0)
         (if uvk then K.filter (fun k => !Vo.kw.contains k) else [])

theorem mem_filter_notkw {k : Nat} {K kw : List Nat} :
    k ∈ K.filter (fun k => !kw.contains k) ↔ k ∈ K ∧ k ∉ kw := by
  simp [List.mem_filter]

theorem mem_take_append {x : Nat} {a b : List Nat} {n : Nat} (h : x ∈ (a ++ b).take n) :
    x ∈ a.take n ∨ x ∈ b.take (n - a.length) := by
  rw [List.take_append] at h
  exact List.mem_append.1 h

theorem abstract_sound {Vo Vi VR : View} {No Ao Ai : List Nat} {uva uvk : Bool} {dobi : Prop}
    (F : EmbedFacts Vo Vi VR No Ao Ai uva uvk dobi) (n : Nat) (K : List Nat)
    (hnc : ∀ k ∈ K, k ∈ VR.kw ∨ (k ∉ Ao ∧ k ∉ Ai))
    (hacc : VR.acc n K) : compositeV Vo Vi uva uvk n K := by
  obtain ⟨ra, rb, rc, rd⟩ := hacc
  -- outer accepts
  have oa : n ≤ Vo.P.length ∨ Vo.va = true := by
    by_cases hs : (uva && Vo.va) = true
    · simp only [Bool.and_eq_true] at hs; exact .inr hs.2
    · rw [F.hP, F.hva] at ra
      simp only [hs, if_false, Bool.false_eq_true, List.append_nil] at ra
      exact ra
  have ob : ∀ k ∈ K, k ∈ Vo.kw → k ∉ Vo.P.take n := by
    intro k hk hkw hin
    have hkR : k ∈ VR.kw := by
      rcases hnc k hk with h | h
      · exact h
      · exact absurd (F.hNo k (F.hkwo k hkw)) h.1
    apply rb k hk hkR
    rw [F.hP, List.take_append]
    exact List.mem_append_left _ hin
  have oc : ∀ k ∈ K, k ∉ Vo.kw → Vo.vk = true := by
    intro k hk hkw
    by_cases hkR : k ∈ VR.kw
    · rcases F.hkw k hkR with h | h
      · exact absurd h hkw
      · simp only [Bool.and_eq_true] at h; exact h.1.2
    · have := rc k hk hkR
      rw [F.hvk] at this
      by_cases hs : (uvk && Vo.vk) = true
      · simp only [Bool.and_eq_true] at hs; exact hs.2
      · simpa [hs] using this
  have od : ∀ x ∈ Vo.req, x ∈ Vo.P.take n ∨ (x ∈ K ∧ x ∈ Vo.kw) := by
    intro x hx
    rcases rd x (F.hreqo x hx) with h | h
    · rw [F.hP] at h
      rcases mem_take_append h with h | h
      · exact .inl h
      · exfalso
        have hm := List.mem_of_mem_take h
        by_cases hs : (uva && Vo.va) = true
        · simp only [hs, if_true] at hm
          exact F.hPi x (F.hreqoNo x hx) hs hm
        · simp [hs] at hm
    · exact .inr ⟨h.1, F.hkwNo x h.2 (F.hreqoNo x hx)⟩
  refine ⟨⟨oa, ob, oc, od⟩, ?_, ?_, ?_, ?_⟩
  · -- (a')
    cases uva with
    | false => simp
    | true =>
      simp only [if_true]
      by_cases hs : Vo.va = true
      · rw [F.hP, F.hva] at ra
        simp only [hs, Bool.and_self, if_true, List.length_append] at ra
        rcases ra with h | h
        · exact .inl (by omega)
        · exact .inr h
      · rcases oa with h | h
        · exact .inl (by omega)
        · exact absurd h hs
  · -- (b')
    intro k hk hkw hin
    cases uvk with
    | false => simp at hk
    | true =>
      simp only [if_true, mem_filter_notkw] at hk
      have hkR : k ∈ VR.kw := by
        rcases hnc k hk.1 with h | h
        · exact h
        · exact absurd (F.hkwi k hkw) h.2
      cases uva with
      | false => simp at hin
      | true =>
        simp only [if_true] at hin
        apply rb k hk.1 hkR
        by_cases hs : Vo.va = true
        · rw [F.hP, List.take_append]
          simp only [hs, Bool.and_self, if_true]
          exact List.mem_append_right _ hin
        · rcases oa with h | h
          · have : n - Vo.P.length = 0 := by omega
            rw [this] at hin; simp at hin
          · exact absurd h hs
  · -- (c')
    intro k hk hkw
    cases uvk with
    | false => simp at hk
    | true =>
      simp only [if_true, mem_filter_notkw] at hk
      have hko : k ∉ Vo.kw := hk.2
      have hkR : k ∉ VR.kw := by
        intro hkR
        rcases F.hkw k hkR with h | h
        · exact hko h
        · exact hkw h.2
      have h1 := rc k hk.1 hkR
      have h2 := oc k hk.1 hko
      rw [F.hvk] at h1
      simpa [h2] using h1
  · -- (d')
    intro x hx
    have hxNo := F.hreqiNo x hx
    rcases rd x (F.hreqi x hx) with h | h
    · left
      rw [F.hP] at h
      rcases mem_take_append h with h | h
      · exact absurd (F.hPo x (List.mem_of_mem_take h)) hxNo
      · by_cases hs : (uva && Vo.va) = true
        · simp only [hs, if_true] at h
          simp only [Bool.and_eq_true] at hs
          simpa [hs.1] using h
        · simp [hs] at h
    · right
      rcases F.hkw x h.2 with h' | h'
      · exact absurd (F.hkwo x h') hxNo
      · simp only [Bool.and_eq_true] at h'
        refine ⟨?_, h'.2⟩
        simp only [h'.1.1, if_true, mem_filter_notkw]
        exact ⟨h.1, fun hc => hxNo (F.hkwo x hc)⟩

theorem abstract_complete {Vo Vi VR : View} {No Ao Ai : List Nat} {uva uvk : Bool} {dobi : Prop}
    (F : EmbedFacts Vo Vi VR No Ao Ai uva uvk dobi) (hnd : ¬ dobi) (n : Nat) (K : List Nat)
    (hnc : ∀ k ∈ K, k ∈ VR.kw ∨ (k ∉ Ao ∧ k ∉ Ai))
    (hacc : compositeV Vo Vi uva uvk n K) : VR.acc n K := by
  obtain ⟨⟨oa, ob, oc, od⟩, ia, ib, ic, id⟩ := hacc
  refine ⟨?_, ?_, ?_, ?_⟩
  · -- (a)
    rw [F.hP, F.hva, List.length_append]
    rcases oa with h | h
    · exact .inl (by omega)
    · cases uva with
      | false => simp [h]
      | true =>
        simp only [if_true] at ia
        simp only [h, Bool.and_self, if_true]
        rcases ia with h' | h'
        · exact .inl (by omega)
        · exact .inr h'
  · -- (b)
    intro k hk hkR hin
    rw [F.hP] at hin
    rcases mem_take_append hin with hin | hin
    · -- in the outer part
      have hNo := F.hPo k (List.mem_of_mem_take hin)
      exact ob k hk (F.hkwNo k hkR hNo) hin
    · by_cases hs : (uva && Vo.va) = true
      · simp only [hs, if_true] at hin
        have hkNo : k ∉ No := fun h => F.hPi k h hs (List.mem_of_mem_take hin)
        rcases F.hkw k hkR with h | h
        · exact hkNo (F.hkwo k h)
        · simp only [Bool.and_eq_true] at h hs
          apply ib k ?_ h.2
          · simpa [hs.1] using hin
          · simp only [h.1.1, if_true, mem_filter_notkw]
            exact ⟨hk, fun hc => hkNo (F.hkwo k hc)⟩
      · simp [hs] at hin
  · -- (c)
    intro k hk hkR
    have hf : k ∉ Ao ∧ k ∉ Ai := by
      rcases hnc k hk with h | h
      · exact absurd h hkR
      · exact h
    have hko : k ∉ Vo.kw := fun h => hf.1 (F.hNo k (F.hkwo k h))
    have hvo := oc k hk hko
    rw [F.hvk]
    cases uvk with
    | false => simp [hvo]
    | true =>
      simp only [hvo, Bool.and_self, if_true]
      apply ic k
      · simp only [if_true, mem_filter_notkw]
        exact ⟨hk, hko⟩
      · exact fun h => hf.2 (F.hkwi k h)
  · -- (d)
    intro x hx
    rcases F.hreqR x hx with h | h | h
    · rcases od x h with h' | h'
      · left
        rw [F.hP, List.take_append]
        exact List.mem_append_left _ h'
      · right
        refine ⟨h'.1, ?_⟩
        rcases hnc x h'.1 with h'' | h''
        · exact h''
        · exact absurd (F.hNo x (F.hkwo x h'.2)) h''.1
    · rcases id x h with h' | h'
      · left
        cases uva with
        | false => simp at h'
        | true =>
          simp only [if_true] at h'
          have hpos : n - Vo.P.length ≠ 0 := by
            intro e; rw [e] at h'; simp at h'
          have hva : Vo.va = true := by
            rcases oa with h | h
            · omega
            · exact h
          rw [F.hP, List.take_append]
          simp only [hva, Bool.and_self, if_true]
          exact List.mem_append_right _ h'
      · right
        cases uvk with
        | false => simp at h'
        | true =>
          simp only [if_true, mem_filter_notkw] at h'
          refine ⟨h'.1.1, ?_⟩
          rcases hnc x h'.1.1 with h'' | h''
          · exact h''
          · exact absurd (F.hkwi x h'.2) h''.2
    · exact absurd h hnd

end SV
