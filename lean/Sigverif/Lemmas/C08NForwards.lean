/-
  Lemmas/C08NForwards.lean — provenance of `forwards(…, partial=True)`: it is `forwards` without
  `partial` on the inner signature whose named parameters got the default `None`; names, the
  provenance map and `+depths` of the inner signature are untouched by that replacement.
-/
import Sigverif.Props.C08Mask
import Sigverif.Lemmas.C04Partial
namespace SV
set_option linter.unusedSimpArgs false
set_option linter.unusedVariables false

/-- the inner signature as `forwards(…, partial=True)` sees it -/
def partialSig (i : USig) : USig := { i with params := partialParams i.params }

theorem c08n_partialSig_src (i : USig) : (partialSig i).src = i.src := rfl
theorem c08n_partialSig_depths (i : USig) : (partialSig i).depths = i.depths := rfl

theorem c08n_partialSig_provWF1 (i : USig) (pi : ProvWF1 i) : ProvWF1 (partialSig i) := by
  have hn : names (partialSig i).params = names i.params := partialParams_names i.params
  refine ⟨⟨?_, ?_, ?_⟩, pi.nd⟩
  · intro k; rw [hn]; exact pi.keys k
  · intro k hk; rw [hn] at hk; exact pi.ne k hk
  · exact pi.dep

/-- `forwards(…, partial=True)` is `forwards(…)` on the re-defaulted inner signature, which is valid -/
theorem c08n_forwards_true_as_false {o i R : USig} {n : Nat} {nms : List Nat} {ha hk uva uvk : Bool}
    (hi : WF i.params) (h : forwards o i n nms ha hk uva uvk true = .ok R) :
    WF (partialSig i).params ∧ forwards o (partialSig i) n nms ha hk uva uvk false = .ok R := by
  obtain ⟨hv, M, hM, hE⟩ := forwards_true_ok h
  refine ⟨partialParams_WF hi hv, ?_⟩
  rw [forwards_false_eq]
  show (mask { i with params := partialParams i.params } n nms { args := ha, kwargs := hk } >>= _) = _
  rw [hM]
  exact hE

theorem c08n_forwards_wfsrc (p : Bool) (o i R : USig) (n : Nat) (nms : List Nat) (ha hk uva uvk : Bool)
    (ho : WF o.params) (hi : WF i.params) (po : ProvWF1 o) (pi : ProvWF1 i) (hid : KeysND i.depths)
    (hR : forwards o i n nms ha hk uva uvk p = .ok R) :
    ProvWF1 R ∧ (∀ k f, f ∈ sget R.src k → f ∈ sget o.src k ∨ f ∈ sget i.src k) ∧
      (∀ f, dget R.depths f = minDepth (dget o.depths f) ((dget i.depths f).map (· + 1))) := by
  cases p with
  | false =>
    exact ⟨(forwards_wfsrc o i R n nms ha hk uva uvk ho hi po pi hid hR).1,
      (forwards_wfsrc o i R n nms ha hk uva uvk ho hi po pi hid hR).2,
      forwards_depths o i R n nms ha hk uva uvk ho hi po pi hid hR⟩
  | true =>
    obtain ⟨hi', hR'⟩ := c08n_forwards_true_as_false hi hR
    have pi' := c08n_partialSig_provWF1 i pi
    exact ⟨(forwards_wfsrc o (partialSig i) R n nms ha hk uva uvk ho hi' po pi' hid hR').1,
      (forwards_wfsrc o (partialSig i) R n nms ha hk uva uvk ho hi' po pi' hid hR').2,
      forwards_depths o (partialSig i) R n nms ha hk uva uvk ho hi' po pi' hid hR'⟩

end SV
