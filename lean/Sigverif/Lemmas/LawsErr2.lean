/-
  Lemmas/LawsErr2.lean — error discipline / validity for merge, embed, mask, forwards.
-/
import Sigverif.Lemmas.LawsErr
namespace SV

theorem merge_err' (ss : List USig) (e : Err) (hne : ss ≠ []) (h : merge ss = .error e) :
    e = .incompatible ∨ e = .valueError := by
  cases ss with
  | nil => exact absurd rfl hne
  | cons s ss =>
    simp only [merge, bind, Except.bind] at h
    split at h
    · rename_i he; cases h; exact .inl (mergeFold_err _ _ _ he)
    · exact .inr (applyParams_err _ _ _ h)

theorem merge_valid' (ss : List USig) (R : USig) (h : merge ss = .ok R) : validOk R.params = true := by
  cases ss with
  | nil => cases h
  | cons s ss =>
    simp only [merge, bind, Except.bind] at h
    split at h
    · cases h
    · exact applyParams_valid _ _ _ h

theorem embed_err' (ss : List USig) (uva uvk : Bool) (e : Err) (hne : ss ≠ [])
    (h : embed uva uvk ss = .error e) : e = .incompatible ∨ e = .valueError := by
  cases ss with
  | nil => exact absurd rfl hne
  | cons s ss =>
    simp only [embed, bind, Except.bind] at h
    split at h
    · rename_i he; cases h; exact .inl (embedFold_err _ _ _ _ _ _ he)
    · exact .inr (applyParams_err _ _ _ h)

theorem embed_valid' (ss : List USig) (uva uvk : Bool) (R : USig) (h : embed uva uvk ss = .ok R) :
    validOk R.params = true := by
  cases ss with
  | nil => cases h
  | cons s ss =>
    simp only [embed, bind, Except.bind] at h
    split at h
    · cases h
    · exact applyParams_valid _ _ _ h

theorem maskName_err_Laws (vk : Option Param) (st : KState) (name : Nat) (pv : Option (Nat × Nat))
    (e : Err) (h : maskName vk st name pv = .error e) : e = .valueError := by
  simp only [maskName] at h
  (repeat' split at h) <;> first | (cases h; done) | (cases h; rfl)

theorem maskNames_err_Laws (vk : Option Param) (st : KState) (l : List (Nat × Option (Nat × Nat)))
    (e : Err) (h : maskNames vk st l = .error e) : e = .valueError := by
  induction l generalizing st with
  | nil => cases h
  | cons a rest ih =>
    obtain ⟨n, pv⟩ := a
    simp only [maskNames, bind, Except.bind] at h
    split at h
    · rename_i he; cases h; exact maskName_err_Laws _ _ _ _ _ he
    · exact ih _ h

theorem maskCore_err (sig : USig) (n : Nat) (hf : HideFlags) (named : List (Nat × Nat))
    (pobj : Option Nat) (e : Err) (h : maskCore sig n hf named pobj = .error e) :
    e = .valueError := by
  simp only [maskCore, bind, Except.bind] at h
  split at h
  · rename_i he
    cases h
    (repeat' split at he) <;> first | (cases he; done) | (cases he; rfl)
  · split at h
    · rename_i he; cases h; exact maskNames_err_Laws _ _ _ _ he
    · exact applyParams_err _ _ _ h

theorem maskCore_valid (sig : USig) (n : Nat) (hf : HideFlags) (named : List (Nat × Nat))
    (pobj : Option Nat) (R : USig) (h : maskCore sig n hf named pobj = .ok R) :
    validOk R.params = true := by
  simp only [maskCore, bind, Except.bind] at h
  split at h
  · cases h
  · split at h
    · cases h
    · exact applyParams_valid _ _ _ h

theorem forwards_err' (o i : USig) (n : Nat) (nms : List Nat) (ha hk uva uvk pt : Bool) (e : Err)
    (h : forwards o i n nms ha hk uva uvk pt = .error e) : e = .incompatible ∨ e = .valueError := by
  simp only [forwards, bind, Except.bind] at h
  split at h
  · rename_i he
    cases h
    right
    split at he
    · split at he
      · rename_i hv; cases he; exact validateGo_err_Laws _ _ _ _ _ hv
      · cases he
    · cases he
  · split at h
    · rename_i he; cases h; exact .inr (maskCore_err _ _ _ _ _ _ he)
    · exact embed_err' _ _ _ _ (by simp) h

theorem forwards_valid' (o i R : USig) (n : Nat) (nms : List Nat) (ha hk uva uvk pt : Bool)
    (h : forwards o i n nms ha hk uva uvk pt = .ok R) : validOk R.params = true := by
  simp only [forwards, bind, Except.bind] at h
  split at h
  · cases h
  · split at h
    · cases h
    · exact embed_valid' _ _ _ _ h

end SV
