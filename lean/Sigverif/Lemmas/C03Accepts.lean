/-
  Lemmas/C03Accepts.lean — declarative characterisation of `bindKw` and `accepts`
  for duplicate-free keyword lists, on bucketed signatures.
-/
import Sigverif.Lemmas.C03Sort
namespace SV

theorem bindKw_spec (kwp : List Nat) (vk : Bool) (bound K : List Nat) (hK : K.Nodup) :
    match bindKw kwp vk bound K with
    | none => ¬ ∀ k ∈ K, (k ∈ kwp → k ∉ bound) ∧ (k ∉ kwp → vk = true)
    | some b => (∀ k ∈ K, (k ∈ kwp → k ∉ bound) ∧ (k ∉ kwp → vk = true)) ∧
        ∀ x, x ∈ b ↔ x ∈ bound ∨ (x ∈ K ∧ x ∈ kwp) := by
  induction K generalizing bound with
  | nil => simp [bindKw]
  | cons k ks ih =>
    rw [List.nodup_cons] at hK
    unfold bindKw
    by_cases h1 : kwp.contains k = true
    · have h1' : k ∈ kwp := by simpa using h1
      rw [if_pos h1]
      by_cases h2 : bound.contains k = true
      · have h2' : k ∈ bound := by simpa using h2
        rw [if_pos h2]
        intro h
        exact (h k (by simp)).1 h1' h2'
      · have h2' : k ∉ bound := by simpa using h2
        rw [if_neg h2]
        have := ih (k :: bound) hK.2
        cases hb : bindKw kwp vk (k :: bound) ks with
        | none =>
          rw [hb] at this
          simp only at this ⊢
          intro h; apply this
          intro k' hk'
          have := h k' (by simp [hk'])
          refine ⟨fun a => ?_, this.2⟩
          simp only [List.mem_cons, not_or]
          exact ⟨fun e => hK.1 (e ▸ hk'), this.1 a⟩
        | some b =>
          rw [hb] at this
          simp only at this ⊢
          obtain ⟨t1, t2⟩ := this
          constructor
          · intro k' hk'
            simp only [List.mem_cons] at hk'
            rcases hk' with rfl | hk'
            · exact ⟨fun _ => h2', fun h => absurd h1' h⟩
            · have := t1 k' hk'
              refine ⟨fun a => ?_, this.2⟩
              have := this.1 a
              simp only [List.mem_cons, not_or] at this
              exact this.2
          · intro x
            rw [t2 x]
            simp only [List.mem_cons]
            constructor
            · rintro ((rfl | h) | h)
              · exact Or.inr ⟨Or.inl rfl, h1'⟩
              · exact Or.inl h
              · exact Or.inr ⟨Or.inr h.1, h.2⟩
            · rintro (h | ⟨rfl | h, h'⟩)
              · exact Or.inl (Or.inr h)
              · exact Or.inl (Or.inl rfl)
              · exact Or.inr ⟨h, h'⟩
    · have h1' : k ∉ kwp := by simpa using h1
      rw [if_neg h1]
      by_cases hv : vk = true
      · rw [if_pos hv]
        have := ih bound hK.2
        cases hb : bindKw kwp vk bound ks with
        | none =>
          rw [hb] at this
          simp only at this ⊢
          intro h; apply this
          intro k' hk'
          exact h k' (by simp [hk'])
        | some b =>
          rw [hb] at this
          simp only at this ⊢
          obtain ⟨t1, t2⟩ := this
          constructor
          · intro k' hk'
            simp only [List.mem_cons] at hk'
            rcases hk' with rfl | hk'
            · exact ⟨fun h => absurd h h1', fun _ => hv⟩
            · exact t1 k' hk'
          · intro x
            rw [t2 x]
            simp only [List.mem_cons]
            constructor
            · rintro (h | h)
              · exact Or.inl h
              · exact Or.inr ⟨Or.inr h.1, h.2⟩
            · rintro (h | ⟨rfl | h, h'⟩)
              · exact Or.inl h
              · exact absurd h' h1'
              · exact Or.inr ⟨h, h'⟩
      · rw [if_neg hv]
        intro h
        exact hv ((h k (by simp)).2 h1')

/-- the declarative reading of `accepts` on a bucketed signature -/
def AccP (s : Sorted) (n : Nat) (K : List Nat) : Prop :=
  (n ≤ (s.pos ++ s.pok).length ∨ s.va.isSome = true) ∧
  (∀ k ∈ K, ((k ∈ names s.pok ∨ k ∈ names s.kwo) → k ∉ names ((s.pos ++ s.pok).take n)) ∧
            (¬ (k ∈ names s.pok ∨ k ∈ names s.kwo) → s.vk.isSome = true)) ∧
  (∀ p, (p ∈ s.pos ∨ p ∈ s.pok ∨ p ∈ s.kwo) → p.required = true →
      (p.name ∈ K ∧ (p.name ∈ names s.pok ∨ p.name ∈ names s.kwo)) ∨
      p.name ∈ names ((s.pos ++ s.pok).take n))

theorem accepts_iff {s : Sorted} (bk : BucketKinds s) (n : Nat) {K : List Nat} (hK : K.Nodup) :
    accepts s.all n K = true ↔ AccP s n K := by
  unfold accepts AccP
  simp only [positionals_all bk, hasVa_all bk, hasVk_all bk, kwNames_all bk, filter_isNamed_all bk]
  by_cases h0 : (decide (n > (s.pos ++ s.pok).length) && !s.va.isSome) = true
  · rw [if_pos h0]
    simp only [Bool.and_eq_true, decide_eq_true_eq, Bool.not_eq_true'] at h0
    constructor
    · intro h; cases h
    · rintro ⟨h | h, -⟩
      · omega
      · rw [h0.2] at h; cases h
  · rw [if_neg h0]
    have h0' : n ≤ (s.pos ++ s.pok).length ∨ s.va.isSome = true := by
      simp only [Bool.and_eq_true, decide_eq_true_eq, Bool.not_eq_true', not_and] at h0
      by_cases hn : n ≤ (s.pos ++ s.pok).length
      · exact Or.inl hn
      · right
        have := h0 (by omega)
        cases hv : s.va.isSome <;> simp_all
    have sp := bindKw_spec (names s.pok ++ names s.kwo) s.vk.isSome
      (List.map (fun x => x.name) (List.take n (s.pos ++ s.pok))) K hK
    cases hb : bindKw (names s.pok ++ names s.kwo) s.vk.isSome
        (List.map (fun x => x.name) (List.take n (s.pos ++ s.pok))) K with
    | none =>
      rw [hb] at sp
      simp only at sp ⊢
      constructor
      · intro h; cases h
      · rintro ⟨-, h, -⟩
        exfalso; apply sp
        intro k hk
        have := h k hk
        simp only [List.mem_append] at this ⊢
        exact this
    | some b =>
      rw [hb] at sp
      simp only at sp ⊢
      obtain ⟨t1, t2⟩ := sp
      simp only [List.all_eq_true, Bool.or_eq_true, Bool.not_eq_true', List.contains_eq_mem,
        decide_eq_true_eq, t2, List.mem_append]
      constructor
      · intro h
        refine ⟨h0', ?_, ?_⟩
        · intro k hk
          have := t1 k hk
          simp only [List.mem_append] at this
          exact this
        · intro p hp hr
          have := h p (or_assoc.2 hp)
          rcases this with h | h
          · rw [hr] at h; cases h
          · rcases h with h | h
            · exact Or.inr h
            · exact Or.inl h
      · rintro ⟨-, -, h⟩ p hp
        cases hr : p.required with
        | false => exact Or.inl rfl
        | true =>
          right
          rcases h p (or_assoc.1 hp) hr with h | h
          · exact Or.inr h
          · exact Or.inl h

theorem accepts_eq_of_iff {s s' : Sorted} (bk : BucketKinds s) (bk' : BucketKinds s')
    {n n' : Nat} {K K' : List Nat} (hK : K.Nodup) (hK' : K'.Nodup)
    (h : AccP s n K ↔ AccP s' n' K') : accepts s.all n K = accepts s'.all n' K' := by
  rw [Bool.eq_iff_iff, accepts_iff bk n hK, accepts_iff bk' n' hK', h]

end SV
