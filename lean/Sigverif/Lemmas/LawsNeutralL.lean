/-
  Lemmas/LawsNeutralL.lean — merging a bare `(*args, **kwargs)` on the left.
-/
import Sigverif.Lemmas.LawsNeutral
namespace SV
set_option linter.unusedSimpArgs false
set_option linter.unusedVariables false

theorem mergeStep_bare_l (S B : Sorted) (a k : Param)
    (hBpos : B.pos = []) (hBpok : B.pok = []) (hBkwo : B.kwo = []) (hBva : B.va = some a)
    (hBvk : B.vk = some k) (hn : (names S.kwo).Nodup) :
    ∃ s, mergeStep B S = .ok s ∧ s.pos = S.pos ∧ s.pok = S.pok ∧ s.kwo = S.kwo ∧
      s.va = S.va.map (fun rp => if S.pos = [] then concile a rp else rp) ∧
      s.vk = S.vk.map (fun rp => if S.kwo = [] then concile k rp else rp) := by
  have hva : B.va.isSome = true := by simp [hBva]
  have hvk : B.vk.isSome = true := by simp [hBvk]
  have c1 : ∀ st, phaseK1 B S B.kwo st = st := by intro st; rw [hBkwo]; rfl
  have c2 := phaseK2_none_core B S.kwo
    { vaL := B.va.isSome, vaR := S.va.isSome, vkL := B.vk.isSome, vkR := S.vk.isSome }
    (fun p hp => by rw [hBkwo]; rfl) hn (by simp [names])
  obtain ⟨st1, e1, c3⟩ := phaseP_right_core B S S.pos S.pok (phaseK2 B S.kwo (phaseK1 B S B.kwo
    { vaL := B.va.isSome, vaR := S.va.isSome, vkL := B.vk.isSome, vkR := S.vk.isSome })) hva
  rw [c1] at c3
  have hcore1 : st1.core = ⟨S.pos, [], [], S.pos.isEmpty, S.va.isSome, true, S.vk.isSome, [], S.kwo⟩ := by
    rw [c3]
    have e' : (phaseK2 B S.kwo
      { vaL := B.va.isSome, vaR := S.va.isSome, vkL := B.vk.isSome, vkR := S.vk.isSome }).pos =
      (phaseK2 B S.kwo
      { vaL := B.va.isSome, vaR := S.va.isSome, vkL := B.vk.isSome, vkR := S.vk.isSome }).core.pos := rfl
    have e'' : (phaseK2 B S.kwo
      { vaL := B.va.isSome, vaR := S.va.isSome, vkL := B.vk.isSome, vkR := S.vk.isSome }).vaL =
      (phaseK2 B S.kwo
      { vaL := B.va.isSome, vaR := S.va.isSome, vkL := B.vk.isSome, vkR := S.vk.isSome }).core.vaL := rfl
    rw [e', e'', c2]
    simp [MState.core, hva, hvk]
  obtain ⟨st2, e2, c4⟩ := phaseQ_right_core B S S.pok st1 hva hvk (congrArg Core.lUn hcore1)
  have hcore2 : st2.core = ⟨S.pos, S.pok, [], S.pos.isEmpty, S.va.isSome, true, S.vk.isSome, [], S.kwo⟩ := by
    rw [c4]
    have e : st1.pok = st1.core.pok := rfl
    rw [e, hcore1]
    simp
  have e3 := mergeUnmatched_L_empty B S st2 (congrArg Core.lUn hcore2)
  by_cases hkw : S.kwo = []
  · have e4 := mergeUnmatched_R_empty B S st2 ((congrArg Core.rUn hcore2).trans hkw)
    refine ⟨_, mergeStep_of B S st1 st2 st2 st2 _ _ (by rw [hBpos, hBpok, c1]; rw [c1] at e1; exact e1)
      e2 e3 e4, congrArg Core.pos hcore2,
      congrArg Core.pok hcore2, (congrArg Core.kwo hcore2).trans hkw.symm, ?_, ?_⟩
    · have a1 : st2.vaL = S.pos.isEmpty := congrArg Core.vaL hcore2
      have a2 : st2.vaR = S.va.isSome := congrArg Core.vaR hcore2
      simp only [a1, a2, hBva]
      cases hSva : S.va with
      | none => simp [addStarargs]
      | some p =>
        by_cases hp : S.pos = []
        · simp [addStarargs, hp]
        · simp [addStarargs, hp]
    · have a1 : st2.vkL = true := congrArg Core.vkL hcore2
      have a2 : st2.vkR = S.vk.isSome := congrArg Core.vkR hcore2
      simp only [a1, a2, hBvk]
      cases hSvk : S.vk with
      | none => simp [addStarargs]
      | some p => simp [addStarargs, hkw]
  · obtain ⟨st3, e4, c5⟩ := mergeUnmatched_R_vk B S st2
      (by rw [show st2.rUn = S.kwo from congrArg Core.rUn hcore2]; exact hkw) hvk
    have hcore3 : st3.core = ⟨S.pos, S.pok, S.kwo, S.pos.isEmpty, S.va.isSome, false, S.vk.isSome, [], S.kwo⟩ := by
      rw [c5]
      have e : st2.kwo = st2.core.kwo := rfl
      have e' : st2.rUn = st2.core.rUn := rfl
      rw [e, e', hcore2]
      simp only [Core.mk.injEq, and_true, true_and]
      rw [pupdate_eq_append _ _ hn (by simp [names])]
      simp
    refine ⟨_, mergeStep_of B S st1 st2 st2 st3 _ _ (by rw [hBpos, hBpok, c1]; rw [c1] at e1; exact e1)
      e2 e3 e4, congrArg Core.pos hcore3,
      congrArg Core.pok hcore3, congrArg Core.kwo hcore3, ?_, ?_⟩
    · have a1 : st3.vaL = S.pos.isEmpty := congrArg Core.vaL hcore3
      have a2 : st3.vaR = S.va.isSome := congrArg Core.vaR hcore3
      simp only [a1, a2, hBva]
      cases hSva : S.va with
      | none => simp [addStarargs]
      | some p =>
        by_cases hp : S.pos = []
        · simp [addStarargs, hp]
        · simp [addStarargs, hp]
    · have a1 : st3.vkL = false := congrArg Core.vkL hcore3
      have a2 : st3.vkR = S.vk.isSome := congrArg Core.vkR hcore3
      simp only [a1, a2, hBvk]
      cases hSvk : S.vk with
      | none => simp [addStarargs]
      | some p => simp [addStarargs, hkw]

end SV

namespace SV
set_option linter.unusedSimpArgs false
set_option linter.unusedVariables false

theorem atMostOne_pairwise (k : Kind) (ps : List Param) (h : (ps.filter (·.kind = k)).length ≤ 1) :
    ps.Pairwise (fun p q => ¬(p.kind = k ∧ q.kind = k)) := by
  induction ps with
  | nil => exact List.Pairwise.nil
  | cons p ps ih =>
    rw [List.pairwise_cons]
    by_cases hp : p.kind = k
    · simp only [List.filter_cons, hp, decide_true, if_true, List.length_cons] at h
      have hnil : ps.filter (·.kind = k) = [] := List.eq_nil_of_length_eq_zero (by omega)
      refine ⟨?_, ih (by simp [hnil])⟩
      intro q hq ⟨_, hqk⟩
      rw [List.filter_eq_nil_iff] at hnil
      exact hnil q hq (by simp [hqk])
    · simp only [List.filter_cons, hp, decide_false, Bool.false_eq_true, if_false] at h
      exact ⟨fun q _ hh => hp hh.1, ih h⟩

theorem map_eq_self_of (g : Param → Param) (xs : List Param) (h : ∀ p ∈ xs, g p = p) : xs.map g = xs := by
  induction xs with
  | nil => rfl
  | cons x xs ih =>
    simp only [List.map_cons, h x (by simp), ih (fun p hp => h p (by simp [hp]))]

/-- the renaming of the star parameters that `merge(bare, sig)` performs -/
def starRen (a k : Param) (noPos noKwo : Bool) (p : Param) : Param :=
  if p.kind = .vp then (if noPos then concile a p else p)
  else if p.kind = .vk then (if noKwo then concile k p else p)
  else p

theorem starRen_kind (a k : Param) (ha : a.kind = .vp) (hk : k.kind = .vk) (b1 b2 : Bool) (p : Param) :
    (starRen a k b1 b2 p).kind = p.kind := by
  unfold starRen
  split
  · rename_i h; split <;> simp [h, ha]
  · split
    · rename_i h; split <;> simp [h, hk]
    · rfl

theorem starRen_nonstar (a k : Param) (b1 b2 : Bool) (p : Param) (h1 : p.kind ≠ .vp) (h2 : p.kind ≠ .vk) :
    starRen a k b1 b2 p = p := by
  simp [starRen, h1, h2]

theorem merge_neutral_l' (sig bare : USig) (a k : Param) (hwf : WF sig.params)
    (ha : a.kind = .vp) (hk : k.kind = .vk) (hb : bare.params = [a, k])
    (hne : a.name ≠ k.name)
    (hna : ∀ p ∈ sig.params, p.name = a.name → p.kind = .vp)
    (hnk : ∀ p ∈ sig.params, p.name = k.name → p.kind = .vk) :
    ∃ R, merge [bare, sig] = .ok R ∧
      R.params.filter (fun p => p.kind ≠ .vp ∧ p.kind ≠ .vk) =
        sig.params.filter (fun p => p.kind ≠ .vp ∧ p.kind ≠ .vk) ∧
      (hasVa R.params = hasVa sig.params) ∧ (hasVk R.params = hasVk sig.params) := by
  have hall := sortParams_all_Laws sig hwf
  have hbk := sortParams_bucketKinds sig
  obtain ⟨hrs, hnn, h1vp, h1vk⟩ := WF_inv _ hwf
  have hv : validate sig.params = .ok () := (validOk_iff_Laws _).1 hwf.1
  obtain ⟨_, _, hdf⟩ := (validate_iff _).1 hv
  have hB := sortParams_bare bare a k ha hk hb
  obtain ⟨s, hs, f1, f2, f4, f3, f5⟩ := mergeStep_bare_l (sortParams sig) (sortParams bare) a k
    (by rw [hB]) (by rw [hB]) (by rw [hB]) (by rw [hB]) (by rw [hB])
    (nodup_names_kwo _ (by rw [hall]; exact hnn))
  generalize hS : sortParams sig = S at *
  let g := starRen a k S.pos.isEmpty S.kwo.isEmpty
  have hgk : ∀ p, (g p).kind = p.kind := starRen_kind a k ha hk _ _
  -- the result is the input with its star parameters renamed
  have hsa : s.all = sig.params.map g := by
    rw [← hall]
    unfold Sorted.all
    rw [f1, f2, f3, f4, f5]
    simp only [List.map_append]
    rw [map_eq_self_of g S.pos (fun p hp => starRen_nonstar _ _ _ _ _ (by simp [hbk.pos p hp]) (by simp [hbk.pos p hp])),
      map_eq_self_of g S.pok (fun p hp => starRen_nonstar _ _ _ _ _ (by simp [hbk.pok p hp]) (by simp [hbk.pok p hp])),
      map_eq_self_of g S.kwo (fun p hp => starRen_nonstar _ _ _ _ _ (by simp [hbk.kwo p hp]) (by simp [hbk.kwo p hp]))]
    congr 1
    · congr 1
      congr 1
      cases hva : S.va with
      | none => rfl
      | some p =>
        have := hbk.va p hva
        simp [g, starRen, this]
    · cases hvk : S.vk with
      | none => rfl
      | some p =>
        have := hbk.vk p hvk
        simp [g, starRen, this]
  have hgpos : ∀ p, isPositional p = true → g p = p := by
    intro p hp
    rcases (isPositional_iff p).1 hp with h | h
    · exact starRen_nonstar _ _ _ _ _ (by simp [h]) (by simp [h])
    · exact starRen_nonstar _ _ _ _ _ (by simp [h]) (by simp [h])
  have hgposi : ∀ p, isPositional (g p) = isPositional p := by
    intro p; simp [isPositional, hgk]
  -- validity of the renamed list
  have hvalid : validate (sig.params.map g) = .ok () := by
    rw [validate_iff]
    refine ⟨?_, ?_, ?_⟩
    · unfold rankSorted
      rw [List.pairwise_map]
      have := hrs
      unfold rankSorted at this
      simpa only [hgk] using this
    · unfold names
      rw [List.map_map]
      unfold List.Nodup
      rw [List.pairwise_map]
      have hp1 : sig.params.Pairwise (fun p q => p.name ≠ q.name) := by
        have := hnn
        unfold names List.Nodup at this
        rwa [List.pairwise_map] at this
      have hp2 := atMostOne_pairwise .vp _ h1vp
      have hp3 := atMostOne_pairwise .vk _ h1vk
      refine List.Pairwise.imp_of_mem ?_ ((hp1.and hp2).and hp3)
      intro p q hp hq ⟨⟨h1, h2⟩, h3⟩
      have a1 := hna p hp
      have a2 := hna q hq
      have a3 := hnk p hp
      have a4 := hnk q hq
      have a1' : a.name = p.name → p.kind = .vp := fun e => a1 e.symm
      have a2' : a.name = q.name → q.kind = .vp := fun e => a2 e.symm
      have a3' : k.name = p.name → p.kind = .vk := fun e => a3 e.symm
      have a4' : k.name = q.name → q.kind = .vk := fun e => a4 e.symm
      have hne' : k.name ≠ a.name := fun e => hne e.symm
      simp only [Function.comp, g, starRen]
      generalize S.pos.isEmpty = b1
      generalize S.kwo.isEmpty = b2
      by_cases c1 : p.kind = .vp <;> by_cases c2 : q.kind = .vp <;>
      by_cases c3 : p.kind = .vk <;> by_cases c4 : q.kind = .vk <;>
      cases b1 <;> cases b2 <;>
      simp only [c1, c2, c3, c4, if_true, if_false, Bool.false_eq_true, concile_name, reduceCtorEq] <;>
      grind
    · unfold dfltOK
      rw [List.pairwise_map]
      refine List.Pairwise.imp ?_ hdf
      intro p q h hp hq
      rw [hgposi] at hp hq
      rw [hgpos p hp, hgpos q hq]
      exact h hp hq
  refine ⟨{ params := s.all, src := s.src, depths := s.depths, ret := bare.ret, uret := bare.uret }, ?_,
    ?_, ?_, ?_⟩
  · simp only [merge, mergeFold, hS, hs, bind, Except.bind, applyParams, hsa, hvalid, pure, Except.pure]
  · simp only [hsa]
    rw [List.filter_map]
    have : ((fun p : Param => decide (p.kind ≠ .vp ∧ p.kind ≠ .vk)) ∘ g) =
        (fun p : Param => decide (p.kind ≠ .vp ∧ p.kind ≠ .vk)) := by
      funext p; simp [hgk]
    rw [this]
    apply map_eq_self_of
    intro p hp
    have := (List.mem_filter.1 hp).2
    simp only [ne_eq, decide_eq_true_eq] at this
    exact starRen_nonstar _ _ _ _ _ this.1 this.2
  · simp only [hsa, hasVa, List.any_map, Function.comp_def, hgk]
  · simp only [hsa, hasVk, List.any_map, Function.comp_def, hgk]

end SV
