/-
  Lemmas/C02View.lean — the binding view of a well-kinded `Sorted`.
-/
import Sigverif.Lemmas.C02Accepts
namespace SV

def sview (S : Sorted) : View :=
  ⟨names (S.pos ++ S.pok), S.va.isSome, S.vk.isSome, names (S.pok ++ S.kwo),
   names ((S.pos ++ S.pok ++ S.kwo).filter (·.required))⟩

theorem filter_bykind {l : List Param} {k : Kind} (h : ∀ p ∈ l, p.kind = k) (f : Param → Bool)
    (g : Kind → Bool) (hf : ∀ p, f p = g p.kind) :
    l.filter f = if g k then l else [] := by
  split
  · rename_i e
    rw [List.filter_eq_self]
    intro p hp; rw [hf, h p hp]; exact e
  · rename_i e
    rw [List.filter_eq_nil_iff]
    intro p hp; rw [hf, h p hp]; exact e

theorem any_bykind {l : List Param} {k : Kind} (h : ∀ p ∈ l, p.kind = k) (f : Param → Bool)
    (g : Kind → Bool) (hf : ∀ p, f p = g p.kind) :
    l.any f = (!l.isEmpty && g k) := by
  cases l with
  | nil => rfl
  | cons a t =>
    simp only [List.isEmpty_cons, Bool.not_false, Bool.true_and]
    cases hg : g k
    · rw [List.any_eq_false]
      intro p hp; rw [hf, h p hp, hg]; simp
    · rw [List.any_eq_true]
      exact ⟨a, by simp, by rw [hf, h a (by simp), hg]⟩

theorem filter_all_bykind (S : Sorted) (h : BucketKinds S) (f : Param → Bool)
    (g : Kind → Bool) (hf : ∀ p, f p = g p.kind) :
    S.all.filter f = (if g .po then S.pos else []) ++ (if g .pk then S.pok else []) ++
      (if g .vp then S.va.toList else []) ++ (if g .ko then S.kwo else []) ++
      (if g .vk then S.vk.toList else []) := by
  have hva := optToList_kind h.va
  have hvk := optToList_kind h.vk
  unfold Sorted.all
  simp only [List.filter_append]
  rw [filter_bykind h.pos f g hf, filter_bykind h.pok f g hf, filter_bykind hva f g hf,
    filter_bykind h.kwo f g hf, filter_bykind hvk f g hf]

theorem any_all_bykind (S : Sorted) (h : BucketKinds S) (f : Param → Bool)
    (g : Kind → Bool) (hf : ∀ p, f p = g p.kind) :
    S.all.any f = ((!S.pos.isEmpty && g .po) || (!S.pok.isEmpty && g .pk) ||
      (!S.va.toList.isEmpty && g .vp) || (!S.kwo.isEmpty && g .ko) ||
      (!S.vk.toList.isEmpty && g .vk)) := by
  have hva := optToList_kind h.va
  have hvk := optToList_kind h.vk
  unfold Sorted.all
  simp only [List.any_append]
  rw [any_bykind h.pos f g hf, any_bykind h.pok f g hf, any_bykind hva f g hf,
    any_bykind h.kwo f g hf, any_bykind hvk f g hf]

theorem positionals_all_C02 (S : Sorted) (h : BucketKinds S) : positionals S.all = S.pos ++ S.pok := by
  unfold positionals
  rw [filter_all_bykind S h isPositional (fun k => decide (k = Kind.po) || decide (k = Kind.pk))
    (fun _ => rfl)]
  simp

theorem named_all (S : Sorted) (h : BucketKinds S) : S.all.filter isNamed = S.pos ++ S.pok ++ S.kwo := by
  rw [filter_all_bykind S h isNamed
    (fun k => decide (k = Kind.po) || decide (k = Kind.pk) || decide (k = Kind.ko)) (fun _ => rfl)]
  simp

theorem kwPassable_all (S : Sorted) (h : BucketKinds S) : S.all.filter kwPassable = S.pok ++ S.kwo := by
  rw [filter_all_bykind S h kwPassable (fun k => decide (k = Kind.pk) || decide (k = Kind.ko))
    (fun _ => rfl)]
  simp

theorem hasVa_all_C02 (S : Sorted) (h : BucketKinds S) : hasVa S.all = S.va.isSome := by
  unfold hasVa
  rw [any_all_bykind S h _ (fun k => decide (k = Kind.vp)) (fun _ => rfl)]
  cases S.va <;> simp

theorem hasVk_all_C02 (S : Sorted) (h : BucketKinds S) : hasVk S.all = S.vk.isSome := by
  unfold hasVk
  rw [any_all_bykind S h _ (fun k => decide (k = Kind.vk)) (fun _ => rfl)]
  cases S.vk <;> simp

theorem viewOf_all (S : Sorted) (h : BucketKinds S) : viewOf S.all = sview S := by
  unfold viewOf sview kwNames reqNames
  rw [positionals_all_C02 S h, named_all S h, kwPassable_all S h, hasVa_all_C02 S h, hasVk_all_C02 S h]
  rfl

theorem accepts_all_iff (S : Sorted) (h : BucketKinds S) (n : Nat) (K : List Nat) (hK : K.Nodup) :
    accepts S.all n K = true ↔ (sview S).acc n K := by
  rw [accepts_iff_view _ _ _ hK, viewOf_all S h]

end SV
