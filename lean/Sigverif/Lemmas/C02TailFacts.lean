/-
  Lemmas/C02TailFacts.lean — what the concatenation part of `_embed` does, as facts about
  names / required names.
-/
import Sigverif.Lemmas.C02MergeFacts
namespace SV

theorem checkNoDupes_error {c : List Nat} {ps : List Param} {e : Err}
    (h : checkNoDupes c ps = .error e) : ∃ x ∈ names ps, x ∈ c := by
  unfold checkNoDupes at h
  split at h
  · rename_i hh
    simp only [List.any_eq_true, List.contains_iff_mem] at hh
    obtain ⟨x, hx, hc⟩ := hh
    exact ⟨x, hx, by simpa using hc⟩
  · cases h

@[simp] theorem names_clearDefaults (l : List Param) : names (clearDefaults l) = names l := by
  simp [names, clearDefaults, Param.withDflt]

@[simp] theorem names_cdIf (c : Bool) (l : List Param) : names (cdIf c l) = names l := by
  cases c <;> simp [cdIf]

theorem rq_cdIf_of {c : Bool} {l : List Param} {x : Nat} (h : x ∈ rq l) : x ∈ rq (cdIf c l) := by
  cases c
  · exact h
  · obtain ⟨p, hp, _, rfl⟩ := mem_rq.1 h
    refine mem_rq.2 ⟨p.withDflt none, ?_, rfl, rfl⟩
    simp only [cdIf, if_true, clearDefaults]
    exact List.mem_map.2 ⟨p, hp, rfl⟩

theorem rq_cdIf_inv {c : Bool} {l : List Param} {x : Nat} (h : x ∈ rq (cdIf c l)) :
    x ∈ rq l ∨ (c = true ∧ ∃ p ∈ l, p.dflt.isSome = true) := by
  cases c
  · exact .inl h
  · obtain ⟨p, hp, _, rfl⟩ := mem_rq.1 h
    simp only [cdIf, if_true] at hp
    obtain ⟨q, hq, rfl⟩ := mem_clearDefaults hp
    by_cases hd : q.dflt.isSome = true
    · exact .inr ⟨rfl, q, hq, hd⟩
    · left
      refine mem_rq.2 ⟨q, hq, ?_, rfl⟩
      simp only [Param.required]
      cases hq' : q.dflt with
      | none => rfl
      | some v => simp [hq'] at hd

theorem innerFirstRequired_nonempty {i : Sorted} (h : innerFirstRequired i = true) :
    names (i.pos ++ i.pok) ≠ [] := by
  unfold innerFirstRequired at h
  cases hp : i.pos with
  | cons a t => simp
  | nil =>
    rw [hp] at h
    cases hq : i.pok with
    | cons a t => simp
    | nil => rw [hq] at h; simp at h

structure TailFacts (O i' r : Sorted) (uva uvk : Bool) : Prop where
  t1 : names (r.pos ++ r.pok) = names (O.pos ++ O.pok) ++ names (i'.pos ++ i'.pok)
  t2 : ∀ x ∈ names (r.pok ++ r.kwo), x ∈ names (O.pok ++ O.kwo) ∨ x ∈ names (i'.pok ++ i'.kwo)
  t3 : ∀ x ∈ names (O.pos ++ O.pok ++ O.kwo), x ∉ names (i'.pos ++ i'.pok ++ i'.kwo)
  t4a : ∀ x ∈ rq (O.pos ++ O.pok ++ O.kwo), x ∈ rq (r.pos ++ r.pok ++ r.kwo)
  t4b : ∀ x ∈ rq (i'.pos ++ i'.pok ++ i'.kwo), x ∈ rq (r.pos ++ r.pok ++ r.kwo)
  t4c : ∀ x ∈ rq (r.pos ++ r.pok ++ r.kwo),
          x ∈ rq (O.pos ++ O.pok ++ O.kwo) ∨ x ∈ rq (i'.pos ++ i'.pok ++ i'.kwo) ∨
          ((∃ p ∈ O.pos ++ O.pok, p.dflt.isSome = true) ∧ names (i'.pos ++ i'.pok) ≠ [])
  t5 : r.va = if uva then i'.va else O.va
  t6 : r.vk = if uvk then i'.vk else O.vk

theorem embedTailC_disj {O i r : Sorted} {uva uvk : Bool} (h : embedTailC O i uva uvk = .ok r) :
    ∀ x ∈ names (O.pos ++ O.pok ++ O.kwo), x ∉ names (i.pos ++ i.pok ++ i.kwo) := by
  unfold embedTailC at h
  simp only [bind, Except.bind, pure, Except.pure] at h
  split at h; · cases h
  rename_i c1 h1
  split at h; · cases h
  rename_i c2 h2
  split at h; · cases h
  rename_i c3 h3
  split at h; · cases h
  rename_i c4 h4
  split at h; · cases h
  rename_i c5 h5
  split at h; · cases h
  rename_i c6 h6
  obtain ⟨d1, rfl⟩ := checkNoDupes_ok h1
  obtain ⟨d2, rfl⟩ := checkNoDupes_ok h2
  obtain ⟨d3, rfl⟩ := checkNoDupes_ok h3
  obtain ⟨d4, rfl⟩ := checkNoDupes_ok h4
  obtain ⟨d5, rfl⟩ := checkNoDupes_ok h5
  obtain ⟨d6, _⟩ := checkNoDupes_ok h6
  intro x hx hi
  simp only [names_append_C02, List.mem_append, List.nil_append] at hx hi d2 d3 d4 d5 d6
  rcases hi with (hi | hi) | hi
  · have := d3 x hi
    rcases hx with hx | hx
    · exact this hx
    · exact d5 x hx (.inl (.inr hi))
  · have := d4 x hi
    rcases hx with hx | hx
    · exact this (.inl hx)
    · exact d5 x hx (.inr hi)
  · have := d6 x hi
    rcases hx with hx | hx
    · exact this (.inl (.inl (.inl hx)))
    · exact this (.inr hx)

theorem t4c_aux {O i' : Sorted} {x : Nat} (D : Prop)
    (key : ∀ l : List Param, (∀ p ∈ l, ∃ q ∈ O.pos ++ O.pok, q.dflt = p.dflt) →
        x ∈ rq (cdIf (innerFirstRequired i') l) → x ∈ rq l ∨ D)
    (hx : x ∈ rq (ePosC O i' ++ ePokC O i' ++ (O.kwo ++ i'.kwo))) :
    x ∈ rq (O.pos ++ O.pok ++ O.kwo) ∨ x ∈ rq (i'.pos ++ i'.pok ++ i'.kwo) ∨ D := by
  simp only [ePosC, ePokC, rq_append, List.mem_append] at hx ⊢
  by_cases he : i'.pos.isEmpty = true
  · simp only [he, if_true] at hx
    rcases hx with (hx | hx | hx) | hx | hx
    · rcases key O.pos (fun p hp => ⟨p, by simp [hp], rfl⟩) hx with h | h
      · exact .inl (.inl (.inl h))
      · exact .inr (.inr h)
    · rcases key O.pok (fun p hp => ⟨p, by simp [hp], rfl⟩) hx with h | h
      · exact .inl (.inl (.inr h))
      · exact .inr (.inr h)
    · exact .inr (.inl (.inl (.inr hx)))
    · exact .inl (.inr hx)
    · exact .inr (.inl (.inr hx))
  · simp only [he, if_false, Bool.false_eq_true, rq_append, List.mem_append, rq_nil,
      List.not_mem_nil, false_or] at hx
    rcases hx with ((hx | hx) | hx) | hx | hx
    · rcases key (O.pos ++ O.pok.map (·.withKind .po)) (by
        intro p hp
        rcases List.mem_append.1 hp with hp | hp
        · exact ⟨p, by simp [hp], rfl⟩
        · obtain ⟨q, hq, rfl⟩ := List.mem_map.1 hp
          exact ⟨q, by simp [hq], rfl⟩) hx with h | h
      · simp only [rq_append, rq_map_withKind, List.mem_append] at h
        rcases h with h | h
        · exact .inl (.inl (.inl h))
        · exact .inl (.inl (.inr h))
      · exact .inr (.inr h)
    · exact .inr (.inl (.inl (.inl hx)))
    · exact .inr (.inl (.inl (.inr hx)))
    · exact .inl (.inr hx)
    · exact .inr (.inl (.inr hx))

theorem embedTailC_facts {O i' r : Sorted} {uva uvk : Bool}
    (hnO : (names (O.pos ++ O.pok ++ O.kwo)).Nodup)
    (hni : (names (i'.pos ++ i'.pok ++ i'.kwo)).Nodup)
    (h : embedTailC O i' uva uvk = .ok r) : TailFacts O i' r uva uvk := by
  have hd := embedTailC_disj h
  have hr := embedTailC_ok h
  have hkwo : pupdate (pupdate [] O.kwo) i'.kwo = O.kwo ++ i'.kwo := by
    simp only [names_append_C02] at hnO hni
    have h1 : pupdate [] O.kwo = O.kwo := by
      simpa using pupdate_of_nodup [] O.kwo (by simpa using (List.nodup_append.1 hnO).2.1)
    rw [h1]
    apply pupdate_of_nodup
    simp only [names_append_C02]
    rw [List.nodup_append]
    refine ⟨(List.nodup_append.1 hnO).2.1, (List.nodup_append.1 hni).2.1, ?_⟩
    intro a ha b hb hab
    subst hab
    exact hd a (by simp [ha]) (by simp [hb])
  rw [hkwo] at hr
  subst hr
  refine ⟨?_, ?_, hd, ?_, ?_, ?_, rfl, rfl⟩
  · simp only [ePosC, ePokC]
    cases hp : i'.pos with
    | nil => simp
    | cons a t => simp
  · intro x hx
    simp only [ePokC, names_append_C02, List.mem_append] at hx ⊢
    rcases hx with (hx | hx) | hx | hx
    · split at hx
      · simp only [names_cdIf] at hx; exact .inl (.inl hx)
      · simp at hx
    · exact .inr (.inl hx)
    · exact .inl (.inr hx)
    · exact .inr (.inr hx)
  · intro x hx
    simp only [ePosC, ePokC, rq_append, List.mem_append] at hx ⊢
    rcases hx with (hx | hx) | hx
    · left; left
      cases hp : i'.pos with
      | nil => simp only [List.isEmpty_nil, if_true]; exact rq_cdIf_of hx
      | cons a t =>
        simp only [List.isEmpty_cons, Bool.false_eq_true, if_false, rq_append, List.mem_append]
        left; apply rq_cdIf_of; simp [hx]
    · cases hp : i'.pos with
      | nil =>
        simp only [List.isEmpty_nil, if_true]
        left; right; left; exact rq_cdIf_of hx
      | cons a t =>
        simp only [List.isEmpty_cons, Bool.false_eq_true, if_false, rq_append, List.mem_append]
        left; left; left; apply rq_cdIf_of; simp [hx]
    · right; left; exact hx
  · intro x hx
    simp only [ePosC, ePokC, rq_append, List.mem_append] at hx ⊢
    rcases hx with (hx | hx) | hx
    · cases hp : i'.pos with
      | nil => rw [hp] at hx; simp at hx
      | cons a t =>
        simp only [List.isEmpty_cons, Bool.false_eq_true, if_false, rq_append, List.mem_append]
        left; left; right; rw [← hp]; exact hx
    · left; right; right; exact hx
    · right; right; exact hx
  · intro x hx
    exact t4c_aux _ (fun l hl hx => by
      rcases rq_cdIf_inv hx with h | ⟨hc, p, hp, hpd⟩
      · exact .inl h
      · right
        obtain ⟨q, hq, hqd⟩ := hl p hp
        exact ⟨⟨q, hq, by rw [hqd]; exact hpd⟩, innerFirstRequired_nonempty hc⟩) hx

end SV
