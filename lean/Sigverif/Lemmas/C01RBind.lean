/-
  Lemmas/C01RBind.lean — `accepts` on arbitrary call shapes; sortedness of valid signatures.
-/
import Sigverif.Lemmas.C01RSound
namespace SV

theorem accepts_iff_C01 (ps : List Param) (n : Nat) (K : List Nat) :
    accepts ps n K = true ↔
      (n ≤ (positionals ps).length ∨ hasVa ps = true) ∧
      ∃ bound, bindKw (kwNames ps) (hasVk ps) (names ((positionals ps).take n)) K = some bound ∧
        ∀ p ∈ ps, isNamed p = true → p.required = true → p.name ∈ bound := by
  unfold accepts
  simp only
  by_cases h : (decide (n > (positionals ps).length) && !hasVa ps) = true
  · simp only [h, if_true]
    simp only [Bool.and_eq_true, decide_eq_true_eq, Bool.not_eq_true'] at h
    constructor
    · intro h'; cases h'
    · rintro ⟨h1 | h1, -⟩
      · omega
      · simp [h.2] at h1
  · simp only [h, Bool.false_eq_true, if_false]
    simp only [Bool.and_eq_true, decide_eq_true_eq, Bool.not_eq_true', not_and,
      Bool.not_eq_false] at h
    have h0 : n ≤ (positionals ps).length ∨ hasVa ps = true := by
      by_cases hn : n ≤ (positionals ps).length
      · exact Or.inl hn
      · exact Or.inr (h (by omega))
    have e : List.map (fun x => x.name) (List.take n (positionals ps)) =
        names (List.take n (positionals ps)) := rfl
    rw [e]
    cases hb : bindKw (kwNames ps) (hasVk ps) (names ((positionals ps).take n)) K with
    | none => simp
    | some bound =>
      simp only [List.all_eq_true, List.mem_filter, Bool.or_eq_true, Bool.not_eq_true',
        List.contains_iff_mem, and_imp, Option.some.injEq, exists_eq_left']
      constructor
      · intro h'
        refine ⟨h0, ?_⟩
        intro p hp hnm hr
        rcases h' p hp hnm with h'' | h''
        · simp [hr] at h''
        · exact h''
      · rintro ⟨-, h'⟩ p hp hnm
        cases hr : p.required
        · exact Or.inl rfl
        · exact Or.inr (h' p hp hnm hr)

theorem bindKw_some' {kwp : List Nat} {vk : Bool} {b0 K bound : List Nat}
    (h : bindKw kwp vk b0 K = some bound) :
    (∀ k ∈ K, (k ∈ kwp ∧ k ∉ b0) ∨ (k ∉ kwp ∧ vk = true)) ∧
    (∀ x ∈ bound, x ∈ b0 ∨ (x ∈ K ∧ x ∈ kwp)) ∧ (∀ x ∈ b0, x ∈ bound) := by
  induction K generalizing b0 with
  | nil =>
    simp only [bindKw, Option.some.injEq] at h
    subst h
    exact ⟨by simp, fun x hx => Or.inl hx, fun x hx => hx⟩
  | cons k ks ih =>
    simp only [bindKw] at h
    by_cases hk : kwp.contains k = true
    · simp only [hk, if_true] at h
      by_cases hb : b0.contains k = true
      · rw [if_pos hb] at h; cases h
      · rw [if_neg hb] at h
        obtain ⟨i1, i2, i3⟩ := ih h
        have hk' : k ∈ kwp := by simpa using hk
        have hb' : k ∉ b0 := by simpa using hb
        refine ⟨?_, ?_, ?_⟩
        · intro x hx
          rcases List.mem_cons.1 hx with rfl | hx
          · exact Or.inl ⟨hk', hb'⟩
          · rcases i1 x hx with ⟨h1, h2⟩ | h1
            · exact Or.inl ⟨h1, fun hx' => h2 (List.mem_cons_of_mem _ hx')⟩
            · exact Or.inr h1
        · intro x hx
          rcases i2 x hx with h' | ⟨h', h''⟩
          · rcases List.mem_cons.1 h' with rfl | h'
            · exact Or.inr ⟨List.mem_cons_self, hk'⟩
            · exact Or.inl h'
          · exact Or.inr ⟨List.mem_cons_of_mem _ h', h''⟩
        · intro x hx; exact i3 x (List.mem_cons_of_mem _ hx)
    · simp only [hk, Bool.false_eq_true, if_false] at h
      have hk' : k ∉ kwp := by simpa using hk
      by_cases hv : vk = true
      · subst hv
        simp only [if_true] at h
        obtain ⟨i1, i2, i3⟩ := ih h
        refine ⟨?_, ?_, i3⟩
        · intro x hx
          rcases List.mem_cons.1 hx with rfl | hx
          · exact Or.inr ⟨hk', rfl⟩
          · exact i1 x hx
        · intro x hx
          rcases i2 x hx with h' | ⟨h', h''⟩
          · exact Or.inl h'
          · exact Or.inr ⟨List.mem_cons_of_mem _ h', h''⟩
      · simp [hv] at h

theorem bindKw_ok' {kwp : List Nat} {vk : Bool} {b0 K : List Nat} (hK : K.Nodup)
    (hk : ∀ k ∈ K, (k ∈ kwp → k ∉ b0) ∧ (k ∉ kwp → vk = true)) :
    ∃ bound, bindKw kwp vk b0 K = some bound ∧
      ∀ x, (x ∈ b0 ∨ (x ∈ K ∧ x ∈ kwp)) → x ∈ bound := by
  induction K generalizing b0 with
  | nil => exact ⟨b0, rfl, by simp⟩
  | cons k ks ih =>
    simp only [List.nodup_cons] at hK
    simp only [bindKw]
    by_cases hkk : kwp.contains k = true
    · have hkk' : k ∈ kwp := by simpa using hkk
      have hb : b0.contains k = false := by
        simpa using (hk k List.mem_cons_self).1 hkk'
      simp only [hkk, if_true, hb, Bool.false_eq_true, if_false]
      obtain ⟨b', e, hb'⟩ := ih (b0 := k :: b0) hK.2
        (by
          intro x hx
          refine ⟨?_, (hk x (List.mem_cons_of_mem _ hx)).2⟩
          intro hxk
          simp only [List.mem_cons, not_or]
          exact ⟨fun e => hK.1 (e ▸ hx), (hk x (List.mem_cons_of_mem _ hx)).1 hxk⟩)
      refine ⟨b', e, ?_⟩
      intro x hx
      apply hb'
      rcases hx with hx | ⟨hx, hx'⟩
      · exact Or.inl (List.mem_cons_of_mem _ hx)
      · rcases List.mem_cons.1 hx with rfl | hx
        · exact Or.inl List.mem_cons_self
        · exact Or.inr ⟨hx, hx'⟩
    · have hkk' : k ∉ kwp := by simpa using hkk
      have hv : vk = true := (hk k List.mem_cons_self).2 hkk'
      subst hv
      simp only [hkk, Bool.false_eq_true, if_false, if_true]
      obtain ⟨b', e, hb'⟩ := ih (b0 := b0) hK.2
        (fun x hx => hk x (List.mem_cons_of_mem _ hx))
      refine ⟨b', e, ?_⟩
      intro x hx
      apply hb'
      rcases hx with hx | ⟨hx, hx'⟩
      · exact Or.inl hx
      · rcases List.mem_cons.1 hx with rfl | hx
        · exact absurd hx' hkk'
        · exact Or.inr ⟨hx, hx'⟩

/-! ### a valid signature is sorted by kind -/

theorem validateGo_sorted {top : Nat} {sd : Bool} {seen : List Nat} {ps : List Param}
    (h : validateGo top sd seen ps = .ok ()) :
    (∀ p ∈ ps, top ≤ p.kind.rank) ∧ ps.Pairwise (fun a b => a.kind.rank ≤ b.kind.rank) := by
  induction ps generalizing top sd seen with
  | nil => simp
  | cons p ps ih =>
    simp only [validateGo] at h
    split at h
    · cases h
    · next hlt =>
      split at h
      · cases h
      · split at h
        · cases h
        · obtain ⟨i1, i2⟩ := ih h
          have hge : top ≤ p.kind.rank := by omega
          have i1' : ∀ q ∈ ps, p.kind.rank ≤ q.kind.rank := by
            intro q hq
            have := i1 q hq
            split at this <;> omega
          refine ⟨?_, List.pairwise_cons.2 ⟨i1', i2⟩⟩
          intro q hq
          rcases List.mem_cons.1 hq with rfl | hq
          · exact hge
          · have := i1' q hq; omega

theorem positionals_eq_of_sorted {ps : List Param}
    (h : ps.Pairwise (fun a b => a.kind.rank ≤ b.kind.rank)) :
    positionals ps = ps.filter (fun p => p.kind = .po) ++ ps.filter (fun p => p.kind = .pk) := by
  induction ps with
  | nil => rfl
  | cons p ps ih =>
    obtain ⟨h1, h2⟩ := List.pairwise_cons.1 h
    have ih' := ih h2
    unfold positionals at ih' ⊢
    cases hk : p.kind
    case po => simp [List.filter_cons, isPositional, hk, ih']
    case pk =>
      have : ps.filter (fun p => decide (p.kind = .po)) = [] := by
        apply filter_eq_nil_of
        intro q hq
        have := h1 q hq
        rw [hk] at this
        cases hq' : q.kind <;> simp_all [Kind.rank]
      simp [List.filter_cons, isPositional, hk, ih', this]
    all_goals simp [List.filter_cons, isPositional, hk, ih']

theorem positionals_sort (s : USig) (h : validate s.params = .ok ()) :
    positionals s.params = (sortParams s).pos ++ (sortParams s).pok := by
  have F := sortParams_facts s h
  rw [F.pos, F.pok]
  exact positionals_eq_of_sorted (validateGo_sorted h).2

end SV
