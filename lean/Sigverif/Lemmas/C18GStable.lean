/-
  Lemmas/C18GStable.lean — while the caller holds the wrapper it got through instance i, every lookup on
  i returns that same wrapper (both key modes).
-/
import Sigverif.Lemmas.C18GGet
namespace SV

/-- instance i is `k`, its lookup hits entry `e`, and the caller holds `e`'s wrapper in slot i -/
def Stab (m : KeyMode) (i : Nat) (k : Inst) (e : IEntry) (s : IState) : Prop :=
  s.instOf i = some k ∧ s.find m k = some e ∧ (i, e.wid) ∈ s.heldWrap

theorem matches_congr (m : KeyMode) {a b : Inst} (h : m.matches a b = true) (x : Inst) :
    m.matches x a = m.matches x b := by
  cases m <;> simp only [KeyMode.matches, beq_iff_eq] at h ⊢ <;> rw [h]

theorem find_congr (m : KeyMode) (s : IState) {a b : Inst} (h : m.matches a b = true) :
    s.find m a = s.find m b := by
  unfold IState.find
  congr 1
  funext x
  exact matches_congr m h x.key

theorem find_keepSt (m : KeyMode) (s : IState) (keep : Option Nat) (w : Nat) (k : Inst) :
    (keepSt s keep w).find m k = s.find m k := by
  cases keep <;> rfl

theorem find_insSt (m : KeyMode) (s : IState) (k' k : Inst) (e : IEntry)
    (hmiss : s.find m k' = none) (hk : s.find m k = some e) :
    (insSt s k').find m k = some e := by
  have hne : m.matches k' k = false := by
    cases hm : m.matches k' k with
    | false => rfl
    | true => rw [find_congr m s hm, hk] at hmiss; cases hmiss
  simp only [IState.find, insSt, List.find?_cons, hne]
  exact hk

theorem find?_filter_of_keep {α : Type} (p q : α → Bool) (l : List α) (a : α)
    (h : l.find? p = some a) (hq : q a = true) : (l.filter q).find? p = some a := by
  induction l with
  | nil => cases h
  | cons x l ih =>
    simp only [List.find?_cons] at h
    cases hp : p x with
    | true =>
      rw [hp] at h
      simp only [Option.some.injEq] at h
      subst h
      simp [hq, hp]
    | false =>
      rw [hp] at h
      simp only [List.filter_cons]
      split
      · simp only [List.find?_cons, hp]; exact ih h
      · exact ih h

theorem instOf_keepSt (s : IState) (keep : Option Nat) (w : Nat) (i : Nat) :
    (keepSt s keep w).instOf i = s.instOf i := by
  cases keep <;> rfl

theorem heldWrap_keepSt_mono (s : IState) (keep : Option Nat) (w : Nat) (p : Nat × Nat)
    (h : p ∈ s.heldWrap) : p ∈ (keepSt s keep w).heldWrap := by
  cases keep with
  | none => exact h
  | some slot => simp only [keepSt, mem_addPair]; exact Or.inr h

theorem Stab_descGet {m : KeyMode} {i : Nat} {k : Inst} {e : IEntry} {s : IState}
    (h : Stab m i k e s) (k' : Inst) (keep : Option Nat) :
    Stab m i k e (descGet m s (some k') 0 keep).1 := by
  obtain ⟨h1, h2, h3⟩ := h
  cases hf : s.find m k' with
  | some e' =>
    rw [descGet_hit _ _ hf]
    exact ⟨by rw [instOf_keepSt]; exact h1, by rw [find_keepSt]; exact h2,
      heldWrap_keepSt_mono _ _ _ _ h3⟩
  | none =>
    rw [descGet_miss _ _ hf]
    refine ⟨by rw [instOf_keepSt]; exact h1, ?_, heldWrap_keepSt_mono _ _ _ _ h3⟩
    rw [find_keepSt]
    exact find_insSt m s k' k e hf h2

theorem Stab_step {m : KeyMode} {i : Nat} {k : Inst} {e : IEntry} {s : IState} (op : IOp)
    (hop : op ≠ .dropWrapper i) (h : Stab m i k e s) : Stab m i k e (istep m s op).1 := by
  have hinst := instOf_step_stable m s op i k h.1
  cases op with
  | get j =>
    simp only [istep]
    split
    · exact h
    · exact Stab_descGet h _ _
  | call j =>
    simp only [istep]
    split
    · exact h
    · exact Stab_descGet h _ _
  | cls => exact h
  | dropInst j => exact h
  | newInst j c => exact ⟨hinst, h.2.1, h.2.2⟩
  | dropWrapper j =>
    refine ⟨h.1, h.2.1, ?_⟩
    simp only [istep, List.mem_filter]
    refine ⟨h.2.2, ?_⟩
    have : i ≠ j := by rintro rfl; exact hop rfl
    simpa using this
  | gc =>
    refine ⟨h.1, ?_, h.2.2⟩
    simp only [istep, IState.collect, IState.find]
    apply find?_filter_of_keep _ _ _ _ h.2.1
    simp only [List.any_eq_true, beq_iff_eq]
    exact ⟨_, h.2.2, rfl⟩

theorem Stab_runFrom {m : KeyMode} {i : Nat} {k : Inst} {e : IEntry} (ops : List IOp) (s : IState)
    (hops : IOp.dropWrapper i ∉ ops) (h : Stab m i k e s) : Stab m i k e (irunFrom m s ops).1 := by
  induction ops generalizing s with
  | nil => exact h
  | cons op ops ih =>
    simp only [List.mem_cons, not_or] at hops
    rw [irunFrom_cons]
    exact ih _ hops.2 (Stab_step op (fun hh => hops.1 hh.symm) h)

/-- after `get i` the caller holds the wrapper that was answered -/
theorem Stab_after_get (m : KeyMode) (s : IState) (i : Nat) (k : Inst)
    (hk : s.heldInstOf i = some k) :
    ∃ e, Stab m i k e (istep m s (.get i)).1 ∧
      (istep m s (.get i)).2 = some (.wrapper e.wid e.wrapperInst) := by
  obtain ⟨_, hinst, hid⟩ := heldInstOf_some hk
  rw [get_answer, hk]
  simp only [istep, hk]
  cases hf : s.find m k with
  | some e =>
    refine ⟨e, ?_, by rw [descGet_hit _ _ hf]⟩
    rw [descGet_hit _ _ hf]
    exact ⟨hinst, by rw [find_keepSt]; exact hf, by simp [keepSt, mem_addPair]⟩
  | none =>
    refine ⟨⟨k, k.id, s.nextWid⟩, ?_, by rw [descGet_miss _ _ hf]⟩
    rw [descGet_miss _ _ hf]
    refine ⟨hinst, ?_, by simp [keepSt, mem_addPair]⟩
    rw [find_keepSt]
    have hmm : m.matches k k = true := by cases m <;> simp [KeyMode.matches]
    simp [IState.find, insSt, hmm]

theorem Stab_answer {m : KeyMode} {i : Nat} {k : Inst} {e : IEntry} {s : IState}
    (h : Stab m i k e s) (hi : i ∈ s.heldInst) :
    (istep m s (.get i)).2 = some (.wrapper e.wid e.wrapperInst) := by
  have hk : s.heldInstOf i = some k := by simp [IState.heldInstOf, hi, h.1]
  rw [get_answer, hk]
  simp only [lookup_answer, h.2.1]

/-- stability: the wrapper answered by `get i` is answered again by every later `get i` / `call i`
    as long as the caller has not dropped the wrappers it got through i -/
theorem get_stable' (m : KeyMode) (s : IState) (mid : List IOp) (i : Nat) (a : IAns)
    (h1 : (istep m s (.get i)).2 = some a) (ha : a ≠ .noInst)
    (hmid : IOp.dropWrapper i ∉ mid)
    (hheld : i ∈ (irunFrom m (istep m s (.get i)).1 mid).1.heldInst) :
    (istep m (irunFrom m (istep m s (.get i)).1 mid).1 (.get i)).2 = some a := by
  cases hk : s.heldInstOf i with
  | none =>
    rw [get_answer, hk] at h1
    simp only [Option.some.injEq] at h1
    exact absurd h1.symm ha
  | some k =>
    obtain ⟨e, hst, hans⟩ := Stab_after_get m s i k hk
    rw [hans] at h1
    rw [← h1]
    exact Stab_answer (Stab_runFrom mid _ hmid hst) hheld

end SV
