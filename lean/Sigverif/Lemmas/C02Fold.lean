/-
  Lemmas/C02Fold.lean — the buckets of `embedStep`/`embedFold` only depend on the buckets of
  the operands; bucket kinds are preserved; proof material for `embed_fold_params`.
-/
import Sigverif.Lemmas.C02Embed
namespace SV

def eraseMeta (s : Sorted) : Sorted := { s with src := [], depths := [] }

@[simp] theorem eraseMeta_all (s : Sorted) : (eraseMeta s).all = s.all := rfl

/-- closed form (buckets only) of `embedStep` -/
def embedStepC (O I : Sorted) (uva uvk : Bool) : Except Err Sorted :=
  (mergeStars I (if uva then O.va else none) (if uvk then O.vk else none)
    >>= fun i => embedTailC O i uva uvk).map eraseMeta

theorem embedStep_erase (O I : Sorted) (uva uvk : Bool) (d : Nat) :
    (embedStep O I uva uvk d).map eraseMeta = embedStepC O I uva uvk := by
  rw [embedStep_eq]
  obtain ⟨src, h⟩ := mergeStep_stars I (if uva then O.va else none) (if uvk then O.vk else none)
  rw [h]
  unfold embedStepC
  cases hm : mergeStars I (if uva then O.va else none) (if uvk then O.vk else none) with
  | error e => rfl
  | ok b =>
    simp only [Except.map, bind, Except.bind]
    rw [embedTail_eq]
    have : embedTailC O { pos := b.pos, pok := b.pok, va := b.va, kwo := b.kwo, vk := b.vk,
                          src := src, depths := mergeDepths I.depths [] } uva uvk
           = embedTailC O b uva uvk := rfl
    rw [this]
    cases embedTailC O b uva uvk with
    | error e => rfl
    | ok r => rfl

theorem embedStepC_erase (O I : Sorted) (uva uvk : Bool) :
    embedStepC (eraseMeta O) (eraseMeta I) uva uvk = embedStepC O I uva uvk := rfl

theorem embedFold_erase (uva uvk : Bool) (ss : List USig) (acc acc' : Sorted) (d d' : Nat)
    (h : eraseMeta acc = eraseMeta acc') :
    (embedFold uva uvk acc d ss).map eraseMeta = (embedFold uva uvk acc' d' ss).map eraseMeta := by
  induction ss generalizing acc acc' d d' with
  | nil => simp [embedFold, Except.map, h]
  | cons s ss ih =>
    have e1 := embedStep_erase acc (sortParams s) uva uvk d
    have e2 := embedStep_erase acc' (sortParams s) uva uvk d'
    rw [← embedStepC_erase, h, embedStepC_erase] at e1
    rw [← e2] at e1
    unfold embedFold
    cases h1 : embedStep acc (sortParams s) uva uvk d with
    | error e =>
      cases h2 : embedStep acc' (sortParams s) uva uvk d' with
      | error e' => rfl
      | ok r' => rw [h1, h2] at e1; cases e1
    | ok r =>
      cases h2 : embedStep acc' (sortParams s) uva uvk d' with
      | error e' => rw [h1, h2] at e1; cases e1
      | ok r' =>
        rw [h1, h2] at e1
        simp only [Except.map, Except.ok.injEq] at e1
        exact ih r r' (d + 1) (d' + 1) e1

theorem applyParams_params (s : USig) (r : Sorted) :
    (applyParams s r).map (·.params) = (validate r.all).map (fun _ => r.all) := by
  unfold applyParams
  cases validate r.all <;> rfl

theorem applyParams_params_erase (s s' : USig) (r r' : Sorted) (h : eraseMeta r = eraseMeta r') :
    (applyParams s r).map (·.params) = (applyParams s' r').map (·.params) := by
  rw [applyParams_params, applyParams_params, ← eraseMeta_all r, h, eraseMeta_all]

/-! ### membership in pset / pupdate -/

theorem mem_pset_C02 {d : List Param} {p q : Param} (h : q ∈ pset d p) : q ∈ d ∨ q = p := by
  induction d with
  | nil => simp [pset] at h; exact .inr h
  | cons a t ih =>
    simp only [pset] at h
    split at h
    · rcases List.mem_cons.1 h with h | h
      · exact .inr h
      · exact .inl (List.mem_cons_of_mem _ h)
    · rcases List.mem_cons.1 h with h | h
      · exact .inl (by simp [h])
      · rcases ih h with h | h
        · exact .inl (List.mem_cons_of_mem _ h)
        · exact .inr h

theorem mem_pupdate_C02 {d e : List Param} {q : Param} (h : q ∈ pupdate d e) : q ∈ d ∨ q ∈ e := by
  induction e generalizing d with
  | nil => exact .inl h
  | cons p e ih =>
    rw [pupdate_cons] at h
    rcases ih h with h | h
    · rcases mem_pset_C02 h with h | h
      · exact .inl h
      · exact .inr (by simp [h])
    · exact .inr (List.mem_cons_of_mem _ h)

/-! ### bucket kinds are preserved -/

theorem starOf_kind {l r : Option Param} {w : Bool} {k : Kind} (h : ∀ p, l = some p → p.kind = k) :
    ∀ p, starOf l r w = some p → p.kind = k := by
  intro p hp
  cases l with
  | none => simp [starOf] at hp
  | some lp =>
    cases r with
    | none => simp [starOf] at hp
    | some rp =>
      simp only [starOf, Option.some.injEq] at hp
      subst hp
      have := h lp rfl
      split
      · exact this
      · exact this

theorem mergeStars_kinds {I r : Sorted} {sva svk : Option Param} (hI : BucketKinds I)
    (h : mergeStars I sva svk = .ok r) : BucketKinds r := by
  unfold mergeStars at h
  simp only at h
  split at h
  · split at h
    · cases h
      refine ⟨hI.pos, hI.pok, starOf_kind hI.va, ?_, starOf_kind hI.vk⟩
      intro p hp
      rcases mem_pupdate_C02 hp with hp | hp
      · cases hp
      · rcases mem_pupdate_C02 hp with hp | hp
        · cases hp
        · exact hI.kwo p hp
    · split at h
      · cases h
      · cases h
        refine ⟨?_, ?_, starOf_kind hI.va, ?_, ?_⟩
        · intro p hp
          rcases List.mem_append.1 hp with hp | hp
          · exact hI.pos p hp
          · obtain ⟨q, _, rfl⟩ := List.mem_map.1 hp; rfl
        · intro p hp; cases hp
        · intro p hp; cases hp
        · intro p hp; cases hp
  · split at h
    · cases h
    · split at h
      · cases h
        refine ⟨?_, ?_, ?_, ?_, starOf_kind hI.vk⟩
        · intro p hp; cases hp
        · intro p hp; cases hp
        · intro p hp; cases hp
        · intro p hp
          rcases mem_pupdate_C02 hp with hp | hp
          · rcases mem_pupdate_C02 hp with hp | hp
            · cases hp
            · obtain ⟨q, _, rfl⟩ := List.mem_map.1 hp; rfl
          · rcases mem_pupdate_C02 hp with hp | hp
            · cases hp
            · exact hI.kwo p hp
      · split at h
        · cases h
        · split at h
          · cases h
          · cases h
            refine ⟨?_, ?_, ?_, ?_, ?_⟩ <;> intro p hp <;> cases hp

theorem mem_clearDefaults {l : List Param} {p : Param} (h : p ∈ clearDefaults l) :
    ∃ q ∈ l, p = q.withDflt none := by
  obtain ⟨q, hq, rfl⟩ := List.mem_map.1 h
  exact ⟨q, hq, rfl⟩

theorem cdIf_kind {c : Bool} {l : List Param} {k : Kind} (h : ∀ p ∈ l, p.kind = k) :
    ∀ p ∈ cdIf c l, p.kind = k := by
  intro p hp
  unfold cdIf at hp
  split at hp
  · obtain ⟨q, hq, rfl⟩ := mem_clearDefaults hp
    exact h q hq
  · exact h p hp

theorem checkNoDupes_ok {c c' : List Nat} {ps : List Param} (h : checkNoDupes c ps = .ok c') :
    (∀ x ∈ names ps, x ∉ c) ∧ c' = c ++ names ps := by
  unfold checkNoDupes at h
  split at h
  · cases h
  · rename_i hh
    cases h
    refine ⟨?_, rfl⟩
    intro x hx hc
    apply hh
    simp only [List.any_eq_true, List.contains_iff_mem]
    exact ⟨x, hx, by simpa using hc⟩

theorem embedTailC_ok {O i r : Sorted} {uva uvk : Bool} (h : embedTailC O i uva uvk = .ok r) :
    r = { pos := ePosC O i, pok := ePokC O i, va := if uva then i.va else O.va,
          kwo := pupdate (pupdate [] O.kwo) i.kwo, vk := if uvk then i.vk else O.vk } := by
  unfold embedTailC at h
  simp only [bind, Except.bind, pure, Except.pure] at h
  repeat (split at h; · cases h)
  cases h; rfl

theorem embedTailC_kinds {O i r : Sorted} {uva uvk : Bool} (hO : BucketKinds O) (hi : BucketKinds i)
    (h : embedTailC O i uva uvk = .ok r) : BucketKinds r := by
  rw [embedTailC_ok h]
  refine ⟨?_, ?_, ?_, ?_, ?_⟩
  · intro p hp
    simp only [ePosC] at hp
    split at hp
    · exact cdIf_kind hO.pos p hp
    · rcases List.mem_append.1 hp with hp | hp
      · refine cdIf_kind (k := .po) ?_ p hp
        intro q hq
        rcases List.mem_append.1 hq with hq | hq
        · exact hO.pos q hq
        · obtain ⟨q', _, rfl⟩ := List.mem_map.1 hq; rfl
      · exact hi.pos p hp
  · intro p hp
    simp only [ePokC] at hp
    rcases List.mem_append.1 hp with hp | hp
    · split at hp
      · exact cdIf_kind hO.pok p hp
      · cases hp
    · exact hi.pok p hp
  · intro p hp
    simp only at hp
    split at hp
    · exact hi.va p hp
    · exact hO.va p hp
  · intro p hp
    simp only at hp
    rcases mem_pupdate_C02 hp with hp | hp
    · rcases mem_pupdate_C02 hp with hp | hp
      · cases hp
      · exact hO.kwo p hp
    · exact hi.kwo p hp
  · intro p hp
    simp only at hp
    split at hp
    · exact hi.vk p hp
    · exact hO.vk p hp

theorem eraseMeta_kinds {s : Sorted} (h : BucketKinds s) : BucketKinds (eraseMeta s) :=
  ⟨h.pos, h.pok, h.va, h.kwo, h.vk⟩

theorem embedStepC_kinds {O I r : Sorted} {uva uvk : Bool} (hO : BucketKinds O) (hI : BucketKinds I)
    (h : embedStepC O I uva uvk = .ok r) : BucketKinds r := by
  unfold embedStepC at h
  cases hm : mergeStars I (if uva then O.va else none) (if uvk then O.vk else none) with
  | error e => rw [hm] at h; cases h
  | ok b =>
    rw [hm] at h
    simp only [bind, Except.bind] at h
    cases ht : embedTailC O b uva uvk with
    | error e => rw [ht] at h; cases h
    | ok r' =>
      rw [ht] at h
      simp only [Except.map, Except.ok.injEq] at h
      subst h
      exact eraseMeta_kinds (embedTailC_kinds hO (mergeStars_kinds hI hm) ht)

theorem embedStep_kinds {O I r : Sorted} {uva uvk : Bool} {d : Nat} (hO : BucketKinds O)
    (hI : BucketKinds I) (h : embedStep O I uva uvk d = .ok r) : BucketKinds r := by
  have e := embedStep_erase O I uva uvk d
  rw [h] at e
  have := embedStepC_kinds hO hI e.symm
  exact ⟨this.pos, this.pok, this.va, this.kwo, this.vk⟩

end SV
