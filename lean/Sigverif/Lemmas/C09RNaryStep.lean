/-
  Lemmas/C09RNaryStep.lean — completeness of one `mergeStep` for all-positional calls, in the form
  needed to carry "every input so far accepts `n` positional arguments" through `mergeFold`:

    if both operands accept the all-positional call with `n` arguments (index form `accPosI`) and the
    keyword-only limbo cannot swallow a positional parameter below index `n`, then so does the result;

  together with the origin of the names in the `pok` / `kwo` buckets of the result.
-/
import Sigverif.Lemmas.C09RCall
namespace SV
variable {l r : Sorted} {n : Nat}

/-! ### index form of bucket-level acceptance -/

/-- bucket-level acceptance of the all-positional call with `n` arguments: every required
    positional parameter has an index below `n` (no assumption that defaults form a suffix) -/
def accPosI (B : Sorted) (n : Nat) : Prop :=
  (∀ i p, (B.pos ++ B.pok)[i]? = some p → p.required = true → i < n) ∧
  (n ≤ B.pos.length + B.pok.length ∨ B.va.isSome = true) ∧ ¬ anyReq B.kwo

theorem accPosI_of_accPosB {B : Sorted} (hs : OptSuffix (B.pos ++ B.pok)) (h : accPosB B n) :
    accPosI B n := by
  obtain ⟨h1, h2, h3⟩ := h
  refine ⟨?_, h2, h3⟩
  intro i p hi hr
  have := ObstAt.reqCount hs ⟨i, p, hi, hr, Nat.le_refl _⟩
  omega

theorem not_accPosI_of_obst (hva : r.va.isSome = false)
    (ho : ObstAt (l.pos ++ l.pok) (r.pos.length + r.pok.length)) :
    ¬ (accPosI l n ∧ accPosI r n) := by
  rintro ⟨⟨a1, -, -⟩, ⟨-, b2, -⟩⟩
  obtain ⟨i, p, h1, h2, h3⟩ := ho
  have := a1 i p h1 h2
  rw [hva] at b2
  simp only [Bool.false_eq_true, or_false] at b2
  omega

/-- a raising step has no common all-positional call (index form; no suffix hypothesis) -/
theorem mergeStep_err_no_posI {e : Err} (hlk : (names l.kwo).Nodup) (hrk : (names r.kwo).Nodup)
    (h : mergeStep l r = .error e) (n : Nat) : ¬ (accPosI l n ∧ accPosI r n) := by
  obtain ⟨-, -, -, hLun, hRun⟩ := stK_upd (l := l) (r := r) hlk hrk
  rcases mergeStep_err_cases h with h1 | ⟨st1, il, ir, h1, h⟩
  · rcases phaseP_err_obst _ _ _ _ _ _ h1 with ⟨hva, ho⟩ | ⟨hva, ho⟩
    · exact not_accPosI_of_obst hva (ho.append_right _)
    · exact fun hh => not_accPosI_of_obst hva (ho.append_right _) hh.symm
  have S := phaseP_spec _ _ _ _ _ _ _ _ h1
  obtain ⟨d1, d2⟩ := phaseP_ok_drop _ _ _ _ _ _ _ _ h1
  rcases h with h2 | ⟨st2, h2, h⟩
  · rcases phaseQ_err_obst _ _ _ _ h2 with ⟨hva, -, ho⟩ | ⟨hva, -, ho⟩
    · apply not_accPosI_of_obst hva
      rw [d1] at ho
      refine (ho.of_drop.append_left l.pos).mono ?_
      rw [d2, List.length_drop]; omega
    · intro hh
      apply not_accPosI_of_obst hva _ hh.symm
      rw [d2] at ho
      refine (ho.of_drop.append_left r.pos).mono ?_
      rw [d1, List.length_drop]; omega
  obtain ⟨q1, q2⟩ := phaseQ_un_sub _ _ _ _ h2
  rcases h with h3 | ⟨st3, h3, h4⟩
  · obtain ⟨p, hp, hr⟩ := mergeUnmatched_L_err h3
    have hp' : p ∈ l.kwo := by
      have := q1 p hp
      rw [S.lun, hLun] at this
      exact (mem_lUnK.1 this).1
    rintro ⟨⟨-, -, a3⟩, -⟩
    exact a3 ⟨p, hp', hr⟩
  · obtain ⟨p, hp, hr⟩ := mergeUnmatched_R_err h4
    have e3 : st3.rUn = st2.rUn := by
      rcases mergeUnmatched_L_inv h3 with ⟨-, hu⟩ | ⟨-, hu⟩ | ⟨-, hu⟩ <;> exact hu.2.2.2.2
    have hp' : p ∈ r.kwo := by
      rw [e3] at hp
      have := q2 p hp
      rw [S.run, hRun] at this
      exact (mem_rUnK.1 this).1
    rintro ⟨-, ⟨-, -, b3⟩⟩
    exact b3 ⟨p, hp', hr⟩

/-! ### `_merge_unbalanced_pok` with the exact branch conditions -/

theorem unbalancedPok_L_inv' {x : Param} {st st' : MState}
    (h : unbalancedPok .L l r x st = .ok st') :
    (∃ q, pget st.rUn x.name = some q ∧
      Upd st' st.pos st.pok (pset st.kwo ((concile x q).withKind .ko)) st.lUn (ppop st.rUn x.name)) ∨
    (r.va.isSome = true ∧ r.vk.isSome = true ∧
      Upd st' st.pos (st.pok ++ [x]) st.kwo st.lUn st.rUn) ∨
    (r.va.isSome = false ∧ r.vk.isSome = true ∧
      Upd st' st.pos st.pok (pset st.kwo (x.withKind .ko)) st.lUn st.rUn) ∨
    (r.va.isSome = true ∧ r.vk.isSome = false ∧
      Upd st' (st.pos ++ st.pok.map (·.withKind .po) ++ [x.withKind .po]) [] st.kwo st.lUn st.rUn) ∨
    (r.va.isSome = false ∧ r.vk.isSome = false ∧ x.required = false ∧
      Upd st' st.pos st.pok st.kwo st.lUn st.rUn) := by
  unfold unbalancedPok at h
  simp only at h
  cases hq : pget st.rUn x.name with
  | some q =>
    simp only [hq, Except.ok.injEq] at h
    subst h
    exact Or.inl ⟨q, rfl, rfl, rfl, rfl, rfl, rfl⟩
  | none =>
    simp only [hq] at h
    refine Or.inr ?_
    by_cases hva : r.va.isSome = true <;> by_cases hvk : r.vk.isSome = true
    · simp only [hva, hvk, Bool.and_self, if_true, Except.ok.injEq] at h
      subst h
      exact Or.inl ⟨hva, hvk, rfl, rfl, rfl, rfl, rfl⟩
    · simp only [hva, hvk, Bool.and_false, Bool.false_eq_true, if_false, if_true,
        Except.ok.injEq] at h
      subst h
      exact Or.inr (Or.inr (Or.inl ⟨hva, by simpa using hvk, rfl, rfl, rfl, rfl, rfl⟩))
    · simp only [hva, hvk, Bool.false_and, Bool.false_eq_true, if_false, if_true,
        Except.ok.injEq] at h
      subst h
      exact Or.inr (Or.inl ⟨by simpa using hva, hvk, rfl, rfl, rfl, rfl, rfl⟩)
    · simp only [hva, hvk, Bool.false_and, Bool.false_eq_true, if_false] at h
      by_cases hd : x.dflt.isNone = true
      · simp [hd] at h
      · simp only [hd, Bool.false_eq_true, if_false, Except.ok.injEq] at h
        subst h
        exact Or.inr (Or.inr (Or.inr ⟨by simpa using hva, by simpa using hvk,
          Bool.eq_false_iff.2 hd, rfl, rfl, rfl, rfl, rfl⟩))

theorem unbalancedPok_R_inv' {x : Param} {st st' : MState}
    (h : unbalancedPok .R l r x st = .ok st') :
    (∃ q, pget st.lUn x.name = some q ∧
      Upd st' st.pos st.pok (pset st.kwo ((concile x q).withKind .ko)) (ppop st.lUn x.name) st.rUn) ∨
    (l.va.isSome = true ∧ l.vk.isSome = true ∧
      Upd st' st.pos (st.pok ++ [x]) st.kwo st.lUn st.rUn) ∨
    (l.va.isSome = false ∧ l.vk.isSome = true ∧
      Upd st' st.pos st.pok (pset st.kwo (x.withKind .ko)) st.lUn st.rUn) ∨
    (l.va.isSome = true ∧ l.vk.isSome = false ∧
      Upd st' (st.pos ++ st.pok.map (·.withKind .po) ++ [x.withKind .po]) [] st.kwo st.lUn st.rUn) ∨
    (l.va.isSome = false ∧ l.vk.isSome = false ∧ x.required = false ∧
      Upd st' st.pos st.pok st.kwo st.lUn st.rUn) := by
  unfold unbalancedPok at h
  simp only at h
  cases hq : pget st.lUn x.name with
  | some q =>
    simp only [hq, Except.ok.injEq] at h
    subst h
    exact Or.inl ⟨q, rfl, rfl, rfl, rfl, rfl, rfl⟩
  | none =>
    simp only [hq] at h
    refine Or.inr ?_
    by_cases hva : l.va.isSome = true <;> by_cases hvk : l.vk.isSome = true
    · simp only [hva, hvk, Bool.and_self, if_true, Except.ok.injEq] at h
      subst h
      exact Or.inl ⟨hva, hvk, rfl, rfl, rfl, rfl, rfl⟩
    · simp only [hva, hvk, Bool.and_false, Bool.false_eq_true, if_false, if_true,
        Except.ok.injEq] at h
      subst h
      exact Or.inr (Or.inr (Or.inl ⟨hva, by simpa using hvk, rfl, rfl, rfl, rfl, rfl⟩))
    · simp only [hva, hvk, Bool.false_and, Bool.false_eq_true, if_false, if_true,
        Except.ok.injEq] at h
      subst h
      exact Or.inr (Or.inl ⟨by simpa using hva, hvk, rfl, rfl, rfl, rfl, rfl⟩)
    · simp only [hva, hvk, Bool.false_and, Bool.false_eq_true, if_false] at h
      by_cases hd : x.dflt.isNone = true
      · simp [hd] at h
      · simp only [hd, Bool.false_eq_true, if_false, Except.ok.injEq] at h
        subst h
        exact Or.inr (Or.inr (Or.inr ⟨by simpa using hva, by simpa using hvk,
          Bool.eq_false_iff.2 hd, rfl, rfl, rfl, rfl, rfl⟩))

/-! ### the invariant of the positional zip (phases P and Q) -/

/-- the `required` flags of the positional part of the state, in order -/
def rq_C09R (st : MState) : List Bool := (st.pos ++ st.pok).map (·.required)

theorem rq_eq {st : MState} {pos pok : List Param} (h1 : st.pos = pos) (h2 : st.pok = pok) :
    rq_C09R st = (pos ++ pok).map (·.required) := by
  unfold rq_C09R; rw [h1, h2]

/-- `c` zip positions have been consumed; the positional part of the state is no longer than `c`,
    lost nothing below index `n`, and every required entry sits below `n` -/
structure ZInv (l r : Sorted) (n c : Nat) (st : MState) : Prop where
  len : (rq_C09R st).length ≤ c
  keep : min c n ≤ (rq_C09R st).length
  req : ∀ i, (rq_C09R st)[i]? = some true → i < n
  kw : ¬ anyReq st.kwo
  lun : ∀ p ∈ st.lUn, p ∈ l.kwo
  run : ∀ p ∈ st.rUn, p ∈ r.kwo
  pokN : ∀ x ∈ names st.pok, x ∈ names l.pok ∨ x ∈ names r.pok
  kwoN : l.va.isSome = true → r.va.isSome = true →
    ∀ x ∈ names st.kwo, x ∈ names l.kwo ∨ x ∈ names r.kwo

/-- what is left of one operand's positional chain: its required entries lie below `n` and its
    capacity reaches `n` -/
def Rem (n c : Nat) (va : Bool) (X : List Param) : Prop :=
  (∀ j p, X[j]? = some p → p.required = true → c + j < n) ∧ (n ≤ c + X.length ∨ va = true)

theorem Rem.head {c : Nat} {va : Bool} {x : Param} {X : List Param} (h : Rem n c va (x :: X)) :
    x.required = true → c < n := fun hr => by
  have := h.1 0 x rfl hr; omega

theorem Rem.tail {c : Nat} {va : Bool} {x : Param} {X : List Param} (h : Rem n c va (x :: X)) :
    Rem n (c + 1) va X := by
  refine ⟨fun j p hj hr => ?_, ?_⟩
  · have := h.1 (j + 1) p (by simpa using hj) hr; omega
  · rcases h.2 with h2 | h2
    · left; simp only [List.length_cons] at h2; omega
    · exact Or.inr h2

theorem Rem.nil_succ {c : Nat} {va : Bool} (h : Rem n c va []) : Rem n (c + 1) va [] := by
  refine ⟨fun j p hj => by simp at hj, ?_⟩
  rcases h.2 with h2 | h2
  · left; simp only [List.length_nil] at h2 ⊢; omega
  · exact Or.inr h2

theorem Rem.nil_le {c : Nat} (h : Rem n c false []) : n ≤ c := by
  rcases h.2 with h2 | h2
  · simpa using h2
  · cases h2

/-- a step that appends one entry to the positional part -/
theorem ZInv.app {c : Nat} {st st' : MState} (h : ZInv l r n c st) (b : Bool)
    (hrq : rq_C09R st' = rq_C09R st ++ [b]) (hb : b = true → c < n)
    (hk : st'.kwo = st.kwo) (hl : st'.lUn = st.lUn) (hr : st'.rUn = st.rUn)
    (hp : ∀ x ∈ names st'.pok, x ∈ names st.pok ∨ x ∈ names l.pok ∨ x ∈ names r.pok) :
    ZInv l r n (c + 1) st' := by
  obtain ⟨h1, h2, h3, h4, h5, h6, h7, h8⟩ := h
  refine ⟨?_, ?_, ?_, hk ▸ h4, hl ▸ h5, hr ▸ h6, ?_, hk ▸ h8⟩
  · rw [hrq]; simp only [List.length_append, List.length_singleton]; omega
  · rw [hrq]; simp only [List.length_append, List.length_singleton]; omega
  · intro i hi
    rw [hrq] at hi
    rcases Nat.lt_or_ge i (rq_C09R st).length with hlt | hge
    · rw [List.getElem?_append_left hlt] at hi; exact h3 i hi
    · rw [List.getElem?_append_right hge] at hi
      have hi0 : i - (rq_C09R st).length = 0 := by
        rcases Nat.eq_zero_or_pos (i - (rq_C09R st).length) with h0 | h0
        · exact h0
        · rw [List.getElem?_eq_none (by simp only [List.length_singleton]; omega)] at hi; cases hi
      rw [hi0] at hi
      simp only [List.getElem?_cons_zero, Option.some.injEq] at hi
      have := hb hi
      omega
  · intro x hx
    rcases hp x hx with h | h | h
    · exact h7 x h
    · exact Or.inl h
    · exact Or.inr h

/-- a step that drops the current entry from the positional part; legal only at or above `n` -/
theorem ZInv.drop {c : Nat} {st st' : MState} (h : ZInv l r n c st)
    (hrq : rq_C09R st' = rq_C09R st) (hn : n ≤ c) (hkw : anyReq st'.kwo → anyReq st.kwo)
    (hl : ∀ p ∈ st'.lUn, p ∈ st.lUn) (hr : ∀ p ∈ st'.rUn, p ∈ st.rUn)
    (hp : st'.pok = st.pok)
    (hkN : l.va.isSome = true → r.va.isSome = true →
      ∀ x ∈ names st'.kwo, x ∈ names st.kwo) :
    ZInv l r n (c + 1) st' := by
  obtain ⟨h1, h2, h3, h4, h5, h6, h7, h8⟩ := h
  refine ⟨?_, ?_, ?_, fun h => h4 (hkw h), fun p hp => h5 p (hl p hp), fun p hp => h6 p (hr p hp),
    hp ▸ h7, fun a b x hx => h8 a b x (hkN a b x hx)⟩
  · rw [hrq]; omega
  · rw [hrq]; omega
  · rw [hrq]; exact h3

theorem anyReq_pset {d : List Param} {e : Param} (h : anyReq (pset d e)) :
    anyReq d ∨ e.required = true := by
  obtain ⟨p, hp, hr⟩ := h
  rcases mem_pset_C01 hp with hp | rfl
  · exact Or.inl ⟨p, hp, hr⟩
  · exact Or.inr hr

end SV
