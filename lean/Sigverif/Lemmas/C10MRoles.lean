/-
  Lemmas/C10MRoles.lean — C10 on the result of `merge` under role-consistency: EVERY input parameter
  that bears the name of a result parameter is only restricted in kind (any number of inputs).
-/
import Sigverif.Lemmas.C10MKind
import Sigverif.Lemmas.C01RFinal
namespace SV
set_option linter.unusedSimpArgs false
set_option linter.unusedVariables false

theorem merge_kind_restricts_all' (ss : List USig) (R : USig) (hwf : ∀ s ∈ ss, WF s.params)
    (hrc : roleCons (ss.map (·.params))) (hR : merge ss = .ok R) :
    ∀ p ∈ R.params, ∀ s ∈ ss, ∀ q ∈ s.params, q.name = p.name → x10_restricts q.kind p.kind := by
  intro p hp s hs q hq hn
  obtain ⟨s0, hs0, q0, hq0, hn0, hr⟩ := merge_kind_only_restricts' ss R hR p hp
  have n0 := (WF_inv _ (hwf s0 hs0)).2.1
  have n1 := (WF_inv _ (hwf s hs)).2.1
  have hk := (hrc s0.params (List.mem_map.2 ⟨s0, hs0, rfl⟩) s.params (List.mem_map.2 ⟨s, hs, rfl⟩)
    q0.name (mem_names_of_mem_C01 hq0) (by rw [hn0, ← hn]; exact mem_names_of_mem_C01 hq)).1
  rw [kindOf_mem n0 hq0, hn0, ← hn, kindOf_mem n1 hq] at hk
  simp only [Option.some.injEq] at hk
  rw [← hk]
  exact hr

theorem merge_kind_restricts_all_pair' (a b R : USig) (ha : WF a.params) (hb : WF b.params)
    (hrc : roleCons [a.params, b.params]) (hR : merge [a, b] = .ok R) :
    ∀ p ∈ R.params, ∀ s ∈ [a, b], ∀ q ∈ s.params, q.name = p.name → x10_restricts q.kind p.kind :=
  merge_kind_restricts_all' [a, b] R
    (by intro s hs
        simp only [List.mem_cons, List.mem_nil_iff, or_false] at hs
        rcases hs with rfl | rfl <;> assumption)
    hrc hR

end SV
