/-
  Lemmas/C10MPair.lean — the metadata rules of C10 on the result of `merge [a, b]`:
  from `Orig` (Lemmas/C10MMeta.lean) to the parameters of the inputs found BY NAME.
-/
import Sigverif.Lemmas.C10MMeta
import Sigverif.Lemmas.C01RFinal
namespace SV
set_option linter.unusedSimpArgs false
set_option linter.unusedVariables false

/-! ### finding a parameter by name -/

theorem x10_find_of_mem {ps : List Param} (hn : (names ps).Nodup) {p : Param} (hp : p ∈ ps) {x : Nat}
    (hx : x = p.name) : ps.find? (fun q => decide (q.name = x)) = some p := by
  subst hx
  cases hf : ps.find? (fun q => decide (q.name = p.name)) with
  | none =>
    have := List.find?_eq_none.1 hf p hp
    simp at this
  | some q =>
    have hq := List.mem_of_find?_eq_some hf
    have hqn : q.name = p.name := by simpa using List.find?_some hf
    rw [eq_of_nodup_names hn hq hp hqn]

theorem x10_find_none {ps : List Param} {x : Nat} (hx : x ∉ allNames ps) :
    ps.find? (fun q => decide (q.name = x)) = none := by
  rw [List.find?_eq_none]
  intro q hq
  simp only [decide_eq_true_eq]
  intro e
  exact hx (e ▸ mem_names_of_mem_C01 hq)

theorem x10_posIndex_some {ps : List Param} {x i : Nat} (h : posIndex ps x = some i) :
    ∃ q, (positionals ps)[i]? = some q ∧ q.name = x := by
  unfold posIndex at h
  obtain ⟨hi, e, _⟩ := List.idxOf?_eq_some_iff.1 h
  have hi' : i < (positionals ps).length := by simpa [names] using hi
  refine ⟨(positionals ps)[i], by simp [hi'], ?_⟩
  simpa [names] using e

/-! ### the parameters of `merge [a, b]`, classified -/

/-- where a non-star parameter `p` of `merge [a, b]` gets its metadata from -/
inductive Orig2 (a b : List Param) (p : Param) : Prop
  /-- a parameter of `a` and one of `b` with the same name (hence the name of `p`) -/
  | shared (qa qb : Param) (ha : qa ∈ a) (hb : qb ∈ b) (hab : qa.name = qb.name) (hn : p.name = qa.name)
      (hm : sameMeta p (concile qa qb))
  | onlyA (qa : Param) (ha : qa ∈ a) (hn : p.name = qa.name) (hnb : p.name ∉ allNames b) (hm : sameMeta p qa)
  | onlyB (qb : Param) (hb : qb ∈ b) (hn : p.name = qb.name) (hna : p.name ∉ allNames a) (hm : sameMeta p qb)
  /-- two DIFFERENTLY named positional parameters at the same positional index -/
  | mixA (i : Nat) (qa qb : Param) (ha : (positionals a)[i]? = some qa) (hb : (positionals b)[i]? = some qb)
      (hab : qa.name ≠ qb.name) (hn : p.name = qa.name) (hnb : p.name ∉ allNames b)
      (hm : sameMeta p (concile qa qb))
  | mixB (i : Nat) (qa qb : Param) (ha : (positionals a)[i]? = some qa) (hb : (positionals b)[i]? = some qb)
      (hab : qa.name ≠ qb.name) (hn : p.name = qb.name) (hna : p.name ∉ allNames a)
      (hm : sameMeta p (concile qb qa))

theorem x10_mem_positionals {ps : List Param} {q : Param} (h : q ∈ positionals ps) :
    q ∈ ps ∧ (q.kind = .po ∨ q.kind = .pk) := by
  unfold positionals at h
  obtain ⟨h1, h2⟩ := List.mem_filter.1 h
  exact ⟨h1, (isPositional_iff q).1 h2⟩

theorem x10_orig2 (a b : USig) (ha : WF a.params) (hb : WF b.params)
    (hrc : roleCons [a.params, b.params]) (p : Param)
    (h : Orig ((sortParams a).pos ++ (sortParams a).pok) ((sortParams b).pos ++ (sortParams b).pok)
      (sortParams a).kwo (sortParams b).kwo p) : Orig2 a.params b.params p := by
  rw [chain_eq_positionals a ha, chain_eq_positionals b hb] at h
  have na := (WF_inv _ ha).2.1
  have nb := (WF_inv _ hb).2.1
  have ka : (sortParams a).kwo = a.params.filter (·.kind = .ko) := (sortParams_fields a ha).2.2.2.1
  have kb : (sortParams b).kwo = b.params.filter (·.kind = .ko) := (sortParams_fields b hb).2.2.2.1
  have rcab : ∀ x, x ∈ allNames a.params → x ∈ allNames b.params →
      kindOf a.params x = kindOf b.params x ∧ posIndex a.params x = posIndex b.params x :=
    fun x h1 h2 => hrc a.params (by simp) b.params (by simp) x h1 h2
  -- a name at positional index i of a that also occurs in b sits at index i of b
  have idxA : ∀ (i : Nat) (qa : Param), (positionals a.params)[i]? = some qa → qa.name ∈ allNames b.params →
      ∃ qb, (positionals b.params)[i]? = some qb ∧ qb.name = qa.name := by
    intro i qa hqa hin
    have m := (x10_mem_positionals (List.mem_of_getElem? hqa)).1
    have := (rcab qa.name (mem_names_of_mem_C01 m) hin).2
    rw [posIndex_getElem na hqa] at this
    exact x10_posIndex_some this.symm
  have idxB : ∀ (i : Nat) (qb : Param), (positionals b.params)[i]? = some qb → qb.name ∈ allNames a.params →
      ∃ qa, (positionals a.params)[i]? = some qa ∧ qa.name = qb.name := by
    intro i qb hqb hin
    have m := (x10_mem_positionals (List.mem_of_getElem? hqb)).1
    have := (rcab qb.name hin (mem_names_of_mem_C01 m)).2
    rw [posIndex_getElem nb hqb] at this
    exact x10_posIndex_some this
  -- same name, both present: same kind
  have kindEq : ∀ qa qb : Param, qa ∈ a.params → qb ∈ b.params → qa.name = qb.name → qa.kind = qb.kind := by
    intro qa qb h1 h2 e
    have := (rcab qa.name (mem_names_of_mem_C01 h1) (e ▸ mem_names_of_mem_C01 h2)).1
    rw [kindOf_mem na h1, e, kindOf_mem nb h2] at this
    simpa using this
  cases h with
  | pair i lp rp hl hr hn hm =>
    have ml := (x10_mem_positionals (List.mem_of_getElem? hl)).1
    have mr := (x10_mem_positionals (List.mem_of_getElem? hr)).1
    by_cases e : lp.name = rp.name
    · exact .shared lp rp ml mr e hn hm
    · refine .mixA i lp rp hl hr e hn ?_ hm
      rw [hn]
      intro hin
      obtain ⟨qb, h1, h2⟩ := idxA i lp hl hin
      rw [hr] at h1
      simp only [Option.some.injEq] at h1
      subst h1
      exact e h2.symm
  | pairR i lp rp hl hr hk hn hm =>
    have ml := (x10_mem_positionals (List.mem_of_getElem? hl)).1
    have mr := (x10_mem_positionals (List.mem_of_getElem? hr)).1
    have e : lp.name ≠ rp.name := by
      intro e
      have := kindEq lp rp ml mr e
      rw [hk.1, hk.2] at this
      cases this
    refine .mixB i lp rp hl hr e hn ?_ hm
    rw [hn]
    intro hin
    obtain ⟨qa, h1, h2⟩ := idxB i rp hr hin
    rw [hl] at h1
    simp only [Option.some.injEq] at h1
    subst h1
    exact e h2
  | onlyL i lp hl hlen hn hm =>
    have ml := (x10_mem_positionals (List.mem_of_getElem? hl)).1
    refine .onlyA lp ml hn ?_ hm
    rw [hn]
    intro hin
    obtain ⟨qb, h1, _⟩ := idxA i lp hl hin
    have : i < (positionals b.params).length := by
      rcases Nat.lt_or_ge i (positionals b.params).length with h | h
      · exact h
      · rw [List.getElem?_eq_none h] at h1; cases h1
    omega
  | onlyR i rp hr hlen hn hm =>
    have mr := (x10_mem_positionals (List.mem_of_getElem? hr)).1
    refine .onlyB rp mr hn ?_ hm
    rw [hn]
    intro hin
    obtain ⟨qa, h1, _⟩ := idxB i rp hr hin
    have : i < (positionals a.params).length := by
      rcases Nat.lt_or_ge i (positionals a.params).length with h | h
      · exact h
      · rw [List.getElem?_eq_none h] at h1; cases h1
    omega
  | limboL lp q hl hq hqn hn hm =>
    exfalso
    obtain ⟨ml, kl⟩ := x10_mem_positionals hl
    rw [kb] at hq
    obtain ⟨mq, kq⟩ := List.mem_filter.1 hq
    have := kindEq lp q ml mq hqn.symm
    simp only [decide_eq_true_eq] at kq
    rw [kq] at this
    rcases kl with h | h <;> rw [h] at this <;> cases this
  | limboR rp q hr hq hqn hn hm =>
    exfalso
    obtain ⟨mr, kr⟩ := x10_mem_positionals hr
    rw [ka] at hq
    obtain ⟨mq, kq⟩ := List.mem_filter.1 hq
    have := kindEq q rp mq mr hqn
    simp only [decide_eq_true_eq] at kq
    rw [kq] at this
    rcases kr with h | h <;> rw [h] at this <;> cases this
  | kw lp q hl hq hqn hn hm =>
    rw [ka] at hl
    rw [kb] at hq
    exact .shared lp q (List.mem_filter.1 hl).1 (List.mem_filter.1 hq).1 hqn.symm hn hm
  | kwL lp hl hun hn hm =>
    rw [ka] at hl
    obtain ⟨ml, kl⟩ := List.mem_filter.1 hl
    simp only [decide_eq_true_eq] at kl
    refine .onlyA lp ml hn ?_ hm
    rw [hn]
    intro hin
    obtain ⟨q, mq, hqn⟩ := mem_names_C01.1 hin
    have := kindEq lp q ml mq hqn.symm
    refine hun q ?_ hqn
    rw [kb]
    exact List.mem_filter.2 ⟨mq, by simp [← this, kl]⟩
  | kwR rp hr hun hn hm =>
    rw [kb] at hr
    obtain ⟨mr, kr⟩ := List.mem_filter.1 hr
    simp only [decide_eq_true_eq] at kr
    refine .onlyB rp mr hn ?_ hm
    rw [hn]
    intro hin
    obtain ⟨q, mq, hqn⟩ := mem_names_C01.1 hin
    have := kindEq q rp mq mr hqn
    refine hun q ?_ hqn
    rw [ka]
    exact List.mem_filter.2 ⟨mq, by simp [this, kr]⟩

/-- inversion of `merge [a, b]`: every non-star parameter of the result is classified by `Orig2` -/
theorem x10_merge_pair_orig2 (a b R : USig) (ha : WF a.params) (hb : WF b.params)
    (hrc : roleCons [a.params, b.params]) (hR : merge [a, b] = .ok R) :
    ∀ p ∈ R.params, p.kind ≠ .vp → p.kind ≠ .vk → Orig2 a.params b.params p := by
  simp only [merge, mergeFold, bind, Except.bind] at hR
  cases hs : mergeStep (sortParams a) (sortParams b) with
  | error e' => rw [hs] at hR; cases hR
  | ok res =>
    rw [hs] at hR
    simp only at hR
    have hbk := mergeStep_bucketKinds' _ _ _ (sortParams_bucketKinds a) (sortParams_bucketKinds b) hs
    intro p hp k1 k2
    rw [(applyParams_ok_C08 hR).1] at hp
    apply x10_orig2 a b ha hb hrc
    apply x10_mergeStep_orig _ _ _ (sortParams_bucketKinds a) (sortParams_bucketKinds b) hs
    unfold Sorted.all at hp
    simp only [List.mem_append, Option.mem_toList] at hp
    rcases hp with (((hp | hp) | hp) | hp) | hp
    · exact .inl hp
    · exact .inr (.inl hp)
    · exact absurd (hbk.va p hp) k1
    · exact .inr (.inr hp)
    · exact absurd (hbk.vk p hp) k2

/-! ### the rules, by name -/

/-- the metadata rule of C10 for a parameter `p` of the combination of `a` and `b`: conciled from the
    two parameters of that name when both inputs have one, copied from the only one otherwise -/
def x10_metaRule (a b : List Param) (p : Param) : Prop :=
  match a.find? (fun q => q.name = p.name), b.find? (fun q => q.name = p.name) with
  | some qa, some qb =>
      p.dflt = (concile qa qb).dflt ∧ p.ann = (concile qa qb).ann ∧ p.uann = (concile qa qb).uann
  | some qa, none => p.dflt = qa.dflt ∧ p.ann = qa.ann ∧ p.uann = qa.uann
  | none, some qb => p.dflt = qb.dflt ∧ p.ann = qb.ann ∧ p.uann = qb.uann
  | none, none => False

theorem x10_find_name {ps : List Param} {x : Nat} {q : Param}
    (h : ps.find? (fun q => decide (q.name = x)) = some q) : q ∈ ps ∧ q.name = x :=
  ⟨List.mem_of_find?_eq_some h, by simpa using List.find?_some h⟩

/-- role-consistent inputs: a result parameter whose name occurs in BOTH inputs is conciled from
    exactly these two parameters -/
theorem merge_meta_pair_shared' (a b R : USig) (ha : WF a.params) (hb : WF b.params)
    (hrc : roleCons [a.params, b.params]) (hR : merge [a, b] = .ok R) :
    ∀ p ∈ R.params, p.kind ≠ .vp → p.kind ≠ .vk → ∀ qa qb,
      a.params.find? (fun q => q.name = p.name) = some qa →
      b.params.find? (fun q => q.name = p.name) = some qb →
      p.dflt = (concile qa qb).dflt ∧ p.ann = (concile qa qb).ann ∧ p.uann = (concile qa qb).uann := by
  intro p hp k1 k2 qa qb fa fb
  have na := (WF_inv _ ha).2.1
  have nb := (WF_inv _ hb).2.1
  obtain ⟨ma, ea⟩ := x10_find_name fa
  obtain ⟨mb, eb⟩ := x10_find_name fb
  cases x10_merge_pair_orig2 a b R ha hb hrc hR p hp k1 k2 with
  | shared qa' qb' ha' hb' hab hn hm =>
    rw [eq_of_nodup_names na ma ha' (ea.trans hn), eq_of_nodup_names nb mb hb' (eb.trans (hn.trans hab))]
    exact hm
  | onlyA qa' ha' hn hnb hm => exact absurd (eb ▸ mem_names_of_mem_C01 mb) hnb
  | onlyB qb' hb' hn hna hm => exact absurd (ea ▸ mem_names_of_mem_C01 ma) hna
  | mixA i qa' qb' ha' hb' hab hn hnb hm => exact absurd (eb ▸ mem_names_of_mem_C01 mb) hnb
  | mixB i qa' qb' ha' hb' hab hn hna hm => exact absurd (ea ▸ mem_names_of_mem_C01 ma) hna

/-- role-consistent inputs: a result parameter is optional only if every input parameter of that
    name is -/
theorem merge_optional_only_if_pair' (a b R : USig) (ha : WF a.params) (hb : WF b.params)
    (hrc : roleCons [a.params, b.params]) (hR : merge [a, b] = .ok R) :
    ∀ p ∈ R.params, p.kind ≠ .vp → p.kind ≠ .vk → p.dflt.isSome = true →
      ∀ s ∈ [a, b], ∀ q ∈ s.params, q.name = p.name → q.dflt.isSome = true := by
  intro p hp k1 k2 hd s hs q hq hqn
  have na := (WF_inv _ ha).2.1
  have nb := (WF_inv _ hb).2.1
  have key : ∀ x y : Param, sameMeta p (concile x y) → x.dflt.isSome = true ∧ y.dflt.isSome = true := by
    intro x y hm
    have := concile_dflt_isSome x y
    rw [← hm.1, hd] at this
    simpa using this.symm
  simp only [List.mem_cons, List.mem_nil_iff, or_false] at hs
  cases x10_merge_pair_orig2 a b R ha hb hrc hR p hp k1 k2 with
  | shared qa' qb' ha' hb' hab hn hm =>
    rcases hs with rfl | rfl
    · rw [eq_of_nodup_names na hq ha' (hqn.trans hn)]; exact (key _ _ hm).1
    · rw [eq_of_nodup_names nb hq hb' (hqn.trans (hn.trans hab))]; exact (key _ _ hm).2
  | onlyA qa' ha' hn hnb hm =>
    rcases hs with rfl | rfl
    · rw [eq_of_nodup_names na hq ha' (hqn.trans hn), ← hm.1]; exact hd
    · exact absurd (hqn ▸ mem_names_of_mem_C01 hq) hnb
  | onlyB qb' hb' hn hna hm =>
    rcases hs with rfl | rfl
    · exact absurd (hqn ▸ mem_names_of_mem_C01 hq) hna
    · rw [eq_of_nodup_names nb hq hb' (hqn.trans hn), ← hm.1]; exact hd
  | mixA i qa' qb' ha' hb' hab hn hnb hm =>
    rcases hs with rfl | rfl
    · rw [eq_of_nodup_names na hq (x10_mem_positionals (List.mem_of_getElem? ha')).1 (hqn.trans hn)]
      exact (key _ _ hm).1
    · exact absurd (hqn ▸ mem_names_of_mem_C01 hq) hnb
  | mixB i qa' qb' ha' hb' hab hn hna hm =>
    rcases hs with rfl | rfl
    · exact absurd (hqn ▸ mem_names_of_mem_C01 hq) hna
    · rw [eq_of_nodup_names nb hq (x10_mem_positionals (List.mem_of_getElem? hb')).1 (hqn.trans hn)]
      exact (key _ _ hm).1

/-- name-aligned inputs: the full rule -/
theorem merge_meta_pair_aligned' (a b R : USig) (ha : WF a.params) (hb : WF b.params)
    (hal : aligned [a.params, b.params]) (hR : merge [a, b] = .ok R) :
    ∀ p ∈ R.params, p.kind ≠ .vp → p.kind ≠ .vk → x10_metaRule a.params b.params p := by
  intro p hp k1 k2
  have na := (WF_inv _ ha).2.1
  have nb := (WF_inv _ hb).2.1
  have noMix : ∀ (i : Nat) (qa qb : Param), (positionals a.params)[i]? = some qa →
      (positionals b.params)[i]? = some qb → qa.name = qb.name := by
    intro i qa qb h1 h2
    have i1 : i < (positionals a.params).length := by
      rcases Nat.lt_or_ge i (positionals a.params).length with h | h
      · exact h
      · rw [List.getElem?_eq_none h] at h1; cases h1
    have i2 : i < (positionals b.params).length := by
      rcases Nat.lt_or_ge i (positionals b.params).length with h | h
      · exact h
      · rw [List.getElem?_eq_none h] at h2; cases h2
    have := hal.2 a.params (by simp) b.params (by simp) i i1 i2
    rw [List.getElem?_map, List.getElem?_map, h1, h2] at this
    simpa using this
  unfold x10_metaRule
  cases x10_merge_pair_orig2 a b R ha hb hal.1 hR p hp k1 k2 with
  | shared qa qb ha' hb' hab hn hm =>
    rw [x10_find_of_mem na ha' hn, x10_find_of_mem nb hb' (hn.trans hab)]
    exact hm
  | onlyA qa ha' hn hnb hm =>
    rw [x10_find_of_mem na ha' hn, x10_find_none hnb]
    exact hm
  | onlyB qb hb' hn hna hm =>
    rw [x10_find_none hna, x10_find_of_mem nb hb' hn]
    exact hm
  | mixA i qa qb ha' hb' hab hn hnb hm => exact absurd (noMix i qa qb ha' hb') hab
  | mixB i qa qb ha' hb' hab hn hna hm => exact absurd (noMix i qa qb ha' hb') hab

end SV
