/-
  Lemmas/C01Bind.lean — `accepts` on pure call shapes.
-/
import Sigverif.Lemmas.C01Mono
namespace SV

/-! ### all-positional calls -/

theorem accepts_pos_iff (ps : List Param) (n : Nat) :
    accepts ps n [] = true ↔
      (n ≤ (positionals ps).length ∨ hasVa ps = true) ∧
      ∀ p ∈ ps, isNamed p = true → p.required = true →
        p.name ∈ names ((positionals ps).take n) := by
  unfold accepts
  simp only [bindKw]
  by_cases h : (decide (n > (positionals ps).length) && !hasVa ps) = true
  · simp only [h, if_true]
    simp only [Bool.and_eq_true, decide_eq_true_eq, Bool.not_eq_true'] at h
    constructor
    · intro h'; cases h'
    · rintro ⟨h1 | h1, -⟩
      · omega
      · simp [h.2] at h1
  · simp only [h, Bool.false_eq_true, if_false]
    simp only [Bool.and_eq_true, decide_eq_true_eq, Bool.not_eq_true', not_and,
      Bool.not_eq_false] at h
    simp only [List.all_eq_true, List.mem_filter, Bool.or_eq_true, Bool.not_eq_true',
      List.contains_iff_mem, and_imp, names]
    constructor
    · intro h'
      refine ⟨?_, ?_⟩
      · by_cases hn : n ≤ (positionals ps).length
        · exact Or.inl hn
        · exact Or.inr (h (by omega))
      · intro p hp hnm hr
        rcases h' p hp hnm with h'' | h''
        · simp [hr] at h''
        · exact h''
    · rintro ⟨-, h'⟩ p hp hnm
      cases hr : p.required
      · exact Or.inl rfl
      · exact Or.inr (h' p hp hnm hr)

/-! ### keywords -/

theorem bindKw_some {kwp : List Nat} {vk : Bool} {bound K bound' : List Nat}
    (h : bindKw kwp vk bound K = some bound') :
    (∀ k ∈ K, k ∈ kwp ∨ vk = true) ∧ (∀ x ∈ bound', x ∈ bound ∨ (x ∈ K ∧ x ∈ kwp)) := by
  induction K generalizing bound with
  | nil =>
    simp only [bindKw, Option.some.injEq] at h
    subst h
    exact ⟨by simp, fun x hx => Or.inl hx⟩
  | cons k ks ih =>
    simp only [bindKw] at h
    by_cases hk : kwp.contains k = true
    · simp only [hk, if_true] at h
      by_cases hb : bound.contains k = true
      · rw [if_pos hb] at h; cases h
      · rw [if_neg hb] at h
        obtain ⟨i1, i2⟩ := ih h
        have hk' : k ∈ kwp := by simpa using hk
        refine ⟨?_, ?_⟩
        · intro x hx
          rcases List.mem_cons.1 hx with rfl | hx
          · exact Or.inl hk'
          · exact i1 x hx
        · intro x hx
          rcases i2 x hx with h' | ⟨h', h''⟩
          · rcases List.mem_cons.1 h' with rfl | h'
            · exact Or.inr ⟨List.mem_cons_self, hk'⟩
            · exact Or.inl h'
          · exact Or.inr ⟨List.mem_cons_of_mem _ h', h''⟩
    · simp only [hk, Bool.false_eq_true, if_false] at h
      by_cases hv : vk = true
      · subst hv
        simp only [if_true] at h
        obtain ⟨i1, i2⟩ := ih h
        refine ⟨?_, ?_⟩
        · intro x hx
          rcases List.mem_cons.1 hx with rfl | hx
          · exact Or.inr rfl
          · exact i1 x hx
        · intro x hx
          rcases i2 x hx with h' | ⟨h', h''⟩
          · exact Or.inl h'
          · exact Or.inr ⟨List.mem_cons_of_mem _ h', h''⟩
      · simp [hv] at h

theorem bindKw_ok {kwp : List Nat} {vk : Bool} {bound K : List Nat} (hK : K.Nodup)
    (hd : ∀ k ∈ K, k ∉ bound) (hk : ∀ k ∈ K, k ∈ kwp ∨ vk = true) :
    ∃ bound', bindKw kwp vk bound K = some bound' ∧
      ∀ x, (x ∈ bound ∨ (x ∈ K ∧ x ∈ kwp)) → x ∈ bound' := by
  induction K generalizing bound with
  | nil => exact ⟨bound, rfl, by simp⟩
  | cons k ks ih =>
    simp only [List.nodup_cons] at hK
    simp only [bindKw]
    by_cases hkk : kwp.contains k = true
    · have hb : bound.contains k = false := by
        simpa using hd k List.mem_cons_self
      simp only [hkk, if_true, hb, Bool.false_eq_true, if_false]
      obtain ⟨b', e, hb'⟩ := ih (bound := k :: bound) hK.2
        (by
          intro x hx
          simp only [List.mem_cons, not_or]
          exact ⟨fun e => hK.1 (e ▸ hx), hd x (List.mem_cons_of_mem _ hx)⟩)
        (fun x hx => hk x (List.mem_cons_of_mem _ hx))
      refine ⟨b', e, ?_⟩
      intro x hx
      apply hb'
      rcases hx with hx | ⟨hx, hx'⟩
      · exact Or.inl (List.mem_cons_of_mem _ hx)
      · rcases List.mem_cons.1 hx with rfl | hx
        · exact Or.inl List.mem_cons_self
        · exact Or.inr ⟨hx, hx'⟩
    · have hv : vk = true := by
        rcases hk k List.mem_cons_self with h | h
        · simp at hkk; exact absurd h hkk
        · exact h
      subst hv
      simp only [hkk, Bool.false_eq_true, if_false, if_true]
      obtain ⟨b', e, hb'⟩ := ih (bound := bound) hK.2
        (fun x hx => hd x (List.mem_cons_of_mem _ hx))
        (fun x hx => hk x (List.mem_cons_of_mem _ hx))
      refine ⟨b', e, ?_⟩
      intro x hx
      apply hb'
      rcases hx with hx | ⟨hx, hx'⟩
      · exact Or.inl hx
      · rcases List.mem_cons.1 hx with rfl | hx
        · simp at hkk; exact absurd hx' hkk
        · exact Or.inr ⟨hx, hx'⟩

theorem accepts_kw_iff (ps : List Param) (K : List Nat) :
    accepts ps 0 K = true ↔
      ∃ bound, bindKw (kwNames ps) (hasVk ps) [] K = some bound ∧
        ∀ p ∈ ps, isNamed p = true → p.required = true → p.name ∈ bound := by
  unfold accepts
  simp only [List.take_zero, List.map_nil, gt_iff_lt, Nat.not_lt_zero, decide_false,
    Bool.false_and, Bool.false_eq_true, if_false]
  cases hb : bindKw (kwNames ps) (hasVk ps) [] K with
  | none => simp
  | some bound =>
    simp only [List.all_eq_true, List.mem_filter, Bool.or_eq_true, Bool.not_eq_true',
      List.contains_iff_mem, and_imp, Option.some.injEq, exists_eq_left']
    constructor
    · intro h' p hp hnm hr
      rcases h' p hp hnm with h'' | h''
      · simp [hr] at h''
      · exact h''
    · intro h' p hp hnm
      cases hr : p.required
      · exact Or.inl rfl
      · exact Or.inr (h' p hp hnm hr)

end SV
