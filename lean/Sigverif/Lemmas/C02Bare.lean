import Sigverif.Lemmas.C02Inv
namespace SV

theorem concile_eq_left (v a : Param) (hd : v.dflt = none) (ha : a.ann = none)
    (hu : v.ann = none → v.uann = .empty) : concile v a = v := by
  obtain ⟨n, k, d, an, ua⟩ := v
  simp only at hd hu
  subst hd
  unfold concile
  simp only [ha]
  cases an with
  | none => simp [hu rfl]
  | some x => rfl

theorem starOf_eq_left (l : Option Param) (a : Param) (w : Bool) (ha : a.ann = none)
    (h : ∀ v, l = some v → v.dflt = none ∧ (v.ann = none → v.uann = .empty)) :
    starOf l (some a) w = l := by
  cases l with
  | none => rfl
  | some v =>
    obtain ⟨h1, h2⟩ := h v rfl
    simp only [starOf, concile_eq_left v a h1 ha h2, ite_self]

theorem cdIf_nil (c : Bool) : cdIf c [] = [] := by cases c <;> rfl

theorem names_sublist_all_kwo (s : Sorted) : (names s.kwo).Sublist (names s.all) := by
  unfold Sorted.all names
  apply List.Sublist.map
  refine List.Sublist.trans ?_ (List.sublist_append_left _ _)
  exact List.sublist_append_right _ _

theorem embed_bare_aux (o i R : USig) (a k : Param) (hi : WF i.params)
    (ha : a.kind = .vp) (hk : k.kind = .vk) (hb : o.params = [a, k])
    (hann : a.ann = none ∧ k.ann = none)
    (hstar : ∀ p ∈ i.params, (p.kind = .vp ∨ p.kind = .vk) →
               p.dflt = none ∧ (p.ann = none → p.uann = .empty))
    (hR : embed true true [o, i] = .ok R) : R.params = i.params := by
  obtain ⟨i', r, h1, h2, h3, _⟩ := embed_two_ok hR
  obtain ⟨hall, hkinds, _, _⟩ := sortParams_WF i hi
  have hnd : (names (sortParams i).kwo).Nodup := by
    have := validate_nodup hi.validate
    rw [← hall] at this
    exact (names_sublist_all_kwo _).nodup this
  have hO : sortParams o = { va := some a, vk := some k, src := o.src,
                             depths := copyDepths o.depths 0 } := by
    simp [sortParams, sortGo, hb, ha, hk]
  rw [hO] at h1 h2
  simp only [if_true] at h1
  have hva : ∀ v, (sortParams i).va = some v → v.dflt = none ∧ (v.ann = none → v.uann = .empty) := by
    intro v hv
    have hm : v ∈ i.params := by
      rw [← hall]; simp [Sorted.all, hv]
    exact hstar v hm (.inl (hkinds.va v hv))
  have hvk : ∀ v, (sortParams i).vk = some v → v.dflt = none ∧ (v.ann = none → v.uann = .empty) := by
    intro v hv
    have hm : v ∈ i.params := by
      rw [← hall]; simp [Sorted.all, hv]
    exact hstar v hm (.inr (hkinds.vk v hv))
  have hpu : pupdate [] (sortParams i).kwo = (sortParams i).kwo :=
    by simpa using pupdate_of_nodup [] (sortParams i).kwo (by simpa using hnd)
  simp only [mergeStars, Option.isSome_some, if_true, Except.ok.injEq, hpu,
    starOf_eq_left _ a _ hann.1 hva, starOf_eq_left _ k _ hann.2 hvk] at h1
  have h2' := embedTailC_ok h2
  rw [h3, h2', ← hall, ← h1]
  simp only [Sorted.all, ePosC, ePokC, cdIf_nil, List.map_nil, List.append_nil, List.nil_append,
    if_true, pupdate_nil, hpu]
  cases hp : (sortParams i).pos <;> simp

end SV
