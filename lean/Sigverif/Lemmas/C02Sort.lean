/-
  Lemmas/C02Sort.lean — closed form of sortGo; sortParams of a valid signature;
  sortParams of `s.all` for a well-kinded `s`.
-/
import Sigverif.Lemmas.C02Basic
namespace SV

def lastOr (l : List Param) (d : Option Param) : Option Param := l.foldl (fun _ p => some p) d

@[simp] theorem lastOr_nil (d : Option Param) : lastOr [] d = d := rfl
@[simp] theorem lastOr_cons (p : Param) (l : List Param) (d : Option Param) :
    lastOr (p :: l) d = lastOr l (some p) := rfl

theorem sortGo_eq (ps : List Param) (s : Sorted) :
    sortGo ps s =
      { s with pos := s.pos ++ ps.filter (kindIs .po), pok := s.pok ++ ps.filter (kindIs .pk),
               va := lastOr (ps.filter (kindIs .vp)) s.va,
               kwo := pupdate s.kwo (ps.filter (kindIs .ko)),
               vk := lastOr (ps.filter (kindIs .vk)) s.vk } := by
  induction ps generalizing s with
  | nil => simp [sortGo, pupdate_nil]
  | cons p ps ih =>
    unfold sortGo
    rw [ih]
    cases hk : p.kind <;> simp [kindIs, hk, pupdate_cons]

theorem filter_kind_of_all {l : List Param} {k : Kind} (h : ∀ p ∈ l, p.kind = k) (k' : Kind) :
    l.filter (kindIs k') = if k = k' then l else [] := by
  split
  · rename_i e; subst e
    rw [List.filter_eq_self]
    intro p hp; simp [kindIs, h p hp]
  · rename_i e
    rw [List.filter_eq_nil_iff]
    intro p hp; simp [kindIs, h p hp, e]

theorem optToList_kind {o : Option Param} {k : Kind} (h : ∀ p, o = some p → p.kind = k) :
    ∀ p ∈ o.toList, p.kind = k := by
  intro p hp; cases o with
  | none => simp at hp
  | some q => simp at hp; subst hp; exact h _ rfl

theorem lastOr_toList (o : Option Param) : lastOr o.toList none = o := by
  cases o <;> rfl

/-- re-sorting the flattened form of a well-kinded `Sorted` gives it back -/
theorem sortGo_all_C02 (t : Sorted) (hb : BucketKinds t) (hn : (names t.kwo).Nodup) (src : Srcs) (d : Depths) :
    sortGo t.all { src := src, depths := d } = { t with src := src, depths := d } := by
  rw [sortGo_eq]
  have hva := optToList_kind hb.va
  have hvk := optToList_kind hb.vk
  simp only [Sorted.all, List.filter_append,
    filter_kind_of_all hb.pos, filter_kind_of_all hb.pok, filter_kind_of_all hva,
    filter_kind_of_all hb.kwo, filter_kind_of_all hvk]
  simp [lastOr_toList, pupdate_of_nodup [] t.kwo (by simpa using hn)]

theorem length_le_one_cases {α} (l : List α) (h : l.length ≤ 1) : l = [] ∨ ∃ a, l = [a] := by
  match l, h with
  | [], _ => exact .inl rfl
  | [a], _ => exact .inr ⟨a, rfl⟩
  | _ :: _ :: _, h => simp at h

theorem lastOr_toList' (l : List Param) (h : l.length ≤ 1) : (lastOr l none).toList = l := by
  rcases length_le_one_cases l h with rfl | ⟨a, rfl⟩ <;> rfl

theorem lastOr_mem {l : List Param} {p : Param} (h : lastOr l none = some p) : p ∈ l := by
  suffices ∀ d, lastOr l d = some p → p ∈ l ∨ d = some p by
    rcases this none h with h | h
    · exact h
    · cases h
  clear h
  intro d
  induction l generalizing d with
  | nil => intro h; exact .inr h
  | cons q l ih =>
    intro h
    rcases ih (some q) h with h | h
    · exact .inl (List.mem_cons_of_mem _ h)
    · cases h; exact .inl (by simp)

theorem mem_filter_kindIs {l : List Param} {k : Kind} {p : Param} (h : p ∈ l.filter (kindIs k)) :
    p.kind = k := by
  have := (List.mem_filter.1 h).2
  simpa [kindIs] using this

/-- sortParams of a valid signature: flattening gives the parameters back and every bucket is
    well-kinded -/
theorem sortParams_WF (sig : USig) (h : WF sig.params) :
    (sortParams sig).all = sig.params ∧ BucketKinds (sortParams sig) ∧
    (sortParams sig).src = sig.src ∧ (sortParams sig).depths = copyDepths sig.depths 0 := by
  have hv := h.validate
  have hs := sorted_decomp (validate_sorted hv)
  have hn := validate_nodup hv
  have hko : (names (sig.params.filter (kindIs .ko))).Nodup := by
    have : (names (sig.params.filter (kindIs .ko))).Sublist (names sig.params) := by
      unfold names
      exact List.Sublist.map _ List.filter_sublist
    exact this.nodup hn
  have hvp : (sig.params.filter (kindIs .vp)).length ≤ 1 := h.2.1
  have hvk : (sig.params.filter (kindIs .vk)).length ≤ 1 := h.2.2
  unfold sortParams
  rw [sortGo_eq]
  refine ⟨?_, ?_, rfl, rfl⟩
  · simp only [Sorted.all, List.nil_append, lastOr_toList' _ hvp, lastOr_toList' _ hvk,
      pupdate_of_nodup [] _ (by simpa using hko)]
    exact hs.symm
  · constructor
    · intro p hp; simp only [List.nil_append] at hp; exact mem_filter_kindIs hp
    · intro p hp; simp only [List.nil_append] at hp; exact mem_filter_kindIs hp
    · intro p hp; simp only at hp; exact mem_filter_kindIs (lastOr_mem hp)
    · intro p hp
      simp only [pupdate_of_nodup [] _ (by simpa using hko), List.nil_append] at hp
      exact mem_filter_kindIs hp
    · intro p hp; simp only at hp; exact mem_filter_kindIs (lastOr_mem hp)

end SV
