/-
  Lemmas/C02Raise.lean — when does `embed uva uvk [o, i]` raise IncompatibleSignatures.
-/
import Sigverif.Lemmas.C02Main
namespace SV

theorem nodup3_disj {a b c : List Nat} (h : (a ++ b ++ c).Nodup) :
    (∀ x ∈ a, x ∉ b) ∧ (∀ x ∈ a, x ∉ c) ∧ (∀ x ∈ b, x ∉ c) := by
  rw [List.nodup_append] at h
  obtain ⟨hab, _, habc⟩ := h
  rw [List.nodup_append] at hab
  refine ⟨?_, ?_, ?_⟩
  · intro x hx hb; exact hab.2.2 x hx x hb rfl
  · intro x hx hc; exact habc x (List.mem_append_left _ hx) x hc rfl
  · intro x hx hc; exact habc x (List.mem_append_right _ hx) x hc rfl

theorem any_required {l : List Param} (h : (l.any (·.dflt.isNone)) = true) : ∃ x, x ∈ rq l := by
  rw [List.any_eq_true] at h
  obtain ⟨p, hp, hr⟩ := h
  exact ⟨p.name, mem_rq.2 ⟨p, hp, hr, rfl⟩⟩

theorem mergeStars_error {I : Sorted} {a k : Option Param} {e : Err}
    (hn : (names (I.pos ++ I.pok ++ I.kwo)).Nodup)
    (h : mergeStars I a k = .error e) :
    ∃ x, x ∈ rq (I.pos ++ I.pok ++ I.kwo) ∧
      (x ∈ names (I.pos ++ I.pok) → a.isSome = true → False) ∧
      (x ∈ names (I.pok ++ I.kwo) → k.isSome = true → False) := by
  simp only [names_append_C02] at hn
  obtain ⟨d1, d2, d3⟩ := nodup3_disj hn
  have hnk : (names I.kwo).Nodup := (List.nodup_append.1 hn).2.1
  have hpu : pupdate [] I.kwo = I.kwo := by
    simpa using pupdate_of_nodup [] I.kwo (by simpa using hnk)
  unfold mergeStars at h
  simp only [hpu] at h
  simp only [rq_append, names_append_C02, List.mem_append]
  split at h
  · rename_i ha
    split at h
    · cases h
    · rename_i hk
      split at h
      · rename_i hun
        obtain ⟨x, hx⟩ := any_required hun
        have hxn := rq_subset_names hx
        refine ⟨x, .inr hx, ?_, ?_⟩
        · rintro (h1 | h1) _
          · exact d2 x h1 hxn
          · exact d3 x h1 hxn
        · intro _ hk'; exact hk hk'
      · cases h
  · rename_i ha
    split at h
    · rename_i hpos
      obtain ⟨x, hx⟩ := any_required hpos
      have hxn := rq_subset_names hx
      refine ⟨x, .inl (.inl hx), ?_, ?_⟩
      · intro _ ha'; exact ha ha'
      · rintro (h1 | h1) _
        · exact d1 x hxn h1
        · exact d2 x hxn h1
    · split at h
      · cases h
      · rename_i hk
        split at h
        · rename_i hpok
          obtain ⟨x, hx⟩ := any_required hpok
          exact ⟨x, .inl (.inr hx), fun _ ha' => ha ha', fun _ hk' => hk hk'⟩
        · split at h
          · rename_i hun
            obtain ⟨x, hx⟩ := any_required hun
            exact ⟨x, .inr hx, fun _ ha' => ha ha', fun _ hk' => hk hk'⟩
          · cases h

theorem compositeV_false_of {Vo Vi : View} {uva uvk : Bool} {x : Nat} (hx : x ∈ Vi.req)
    (h1 : x ∈ Vi.P → (uva && Vo.va) = true → False)
    (h2 : x ∈ Vi.kw → (uvk && Vo.vk) = true → False) (n : Nat) (K : List Nat) :
    ¬ compositeV Vo Vi uva uvk n K := by
  rintro ⟨⟨oa, _, oc, _⟩, _, _, _, id⟩
  rcases id x hx with h | h
  · apply h1 (List.mem_of_mem_take h)
    cases uva with
    | false => simp at h
    | true =>
      simp only [if_true] at h
      have hpos : n - Vo.P.length ≠ 0 := by
        intro e; rw [e] at h; simp at h
      rcases oa with h' | h'
      · omega
      · simp [h']
  · apply h2 h.2
    cases uvk with
    | false => simp at h
    | true =>
      simp only [if_true, mem_filter_notkw] at h
      simp [oc x h.1.1 h.1.2]

theorem embedTailC_error {O i : Sorted} {uva uvk : Bool} {e : Err}
    (hnO : (names (O.pos ++ O.pok ++ O.kwo)).Nodup)
    (hni : (names (i.pos ++ i.pok ++ i.kwo)).Nodup)
    (h : embedTailC O i uva uvk = .error e) :
    ∃ x, x ∈ names (O.pos ++ O.pok ++ O.kwo) ∧ x ∈ names (i.pos ++ i.pok ++ i.kwo) := by
  simp only [names_append_C02] at hnO hni
  obtain ⟨o1, o2, o3⟩ := nodup3_disj hnO
  obtain ⟨i1, i2, i3⟩ := nodup3_disj hni
  simp only [names_append_C02, List.mem_append]
  unfold embedTailC at h
  simp only [bind, Except.bind, pure, Except.pure] at h
  split at h
  · rename_i e1 h1
    obtain ⟨x, _, hc⟩ := checkNoDupes_error h1
    cases hc
  rename_i c1 h1
  obtain ⟨_, rfl⟩ := checkNoDupes_ok h1
  split at h
  · rename_i e2 h2
    obtain ⟨x, hx, hc⟩ := checkNoDupes_error h2
    simp only [List.nil_append] at hc
    exact absurd hx (o1 x hc)
  rename_i c2 h2
  obtain ⟨_, rfl⟩ := checkNoDupes_ok h2
  split at h
  · rename_i e3 h3
    obtain ⟨x, hx, hc⟩ := checkNoDupes_error h3
    simp only [List.nil_append, List.mem_append] at hc
    exact ⟨x, .inl hc, .inl (.inl hx)⟩
  rename_i c3 h3
  obtain ⟨_, rfl⟩ := checkNoDupes_ok h3
  split at h
  · rename_i e4 h4
    obtain ⟨x, hx, hc⟩ := checkNoDupes_error h4
    simp only [List.nil_append, List.mem_append] at hc
    rcases hc with hc | hc
    · exact ⟨x, .inl hc, .inl (.inr hx)⟩
    · exact absurd hx (i1 x hc)
  rename_i c4 h4
  obtain ⟨_, rfl⟩ := checkNoDupes_ok h4
  split at h
  · rename_i e5 h5
    obtain ⟨x, hx, hc⟩ := checkNoDupes_error h5
    simp only [List.nil_append, List.mem_append] at hc
    rcases hc with ((hc | hc) | hc) | hc
    · exact absurd hx (o2 x hc)
    · exact absurd hx (o3 x hc)
    · exact ⟨x, .inr hx, .inl (.inl hc)⟩
    · exact ⟨x, .inr hx, .inl (.inr hc)⟩
  rename_i c5 h5
  obtain ⟨_, rfl⟩ := checkNoDupes_ok h5
  split at h
  · rename_i e6 h6
    obtain ⟨x, hx, hc⟩ := checkNoDupes_error h6
    simp only [List.nil_append, List.mem_append] at hc
    rcases hc with (((hc | hc) | hc) | hc) | hc
    · exact ⟨x, .inl (.inl hc), .inr hx⟩
    · exact ⟨x, .inl (.inr hc), .inr hx⟩
    · exact absurd hx (i2 x hc)
    · exact absurd hx (i3 x hc)
    · exact ⟨x, .inr hc, .inr hx⟩
  · cases h

theorem embed_raises_only_if_aux (o i : USig) (uva uvk : Bool)
    (ho : WF o.params) (hi : WF i.params)
    (hR : embed uva uvk [o, i] = .error .incompatible) :
    sharedNamedD o.params i.params ∨
      ∀ n K, K.Nodup → compositeD o.params i.params uva uvk n K = false := by
  obtain ⟨hallO, hkO, _, _⟩ := sortParams_WF o ho
  obtain ⟨hallI, hkI, _, _⟩ := sortParams_WF i hi
  have hnO : (names (sortParams o).all).Nodup := by rw [hallO]; exact validate_nodup ho.validate
  have hnI : (names (sortParams i).all).Nodup := by rw [hallI]; exact validate_nodup hi.validate
  have e1 : (if uva = true then (sortParams o).va else none).isSome = (uva && (sortParams o).va.isSome) := by
    cases uva <;> simp
  have e2 : (if uvk = true then (sortParams o).vk else none).isSome = (uvk && (sortParams o).vk.isSome) := by
    cases uvk <;> simp
  rcases embed_two_incompatible hR with ⟨e, hm⟩ | ⟨i', e, hm, ht⟩
  · right
    obtain ⟨x, hx, h1, h2⟩ := mergeStars_error (named_nodup hnI) hm
    rw [e1] at h1
    rw [e2] at h2
    intro n K hK
    have hnot := compositeV_false_of (Vo := sview (sortParams o)) (Vi := sview (sortParams i))
      (uva := uva) (uvk := uvk) (x := x) hx h1 h2 n K
    rw [← composite_iff ho hi n K hK] at hnot
    cases hc : compositeD o.params i.params uva uvk n K
    · rfl
    · exact absurd hc hnot
  · left
    have M := mergeStars_facts (named_nodup hnI) hm
    obtain ⟨x, hxo, hxi⟩ := embedTailC_error (named_nodup hnO) M.m7 ht
    refine ⟨x, ?_, ?_⟩
    · rw [← hallO, named_all _ hkO]; exact hxo
    · rw [← hallI, named_all _ hkI]; exact M.m3 x hxi

end SV
