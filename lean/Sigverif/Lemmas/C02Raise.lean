/-
  Lemmas/C02Raise.lean — when does `embed uva uvk [o, i]` raise IncompatibleSignatures.
-/
import Sigverif.Lemmas.C02Main
namespace SV

theorem nodup3_disj {a b c : List Nat} (h : (a ++ b ++ c).Nodup) :
    (∀ x ∈ a, x ∉ b) ∧ (∀ x ∈ a, x ∉ c) ∧ (∀ x ∈ b, x ∉ c) := by
  rw [List.nodup_append] at h
  obtain ⟨hab, _, habc⟩ := h
  rw [List.nodup_append] at hab
  refine ⟨?_, ?_, ?_⟩
  · intro x hx hb; exact hab.2.2 x hx x hb rfl
  · intro x hx hc; exact habc x (List.mem_append_left _ hx) x hc rfl
  · intro x hx hc; exact habc x (List.mem_append_right _ hx) x hc rfl

theorem any_required {l : List Param} (h : (l.any (·.dflt.isNone)) = true) : ∃ x, x ∈ rq l := by
  rw [List.any_eq_true] at h
  obtain ⟨p, hp, hr⟩ := h
  exact ⟨p.name, mem_rq.2 ⟨p, hp, hr, rfl⟩⟩

theorem mergeStars_error {I : Sorted} {a k : Option Param} {e : Err}
    (hn : (names (I.pos ++ I.pok ++ I.kwo)).Nodup)
    (h : mergeStars I a k = .error e) :
    ∃ x, x ∈ rq (I.pos ++ I.pok ++ I.kwo) ∧
      (x ∈ names (I.pos ++ I.pok) → a.isSome = true → False) ∧
      (x ∈ names (I.pok ++ I.kwo) → k.isSome = true → False) := by
  simp only [names_append_C02] at hn
  obtain ⟨d1, d2, d3⟩ := nodup3_disj hn
  have hnk : (names I.kwo).Nodup := (List.nodup_append.1 hn).2.1
  have hpu : pupdate [] I.kwo = I.kwo := by
    simpa using pupdate_of_nodup [] I.kwo (by simpa using hnk)
  unfold mergeStars at h
  simp only [hpu] at h
  simp only [rq_append, names_append_C02, List.mem_append]
  split at h
  · rename_i ha
    split at h
    · cases h
    · rename_i hk
      split at h
      · rename_i hun
        obtain ⟨x, hx⟩ := any_required hun
        have hxn := rq_subset_names hx
        refine ⟨x, .inr hx, ?_, ?_⟩
        · rintro (h1 | h1) _
          · exact d2 x h1 hxn
          · exact d3 x h1 hxn
        · intro _ hk'; exact hk hk'
      · cases h
  · rename_i ha
    split at h
    · rename_i hpos
      obtain ⟨x, hx⟩ := any_required hpos
      have hxn := rq_subset_names hx
      refine ⟨x, .inl (.inl hx), ?_, ?_⟩
      · intro _ ha'; exact ha ha'
      · rintro (h1 | h1) _
        · exact d1 x hxn h1
        · exact d2 x hxn h1
    · split at h
      · cases h
      · rename_i hk
        split at h
        · rename_i hpok
          obtain ⟨x, hx⟩ := any_required hpok
          exact ⟨x, .inl (.inr hx), fun _ ha' => ha ha', fun _ hk' => hk hk'⟩
        · split at h
          · rename_i hun
            obtain ⟨x, hx⟩ := any_required hun
            exact ⟨x, .inr hx, fun _ ha' => ha ha', fun _ hk' => hk hk'⟩
          · cases h

theorem compositeV_false_of {Vo Vi : View} {uva uvk : Bool} {x : Nat} (hx : x ∈ Vi.req)
    (h1 : x ∈ Vi.P → (uva && Vo.va) = true → False)
    (h2 : x ∈ Vi.kw → (uvk && Vo.vk) = true → False) (n : Nat) (K : List Nat) :
    ¬ compositeV Vo Vi uva uvk n K := by
  rintro ⟨⟨oa, _, oc, _⟩, _, _, _, id⟩
  rcases id x hx with h | h
  · apply h1 (List.mem_of_mem_take h)
    cases uva with
    | false => simp at h
    | true =>
      simp only [if_true] at h
      have hpos : n - Vo.P.length ≠ 0 := by
        intro e; rw [e] at h; simp at h
      rcases oa with h' | h'
      · omega
      · simp [h']
  · apply h2 h.2
    cases uvk with
    | false => simp at h
    | true =>
      simp only [if_true, mem_filter_notkw] at h
      simp [oc x h.1.1 h.1.2]

/-- why the concatenation step of `_embed` can fail: two parameters of the result-to-be carry the
    same name.  `N–N`: a named parameter of the outer and one of the (fitted) inner signature;
    the others: a star parameter of the result against a named parameter or the other star. -/
inductive TailClash (O i : Sorted) (uva uvk : Bool) : Prop where
  | named (x : Nat) (ho : x ∈ names (O.pos ++ O.pok ++ O.kwo)) (hi : x ∈ names (i.pos ++ i.pok ++ i.kwo))
  | ivaOuter (p : Param) (hu : uva = true) (hp : i.va = some p) (hx : p.name ∈ names (O.pos ++ O.pok ++ O.kwo))
  | ivaInner (p : Param) (hu : uva = true) (hp : i.va = some p) (hx : p.name ∈ names (i.pos ++ i.pok ++ i.kwo))
  | ovaOuter (p : Param) (hu : uva = false) (hp : O.va = some p) (hx : p.name ∈ names (O.pos ++ O.pok ++ O.kwo))
  | ovaInner (p : Param) (hu : uva = false) (hp : O.va = some p) (hx : p.name ∈ names (i.pos ++ i.pok ++ i.kwo))
  | ivkOuter (p : Param) (hu : uvk = true) (hp : i.vk = some p) (hx : p.name ∈ names (O.pos ++ O.pok ++ O.kwo))
  | ivkInner (p : Param) (hu : uvk = true) (hp : i.vk = some p) (hx : p.name ∈ names (i.pos ++ i.pok ++ i.kwo))
  | ovkOuter (p : Param) (hu : uvk = false) (hp : O.vk = some p) (hx : p.name ∈ names (O.pos ++ O.pok ++ O.kwo))
  | ovkInner (p : Param) (hu : uvk = false) (hp : O.vk = some p) (hx : p.name ∈ names (i.pos ++ i.pok ++ i.kwo))
  | stars (a b : Param) (ha : (if uva then i.va else O.va) = some a) (hb : (if uvk then i.vk else O.vk) = some b)
      (hab : b.name = a.name)

theorem names_toList_C02 (o : Option Param) (x : Nat) : x ∈ names o.toList ↔ ∃ p, o = some p ∧ p.name = x := by
  cases o with
  | none => simp [names]
  | some p => simp [names, eq_comm]

theorem embedTailC_error {O i : Sorted} {uva uvk : Bool} {e : Err}
    (hnO : (names (O.pos ++ O.pok ++ O.kwo)).Nodup)
    (hni : (names (i.pos ++ i.pok ++ i.kwo)).Nodup)
    (h : embedTailC O i uva uvk = .error e) : TailClash O i uva uvk := by
  simp only [names_append_C02] at hnO hni
  obtain ⟨o1, o2, o3⟩ := nodup3_disj hnO
  obtain ⟨i1, i2, i3⟩ := nodup3_disj hni
  have nm : ∀ x, (x ∈ names O.pos ∨ x ∈ names O.pok ∨ x ∈ names O.kwo) →
      (x ∈ names i.pos ∨ x ∈ names i.pok ∨ x ∈ names i.kwo) → TailClash O i uva uvk := by
    intro x hO hI
    refine .named x ?_ ?_
    · simp only [names_append_C02, List.mem_append]
      rcases hO with h | h | h
      · exact .inl (.inl h)
      · exact .inl (.inr h)
      · exact .inr h
    · simp only [names_append_C02, List.mem_append]
      rcases hI with h | h | h
      · exact .inl (.inl h)
      · exact .inl (.inr h)
      · exact .inr h
  unfold embedTailC at h
  simp only [bind, Except.bind, pure, Except.pure] at h
  split at h
  · rename_i e1 h1
    obtain ⟨x, _, hc⟩ := checkNoDupes_error h1
    cases hc
  rename_i c1 h1
  obtain ⟨_, rfl⟩ := checkNoDupes_ok h1
  split at h
  · rename_i e2 h2
    obtain ⟨x, hx, hc⟩ := checkNoDupes_error h2
    simp only [List.nil_append] at hc
    exact absurd hx (o1 x hc)
  rename_i c2 h2
  obtain ⟨_, rfl⟩ := checkNoDupes_ok h2
  split at h
  · rename_i e3 h3
    obtain ⟨x, hx, hc⟩ := checkNoDupes_error h3
    simp only [List.nil_append, List.mem_append] at hc
    rcases hc with hc | hc
    · exact nm x (.inl hc) (.inl hx)
    · exact nm x (.inr (.inl hc)) (.inl hx)
  rename_i c3 h3
  obtain ⟨_, rfl⟩ := checkNoDupes_ok h3
  split at h
  · rename_i e4 h4
    obtain ⟨x, hx, hc⟩ := checkNoDupes_error h4
    simp only [List.nil_append, List.mem_append] at hc
    rcases hc with (hc | hc) | hc
    · exact nm x (.inl hc) (.inr (.inl hx))
    · exact nm x (.inr (.inl hc)) (.inr (.inl hx))
    · exact absurd hx (i1 x hc)
  rename_i c4 h4
  obtain ⟨_, rfl⟩ := checkNoDupes_ok h4
  split at h
  · rename_i e5 h5
    obtain ⟨x, hx, hc⟩ := checkNoDupes_error h5
    simp only [List.nil_append, List.mem_append] at hc
    rcases hc with ((hc | hc) | hc) | hc
    · exact absurd hx (o2 x hc)
    · exact absurd hx (o3 x hc)
    · exact nm x (.inr (.inr hx)) (.inl hc)
    · exact nm x (.inr (.inr hx)) (.inr (.inl hc))
  rename_i c5 h5
  obtain ⟨_, rfl⟩ := checkNoDupes_ok h5
  split at h
  · rename_i e6 h6
    obtain ⟨x, hx, hc⟩ := checkNoDupes_error h6
    simp only [List.nil_append, List.mem_append] at hc
    rcases hc with (((hc | hc) | hc) | hc) | hc
    · exact nm x (.inl hc) (.inr (.inr hx))
    · exact nm x (.inr (.inl hc)) (.inr (.inr hx))
    · exact absurd hx (i2 x hc)
    · exact absurd hx (i3 x hc)
    · exact nm x (.inr (.inr hc)) (.inr (.inr hx))
  rename_i c6 h6
  obtain ⟨_, rfl⟩ := checkNoDupes_ok h6
  -- the collected names are now exactly the named parameters of both sides
  have coll : ∀ x, x ∈ ([] ++ names O.pos ++ names O.pok ++ names i.pos ++ names i.pok ++ names O.kwo ++ names i.kwo) →
      (x ∈ names (O.pos ++ O.pok ++ O.kwo)) ∨ (x ∈ names (i.pos ++ i.pok ++ i.kwo)) := by
    intro x hc
    simp only [List.nil_append, List.mem_append, names_append_C02] at hc ⊢
    rcases hc with ((((hc | hc) | hc) | hc) | hc) | hc
    · exact .inl (.inl (.inl hc))
    · exact .inl (.inl (.inr hc))
    · exact .inr (.inl (.inl hc))
    · exact .inr (.inl (.inr hc))
    · exact .inl (.inr hc)
    · exact .inr (.inr hc)
  split at h
  · rename_i e7 h7
    obtain ⟨x, hx, hc⟩ := checkNoDupes_error h7
    obtain ⟨p, hp, rfl⟩ := (names_toList_C02 _ _).1 hx
    rcases Bool.eq_false_or_eq_true uva with hu | hu
    · simp only [hu, if_true] at hp
      rcases coll _ hc with hc | hc
      · exact .ivaOuter p hu hp hc
      · exact .ivaInner p hu hp hc
    · simp only [hu, Bool.false_eq_true, if_false] at hp
      rcases coll _ hc with hc | hc
      · exact .ovaOuter p hu hp hc
      · exact .ovaInner p hu hp hc
  rename_i c7 h7
  obtain ⟨_, rfl⟩ := checkNoDupes_ok h7
  split at h
  · rename_i e8 h8
    obtain ⟨x, hx, hc⟩ := checkNoDupes_error h8
    obtain ⟨p, hp, rfl⟩ := (names_toList_C02 _ _).1 hx
    rw [List.mem_append] at hc
    rcases hc with hc | hc
    · rcases Bool.eq_false_or_eq_true uvk with hu | hu
      · simp only [hu, if_true] at hp
        rcases coll _ hc with hc | hc
        · exact .ivkOuter p hu hp hc
        · exact .ivkInner p hu hp hc
      · simp only [hu, Bool.false_eq_true, if_false] at hp
        rcases coll _ hc with hc | hc
        · exact .ovkOuter p hu hp hc
        · exact .ovkInner p hu hp hc
    · obtain ⟨a, ha, hab⟩ := (names_toList_C02 _ _).1 hc
      exact .stars a p ha hp hab.symm
  · cases h

/-- both signatures declare a same-named parameter (other than a star parameter of the same
    kind in both, which is the forwarding itself) -/
def sharedNameD (o i : List Param) : Prop :=
  ∃ p ∈ o, ∃ q ∈ i, p.name = q.name ∧ ¬ (p.kind = q.kind ∧ (p.kind = .vp ∨ p.kind = .vk))

theorem starOf_name {l r : Option Param} {w : Bool} {p : Param} (h : starOf l r w = some p) :
    ∃ lp, l = some lp ∧ p.name = lp.name := by
  unfold starOf at h
  split at h
  · rename_i lp rp
    simp only [Option.some.injEq] at h
    subst h
    refine ⟨lp, rfl, ?_⟩
    split <;> rfl
  · cases h

theorem mergeStars_va_name {I i' : Sorted} {a k : Option Param} (h : mergeStars I a k = .ok i')
    {p : Param} (hp : i'.va = some p) : ∃ lp, I.va = some lp ∧ p.name = lp.name := by
  unfold mergeStars at h
  simp only at h
  (repeat' split at h) <;> first | (cases h; done) | (cases h; simp only at hp; first | exact starOf_name hp | cases hp)

theorem mergeStars_vk_name {I i' : Sorted} {a k : Option Param} (h : mergeStars I a k = .ok i')
    {p : Param} (hp : i'.vk = some p) : ∃ lp, I.vk = some lp ∧ p.name = lp.name := by
  unfold mergeStars at h
  simp only at h
  (repeat' split at h) <;> first | (cases h; done) | (cases h; simp only at hp; first | exact starOf_name hp | cases hp)

theorem mem_named_of_name {S : Sorted} {x : Nat} (h : x ∈ names (S.pos ++ S.pok ++ S.kwo)) :
    ∃ q ∈ S.pos ++ S.pok ++ S.kwo, q.name = x := by
  obtain ⟨q, hq, rfl⟩ := List.mem_map.1 h
  exact ⟨q, hq, rfl⟩

theorem named_mem_all {S : Sorted} {q : Param} (h : q ∈ S.pos ++ S.pok ++ S.kwo) : q ∈ S.all :=
  (named_sublist_all S).subset h

theorem named_kind {S : Sorted} (hk : BucketKinds S) {q : Param} (h : q ∈ S.pos ++ S.pok ++ S.kwo) :
    q.kind ≠ .vp ∧ q.kind ≠ .vk := by
  simp only [List.mem_append] at h
  rcases h with (h | h) | h
  · rw [hk.pos q h]; exact ⟨by decide, by decide⟩
  · rw [hk.pok q h]; exact ⟨by decide, by decide⟩
  · rw [hk.kwo q h]; exact ⟨by decide, by decide⟩

theorem named_not_star {S : Sorted} (hk : BucketKinds S) {p : Param} (hp : p ∈ S.pos ++ S.pok ++ S.kwo)
    (q : Param) : ¬ (p.kind = q.kind ∧ (p.kind = .vp ∨ p.kind = .vk)) := by
  rintro ⟨_, h | h⟩
  · exact (named_kind hk hp).1 h
  · exact (named_kind hk hp).2 h

theorem va_mem_all {S : Sorted} {p : Param} (h : S.va = some p) : p ∈ S.all := by simp [Sorted.all, h]
theorem vk_mem_all {S : Sorted} {p : Param} (h : S.vk = some p) : p ∈ S.all := by simp [Sorted.all, h]

/-- two different entries of a duplicate-free name list cannot carry the same name -/
theorem nodup_names_inj {l : List Param} (h : (names l).Nodup) {p q : Param} (hp : p ∈ l) (hq : q ∈ l)
    (e : p.name = q.name) : p = q := by
  induction l with
  | nil => cases hp
  | cons a t ih =>
    simp only [names, List.map_cons, List.nodup_cons] at h
    simp only [List.mem_cons] at hp hq
    rcases hp with rfl | hp <;> rcases hq with rfl | hq
    · rfl
    · exact absurd (List.mem_map.2 ⟨q, hq, e.symm⟩) h.1
    · exact absurd (List.mem_map.2 ⟨p, hp, e⟩) h.1
    · exact ih h.2 hp hq

theorem embed_raises_only_if_aux (o i : USig) (uva uvk : Bool)
    (ho : WF o.params) (hi : WF i.params)
    (hR : embed uva uvk [o, i] = .error .incompatible) :
    sharedNameD o.params i.params ∨
      ∀ n K, K.Nodup → compositeD o.params i.params uva uvk n K = false := by
  obtain ⟨hallO, hkO, _, _⟩ := sortParams_WF o ho
  obtain ⟨hallI, hkI, _, _⟩ := sortParams_WF i hi
  have hnO : (names (sortParams o).all).Nodup := by rw [hallO]; exact validate_nodup ho.validate
  have hnI : (names (sortParams i).all).Nodup := by rw [hallI]; exact validate_nodup hi.validate
  have e1 : (if uva = true then (sortParams o).va else none).isSome = (uva && (sortParams o).va.isSome) := by
    cases uva <;> simp
  have e2 : (if uvk = true then (sortParams o).vk else none).isSome = (uvk && (sortParams o).vk.isSome) := by
    cases uvk <;> simp
  rcases embed_two_incompatible hR with ⟨e, hm⟩ | ⟨i', e, hm, ht⟩
  · right
    obtain ⟨x, hx, h1, h2⟩ := mergeStars_error (named_nodup hnI) hm
    rw [e1] at h1
    rw [e2] at h2
    intro n K hK
    have hnot := compositeV_false_of (Vo := sview (sortParams o)) (Vi := sview (sortParams i))
      (uva := uva) (uvk := uvk) (x := x) hx h1 h2 n K
    rw [← composite_iff ho hi n K hK] at hnot
    cases hc : compositeD o.params i.params uva uvk n K
    · rfl
    · exact absurd hc hnot
  · left
    have M := mergeStars_facts (named_nodup hnI) hm
    -- a clash, transported from the fitted inner signature `i'` back to `i`
    have mk : ∀ (p q : Param), p ∈ (sortParams o).all → q ∈ (sortParams i).all → p.name = q.name →
        ¬ (p.kind = q.kind ∧ (p.kind = .vp ∨ p.kind = .vk)) → sharedNameD o.params i.params := by
      intro p q hp hq e hk
      exact ⟨p, by rw [← hallO]; exact hp, q, by rw [← hallI]; exact hq, e, hk⟩
    have innerNamed : ∀ x, x ∈ names (i'.pos ++ i'.pok ++ i'.kwo) →
        ∃ q ∈ (sortParams i).pos ++ (sortParams i).pok ++ (sortParams i).kwo, q.name = x :=
      fun x hx => mem_named_of_name (M.m3 x hx)
    have hT := embedTailC_error (named_nodup hnO) M.m7 ht
    cases hT with
    | named x hO hI =>
      obtain ⟨p, hp, rfl⟩ := mem_named_of_name hO
      obtain ⟨q, hq, hqe⟩ := innerNamed _ hI
      exact mk p q (named_mem_all hp) (named_mem_all hq) hqe.symm
        (named_not_star hkO hp _)
    | ivaOuter s hu hs hx =>
      obtain ⟨lp, hlp, hn⟩ := mergeStars_va_name hm hs
      obtain ⟨p, hp, hpe⟩ := mem_named_of_name hx
      exact mk p lp (named_mem_all hp) (va_mem_all hlp) (hpe.trans hn)
        (named_not_star hkO hp _)
    | ivaInner s hu hs hx =>
      exfalso
      obtain ⟨lp, hlp, hn⟩ := mergeStars_va_name hm hs
      obtain ⟨q, hq, hqe⟩ := innerNamed _ hx
      have := nodup_names_inj hnI (named_mem_all hq) (va_mem_all hlp) (hqe.trans hn)
      subst this
      exact (named_kind hkI hq).1 (hkI.va _ hlp)
    | ovaOuter s hu hs hx =>
      exfalso
      obtain ⟨p, hp, hpe⟩ := mem_named_of_name hx
      have := nodup_names_inj hnO (named_mem_all hp) (va_mem_all hs) hpe
      subst this
      exact (named_kind hkO hp).1 (hkO.va _ hs)
    | ovaInner s hu hs hx =>
      obtain ⟨q, hq, hqe⟩ := innerNamed _ hx
      exact mk s q (va_mem_all hs) (named_mem_all hq) hqe.symm
        (fun hh => by
          have := hkO.va _ hs
          rw [this] at hh
          exact (named_kind hkI hq).1 hh.1.symm)
    | ivkOuter s hu hs hx =>
      obtain ⟨lp, hlp, hn⟩ := mergeStars_vk_name hm hs
      obtain ⟨p, hp, hpe⟩ := mem_named_of_name hx
      exact mk p lp (named_mem_all hp) (vk_mem_all hlp) (hpe.trans hn)
        (named_not_star hkO hp _)
    | ivkInner s hu hs hx =>
      exfalso
      obtain ⟨lp, hlp, hn⟩ := mergeStars_vk_name hm hs
      obtain ⟨q, hq, hqe⟩ := innerNamed _ hx
      have := nodup_names_inj hnI (named_mem_all hq) (vk_mem_all hlp) (hqe.trans hn)
      subst this
      exact (named_kind hkI hq).2 (hkI.vk _ hlp)
    | ovkOuter s hu hs hx =>
      exfalso
      obtain ⟨p, hp, hpe⟩ := mem_named_of_name hx
      have := nodup_names_inj hnO (named_mem_all hp) (vk_mem_all hs) hpe
      subst this
      exact (named_kind hkO hp).2 (hkO.vk _ hs)
    | ovkInner s hu hs hx =>
      obtain ⟨q, hq, hqe⟩ := innerNamed _ hx
      exact mk s q (vk_mem_all hs) (named_mem_all hq) hqe.symm
        (fun hh => by
          have := hkO.vk _ hs
          rw [this] at hh
          exact (named_kind hkI hq).2 hh.1.symm)
    | stars a b ha hb hab =>
      cases hua : uva <;> cases hub : uvk <;>
        simp only [hua, hub, if_true, if_false, Bool.false_eq_true] at ha hb
      · -- both stars are the outer signature's own
        exfalso
        have := nodup_names_inj hnO (vk_mem_all hb) (va_mem_all ha) hab
        subst this
        have k1 := hkO.va _ ha
        have k2 := hkO.vk _ hb
        rw [k1] at k2; cases k2
      · -- outer *args kept, inner **kwargs used
        obtain ⟨lb, hlb, hnb⟩ := mergeStars_vk_name hm hb
        exact mk a lb (va_mem_all ha) (vk_mem_all hlb) (hab.symm.trans hnb)
          (fun hh => by
            have k1 := hkO.va _ ha
            have k2 := hkI.vk _ hlb
            rw [k1, k2] at hh; cases hh.1)
      · -- inner *args used, outer **kwargs kept
        obtain ⟨la, hla, hna⟩ := mergeStars_va_name hm ha
        exact mk b la (vk_mem_all hb) (va_mem_all hla) (hab.trans hna)
          (fun hh => by
            have k1 := hkO.vk _ hb
            have k2 := hkI.va _ hla
            rw [k1, k2] at hh; cases hh.1)
      · -- both from the inner signature
        exfalso
        obtain ⟨la, hla, hna⟩ := mergeStars_va_name hm ha
        obtain ⟨lb, hlb, hnb⟩ := mergeStars_vk_name hm hb
        have := nodup_names_inj hnI (vk_mem_all hlb) (va_mem_all hla) (hnb.symm.trans (hab.trans hna))
        subst this
        have k1 := hkI.va _ hla
        have k2 := hkI.vk _ hlb
        rw [k1] at k2; cases k2

end SV
