/-
  Lemmas/LawsCompute.lean — what the merge phases compute on special inputs
  (equal operands, a bare `(*args, **kwargs)` operand).
-/
import Sigverif.Lemmas.LawsValid
namespace SV
set_option linter.unusedSimpArgs false
set_option linter.unusedVariables false

theorem pget_of_mem (d : List Param) (p : Param) (hn : (names d).Nodup) (hp : p ∈ d) :
    pget d p.name = some p := by
  induction d with
  | nil => cases hp
  | cons q t ih =>
    simp only [names, List.map_cons, List.nodup_cons] at hn
    simp only [pget, List.find?_cons]
    by_cases hq : q.name = p.name
    · simp only [hq, decide_true]
      simp only [List.mem_cons] at hp
      rcases hp with rfl | hp
      · rfl
      · exact absurd (by rw [hq]; exact List.mem_map_of_mem hp) hn.1
    · simp only [hq, decide_false]
      simp only [List.mem_cons] at hp
      rcases hp with rfl | hp
      · exact absurd rfl hq
      · exact ih hn.2 hp

theorem pget_none (d : List Param) (n : Nat) (h : n ∉ names d) : pget d n = none := by
  simp only [pget, List.find?_eq_none, decide_eq_true_eq]
  intro p hp e
  exact h (by rw [← e]; exact List.mem_map_of_mem hp)

theorem phas_of_mem (d : List Param) (p : Param) (hp : p ∈ d) : phas d p.name = true := by
  simp only [phas, List.any_eq_true, decide_eq_true_eq]
  exact ⟨p, hp, rfl⟩

theorem phas_false (d : List Param) (n : Nat) (h : n ∉ names d) : phas d n = false := by
  rw [Bool.eq_false_iff]
  intro hh
  simp only [phas, List.any_eq_true, decide_eq_true_eq] at hh
  obtain ⟨p, hp, e⟩ := hh
  exact h (by rw [← e]; exact List.mem_map_of_mem hp)

theorem pupdate_eq_append (d e : List Param) (hn : (names e).Nodup) (hd : ∀ p ∈ e, p.name ∉ names d) :
    pupdate d e = d ++ e := by
  unfold pupdate
  induction e generalizing d with
  | nil => simp
  | cons p e ih =>
    simp only [names, List.map_cons, List.nodup_cons] at hn
    simp only [List.foldl_cons]
    rw [pset_eq_append _ _ (hd p (by simp)), ih _ hn.2]
    · simp
    · intro q hq
      simp only [names, List.map_append, List.mem_append, not_or, List.map_cons, List.map_nil,
        List.mem_singleton]
      refine ⟨hd q (by simp [hq]), ?_⟩
      intro e'
      exact hn.1 (by rw [← e']; exact List.mem_map_of_mem hq)

theorem concile_self (p : Param) (h : p.ann = none → p.uann = .empty) : concile p p = p := by
  obtain ⟨n, k, d, a, u⟩ := p
  simp only [concile]
  cases d <;> cases a <;> simp_all

/-! ### phase K -/

theorem phaseK1_self (l r : Sorted) (ps : List Param) (st : MState)
    (h1 : ∀ p ∈ ps, pget r.kwo p.name = some p) (h2 : ∀ p ∈ ps, concile p p = p)
    (hn : (names ps).Nodup) (hd : ∀ p ∈ ps, p.name ∉ names st.kwo) :
    ∃ src', phaseK1 l r ps st = { st with kwo := st.kwo ++ ps, src := src' } := by
  induction ps generalizing st with
  | nil => exact ⟨st.src, by simp [phaseK1]⟩
  | cons p ps ih =>
    simp only [names, List.map_cons, List.nodup_cons] at hn
    simp only [phaseK1, h1 p (by simp), h2 p (by simp)]
    rw [pset_eq_append _ _ (hd p (by simp))]
    obtain ⟨src', h⟩ := ih ({ st with
        kwo := st.kwo ++ [p],
        src := dset st.src p.name (sget l.src p.name ++ sget r.src p.name) })
      (fun q hq => h1 q (by simp [hq])) (fun q hq => h2 q (by simp [hq])) hn.2 (by
        intro q hq
        simp only [names, List.map_append, List.mem_append, not_or, List.map_cons, List.map_nil,
          List.mem_singleton]
        refine ⟨hd q (by simp [hq]), ?_⟩
        intro e'
        exact hn.1 (by rw [← e']; exact List.mem_map_of_mem hq))
    exact ⟨src', by rw [h]; simp⟩

theorem phaseK1_none (l r : Sorted) (ps : List Param) (st : MState)
    (h1 : ∀ p ∈ ps, pget r.kwo p.name = none)
    (hn : (names ps).Nodup) (hd : ∀ p ∈ ps, p.name ∉ names st.lUn) :
    phaseK1 l r ps st = { st with lUn := st.lUn ++ ps } := by
  induction ps generalizing st with
  | nil => simp [phaseK1]
  | cons p ps ih =>
    simp only [names, List.map_cons, List.nodup_cons] at hn
    simp only [phaseK1, h1 p (by simp)]
    rw [pset_eq_append _ _ (hd p (by simp))]
    rw [ih _ (fun q hq => h1 q (by simp [hq])) hn.2 (by
        intro q hq
        simp only [names, List.map_append, List.mem_append, not_or, List.map_cons, List.map_nil,
          List.mem_singleton]
        refine ⟨hd q (by simp [hq]), ?_⟩
        intro e'
        exact hn.1 (by rw [← e']; exact List.mem_map_of_mem hq))]
    simp

theorem phaseK2_all (l : Sorted) (ps : List Param) (st : MState)
    (h1 : ∀ p ∈ ps, phas l.kwo p.name = true) : phaseK2 l ps st = st := by
  induction ps generalizing st with
  | nil => simp [phaseK2]
  | cons p ps ih =>
    simp only [phaseK2, h1 p (by simp), if_true]
    exact ih _ (fun q hq => h1 q (by simp [hq]))

theorem phaseK2_none (l : Sorted) (ps : List Param) (st : MState)
    (h1 : ∀ p ∈ ps, phas l.kwo p.name = false)
    (hn : (names ps).Nodup) (hd : ∀ p ∈ ps, p.name ∉ names st.rUn) :
    phaseK2 l ps st = { st with rUn := st.rUn ++ ps } := by
  induction ps generalizing st with
  | nil => simp [phaseK2]
  | cons p ps ih =>
    simp only [names, List.map_cons, List.nodup_cons] at hn
    simp only [phaseK2, h1 p (by simp)]
    rw [pset_eq_append _ _ (hd p (by simp))]
    simp only [Bool.false_eq_true, if_false]
    rw [ih _ (fun q hq => h1 q (by simp [hq])) hn.2 (by
        intro q hq
        simp only [names, List.map_append, List.mem_append, not_or, List.map_cons, List.map_nil,
          List.mem_singleton]
        refine ⟨hd q (by simp [hq]), ?_⟩
        intro e'
        exact hn.1 (by rw [← e']; exact List.mem_map_of_mem hq))]
    simp

/-! ### phase P -/

theorem phaseP_self (l r : Sorted) (xs il ir : List Param) (st : MState)
    (h2 : ∀ p ∈ xs, concile p p = p) :
    ∃ src', phaseP l r xs xs il ir st = .ok ({ st with pos := st.pos ++ xs, src := src' }, il, ir) := by
  induction xs generalizing st with
  | nil => exact ⟨st.src, by simp [phaseP]⟩
  | cons p xs ih =>
    simp only [phaseP, h2 p (by simp), ↓reduceIte]
    obtain ⟨src', h⟩ := ih ({ st with
        pos := st.pos ++ [p],
        src := addSources st.src p.name [l.src, r.src] }) (fun q hq => h2 q (by simp [hq]))
    exact ⟨src', by rw [h]; simp⟩

theorem phaseP_left (l r : Sorted) (xs il : List Param) (st : MState) (hva : r.va.isSome = true) :
    ∃ src', phaseP l r xs [] il [] st =
      .ok ({ st with pos := st.pos ++ xs, vaR := st.vaR && xs.isEmpty, src := src' }, il, []) := by
  induction xs generalizing st with
  | nil => exact ⟨st.src, by simp [phaseP]⟩
  | cons p xs ih =>
    simp only [phaseP, unbalancedPos, hva, if_true, bind, Except.bind]
    obtain ⟨src', h⟩ := ih ({ st with
        pos := st.pos ++ [p], vaR := false,
        src := addSources st.src p.name [l.src] })
    exact ⟨src', by rw [h]; simp⟩

theorem phaseP_right (l r : Sorted) (xs ir : List Param) (st : MState) (hva : l.va.isSome = true) :
    ∃ src', phaseP l r [] xs [] ir st =
      .ok ({ st with pos := st.pos ++ xs, vaL := st.vaL && xs.isEmpty, src := src' }, [], ir) := by
  induction xs generalizing st with
  | nil => exact ⟨st.src, by simp [phaseP]⟩
  | cons p xs ih =>
    simp only [phaseP, unbalancedPos, hva, if_true, bind, Except.bind]
    obtain ⟨src', h⟩ := ih ({ st with
        pos := st.pos ++ [p], vaL := false,
        src := addSources st.src p.name [r.src] })
    exact ⟨src', by rw [h]; simp⟩

/-! ### phase Q -/

theorem phaseQ_self (l r : Sorted) (xs : List Param) (st : MState)
    (h2 : ∀ p ∈ xs, concile p p = p) :
    ∃ src', phaseQ l r xs xs st = .ok { st with pok := st.pok ++ xs, src := src' } := by
  induction xs generalizing st with
  | nil => exact ⟨st.src, by simp [phaseQ]⟩
  | cons p xs ih =>
    rw [phaseQ, if_pos rfl, h2 p (by simp)]
    obtain ⟨src', h⟩ := ih ({ st with
        pok := st.pok ++ [p],
        src := addSources st.src p.name [l.src, r.src] }) (fun q hq => h2 q (by simp [hq]))
    exact ⟨src', by rw [h]; simp⟩

theorem phaseQ_left (l r : Sorted) (xs : List Param) (st : MState)
    (hva : r.va.isSome = true) (hvk : r.vk.isSome = true) (hun : st.rUn = []) :
    ∃ src', phaseQ l r xs [] st = .ok { st with pok := st.pok ++ xs, src := src' } := by
  induction xs generalizing st with
  | nil => exact ⟨st.src, by simp [phaseQ]⟩
  | cons p xs ih =>
    have hg : pget st.rUn p.name = none := by rw [hun]; rfl
    simp only [phaseQ, unbalancedPok, hg, hva, hvk, Bool.and_self, if_true,
      bind, Except.bind]
    obtain ⟨src', h⟩ := ih ({ st with
        pok := st.pok ++ [p],
        src := addSources st.src p.name [l.src] }) hun
    exact ⟨src', by rw [h]; simp⟩

theorem phaseQ_right (l r : Sorted) (xs : List Param) (st : MState)
    (hva : l.va.isSome = true) (hvk : l.vk.isSome = true) (hun : st.lUn = []) :
    ∃ src', phaseQ l r [] xs st = .ok { st with pok := st.pok ++ xs, src := src' } := by
  induction xs generalizing st with
  | nil => exact ⟨st.src, by simp [phaseQ]⟩
  | cons p xs ih =>
    have hg : pget st.lUn p.name = none := by rw [hun]; rfl
    simp only [phaseQ, unbalancedPok, hg, hva, hvk, Bool.and_self, if_true,
      bind, Except.bind]
    obtain ⟨src', h⟩ := ih ({ st with
        pok := st.pok ++ [p],
        src := addSources st.src p.name [r.src] }) hun
    exact ⟨src', by rw [h]; simp⟩

end SV
