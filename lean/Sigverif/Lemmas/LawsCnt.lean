/-
  Lemmas/LawsCnt.lean — the counting invariant of the positional phases: no name is ever
  produced twice.
-/
import Sigverif.Lemmas.LawsSteps
namespace SV
set_option linter.unusedSimpArgs false
set_option linter.unusedVariables false

/-- number of parameters called `n` -/
def cn (ps : List Param) (n : Nat) : Nat := (names ps).count n

@[simp] theorem cn_nil (n : Nat) : cn [] n = 0 := rfl
theorem cn_append (xs ys : List Param) (n : Nat) : cn (xs ++ ys) n = cn xs n + cn ys n := by
  simp [cn, names, List.count_append]
theorem cn_cons (p : Param) (xs : List Param) (n : Nat) :
    cn (p :: xs) n = cn xs n + (if p.name = n then 1 else 0) := by
  simp [cn, names, List.count_cons]
theorem cn_singleton (p : Param) (n : Nat) : cn [p] n = (if p.name = n then 1 else 0) := by
  simp [cn_cons]
theorem cn_map_withKind (xs : List Param) (k : Kind) (n : Nat) :
    cn (xs.map (·.withKind k)) n = cn xs n := by
  simp [cn, names, List.map_map, Function.comp_def]
theorem cn_eq_zero {xs : List Param} {n : Nat} (h : ∀ p ∈ xs, p.name ≠ n) : cn xs n = 0 := by
  simp only [cn, List.count_eq_zero, names, List.mem_map, not_exists, not_and]
  exact h
theorem cn_pos_of_mem {xs : List Param} {p : Param} (h : p ∈ xs) : 1 ≤ cn xs p.name := by
  simp only [cn, List.one_le_count_iff]
  exact List.mem_map_of_mem h

theorem cn_pset (d : List Param) (p : Param) (n : Nat) :
    cn (pset d p) n ≤ cn d n + (if p.name = n then 1 else 0) := by
  induction d with
  | nil => simp [pset, cn_cons]
  | cons q t ih =>
    simp only [pset]
    split
    · rename_i hq
      simp only [cn_cons, hq]
      omega
    · simp only [cn_cons]
      omega

theorem cn_ppop (d : List Param) (k n : Nat) : cn (ppop d k) n ≤ cn d n := by
  unfold cn names ppop
  exact List.Sublist.count_le _ (List.Sublist.map _ List.filter_sublist)

theorem cn_pupdate (d e : List Param) (n : Nat) : cn (pupdate d e) n ≤ cn d n + cn e n := by
  unfold pupdate
  induction e generalizing d with
  | nil => simp
  | cons p e ih =>
    simp only [List.foldl_cons]
    have h1 := ih (pset d p)
    have h2 := cn_pset d p n
    simp only [cn_cons]
    omega

theorem mem_of_pget {d : List Param} {k : Nat} {q : Param} (h : pget d k = some q) :
    q ∈ d ∧ q.name = k := by
  unfold pget at h
  have h1 := List.mem_of_find?_eq_some h
  have h2 := List.find?_some h
  simp only [decide_eq_true_eq] at h2
  exact ⟨h1, h2⟩

/-- total count of a name in the buckets -/
def cT (b : Bk) (n : Nat) : Nat := cn b.pos n + cn b.pok n + cn b.kwo n + cn b.lUn n + cn b.rUn n

theorem cT_add {e : Param} {b b' : Bk} (h : Add e b b') (n : Nat) :
    cT b' n ≤ cT b n + (if e.name = n then 1 else 0) := by
  cases h with
  | pos _ => simp only [cT, cn_append, cn_singleton]; omega
  | pok => simp only [cT, cn_append, cn_singleton]; omega
  | kwo =>
    have := cn_pset b.kwo e n
    simp only [cT]; omega
  | flush => simp only [cT, cn_append, cn_singleton, cn_map_withKind, cn_nil]; omega

/-- names shared by the two chains sit at the same index -/
def Al : List Param → List Param → Prop
  | x :: xs, y :: ys => (∀ p ∈ ys, p.name ≠ x.name) ∧ (∀ p ∈ xs, p.name ≠ y.name) ∧ Al xs ys
  | [], _ => True
  | _ :: _, [] => True

/-- `z` is a fixed function counting the names reserved for the star parameters -/
def ICnt (z : Nat → Nat) (xs ys : List Param) (b : Bk) : Prop :=
  (∀ n, cT b n + cn xs n + z n ≤ 1) ∧ (∀ n, cT b n + cn ys n + z n ≤ 1) ∧ Al xs ys

theorem ICnt_step (z : Nat → Nat) (xs ys : List Param) (b : Bk) (xs' ys' : List Param) (b' : Bk)
    (hs : Step xs ys b xs' ys' b') (hi : ICnt z xs ys b) : ICnt z xs' ys' b' := by
  obtain ⟨h1, h2, h3⟩ := hi
  cases hs with
  | both lp rp e xs ys b b' hn hd ha =>
    simp only [Al] at h3
    obtain ⟨a1, a2, a3⟩ := h3
    refine ⟨?_, ?_, a3⟩
    · intro n
      have hc := cT_add ha n
      have g1 := h1 n
      have g2 := h2 n
      rw [cn_cons] at g1 g2
      have z1 : rp.name = n → cn xs' n = 0 := fun e => cn_eq_zero (fun p hp => e ▸ a2 p hp)
      have he : (if e.name = n then 1 else 0) ≤ (if lp.name = n then 1 else 0) ∨
          (if e.name = n then 1 else 0) ≤ (if rp.name = n then 1 else 0) := by
        rcases hn with hn | hn
        · left; rw [hn]; exact Nat.le_refl _
        · right; rw [hn]; exact Nat.le_refl _
      generalize (if e.name = n then 1 else 0) = t at hc he
      generalize (if lp.name = n then 1 else 0) = u at g1 he
      by_cases e2 : rp.name = n
      · have := z1 e2
        simp only [e2, if_true] at g2 he
        omega
      · simp only [e2, if_false] at g2 he
        omega
    · intro n
      have hc := cT_add ha n
      have g1 := h1 n
      have g2 := h2 n
      rw [cn_cons] at g1 g2
      have z1 : lp.name = n → cn ys' n = 0 := fun e => cn_eq_zero (fun p hp => e ▸ a1 p hp)
      have he : (if e.name = n then 1 else 0) ≤ (if lp.name = n then 1 else 0) ∨
          (if e.name = n then 1 else 0) ≤ (if rp.name = n then 1 else 0) := by
        rcases hn with hn | hn
        · left; rw [hn]; exact Nat.le_refl _
        · right; rw [hn]; exact Nat.le_refl _
      generalize (if e.name = n then 1 else 0) = t at hc he
      generalize (if rp.name = n then 1 else 0) = u at g2 he
      by_cases e1 : lp.name = n
      · have := z1 e1
        simp only [e1, if_true] at g1 he
        omega
      · simp only [e1, if_false] at g1 he
        omega
  | left lp e xs b b' hn hd ha =>
    refine ⟨?_, ?_, by cases xs' <;> simp [Al]⟩
    · intro n
      have := cT_add ha n
      have := h1 n
      simp only [cn_cons, hn] at *
      omega
    · intro n
      have := cT_add ha n
      have := h1 n
      simp only [cn_cons, hn, cn_nil] at *
      omega
  | leftDrop lp xs b hd =>
    refine ⟨?_, h2, by cases xs' <;> simp [Al]⟩
    intro n
    have := h1 n
    simp only [cn_cons] at this
    omega
  | leftLimbo lp q e xs b hq hn =>
    exfalso
    obtain ⟨hm, hqn⟩ := mem_of_pget hq
    have := h1 lp.name
    have := cn_pos_of_mem hm
    simp only [cn_cons, if_true, cT, hqn] at *
    omega
  | right rp e ys b b' hn hd ha =>
    refine ⟨?_, ?_, by simp [Al]⟩
    · intro n
      have := cT_add ha n
      have := h2 n
      simp only [cn_cons, hn, cn_nil] at *
      omega
    · intro n
      have := cT_add ha n
      have := h2 n
      simp only [cn_cons, hn] at *
      omega
  | rightDrop rp ys b hd =>
    refine ⟨h1, ?_, by simp [Al]⟩
    intro n
    have := h2 n
    simp only [cn_cons] at this
    omega
  | rightLimbo rp q e ys b hq hn =>
    exfalso
    obtain ⟨hm, hqn⟩ := mem_of_pget hq
    have := h2 rp.name
    have := cn_pos_of_mem hm
    simp only [cn_cons, if_true, cT, hqn] at *
    omega

theorem ICnt_steps (z : Nat → Nat) {xs ys xs' ys' : List Param} {b b' : Bk}
    (h : Steps xs ys b xs' ys' b') (h0 : ICnt z xs ys b) : ICnt z xs' ys' b' :=
  Steps.inv (ICnt z) (ICnt_step z) h h0

end SV
