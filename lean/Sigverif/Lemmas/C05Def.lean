/-
  Lemmas/C05Def.lean — the walker cannot tell a body with NAMED nested definitions
  (`renderNamed sub p`, what the real code sees since repair D85) from the body in which every
  `def sub(): …` is written out as `sub = <object>` followed by the anonymous function
  (`render (dsProg sub p)`): same visitor state after the body, hence — the revisit loop being
  independent of its fuel once it suffices — the same call records.
-/
import Sigverif.Model.GrammarDef
import Sigverif.Lemmas.C05Nest
import Sigverif.Props.C05Total
namespace SV
open Flat

theorem render_nameStmt (sub va vk : Nat) :
    renderS va vk (nameStmt sub va vk) = stmtOf (some sub) constT := by
  unfold nameStmt
  split
  · next h => subst h; simp [renderS]
  · split
    · next h => subst h; simp [renderS]
    · simp [renderS]

theorem visit_namedDef (sub : Nat) (f : Tree) (st : VState) :
    visit false (namedDef sub f) st = visit false f (visit false (stmtOf (some sub) constT) st) := by
  simp [namedDef, stmtOf, constT, visit, visitList]

mutual
  theorem visitDS_block (sub va vk : Nat) : ∀ (body : StmtList) (st : VState),
      visit false (renderDS sub va vk (.block body)) st =
        visit false (renderS va vk (.block (dsSL sub va vk body))) st
    | body, st => by
      simp only [renderDS, renderS, visit, visitList]
      exact visitDSL sub va vk body _
  theorem visitDSL (sub va vk : Nat) : ∀ (l : StmtList) (st : VState),
      visitList (renderDSL sub va vk l) st = visitList (renderSL va vk (dsSL sub va vk l)) st
    | .nil, st => by simp [renderDSL, dsSL, renderSL]
    | .cons (.nested body) rest, st => by
      simp only [renderDSL, dsSL, renderSL, visitList_cons, renderDS, render_nameStmt, visit_namedDef, renderS]
      exact visitDSL sub va vk rest _
    | .cons (.nonlocalRebind s) rest, st => by
      simp only [renderDSL, dsSL, renderSL, visitList_cons, renderDS, render_nameStmt, visit_namedDef]
      exact visitDSL sub va vk rest _
    | .cons (.block body) rest, st => by
      simp only [renderDSL, dsSL, renderSL, visitList_cons]
      rw [visitDS_block sub va vk body st]
      exact visitDSL sub va vk rest _
    | .cons (.fwd callee npos kws uva uvk target) rest, st => by
      simp only [renderDSL, dsSL, renderSL, visitList_cons, renderDS]
      exact visitDSL sub va vk rest _
    | .cons (.rebind s) rest, st => by
      simp only [renderDSL, dsSL, renderSL, visitList_cons, renderDS]
      exact visitDSL sub va vk rest _
    | .cons (.mutate s m) rest, st => by
      simp only [renderDSL, dsSL, renderSL, visitList_cons, renderDS]
      exact visitDSL sub va vk rest _
    | .cons (.delete s) rest, st => by
      simp only [renderDSL, dsSL, renderSL, visitList_cons, renderDS]
      exact visitDSL sub va vk rest _
    | .cons (.handOver s h) rest, st => by
      simp only [renderDSL, dsSL, renderSL, visitList_cons, renderDS]
      exact visitDSL sub va vk rest _
    | .cons (.decoy h n) rest, st => by
      simp only [renderDSL, dsSL, renderSL, visitList_cons, renderDS]
      exact visitDSL sub va vk rest _
    | .cons (.unrelated x) rest, st => by
      simp only [renderDSL, dsSL, renderSL, visitList_cons, renderDS]
      exact visitDSL sub va vk rest _
end

/-- the revisit loop gives the same state for any two amounts of fuel that both suffice -/
theorem revisitLoop_fuel_irrel : ∀ (f1 f2 i : Nat) (st a b : VState),
    revisitLoop f1 i st = some a → revisitLoop f2 i st = some b → a = b
  | 0, 0, i, st, a, b, h1, h2 => by
    simp only [revisitLoop] at h1 h2
    split at h1
    · cases h1
    · cases h1; split at h2
      · cases h2
      · cases h2; rfl
  | 0, f2 + 1, i, st, a, b, h1, h2 => by
    simp only [revisitLoop] at h1
    split at h1
    · cases h1
    · next hlt =>
      cases h1
      rw [revisitLoop, List.getElem?_eq_none (by omega)] at h2
      cases h2; rfl
  | f1 + 1, 0, i, st, a, b, h1, h2 => by
    simp only [revisitLoop] at h2
    split at h2
    · cases h2
    · next hlt =>
      cases h2
      rw [revisitLoop, List.getElem?_eq_none (by omega)] at h1
      cases h1; rfl
  | f1 + 1, f2 + 1, i, st, a, b, h1, h2 => by
    rw [revisitLoop] at h1 h2
    cases hg : st.revisit[i]? with
    | none => rw [hg] at h1 h2; cases h1; cases h2; rfl
    | some e =>
      obtain ⟨node, ns⟩ := e
      rw [hg] at h1 h2
      exact revisitLoop_fuel_irrel f1 f2 (i + 1) _ a b h1 h2

/-- **naming lemma**: the call records for the body with named nested definitions are those for
    the body with the definitions written out -/
theorem runVisitor_renderNamed (sub : Nat) (p : Prog) :
    runVisitor (renderNamed sub p) = runVisitor (render (dsProg sub p)) := by
  obtain ⟨cs1, h1⟩ := visitor_total [] p.params [] (some p.va) (some p.vk) (renderDSL sub p.va p.vk p.body)
  obtain ⟨cs2, h2⟩ := visitor_total [] p.params [] (some p.va) (some p.vk)
    (renderSL p.va p.vk (dsSL sub p.va p.vk p.body))
  have e1 : runVisitor (renderNamed sub p) = .ok cs1 := h1
  have e2 : runVisitor (render (dsProg sub p)) = .ok cs2 := h2
  rw [e1, e2]
  simp only [runVisitor] at h1 h2
  rw [visitDSL] at h1
  split at h1
  · next s1 hs1 =>
    split at h2
    · next s2 hs2 =>
      have := revisitLoop_fuel_irrel _ _ _ _ _ _ hs1 hs2
      subst this
      cases h1; cases h2; rfl
    · cases h2
  · cases h1

end SV
