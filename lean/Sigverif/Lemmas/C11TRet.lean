/-
  Lemmas/C11TRet.lean — the signature-level return annotation (`ret`, `uret`) is copied verbatim
  from the first (merge, embed, mask) / outer (forwards) input: every operation commutes with any
  map on that pair.
-/
import Sigverif.Lemmas.C11TMask
namespace SV
set_option linter.unusedSimpArgs false
set_option linter.unusedVariables false

/-- a map on (return annotation, upgraded return annotation) -/
abbrev RetMap := Option Nat × UAnn → Option Nat × UAnn

/-- apply `g` to the return-annotation pair of a signature; nothing else changes -/
def mapRet (g : RetMap) (s : USig) : USig :=
  { s with ret := (g (s.ret, s.uret)).1, uret := (g (s.ret, s.uret)).2 }

section
variable (g : RetMap)

theorem x11_sortParams_ret (s : USig) : sortParams (mapRet g s) = sortParams s := rfl

theorem x11_applyParams_ret (sig : USig) (s : Sorted) :
    applyParams (mapRet g sig) s = (applyParams sig s).map (mapRet g) := by
  unfold applyParams
  simp only [bind, Except.bind]
  cases validate s.all <;> rfl

theorem x11_mergeFold_ret (acc : Sorted) (ss : List USig) :
    mergeFold acc (ss.map (mapRet g)) = mergeFold acc ss := by
  induction ss generalizing acc with
  | nil => rfl
  | cons s ss ih =>
    simp only [List.map_cons, mergeFold, x11_sortParams_ret]
    cases mergeStep acc (sortParams s) with
    | error e => rfl
    | ok acc' => exact ih acc'

theorem x11_merge_ret (ss : List USig) : merge (ss.map (mapRet g)) = (merge ss).map (mapRet g) := by
  cases ss with
  | nil => rfl
  | cons s ss =>
    simp only [List.map_cons, merge, bind, Except.bind, x11_sortParams_ret, x11_mergeFold_ret]
    cases mergeFold (sortParams s) ss with
    | error e => rfl
    | ok r => exact x11_applyParams_ret g s r

theorem x11_embedFold_ret (uva uvk : Bool) (acc : Sorted) (n : Nat) (ss : List USig) :
    embedFold uva uvk acc n (ss.map (mapRet g)) = embedFold uva uvk acc n ss := by
  induction ss generalizing acc n with
  | nil => rfl
  | cons s ss ih =>
    simp only [List.map_cons, embedFold, x11_sortParams_ret]
    cases embedStep acc (sortParams s) uva uvk n with
    | error e => rfl
    | ok acc' => exact ih acc' (n + 1)

theorem x11_embed_ret (uva uvk : Bool) (ss : List USig) :
    embed uva uvk (ss.map (mapRet g)) = (embed uva uvk ss).map (mapRet g) := by
  cases ss with
  | nil => rfl
  | cons s ss =>
    simp only [List.map_cons, embed, bind, Except.bind, x11_sortParams_ret, x11_embedFold_ret]
    cases embedFold uva uvk (sortParams s) 1 ss with
    | error e => rfl
    | ok r => exact x11_applyParams_ret g s r

theorem x11_maskCore_ret (sig : USig) (n : Nat) (h : HideFlags) (named : List (Nat × Nat)) (pobj : Option Nat) :
    maskCore (mapRet g sig) n h named pobj = (maskCore sig n h named pobj).map (mapRet g) := by
  rw [maskCore_eq, maskCore_eq, x11_sortParams_ret]
  cases prelude (sortParams sig) n h with
  | error e => rfl
  | ok v =>
    obtain ⟨c, pos, pok⟩ := v
    simp only []
    cases maskNames (sortParams sig).vk (initState (sortParams sig) h c pok)
        (loopNames (if h.kwargs = true then [] else named) pobj) with
    | error e => rfl
    | ok st => exact x11_applyParams_ret g sig _

theorem x11_mask_ret (sig : USig) (n : Nat) (nms : List Nat) (h : HideFlags) :
    mask (mapRet g sig) n nms h = (mask sig n nms h).map (mapRet g) :=
  x11_maskCore_ret g sig n h _ none

theorem x11_maskPartial_ret (sig : USig) (n : Nat) (kw : List (Nat × Nat)) (pobj : Nat) :
    maskPartial (mapRet g sig) n kw pobj = (maskPartial sig n kw pobj).map (mapRet g) :=
  x11_maskCore_ret g sig n {} kw (some pobj)

/-- `forwards`: the return annotation of the result is the outer one; the inner one is dropped (so
    the inner signature may be mapped with any other `g'`) -/
theorem x11_forwards_ret (g' : RetMap) (outer inner : USig) (n : Nat) (nms : List Nat) (ha hk uva uvk part : Bool) :
    forwards (mapRet g outer) (mapRet g' inner) n nms ha hk uva uvk part =
      (forwards outer inner n nms ha hk uva uvk part).map (mapRet g) := by
  have key : ∀ inner' : USig,
      (mask (mapRet g' inner') n nms { args := ha, kwargs := hk } >>= fun m => embed uva uvk [mapRet g outer, m]) =
      (mask inner' n nms { args := ha, kwargs := hk } >>= fun m => embed uva uvk [outer, m]).map (mapRet g) := by
    intro inner'
    rw [x11_mask_ret]
    simp only [bind, Except.bind]
    cases mask inner' n nms { args := ha, kwargs := hk } with
    | error e => rfl
    | ok m =>
      simp only [Except.map]
      have e1 : embed uva uvk [mapRet g outer, mapRet g' m] = embed uva uvk [mapRet g outer, m] := by
        simp only [embed, embedFold, x11_sortParams_ret]
      have := x11_embed_ret g uva uvk [outer, m]
      simp only [List.map_cons, List.map_nil] at this
      have e2 : embed uva uvk [mapRet g outer, mapRet g m] = embed uva uvk [mapRet g outer, m] := by
        simp only [embed, embedFold, x11_sortParams_ret]
      rw [e1, ← e2]
      exact this
  unfold forwards
  cases part with
  | false =>
    simp only [Bool.false_eq_true, if_false, pure, Except.pure]
    exact key inner
  | true =>
    simp only [if_true]
    simp only [bind, Except.bind, pure, Except.pure, show (mapRet g' inner).params = inner.params from rfl]
    cases validate (inner.params.map fun p =>
        if (p.kind = Kind.vp || p.kind = Kind.vk) = true then p else p.withDflt (some 0)) with
    | error e => rfl
    | ok _ => exact key { inner with params := inner.params.map optionalize }

end
end SV
