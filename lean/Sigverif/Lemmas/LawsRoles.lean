/-
  Lemmas/LawsRoles.lean — for role-consistent well-formed inputs the result of a merge step
  always passes the final validation.
-/
import Sigverif.Lemmas.LawsDflt
namespace SV
set_option linter.unusedSimpArgs false
set_option linter.unusedVariables false

/-! ### phase K in counts -/

theorem phaseK1_cnt (l r : Sorted) (ps : List Param) (st : MState) (n : Nat) :
    (phaseK1 l r ps st).pos = st.pos ∧ (phaseK1 l r ps st).pok = st.pok ∧
    (phaseK1 l r ps st).rUn = st.rUn ∧
    cn (phaseK1 l r ps st).kwo n + cn (phaseK1 l r ps st).lUn n ≤ cn st.kwo n + cn st.lUn n + cn ps n := by
  induction ps generalizing st with
  | nil => simp [phaseK1]
  | cons p ps ih =>
    simp only [phaseK1]
    split
    · rename_i q hq
      obtain ⟨i1, i2, i3, i4⟩ := ih { st with
        kwo := pset st.kwo (concile p q),
        src := dset st.src p.name (sget l.src p.name ++ sget r.src p.name) }
      refine ⟨i1, i2, i3, ?_⟩
      have hp := cn_pset st.kwo (concile p q) n
      rw [concile_name] at hp
      rw [cn_cons]
      dsimp only at i4
      omega
    · obtain ⟨i1, i2, i3, i4⟩ := ih { st with lUn := pset st.lUn p }
      refine ⟨i1, i2, i3, ?_⟩
      have hp := cn_pset st.lUn p n
      rw [cn_cons]
      dsimp only at i4
      omega

theorem phaseK2_cnt (l : Sorted) (ps : List Param) (st : MState) (n : Nat) :
    (phaseK2 l ps st).pos = st.pos ∧ (phaseK2 l ps st).pok = st.pok ∧
    (phaseK2 l ps st).kwo = st.kwo ∧ (phaseK2 l ps st).lUn = st.lUn ∧
    cn (phaseK2 l ps st).rUn n ≤ cn st.rUn n + cn ps n ∧
    (1 ≤ cn l.kwo n → cn (phaseK2 l ps st).rUn n ≤ cn st.rUn n) := by
  induction ps generalizing st with
  | nil => simp [phaseK2]
  | cons p ps ih =>
    simp only [phaseK2]
    split
    · obtain ⟨i1, i2, i3, i4, i5, i6⟩ := ih st
      refine ⟨i1, i2, i3, i4, ?_, i6⟩
      simp only [cn_cons]; omega
    · rename_i hph
      obtain ⟨i1, i2, i3, i4, i5, i6⟩ := ih { st with rUn := pset st.rUn p }
      have := cn_pset st.rUn p n
      refine ⟨i1, i2, i3, i4, ?_, ?_⟩
      · simp only [cn_cons] at *; omega
      · intro hl
        have h6 := i6 hl
        have hne : p.name ≠ n := by
          intro e
          apply hph
          simp only [cn, List.one_le_count_iff, names, List.mem_map] at hl
          obtain ⟨q, hq, hqn⟩ := hl
          simp only [phas, List.any_eq_true, decide_eq_true_eq]
          exact ⟨q, hq, by rw [hqn, e]⟩
        simp only [hne, if_false] at this
        simp only at h6
        omega

/-! ### the last phases -/

theorem mergeUnmatched_spec (side : Side) (l r : Sorted) (st st' : MState)
    (h : mergeUnmatched side l r st = .ok st') (n : Nat) :
    st'.pos = st.pos ∧ st'.pok = st.pok ∧ st'.lUn = st.lUn ∧ st'.rUn = st.rUn ∧
    cn st'.kwo n ≤ cn st.kwo n +
      (match side with | .L => cn st.lUn n | .R => cn st.rUn n) := by
  cases side <;> simp only [mergeUnmatched] at h <;> (repeat' split at h) <;>
    first
    | (cases h; done)
    | (simp only [Except.ok.injEq] at h
       subst h
       refine ⟨rfl, rfl, rfl, rfl, ?_⟩
       first
       | (simp only; omega)
       | exact cn_pupdate _ _ _)

theorem addStarargs_name (l r : Sorted) (wL wR : Bool) (left right : Option Param) (src : Srcs)
    (v : Param) (h : (addStarargs l r wL wR left right src).1 = some v) :
    (∃ lp, left = some lp ∧ v.name = lp.name) ∨ (∃ rp, right = some rp ∧ v.name = rp.name) := by
  unfold addStarargs at h
  split at h
  · rename_i lp rp
    split at h
    · simp only [Option.some.injEq] at h
      subst h
      exact .inl ⟨lp, rfl, rfl⟩
    · split at h
      · simp only [Option.some.injEq] at h
        subst h; exact .inl ⟨_, rfl, rfl⟩
      · simp only [Option.some.injEq] at h
        subst h; exact .inr ⟨_, rfl, rfl⟩
  · cases h

theorem cn_star_le (l r : Sorted) (wL wR : Bool) (left right : Option Param) (src : Srcs) (n : Nat) :
    cn (addStarargs l r wL wR left right src).1.toList n ≤ cn left.toList n ∨
    cn (addStarargs l r wL wR left right src).1.toList n ≤ cn right.toList n := by
  cases hv : (addStarargs l r wL wR left right src).1 with
  | none => left; simp
  | some v =>
    rcases addStarargs_name _ _ _ _ _ _ _ _ hv with ⟨lp, rfl, hn⟩ | ⟨rp, rfl, hn⟩
    · left; simp [cn_cons, hn]
    · right; simp [cn_cons, hn]

/-! ### what role consistency gives -/

/-- count of `x` among the parameters of kind `k` -/
theorem cn_filter_kind (ps : List Param) (hn : (names ps).Nodup) (k : Kind) (x : Nat) :
    cn (ps.filter (·.kind = k)) x = if kindOf ps x = some k then 1 else 0 := by
  induction ps with
  | nil => simp [kindOf]
  | cons p t ih =>
    simp only [names, List.map_cons, List.nodup_cons] at hn
    have ih := ih hn.2
    by_cases hp : p.name = x
    · have hz : cn (t.filter (·.kind = k)) x = 0 := by
        apply cn_eq_zero
        intro q hq e
        exact hn.1 (by rw [hp, ← e]; exact List.mem_map_of_mem (List.mem_filter.1 hq).1)
      have hk : kindOf (p :: t) x = some p.kind := by simp [kindOf, hp]
      rw [hk]
      by_cases hpk : p.kind = k
      · simp [List.filter_cons, hpk, cn_cons, hp, hz]
      · simp [List.filter_cons, hpk, hz]
    · have hk : kindOf (p :: t) x = kindOf t x := by simp [kindOf, hp]
      rw [hk, ← ih]
      by_cases hpk : p.kind = k
      · simp [List.filter_cons, hpk, cn_cons, hp]
      · simp [List.filter_cons, hpk]

theorem Al_of_idx (xs ys : List Param) (hx : (names xs).Nodup) (hy : (names ys).Nodup)
    (h : ∀ n, n ∈ names xs → n ∈ names ys → (names xs).idxOf? n = (names ys).idxOf? n) : Al xs ys := by
  induction xs generalizing ys with
  | nil => simp [Al]
  | cons x xs ih =>
    cases ys with
    | nil => simp [Al]
    | cons y ys =>
      simp only [names, List.map_cons, List.nodup_cons] at hx hy
      simp only [Al]
      refine ⟨?_, ?_, ?_⟩
      · intro p hp e
        have hne : y.name ≠ x.name := by
          intro e'; apply hy.1; rw [e', ← e]; exact List.mem_map_of_mem hp
        have := h x.name (by simp [names]) (by simp only [names, List.map_cons, List.mem_cons]; right; rw [← e]; exact List.mem_map_of_mem hp)
        simp only [names, List.map_cons, List.idxOf?_cons, beq_iff_eq, hne, if_false, if_true] at this
        cases h' : List.idxOf? x.name (List.map (fun x => x.name) ys) <;> simp [h'] at this
      · intro p hp e
        have hne : x.name ≠ y.name := by
          intro e'; apply hx.1; rw [e', ← e]; exact List.mem_map_of_mem hp
        have := h y.name (by simp only [names, List.map_cons, List.mem_cons]; right; rw [← e]; exact List.mem_map_of_mem hp) (by simp [names])
        simp only [names, List.map_cons, List.idxOf?_cons, beq_iff_eq, hne, if_false, if_true] at this
        cases h' : List.idxOf? y.name (List.map (fun x => x.name) xs) <;> simp [h'] at this
      · apply ih ys hx.2 hy.2
        intro n hnx hny
        have hne1 : x.name ≠ n := by intro e; apply hx.1; rw [e]; exact hnx
        have hne2 : y.name ≠ n := by intro e; apply hy.1; rw [e]; exact hny
        have := h n (by simp only [names, List.map_cons, List.mem_cons]; exact .inr hnx)
          (by simp only [names, List.map_cons, List.mem_cons]; exact .inr hny)
        simp only [names, List.map_cons, List.idxOf?_cons, beq_iff_eq, hne1, hne2, if_false] at this
        cases h1 : List.idxOf? n (List.map (fun x => x.name) xs) <;>
          cases h2 : List.idxOf? n (List.map (fun x => x.name) ys) <;>
          simp_all [names]

end SV
