/-
  Lemmas/C01Eval.lean — a tactic that evaluates `merge` on closed inputs by rewriting
  (phase P / phase Q are compiled by well-founded recursion, so `decide`/`rfl` get stuck).
-/
import Sigverif.Props.Defs
namespace SV

macro "merge_eval" : tactic => `(tactic|
  simp [merge, mergeFold, mergeStep, applyParams, validate, validateGo, Kind.rank, Sorted.all,
    sortParams, sortGo, phaseK1, phaseK2, phaseP, phaseQ, mergeUnmatched, addStarargs,
    unbalancedPos, unbalancedPok, bind, Except.bind, pure, Except.pure, concile, copyDepths,
    Param.withKind, addSources, addAllSources, dset, sget, dget, mergeDepths, pget, pset, ppop,
    pupdate, phas])

end SV
