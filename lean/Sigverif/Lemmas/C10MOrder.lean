/-
  Lemmas/C10MOrder.lean — C10 on the result of `merge`: positional parameters keep the relative
  order they have in each (role-consistent) input.  Proved on the abstract transition system of
  Lemmas/LawsSteps.lean (`Steps`) with the alignment predicate `Al` of Lemmas/LawsCnt.lean.
-/
import Sigverif.Lemmas.LawsRoles3
import Sigverif.Lemmas.C01Basic
import Sigverif.Lemmas.C08Fold
namespace SV
set_option linter.unusedSimpArgs false
set_option linter.unusedVariables false

/-- names of the positional part of the buckets -/
def Bk.pn (b : Bk) : List Nat := names (b.pos ++ b.pok)

theorem x10_names_append (a b : List Param) : names (a ++ b) = names a ++ names b := by
  simp [names]

theorem x10_names_mapKind (k : Kind) (l : List Param) : names (l.map (·.withKind k)) = names l := by
  simp [names, List.map_map, Function.comp_def, Param.withKind]

theorem x10_add_pn {e : Param} {b b' : Bk} (h : Add e b b') : b'.pn = b.pn ++ [e.name] ∨ b'.pn = b.pn := by
  cases h with
  | pos hp => left; simp [Bk.pn, hp, x10_names_append, names]
  | pok => left; simp [Bk.pn, x10_names_append, names]
  | kwo => right; rfl
  | flush => left; simp [Bk.pn, x10_names_append, x10_names_mapKind, names]

/-! ### two list facts -/

theorem x10_filter_congr_mem {M : List Nat} {A B : List Nat} (h : ∀ m ∈ M, (m ∈ A ↔ m ∈ B)) :
    M.filter (fun x => decide (x ∈ A)) = M.filter (fun x => decide (x ∈ B)) := by
  apply List.filter_congr
  intro m hm
  simp [h m hm]

/-- the step consumed the head `a` of the chain -/
theorem x10_sub_cons {a : Nat} {A1 E M : List Nat} (ha : a ∉ A1) (hM : ∀ m ∈ M, m ≠ a)
    (hE : E = [] ∨ E = [a] ∨ ∃ e, E = [e] ∧ e ∉ a :: A1)
    (h : (M.filter (fun x => decide (x ∈ A1))).Sublist A1) :
    ((E ++ M).filter (fun x => decide (x ∈ a :: A1))).Sublist (a :: A1) := by
  have hM' : M.filter (fun x => decide (x ∈ a :: A1)) = M.filter (fun x => decide (x ∈ A1)) := by
    apply x10_filter_congr_mem
    intro m hm
    simp [hM m hm]
  rw [List.filter_append, hM']
  rcases hE with rfl | rfl | ⟨e, rfl, he⟩
  · simpa using h.cons a
  · simpa using h.cons_cons a
  · have : decide (e ∈ a :: A1) = false := by simpa using he
    simp only [List.filter_cons, this, List.filter_nil, List.nil_append]
    exact h.cons a

/-- the step did not consume anything of this chain -/
theorem x10_sub_same {A E M : List Nat} (hE : ∀ e ∈ E, e ∉ A)
    (h : (M.filter (fun x => decide (x ∈ A))).Sublist A) :
    ((E ++ M).filter (fun x => decide (x ∈ A))).Sublist A := by
  rw [List.filter_append]
  have : E.filter (fun x => decide (x ∈ A)) = [] := by
    rw [List.filter_eq_nil_iff]
    intro e he
    simpa using hE e he
  rw [this]
  exact h

/-! ### the invariant of a run -/

/-- what a step does to the chains and to the positional names of the buckets -/
theorem x10_step_inv {xs ys xs1 ys1 : List Param} {b b1 : Bk} (s : Step xs ys b xs1 ys1 b1) :
    (∃ lp rp, xs = lp :: xs1 ∧ ys = rp :: ys1 ∧
        (b1.pn = b.pn ++ [lp.name] ∨ b1.pn = b.pn ++ [rp.name] ∨ b1.pn = b.pn)) ∨
    (∃ lp, xs = lp :: xs1 ∧ ys = [] ∧ ys1 = [] ∧ (b1.pn = b.pn ++ [lp.name] ∨ b1.pn = b.pn)) ∨
    (∃ rp, xs = [] ∧ xs1 = [] ∧ ys = rp :: ys1 ∧ (b1.pn = b.pn ++ [rp.name] ∨ b1.pn = b.pn)) := by
  cases s with
  | both lp rp e _ _ _ _ hn hd ha =>
    refine .inl ⟨lp, rp, rfl, rfl, ?_⟩
    rcases x10_add_pn ha with h | h
    · rcases hn with hn | hn
      · exact .inl (by rw [h, hn])
      · exact .inr (.inl (by rw [h, hn]))
    · exact .inr (.inr h)
  | left lp e _ _ _ hn hd ha =>
    refine .inr (.inl ⟨lp, rfl, rfl, rfl, ?_⟩)
    rcases x10_add_pn ha with h | h
    · exact .inl (by rw [h, hn])
    · exact .inr h
  | leftDrop lp _ _ hd => exact .inr (.inl ⟨lp, rfl, rfl, rfl, .inr rfl⟩)
  | leftLimbo lp q e _ _ hq hn => exact .inr (.inl ⟨lp, rfl, rfl, rfl, .inr rfl⟩)
  | right rp e _ _ _ hn hd ha =>
    refine .inr (.inr ⟨rp, rfl, rfl, rfl, ?_⟩)
    rcases x10_add_pn ha with h | h
    · exact .inl (by rw [h, hn])
    · exact .inr h
  | rightDrop rp _ _ hd => exact .inr (.inr ⟨rp, rfl, rfl, rfl, .inr rfl⟩)
  | rightLimbo rp q e _ _ hq hn => exact .inr (.inr ⟨rp, rfl, rfl, rfl, .inr rfl⟩)

/-- the filter/sublist statement about one chain -/
def SubOf (A M : List Nat) : Prop := (M.filter (fun x => decide (x ∈ A))).Sublist A

theorem x10_order_steps {xs ys xs' ys' : List Param} {b b' : Bk}
    (h : Steps xs ys b xs' ys' b') (hal : Al xs ys) (nx : (names xs).Nodup) (ny : (names ys).Nodup) :
    ∃ M, b'.pn = b.pn ++ M ∧ (∀ m ∈ M, m ∈ names xs ∨ m ∈ names ys) ∧
      SubOf (names xs) M ∧ SubOf (names ys) M := by
  induction h with
  | refl => exact ⟨[], by simp, by simp, by simp [SubOf], by simp [SubOf]⟩
  | @head xs0 ys0 xs1 ys1 xs2 ys2 b0 b1 b2 s _ ih =>
    rcases x10_step_inv s with ⟨lp, rp, rfl, rfl, hpn⟩ | ⟨lp, rfl, rfl, rfl, hpn⟩ | ⟨rp, rfl, rfl, rfl, hpn⟩
    · simp only [Al] at hal
      obtain ⟨al1, al2, al3⟩ := hal
      simp only [names, List.map_cons, List.nodup_cons] at nx ny
      obtain ⟨M, e1, e2, e3, e4⟩ := ih al3 nx.2 ny.2
      have hMl : ∀ m ∈ M, m ≠ lp.name := by
        intro m hm e
        rcases e2 m hm with h | h
        · exact nx.1 (e ▸ h)
        · obtain ⟨p, hp, hpn⟩ := mem_names_C01.1 h
          exact al1 p hp (hpn.trans e)
      have hMr : ∀ m ∈ M, m ≠ rp.name := by
        intro m hm e
        rcases e2 m hm with h | h
        · obtain ⟨p, hp, hpn⟩ := mem_names_C01.1 h
          exact al2 p hp (hpn.trans e)
        · exact ny.1 (e ▸ h)
      have hrl : rp.name = lp.name ∨ rp.name ∉ lp.name :: List.map (fun x => x.name) xs1 := by
        by_cases hlr : rp.name = lp.name
        · exact .inl hlr
        · right
          simp only [List.mem_cons, List.mem_map, not_or, not_exists, not_and]
          exact ⟨hlr, fun p hp => al2 p hp⟩
      have hlr : lp.name = rp.name ∨ lp.name ∉ rp.name :: List.map (fun x => x.name) ys1 := by
        by_cases hlr : lp.name = rp.name
        · exact .inl hlr
        · right
          simp only [List.mem_cons, List.mem_map, not_or, not_exists, not_and]
          exact ⟨hlr, fun p hp => al1 p hp⟩
      have hmem : ∀ m ∈ M, m ∈ names (lp :: xs1) ∨ m ∈ names (rp :: ys1) := by
        intro m hm
        rcases e2 m hm with h | h
        · left; simp only [names, List.map_cons, List.mem_cons]; exact .inr h
        · right; simp only [names, List.map_cons, List.mem_cons]; exact .inr h
      rcases hpn with hpn | hpn | hpn
      · refine ⟨[lp.name] ++ M, by rw [e1, hpn, List.append_assoc], ?_, ?_, ?_⟩
        · intro m hm
          rcases List.mem_append.1 hm with hm | hm
          · simp only [List.mem_singleton] at hm
            subst hm; left; simp [names]
          · exact hmem m hm
        · exact x10_sub_cons nx.1 hMl (.inr (.inl rfl)) e3
        · refine x10_sub_cons ny.1 hMr ?_ e4
          rcases hlr with h | h
          · exact .inr (.inl (by rw [h]))
          · exact .inr (.inr ⟨_, rfl, h⟩)
      · refine ⟨[rp.name] ++ M, by rw [e1, hpn, List.append_assoc], ?_, ?_, ?_⟩
        · intro m hm
          rcases List.mem_append.1 hm with hm | hm
          · simp only [List.mem_singleton] at hm
            subst hm; right; simp [names]
          · exact hmem m hm
        · refine x10_sub_cons nx.1 hMl ?_ e3
          rcases hrl with h | h
          · exact .inr (.inl (by rw [h]))
          · exact .inr (.inr ⟨_, rfl, h⟩)
        · exact x10_sub_cons ny.1 hMr (.inr (.inl rfl)) e4
      · refine ⟨M, by rw [e1, hpn], hmem, ?_, ?_⟩
        · exact x10_sub_cons (E := []) nx.1 hMl (.inl rfl) e3
        · exact x10_sub_cons (E := []) ny.1 hMr (.inl rfl) e4
    · simp only [names, List.map_cons, List.nodup_cons] at nx
      obtain ⟨M, e1, e2, e3, e4⟩ := ih (by unfold Al; split <;> trivial) nx.2 ny
      have hMl : ∀ m ∈ M, m ≠ lp.name := by
        intro m hm e
        rcases e2 m hm with h | h
        · exact nx.1 (e ▸ h)
        · simp [names] at h
      have hmem : ∀ m ∈ M, m ∈ names (lp :: xs1) ∨ m ∈ names [] := by
        intro m hm
        rcases e2 m hm with h | h
        · left; simp only [names, List.map_cons, List.mem_cons]; exact .inr h
        · exact .inr h
      rcases hpn with hpn | hpn
      · refine ⟨[lp.name] ++ M, by rw [e1, hpn, List.append_assoc], ?_, ?_, ?_⟩
        · intro m hm
          rcases List.mem_append.1 hm with hm | hm
          · simp only [List.mem_singleton] at hm
            subst hm; left; simp [names]
          · exact hmem m hm
        · exact x10_sub_cons nx.1 hMl (.inr (.inl rfl)) e3
        · simp [SubOf, names]
      · refine ⟨M, by rw [e1, hpn], hmem, ?_, ?_⟩
        · exact x10_sub_cons (E := []) nx.1 hMl (.inl rfl) e3
        · simp [SubOf, names]
    · simp only [names, List.map_cons, List.nodup_cons] at ny
      obtain ⟨M, e1, e2, e3, e4⟩ := ih (by simp [Al]) nx ny.2
      have hMr : ∀ m ∈ M, m ≠ rp.name := by
        intro m hm e
        rcases e2 m hm with h | h
        · simp [names] at h
        · exact ny.1 (e ▸ h)
      have hmem : ∀ m ∈ M, m ∈ names [] ∨ m ∈ names (rp :: ys1) := by
        intro m hm
        rcases e2 m hm with h | h
        · exact .inl h
        · right; simp only [names, List.map_cons, List.mem_cons]; exact .inr h
      rcases hpn with hpn | hpn
      · refine ⟨[rp.name] ++ M, by rw [e1, hpn, List.append_assoc], ?_, ?_, ?_⟩
        · intro m hm
          rcases List.mem_append.1 hm with hm | hm
          · simp only [List.mem_singleton] at hm
            subst hm; right; simp [names]
          · exact hmem m hm
        · simp [SubOf, names]
        · exact x10_sub_cons ny.1 hMr (.inr (.inl rfl)) e4
      · refine ⟨M, by rw [e1, hpn], hmem, ?_, ?_⟩
        · simp [SubOf, names]
        · exact x10_sub_cons (E := []) ny.1 hMr (.inl rfl) e4

/-! ### one merge step of two role-consistent signatures, and `merge [a, b]` -/

theorem x10_mergeStep_order (a b : USig) (ha : WF a.params) (hb : WF b.params)
    (hrc : roleCons [a.params, b.params]) (s : Sorted)
    (hs : mergeStep (sortParams a) (sortParams b) = .ok s) :
    SubOf (names (positionals a.params)) (names (s.pos ++ s.pok)) ∧
    SubOf (names (positionals b.params)) (names (s.pos ++ s.pok)) := by
  obtain ⟨st1, st2, st3, st4, il, ir, h1, h2, h3, h4, hsdef⟩ := mergeStep_ok _ _ _ hs
  rw [← chain_eq_positionals a ha, ← chain_eq_positionals b hb]
  have nL := nodup_chain a ha
  have nR := nodup_chain b hb
  have hal : Al ((sortParams a).pos ++ (sortParams a).pok) ((sortParams b).pos ++ (sortParams b).pok) := by
    apply Al_of_idx _ _ nL nR
    intro n mL mR
    have mL' := mem_names_of_chain a ha n mL
    have mR' := mem_names_of_chain b hb n mR
    have := (hrc a.params (by simp) b.params (by simp) n mL' mR').2
    unfold posIndex at this
    rw [← chain_eq_positionals a ha, ← chain_eq_positionals b hb] at this
    exact this
  generalize hL : sortParams a = L at *
  generalize hR : sortParams b = R at *
  generalize hst0 : ({ vaL := L.va.isSome, vaR := R.va.isSome, vkL := L.vk.isSome,
                       vkR := R.vk.isSome } : MState) = st0 at h1
  have hst0pos : st0.pos = [] := by rw [← hst0]
  have hst0pok : st0.pok = [] := by rw [← hst0]
  generalize hstK : phaseK2 L R.kwo (phaseK1 L R L.kwo st0) = stK at h1
  have kpos : stK.pos = [] := by
    rw [← hstK, (phaseK2_cnt L R.kwo _ 0).1, (phaseK1_cnt L R L.kwo st0 0).1, hst0pos]
  have kpok : stK.pok = [] := by
    rw [← hstK, (phaseK2_cnt L R.kwo _ 0).2.1, (phaseK1_cnt L R L.kwo st0 0).2.1, hst0pok]
  have steps : Steps (L.pos ++ L.pok) (R.pos ++ R.pok) stK.bk [] [] st2.bk :=
    (run_P L R _ _ _ _ _ _ _ _ kpok h1).trans (run_Q L R _ _ _ _ h2)
  obtain ⟨M, e1, _, e3, e4⟩ := x10_order_steps steps hal nL nR
  have u3 := mergeUnmatched_spec .L L R st2 st3 h3 0
  have u4 := mergeUnmatched_spec .R L R st3 st4 h4 0
  have spos : s.pos = st2.pos := by rw [hsdef]; exact u4.1.trans u3.1
  have spok : s.pok = st2.pok := by rw [hsdef]; exact u4.2.1.trans u3.2.1
  have hM : names (s.pos ++ s.pok) = M := by
    rw [spos, spok]
    have : stK.bk.pn = [] := by simp [Bk.pn, MState.bk, kpos, kpok, names]
    rw [this, List.nil_append] at e1
    exact e1
  rw [hM]
  exact ⟨e3, e4⟩

theorem merge_pos_order_pair' (a b R : USig) (ha : WF a.params) (hb : WF b.params)
    (hrc : roleCons [a.params, b.params]) (hR : merge [a, b] = .ok R) :
    ∀ s ∈ [a, b],
      ((names (positionals R.params)).filter (fun x => x ∈ names (positionals s.params))).Sublist
        (names (positionals s.params)) := by
  simp only [merge, mergeFold, bind, Except.bind] at hR
  cases hs : mergeStep (sortParams a) (sortParams b) with
  | error e' => rw [hs] at hR; cases hR
  | ok res =>
    rw [hs] at hR
    simp only at hR
    have hbk := mergeStep_bucketKinds' _ _ _ (sortParams_bucketKinds a) (sortParams_bucketKinds b) hs
    have hp : positionals R.params = res.pos ++ res.pok := by
      rw [(applyParams_ok_C08 hR).1, positionals_all_Laws _ hbk]
    obtain ⟨o1, o2⟩ := x10_mergeStep_order a b ha hb hrc res hs
    intro s hs'
    simp only [List.mem_cons, List.mem_nil_iff, or_false] at hs'
    rw [hp]
    rcases hs' with rfl | rfl
    · exact o1
    · exact o2

end SV
