/-
  Lemmas/C01Sort.lean — what `validate` guarantees and what `sortParams` computes.
-/
import Sigverif.Lemmas.C01Mono
namespace SV

/-! ### `validate` -/

theorem validateGo_nodup {top : Nat} {sd : Bool} {seen : List Nat} {ps : List Param}
    (h : validateGo top sd seen ps = .ok ()) :
    (names ps).Nodup ∧ ∀ x ∈ names ps, x ∉ seen := by
  induction ps generalizing top sd seen with
  | nil => simp
  | cons p ps ih =>
    simp only [validateGo] at h
    split at h
    · cases h
    · split at h
      · cases h
      · split at h
        · cases h
        · next hs =>
          obtain ⟨i1, i2⟩ := ih h
          have hs' : p.name ∉ seen := by simpa using hs
          simp only [names_cons_C01, List.nodup_cons, List.mem_cons, forall_eq_or_imp]
          refine ⟨⟨?_, i1⟩, hs', ?_⟩
          · intro hm; exact i2 _ hm List.mem_cons_self
          · intro x hx hx'; exact i2 x hx (List.mem_cons_of_mem _ hx')

theorem validate_nodup_C01 {ps : List Param} (h : validate ps = .ok ()) : (names ps).Nodup :=
  (validateGo_nodup h).1

/-- optional parameters are followed by optional parameters only -/
def OptSuffix (ps : List Param) : Prop :=
  ps.Pairwise (fun p q => p.required = false → q.required = false)

theorem validateGo_suffix {top : Nat} {sd : Bool} {seen : List Nat} {ps : List Param}
    (h : validateGo top sd seen ps = .ok ()) :
    (sd = true → ∀ p ∈ positionals ps, p.required = false) ∧ OptSuffix (positionals ps) := by
  induction ps generalizing top sd seen with
  | nil => simp [positionals, OptSuffix]
  | cons p ps ih =>
    simp only [validateGo] at h
    split at h
    · cases h
    · split at h
      · cases h
      · next hreq =>
        split at h
        · cases h
        · obtain ⟨i1, i2⟩ := ih h
          have hpos : isPositional p = (p.kind = .po || p.kind = .pk) := by
            simp [isPositional]
          by_cases hp : (p.kind = .po || p.kind = .pk) = true
          · have e : positionals (p :: ps) = p :: positionals ps := by
              simp only [positionals, List.filter_cons, hpos]; simp only [hp, if_true]
            rw [e]
            have hr := required_iff p
            refine ⟨?_, ?_⟩
            · intro hsd q hq
              rcases List.mem_cons.1 hq with rfl | hq
              · cases hq' : q.required
                · rfl
                · exfalso; apply hreq
                  have : q.dflt.isNone = true := by
                    cases hd : q.dflt <;> simp_all
                  simp only [hp, this, hsd, Bool.and_self]
              · exact i1 (by simp [hsd]) q hq
            · refine List.pairwise_cons.2 ⟨?_, i2⟩
              intro q hq hpo
              apply i1 _ q hq
              have : p.dflt.isSome = true := by
                cases hd : p.dflt <;> simp_all
              simp only [hp, this, Bool.and_self, Bool.or_true]
          · have e : positionals (p :: ps) = positionals ps := by
              simp only [positionals, List.filter_cons, hpos]; simp only [hp]; simp
            rw [e]
            refine ⟨?_, i2⟩
            intro hsd
            apply i1
            simp [hsd]

theorem validate_suffix {ps : List Param} (h : validate ps = .ok ()) : OptSuffix (positionals ps) :=
  (validateGo_suffix h).2

theorem validOk_iff_C01 {ps : List Param} : validOk ps = true ↔ validate ps = .ok () := by
  unfold validOk
  cases h : validate ps <;> simp

/-! ### `sortParams` -/

theorem sortGo_pos_C01 (ps : List Param) (acc : Sorted) :
    (sortGo ps acc).pos = acc.pos ++ ps.filter (fun p => p.kind = .po) := by
  induction ps generalizing acc with
  | nil => simp [sortGo]
  | cons p ps ih =>
    rw [sortGo, ih]
    cases hk : p.kind <;> simp [List.filter_cons, hk]

theorem sortGo_pok_C01 (ps : List Param) (acc : Sorted) :
    (sortGo ps acc).pok = acc.pok ++ ps.filter (fun p => p.kind = .pk) := by
  induction ps generalizing acc with
  | nil => simp [sortGo]
  | cons p ps ih =>
    rw [sortGo, ih]
    cases hk : p.kind <;> simp [List.filter_cons, hk]

theorem sortGo_kwo_C01 (ps : List Param) (acc : Sorted)
    (hn : (names (acc.kwo ++ ps.filter (fun p => p.kind = .ko))).Nodup) :
    (sortGo ps acc).kwo = acc.kwo ++ ps.filter (fun p => p.kind = .ko) := by
  induction ps generalizing acc with
  | nil => simp [sortGo]
  | cons p ps ih =>
    rw [sortGo]
    cases hk : p.kind
    case ko =>
      simp only [List.filter_cons, hk, decide_true, if_true] at hn ⊢
      have hfresh : p.name ∉ names acc.kwo := by
        simp only [names_append_C01, names_cons_C01, List.nodup_append] at hn
        intro hm; exact hn.2.2 _ hm _ List.mem_cons_self rfl
      rw [ih]
      · simp [pset_of_not_mem_C01 hfresh]
      · simpa [pset_of_not_mem_C01 hfresh] using hn
    all_goals
      simp only [List.filter_cons, hk, reduceCtorEq, decide_false, Bool.false_eq_true,
        if_false] at hn ⊢
      exact ih _ hn

theorem sortGo_va_C01 (ps : List Param) (acc : Sorted) :
    (sortGo ps acc).va.isSome = (acc.va.isSome || hasVa ps) ∧
    ∀ p, (sortGo ps acc).va = some p → acc.va = some p ∨ p.kind = .vp := by
  induction ps generalizing acc with
  | nil => simp only [sortGo, hasVa, List.any_nil, Bool.or_false, true_and]; exact fun p h => Or.inl h
  | cons p ps ih =>
    rw [sortGo]
    cases hk : p.kind <;> simp only <;> refine ⟨?_, ?_⟩
    case vp.refine_1 => rw [(ih _).1]; simp [hasVa, hk]
    case vp.refine_2 =>
      intro q hq
      rcases (ih _).2 q hq with h | h
      · simp only [Option.some.injEq] at h; exact Or.inr (h ▸ hk)
      · exact Or.inr h
    all_goals first
      | (rw [(ih _).1]; simp [hasVa, hk]; done)
      | (intro q hq; have h := (ih _).2 q hq; exact h)

theorem sortGo_vk_C01 (ps : List Param) (acc : Sorted) :
    (sortGo ps acc).vk.isSome = (acc.vk.isSome || hasVk ps) ∧
    ∀ p, (sortGo ps acc).vk = some p → acc.vk = some p ∨ p.kind = .vk := by
  induction ps generalizing acc with
  | nil => simp only [sortGo, hasVk, List.any_nil, Bool.or_false, true_and]; exact fun p h => Or.inl h
  | cons p ps ih =>
    rw [sortGo]
    cases hk : p.kind <;> simp only <;> refine ⟨?_, ?_⟩
    case vk.refine_1 => rw [(ih _).1]; simp [hasVk, hk]
    case vk.refine_2 =>
      intro q hq
      rcases (ih _).2 q hq with h | h
      · simp only [Option.some.injEq] at h; exact Or.inr (h ▸ hk)
      · exact Or.inr h
    all_goals first
      | (rw [(ih _).1]; simp [hasVk, hk]; done)
      | (intro q hq; have h := (ih _).2 q hq; exact h)

end SV
