/-
  Lemmas/C11TBasic.lean — metadata maps on parameters and their commutation with the dictionary
  operations, `sort_params`, `apply_params` and the signature validation.

  A metadata map `f : Param → Param` keeps name, kind and default of every parameter (it may
  rewrite the annotation pair in any way).  The control flow of the algebra only looks at names,
  kinds and defaults, so every operation commutes with mapping `f` over its inputs as soon as `f`
  commutes with `_concile_meta` on the parameters that can occur.
-/
import Sigverif.Lemmas.Forall
namespace SV
set_option linter.unusedSimpArgs false
set_option linter.unusedVariables false

/-- a metadata map: keeps name, kind, default (and commutes with `replace(kind=…)`,
    `replace(default=…)`) -/
structure MetaMap (f : Param → Param) : Prop where
  name : ∀ p, (f p).name = p.name
  kind : ∀ p, (f p).kind = p.kind
  dflt : ∀ p, (f p).dflt = p.dflt
  withKind : ∀ p k, f (p.withKind k) = (f p).withKind k
  withDflt : ∀ p d, f (p.withDflt d) = (f p).withDflt d

/-- map `f` over the parameters of a signature; provenance (`src`, `depths`) and the
    signature-level return annotation (`ret`, `uret`) are left untouched -/
def mapSig (f : Param → Param) (s : USig) : USig := { s with params := s.params.map f }

def mapSorted (f : Param → Param) (s : Sorted) : Sorted :=
  { s with pos := s.pos.map f, pok := s.pok.map f, va := s.va.map f, kwo := s.kwo.map f,
           vk := s.vk.map f }

def mapSt (f : Param → Param) (st : MState) : MState :=
  { st with pos := st.pos.map f, pok := st.pok.map f, kwo := st.kwo.map f,
            lUn := st.lUn.map f, rUn := st.rUn.map f }

section
variable {f : Param → Param}

@[simp] theorem mapSorted_pos (s : Sorted) : (mapSorted f s).pos = s.pos.map f := rfl
@[simp] theorem mapSorted_pok (s : Sorted) : (mapSorted f s).pok = s.pok.map f := rfl
@[simp] theorem mapSorted_va (s : Sorted) : (mapSorted f s).va = s.va.map f := rfl
@[simp] theorem mapSorted_kwo (s : Sorted) : (mapSorted f s).kwo = s.kwo.map f := rfl
@[simp] theorem mapSorted_vk (s : Sorted) : (mapSorted f s).vk = s.vk.map f := rfl
@[simp] theorem mapSorted_src (s : Sorted) : (mapSorted f s).src = s.src := rfl
@[simp] theorem mapSorted_depths (s : Sorted) : (mapSorted f s).depths = s.depths := rfl

theorem x11_pget_map (hf : MetaMap f) (d : List Param) (k : Nat) :
    pget (d.map f) k = (pget d k).map f := by
  induction d with
  | nil => rfl
  | cons q t ih =>
    simp only [pget, List.map_cons, List.find?_cons, hf.name] at ih ⊢
    split
    · rfl
    · exact ih

theorem x11_phas_map (hf : MetaMap f) (d : List Param) (k : Nat) :
    phas (d.map f) k = phas d k := by
  induction d with
  | nil => rfl
  | cons q t ih =>
    simp only [phas, List.map_cons, List.any_cons, hf.name] at ih ⊢
    rw [ih]

theorem x11_pset_map (hf : MetaMap f) (d : List Param) (p : Param) :
    pset (d.map f) (f p) = (pset d p).map f := by
  induction d with
  | nil => rfl
  | cons q t ih =>
    simp only [pset, List.map_cons, hf.name]
    split
    · rfl
    · rw [ih]; rfl

theorem x11_ppop_map (hf : MetaMap f) (d : List Param) (k : Nat) :
    ppop (d.map f) k = (ppop d k).map f := by
  induction d with
  | nil => rfl
  | cons q t ih =>
    simp only [ppop, List.map_cons, List.filter_cons, hf.name] at ih ⊢
    split
    · rw [List.map_cons, ih]
    · exact ih

theorem x11_pupdate_map (hf : MetaMap f) (d e : List Param) :
    pupdate (d.map f) (e.map f) = (pupdate d e).map f := by
  induction e generalizing d with
  | nil => rfl
  | cons q t ih =>
    simp only [pupdate, List.map_cons, List.foldl_cons] at ih ⊢
    rw [x11_pset_map hf, ih]

theorem x11_names_map (hf : MetaMap f) (ps : List Param) : names (ps.map f) = names ps := by
  simp only [names, List.map_map]
  apply List.map_congr_left
  intro p _
  exact hf.name p

theorem x11_validateGo_map (hf : MetaMap f) (top : Nat) (sd : Bool) (seen : List Nat) (ps : List Param) :
    validateGo top sd seen (ps.map f) = validateGo top sd seen ps := by
  induction ps generalizing top sd seen with
  | nil => rfl
  | cons p ps ih =>
    simp only [List.map_cons, validateGo, hf.name, hf.kind, hf.dflt, ih]

theorem x11_validate_map (hf : MetaMap f) (ps : List Param) : validate (ps.map f) = validate ps :=
  x11_validateGo_map hf _ _ _ _

theorem x11_all_map (s : Sorted) : (mapSorted f s).all = s.all.map f := by
  simp only [Sorted.all, mapSorted, List.map_append]
  cases s.va <;> cases s.vk <;> rfl

theorem x11_sortGo_map (hf : MetaMap f) (ps : List Param) (s : Sorted) :
    sortGo (ps.map f) (mapSorted f s) = mapSorted f (sortGo ps s) := by
  induction ps generalizing s with
  | nil => rfl
  | cons p ps ih =>
    simp only [List.map_cons, sortGo, hf.kind]
    rw [← ih]
    congr 1
    cases p.kind <;> simp only [mapSorted, List.map_append, List.map_cons, List.map_nil, Option.map_some,
      x11_pset_map hf]

theorem x11_sortParams_map (hf : MetaMap f) (sig : USig) :
    sortParams (mapSig f sig) = mapSorted f (sortParams sig) := by
  unfold sortParams
  rw [← x11_sortGo_map hf]
  rfl

theorem x11_applyParams_map (hf : MetaMap f) (sig : USig) (s : Sorted) :
    applyParams (mapSig f sig) (mapSorted f s) = (applyParams sig s).map (mapSig f) := by
  unfold applyParams
  simp only [bind, Except.bind, x11_all_map, x11_validate_map hf]
  cases validate s.all <;> rfl

theorem x11_mapSig_params (sig : USig) : (mapSig f sig).params = sig.params.map f := rfl

end
end SV
