/-
  Lemmas/C01QStep.lean — one iteration of phase Q (`zip_longest` over the remaining
  positional-or-keyword parameters) preserves `NInv`, `SInv` and is `QMono`.
-/
import Sigverif.Lemmas.C01Mono
namespace SV
variable {l r : Sorted} {lp rp x : Param} {ls rs : List Param} {st st' : MState}

set_option hygiene false in
/-- normalise a goal about the new state using the `Upd` equations `h1 … h5` -/
macro "qm_simp" : tactic => `(tactic|
  simp only [h1, h2, h3, h4, h5, wgt, mlen, Wit, WitK, reqCount_append, reqCount_cons,
    reqCount_singleton, reqCount_nil,
    reqCount_map_withKind, concile_required, withKind_required_C01, concile_name_C01, withKind_name_C01,
    List.length_append, List.length_cons, List.length_nil, List.length_map,
    hasReq_append, hasReq_cons, hasReq_nil, anyReq_append, anyReq_cons, anyReq_nil,
    anyReq_map_withKind, Bool.or_eq_true])

set_option hygiene false in
macro "qs_simp" : tactic => `(tactic|
  simp only [h1, h2, h3, h4, h5, List.mem_append, List.mem_cons, List.mem_map, List.not_mem_nil,
    or_false, false_or, concile_kind_C01, concile_name_C01, withKind_kind_C01, withKind_name_C01, forall_eq_or_imp,
    mem_ppop_C01] at *)

/-! ### paired, same name -/

theorem q_match_N (hn : lp.name = rp.name)
    (hu : Upd st' st.pos (st.pok ++ [concile lp rp]) st.kwo st.lUn st.rUn)
    (h : NInv (lp :: ls) (rp :: rs) st) : NInv ls rs st' := by
  obtain ⟨h1, h2, h3, h4, h5⟩ := hu
  obtain ⟨nl, nr, nu⟩ := h
  constructor
  · rw [h2, h3, h4]; simp [List.nodup_append] at nl ⊢; grind
  · rw [h2, h3, h5]; simp [List.nodup_append] at nr ⊢; grind
  · rw [h4, h5]; exact nu

theorem q_match_M (hn : lp.name = rp.name)
    (hu : Upd st' st.pos (st.pok ++ [concile lp rp]) st.kwo st.lUn st.rUn) :
    QMono l r (lp :: ls) (rp :: rs) st ls rs st' := by
  obtain ⟨h1, h2, h3, h4, h5⟩ := hu
  constructor
  all_goals (try intro x); qm_simp
  all_goals grind

theorem q_match_S (bl : BucketKinds l) (br : BucketKinds r) (hn : lp.name = rp.name)
    (hu : Upd st' st.pos (st.pok ++ [concile lp rp]) st.kwo st.lUn st.rUn)
    (h : SInv l r (lp :: ls) (rp :: rs) st) : SInv l r ls rs st' := by
  obtain ⟨h1, h2, h3, h4, h5⟩ := hu
  obtain ⟨a1, a2, a3, a4, a5, a6, a7⟩ := h
  have k1 := bl.pok lp (a1 lp List.mem_cons_self)
  have n1 := mem_names_of_mem_C01 (a1 lp List.mem_cons_self)
  have n2 := mem_names_of_mem_C01 (a2 rp List.mem_cons_self)
  constructor <;> qs_simp <;> try grind
  intro p hp
  rcases hp with hp | rfl
  · exact a6 p hp
  · exact ⟨k1, Or.inl n1, Or.inl (hn ▸ n2)⟩

/-! ### paired, different names: flush to positional-only -/

theorem q_mis_N
    (hu : Upd st' (st.pos ++ st.pok.map (·.withKind .po) ++ [(concile lp rp).withKind .po]) []
      st.kwo st.lUn st.rUn)
    (h : NInv (lp :: ls) (rp :: rs) st) : NInv ls rs st' := by
  obtain ⟨h1, h2, h3, h4, h5⟩ := hu
  obtain ⟨nl, nr, nu⟩ := h
  constructor
  · rw [h2, h3, h4]; simp [List.nodup_append] at nl ⊢; grind
  · rw [h2, h3, h5]; simp [List.nodup_append] at nr ⊢; grind
  · rw [h4, h5]; exact nu

theorem q_mis_M
    (hu : Upd st' (st.pos ++ st.pok.map (·.withKind .po) ++ [(concile lp rp).withKind .po]) []
      st.kwo st.lUn st.rUn) :
    QMono l r (lp :: ls) (rp :: rs) st ls rs st' := by
  obtain ⟨h1, h2, h3, h4, h5⟩ := hu
  constructor
  all_goals (try intro x); qm_simp
  all_goals grind [hasReq_anyReq]

theorem q_mis_S
    (hu : Upd st' (st.pos ++ st.pok.map (·.withKind .po) ++ [(concile lp rp).withKind .po]) []
      st.kwo st.lUn st.rUn)
    (h : SInv l r (lp :: ls) (rp :: rs) st) : SInv l r ls rs st' := by
  obtain ⟨h1, h2, h3, h4, h5⟩ := hu
  obtain ⟨a1, a2, a3, a4, a5, a6, a7⟩ := h
  constructor <;> qs_simp <;> grind [withKind_kind_C01]

/-! ### left-over on the left -/

theorem q_left_N (h : unbalancedPok .L l r x st = .ok st') (hN : NInv (x :: ls) [] st) :
    NInv ls [] st' := by
  obtain ⟨nl, nr, nu⟩ := hN
  have hfresh : x.name ∉ names st.kwo := by simp [List.nodup_append] at nl; grind
  rcases unbalancedPok_L_inv h with ⟨q, hq, h1, h2, h3, h4, h5⟩ | ⟨hq, -, -, h1, h2, h3, h4, h5⟩ |
    ⟨hq, -, h1, h2, h3, h4, h5⟩ | ⟨hq, -, h1, h2, h3, h4, h5⟩ | ⟨hq, -, -, -, h1, h2, h3, h4, h5⟩
  · rw [pset_of_not_mem_C01 (by simpa using hfresh)] at h3
    have := @nodup_names_ppop st.rUn x.name
    have := mem_names_of_mem_C01 (pget_some_C01 hq).1
    have := (pget_some_C01 hq).2
    constructor
    · rw [h2, h3, h4]; simp [List.nodup_append] at nl ⊢; grind
    · rw [h2, h3, h5]; simp [List.nodup_append, mem_names_ppop_C01] at nl nr ⊢; grind
    · rw [h4, h5]; simp only [mem_names_ppop_C01]; grind
  · rw [pget_eq_none_C01] at hq
    constructor
    · rw [h2, h3, h4]; simp [List.nodup_append] at nl ⊢; grind
    · rw [h2, h3, h5]; simp [List.nodup_append] at nl nr ⊢; grind
    · rw [h4, h5]; exact nu
  · rw [pset_of_not_mem_C01 (by simpa using hfresh)] at h3
    rw [pget_eq_none_C01] at hq
    constructor
    · rw [h2, h3, h4]; simp [List.nodup_append] at nl ⊢; grind
    · rw [h2, h3, h5]; simp [List.nodup_append] at nl nr ⊢; grind
    · rw [h4, h5]; exact nu
  · constructor
    · rw [h2, h3, h4]; simp [List.nodup_append] at nl ⊢; grind
    · rw [h2, h3, h5]; simp [List.nodup_append] at nl nr ⊢; grind
    · rw [h4, h5]; exact nu
  · constructor
    · rw [h2, h3, h4]; simp [List.nodup_append] at nl ⊢; grind
    · rw [h2, h3, h5]; simp [List.nodup_append] at nl nr ⊢; grind
    · rw [h4, h5]; exact nu

theorem q_left_M (h : unbalancedPok .L l r x st = .ok st') (hN : NInv (x :: ls) [] st) :
    QMono l r (x :: ls) [] st ls [] st' := by
  obtain ⟨nl, nr, nu⟩ := hN
  have hfresh : x.name ∉ names st.kwo := by simp [List.nodup_append] at nl; grind
  have hx := required_iff x
  rcases unbalancedPok_L_inv h with ⟨q, hq, h1, h2, h3, h4, h5⟩ | ⟨hq, hva, -, h1, h2, h3, h4, h5⟩ |
    ⟨hq, -, h1, h2, h3, h4, h5⟩ | ⟨hq, hva, h1, h2, h3, h4, h5⟩ | ⟨hq, -, -, hd, h1, h2, h3, h4, h5⟩
  · rw [pset_of_not_mem_C01 (by simpa using hfresh)] at h3
    have hnr : (names st.rUn).Nodup := by simp [List.nodup_append] at nr; grind
    have hh := hasReq_of_pget hnr hq
    constructor
    all_goals (try intro y); qm_simp
    all_goals (try simp only [hasReq_ppop])
    all_goals grind
  · constructor
    all_goals (try intro y); qm_simp
    all_goals grind
  · rw [pset_of_not_mem_C01 (by simpa using hfresh)] at h3
    constructor
    all_goals (try intro y); qm_simp
    all_goals grind
  · constructor
    all_goals (try intro y); qm_simp
    all_goals grind [hasReq_anyReq]
  · constructor
    all_goals (try intro y); qm_simp
    all_goals grind

theorem q_left_S (bl : BucketKinds l) (h : unbalancedPok .L l r x st = .ok st')
    (hS : SInv l r (x :: ls) [] st) : SInv l r ls [] st' := by
  obtain ⟨a1, a2, a3, a4, a5, a6, a7⟩ := hS
  have k1 := bl.pok x (a1 x List.mem_cons_self)
  have n1 := mem_names_of_mem_C01 (a1 x List.mem_cons_self)
  have hps : ∀ c, ∀ p ∈ pset st.kwo c, p ∈ st.kwo ∨ p = c := fun c p => mem_pset_C01
  rcases unbalancedPok_L_inv h with ⟨q, hq, h1, h2, h3, h4, h5⟩ | ⟨hq, hva, hvk, h1, h2, h3, h4, h5⟩ |
    ⟨hq, hvk, h1, h2, h3, h4, h5⟩ | ⟨hq, hva, h1, h2, h3, h4, h5⟩ | ⟨hq, -, -, hd, h1, h2, h3, h4, h5⟩
  · have n2 := mem_names_of_mem_C01 (a4 q (pget_some_C01 hq).1)
    have := (pget_some_C01 hq).2
    constructor <;> qs_simp <;> try grind
    intro p hp
    rcases hps _ p hp with hp | rfl
    · exact a7 p hp
    · exact ⟨rfl, Or.inl n1, Or.inr (Or.inl (by simpa [this] using n2))⟩
  · constructor <;> qs_simp <;> try grind
    intro p hp
    rcases hp with hp | rfl
    · exact a6 p hp
    · exact ⟨k1, Or.inl n1, Or.inr (Or.inr hvk)⟩
  · constructor <;> qs_simp <;> try grind
    intro p hp
    rcases hps _ p hp with hp | rfl
    · exact a7 p hp
    · exact ⟨rfl, Or.inl n1, Or.inr (Or.inr hvk)⟩
  · constructor <;> qs_simp <;> grind [withKind_kind_C01]
  · constructor <;> qs_simp <;> grind

/-! ### left-over on the right -/

theorem q_right_N (h : unbalancedPok .R l r x st = .ok st') (hN : NInv [] (x :: rs) st) :
    NInv [] rs st' := by
  obtain ⟨nl, nr, nu⟩ := hN
  have hfresh : x.name ∉ names st.kwo := by simp [List.nodup_append] at nr; grind
  rcases unbalancedPok_R_inv h with ⟨q, hq, h1, h2, h3, h4, h5⟩ | ⟨hq, -, -, h1, h2, h3, h4, h5⟩ |
    ⟨hq, -, h1, h2, h3, h4, h5⟩ | ⟨hq, -, h1, h2, h3, h4, h5⟩ | ⟨hq, -, -, -, h1, h2, h3, h4, h5⟩
  · rw [pset_of_not_mem_C01 (by simpa using hfresh)] at h3
    have := @nodup_names_ppop st.lUn x.name
    have := mem_names_of_mem_C01 (pget_some_C01 hq).1
    have := (pget_some_C01 hq).2
    constructor
    · rw [h2, h3, h4]; simp [List.nodup_append, mem_names_ppop_C01] at nl nr ⊢; grind
    · rw [h2, h3, h5]; simp [List.nodup_append] at nr ⊢; grind
    · rw [h4, h5]; simp only [mem_names_ppop_C01]; grind
  · rw [pget_eq_none_C01] at hq
    constructor
    · rw [h2, h3, h4]; simp [List.nodup_append] at nl nr ⊢; grind
    · rw [h2, h3, h5]; simp [List.nodup_append] at nr ⊢; grind
    · rw [h4, h5]; exact nu
  · rw [pset_of_not_mem_C01 (by simpa using hfresh)] at h3
    rw [pget_eq_none_C01] at hq
    constructor
    · rw [h2, h3, h4]; simp [List.nodup_append] at nl nr ⊢; grind
    · rw [h2, h3, h5]; simp [List.nodup_append] at nr ⊢; grind
    · rw [h4, h5]; exact nu
  · constructor
    · rw [h2, h3, h4]; simp [List.nodup_append] at nl nr ⊢; grind
    · rw [h2, h3, h5]; simp [List.nodup_append] at nr ⊢; grind
    · rw [h4, h5]; exact nu
  · constructor
    · rw [h2, h3, h4]; simp [List.nodup_append] at nl nr ⊢; grind
    · rw [h2, h3, h5]; simp [List.nodup_append] at nr ⊢; grind
    · rw [h4, h5]; exact nu

theorem q_right_M (h : unbalancedPok .R l r x st = .ok st') (hN : NInv [] (x :: rs) st) :
    QMono l r [] (x :: rs) st [] rs st' := by
  obtain ⟨nl, nr, nu⟩ := hN
  have hfresh : x.name ∉ names st.kwo := by simp [List.nodup_append] at nr; grind
  have hx := required_iff x
  rcases unbalancedPok_R_inv h with ⟨q, hq, h1, h2, h3, h4, h5⟩ | ⟨hq, hva, -, h1, h2, h3, h4, h5⟩ |
    ⟨hq, -, h1, h2, h3, h4, h5⟩ | ⟨hq, hva, h1, h2, h3, h4, h5⟩ | ⟨hq, -, -, hd, h1, h2, h3, h4, h5⟩
  · rw [pset_of_not_mem_C01 (by simpa using hfresh)] at h3
    have hnr : (names st.lUn).Nodup := by simp [List.nodup_append] at nl; grind
    have hh := hasReq_of_pget hnr hq
    constructor
    all_goals (try intro y); qm_simp
    all_goals (try simp only [hasReq_ppop])
    all_goals grind
  · constructor
    all_goals (try intro y); qm_simp
    all_goals grind
  · rw [pset_of_not_mem_C01 (by simpa using hfresh)] at h3
    constructor
    all_goals (try intro y); qm_simp
    all_goals grind
  · constructor
    all_goals (try intro y); qm_simp
    all_goals grind [hasReq_anyReq]
  · constructor
    all_goals (try intro y); qm_simp
    all_goals grind

theorem q_right_S (br : BucketKinds r) (h : unbalancedPok .R l r x st = .ok st')
    (hS : SInv l r [] (x :: rs) st) : SInv l r [] rs st' := by
  obtain ⟨a1, a2, a3, a4, a5, a6, a7⟩ := hS
  have k1 := br.pok x (a2 x List.mem_cons_self)
  have n1 := mem_names_of_mem_C01 (a2 x List.mem_cons_self)
  have hps : ∀ c, ∀ p ∈ pset st.kwo c, p ∈ st.kwo ∨ p = c := fun c p => mem_pset_C01
  rcases unbalancedPok_R_inv h with ⟨q, hq, h1, h2, h3, h4, h5⟩ | ⟨hq, hva, hvk, h1, h2, h3, h4, h5⟩ |
    ⟨hq, hvk, h1, h2, h3, h4, h5⟩ | ⟨hq, hva, h1, h2, h3, h4, h5⟩ | ⟨hq, -, -, hd, h1, h2, h3, h4, h5⟩
  · have n2 := mem_names_of_mem_C01 (a3 q (pget_some_C01 hq).1)
    have := (pget_some_C01 hq).2
    constructor <;> qs_simp <;> try grind
    intro p hp
    rcases hps _ p hp with hp | rfl
    · exact a7 p hp
    · exact ⟨rfl, Or.inr (Or.inl (by simpa [this] using n2)), Or.inl n1⟩
  · constructor <;> qs_simp <;> try grind
    intro p hp
    rcases hp with hp | rfl
    · exact a6 p hp
    · exact ⟨k1, Or.inr (Or.inr hvk), Or.inl n1⟩
  · constructor <;> qs_simp <;> try grind
    intro p hp
    rcases hps _ p hp with hp | rfl
    · exact a7 p hp
    · exact ⟨rfl, Or.inr (Or.inr hvk), Or.inl n1⟩
  · constructor <;> qs_simp <;> grind [withKind_kind_C01]
  · constructor <;> qs_simp <;> grind

end SV
