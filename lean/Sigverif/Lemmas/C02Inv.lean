/-
  Lemmas/C02Inv.lean — inversion of `embed uva uvk [o, i]` into the closed forms; `embed_bare`.
-/
import Sigverif.Lemmas.C02Fold
namespace SV

theorem embedStepC_ok {O I r : Sorted} {uva uvk : Bool} (h : embedStepC O I uva uvk = .ok r) :
    ∃ i' r', mergeStars I (if uva then O.va else none) (if uvk then O.vk else none) = .ok i' ∧
      embedTailC O i' uva uvk = .ok r' ∧ r = eraseMeta r' := by
  unfold embedStepC at h
  cases hm : mergeStars I (if uva then O.va else none) (if uvk then O.vk else none) with
  | error e => rw [hm] at h; cases h
  | ok b =>
    rw [hm] at h
    simp only [bind, Except.bind] at h
    cases ht : embedTailC O b uva uvk with
    | error e => rw [ht] at h; cases h
    | ok r' =>
      rw [ht] at h
      simp only [Except.map, Except.ok.injEq] at h
      exact ⟨b, r', rfl, ht, h.symm⟩

theorem embed_two_ok {o i R : USig} {uva uvk : Bool} (h : embed uva uvk [o, i] = .ok R) :
    ∃ i' r, mergeStars (sortParams i) (if uva then (sortParams o).va else none)
                (if uvk then (sortParams o).vk else none) = .ok i' ∧
      embedTailC (sortParams o) i' uva uvk = .ok r ∧ R.params = r.all ∧ validate r.all = .ok () := by
  unfold embed at h
  simp only [embedFold, bind, Except.bind] at h
  cases hs : embedStep (sortParams o) (sortParams i) uva uvk 1 with
  | error e => rw [hs] at h; cases h
  | ok acc =>
    rw [hs] at h
    simp only [applyParams, bind, Except.bind] at h
    cases hv : validate acc.all with
    | error e => rw [hv] at h; cases h
    | ok u =>
      rw [hv] at h
      simp only [pure, Except.pure, Except.ok.injEq] at h
      have e := embedStep_erase (sortParams o) (sortParams i) uva uvk 1
      rw [hs] at e
      obtain ⟨i', r', h1, h2, h3⟩ := embedStepC_ok e.symm
      have hall : acc.all = r'.all := by
        have : (eraseMeta acc).all = (eraseMeta r').all := by
          rw [h3]
        simpa using this
      refine ⟨i', r', h1, h2, ?_, ?_⟩
      · rw [← h]; exact hall
      · rw [← hall]; cases u; exact hv

theorem embed_two_incompatible {o i : USig} {uva uvk : Bool}
    (h : embed uva uvk [o, i] = .error .incompatible) :
    (∃ e, mergeStars (sortParams i) (if uva then (sortParams o).va else none)
                (if uvk then (sortParams o).vk else none) = .error e) ∨
    ∃ i' e, mergeStars (sortParams i) (if uva then (sortParams o).va else none)
                (if uvk then (sortParams o).vk else none) = .ok i' ∧
      embedTailC (sortParams o) i' uva uvk = .error e := by
  unfold embed at h
  simp only [embedFold, bind, Except.bind] at h
  cases hs : embedStep (sortParams o) (sortParams i) uva uvk 1 with
  | ok acc =>
    rw [hs] at h
    simp only [applyParams, bind, Except.bind] at h
    cases hv : validate acc.all with
    | error e =>
      -- the Signature constructor only raises ValueError
      exfalso
      rw [hv] at h
      simp only [Except.error.injEq] at h
      subst h
      -- validateGo never returns `.incompatible`
      have : ∀ (ps : List Param) top sd seen, validateGo top sd seen ps ≠ .error .incompatible := by
        intro ps
        induction ps with
        | nil => intro _ _ _ h; cases h
        | cons p ps ih =>
          intro top sd seen h
          unfold validateGo at h
          split at h
          · cases h
          · simp only at h
            split at h
            · cases h
            · split at h
              · cases h
              · exact ih _ _ _ h
      exact this _ _ _ _ hv
    | ok u => rw [hv] at h; cases h
  | error e =>
    have e1 := embedStep_erase (sortParams o) (sortParams i) uva uvk 1
    rw [hs] at e1
    unfold embedStepC at e1
    cases hm : mergeStars (sortParams i) (if uva then (sortParams o).va else none)
                (if uvk then (sortParams o).vk else none) with
    | error e' => exact .inl ⟨e', rfl⟩
    | ok b =>
      right
      rw [hm] at e1
      simp only [bind, Except.bind] at e1
      cases ht : embedTailC (sortParams o) b uva uvk with
      | error e'' => exact ⟨b, e'', rfl, ht⟩
      | ok r' => rw [ht] at e1; cases e1

end SV
