/-
  Lemmas/C05Nest.lean — the visitor on nested function definitions and lambdas:

  * the body of a nested function is visited at once, in a namespace of its own (child of the main
    one): assignments land there, every Call node is put on the `to_revisit` list
  * `nonlocal s; s = …` inside a nested function rebinds the star in the MAIN namespace at once
  * after the main pass every deferred call is processed in its namespace: names that the nested
    function did not bind itself are found in the main namespace as it is at the END of the pass
-/
import Sigverif.Lemmas.C05FlatSim
namespace SV
namespace Flat
set_option linter.unusedSimpArgs false
set_option linter.unusedVariables false

/-- a deferred Call node of a nested body -/
inductive DItem where
  | fwd (callee : Tree) (npos : Nat) (kws : List Nat) (uva uvk : Bool)
  | decoy (h : Nat) (k : Nat)

def DItem.tree (va vk : Nat) : DItem → Tree
  | .fwd callee npos kws uva uvk => callTree va vk callee npos kws uva uvk
  | .decoy h k => callTree va vk (.name h .load) k [] false false

def DItem.truth (t : Bool × Bool) : DItem → List FwdCall
  | .fwd callee npos kws uva uvk => mkFwd callee npos kws uva uvk t.1 t.2
  | .decoy _ _ => []

mutual
  def deferN : NStmt → List DItem
    | .fwd callee npos kws uva uvk _ => [.fwd callee npos kws uva uvk]
    | .decoy h k => [.decoy h k]
    | .unrelated _ => []
    | .block body => deferNL body
  def deferNL : NStmtList → List DItem
    | .nil => []
    | .cons s rest => deferN s ++ deferNL rest
end

mutual
  def assignedN : NStmt → List Nat
    | .fwd _ _ _ _ _ target => target.toList
    | .unrelated x => [x]
    | .block body => assignedNL body
    | .decoy _ _ => []
  def assignedNL : NStmtList → List Nat
    | .nil => []
    | .cons s rest => assignedN s ++ assignedNL rest
end

mutual
  theorem nestedN_eq (t : Bool × Bool) : (s : NStmt) → nestedN s t = (deferN s).flatMap (DItem.truth t)
    | .fwd callee npos kws uva uvk _ => by simp [nestedN, deferN, DItem.truth]
    | .decoy _ _ => by simp [nestedN, deferN, DItem.truth]
    | .unrelated _ => by simp [nestedN, deferN]
    | .block body => by simp only [nestedN, deferN]; exact nestedNL_eq t body
  theorem nestedNL_eq (t : Bool × Bool) : (l : NStmtList) → nestedNL l t = (deferNL l).flatMap (DItem.truth t)
    | .nil => by simp [nestedNL, deferNL]
    | .cons s rest => by
      simp only [nestedNL, deferNL, List.flatMap_append]
      rw [nestedN_eq t s, nestedNL_eq t rest]
end

theorem decoy_tree (va vk h k : Nat) :
    Tree.call (.name h .load) (plainConsts k .nil) .nil = callTree va vk (.name h .load) k [] false false := by
  simp [callTree, kwConsts]

/-! ### a state positioned in the newest child namespace -/

/-- main namespace, the earlier children, and the child being filled (the last one, current) -/
def mkC (kids : List NS) (rev : List (Tree × Nat)) (n : List (Nat × Entry)) (i : List Nat) (cs : List CallRec)
    (child : NS) : VState :=
  { nss := { parent := none, names := n, nonlocals := [], imm := i } :: (kids ++ [child]), cur := kids.length + 1,
    calls := cs, revisit := rev, hasVa := true, hasVk := true }

theorem ns_mkC (kids : List NS) (rev : List (Tree × Nat)) (n : List (Nat × Entry)) (i : List Nat) (cs : List CallRec)
    (child : NS) : (mkC kids rev n i cs child).ns (kids.length + 1) = child := by
  simp [mkC, VState.ns]

theorem setNs_mkC (kids : List NS) (rev : List (Tree × Nat)) (n : List (Nat × Entry)) (i : List Nat) (cs : List CallRec)
    (child child' : NS) : (mkC kids rev n i cs child).setNs (kids.length + 1) child' = mkC kids rev n i cs child' := by
  simp [mkC, VState.setNs]

theorem assign_mkC (kids : List NS) (rev : List (Tree × Nat)) (n : List (Nat × Entry)) (i : List Nat) (cs : List CallRec)
    (child : NS) (hnl : child.nonlocals = []) (x : Nat) (e : Entry) :
    (mkC kids rev n i cs child).assign x e =
      mkC kids rev n i cs { child with names := dset child.names x e, imm := child.imm.filter (· ≠ x) } := by
  unfold VState.assign
  have hc : (mkC kids rev n i cs child).cur = kids.length + 1 := rfl
  simp only [hc, ns_mkC, hnl, dget, Option.getD_none, setNs_mkC]

theorem visit_store_mkC (kids : List NS) (rev : List (Tree × Nat)) (n : List (Nat × Entry)) (i : List Nat) (cs : List CallRec)
    (child : NS) (hnl : child.nonlocals = []) (x : Nat) :
    visit false (.name x .store) (mkC kids rev n i cs child) =
      mkC kids rev n i cs { child with names := dset child.names x { m := .unknown }, imm := child.imm.filter (· ≠ x) } := by
  simp only [visit, visitName]
  have : ((mkC kids rev n i cs child).isImm x && decide (Ctx.store = Ctx.load)) = false := by simp
  simp only [this, Bool.false_eq_true, if_false]
  exact assign_mkC kids rev n i cs child hnl x _

theorem visit_call_mkC (kids : List NS) (rev : List (Tree × Nat)) (n : List (Nat × Entry)) (i : List Nat) (cs : List CallRec)
    (child : NS) (hp : child.parent.isSome = true) (f : Tree) (as : ArgList) (ks : KwList) :
    visit false (.call f as ks) (mkC kids rev n i cs child) =
      mkC kids (rev ++ [(.call f as ks, kids.length + 1)]) n i cs child := by
  have hc : (mkC kids rev n i cs child).cur = kids.length + 1 := rfl
  simp only [visit, hc, ns_mkC, hp, Bool.not_false, Bool.true_and, if_true]
  rfl

/-- the child namespace after the assignments `xs` -/
def childAfter (xs : List Nat) (child : NS) : NS :=
  xs.foldl (fun c x => { c with names := dset c.names x { m := .unknown }, imm := c.imm.filter (· ≠ x) }) child

theorem childAfter_nil (child : NS) : childAfter [] child = child := rfl
theorem childAfter_append (xs ys : List Nat) (child : NS) :
    childAfter (xs ++ ys) child = childAfter ys (childAfter xs child) := by
  simp [childAfter, List.foldl_append]
theorem childAfter_nonlocals (xs : List Nat) (child : NS) : (childAfter xs child).nonlocals = child.nonlocals := by
  induction xs generalizing child with
  | nil => rfl
  | cons x t ih => simp only [childAfter, List.foldl_cons] at ih ⊢; rw [ih]
theorem childAfter_parent (xs : List Nat) (child : NS) : (childAfter xs child).parent = child.parent := by
  induction xs generalizing child with
  | nil => rfl
  | cons x t ih => simp only [childAfter, List.foldl_cons] at ih ⊢; rw [ih]
theorem dget_childAfter (xs : List Nat) (child : NS) (y : Nat) (hy : y ∉ xs) :
    dget (childAfter xs child).names y = dget child.names y := by
  induction xs generalizing child with
  | nil => rfl
  | cons x t ih =>
    simp only [childAfter, List.foldl_cons] at ih ⊢
    simp only [List.mem_cons, not_or] at hy
    rw [ih _ hy.2, dget_dset]
    simp [hy.1]

def deferred (va vk : Nat) (id : Nat) (ds : List DItem) : List (Tree × Nat) := ds.map (fun d => (d.tree va vk, id))

mutual
  /-- visiting a statement of a nested body: assignments go to the child namespace, calls are deferred -/
  theorem visitN (va vk : Nat) (kids : List NS) (n : List (Nat × Entry)) (i : List Nat) (cs : List CallRec) :
      (s : NStmt) → ∀ (rev : List (Tree × Nat)) (child : NS), child.nonlocals = [] → child.parent.isSome = true →
      visit false (renderN va vk s) (mkC kids rev n i cs child) =
        mkC kids (rev ++ deferred va vk (kids.length + 1) (deferN s)) n i cs (childAfter (assignedN s) child)
    | .fwd callee npos kws uva uvk target, rev, child, hnl, hp => by
      cases target with
      | none =>
        simp only [renderN, stmtOf, visit_other_one, callTree, visit_call_mkC _ _ _ _ _ _ hp]
        simp [deferN, deferred, DItem.tree, callTree, assignedN, childAfter]
      | some x =>
        simp only [renderN, stmtOf, visit_other_two, visit_store_mkC _ _ _ _ _ _ hnl, callTree]
        rw [visit_call_mkC _ _ _ _ _ _ (by simpa using hp)]
        simp [deferN, deferred, DItem.tree, callTree, assignedN, childAfter]
    | .decoy h k, rev, child, hnl, hp => by
      simp only [renderN, stmtOf, visit_other_one, visit_call_mkC _ _ _ _ _ _ hp]
      simp [deferN, deferred, DItem.tree, callTree, kwConsts, assignedN, childAfter]
    | .unrelated x, rev, child, hnl, hp => by
      simp only [renderN, stmtOf, visit_other_two, visit_store_mkC _ _ _ _ _ _ hnl, visit_const]
      simp [deferN, deferred, assignedN, childAfter]
    | .block body, rev, child, hnl, hp => by
      simp only [renderN, visit, visitList_cons, visit_const]
      exact visitNL va vk kids n i cs body rev child hnl hp
  theorem visitNL (va vk : Nat) (kids : List NS) (n : List (Nat × Entry)) (i : List Nat) (cs : List CallRec) :
      (l : NStmtList) → ∀ (rev : List (Tree × Nat)) (child : NS), child.nonlocals = [] → child.parent.isSome = true →
      visitList (renderNL va vk l) (mkC kids rev n i cs child) =
        mkC kids (rev ++ deferred va vk (kids.length + 1) (deferNL l)) n i cs (childAfter (assignedNL l) child)
    | .nil, rev, child, _, _ => by simp [renderNL, visitList, deferNL, deferred, assignedNL, childAfter]
    | .cons s rest, rev, child, hnl, hp => by
      simp only [renderNL, visitList_cons]
      rw [visitN va vk kids n i cs s rev child hnl hp]
      rw [visitNL va vk kids n i cs rest _ _ (by rw [childAfter_nonlocals]; exact hnl) (by rw [childAfter_parent]; exact hp)]
      simp [deferNL, assignedNL, deferred, childAfter_append, List.append_assoc]
end

theorem enter_child (kids : List NS) (rev : List (Tree × Nat)) (n : List (Nat × Entry)) (i : List Nat) (cs : List CallRec) :
    processParams { mk kids rev n i cs with nss := (mk kids rev n i cs).nss ++ [{ parent := some (mk kids rev n i cs).cur }],
                                            cur := (mk kids rev n i cs).nss.length } [] [] [] none none false =
      mkC kids rev n i cs { parent := some 0 } := by
  simp [processParams, mk, mkC]

theorem leave_child (kids : List NS) (rev : List (Tree × Nat)) (n : List (Nat × Entry)) (i : List Nat) (cs : List CallRec)
    (child : NS) : { mkC kids rev n i cs child with cur := 0 } = mk (kids ++ [child]) rev n i cs := by
  simp [mk, mkC]

/-- `def sub(): …` / `lambda: …` in the main body -/
theorem visit_nested (va vk : Nat) (kids : List NS) (rev : List (Tree × Nat)) (n : List (Nat × Entry)) (i : List Nat)
    (cs : List CallRec) (body : NStmtList) :
    visit false (.fdef [] [] [] none none (renderNL va vk body)) (mk kids rev n i cs) =
      mk (kids ++ [childAfter (assignedNL body) { parent := some 0 }])
        (rev ++ deferred va vk (kids.length + 1) (deferNL body)) n i cs := by
  have hcur : (mk kids rev n i cs).cur = 0 := rfl
  simp only [visit]
  rw [enter_child, visitNL va vk kids n i cs body rev _ rfl rfl]
  simp only [hcur]
  exact leave_child _ _ _ _ _ _

/-- `def sub(): nonlocal s; s = const` — the star is rebound in the MAIN namespace, at once -/
theorem visit_nonlocalRebind (kids : List NS) (rev : List (Tree × Nat)) (n : List (Nat × Entry)) (i : List Nat)
    (cs : List CallRec) (s : Nat) (hs : dhas n s = true) :
    visit false (.fdef [] [] [] none none (.cons (.nonloc [s]) (.cons (stmtOf (some s) constT) .nil)))
        (mk kids rev n i cs) =
      mk (kids ++ [{ parent := some 0, nonlocals := [(s, 0)] }]) rev
        (dset n s { m := .unknown }) (i.filter (· ≠ s)) cs := by
  have hcur : (mk kids rev n i cs).cur = 0 := rfl
  simp only [visit]
  rw [enter_child]
  simp only [visitList, visit, List.foldl_cons, List.foldl_nil, stmtOf, visit_const]
  -- add_nonlocal finds the name in the main namespace
  have h1 : (mkC kids rev n i cs { parent := some 0 }).addNonlocal s =
      mkC kids rev n i cs { parent := some 0, nonlocals := [(s, 0)] } := by
    unfold VState.addNonlocal
    have hc : (mkC kids rev n i cs { parent := some 0 }).cur = kids.length + 1 := rfl
    have h0 : (mkC kids rev n i cs { parent := some 0 }).ns 0 = { parent := none, names := n, nonlocals := [], imm := i } := by
      simp [mkC, VState.ns]
    have hl : (mkC kids rev n i cs { parent := some 0 }).nss.length + 1 = (kids.length + 2) + 1 := by simp [mkC]
    simp only [hc, ns_mkC, hl, addNonlocalGo, h0, hs, if_true, setNs_mkC]
    simp [dset]
  rw [h1]
  -- the assignment goes to the owner: the main namespace
  have h2 : visitName (mkC kids rev n i cs { parent := some 0, nonlocals := [(s, 0)] }) s .store =
      { mkC kids rev (dset n s { m := .unknown }) (i.filter (· ≠ s)) cs { parent := some 0, nonlocals := [(s, 0)] } with
        cur := kids.length + 1 } := by
    simp only [visitName]
    have : ((mkC kids rev n i cs { parent := some 0, nonlocals := [(s, 0)] }).isImm s && decide (Ctx.store = Ctx.load)) = false := by
      simp
    simp only [this, Bool.false_eq_true, if_false]
    simp [VState.assign, mkC, VState.ns, VState.setNs, dget]
  rw [h2]
  simp [mk, mkC, hcur]

/-! ### the main pass over the whole grammar -/

mutual
  def rootsN : NStmt → List Nat
    | .fwd callee _ _ _ _ _ => (calleeRoot callee).toList
    | .decoy h _ => [h]             -- helper functions called inside nested bodies are never assignment targets
    | .block body => rootsNL body
    | _ => []
  def rootsNL : NStmtList → List Nat
    | .nil => []
    | .cons s rest => rootsN s ++ rootsNL rest
end

mutual
  /-- names assigned anywhere, nested bodies included -/
  def assignedAllS : Stmt → List Nat
    | .nested body => assignedNL body
    | .block body => assignedAllSL body
    | s => assignedS s
  def assignedAllSL : StmtList → List Nat
    | .nil => []
    | .cons s rest => assignedAllS s ++ assignedAllSL rest
end

mutual
  def rootsAllS : Stmt → List Nat
    | .nested body => rootsNL body
    | .block body => rootsAllSL body
    | s => rootsS s
  def rootsAllSL : StmtList → List Nat
    | .nil => []
    | .cons s rest => rootsAllS s ++ rootsAllSL rest
end

mutual
  /-- the child namespaces the main pass creates, in order -/
  def kidsS (va vk : Nat) : Stmt → List NS
    | .nested body => [childAfter (assignedNL body) { parent := some 0 }]
    | .nonlocalRebind .A => [{ parent := some 0, nonlocals := [(va, 0)] }]
    | .nonlocalRebind .K => [{ parent := some 0, nonlocals := [(vk, 0)] }]
    | .block body => kidsSL va vk body
    | _ => []
  def kidsSL (va vk : Nat) : StmtList → List NS
    | .nil => []
    | .cons s rest => kidsS va vk s ++ kidsSL va vk rest
end

mutual
  /-- the deferred calls, each with the index of its namespace (`start` = index of the next child) -/
  def deferS (va vk : Nat) (start : Nat) : Stmt → List (Tree × Nat)
    | .nested body => deferred va vk start (deferNL body)
    | .block body => deferSL va vk start body
    | _ => []
  def deferSL (va vk : Nat) (start : Nat) : StmtList → List (Tree × Nat)
    | .nil => []
    | .cons s rest => deferS va vk start s ++ deferSL va vk (start + (kidsS va vk s).length) rest
end

def NSimRes (kids : List NS) (rev : List (Tree × Nat)) (p : Prog) (roots : List Nat) (t : Tree)
    (n : List (Nat × Entry)) (i : List Nat) (cs : List CallRec)
    (calls : List FwdCall) (tA' tK' : Bool) (newKids : List NS) (newRev : List (Tree × Nat)) : Prop :=
  ∃ n' i' recs, visit false t (mk kids rev n i cs) = mk (kids ++ newKids) (rev ++ newRev) n' i' (cs ++ recs) ∧
    FInv p roots tA' tK' n' i' ∧ forwarding recs = calls.map (FwdCall.toRec p)

def NSimResL (kids : List NS) (rev : List (Tree × Nat)) (p : Prog) (roots : List Nat) (ts : TreeList)
    (n : List (Nat × Entry)) (i : List Nat) (cs : List CallRec)
    (calls : List FwdCall) (tA' tK' : Bool) (newKids : List NS) (newRev : List (Tree × Nat)) : Prop :=
  ∃ n' i' recs, visitList ts (mk kids rev n i cs) = mk (kids ++ newKids) (rev ++ newRev) n' i' (cs ++ recs) ∧
    FInv p roots tA' tK' n' i' ∧ forwarding recs = calls.map (FwdCall.toRec p)

theorem NSimRes.ofFlat {kids : List NS} {rev : List (Tree × Nat)} {p : Prog} {roots : List Nat} {t : Tree}
    {n : List (Nat × Entry)} {i : List Nat} {cs : List CallRec} {calls : List FwdCall} {tA' tK' : Bool}
    (h : SimRes kids rev p roots t n i cs calls tA' tK') : NSimRes kids rev p roots t n i cs calls tA' tK' [] [] := by
  obtain ⟨n', i', recs, e, hf, hr⟩ := h
  exact ⟨n', i', recs, by simpa using e, hf, hr⟩

theorem dhas_star {p : Prog} {roots : List Nat} {tA tK : Bool} {n : List (Nat × Entry)} {i : List Nat}
    (h : FInv p roots tA tK n i) : dhas n p.va = true ∧ dhas n p.vk = true := by
  constructor
  · cases tA with
    | false => simp [dhas, (h.vaP rfl).1]
    | true => obtain ⟨e, he, _⟩ := h.vaT rfl; simp [dhas, he]
  · cases tK with
    | false => simp [dhas, h.vkP rfl]
    | true => obtain ⟨e, he, _⟩ := h.vkT rfl; simp [dhas, he]

mutual
  /-- **the main pass simulates the ground truth on the whole grammar** -/
  theorem nsimS (p : Prog) (roots A : List Nat) (c : Clean p roots A) :
      (s : Stmt) → okS [p.va, p.vk] s = true →
      (∀ x ∈ assignedAllS s, x ∈ A) → (∀ r ∈ rootsAllS s, r ∈ roots) →
      ∀ (kids : List NS) (rev : List (Tree × Nat)) (tA tK : Bool) (n : List (Nat × Entry)) (i : List Nat)
        (cs : List CallRec), FInv p roots tA tK n i →
      NSimRes kids rev p roots (renderS p.va p.vk s) n i cs (truthS s (tA, tK)).1 (truthS s (tA, tK)).2.1
        (truthS s (tA, tK)).2.2 (kidsS p.va p.vk s) (deferS p.va p.vk (kids.length + 1) s)
    | .fwd callee npos kws uva uvk target, hok, hA, hR, kids, rev, tA, tK, n, i, cs, h =>
      NSimRes.ofFlat (simS (kids := kids) (rev := rev) p roots A c (.fwd callee npos kws uva uvk target) rfl hok hA hR tA tK n i cs h)
    | .rebind s, hok, hA, hR, kids, rev, tA, tK, n, i, cs, h =>
      NSimRes.ofFlat (simS (kids := kids) (rev := rev) p roots A c (.rebind s) rfl hok hA hR tA tK n i cs h)
    | .mutate s m, hok, hA, hR, kids, rev, tA, tK, n, i, cs, h =>
      NSimRes.ofFlat (simS (kids := kids) (rev := rev) p roots A c (.mutate s m) rfl hok hA hR tA tK n i cs h)
    | .delete s, hok, hA, hR, kids, rev, tA, tK, n, i, cs, h =>
      NSimRes.ofFlat (simS (kids := kids) (rev := rev) p roots A c (.delete s) rfl hok hA hR tA tK n i cs h)
    | .handOver s hn, hok, hA, hR, kids, rev, tA, tK, n, i, cs, h =>
      NSimRes.ofFlat (simS (kids := kids) (rev := rev) p roots A c (.handOver s hn) rfl hok hA hR tA tK n i cs h)
    | .decoy hn k, hok, hA, hR, kids, rev, tA, tK, n, i, cs, h =>
      NSimRes.ofFlat (simS (kids := kids) (rev := rev) p roots A c (.decoy hn k) rfl hok hA hR tA tK n i cs h)
    | .unrelated x, hok, hA, hR, kids, rev, tA, tK, n, i, cs, h =>
      NSimRes.ofFlat (simS (kids := kids) (rev := rev) p roots A c (.unrelated x) rfl hok hA hR tA tK n i cs h)
    | .block body, hok, hA, hR, kids, rev, tA, tK, n, i, cs, h => by
      have := nsimSL p roots A c body (by simpa [okS] using hok)
        (fun x hx => hA x (by simpa [assignedAllS] using hx)) (fun r hr => hR r (by simpa [rootsAllS] using hr))
        kids rev tA tK n i cs h
      obtain ⟨n', i', recs, e, hf, hr⟩ := this
      refine ⟨n', i', recs, ?_, by simpa [truthS] using hf, by simpa [truthS] using hr⟩
      simp only [renderS, visit, visitList_cons, visit_const, kidsS, deferS]
      exact e
    | .nested body, hok, hA, hR, kids, rev, tA, tK, n, i, cs, h => by
      refine ⟨n, i, [], ?_, by simpa [truthS, taintsNow] using h, by simp [truthS, forwarding]⟩
      simp only [renderS, kidsS, deferS, List.append_nil]
      exact visit_nested p.va p.vk kids rev n i cs body
    | .nonlocalRebind .A, hok, hA, hR, kids, rev, tA, tK, n, i, cs, h => by
      have ht : truthS (.nonlocalRebind .A) (tA, tK) = ([], (true, tK)) := by simp [truthS, taintsNow]
      rw [ht]
      refine ⟨_, _, [], ?_, h.kill_va c, by simp [forwarding]⟩
      simp only [renderS, kidsS, deferS, List.append_nil]
      exact visit_nonlocalRebind kids rev n i cs p.va (dhas_star h).1
    | .nonlocalRebind .K, hok, hA, hR, kids, rev, tA, tK, n, i, cs, h => by
      have ht : truthS (.nonlocalRebind .K) (tA, tK) = ([], (tA, true)) := by simp [truthS, taintsNow]
      rw [ht]
      refine ⟨_, _, [], ?_, h.kill_vk c, by simp [forwarding]⟩
      simp only [renderS, kidsS, deferS, List.append_nil]
      exact visit_nonlocalRebind kids rev n i cs p.vk (dhas_star h).2

  theorem nsimSL (p : Prog) (roots A : List Nat) (c : Clean p roots A) :
      (l : StmtList) → okSL [p.va, p.vk] l = true →
      (∀ x ∈ assignedAllSL l, x ∈ A) → (∀ r ∈ rootsAllSL l, r ∈ roots) →
      ∀ (kids : List NS) (rev : List (Tree × Nat)) (tA tK : Bool) (n : List (Nat × Entry)) (i : List Nat)
        (cs : List CallRec), FInv p roots tA tK n i →
      NSimResL kids rev p roots (renderSL p.va p.vk l) n i cs (truthSL l (tA, tK)).1 (truthSL l (tA, tK)).2.1
        (truthSL l (tA, tK)).2.2 (kidsSL p.va p.vk l) (deferSL p.va p.vk (kids.length + 1) l)
    | .nil, _, _, _, kids, rev, tA, tK, n, i, cs, h => by
      exact ⟨n, i, [], by simp [renderSL, visitList, kidsSL, deferSL], by simpa [truthSL] using h,
        by simp [truthSL, forwarding]⟩
    | .cons s rest, hok, hA, hR, kids, rev, tA, tK, n, i, cs, h => by
      simp only [okSL, Bool.and_eq_true] at hok
      obtain ⟨n1, i1, r1, e1, h1, f1⟩ := nsimS p roots A c s hok.1
        (fun x hx => hA x (by simp [assignedAllSL, hx])) (fun r hr => hR r (by simp [rootsAllSL, hr]))
        kids rev tA tK n i cs h
      obtain ⟨n2, i2, r2, e2, h2, f2⟩ := nsimSL p roots A c rest hok.2
        (fun x hx => hA x (by simp [assignedAllSL, hx])) (fun r hr => hR r (by simp [rootsAllSL, hr]))
        (kids ++ kidsS p.va p.vk s) (rev ++ deferS p.va p.vk (kids.length + 1) s)
        (truthS s (tA, tK)).2.1 (truthS s (tA, tK)).2.2 n1 i1 (cs ++ r1) h1
      refine ⟨n2, i2, r1 ++ r2, ?_, ?_, ?_⟩
      · simp only [renderSL, visitList_cons, e1, e2, List.append_assoc, kidsSL, deferSL, List.length_append]
        have : kids.length + (kidsS p.va p.vk s).length + 1 = kids.length + 1 + (kidsS p.va p.vk s).length := by omega
        rw [this]
      · simpa [truthSL] using h2
      · rw [forwarding_append, f1, f2]
        simp [truthSL]
end

/-! ### processing a deferred call: the state is positioned in a child namespace -/

def mkAt (c : Nat) (kids : List NS) (rev : List (Tree × Nat)) (n : List (Nat × Entry)) (i : List Nat)
    (cs : List CallRec) : VState :=
  { nss := { parent := none, names := n, nonlocals := [], imm := i } :: kids, cur := c, calls := cs,
    revisit := rev, hasVa := true, hasVk := true }

theorem mkAt_cur (c c' : Nat) (kids : List NS) (rev : List (Tree × Nat)) (n : List (Nat × Entry)) (i : List Nat)
    (cs : List CallRec) : { mkAt c kids rev n i cs with cur := c' } = mkAt c' kids rev n i cs := rfl

theorem mk_eq_mkAt (kids : List NS) (rev : List (Tree × Nat)) (n : List (Nat × Entry)) (i : List Nat)
    (cs : List CallRec) : mk kids rev n i cs = mkAt 0 kids rev n i cs := rfl

/-- namespace `c` is a nested function's own namespace in which none of the names `X` is bound -/
def PlainChild (kids : List NS) (c : Nat) (X : List Nat) : Prop :=
  ∃ c' child, c = c' + 1 ∧ kids[c']? = some child ∧ child.parent = some 0 ∧ child.nonlocals = [] ∧
    ∀ x ∈ X, dget child.names x = none

theorem PlainChild.mono {kids : List NS} {c : Nat} {X Y : List Nat} (h : PlainChild kids c X) (hs : ∀ y ∈ Y, y ∈ X) :
    PlainChild kids c Y := by
  obtain ⟨c', child, e, hk, hp, hn, hx⟩ := h
  exact ⟨c', child, e, hk, hp, hn, fun y hy => hx y (hs y hy)⟩

theorem lookup_at {c : Nat} {kids : List NS} {X : List Nat} (hpc : PlainChild kids c X)
    (rev : List (Tree × Nat)) (n : List (Nat × Entry)) (i : List Nat) (cs : List CallRec) (x : Nat) (hx : x ∈ X) :
    (mkAt c kids rev n i cs).lookup x = (dget n x).map (fun e => (0, e)) := by
  obtain ⟨c', child, rfl, hk, hp, hn, hX⟩ := hpc
  have hns : (mkAt (c' + 1) kids rev n i cs).ns (c' + 1) = child := by
    simp [mkAt, VState.ns, List.getD, hk]
  have hns0 : (mkAt (c' + 1) kids rev n i cs).ns 0 = { parent := none, names := n, nonlocals := [], imm := i } := by
    simp [mkAt, VState.ns]
  have hl : (mkAt (c' + 1) kids rev n i cs).nss.length + 1 = (kids.length + 1) + 1 := by simp [mkAt]
  have hc : (mkAt (c' + 1) kids rev n i cs).cur = c' + 1 := rfl
  unfold VState.lookup
  rw [hl, hc]
  simp only [nsLookup, hns, hn, dget, Option.getD_none, hX x hx, hp]
  have hk1 : kids.length = (kids.length - 1) + 1 := by
    have : c' < kids.length := by
      rcases List.getElem?_eq_some_iff.1 hk with ⟨h, _⟩; exact h
    omega
  rw [hk1]
  simp only [nsLookup, hns0, dget, Option.getD_none]
  cases dget n x <;> rfl

theorem taint_at {c : Nat} {kids : List NS} {X : List Nat} (hpc : PlainChild kids c X)
    (rev : List (Tree × Nat)) (n : List (Nat × Entry)) (i : List Nat) (cs : List CallRec) (x : Nat) (hx : x ∈ X) :
    (mkAt c kids rev n i cs).taint x = match dget n x with
      | some e => mkAt c kids rev (dset n x { e with tainted := true }) i cs
      | none => mkAt c kids rev n i cs := by
  simp only [VState.taint, lookup_at hpc rev n i cs x hx]
  cases h : dget n x with
  | none => rfl
  | some e => simp [mkAt, VState.ns, VState.setNs]

theorem resolveCore_marker_at {c : Nat} {kids : List NS} {X : List Nat} (hpc : PlainChild kids c X)
    (rev : List (Tree × Nat)) (n : List (Nat × Entry)) (i : List Nat) (cs : List CallRec) :
    (t : Tree) → isCalleeTree t = true → (∀ r, calleeRoot t = some r → r ∈ X) →
    (resolveCore t true (mkAt c kids rev n i cs)).1.1 = markerIn n t
  | .name id ctx, _, hr => by
    simp only [resolveCore, lookup_at hpc rev n i cs id (hr id rfl), markerIn]
    cases dget n id <;> rfl
  | .attr v a, ht, hr => by
    have hv : isCalleeTree v = true := by
      cases v <;> simp_all [isCalleeTree]
    have ih := resolveCore_marker_at hpc rev n i cs v hv (fun r h => hr r (by simpa [calleeRoot] using h))
    simp only [resolveCore, markerIn, if_true]
    rw [← ih]
  | .call _ _ _, ht, _ => by simp [isCalleeTree] at ht
  | .fdef _ _ _ _ _ _, ht, _ => by simp [isCalleeTree] at ht
  | .nonloc _, ht, _ => by simp [isCalleeTree] at ht
  | .other _, ht, _ => by simp [isCalleeTree] at ht

theorem resolveOnlyStar_name_at {c : Nat} {kids : List NS} {X : List Nat} (hpc : PlainChild kids c X)
    (rev : List (Tree × Nat)) (n : List (Nat × Entry)) (i : List Nat) (cs : List CallRec) (x : Nat) (hx : x ∈ X) :
    resolveOnlyStar (.starred (.name x .load) .nil) (mkAt c kids rev n i cs) =
      (some (starFound n x), mkAt c kids rev n i cs) := by
  simp only [resolveOnlyStar, resolveCore, lookup_at hpc rev n i cs x hx, isNameNode, if_true, starFound, untaint]
  cases dget n x with
  | none => simp
  | some e => simp

theorem resolveOnlyDstar_name_at {c : Nat} {kids : List NS} {X : List Nat} (hpc : PlainChild kids c X)
    (rev : List (Tree × Nat)) (n : List (Nat × Entry)) (i : List Nat) (cs : List CallRec) (x : Nat) (hx : x ∈ X) :
    resolveOnlyDstar (.dstar (.name x .load) .nil) (mkAt c kids rev n i cs) =
      (some (starFound n x), mkAt c kids rev n i cs) := by
  simp only [resolveOnlyDstar, resolveCore, lookup_at hpc rev n i cs x hx, isNameNode, if_true, starFound, untaint]
  cases dget n x with
  | none => simp
  | some e => simp

/-- **a deferred forwarding call processed in its nested namespace**: exactly what the same Call
    node gives in the main namespace — the names it uses are not bound in the nested function -/
theorem visit_callTree_at {c : Nat} {kids : List NS} {X : List Nat} (hpc : PlainChild kids c X)
    (va vk : Nat) (hva : va ∈ X) (hvk : vk ∈ X)
    (callee : Tree) (hc : isCalleeTree callee = true) (hroot : ∀ r, calleeRoot callee = some r → r ∈ X)
    (npos : Nat) (kws : List Nat) (uva uvk : Bool) (rev : List (Tree × Nat)) (n : List (Nat × Entry)) (i : List Nat)
    (cs : List CallRec) (hinst : ∀ x t, (markerIn n callee).instance = .arg x t → x ∈ X) :
    visit true (callTree va vk callee npos kws uva uvk) (mkAt c kids rev n i cs) =
      let n' := taintCallee n (markerIn n callee)
      let fa := if uva then some (starFound n' va) else none
      let fk := if uvk then some (starFound n' vk) else none
      mkAt c kids rev n' i (cs ++ [{ wrapped := markerIn n callee,
                                     args := List.replicate npos .unknown,
                                     kwargs := kws.map (fun k => (k, RM.unknown)),
                                     varargs := fa, varkwargs := fk,
                                     useVa := (hasHide fa true .va).1, useVk := (hasHide fk true .vk).1,
                                     hideA := (hasHide fa true .va).2, hideK := (hasHide fk true .vk).2 }]) := by
  have hres2 := resolveCore_callee callee hc true (mkAt c kids rev n i cs)
  have hres1 := resolveCore_marker_at hpc rev n i cs callee hc hroot
  have hvis : (if isNameNode callee = true then mkAt c kids rev n i cs else visit false callee (mkAt c kids rev n i cs)) =
      mkAt c kids rev n i cs := by
    split
    · rfl
    · rename_i hn
      exact visit_callee_attr callee hc (by simpa using hn) _
  unfold callTree
  simp only [visit, Bool.not_true, Bool.false_and, Bool.false_eq_true, if_false]
  rcases hr : resolveCore callee true (mkAt c kids rev n i cs) with ⟨⟨w, tw⟩, st1⟩
  rw [hr] at hres1 hres2
  simp only at hres1 hres2
  subst hres1 hres2
  simp only [hvis]
  unfold taintCallee
  cases hm : markerIn n callee with
  | attr v a =>
    simp only []
    cases hi : (RM.attr v a).instance with
    | arg x t =>
      have hxX : x ∈ X := hinst x t (by rw [hm]; exact hi)
      simp only [taint_at hpc rev n i cs x hxX]
      cases hd : dget n x <;>
      · simp only [resolveArgs_plainConsts, resolveKws_kwConsts, starCount_plainConsts, dstarCount_kwConsts,
          resolveOnlyStar_plainConsts, resolveOnlyDstar_kwConsts]
        cases uva <;> cases uvk <;>
          simp [resolveArgs, resolveKws, ArgList.starCount, KwList.dstarCount,
            resolveOnlyStar_name_at hpc _ _ _ _ va hva, resolveOnlyDstar_name_at hpc _ _ _ _ vk hvk] <;>
          simp [mkAt, hasHide]
    | _ =>
      simp only [resolveArgs_plainConsts, resolveKws_kwConsts, starCount_plainConsts, dstarCount_kwConsts,
        resolveOnlyStar_plainConsts, resolveOnlyDstar_kwConsts]
      cases uva <;> cases uvk <;>
        simp [resolveArgs, resolveKws, ArgList.starCount, KwList.dstarCount,
          resolveOnlyStar_name_at hpc _ _ _ _ va hva, resolveOnlyDstar_name_at hpc _ _ _ _ vk hvk] <;>
        simp [mkAt, hasHide]
  | _ =>
    simp only [resolveArgs_plainConsts, resolveKws_kwConsts, starCount_plainConsts, dstarCount_kwConsts,
      resolveOnlyStar_plainConsts, resolveOnlyDstar_kwConsts]
    cases uva <;> cases uvk <;>
      simp [resolveArgs, resolveKws, ArgList.starCount, KwList.dstarCount,
        resolveOnlyStar_name_at hpc _ _ _ _ va hva, resolveOnlyDstar_name_at hpc _ _ _ _ vk hvk] <;>
      simp [mkAt, hasHide]

/-! ### the deferred calls, with the namespaces they belong to -/

def DItem.callee : DItem → Tree
  | .fwd callee _ _ _ _ => callee
  | .decoy h _ => .name h .load
def DItem.npos : DItem → Nat
  | .fwd _ npos _ _ _ => npos
  | .decoy _ k => k
def DItem.kws : DItem → List Nat
  | .fwd _ _ kws _ _ => kws
  | .decoy _ _ => []
def DItem.uva : DItem → Bool
  | .fwd _ _ _ uva _ => uva
  | .decoy _ _ => false
def DItem.uvk : DItem → Bool
  | .fwd _ _ _ _ uvk => uvk
  | .decoy _ _ => false

theorem DItem.tree_eq (va vk : Nat) (d : DItem) :
    d.tree va vk = callTree va vk d.callee d.npos d.kws d.uva d.uvk := by
  cases d <;> rfl

theorem DItem.truth_eq (t : Bool × Bool) (d : DItem) :
    d.truth t = mkFwd d.callee d.npos d.kws d.uva d.uvk t.1 t.2 := by
  cases d with
  | fwd => rfl
  | decoy h k => simp [DItem.truth, mkFwd, DItem.uva, DItem.uvk]

/-- the callee expression is a Name/Attribute chain whose root is one of `roots` -/
def ItemOk (roots : List Nat) (d : DItem) : Prop :=
  isCalleeTree d.callee = true ∧ ∀ r, calleeRoot d.callee = some r → r ∈ roots

mutual
  def itemsS (start : Nat) : Stmt → List (DItem × Nat)
    | .nested body => (deferNL body).map (fun d => (d, start))
    | .block body => itemsSL start body
    | _ => []
  def itemsSL (start : Nat) : StmtList → List (DItem × Nat)
    | .nil => []
    | .cons s rest => itemsS start s ++ itemsSL (start + (kidsS 0 0 s).length) rest
end

mutual
  theorem kidsS_length (va vk : Nat) : (s : Stmt) → (kidsS va vk s).length = (kidsS 0 0 s).length
    | .nested _ => rfl
    | .nonlocalRebind .A => rfl
    | .nonlocalRebind .K => rfl
    | .block body => by simp only [kidsS]; exact kidsSL_length va vk body
    | .fwd _ _ _ _ _ _ => rfl
    | .rebind _ => rfl
    | .mutate _ _ => rfl
    | .delete _ => rfl
    | .handOver _ _ => rfl
    | .decoy _ _ => rfl
    | .unrelated _ => rfl
  theorem kidsSL_length (va vk : Nat) : (l : StmtList) → (kidsSL va vk l).length = (kidsSL 0 0 l).length
    | .nil => rfl
    | .cons s rest => by simp only [kidsSL, List.length_append, kidsS_length va vk s, kidsSL_length va vk rest]
end

def treeOf (va vk : Nat) (x : DItem × Nat) : Tree × Nat := (x.1.tree va vk, x.2)

mutual
  theorem deferS_eq (va vk : Nat) (start : Nat) : (s : Stmt) → deferS va vk start s = (itemsS start s).map (treeOf va vk)
    | .nested body => by simp [deferS, itemsS, deferred, treeOf, Function.comp_def]
    | .block body => by simp only [deferS, itemsS]; exact deferSL_eq va vk start body
    | .nonlocalRebind _ => rfl
    | .fwd _ _ _ _ _ _ => rfl
    | .rebind _ => rfl
    | .mutate _ _ => rfl
    | .delete _ => rfl
    | .handOver _ _ => rfl
    | .decoy _ _ => rfl
    | .unrelated _ => rfl
  theorem deferSL_eq (va vk : Nat) (start : Nat) : (l : StmtList) → deferSL va vk start l = (itemsSL start l).map (treeOf va vk)
    | .nil => rfl
    | .cons s rest => by
      simp only [deferSL, itemsSL, List.map_append, deferS_eq va vk start s, kidsS_length va vk s]
      rw [deferSL_eq va vk _ rest]
end

mutual
  theorem nestedS_items (t : Bool × Bool) (start : Nat) : (s : Stmt) →
      nestedS s t = (itemsS start s).flatMap (fun x => x.1.truth t)
    | .nested body => by
      simp only [nestedS, itemsS, nestedNL_eq, List.flatMap_map]
    | .block body => by simp only [nestedS, itemsS]; exact nestedSL_items t start body
    | .nonlocalRebind _ => by simp [nestedS, itemsS]
    | .fwd _ _ _ _ _ _ => by simp [nestedS, itemsS]
    | .rebind _ => by simp [nestedS, itemsS]
    | .mutate _ _ => by simp [nestedS, itemsS]
    | .delete _ => by simp [nestedS, itemsS]
    | .handOver _ _ => by simp [nestedS, itemsS]
    | .decoy _ _ => by simp [nestedS, itemsS]
    | .unrelated _ => by simp [nestedS, itemsS]
  theorem nestedSL_items (t : Bool × Bool) (start : Nat) : (l : StmtList) →
      nestedSL l t = (itemsSL start l).flatMap (fun x => x.1.truth t)
    | .nil => by simp [nestedSL, itemsSL]
    | .cons s rest => by
      simp only [nestedSL, itemsSL, List.flatMap_append]
      rw [nestedS_items t start s, nestedSL_items t _ rest]
end

/-! ### one deferred call, then all of them -/

theorem calleeMarker_instance (params : List Nat) : (t : Tree) → isCalleeTree t = true →
    ∀ x tg, (calleeMarker params t).instance = .arg x tg → calleeRoot t = some x
  | .name id ctx, _, x, tg, h => by
    simp only [calleeMarker] at h
    split at h
    · simp only [RM.instance, RM.arg.injEq] at h; simp [calleeRoot, h.1]
    · simp [RM.instance] at h
  | .attr v a, ht, x, tg, h => by
    have hv : isCalleeTree v = true := by cases v <;> simp_all [isCalleeTree]
    simp only [calleeMarker, RM.instance] at h
    simpa [calleeRoot] using calleeMarker_instance params v hv x tg h
  | .call _ _ _, ht, _, _, _ => by simp [isCalleeTree] at ht
  | .fdef _ _ _ _ _ _, ht, _, _, _ => by simp [isCalleeTree] at ht
  | .nonloc _, ht, _, _, _ => by simp [isCalleeTree] at ht
  | .other _, ht, _, _, _ => by simp [isCalleeTree] at ht

/-- processing one deferred call at the end of the pass -/
theorem revisit_item (p : Prog) (roots A : List Nat) (c : Clean p roots A) (K : List NS) (id : Nat)
    (hpc : PlainChild K id (roots ++ [p.va, p.vk])) (d : DItem) (hd : ItemOk roots d)
    (R : List (Tree × Nat)) (tA tK : Bool) (n : List (Nat × Entry)) (i : List Nat) (cs : List CallRec)
    (h : FInv p roots tA tK n i) :
    ∃ n' r, visit true (d.tree p.va p.vk) (mkAt id K R n i cs) = mkAt id K R n' i (cs ++ [r]) ∧
      FInv p roots tA tK n' i ∧ forwarding [r] = (d.truth (tA, tK)).map (FwdCall.toRec p) := by
  obtain ⟨hc, hroot⟩ := hd
  have hm := markerIn_eq_calleeMarker h d.callee hc hroot
  have hinst : ∀ x t, (markerIn n d.callee).instance = .arg x t → x ∈ roots ++ [p.va, p.vk] := by
    intro x t hx
    rw [hm] at hx
    exact List.mem_append_left _ (hroot x (calleeMarker_instance p.params d.callee hc x t hx))
  rw [DItem.tree_eq, visit_callTree_at hpc p.va p.vk (by simp) (by simp) d.callee hc
    (fun r hr => List.mem_append_left _ (hroot r hr)) d.npos d.kws d.uva d.uvk R n i cs hinst]
  obtain ⟨h2, eva, evk⟩ := h.taintCallee_other c d.callee hc hroot
  refine ⟨_, _, rfl, h2, ?_⟩
  have sva := starFound_va h2
  have svk := starFound_vk h2
  rw [hm] at sva svk
  rw [DItem.truth_eq]
  simp only [hm, sva, svk]
  cases d.uva <;> cases d.uvk <;> cases tA <;> cases tK <;>
    simp [forwarding, mkFwd, FwdCall.toRec, hasHide]

theorem revisit_items (p : Prog) (roots A : List Nat) (c : Clean p roots A) (K : List NS) (tA tK : Bool) (i : List Nat) :
    ∀ (items : List (DItem × Nat)) (pre : List (Tree × Nat)) (cur : Nat) (n : List (Nat × Entry)) (cs : List CallRec)
      (fuel : Nat),
    FInv p roots tA tK n i →
    (∀ x ∈ items, ItemOk roots x.1 ∧ PlainChild K x.2 (roots ++ [p.va, p.vk])) → items.length ≤ fuel →
    ∃ n' cur' recs,
      revisitLoop fuel pre.length (mkAt cur K (pre ++ items.map (treeOf p.va p.vk)) n i cs) =
        some (mkAt cur' K (pre ++ items.map (treeOf p.va p.vk)) n' i (cs ++ recs)) ∧
      FInv p roots tA tK n' i ∧
      forwarding recs = (items.flatMap (fun x => x.1.truth (tA, tK))).map (FwdCall.toRec p)
  | [], pre, cur, n, cs, fuel, h, _, _ => by
    refine ⟨n, cur, [], ?_, h, by simp [forwarding]⟩
    cases fuel with
    | zero => simp [revisitLoop, mkAt]
    | succ f => simp [revisitLoop, mkAt]
  | (d, id) :: rest, pre, cur, n, cs, fuel, h, hall, hf => by
    cases fuel with
    | zero => simp at hf
    | succ f =>
      have hget : (mkAt cur K (pre ++ ((d, id) :: rest).map (treeOf p.va p.vk)) n i cs).revisit[pre.length]? =
          some (d.tree p.va p.vk, id) := by
        simp [mkAt, treeOf]
      obtain ⟨hok, hpc⟩ := hall (d, id) (by simp)
      obtain ⟨n1, r1, e1, h1, f1⟩ := revisit_item p roots A c K id hpc d hok
        (pre ++ ((d, id) :: rest).map (treeOf p.va p.vk)) tA tK n i cs h
      have hR : pre ++ ((d, id) :: rest).map (treeOf p.va p.vk) =
          (pre ++ [(d.tree p.va p.vk, id)]) ++ rest.map (treeOf p.va p.vk) := by
        simp [treeOf]
      obtain ⟨n2, cur2, r2, e2, h2, f2⟩ := revisit_items p roots A c K tA tK i rest (pre ++ [(d.tree p.va p.vk, id)]) id n1
        (cs ++ [r1]) f h1 (fun x hx => hall x (by simp [hx])) (by simpa using hf)
      refine ⟨n2, cur2, r1 :: r2, ?_, h2, ?_⟩
      · simp only [revisitLoop, hget, mkAt_cur, e1]
        rw [hR]
        have hl : pre.length + 1 = (pre ++ [(d.tree p.va p.vk, id)]).length := by simp
        rw [hl, e2]
        simp
      · have : r1 :: r2 = [r1] ++ r2 := rfl
        rw [this, forwarding_append, f1, f2]
        simp

/-! ### every deferred call sits in a namespace where the names it uses are not bound -/

mutual
  theorem deferN_ok (roots : List Nat) (reserved : List Nat) : (s : NStmt) → okN reserved s = true →
      (∀ r ∈ rootsN s, r ∈ roots) → ∀ d ∈ deferN s, ItemOk roots d
    | .fwd callee npos kws uva uvk target, hok, hr, d, hd => by
      simp only [deferN, List.mem_singleton] at hd
      subst hd
      simp only [okN, Bool.and_eq_true] at hok
      exact ⟨hok.1.1, fun r h => hr r (by simp [rootsN, DItem.callee] at h ⊢; simp [h])⟩
    | .decoy h k, _, hr, d, hd => by
      simp only [deferN, List.mem_singleton] at hd
      subst hd
      exact ⟨rfl, fun r h' => hr r (by simp [DItem.callee, calleeRoot] at h'; simp [rootsN, h'])⟩
    | .unrelated _, _, _, d, hd => by simp [deferN] at hd
    | .block body, hok, hr, d, hd => by
      simp only [deferN] at hd
      exact deferNL_ok roots reserved body (by simpa [okN] using hok) (fun r h => hr r (by simpa [rootsN] using h)) d hd
  theorem deferNL_ok (roots : List Nat) (reserved : List Nat) : (l : NStmtList) → okNL reserved l = true →
      (∀ r ∈ rootsNL l, r ∈ roots) → ∀ d ∈ deferNL l, ItemOk roots d
    | .nil, _, _, d, hd => by simp [deferNL] at hd
    | .cons s rest, hok, hr, d, hd => by
      simp only [okNL, Bool.and_eq_true] at hok
      simp only [deferNL, List.mem_append] at hd
      rcases hd with hd | hd
      · exact deferN_ok roots reserved s hok.1 (fun r h => hr r (by simp [rootsNL, h])) d hd
      · exact deferNL_ok roots reserved rest hok.2 (fun r h => hr r (by simp [rootsNL, h])) d hd
end

/-- an item is "well placed" relative to the children created by the same statement(s) -/
def Placed (roots : List Nat) (va vk : Nat) (start : Nat) (ks : List NS) (x : DItem × Nat) : Prop :=
  ItemOk roots x.1 ∧ ∃ off child, x.2 = start + off ∧ ks[off]? = some child ∧ child.parent = some 0 ∧
    child.nonlocals = [] ∧ ∀ y ∈ roots ++ [va, vk], dget child.names y = none

mutual
  theorem itemsS_placed (p : Prog) (roots A : List Nat) (c : Clean p roots A) : (s : Stmt) →
      okS [p.va, p.vk] s = true → (∀ x ∈ assignedAllS s, x ∈ A) → (∀ r ∈ rootsAllS s, r ∈ roots) →
      ∀ start, ∀ x ∈ itemsS start s, Placed roots p.va p.vk start (kidsS p.va p.vk s) x
    | .nested body, hok, hA, hR, start, x, hx => by
      simp only [itemsS, List.mem_map] at hx
      obtain ⟨d, hd, rfl⟩ := hx
      refine ⟨deferNL_ok roots _ body (by simpa [okS] using hok) (fun r h => hR r (by simpa [rootsAllS] using h)) d hd,
        0, childAfter (assignedNL body) { parent := some 0 }, rfl, by simp [kidsS], by rw [childAfter_parent],
        by rw [childAfter_nonlocals], ?_⟩
      intro y hy
      have hyA : y ∉ assignedNL body := by
        intro hmem
        obtain ⟨a1, a2, _, a4⟩ := c.asg y (hA y (by simpa [assignedAllS] using hmem))
        simp only [List.mem_append, List.mem_cons, List.not_mem_nil, or_false] at hy
        rcases hy with hy | hy | hy
        · exact a4 hy
        · exact a1 hy
        · exact a2 hy
      rw [dget_childAfter _ _ _ hyA]
      rfl
    | .block body, hok, hA, hR, start, x, hx => by
      simp only [itemsS] at hx
      simpa [kidsS] using itemsSL_placed p roots A c body (by simpa [okS] using hok)
        (fun y hy => hA y (by simpa [assignedAllS] using hy)) (fun r hr => hR r (by simpa [rootsAllS] using hr)) start x hx
    | .nonlocalRebind _, _, _, _, _, x, hx => by simp [itemsS] at hx
    | .fwd _ _ _ _ _ _, _, _, _, _, x, hx => by simp [itemsS] at hx
    | .rebind _, _, _, _, _, x, hx => by simp [itemsS] at hx
    | .mutate _ _, _, _, _, _, x, hx => by simp [itemsS] at hx
    | .delete _, _, _, _, _, x, hx => by simp [itemsS] at hx
    | .handOver _ _, _, _, _, _, x, hx => by simp [itemsS] at hx
    | .decoy _ _, _, _, _, _, x, hx => by simp [itemsS] at hx
    | .unrelated _, _, _, _, _, x, hx => by simp [itemsS] at hx
  theorem itemsSL_placed (p : Prog) (roots A : List Nat) (c : Clean p roots A) : (l : StmtList) →
      okSL [p.va, p.vk] l = true → (∀ x ∈ assignedAllSL l, x ∈ A) → (∀ r ∈ rootsAllSL l, r ∈ roots) →
      ∀ start, ∀ x ∈ itemsSL start l, Placed roots p.va p.vk start (kidsSL p.va p.vk l) x
    | .nil, _, _, _, _, x, hx => by simp [itemsSL] at hx
    | .cons s rest, hok, hA, hR, start, x, hx => by
      simp only [okSL, Bool.and_eq_true] at hok
      simp only [itemsSL, List.mem_append] at hx
      rcases hx with hx | hx
      · obtain ⟨ok, off, child, e, hk, h1, h2, h3⟩ := itemsS_placed p roots A c s hok.1
          (fun y hy => hA y (by simp [assignedAllSL, hy])) (fun r hr => hR r (by simp [rootsAllSL, hr])) start x hx
        refine ⟨ok, off, child, e, ?_, h1, h2, h3⟩
        simp only [kidsSL]
        have hlt : off < (kidsS p.va p.vk s).length := (List.getElem?_eq_some_iff.1 hk).1
        rw [List.getElem?_append_left hlt]
        exact hk
      · obtain ⟨ok, off, child, e, hk, h1, h2, h3⟩ := itemsSL_placed p roots A c rest hok.2
          (fun y hy => hA y (by simp [assignedAllSL, hy])) (fun r hr => hR r (by simp [rootsAllSL, hr])) _ x hx
        refine ⟨ok, (kidsS p.va p.vk s).length + off, child, ?_, ?_, h1, h2, h3⟩
        · rw [e, kidsS_length p.va p.vk s]; omega
        · simp only [kidsSL]
          rw [List.getElem?_append_right (by omega)]
          simpa using hk
end

/-! ### the fuel of the revisit loop suffices -/

theorem callTree_size_pos (va vk : Nat) (callee : Tree) (npos : Nat) (kws : List Nat) (uva uvk : Bool) :
    1 ≤ (callTree va vk callee npos kws uva uvk).size := by
  simp [callTree, Tree.size]

theorem stmtOf_size (target : Option Nat) (e : Tree) : e.size ≤ (stmtOf target e).size := by
  cases target <;> simp [stmtOf, Tree.size, TreeList.size] <;> omega

mutual
  theorem deferN_size (va vk : Nat) : (s : NStmt) → (deferN s).length ≤ (renderN va vk s).size
    | .fwd callee npos kws uva uvk target => by
      simp only [deferN, List.length_singleton, renderN]
      exact Nat.le_trans (callTree_size_pos _ _ _ _ _ _ _) (stmtOf_size _ _)
    | .decoy h k => by
      simp only [deferN, List.length_singleton, renderN]
      refine Nat.le_trans ?_ (stmtOf_size _ _)
      simp [Tree.size]
    | .unrelated _ => by simp [deferN]
    | .block body => by
      simp only [deferN, renderN, Tree.size, TreeList.size]
      have := deferNL_size va vk body
      omega
  theorem deferNL_size (va vk : Nat) : (l : NStmtList) → (deferNL l).length ≤ (renderNL va vk l).size
    | .nil => by simp [deferNL]
    | .cons s rest => by
      simp only [deferNL, List.length_append, renderNL, TreeList.size]
      have := deferN_size va vk s
      have := deferNL_size va vk rest
      omega
end

mutual
  theorem itemsS_size (va vk : Nat) (start : Nat) : (s : Stmt) → (itemsS start s).length ≤ (renderS va vk s).size
    | .nested body => by
      simp only [itemsS, List.length_map, renderS, Tree.size]
      have := deferNL_size va vk body
      omega
    | .block body => by
      simp only [itemsS, renderS, Tree.size, TreeList.size]
      have := itemsSL_size va vk start body
      omega
    | .nonlocalRebind _ => by simp [itemsS]
    | .fwd _ _ _ _ _ _ => by simp [itemsS]
    | .rebind _ => by simp [itemsS]
    | .mutate _ _ => by simp [itemsS]
    | .delete _ => by simp [itemsS]
    | .handOver _ _ => by simp [itemsS]
    | .decoy _ _ => by simp [itemsS]
    | .unrelated _ => by simp [itemsS]
  theorem itemsSL_size (va vk : Nat) (start : Nat) : (l : StmtList) → (itemsSL start l).length ≤ (renderSL va vk l).size
    | .nil => by simp [itemsSL]
    | .cons s rest => by
      simp only [itemsSL, List.length_append, renderSL, TreeList.size]
      have := itemsS_size va vk start s
      have := itemsSL_size va vk (start + (kidsS 0 0 s).length) rest
      omega
end

end Flat
end SV
