/-
  Lemmas/C08ND.lean — the source map of a merge step never lists a parameter name twice
  ("exactly one entry per parameter", the association-list side of it).
-/
import Sigverif.Lemmas.C08Step
namespace SV
set_option linter.unusedSimpArgs false
set_option linter.unusedVariables false

def KeysND {α : Type} (d : List (Nat × α)) : Prop := (dkeys d).Nodup

theorem dkeys_dset {α : Type} (d : List (Nat × α)) (k : Nat) (v : α) :
    dkeys (dset d k v) = if dhas d k = true then dkeys d else dkeys d ++ [k] := by
  induction d with
  | nil => simp [dset, dkeys, dhas, dget]
  | cons e t ih =>
    obtain ⟨a, b⟩ := e
    simp only [dset]
    by_cases hak : a = k
    · subst hak
      simp [dkeys, dhas, dget]
    · simp only [hak, if_false]
      have : dhas ((a, b) :: t) k = dhas t k := by simp [dhas, dget, hak]
      rw [this]
      simp only [dkeys, List.map_cons] at ih ⊢
      rw [ih]
      split <;> simp

theorem mem_dkeys_iff {α : Type} (d : List (Nat × α)) (k : Nat) : k ∈ dkeys d ↔ dhas d k = true := by
  induction d with
  | nil => simp [dkeys, dhas, dget]
  | cons e t ih =>
    obtain ⟨a, b⟩ := e
    simp only [dkeys, List.map_cons, List.mem_cons, dhas, dget] at ih ⊢
    by_cases hak : a = k
    · simp [hak]
    · have : ¬ k = a := fun x => hak x.symm
      simp [hak, this, ih]

theorem KeysND.dset {α : Type} {d : List (Nat × α)} (h : KeysND d) (k : Nat) (v : α) : KeysND (dset d k v) := by
  unfold KeysND at *
  rw [dkeys_dset]
  split
  · exact h
  · rename_i hk
    rw [List.nodup_append]
    refine ⟨h, by simp, ?_⟩
    intro a ha b hb
    simp only [List.mem_singleton] at hb
    subst hb
    intro e
    subst e
    exact hk ((mem_dkeys_iff d a).1 ha)

theorem KeysND.nil {α : Type} : KeysND ([] : List (Nat × α)) := by simp [KeysND, dkeys]

theorem KeysND.addSources {d : Srcs} (h : KeysND d) (n : Nat) (frm : List Srcs) : KeysND (addSources d n frm) :=
  h.dset _ _

theorem KeysND.addAllSources {d : Srcs} (h : KeysND d) (ps : List Param) (frm : Srcs) :
    KeysND (addAllSources d ps frm) := by
  unfold SV.addAllSources
  induction ps generalizing d with
  | nil => exact h
  | cons p t ih => simp only [List.foldl_cons]; exact ih (h.dset _ _)

theorem KeysND.dpop {α : Type} {d : List (Nat × α)} (h : KeysND d) (k : Nat) : KeysND (dpop d k) := by
  unfold KeysND dkeys SV.dpop at *
  exact (List.Sublist.map _ List.filter_sublist).nodup h

theorem KeysND.dupdate {α : Type} {d : List (Nat × α)} (h : KeysND d) (e : List (Nat × α)) : KeysND (dupdate d e) := by
  unfold SV.dupdate
  induction e generalizing d with
  | nil => exact h
  | cons x t ih => simp only [List.foldl_cons]; exact ih (h.dset _ _)

/-! ### phases -/

theorem phaseK1_nd (l r : Sorted) (ps : List Param) (st : MState) (h : KeysND st.src) :
    KeysND (phaseK1 l r ps st).src := by
  induction ps generalizing st with
  | nil => exact h
  | cons p ps ih =>
    simp only [phaseK1]
    split
    · exact ih _ (h.dset _ _)
    · exact ih _ h

theorem phaseK2_src_eq (l : Sorted) (ps : List Param) (st : MState) : (phaseK2 l ps st).src = st.src := by
  induction ps generalizing st with
  | nil => rfl
  | cons p ps ih =>
    simp only [phaseK2]
    split
    · exact ih _
    · rw [ih]

theorem unbalancedPos_nd (side : Side) (l r : Sorted) (ex : Param) (cf : List Param) (st st' : MState)
    (cf' : List Param) (hst : KeysND st.src)
    (h : unbalancedPos side l r ex cf st = .ok (st', cf')) : KeysND st'.src := by
  cases cf with
  | cons o rest =>
    simp only [unbalancedPos, Except.ok.injEq, Prod.mk.injEq] at h
    obtain ⟨rfl, rfl⟩ := h
    show KeysND (if ex.name = o.name then _ else _)
    split <;> exact hst.addSources _ _
  | nil =>
    cases side <;> simp only [unbalancedPos] at h <;> (repeat' split at h) <;>
      first
      | (cases h; done)
      | (simp only [Except.ok.injEq, Prod.mk.injEq] at h
         obtain ⟨rfl, rfl⟩ := h
         first | exact hst | exact hst.addSources _ _)

theorem phaseP_nd (l r : Sorted) (ls rs il ir : List Param) (st st' : MState) (il' ir' : List Param)
    (hst : KeysND st.src) (h : phaseP l r ls rs il ir st = .ok (st', il', ir')) : KeysND st'.src := by
  induction ls, rs, il, ir, st using phaseP.induct l r with
  | case1 il ir st =>
    simp only [phaseP, Except.ok.injEq, Prod.mk.injEq] at h
    obtain ⟨rfl, rfl, rfl⟩ := h
    exact hst
  | case2 lp ls rp rs il ir st st1 ih =>
    simp only [phaseP] at h
    apply ih _ h
    show KeysND (if h : lp.name = rp.name then _ else _)
    split <;> exact hst.addSources _ _
  | case3 lp ls il ir st ih =>
    simp only [phaseP, bind, Except.bind] at h
    split at h
    · cases h
    · rename_i v hv
      obtain ⟨st1, ir1⟩ := v
      exact ih _ _ (unbalancedPos_nd _ _ _ _ _ _ _ _ hst hv) h
  | case4 rp rs il ir st ih =>
    simp only [phaseP, bind, Except.bind] at h
    split at h
    · cases h
    · rename_i v hv
      obtain ⟨st1, il1⟩ := v
      exact ih _ _ (unbalancedPos_nd _ _ _ _ _ _ _ _ hst hv) h

theorem unbalancedPok_nd (side : Side) (l r : Sorted) (ex : Param) (st st' : MState)
    (hst : KeysND st.src) (h : unbalancedPok side l r ex st = .ok st') : KeysND st'.src := by
  cases side <;> simp only [unbalancedPok] at h <;> (repeat' split at h) <;>
    first
    | (cases h; done)
    | (simp only [Except.ok.injEq] at h
       subst h
       first | exact hst | exact hst.addSources _ _)

theorem phaseQ_nd (l r : Sorted) (il ir : List Param) (st st' : MState)
    (hst : KeysND st.src) (h : phaseQ l r il ir st = .ok st') : KeysND st'.src := by
  induction il, ir, st using phaseQ_ind l r with
  | h1 st =>
    simp only [phaseQ, Except.ok.injEq] at h
    subst h; exact hst
  | h2 lp ls rp rs st hn ih =>
    rw [phaseQ, if_pos hn] at h
    exact ih (hst.addSources _ _) h
  | h3 lp ls rp rs st hn ih =>
    rw [phaseQ, if_neg hn] at h
    exact ih (hst.addSources _ _) h
  | h4 lp ls st ih =>
    simp only [phaseQ, bind, Except.bind] at h
    split at h
    · cases h
    · rename_i v hv
      exact ih _ (unbalancedPok_nd _ _ _ _ _ _ hst hv) h
  | h5 rp rs st ih =>
    simp only [phaseQ, bind, Except.bind] at h
    split at h
    · cases h
    · rename_i v hv
      exact ih _ (unbalancedPok_nd _ _ _ _ _ _ hst hv) h

theorem mergeUnmatched_nd (side : Side) (l r : Sorted) (st st' : MState) (hst : KeysND st.src)
    (h : mergeUnmatched side l r st = .ok st') : KeysND st'.src := by
  cases side <;> simp only [mergeUnmatched] at h <;> (repeat' split at h) <;>
    first
    | (cases h; done)
    | (simp only [Except.ok.injEq] at h
       subst h
       first | exact hst | exact hst.addAllSources _ _)

theorem addStarargs_nd (l r : Sorted) (wL wR : Bool) (left right : Option Param) (src : Srcs)
    (h : KeysND src) : KeysND (addStarargs l r wL wR left right src).2 := by
  unfold addStarargs
  (repeat' split) <;> first | exact h | exact h.addSources _ _

/-- the source map a merge step builds has no repeated key, whatever the operands -/
theorem mergeStep_nd (l r s : Sorted) (h : mergeStep l r = .ok s) : KeysND s.src := by
  obtain ⟨st1, st2, st3, st4, il, ir, h1, h2, h3, h4, rfl⟩ := mergeStep_ok l r s h
  have k0 : KeysND ({ vaL := l.va.isSome, vaR := r.va.isSome, vkL := l.vk.isSome,
                      vkR := r.vk.isSome } : MState).src := KeysND.nil
  have kK1 := phaseK1_nd l r l.kwo _ k0
  have kK2 : KeysND (phaseK2 l r.kwo (phaseK1 l r l.kwo
      { vaL := l.va.isSome, vaR := r.va.isSome, vkL := l.vk.isSome, vkR := r.vk.isSome })).src := by
    rw [phaseK2_src_eq]; exact kK1
  have k1 := phaseP_nd l r _ _ _ _ _ _ _ _ kK2 h1
  have k2 := phaseQ_nd l r _ _ _ _ k1 h2
  have k3 := mergeUnmatched_nd _ _ _ _ _ k2 h3
  have k4 := mergeUnmatched_nd _ _ _ _ _ k3 h4
  exact addStarargs_nd _ _ _ _ _ _ _ (addStarargs_nd _ _ _ _ _ _ _ k4)

end SV
