/-
  Lemmas/C19Main.lean — inversion of a successful `maskPartial` and small helpers for the C19
  property theorems.
-/
import Sigverif.Lemmas.C19Loop
namespace SV


/-- inversion of a successful `maskPartial` -/
theorem partial_ok {sig R : USig} (hwf : WF sig.params) {n : Nat} {kw : List (Nat × Nat)} {o : Nat}
    (hR : maskPartial sig n kw o = .ok R) :
    ∃ st, (n ≤ ((sortParams sig).pos ++ (sortParams sig).pok).length ∨ (sortParams sig).va.isSome = true) ∧
      Inv ((sortParams sig).pos.drop n) (sortParams sig).vk
        (initState (sortParams sig) {} (names (((sortParams sig).pos ++ (sortParams sig).pok).take n))
          ((sortParams sig).pok.drop (n - (sortParams sig).pos.length))) ∧
      maskNames (sortParams sig).vk
        (initState (sortParams sig) {} (names (((sortParams sig).pos ++ (sortParams sig).pok).take n))
          ((sortParams sig).pok.drop (n - (sortParams sig).pos.length))) (partNames kw o) = .ok st ∧
      SWF (sOf ((sortParams sig).pos.drop n) (sortParams sig).vk st) ∧
      R = { params := (sOf ((sortParams sig).pos.drop n) (sortParams sig).vk st).all,
            src := st.src, depths := dset (copyDepths sig.depths 1) o 0,
            ret := sig.ret, uret := sig.uret } := by
  rw [partial_eq] at hR
  have hs := sortParams_swf hwf
  have hd := (sortParams_src sig).2
  generalize sortParams sig = s at *
  cases hp : prelude s n {} with
  | error e => rw [hp] at hR; cases hR
  | ok t =>
    obtain ⟨c, pos, pok⟩ := t
    rw [hp] at hR
    simp only at hR
    have inv0 := init_inv hs hp rfl
    rcases prelude_ok hp with ⟨ha, _⟩ | ⟨-, hcount, rfl, rfl, rfl⟩
    · cases ha
    cases hm : maskNames s.vk (initState s {} (names ((s.pos ++ s.pok).take n))
        (s.pok.drop (n - s.pos.length))) (partNames kw o) with
    | error e => rw [hm] at hR; cases hR
    | ok st =>
      rw [hm] at hR
      simp only [applyParams, bind, Except.bind] at hR
      have winv := (loopP_inv kw inv0.toWInv hm).1
      split at hR
      · cases hR
      · rename_i u hv
        cases u
        simp only [pure, Except.pure, Except.ok.injEq] at hR
        have hv' : validate (sOf (s.pos.drop n) s.vk st).all = .ok () := hv
        rw [validate_ok_iff, pairwiseVR_all_iff winv.bk] at hv'
        refine ⟨st, hcount, inv0, rfl, ⟨winv.bk, hv'.1, hv'.2⟩, ?_⟩
        rw [← hR, hd]
        rfl


/-- in a well-formed signature the star parameters share no name with a positional parameter -/
theorem SWF.star_names {s : Sorted} (hs : SWF s) :
    ∀ y ∈ names (s.pos ++ s.pok), (∀ a, s.va = some a → a.name ≠ y) ∧ (∀ a, s.vk = some a → a.name ≠ y) := by
  have nd := hs.nd
  intro y hy
  constructor
  · intro a ha e
    simp only [Sorted.all, ha, names_append, names_toList_some, List.nodup_append, List.mem_append,
      List.mem_singleton] at nd hy
    grind
  · intro a ha e
    simp only [Sorted.all, ha, names_append, names_toList_some, List.nodup_append, List.mem_append,
      List.mem_singleton] at nd hy
    grind



theorem idxOf_before {L B : List Nat} {x y : Nat} (hx : x ∉ L) (hy : y ∈ L) :
    (L ++ x :: B).idxOf y < (L ++ x :: B).idxOf x := by
  rw [List.idxOf_append, List.idxOf_append, if_pos hy, if_neg hx, List.idxOf_cons_self]
  have := List.idxOf_lt_length_of_mem hy
  omega

theorem prefix_before {α : Type} {l A B : List α} {q : α} (h : l <+: A ++ q :: B) (hq : q ∉ l) :
    l <+: A := by
  rcases List.prefix_or_prefix_of_prefix h (List.prefix_append A (q :: B)) with h1 | h1
  · exact h1
  · obtain ⟨t, rfl⟩ := h1
    rw [List.prefix_append_right_inj] at h
    cases t with
    | nil => simp
    | cons a t' =>
      rw [List.cons_prefix_cons] at h
      exfalso; apply hq; rw [h.1]; simp


theorem mem_all_iff_C19 {s : Sorted} {p : Param} :
    p ∈ s.all ↔ p ∈ s.pos ∨ p ∈ s.pok ∨ s.va = some p ∨ p ∈ s.kwo ∨ s.vk = some p := by
  simp only [Sorted.all, List.mem_append, Option.mem_toList, or_assoc]


end SV
