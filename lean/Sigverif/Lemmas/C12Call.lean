/-
  Lemmas/C12Call.lean — comparing the call through the translator with the native call.
-/
import Sigverif.Lemmas.C12Trans
import Sigverif.Lemmas.C12Spec
namespace SV
set_option linter.unusedSimpArgs false

theorem dfltOf_of_mem {l : List Param} (hn : NamesDistinct l) {p : Param} (hp : p ∈ l) :
    dfltOf l p.name = p.dflt := by
  induction l with
  | nil => simp at hp
  | cons a l ih =>
    simp only [NamesDistinct, List.pairwise_cons] at hn
    simp only [dfltOf, List.find?_cons]
    rcases List.mem_cons.1 hp with rfl | hp'
    · simp
    · have : a.name ≠ p.name := hn.1 p hp'
      simp only [this, decide_false]
      exact ih hn.2 hp'

theorem dfltOf_none {l : List Param} {x : Nat} (h : ∀ p ∈ l, p.name ≠ x) : dfltOf l x = none := by
  simp only [dfltOf]
  rw [List.find?_eq_none.2]
  · rfl
  · intro p hp; simpa using h p hp

theorem dget_map_named {l : List Param} (val : Param → Nat) (hn : NamesDistinct l) {f : Param}
    (hf : f ∈ l) : dget (l.map (fun f => (f.name, val f))) f.name = some (val f) := by
  induction l with
  | nil => simp at hf
  | cons a l ih =>
    simp only [NamesDistinct, List.pairwise_cons] at hn
    simp only [List.map_cons, dget]
    rcases List.mem_cons.1 hf with rfl | hf'
    · simp
    · have : a.name ≠ f.name := hn.1 f hf'
      simp only [this, ↓reduceIte]
      exact ih hn.2 hf'

theorem dget_map_named_none {l : List Param} (val : Param → Nat) {x : Nat}
    (h : ∀ f ∈ l, f.name ≠ x) : dget (l.map (fun f => (f.name, val f))) x = none := by
  rw [dget_eq_none_iff]
  simp only [List.map_map, List.mem_map, Function.comp, not_exists, not_and]
  intro f hf; exact h f hf

theorem filledW_sublist (w : Param → Bool) (ps : List Param) (args : List Nat) :
    (filledW w ps args).Sublist ps := by
  induction ps generalizing args with
  | nil => simp [filledW]
  | cons f fs ih =>
    cases args with
    | nil => simp [filledW]
    | cons a as =>
      simp only [filledW]
      split
      · exact (ih _).cons_cons _
      · exact (ih _).cons _

theorem callOK_C3_iff (s : List Param) (args : List Nat) (kws : List (Nat × Nat))
    (hn : NamesDistinct s) :
    (∀ p ∈ s.filter isNamed,
      dhas (posNamed (positionals s) args ++ kwPart s kws) p.name = true ∨ p.dflt.isSome = true) ↔
    (∀ p ∈ s.filter isNamed, (callMap s args kws p.name).isSome = true) := by
  apply forall_congr'
  intro p
  apply imp_congr_right
  intro hp
  simp only [callMap, dfltOf_of_mem (hn.filter isNamed) hp, dhas]
  cases dget (posNamed (positionals s) args ++ kwPart s kws) p.name <;> simp

/-- what relates the function's signature `F` to the advertised one `A` -/
structure CallRel (F A : List Param) (P : List Nat) (w : Param → Bool) : Prop where
  hnF : NamesDistinct F
  hnA : NamesDistinct A
  hva : hasVa A = hasVa F
  hvk : hasVk A = hasVk F
  hkw : ∀ x, x ∈ kwNames A ↔ x ∈ kwNames F ∧ x ∉ P
  hnamed : ∀ x d, (∃ p ∈ A, isNamed p = true ∧ p.name = x ∧ p.dflt = d) ↔
                  (∃ p ∈ F, isNamed p = true ∧ p.name = x ∧ p.dflt = d)
  hpos : ∀ args, posNamed (positionals A) args =
                 posNamed ((positionals F).filter (fun p => !w p)) args
  hposlen : (positionals A).length = ((positionals F).filter (fun p => !w p)).length
  hw : ∀ f ∈ positionals F, w f = true → f.name ∈ kwNames A

section
variable {F A : List Param} {P : List Nat} {w : Param → Bool} (R : CallRel F A P w)
variable (args : List Nat) (kwargs : List (Nat × Nat))
include R

theorem CallRel.dfltOf_eq (x : Nat) :
    dfltOf (A.filter isNamed) x = dfltOf (F.filter isNamed) x := by
  by_cases h : ∃ p ∈ F, isNamed p = true ∧ p.name = x
  · obtain ⟨p, hp, hnm, rfl⟩ := h
    obtain ⟨q, hq, hqn, hqx, hqd⟩ := (R.hnamed p.name p.dflt).2 ⟨p, hp, hnm, rfl, rfl⟩
    rw [dfltOf_of_mem (R.hnF.filter isNamed) (List.mem_filter.2 ⟨hp, hnm⟩), ← hqx,
      dfltOf_of_mem (R.hnA.filter isNamed) (List.mem_filter.2 ⟨hq, hqn⟩), hqd]
  · rw [dfltOf_none, dfltOf_none]
    · intro p hp hx
      obtain ⟨hp1, hp2⟩ := List.mem_filter.1 hp
      exact h ⟨p, hp1, hp2, hx⟩
    · intro p hp hx
      obtain ⟨hp1, hp2⟩ := List.mem_filter.1 hp
      obtain ⟨q, hq, hqn, hqx, -⟩ := (R.hnamed x p.dflt).1 ⟨p, hp1, hp2, hx, rfl⟩
      exact h ⟨q, hq, hqn, hqx⟩

/-- positional part of A's binding is empty at the name of a filled slot -/
theorem CallRel.posA_none {f : Param} (hf : f ∈ positionals F) (hwf : w f = true) :
    dget (posNamed (positionals A) args) f.name = none := by
  rw [R.hpos]
  apply dget_posNamed_none
  intro p hp hx
  obtain ⟨hp1, hp2⟩ := List.mem_filter.1 hp
  have := (R.hnF.filter isPositional).eq_of_name hp1 hf hx
  subst this
  simp [hwf] at hp2

end

section
variable {F A : List Param} {P : List Nat} {w : Param → Bool} (R : CallRel F A P w)
variable (args : List Nat) (kwargs : List (Nat × Nat))
variable (hnoP : ∀ kv ∈ kwargs, kv.1 ∉ P)
variable (hval : ∀ f ∈ positionals F, w f = true → ((dget kwargs f.name).or f.dflt).isSome = true)

/-- the translated call -/
def trArgs (F : List Param) (w : Param → Bool) (args : List Nat) (kwargs : List (Nat × Nat)) :
    List Nat := fill w (valOf kwargs) (positionals F) args
def trKw (F : List Param) (w : Param → Bool) (args : List Nat) (kwargs : List (Nat × Nat)) :
    List (Nat × Nat) :=
  kwargs.filter (fun kv => !(names (filledW w (positionals F) args)).contains kv.1)

include R

theorem CallRel.posF (x : Nat) :
    dget (posNamed (positionals F) (trArgs F w args kwargs)) x =
      (dget (posNamed (positionals A) args) x).or
        (dget ((filledW w (positionals F) args).map (fun f => (f.name, valOf kwargs f))) x) := by
  rw [R.hpos]
  exact fill_posNamed w (valOf kwargs) (positionals F) args (R.hnF.filter isPositional) x

theorem CallRel.posF_not_filled (x : Nat) (hx : x ∉ names (filledW w (positionals F) args)) :
    dget (posNamed (positionals F) (trArgs F w args kwargs)) x =
      dget (posNamed (positionals A) args) x := by
  rw [R.posF, dget_map_named_none]
  · simp
  · intro f hf hfx
    exact hx (List.mem_map.2 ⟨f, hf, hfx⟩)

omit R in
theorem dget_trKw (x : Nat) :
    dget (trKw F w args kwargs) x =
      if x ∈ names (filledW w (positionals F) args) then none else dget kwargs x := by
  unfold trKw
  rw [dget_filter_key kwargs (fun k => !(names (filledW w (positionals F) args)).contains k) x]
  by_cases h : x ∈ names (filledW w (positionals F) args) <;> simp [h]

include hnoP hval

theorem CallRel.callMap_eq (x : Nat) :
    callMap F (trArgs F w args kwargs) (trKw F w args kwargs) x = callMap A args kwargs x := by
  simp only [callMap, dget_append, kwPart, dget_filter_key _ (fun k => (kwNames F).contains k),
    dget_filter_key _ (fun k => (kwNames A).contains k), R.dfltOf_eq]
  by_cases hx : x ∈ names (filledW w (positionals F) args)
  · obtain ⟨f, hf, rfl⟩ := List.mem_map.1 hx
    have hfm := mem_filledW hf
    have hkA : (kwNames A).contains f.name = true := by simpa using R.hw f hfm.1 hfm.2
    have hdist : NamesDistinct (filledW w (positionals F) args) :=
      List.Pairwise.sublist (filledW_sublist w _ _) (R.hnF.filter isPositional)
    rw [R.posF, R.posA_none args hfm.1 hfm.2, dget_map_named _ hdist hf, hkA]
    have hd : dfltOf (F.filter isNamed) f.name = f.dflt := by
      apply dfltOf_of_mem (R.hnF.filter isNamed)
      have := List.mem_filter.1 hfm.1
      refine List.mem_filter.2 ⟨this.1, ?_⟩
      have h2 := this.2
      simp only [isPositional, isNamed] at h2 ⊢
      simp only [Bool.or_eq_true] at h2 ⊢
      exact Or.inl h2
    rw [hd]
    have hv := hval f hfm.1 hfm.2
    simp only [valOf, Option.none_or, Option.some_or, ↓reduceIte]
    cases h1 : dget kwargs f.name with
    | some v => simp
    | none =>
      cases h2 : f.dflt with
      | some d => simp
      | none => simp [h1, h2] at hv
  · rw [R.posF_not_filled args kwargs x hx, dget_trKw, if_neg hx]
    by_cases hkF : x ∈ kwNames F
    · by_cases hP : x ∈ P
      · have hkA : ¬ x ∈ kwNames A := fun h => ((R.hkw x).1 h).2 hP
        have hnone : dget kwargs x = none := by
          rw [dget_eq_none_iff]
          intro h
          obtain ⟨kv, hkv, rfl⟩ := List.mem_map.1 h
          exact hnoP kv hkv hP
        simp [hkF, hkA, hnone]
      · have hkA : x ∈ kwNames A := (R.hkw x).2 ⟨hkF, hP⟩
        simp [hkF, hkA]
    · have hkA : ¬ x ∈ kwNames A := fun h => hkF ((R.hkw x).1 h).1
      simp [hkF, hkA]

end

section
variable {F A : List Param} {P : List Nat} {w : Param → Bool} (R : CallRel F A P w)
variable (args : List Nat) (kwargs : List (Nat × Nat))
variable (hnoP : ∀ kv ∈ kwargs, kv.1 ∉ P)
variable (hval : ∀ f ∈ positionals F, w f = true → ((dget kwargs f.name).or f.dflt).isSome = true)
include R

theorem CallRel.drop_eq :
    (trArgs F w args kwargs).drop (positionals F).length = args.drop (positionals A).length := by
  rw [R.hposlen]; exact fill_drop w (valOf kwargs) (positionals F) args

omit R in
theorem mem_trKw (kv : Nat × Nat) :
    kv ∈ trKw F w args kwargs ↔ kv ∈ kwargs ∧ kv.1 ∉ names (filledW w (positionals F) args) := by
  simp [trKw]

include hnoP hval

theorem CallRel.callOK_iff :
    callOK F (trArgs F w args kwargs) (trKw F w args kwargs) ↔ callOK A args kwargs := by
  unfold callOK
  have hC1 : ((trArgs F w args kwargs).length ≤ (positionals F).length ∨ hasVa F = true) ↔
      (args.length ≤ (positionals A).length ∨ hasVa A = true) := by
    rw [R.hva, ← List.drop_eq_nil_iff, ← List.drop_eq_nil_iff, R.drop_eq]
  have hkwP : ∀ kv ∈ kwargs, ((kwNames A).contains kv.1 = (kwNames F).contains kv.1) := by
    intro kv hkv
    rw [Bool.eq_iff_iff]
    simp only [List.contains_eq_mem, decide_eq_true_eq]
    rw [R.hkw]
    exact ⟨fun h => h.1, fun h => ⟨h, hnoP kv hkv⟩⟩
  have hC2 : (∀ kv ∈ trKw F w args kwargs,
      ((kwNames F).contains kv.1 = true →
        dhas (posNamed (positionals F) (trArgs F w args kwargs)) kv.1 = false) ∧
      ((kwNames F).contains kv.1 = false → hasVk F = true)) ↔
      (∀ kv ∈ kwargs,
        ((kwNames A).contains kv.1 = true → dhas (posNamed (positionals A) args) kv.1 = false) ∧
        ((kwNames A).contains kv.1 = false → hasVk A = true)) := by
    constructor
    · intro h kv hkv
      by_cases hx : kv.1 ∈ names (filledW w (positionals F) args)
      · obtain ⟨f, hf, hfx⟩ := List.mem_map.1 hx
        have hfm := mem_filledW hf
        have hkA : (kwNames A).contains kv.1 = true := by
          rw [← hfx]; simpa using R.hw f hfm.1 hfm.2
        refine ⟨fun _ => ?_, fun h' => by rw [hkA] at h'; cases h'⟩
        rw [← hfx]
        simp only [dhas, R.posA_none args hfm.1 hfm.2, Option.isSome_none]
      · have := h kv ((mem_trKw args kwargs kv).2 ⟨hkv, hx⟩)
        rw [hkwP kv hkv, R.hvk]
        simp only [dhas, R.posF_not_filled args kwargs kv.1 hx] at this
        exact this
    · intro h kv hkv
      obtain ⟨hkv1, hx⟩ := (mem_trKw args kwargs kv).1 hkv
      have := h kv hkv1
      rw [hkwP kv hkv1, R.hvk] at this
      simp only [dhas, R.posF_not_filled args kwargs kv.1 hx]
      exact this
  have hC3 : (∀ p ∈ F.filter isNamed,
      dhas (posNamed (positionals F) (trArgs F w args kwargs) ++ kwPart F (trKw F w args kwargs)) p.name
        = true ∨ p.dflt.isSome = true) ↔
      (∀ p ∈ A.filter isNamed,
        dhas (posNamed (positionals A) args ++ kwPart A kwargs) p.name = true ∨ p.dflt.isSome = true) := by
    rw [callOK_C3_iff F _ _ R.hnF, callOK_C3_iff A _ _ R.hnA]
    constructor
    · intro h p hp
      obtain ⟨hp1, hp2⟩ := List.mem_filter.1 hp
      obtain ⟨q, hq, hqn, hqx, -⟩ := (R.hnamed p.name p.dflt).1 ⟨p, hp1, hp2, rfl, rfl⟩
      have := h q (List.mem_filter.2 ⟨hq, hqn⟩)
      rw [R.callMap_eq args kwargs hnoP hval, hqx] at this
      exact this
    · intro h p hp
      obtain ⟨hp1, hp2⟩ := List.mem_filter.1 hp
      obtain ⟨q, hq, hqn, hqx, -⟩ := (R.hnamed p.name p.dflt).2 ⟨p, hp1, hp2, rfl, rfl⟩
      have := h q (List.mem_filter.2 ⟨hq, hqn⟩)
      rw [R.callMap_eq args kwargs hnoP hval]
      rw [hqx] at this
      exact this
  rw [hC1, hC2, hC3]

theorem CallRel.compare (hk : (kwargs.map (·.1)).Nodup) :
    match bindCall F (trArgs F w args kwargs) (trKw F w args kwargs), bindCall A args kwargs with
    | some b1, some b2 => b1.equiv b2
    | none, none => True
    | _, _ => False := by
  have hk' : ((trKw F w args kwargs).map (·.1)).Nodup :=
    List.Nodup.sublist (List.Sublist.map _ (List.filter_sublist)) hk
  have h1 := bindCall_isSome_iff F (trArgs F w args kwargs) (trKw F w args kwargs) R.hnF hk'
  have h2 := bindCall_isSome_iff A args kwargs R.hnA hk
  have h3 := R.callOK_iff args kwargs hnoP hval
  cases hb1 : bindCall F (trArgs F w args kwargs) (trKw F w args kwargs) with
  | none =>
    cases hb2 : bindCall A args kwargs with
    | none => trivial
    | some b2 =>
      rw [hb1] at h1; rw [hb2] at h2
      have := h1.2 (h3.2 (h2.1 rfl))
      cases this
  | some b1 =>
    cases hb2 : bindCall A args kwargs with
    | none =>
      rw [hb1] at h1; rw [hb2] at h2
      have := h2.2 (h3.1 (h1.1 rfl))
      cases this
    | some b2 =>
      obtain ⟨n1, v1, k1⟩ := bindCall_some_spec F _ _ hk' b1 hb1
      obtain ⟨n2, v2, k2⟩ := bindCall_some_spec A _ _ hk b2 hb2
      refine ⟨fun x => ?_, ?_, ?_, fun x => ?_⟩
      · rw [n1, n2, R.callMap_eq args kwargs hnoP hval]
      · rw [v1, v2, R.hva, R.drop_eq]
      · rw [k1, k2, R.hvk]; split <;> rfl
      · rw [k1, k2, R.hvk]
        by_cases hv : hasVk F = true
        · simp only [hv, ↓reduceIte, Option.bind_some, extraPart]
          rw [dget_filter_key _ (fun k => !(kwNames F).contains k),
            dget_filter_key _ (fun k => !(kwNames A).contains k), dget_trKw]
          by_cases hx : x ∈ names (filledW w (positionals F) args)
          · obtain ⟨f, hf, hfx⟩ := List.mem_map.1 hx
            have hfm := mem_filledW hf
            have hkA : x ∈ kwNames A := by rw [← hfx]; exact R.hw f hfm.1 hfm.2
            have hkF : x ∈ kwNames F := ((R.hkw x).1 hkA).1
            simp [hkA, hkF]
          · simp only [hx, ↓reduceIte]
            by_cases hkF : x ∈ kwNames F
            · by_cases hP : x ∈ P
              · have hkA : ¬ x ∈ kwNames A := fun h => ((R.hkw x).1 h).2 hP
                have hnone : dget kwargs x = none := by
                  rw [dget_eq_none_iff]
                  intro h
                  obtain ⟨kv, hkv, rfl⟩ := List.mem_map.1 h
                  exact hnoP kv hkv hP
                simp [hkF, hkA, hnone]
              · have hkA : x ∈ kwNames A := (R.hkw x).2 ⟨hkF, hP⟩
                simp [hkF, hkA]
            · have hkA : ¬ x ∈ kwNames A := fun h => hkF ((R.hkw x).1 h).1
              simp [hkF, hkA]
        · simp [hv]

end

end SV
