/-
  Lemmas/C05TotalBasic.lean — the `revisit` queue is only ever extended, and the small state
  operations do not touch it.
-/
import Sigverif.Model.Visitor
namespace SV
namespace C05T

/-- total size of the queued nodes -/
def sz : List (Tree × Nat) → Nat
  | [] => 0
  | e :: l => e.1.size + sz l

@[simp] theorem sz_nil : sz [] = 0 := rfl
@[simp] theorem sz_cons (e : Tree × Nat) (l) : sz (e :: l) = e.1.size + sz l := rfl
@[simp] theorem sz_append (a b : List (Tree × Nat)) : sz (a ++ b) = sz a + sz b := by
  induction a with
  | nil => simp
  | cons e l ih => simp [ih]; omega

/-- `l'` extends `l` by queued nodes of total size at most `n` -/
def Ext (l l' : List (Tree × Nat)) (n : Nat) : Prop := ∃ new, l' = l ++ new ∧ sz new ≤ n

theorem Ext.refl (l : List (Tree × Nat)) (n : Nat) : Ext l l n := ⟨[], by simp, by simp⟩

theorem Ext.of_eq {l l' : List (Tree × Nat)} (h : l' = l) (n : Nat) : Ext l l' n := by
  subst h; exact Ext.refl _ _

theorem Ext.trans {a b c : List (Tree × Nat)} {n m : Nat} (h1 : Ext a b n) (h2 : Ext b c m) :
    Ext a c (n + m) := by
  obtain ⟨x, rfl, hx⟩ := h1
  obtain ⟨y, rfl, hy⟩ := h2
  exact ⟨x ++ y, by simp, by simp; omega⟩

theorem Ext.mono {a b : List (Tree × Nat)} {n m : Nat} (h : Ext a b n) (hnm : n ≤ m) : Ext a b m := by
  obtain ⟨x, rfl, hx⟩ := h
  exact ⟨x, rfl, by omega⟩

theorem Ext.trans_le {a b c : List (Tree × Nat)} {n m k : Nat} (h1 : Ext a b n) (h2 : Ext b c m)
    (h : n + m ≤ k) : Ext a c k := (h1.trans h2).mono h

/-! ### sizes -/

theorem Tree.size_pos : ∀ t : Tree, 1 ≤ t.size
  | .name _ _ => by simp [Tree.size]
  | .attr _ _ => by simp [Tree.size]
  | .call _ _ _ => by simp [Tree.size]
  | .fdef _ _ _ _ _ _ => by simp [Tree.size]
  | .nonloc _ => by simp [Tree.size]
  | .other _ => by simp [Tree.size]

/-- size of the non-starred arguments -/
def plainSize : ArgList → Nat
  | .nil => 0
  | .plain t r => t.size + plainSize r
  | .starred _ r => plainSize r
/-- size of the starred arguments -/
def starSize : ArgList → Nat
  | .nil => 0
  | .plain _ r => starSize r
  | .starred t r => t.size + starSize r
theorem plain_add_star : ∀ as : ArgList, plainSize as + starSize as = as.size
  | .nil => by simp [plainSize, starSize, ArgList.size]
  | .plain t r => by have := plain_add_star r; simp [plainSize, starSize, ArgList.size]; omega
  | .starred t r => by have := plain_add_star r; simp [plainSize, starSize, ArgList.size]; omega

def kwSize : KwList → Nat
  | .nil => 0
  | .kw _ v r => v.size + kwSize r
  | .dstar _ r => kwSize r
def dstarSize : KwList → Nat
  | .nil => 0
  | .kw _ _ r => dstarSize r
  | .dstar v r => v.size + dstarSize r
theorem kw_add_dstar : ∀ ks : KwList, kwSize ks + dstarSize ks = ks.size
  | .nil => by simp [kwSize, dstarSize, KwList.size]
  | .kw _ v r => by have := kw_add_dstar r; simp [kwSize, dstarSize, KwList.size]; omega
  | .dstar v r => by have := kw_add_dstar r; simp [kwSize, dstarSize, KwList.size]; omega

/-! ### the state operations that do not touch `revisit` -/

@[simp] theorem setNs_revisit (st : VState) (i : Nat) (n : NS) : (st.setNs i n).revisit = st.revisit := rfl

@[simp] theorem assign_revisit (st : VState) (name : Nat) (e : Entry) :
    (st.assign name e).revisit = st.revisit := rfl

@[simp] theorem setImm_revisit (st : VState) (name : Nat) : (st.setImm name).revisit = st.revisit := rfl

@[simp] theorem addNonlocal_revisit (st : VState) (name : Nat) :
    (st.addNonlocal name).revisit = st.revisit := by
  unfold VState.addNonlocal
  simp only []
  split <;> rfl

@[simp] theorem taint_revisit (st : VState) (name : Nat) : (st.taint name).revisit = st.revisit := by
  unfold VState.taint
  split <;> rfl

@[simp] theorem visitName_revisit (st : VState) (id : Nat) (ctx : Ctx) :
    (visitName st id ctx).revisit = st.revisit := by
  unfold visitName
  split <;> simp

theorem foldl_revisit {α : Type} (f : VState → α → VState)
    (hf : ∀ st a, (f st a).revisit = st.revisit) (l : List α) (st : VState) :
    (l.foldl f st).revisit = st.revisit := by
  induction l generalizing st with
  | nil => rfl
  | cons a l ih => simp [List.foldl, ih, hf]

@[simp] theorem processParams_revisit (st : VState) (po args kwo : List Nat) (va vk : Option Nat)
    (main : Bool) : (processParams st po args kwo va vk main).revisit = st.revisit := by
  unfold processParams
  have h1 : ((po ++ args ++ kwo).foldl
      (fun st n => st.assign n { m := if main then .arg n none else .unknown }) st).revisit
      = st.revisit :=
    foldl_revisit (fun st n => st.assign n { m := if main then .arg n none else .unknown })
      (fun _ _ => rfl) _ _
  generalize (po ++ args ++ kwo).foldl
      (fun st n => st.assign n { m := if main then .arg n none else .unknown }) st = st1 at h1 ⊢
  cases va <;> cases vk <;> cases main <;> simp [h1]

/-- the taint step of `process_Call` -/
theorem taintStep_revisit (wrapped : RM) (st : VState) :
    (match wrapped with
      | .attr _ _ => match wrapped.instance with
        | .arg n _ => st.taint n
        | _ => st
      | _ => st).revisit = st.revisit := by
  split
  · split <;> simp
  · rfl

end C05T
end SV
