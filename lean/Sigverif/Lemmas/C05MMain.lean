/-
  Lemmas/C05MMain.lean — discovery is sound for several forwarding calls and calls with keywords
  when the per-call signatures are role-consistent: the proofs behind Props/C05Multi.lean.
-/
import Sigverif.Props.C05Sound
import Sigverif.Lemmas.C05MNames
import Sigverif.Lemmas.C05MRoles
namespace SV

/-- per-call form: the non-collision hypotheses are those of `merge_sound_roles` (w.r.t. the
    per-call signatures) and of `forwards_sound` (for each plain call) -/
theorem c05m_sound_percall (own R : USig) (resolve : RM → RVal) (cs : List CallRec) (ss : List USig) (m : Nat) (K : List Nat)
    (ho : WF own.params) (hres : ∀ r w, resolve r = .fn w → WF w.params) (hK : K.Nodup)
    (hall : declaredAll own resolve (forwarding cs) = .ok ss)
    (hrc : roleCons (ss.map (·.params)))
    (hd : discovered own resolve (some cs) = .ok R)
    (hnc1 : nonColl R.params (ss.map (·.params)) K)
    (hnc2 : ∀ c ∈ forwarding cs, ∀ w s, PlainFwd resolve c w → declared own resolve c = .ok s →
              nonColl s.params [own.params, w.params] K)
    (hacc : accepts R.params m K = true) :
    R = own ∨ ∀ c ∈ forwarding cs, ∀ w, PlainFwd resolve c w → (∀ k ∈ K, k ∉ c.kwargs.map (·.1)) →
      wrapperRuns own.params w.params c.args.length (c.kwargs.map (·.1)) c.useVa c.useVk m K = true := by
  rw [discovered_eq_declared, hall] at hd
  cases ss with
  | nil => simp only [Except.ok.injEq] at hd; exact .inl hd.symm
  | cons s ss =>
    simp only at hd
    cases hm : merge (s :: ss) with
    | error e => rw [hm] at hd; simp only [Except.ok.injEq] at hd; exact .inl hd.symm
    | ok R' =>
      rw [hm] at hd
      simp only [Except.ok.injEq] at hd
      subst hd
      right
      intro c hc w hp hdisj
      have hmem := declaredAll_mem own resolve _ _ hall
      have hwf : ∀ t ∈ s :: ss, WF t.params := by
        intro t ht
        obtain ⟨c', _, hc'⟩ := hmem t ht
        exact declared_wf own resolve c' t hres hc'
      obtain ⟨sc, hsc, hdc⟩ := declaredAll_all own resolve _ _ hall c hc
      have hs := merge_sound_roles (s :: ss) R' m K hwf hK hrc hm hnc1 hacc sc hsc
      have hf := declared_plain own resolve c w sc hp hdc
      exact forwards_sound own w sc _ m _ K _ _ ho (hres _ _ hp.res) hp.nd hK hp.po hdisj hf
        (hnc2 c hc w sc hp hdc) hs

/-- the two non-collision hypotheses of `c05m_sound_percall` from one stated on R, the wrapper and
    the callees, plus: a keyword that is keyword-passable in R names a parameter of each per-call
    signature or is foreign to the wrapper and that callee -/
theorem c05m_sound_partial (own R : USig) (resolve : RM → RVal) (cs : List CallRec) (ss : List USig) (m : Nat) (K : List Nat)
    (ho : WF own.params) (hres : ∀ r w, resolve r = .fn w → WF w.params) (hK : K.Nodup)
    (hall : declaredAll own resolve (forwarding cs) = .ok ss)
    (hrc : roleCons (ss.map (·.params)))
    (hd : discovered own resolve (some cs) = .ok R)
    (hnc : ∀ k ∈ K, k ∈ kwNames R.params ∨
      (k ∉ allNames own.params ∧ ∀ c ∈ forwarding cs, ∀ w,
        (resolve c.wrapped = .fn w ∨
          (resolve c.wrapped = .partialCtor ∧ ∃ a0 t, c.args = a0 :: t ∧ resolve a0 = .fn w)) →
        k ∉ allNames w.params))
    (hcons : ∀ c ∈ forwarding cs, ∀ w s, PlainFwd resolve c w → declared own resolve c = .ok s →
      ∀ k ∈ K, k ∈ kwNames R.params →
        k ∈ allNames s.params ∨ (k ∉ allNames own.params ∧ k ∉ allNames w.params))
    (hacc : accepts R.params m K = true) :
    R = own ∨ ∀ c ∈ forwarding cs, ∀ w, PlainFwd resolve c w → (∀ k ∈ K, k ∉ c.kwargs.map (·.1)) →
      wrapperRuns own.params w.params c.args.length (c.kwargs.map (·.1)) c.useVa c.useVk m K = true := by
  by_cases hRo : R = own
  · exact .inl hRo
  have hmem := declaredAll_mem own resolve _ _ hall
  have hwf : ∀ t ∈ ss, WF t.params := by
    intro t ht
    obtain ⟨c', _, hc'⟩ := hmem t ht
    exact declared_wf own resolve c' t hres hc'
  have hm : merge ss = .ok R := by
    have hd' := hd
    rw [discovered_eq_declared, hall] at hd'
    cases ss with
    | nil => simp only [Except.ok.injEq] at hd'; exact absurd hd'.symm hRo
    | cons s ss =>
      simp only at hd'
      cases hm : merge (s :: ss) with
      | error e => rw [hm] at hd'; simp only [Except.ok.injEq] at hd'; exact absurd hd'.symm hRo
      | ok R' => rw [hm] at hd'; simp only [Except.ok.injEq] at hd'; rw [hd']
  apply c05m_sound_percall own R resolve cs ss m K ho hres hK hall hrc hd ?_ ?_ hacc
  · intro k hk
    rcases hnc k hk with h | ⟨h1, h2⟩
    · exact .inl h
    · right
      intro ps hps hx
      obtain ⟨s, hs, rfl⟩ := List.mem_map.1 hps
      obtain ⟨c, hc, hdc⟩ := hmem s hs
      obtain ⟨w, hw, hsub⟩ := c05m_declared_names own resolve c s ho hres hdc
      rcases hsub k hx with h | h
      · exact h1 h
      · exact h2 c hc w hw h
  · intro c hc w s hp hdc k hk
    have hsm : s ∈ ss := by
      obtain ⟨s', hs', hds'⟩ := declaredAll_all own resolve _ _ hall c hc
      rw [hdc] at hds'
      cases hds'
      exact hs'
    have hfor : (∀ t ∈ [own.params, w.params], k ∉ allNames t) ↔
        (k ∉ allNames own.params ∧ k ∉ allNames w.params) := by simp
    rw [hfor]
    rcases hnc k hk with h | ⟨h1, h2⟩
    · rcases hcons c hc w s hp hdc k hk h with h' | h'
      · exact .inl (c05m_merge_kw_roles ss R (fun t ht => WF_validate (hwf t ht)) hrc hm k h s hsm h')
      · exact .inr h'
    · exact .inr ⟨h1, h2 c hc w (.inl hp.res)⟩

end SV
