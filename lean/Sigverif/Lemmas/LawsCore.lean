/-
  Lemmas/LawsCore.lean — the merger state without its provenance map, and the phase
  computations restated on it.
-/
import Sigverif.Lemmas.LawsCompute
namespace SV
set_option linter.unusedSimpArgs false
set_option linter.unusedVariables false

/-- the merger state minus `src` -/
structure Core where
  pos : List Param
  pok : List Param
  kwo : List Param
  vaL : Bool
  vaR : Bool
  vkL : Bool
  vkR : Bool
  lUn : List Param
  rUn : List Param

def MState.core (st : MState) : Core :=
  ⟨st.pos, st.pok, st.kwo, st.vaL, st.vaR, st.vkL, st.vkR, st.lUn, st.rUn⟩

theorem phaseK1_self_core (l r : Sorted) (ps : List Param) (st : MState)
    (h1 : ∀ p ∈ ps, pget r.kwo p.name = some p) (h2 : ∀ p ∈ ps, concile p p = p)
    (hn : (names ps).Nodup) (hd : ∀ p ∈ ps, p.name ∉ names st.kwo) :
    (phaseK1 l r ps st).core = { st.core with kwo := st.kwo ++ ps } := by
  obtain ⟨src', h⟩ := phaseK1_self l r ps st h1 h2 hn hd
  rw [h]; rfl

theorem phaseK1_none_core (l r : Sorted) (ps : List Param) (st : MState)
    (h1 : ∀ p ∈ ps, pget r.kwo p.name = none)
    (hn : (names ps).Nodup) (hd : ∀ p ∈ ps, p.name ∉ names st.lUn) :
    (phaseK1 l r ps st).core = { st.core with lUn := st.lUn ++ ps } := by
  rw [phaseK1_none l r ps st h1 hn hd]; rfl

theorem phaseK2_none_core (l : Sorted) (ps : List Param) (st : MState)
    (h1 : ∀ p ∈ ps, phas l.kwo p.name = false)
    (hn : (names ps).Nodup) (hd : ∀ p ∈ ps, p.name ∉ names st.rUn) :
    (phaseK2 l ps st).core = { st.core with rUn := st.rUn ++ ps } := by
  rw [phaseK2_none l ps st h1 hn hd]; rfl

theorem phaseP_self_core (l r : Sorted) (xs il ir : List Param) (st : MState)
    (h2 : ∀ p ∈ xs, concile p p = p) :
    ∃ st', phaseP l r xs xs il ir st = .ok (st', il, ir) ∧
      st'.core = { st.core with pos := st.pos ++ xs } := by
  obtain ⟨src', h⟩ := phaseP_self l r xs il ir st h2
  exact ⟨_, h, rfl⟩

theorem phaseP_left_core (l r : Sorted) (xs il : List Param) (st : MState) (hva : r.va.isSome = true) :
    ∃ st', phaseP l r xs [] il [] st = .ok (st', il, []) ∧
      st'.core = { st.core with pos := st.pos ++ xs, vaR := st.vaR && xs.isEmpty } := by
  obtain ⟨src', h⟩ := phaseP_left l r xs il st hva
  exact ⟨_, h, rfl⟩

theorem phaseP_right_core (l r : Sorted) (xs ir : List Param) (st : MState) (hva : l.va.isSome = true) :
    ∃ st', phaseP l r [] xs [] ir st = .ok (st', [], ir) ∧
      st'.core = { st.core with pos := st.pos ++ xs, vaL := st.vaL && xs.isEmpty } := by
  obtain ⟨src', h⟩ := phaseP_right l r xs ir st hva
  exact ⟨_, h, rfl⟩

theorem phaseQ_self_core (l r : Sorted) (xs : List Param) (st : MState)
    (h2 : ∀ p ∈ xs, concile p p = p) :
    ∃ st', phaseQ l r xs xs st = .ok st' ∧ st'.core = { st.core with pok := st.pok ++ xs } := by
  obtain ⟨src', h⟩ := phaseQ_self l r xs st h2
  exact ⟨_, h, rfl⟩

theorem phaseQ_left_core (l r : Sorted) (xs : List Param) (st : MState)
    (hva : r.va.isSome = true) (hvk : r.vk.isSome = true) (hun : st.rUn = []) :
    ∃ st', phaseQ l r xs [] st = .ok st' ∧ st'.core = { st.core with pok := st.pok ++ xs } := by
  obtain ⟨src', h⟩ := phaseQ_left l r xs st hva hvk hun
  exact ⟨_, h, rfl⟩

theorem phaseQ_right_core (l r : Sorted) (xs : List Param) (st : MState)
    (hva : l.va.isSome = true) (hvk : l.vk.isSome = true) (hun : st.lUn = []) :
    ∃ st', phaseQ l r [] xs st = .ok st' ∧ st'.core = { st.core with pok := st.pok ++ xs } := by
  obtain ⟨src', h⟩ := phaseQ_right l r xs st hva hvk hun
  exact ⟨_, h, rfl⟩

theorem mergeUnmatched_L_empty (l r : Sorted) (st : MState) (h : st.lUn = []) :
    mergeUnmatched .L l r st = .ok st := by
  simp [mergeUnmatched, h]

theorem mergeUnmatched_R_empty (l r : Sorted) (st : MState) (h : st.rUn = []) :
    mergeUnmatched .R l r st = .ok st := by
  simp [mergeUnmatched, h]

theorem mergeUnmatched_L_vk (l r : Sorted) (st : MState) (h : st.lUn ≠ []) (hvk : r.vk.isSome = true) :
    ∃ st', mergeUnmatched .L l r st = .ok st' ∧
      st'.core = { st.core with kwo := pupdate st.kwo st.lUn, vkR := false } := by
  refine ⟨{ st with kwo := pupdate st.kwo st.lUn, src := addAllSources st.src st.lUn l.src,
                    vkR := false }, ?_, rfl⟩
  simp [mergeUnmatched, h, hvk]

theorem mergeUnmatched_R_vk (l r : Sorted) (st : MState) (h : st.rUn ≠ []) (hvk : l.vk.isSome = true) :
    ∃ st', mergeUnmatched .R l r st = .ok st' ∧
      st'.core = { st.core with kwo := pupdate st.kwo st.rUn, vkL := false } := by
  refine ⟨{ st with kwo := pupdate st.kwo st.rUn, src := addAllSources st.src st.rUn r.src,
                    vkL := false }, ?_, rfl⟩
  simp [mergeUnmatched, h, hvk]

/-- assembling a merge step from its phases -/
theorem mergeStep_of (l r : Sorted) (st1 st2 st3 st4 : MState) (il ir : List Param)
    (h1 : phaseP l r l.pos r.pos l.pok r.pok
        (phaseK2 l r.kwo (phaseK1 l r l.kwo
          { vaL := l.va.isSome, vaR := r.va.isSome, vkL := l.vk.isSome, vkR := r.vk.isSome })) =
          .ok (st1, il, ir))
    (h2 : phaseQ l r il ir st1 = .ok st2)
    (h3 : mergeUnmatched .L l r st2 = .ok st3)
    (h4 : mergeUnmatched .R l r st3 = .ok st4) :
    mergeStep l r = .ok
          { pos := st4.pos, pok := st4.pok,
            va := (addStarargs l r st4.vaL st4.vaR l.va r.va st4.src).1,
            kwo := st4.kwo,
            vk := (addStarargs l r st4.vkL st4.vkR l.vk r.vk
                    (addStarargs l r st4.vaL st4.vaR l.va r.va st4.src).2).1,
            src := (addStarargs l r st4.vkL st4.vkR l.vk r.vk
                    (addStarargs l r st4.vaL st4.vaR l.va r.va st4.src).2).2,
            depths := mergeDepths l.depths r.depths } := by
  simp only [mergeStep, bind, Except.bind, h1, h2, h3, h4, pure, Except.pure]

end SV
