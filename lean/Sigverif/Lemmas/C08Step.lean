/-
  Lemmas/C08Step.lean — provenance well-formedness of `mergeStep`, `merge` (any number of inputs).
-/
import Sigverif.Lemmas.C08Merge
namespace SV
set_option linter.unusedSimpArgs false
set_option linter.unusedVariables false

/-- the provenance facts about a (names, source map) pair relative to two operands -/
structure SrcRel (l r : Sorted) (N : List Nat) (src : Srcs) : Prop where
  keys : ∀ k, dhas src k = true ↔ k ∈ N
  ne   : ∀ k, k ∈ N → sget src k ≠ []
  mem  : ∀ k f, f ∈ sget src k → f ∈ sget l.src k ∨ f ∈ sget r.src k

theorem SrcOK.rel {l r : Sorted} {st : MState} (h : SrcOK l r st) : SrcRel l r st.held st.src :=
  ⟨h.keys, h.ne, h.mem⟩

theorem SrcRel.add {l r : Sorted} {N : List Nat} {src : Srcs} (h : SrcRel l r N src) (n : Nat)
    (frm : List Srcs) (hfrm : ∀ s ∈ frm, s = l.src ∨ s = r.src) (hne : ∃ s ∈ frm, sget s n ≠ []) :
    SrcRel l r (N ++ [n]) (addSources src n frm) := by
  refine ⟨?_, ?_, ?_⟩
  · intro k
    rw [dhas_addSources]
    simp only [List.mem_append, List.mem_singleton, ← h.keys]
    by_cases hk : k = n <;> simp [hk]
  · intro k hk
    rw [sget_addSources]
    by_cases hkn : k = n
    · simp only [hkn, if_true]
      obtain ⟨s, hs, hsn⟩ := hne
      intro he
      simp only [List.append_eq_nil_iff, List.flatten_eq_nil_iff, List.mem_map] at he
      exact hsn (he.2 _ ⟨s, hs, rfl⟩)
    · simp only [hkn, if_false]
      simp only [List.mem_append, List.mem_singleton] at hk
      rcases hk with h1 | h1
      · exact h.ne k h1
      · exact absurd h1 hkn
  · intro k f hf
    rw [sget_addSources] at hf
    by_cases hkn : k = n
    · subst hkn
      simp only [if_true, List.mem_append, List.mem_flatten, List.mem_map] at hf
      rcases hf with hf | ⟨_, ⟨s, hs, rfl⟩, hf⟩
      · exact h.mem k f hf
      · rcases hfrm s hs with rfl | rfl
        · exact .inl hf
        · exact .inr hf
    · simp only [hkn, if_false] at hf
      exact h.mem k f hf

theorem addStarargs_rel (l r : Sorted) (wL wR : Bool) (left right : Option Param) (N : List Nat) (src : Srcs)
    (hl : ∀ p, left = some p → sget l.src p.name ≠ [])
    (hr : (∀ p, right = some p → sget r.src p.name ≠ []) ∨ wL = left.isSome)
    (h : SrcRel l r N src) :
    SrcRel l r (N ++ names (addStarargs l r wL wR left right src).1.toList)
      (addStarargs l r wL wR left right src).2 := by
  unfold addStarargs
  split
  · rename_i lp rp
    split
    · split
      · simp only [Option.toList, names, List.map_cons, List.map_nil, concile_name]
        exact h.add lp.name [l.src, r.src] (by intro s hs; simp at hs; rcases hs with rfl | rfl <;> simp)
          ⟨l.src, by simp, hl lp rfl⟩
      · simp only [Option.toList, names, List.map_cons, List.map_nil, concile_name]
        exact h.add lp.name [l.src] (by intro s hs; simp at hs; simp [hs]) ⟨l.src, by simp, hl lp rfl⟩
    · split
      · simp only [Option.toList, names, List.map_cons, List.map_nil]
        exact h.add lp.name [l.src] (by intro s hs; simp at hs; simp [hs]) ⟨l.src, by simp, hl lp rfl⟩
      · rename_i hw1 hw2
        simp only [Option.toList, names, List.map_cons, List.map_nil]
        rcases hr with hr | hr
        · exact h.add rp.name [r.src] (by intro s hs; simp at hs; simp [hs]) ⟨r.src, by simp, hr rp rfl⟩
        · simp only [Option.isSome_some] at hr
          exact absurd hr hw2
  · simp only [Option.toList, names, List.map_nil, List.append_nil]
    exact h

/-! ### the merger's star flags when the right operand only has star parameters (`_embed`) -/

/-- nothing the left-hand side does changes `vaL`, `vkL`, or makes `rUn` non-empty -/
structure KeepL (st st' : MState) : Prop where
  vaL : st'.vaL = st.vaL
  vkL : st'.vkL = st.vkL
  rUn : st.rUn = [] → st'.rUn = []

theorem KeepL.refl (st : MState) : KeepL st st := ⟨rfl, rfl, id⟩
theorem KeepL.trans {a b c : MState} (h1 : KeepL a b) (h2 : KeepL b c) : KeepL a c :=
  ⟨h2.vaL.trans h1.vaL, h2.vkL.trans h1.vkL, fun h => h2.rUn (h1.rUn h)⟩

theorem phaseK1_keepL (l r : Sorted) (ps : List Param) (st : MState) : KeepL st (phaseK1 l r ps st) := by
  induction ps generalizing st with
  | nil => exact KeepL.refl st
  | cons p ps ih =>
    simp only [phaseK1]
    split
    · rename_i q hq
      have := ih { st with kwo := pset st.kwo (concile p q),
                           src := dset st.src p.name (sget l.src p.name ++ sget r.src p.name) }
      exact ⟨this.vaL, this.vkL, this.rUn⟩
    · have := ih { st with lUn := pset st.lUn p }
      exact ⟨this.vaL, this.vkL, this.rUn⟩

theorem unbalancedPos_L_keepL (l r : Sorted) (ex : Param) (cf : List Param) (st st' : MState) (cf' : List Param)
    (h : unbalancedPos .L l r ex cf st = .ok (st', cf')) : KeepL st st' := by
  cases cf with
  | cons o rest =>
    simp only [unbalancedPos, Except.ok.injEq, Prod.mk.injEq] at h
    obtain ⟨rfl, rfl⟩ := h
    exact ⟨rfl, rfl, id⟩
  | nil =>
    simp only [unbalancedPos] at h
    (repeat' split at h)
    · simp only [Except.ok.injEq, Prod.mk.injEq] at h
      obtain ⟨rfl, rfl⟩ := h
      exact ⟨rfl, rfl, id⟩
    · cases h
    · simp only [Except.ok.injEq, Prod.mk.injEq] at h
      obtain ⟨rfl, rfl⟩ := h
      exact KeepL.refl st

theorem phaseP_L_keepL (l r : Sorted) (ls il ir : List Param) (st st' : MState) (il' ir' : List Param)
    (h : phaseP l r ls [] il ir st = .ok (st', il', ir')) : KeepL st st' ∧ il' = il := by
  induction ls generalizing st ir with
  | nil =>
    simp only [phaseP, Except.ok.injEq, Prod.mk.injEq] at h
    obtain ⟨rfl, rfl, rfl⟩ := h
    exact ⟨KeepL.refl st, rfl⟩
  | cons lp ls ih =>
    simp only [phaseP, bind, Except.bind] at h
    split at h
    · cases h
    · rename_i v hv
      obtain ⟨st1, ir1⟩ := v
      obtain ⟨a, b⟩ := ih _ _ h
      exact ⟨KeepL.trans (unbalancedPos_L_keepL _ _ _ _ _ _ _ hv) a, b⟩

theorem unbalancedPok_L_keepL (l r : Sorted) (ex : Param) (st st' : MState)
    (h : unbalancedPok .L l r ex st = .ok st') : KeepL st st' := by
  simp only [unbalancedPok] at h
  split at h
  · simp only [Except.ok.injEq] at h
    subst h
    refine ⟨rfl, rfl, ?_⟩
    intro h0
    show ppop st.rUn ex.name = []
    rw [h0]; rfl
  · (repeat' split at h) <;>
    first
    | (cases h; done)
    | (simp only [Except.ok.injEq] at h
       subst h
       exact ⟨rfl, rfl, id⟩)

theorem phaseQ_L_keepL (l r : Sorted) (il : List Param) (st st' : MState)
    (h : phaseQ l r il [] st = .ok st') : KeepL st st' := by
  induction il generalizing st with
  | nil =>
    simp only [phaseQ, Except.ok.injEq] at h
    subst h; exact KeepL.refl st
  | cons lp ls ih =>
    simp only [phaseQ, bind, Except.bind] at h
    split at h
    · cases h
    · rename_i v hv
      exact KeepL.trans (unbalancedPok_L_keepL _ _ _ _ _ hv) (ih _ h)

theorem mergeUnmatched_L_keepL (l r : Sorted) (st st' : MState)
    (h : mergeUnmatched .L l r st = .ok st') : KeepL st st' := by
  simp only [mergeUnmatched] at h
  (repeat' split at h) <;>
    first
    | (cases h; done)
    | (simp only [Except.ok.injEq] at h
       subst h
       exact ⟨rfl, rfl, id⟩)

theorem mergeUnmatched_R_keepL (l r : Sorted) (st st' : MState) (hun : st.rUn = [])
    (h : mergeUnmatched .R l r st = .ok st') : st' = st := by
  simp only [mergeUnmatched, hun, List.isEmpty_nil, if_true, Except.ok.injEq] at h
  exact h.symm

/-- provenance well-formedness of a classified signature -/
structure SrcWF (s : Sorted) : Prop where
  keys : ∀ k, dhas s.src k = true ↔ k ∈ names s.all
  ne   : ∀ k, k ∈ names s.all → sget s.src k ≠ []

theorem SrcWF.sourced {s : Sorted} (h : SrcWF s) (ps : List Param) (hps : ∀ p ∈ ps, p ∈ s.all) :
    Sourced s.src ps := fun p hp => h.ne p.name (mem_names_of_mem_C08 (hps p hp))

theorem mem_all_pos {s : Sorted} {p : Param} (h : p ∈ s.pos) : p ∈ s.all := by simp [Sorted.all, h]
theorem mem_all_pok {s : Sorted} {p : Param} (h : p ∈ s.pok) : p ∈ s.all := by simp [Sorted.all, h]
theorem mem_all_kwo {s : Sorted} {p : Param} (h : p ∈ s.kwo) : p ∈ s.all := by simp [Sorted.all, h]
theorem mem_all_va {s : Sorted} {p : Param} (h : s.va = some p) : p ∈ s.all := by simp [Sorted.all, h]
theorem mem_all_vk {s : Sorted} {p : Param} (h : s.vk = some p) : p ∈ s.all := by simp [Sorted.all, h]

/-- the provenance facts about the result of a merge step (relative to its operands) -/
structure StepSrc (l r s : Sorted) : Prop where
  keys : ∀ k, dhas s.src k = true ↔ k ∈ names s.all
  ne   : ∀ k, k ∈ names s.all → sget s.src k ≠ []
  mem  : ∀ k f, f ∈ sget s.src k → f ∈ sget l.src k ∨ f ∈ sget r.src k

/-- **one merge step keeps provenance well-formed and truthful**, general form: the left
    operand's parameters have non-empty entries; the right operand's either all have, or it
    consists of star parameters only (the operand `_embed` builds, whose map is empty). -/
theorem mergeStep_src_gen (l r s : Sorted) (hl : Sourced l.src l.all)
    (hr : Sourced r.src r.all ∨ (r.pos = [] ∧ r.pok = [] ∧ r.kwo = []))
    (h : mergeStep l r = .ok s) : StepSrc l r s := by
  obtain ⟨st1, st2, st3, st4, il, ir, h1, h2, h3, h4, rfl⟩ := mergeStep_ok l r s h
  have hrn : Sourced r.src (r.pos ++ r.pok ++ r.kwo) := by
    rcases hr with hr | ⟨e1, e2, e3⟩
    · intro p hp
      apply hr p
      simp only [List.mem_append] at hp
      rcases hp with (hp | hp) | hp
      · exact mem_all_pos hp
      · exact mem_all_pok hp
      · exact mem_all_kwo hp
    · rw [e1, e2, e3]; exact Sourced.nil _
  have k0 : SrcOK l r ({ vaL := l.va.isSome, vaR := r.va.isSome, vkL := l.vk.isSome,
                         vkR := r.vk.isSome } : MState) := by
    refine ⟨?_, ?_, ?_, Sourced.nil _, Sourced.nil _⟩
    · intro k; simp [MState.held, names, dhas, dget]
    · intro k hk; simp [MState.held, names] at hk
    · intro k f hf; simp [sget, dget] at hf
  have kK1 := phaseK1_src l r l.kwo _ (fun p hp => hl p (mem_all_kwo hp)) k0
  have kK2 := phaseK2_src l r r.kwo _ (fun p hp => hrn p (by simp [hp])) kK1
  obtain ⟨k1, ⟨n1, hil⟩, ⟨n2, hir⟩⟩ := phaseP_src l r _ _ _ _ _ _ _ _
    (fun p hp => hl p (mem_all_pos hp)) (fun p hp => hrn p (by simp [hp])) kK2 h1
  have sil : Sourced l.src il := by
    subst hil
    exact fun p hp => hl p (mem_all_pok (List.mem_of_mem_drop hp))
  have sir : Sourced r.src ir := by
    subst hir
    exact fun p hp => hrn p (by simp [List.mem_of_mem_drop hp])
  have k2 := phaseQ_src l r _ _ _ _ sil sir k1 h2
  have k3 := mergeUnmatched_src _ _ _ _ _ k2 h3
  have k4 := mergeUnmatched_src _ _ _ _ _ k3 h4
  -- the star flags
  have hflags : (Sourced r.src r.all) ∨ (st4.vaL = l.va.isSome ∧ st4.vkL = l.vk.isSome) := by
    rcases hr with hr | ⟨e1, e2, e3⟩
    · exact .inl hr
    · right
      rw [e1, e2, e3] at h1
      simp only [phaseK2] at h1
      obtain ⟨kp, hil'⟩ := phaseP_L_keepL _ _ _ _ _ _ _ _ _ h1
      have hir' : ir = [] := by rw [hir, e2]; simp
      rw [hir'] at h2
      have kq := phaseQ_L_keepL _ _ _ _ _ h2
      have ku := mergeUnmatched_L_keepL _ _ _ _ h3
      have kall := KeepL.trans (KeepL.trans (KeepL.trans (phaseK1_keepL l r l.kwo _) kp) kq) ku
      have : st4 = st3 := mergeUnmatched_R_keepL _ _ _ _ (kall.rUn rfl) h4
      rw [this]
      exact ⟨kall.vaL, kall.vkL⟩
  have r1 := addStarargs_rel l r st4.vaL st4.vaR l.va r.va _ _
    (fun p hp => hl p (mem_all_va hp))
    (by rcases hflags with hf | hf
        · exact .inl (fun p hp => hf p (mem_all_va hp))
        · exact .inr hf.1) k4.rel
  have r2 := addStarargs_rel l r st4.vkL st4.vkR l.vk r.vk _ _
    (fun p hp => hl p (mem_all_vk hp))
    (by rcases hflags with hf | hf
        · exact .inl (fun p hp => hf p (mem_all_vk hp))
        · exact .inr hf.2) r1
  refine ⟨?_, ?_, r2.mem⟩
  · intro k
    rw [r2.keys k]
    simp only [Sorted.all, MState.held, names_append, List.mem_append]
    constructor
    · rintro ((((h | h) | h) | h) | h)
      · exact .inl (.inl (.inl (.inl h)))
      · exact .inl (.inl (.inl (.inr h)))
      · exact .inl (.inr h)
      · exact .inl (.inl (.inr h))
      · exact .inr h
    · rintro ((((h | h) | h) | h) | h)
      · exact .inl (.inl (.inl (.inl h)))
      · exact .inl (.inl (.inl (.inr h)))
      · exact .inl (.inr h)
      · exact .inl (.inl (.inr h))
      · exact .inr h
  · intro k hk
    apply r2.ne k
    simp only [Sorted.all, MState.held, names_append, List.mem_append] at hk ⊢
    rcases hk with (((h | h) | h) | h) | h
    · exact .inl (.inl (.inl (.inl h)))
    · exact .inl (.inl (.inl (.inr h)))
    · exact .inl (.inr h)
    · exact .inl (.inl (.inr h))
    · exact .inr h

theorem SrcWF.sourcedAll {s : Sorted} (h : SrcWF s) : Sourced s.src s.all :=
  fun p hp => h.ne p.name (mem_names_of_mem_C08 hp)

theorem mergeStep_srcWF (l r s : Sorted) (hl : SrcWF l) (hr : SrcWF r) (h : mergeStep l r = .ok s) :
    SrcWF s ∧ ∀ k f, f ∈ sget s.src k → f ∈ sget l.src k ∨ f ∈ sget r.src k := by
  have g := mergeStep_src_gen l r s hl.sourcedAll (.inl hr.sourcedAll) h
  exact ⟨⟨g.keys, g.ne⟩, g.mem⟩

/-! ### depths -/

/-- every callable listed as a source has a depth -/
def DepOK (src : Srcs) (depths : Depths) : Prop := ∀ k f, f ∈ sget src k → dhas depths f = true

theorem mergeStep_depOK (l r s : Sorted) (hl : SrcWF l) (hr : SrcWF r)
    (dl : DepOK l.src l.depths) (dr : DepOK r.src r.depths) (h : mergeStep l r = .ok s) :
    DepOK s.src s.depths := by
  have hm := (mergeStep_srcWF l r s hl hr h).2
  obtain ⟨st1, st2, st3, st4, il, ir, h1, h2, h3, h4, hs⟩ := mergeStep_ok l r s h
  have hd : s.depths = mergeDepths l.depths r.depths := by rw [hs]
  intro k f hf
  rw [hd, dhas_mergeDepths]
  rcases hm k f hf with h' | h'
  · simp [dl k f h']
  · simp [dr k f h']

end SV
