/-
  Lemmas/LawsDflt.lean — the positional phases never put a required positional parameter
  after an optional one.
-/
import Sigverif.Lemmas.LawsCnt
namespace SV
set_option linter.unusedSimpArgs false
set_option linter.unusedVariables false

/-- default flags of the positional part of the result so far -/
def Fl (b : Bk) : List Bool := (b.pos ++ b.pok).map (·.dflt.isSome)

def mono (f : List Bool) : Prop := f.Pairwise (fun a b => a = true → b = true)
def allD (xs : List Param) : Prop := ∀ p ∈ xs, p.dflt.isSome = true
def sufD (xs : List Param) : Prop :=
  xs.Pairwise (fun p q => p.dflt.isSome = true → q.dflt.isSome = true)

def IDf (xs ys : List Param) (b : Bk) : Prop :=
  mono (Fl b) ∧ (true ∈ Fl b → allD xs ∧ allD ys) ∧ sufD xs ∧ sufD ys

theorem Fl_add {e : Param} {b b' : Bk} (h : Add e b b') :
    Fl b' = Fl b ++ [e.dflt.isSome] ∨ Fl b' = Fl b := by
  cases h with
  | pos hp => left; simp [Fl, hp]
  | pok => left; simp [Fl]
  | kwo => right; rfl
  | flush => left; simp [Fl, Function.comp_def]

theorem mono_snoc {f : List Bool} {a : Bool} (h : mono f) (ha : true ∈ f → a = true) :
    mono (f ++ [a]) := by
  unfold mono at *
  rw [List.pairwise_append]
  refine ⟨h, by simp, ?_⟩
  intro x hx y hy hxt
  simp only [List.mem_singleton] at hy
  subst hy hxt
  exact ha hx

theorem allD_tail {p : Param} {xs : List Param} (h : allD (p :: xs)) : allD xs :=
  fun q hq => h q (by simp [hq])

theorem sufD_tail {p : Param} {xs : List Param} (h : sufD (p :: xs)) : sufD xs := by
  unfold sufD at *
  exact (List.pairwise_cons.1 h).2

theorem sufD_head {p : Param} {xs : List Param} (h : sufD (p :: xs)) (hp : p.dflt.isSome = true) :
    allD xs := by
  unfold sufD at h
  intro q hq
  exact (List.pairwise_cons.1 h).1 q hq hp

theorem allD_nil : allD [] := by intro p hp; cases hp
theorem sufD_nil : sufD [] := List.Pairwise.nil

theorem IDf_step (xs ys : List Param) (b : Bk) (xs' ys' : List Param) (b' : Bk)
    (hs : Step xs ys b xs' ys' b') (hi : IDf xs ys b) : IDf xs' ys' b' := by
  obtain ⟨h1, h2, h3, h4⟩ := hi
  cases hs with
  | both lp rp e xs ys b b' hn hd ha =>
    have weak : true ∈ Fl b → allD xs' ∧ allD ys' := fun ht =>
      ⟨allD_tail (h2 ht).1, allD_tail (h2 ht).2⟩
    rcases Fl_add ha with hf | hf
    · rw [IDf, hf]
      refine ⟨mono_snoc h1 ?_, ?_, sufD_tail h3, sufD_tail h4⟩
      · intro ht
        obtain ⟨a1, a2⟩ := h2 ht
        rw [hd, a1 lp (by simp), a2 rp (by simp)]; rfl
      · intro ht
        simp only [List.mem_append, List.mem_singleton] at ht
        rcases ht with ht | ht
        · exact weak ht
        · rw [hd] at ht
          have := ht.symm
          simp only [Bool.and_eq_true] at this
          exact ⟨sufD_head h3 this.1, sufD_head h4 this.2⟩
    · rw [IDf, hf]
      exact ⟨h1, weak, sufD_tail h3, sufD_tail h4⟩
  | left lp e xs b b' hn hd ha =>
    have weak : true ∈ Fl b → allD xs' ∧ allD [] := fun ht => ⟨allD_tail (h2 ht).1, allD_nil⟩
    rcases Fl_add ha with hf | hf
    · rw [IDf, hf]
      refine ⟨mono_snoc h1 ?_, ?_, sufD_tail h3, sufD_nil⟩
      · intro ht
        rw [hd]; exact (h2 ht).1 lp (by simp)
      · intro ht
        simp only [List.mem_append, List.mem_singleton] at ht
        rcases ht with ht | ht
        · exact weak ht
        · rw [hd] at ht
          exact ⟨sufD_head h3 ht.symm, allD_nil⟩
    · rw [IDf, hf]
      exact ⟨h1, weak, sufD_tail h3, sufD_nil⟩
  | leftDrop lp xs b hd =>
    exact ⟨h1, fun ht => ⟨allD_tail (h2 ht).1, allD_nil⟩, sufD_tail h3, sufD_nil⟩
  | leftLimbo lp q e xs b hq hn =>
    exact ⟨h1, fun ht => ⟨allD_tail (h2 ht).1, allD_nil⟩, sufD_tail h3, sufD_nil⟩
  | right rp e ys b b' hn hd ha =>
    have weak : true ∈ Fl b → allD [] ∧ allD ys' := fun ht => ⟨allD_nil, allD_tail (h2 ht).2⟩
    rcases Fl_add ha with hf | hf
    · rw [IDf, hf]
      refine ⟨mono_snoc h1 ?_, ?_, sufD_nil, sufD_tail h4⟩
      · intro ht
        rw [hd]; exact (h2 ht).2 rp (by simp)
      · intro ht
        simp only [List.mem_append, List.mem_singleton] at ht
        rcases ht with ht | ht
        · exact weak ht
        · rw [hd] at ht
          exact ⟨allD_nil, sufD_head h4 ht.symm⟩
    · rw [IDf, hf]
      exact ⟨h1, weak, sufD_nil, sufD_tail h4⟩
  | rightDrop rp ys b hd =>
    exact ⟨h1, fun ht => ⟨allD_nil, allD_tail (h2 ht).2⟩, sufD_nil, sufD_tail h4⟩
  | rightLimbo rp q e ys b hq hn =>
    exact ⟨h1, fun ht => ⟨allD_nil, allD_tail (h2 ht).2⟩, sufD_nil, sufD_tail h4⟩

theorem IDf_steps {xs ys xs' ys' : List Param} {b b' : Bk}
    (h : Steps xs ys b xs' ys' b') (h0 : IDf xs ys b) : IDf xs' ys' b' :=
  Steps.inv IDf IDf_step h h0

end SV
