/-
  Lemmas/C09RNaryZip.lean — the invariant `ZInv` of Lemmas/C09RNaryStep.lean through phase P and
  phase Q, and the resulting completeness of `mergeStep` for all-positional calls.
-/
import Sigverif.Lemmas.C09RNaryStep
import Sigverif.Lemmas.LawsKinds
namespace SV
variable {l r : Sorted} {n : Nat}

theorem concile_req_lt {a b : Param} {c : Nat} (ha : a.required = true → c < n)
    (hb : b.required = true → c < n) : (concile a b).required = true → c < n := by
  simp only [concile_required, Bool.or_eq_true]
  rintro (h | h)
  · exact ha h
  · exact hb h

/-! ### single steps in terms of the field updates -/

theorem ZInv.app_pos {c : Nat} {st st' : MState} (Z : ZInv l r n c st) (hpok : st.pok = [])
    (e : Param) (hu : Upd st' (st.pos ++ [e]) st.pok st.kwo st.lUn st.rUn)
    (hb : e.required = true → c < n) : ZInv l r n (c + 1) st' ∧ st'.pok = [] := by
  obtain ⟨e1, e2, e3, e4, e5⟩ := hu
  refine ⟨Z.app e.required ?_ hb e3 e4 e5 ?_, e2.trans hpok⟩
  · rw [rq_eq e1 e2, rq_C09R, hpok]; simp
  · intro x hx; rw [e2] at hx; exact Or.inl hx

theorem ZInv.app_pok {c : Nat} {st st' : MState} (Z : ZInv l r n c st)
    (e : Param) (hu : Upd st' st.pos (st.pok ++ [e]) st.kwo st.lUn st.rUn)
    (hb : e.required = true → c < n) (hn : e.name ∈ names l.pok ∨ e.name ∈ names r.pok) :
    ZInv l r n (c + 1) st' := by
  obtain ⟨e1, e2, e3, e4, e5⟩ := hu
  refine Z.app e.required ?_ hb e3 e4 e5 ?_
  · rw [rq_eq e1 e2, rq_C09R]; simp
  · intro x hx
    rw [e2] at hx
    simp only [names_append_C01, names_cons_C01, names_nil_C01, List.mem_append,
      List.mem_singleton] at hx
    rcases hx with hx | rfl
    · exact Or.inl hx
    · exact Or.inr hn

theorem ZInv.app_flush {c : Nat} {st st' : MState} (Z : ZInv l r n c st)
    (e : Param)
    (hu : Upd st' (st.pos ++ st.pok.map (·.withKind .po) ++ [e]) [] st.kwo st.lUn st.rUn)
    (hb : e.required = true → c < n) : ZInv l r n (c + 1) st' := by
  obtain ⟨e1, e2, e3, e4, e5⟩ := hu
  refine Z.app e.required ?_ hb e3 e4 e5 ?_
  · rw [rq_eq e1 e2, rq_C09R]; simp [Function.comp_def]
  · intro x hx; rw [e2] at hx; simp at hx

theorem ZInv.skip {c : Nat} {st st' : MState} (Z : ZInv l r n c st)
    (hu : Upd st' st.pos st.pok st.kwo st.lUn st.rUn) (hn : n ≤ c) : ZInv l r n (c + 1) st' := by
  obtain ⟨e1, e2, e3, e4, e5⟩ := hu
  refine Z.drop (rq_eq e1 e2) hn (e3 ▸ id) (e4 ▸ fun _ h => h) (e5 ▸ fun _ h => h) e2
    (fun _ _ x hx => e3 ▸ hx)

/-- a positional parameter becomes keyword-only (or is merged with a limbo entry); only at or
    above `n`, and only when one of the operands has no `*args` -/
theorem ZInv.to_kwo {c : Nat} {st st' : MState} (Z : ZInv l r n c st) (e : Param)
    (lUn' rUn' : List Param) (hu : Upd st' st.pos st.pok (pset st.kwo e) lUn' rUn')
    (hn : n ≤ c) (he : e.required = true → False)
    (hl : ∀ p ∈ lUn', p ∈ st.lUn) (hr : ∀ p ∈ rUn', p ∈ st.rUn)
    (hva : l.va.isSome = false ∨ r.va.isSome = false) : ZInv l r n (c + 1) st' := by
  obtain ⟨e1, e2, e3, e4, e5⟩ := hu
  refine Z.drop (rq_eq e1 e2) hn ?_ (e4 ▸ hl) (e5 ▸ hr) e2 ?_
  · intro h
    rw [e3] at h
    rcases anyReq_pset h with h | h
    · exact h
    · exact (he h).elim
  · intro a b
    rcases hva with h | h
    · rw [h] at a; cases a
    · rw [h] at b; cases b

/-! ### phase P -/

theorem phaseP_Z (ls rs il ir : List Param) (st st' : MState) (il' ir' : List Param)
    (h : phaseP l r ls rs il ir st = .ok (st', il', ir')) (c : Nat) (hpok : st.pok = [])
    (Z : ZInv l r n c st) (RX : Rem n c l.va.isSome (ls ++ il))
    (RY : Rem n c r.va.isSome (rs ++ ir)) :
    ∃ c', ZInv l r n c' st' ∧ Rem n c' l.va.isSome il' ∧ Rem n c' r.va.isSome ir' ∧
      st'.pok = [] := by
  induction ls generalizing rs il ir st c with
  | nil =>
    induction rs generalizing il ir st c with
    | nil =>
      rw [phaseP_nil] at h
      cases h
      exact ⟨c, Z, by simpa using RX, by simpa using RY, hpok⟩
    | cons rp rs ih =>
      rw [phaseP_nil_cons] at h
      obtain ⟨⟨st1, il1⟩, h1, h2⟩ := bind_eq_ok h
      simp only [List.nil_append, List.cons_append] at RX RY
      rcases unbalancedPos_R_inv h1 with ⟨o, rfl, hu⟩ | ⟨rfl, rfl, hva, hu⟩ | ⟨rfl, rfl, hva, hd, hu⟩
      · obtain ⟨Z1, p1⟩ := Z.app_pos hpok _ hu (concile_req_lt RY.head RX.head)
        exact ih il1 ir st1 h2 (c + 1) p1 Z1 (by simpa using RX.tail) RY.tail
      · obtain ⟨Z1, p1⟩ := Z.app_pos hpok _ hu RY.head
        exact ih [] ir st1 h2 (c + 1) p1 Z1 (by simpa using RX.nil_succ) RY.tail
      · rw [hva] at RX
        have Z1 := Z.skip hu RX.nil_le
        refine ih [] ir st1 h2 (c + 1) (hu.2.1.trans hpok) Z1 ?_ RY.tail
        rw [hva]; simpa using RX.nil_succ
  | cons lp ls ih =>
    cases rs with
    | nil =>
      rw [phaseP_cons_nil] at h
      obtain ⟨⟨st1, ir1⟩, h1, h2⟩ := bind_eq_ok h
      simp only [List.nil_append, List.cons_append] at RX RY
      rcases unbalancedPos_L_inv h1 with ⟨o, rfl, hu⟩ | ⟨rfl, rfl, hva, hu⟩ | ⟨rfl, rfl, hva, hd, hu⟩
      · obtain ⟨Z1, p1⟩ := Z.app_pos hpok _ hu (concile_req_lt RX.head RY.head)
        exact ih [] il ir1 st1 h2 (c + 1) p1 Z1 RX.tail (by simpa using RY.tail)
      · obtain ⟨Z1, p1⟩ := Z.app_pos hpok _ hu RX.head
        exact ih [] il [] st1 h2 (c + 1) p1 Z1 RX.tail (by simpa using RY.nil_succ)
      · rw [hva] at RY
        have Z1 := Z.skip hu RY.nil_le
        refine ih [] il [] st1 h2 (c + 1) (hu.2.1.trans hpok) Z1 RX.tail ?_
        rw [hva]; simpa using RY.nil_succ
    | cons rp rs =>
      rw [phaseP_cons_cons] at h
      simp only [List.cons_append] at RX RY
      obtain ⟨Z1, p1⟩ := Z.app_pos (st' := { st with
          pos := st.pos ++ [concile lp rp],
          src := if lp.name = rp.name then addSources st.src lp.name [l.src, r.src]
                 else addSources st.src lp.name [l.src] }) hpok (concile lp rp)
        ⟨rfl, rfl, rfl, rfl, rfl⟩ (concile_req_lt RX.head RY.head)
      exact ih rs il ir _ h (c + 1) p1 Z1 RX.tail RY.tail

/-! ### phase Q -/

theorem phaseQ_Z (il ir : List Param) (st st' : MState)
    (h : phaseQ l r il ir st = .ok st') (c : Nat)
    (Z : ZInv l r n c st) (RX : Rem n c l.va.isSome il) (RY : Rem n c r.va.isSome ir)
    (subL : ∀ p ∈ il, p ∈ l.pok) (subR : ∀ p ∈ ir, p ∈ r.pok)
    (NL1 : ∀ x ∈ names l.pok, x ∉ names r.kwo)
    (NL2 : l.va.isSome = true → ∀ x ∈ names r.pok, x ∉ names l.kwo)
    (akl : ¬ anyReq l.kwo) :
    ∃ c', ZInv l r n c' st' ∧ Rem n c' l.va.isSome [] ∧ Rem n c' r.va.isSome [] := by
  induction il generalizing ir st c with
  | nil =>
    induction ir generalizing st c with
    | nil =>
      rw [phaseQ_nil] at h
      cases h
      exact ⟨c, Z, RX, RY⟩
    | cons rp rs ih =>
      rw [phaseQ_nil_cons] at h
      obtain ⟨st1, h1, h2⟩ := bind_eq_ok h
      have hrp : rp ∈ r.pok := subR rp List.mem_cons_self
      have subR' : ∀ p ∈ rs, p ∈ r.pok := fun p hp => subR p (List.mem_cons_of_mem _ hp)
      rcases unbalancedPok_R_inv' h1 with ⟨q, hq, hu⟩ | ⟨hva, hvk, hu⟩ | ⟨hva, hvk, hu⟩ |
        ⟨hva, hvk, hu⟩ | ⟨hva, hvk, hd, hu⟩
      · -- limbo hit: the left operand has no `*args`, so the chain position is at or above `n`
        obtain ⟨hq1, hq2⟩ := pget_some_C01 hq
        have hql : q ∈ l.kwo := Z.lun q hq1
        have hva : l.va.isSome = false := by
          cases hva : l.va.isSome
          · rfl
          · exact absurd (hq2 ▸ mem_names_of_mem_C01 hql)
              (NL2 hva rp.name (mem_names_of_mem_C01 hrp))
        have hn : n ≤ c := by rw [hva] at RX; exact RX.nil_le
        have Z1 := Z.to_kwo _ _ _ hu hn (by
            simp only [withKind_required_C01, concile_required, Bool.or_eq_true]
            rintro (hr | hr)
            · have := RY.head hr; omega
            · exact akl ⟨q, hql, hr⟩)
          (fun p hp => (mem_ppop_C01.1 hp).1) (fun _ hp => hp) (Or.inl hva)
        exact ih st1 h2 (c + 1) Z1 RX.nil_succ RY.tail subR'
      · have Z1 := Z.app_pok _ hu RY.head (Or.inr (mem_names_of_mem_C01 hrp))
        exact ih st1 h2 (c + 1) Z1 RX.nil_succ RY.tail subR'
      · have hn : n ≤ c := by rw [hva] at RX; exact RX.nil_le
        have Z1 := Z.to_kwo _ _ _ hu hn (by
            simp only [withKind_required_C01]
            intro hr; have := RY.head hr; omega)
          (fun _ hp => hp) (fun _ hp => hp) (Or.inl hva)
        exact ih st1 h2 (c + 1) Z1 RX.nil_succ RY.tail subR'
      · have Z1 := Z.app_flush _ hu (by simpa using RY.head)
        exact ih st1 h2 (c + 1) Z1 RX.nil_succ RY.tail subR'
      · have hn : n ≤ c := by rw [hva] at RX; exact RX.nil_le
        exact ih st1 h2 (c + 1) (Z.skip hu hn) RX.nil_succ RY.tail subR'
  | cons lp ls ih =>
    have hlp : lp ∈ l.pok := subL lp List.mem_cons_self
    have subL' : ∀ p ∈ ls, p ∈ l.pok := fun p hp => subL p (List.mem_cons_of_mem _ hp)
    cases ir with
    | nil =>
      rw [phaseQ_cons_nil] at h
      obtain ⟨st1, h1, h2⟩ := bind_eq_ok h
      rcases unbalancedPok_L_inv' h1 with ⟨q, hq, hu⟩ | ⟨hva, hvk, hu⟩ | ⟨hva, hvk, hu⟩ |
        ⟨hva, hvk, hu⟩ | ⟨hva, hvk, hd, hu⟩
      · -- a limbo hit on this side is excluded: a `pk` name of `l` is not a `ko` name of `r`
        obtain ⟨hq1, hq2⟩ := pget_some_C01 hq
        exact absurd (hq2 ▸ mem_names_of_mem_C01 (Z.run q hq1))
          (NL1 lp.name (mem_names_of_mem_C01 hlp))
      · have Z1 := Z.app_pok _ hu RX.head (Or.inl (mem_names_of_mem_C01 hlp))
        exact ih [] st1 h2 (c + 1) Z1 RX.tail RY.nil_succ subL' (by simp)
      · have hn : n ≤ c := by rw [hva] at RY; exact RY.nil_le
        have Z1 := Z.to_kwo _ _ _ hu hn (by
            simp only [withKind_required_C01]
            intro hr; have := RX.head hr; omega)
          (fun _ hp => hp) (fun _ hp => hp) (Or.inr hva)
        exact ih [] st1 h2 (c + 1) Z1 RX.tail RY.nil_succ subL' (by simp)
      · have Z1 := Z.app_flush _ hu (by simpa using RX.head)
        exact ih [] st1 h2 (c + 1) Z1 RX.tail RY.nil_succ subL' (by simp)
      · have hn : n ≤ c := by rw [hva] at RY; exact RY.nil_le
        exact ih [] st1 h2 (c + 1) (Z.skip hu hn) RX.tail RY.nil_succ subL' (by simp)
    | cons rp rs =>
      have subR' : ∀ p ∈ rs, p ∈ r.pok := fun p hp => subR p (List.mem_cons_of_mem _ hp)
      have hb : (concile lp rp).required = true → c < n := concile_req_lt RX.head RY.head
      rw [phaseQ_cons_cons] at h
      split at h
      · have Z1 := Z.app_pok (st' := { st with
            pok := st.pok ++ [concile lp rp],
            src := addSources st.src lp.name [l.src, r.src] }) (concile lp rp)
          ⟨rfl, rfl, rfl, rfl, rfl⟩ hb (Or.inl (show lp.name ∈ names l.pok from mem_names_of_mem_C01 hlp))
        exact ih rs _ h (c + 1) Z1 RX.tail RY.tail subL' subR'
      · have Z1 := Z.app_flush (st' := { st with
            pos := st.pos ++ st.pok.map (·.withKind .po) ++ [(concile lp rp).withKind .po],
            pok := [],
            src := addSources st.src lp.name [l.src] }) ((concile lp rp).withKind .po)
          ⟨rfl, rfl, rfl, rfl, rfl⟩ (by simpa using hb)
        exact ih rs _ h (c + 1) Z1 RX.tail RY.tail subL' subR'

end SV
