/-
  Lemmas/C20Bridge.lean — from the character level of `read_sig` to the piece level: `readSigText` on a well-formed text is
  `readSig` on the pieces its parts denote.
-/
import Sigverif.Lemmas.C20Chars
namespace SV
set_option linter.unusedSimpArgs false
set_option linter.unusedVariables false

theorem mapM_id_map_some {α : Type} (l : List α) : (l.map (fun x => some x)).mapM id = some l := by
  induction l with
  | nil => rfl
  | cons x xs ih => simp [List.mapM_cons, ih]

theorem mapM_of_forall {α β : Type} (f : α → Option β) (g : α → β) (l : List α) (h : ∀ x ∈ l, f x = some (g x)) :
    l.mapM f = some (l.map g) := by
  induction l with
  | nil => rfl
  | cons x xs ih =>
    simp [List.mapM_cons, h x (by simp), ih (fun y hy => h y (List.mem_cons_of_mem _ hy))]

/-- the pieces of a well-formed text whose parts denote pieces -/
theorem piecesOfText_parts (enc : List Char → Nat) (parts : List Part) (f : Part → Piece)
    (hne : parts ≠ []) (hs : ∀ p ∈ parts, p.Simple)
    (hp : ∀ p ∈ parts, toPiece enc (p.arg, p.ann, p.dflt) = some (f p)) :
    piecesOfText enc (joinComma (parts.map Part.text)) = some (parts.map f) := by
  unfold piecesOfText
  rw [splitParams_simple parts hne hs]
  have h1 : (parts.map (fun p => some (p.arg, p.ann, p.dflt))).mapM id = some (parts.map (fun p => (p.arg, p.ann, p.dflt))) := by
    have := mapM_id_map_some (parts.map (fun p => (p.arg, p.ann, p.dflt)))
    simpa [List.map_map, Function.comp_def] using this
  rw [h1]
  have h2 : (parts.map (fun p => (p.arg, p.ann, p.dflt))).mapM (toPiece enc) = some (parts.map f) := by
    have := mapM_of_forall (fun p : Part => toPiece enc (p.arg, p.ann, p.dflt)) f parts hp
    rw [List.mapM_map]
    exact this
  simp [h2]

/-- `read_sig` from the text = `read_sig` on the pieces, for a well-formed text whose parts denote pieces -/
theorem readSigText_parts (enc : List Char → Nat) (ua upo ukw : Bool) (parts : List Part) (f : Part → Piece)
    (hne : parts ≠ []) (hs : ∀ p ∈ parts, p.Simple)
    (hp : ∀ p ∈ parts, toPiece enc (p.arg, p.ann, p.dflt) = some (f p)) :
    readSigText enc ua upo ukw (joinComma (parts.map Part.text)) = some (readSig ua upo ukw (parts.map f)) := by
  unfold readSigText
  rw [piecesOfText_parts enc parts f hne hs hp]; rfl

/-! what the argument tokens denote -/

theorem lstripStars_nostar (cs : List Char) (h : cs.head? ≠ some '*') : lstripStars cs = (0, cs) := by
  cases cs with
  | nil => rfl
  | cons c cs =>
    have : c ≠ '*' := by simpa using h
    unfold lstripStars
    split
    · rename_i heq; simp only [List.cons.injEq] at heq; exact absurd heq.1 this
    · rfl

theorem chevronInner_none (arg : List Char) (h : arg.head? ≠ some '<') : chevronInner arg = none := by
  cases arg with
  | nil => rfl
  | cons c cs =>
    have : c ≠ '<' := by simpa using h
    unfold chevronInner
    split
    · rename_i heq; simp only [List.cons.injEq] at heq; exact absurd heq.1 this
    · rfl

/-- an ordinary name -/
theorem toPiece_plain (enc : List Char → Nat) (name : List Char) (a d : Option (List Char))
    (h1 : name.head? ≠ some '*') (h2 : name.head? ≠ some '<') (h3 : name ≠ ['/']) :
    toPiece enc (name, a, d) = some (.plain (enc name) (a.map enc) (d.map enc)) := by
  simp [toPiece, chevronInner_none name h2, h3, lstripStars_nostar name h1]

/-- `*name` and `**name` -/
theorem toPiece_star (enc : List Char → Nat) (name : List Char) (a d : Option (List Char))
    (h0 : name ≠ []) (h1 : name.head? ≠ some '*') :
    toPiece enc ('*' :: name, a, d) = some (.star false (enc name) (a.map enc) (d.map enc)) ∧
    toPiece enc ('*' :: '*' :: name, a, d) = some (.star true (enc name) (a.map enc) (d.map enc)) := by
  have hl := lstripStars_nostar name h1
  have hne : name.isEmpty = false := by cases name <;> simp_all
  constructor
  · have : lstripStars ('*' :: name) = (1, name) := by simp [lstripStars, hl]
    simp [toPiece, chevronInner, this, hne]
  · have : lstripStars ('*' :: '*' :: name) = (2, name) := by simp [lstripStars, hl]
    simp [toPiece, chevronInner, this, hne]

theorem toPiece_marks (enc : List Char → Nat) :
    toPiece enc (['*'], none, none) = some .bare ∧ toPiece enc (['/'], none, none) = some .slash := by
  constructor <;> simp [toPiece, chevronInner, lstripStars]

end SV
