/-
  Lemmas/LawsKinds.lean — bucket-kind invariant of one merge step.
-/
import Sigverif.Lemmas.LawsSort
namespace SV
set_option linter.unusedSimpArgs false
set_option linter.unusedVariables false

theorem mem_pupdate (d e : List Param) (x : Param) (h : x ∈ pupdate d e) : x ∈ d ∨ x ∈ e := by
  unfold pupdate at h
  induction e generalizing d with
  | nil => exact .inl h
  | cons p e ih =>
    simp only [List.foldl_cons] at h
    rcases ih _ h with h | h
    · rcases mem_pset_Laws _ _ _ h with h | rfl
      · exact .inl h
      · exact .inr (by simp)
    · exact .inr (by simp [h])

@[simp] theorem concile_kind (l r : Param) : (concile l r).kind = l.kind := rfl
@[simp] theorem concile_name (l r : Param) : (concile l r).name = l.name := rfl
@[simp] theorem withKind_kind_Laws (p : Param) (k : Kind) : (p.withKind k).kind = k := rfl
@[simp] theorem withKind_name_Laws (p : Param) (k : Kind) : (p.withKind k).name = p.name := rfl
@[simp] theorem withKind_dflt_Laws (p : Param) (k : Kind) : (p.withKind k).dflt = p.dflt := rfl

/-- every bucket of the merger state only holds parameters of its kind -/
structure StKinds (st : MState) : Prop where
  pos : ∀ p ∈ st.pos, p.kind = .po
  pok : ∀ p ∈ st.pok, p.kind = .pk
  kwo : ∀ p ∈ st.kwo, p.kind = .ko
  lUn : ∀ p ∈ st.lUn, p.kind = .ko
  rUn : ∀ p ∈ st.rUn, p.kind = .ko

def AllKind (k : Kind) (ps : List Param) : Prop := ∀ p ∈ ps, p.kind = k

theorem AllKind.tail {k : Kind} {p : Param} {ps : List Param} (h : AllKind k (p :: ps)) : AllKind k ps :=
  fun q hq => h q (by simp [hq])
theorem AllKind.head {k : Kind} {p : Param} {ps : List Param} (h : AllKind k (p :: ps)) : p.kind = k :=
  h p (by simp)

theorem AllKind.append_one {k : Kind} {ps : List Param} {p : Param} (h : AllKind k ps) (hp : p.kind = k) :
    AllKind k (ps ++ [p]) := by
  intro q hq
  simp only [List.mem_append, List.mem_singleton] at hq
  rcases hq with hq | rfl
  · exact h q hq
  · exact hp

theorem AllKind.pset {k : Kind} {ps : List Param} {p : Param} (h : AllKind k ps) (hp : p.kind = k) :
    AllKind k (pset ps p) := by
  intro q hq
  rcases mem_pset_Laws _ _ _ hq with hq | rfl
  · exact h q hq
  · exact hp

theorem AllKind.ppop {k : Kind} {ps : List Param} (n : Nat) (h : AllKind k ps) : AllKind k (ppop ps n) := by
  intro q hq
  exact h q (List.mem_filter.1 hq).1

theorem AllKind.flush {ps qs : List Param} {p : Param} (h : AllKind .po ps) :
    AllKind .po (ps ++ qs.map (·.withKind .po) ++ [p.withKind .po]) := by
  intro q hq
  simp only [List.mem_append, List.mem_map, List.mem_singleton] at hq
  rcases hq with (hq | ⟨x, _, rfl⟩) | rfl
  · exact h q hq
  · rfl
  · rfl

theorem phaseK1_kinds (l r : Sorted) (ps : List Param) (st : MState)
    (hps : AllKind .ko ps) (hst : StKinds st) : StKinds (phaseK1 l r ps st) := by
  induction ps generalizing st with
  | nil => exact hst
  | cons p ps ih =>
    simp only [phaseK1]
    split
    · apply ih _ hps.tail
      exact { hst with kwo := AllKind.pset hst.kwo hps.head }
    · apply ih _ hps.tail
      exact { hst with lUn := AllKind.pset hst.lUn hps.head }

theorem phaseK2_kinds (l : Sorted) (ps : List Param) (st : MState)
    (hps : AllKind .ko ps) (hst : StKinds st) : StKinds (phaseK2 l ps st) := by
  induction ps generalizing st with
  | nil => exact hst
  | cons p ps ih =>
    simp only [phaseK2]
    split
    · exact ih _ hps.tail hst
    · apply ih _ hps.tail
      exact { hst with rUn := AllKind.pset hst.rUn hps.head }

theorem AllKind.nil {k : Kind} : AllKind k [] := by intro p hp; cases hp

/-- closes `StKinds st'` when every bucket of `st'` is obtained from `st` by one of the standard moves -/
macro "kinds_leaf" hst:ident hex:ident : tactic =>
  `(tactic| (constructor <;> first
      | exact (StKinds.pos $hst :) | exact (StKinds.pok $hst :) | exact (StKinds.kwo $hst :)
      | exact (StKinds.lUn $hst :) | exact (StKinds.rUn $hst :)
      | exact AllKind.append_one (StKinds.pos $hst) $hex
      | exact AllKind.append_one (StKinds.pok $hst) $hex
      | exact AllKind.pset (StKinds.kwo $hst) rfl
      | exact AllKind.ppop _ (StKinds.lUn $hst)
      | exact AllKind.ppop _ (StKinds.rUn $hst)
      | exact AllKind.flush (StKinds.pos $hst)
      | exact AllKind.nil))

theorem unbalancedPos_kinds (side : Side) (l r : Sorted) (ex : Param) (cf : List Param) (st st' : MState)
    (cf' : List Param) (hex : ex.kind = .po) (hcf : AllKind .pk cf) (hst : StKinds st)
    (h : unbalancedPos side l r ex cf st = .ok (st', cf')) : StKinds st' ∧ AllKind .pk cf' := by
  have hex' : ∀ o, (concile ex o).kind = .po := fun o => hex
  cases cf with
  | cons o rest =>
    simp only [unbalancedPos, Except.ok.injEq, Prod.mk.injEq] at h
    obtain ⟨rfl, rfl⟩ := h
    have := hex' o
    exact ⟨by kinds_leaf hst this, hcf.tail⟩
  | nil =>
    cases side <;> simp only [unbalancedPos] at h <;> (repeat' split at h) <;>
      first
      | (cases h; done)
      | (simp only [Except.ok.injEq, Prod.mk.injEq] at h
         obtain ⟨rfl, rfl⟩ := h
         exact ⟨by kinds_leaf hst hex, hcf⟩)

theorem phaseP_kinds (l r : Sorted) (ls rs il ir : List Param) (st st' : MState) (il' ir' : List Param)
    (hls : AllKind .po ls) (hrs : AllKind .po rs) (hil : AllKind .pk il) (hir : AllKind .pk ir)
    (hst : StKinds st) (h : phaseP l r ls rs il ir st = .ok (st', il', ir')) :
    StKinds st' ∧ AllKind .pk il' ∧ AllKind .pk ir' := by
  induction ls, rs, il, ir, st using phaseP.induct l r with
  | case1 il ir st =>
    simp only [phaseP, Except.ok.injEq, Prod.mk.injEq] at h
    obtain ⟨rfl, rfl, rfl⟩ := h
    exact ⟨hst, hil, hir⟩
  | case2 lp ls rp rs il ir st st1 ih =>
    simp only [phaseP] at h
    apply ih hls.tail hrs.tail hil hir _ h
    exact { hst with pos := AllKind.append_one hst.pos hls.head }
  | case3 lp ls il ir st ih =>
    simp only [phaseP, bind, Except.bind] at h
    split at h
    · cases h
    · rename_i v hv
      obtain ⟨st1, ir1⟩ := v
      obtain ⟨k1, k2⟩ := unbalancedPos_kinds _ _ _ _ _ _ _ _ hls.head hir hst hv
      exact ih _ _ hls.tail hrs hil k2 k1 h
  | case4 rp rs il ir st ih =>
    simp only [phaseP, bind, Except.bind] at h
    split at h
    · cases h
    · rename_i v hv
      obtain ⟨st1, il1⟩ := v
      obtain ⟨k1, k2⟩ := unbalancedPos_kinds _ _ _ _ _ _ _ _ hrs.head hil hst hv
      exact ih _ _ hls hrs.tail k2 hir k1 h

theorem unbalancedPok_kinds (side : Side) (l r : Sorted) (ex : Param) (st st' : MState)
    (hex : ex.kind = .pk) (hst : StKinds st)
    (h : unbalancedPok side l r ex st = .ok st') : StKinds st' := by
  cases side <;> simp only [unbalancedPok] at h <;> (repeat' split at h) <;>
    first
    | (cases h; done)
    | (simp only [Except.ok.injEq] at h
       subst h
       kinds_leaf hst hex)

theorem phaseQ_kinds (l r : Sorted) (il ir : List Param) (st st' : MState)
    (hil : AllKind .pk il) (hir : AllKind .pk ir)
    (hst : StKinds st) (h : phaseQ l r il ir st = .ok st') : StKinds st' := by
  induction il, ir, st using phaseQ_ind l r with
  | h1 st =>
    simp only [phaseQ, Except.ok.injEq] at h
    subst h; exact hst
  | h2 lp ls rp rs st hn ih =>
    rw [phaseQ, if_pos hn] at h
    apply ih hil.tail hir.tail _ h
    exact { hst with pok := AllKind.append_one hst.pok hil.head }
  | h3 lp ls rp rs st hn ih =>
    rw [phaseQ, if_neg hn] at h
    apply ih hil.tail hir.tail _ h
    exact { hst with pos := AllKind.flush hst.pos, pok := by intro p hp; cases hp }
  | h4 lp ls st ih =>
    simp only [phaseQ, bind, Except.bind] at h
    split at h
    · cases h
    · rename_i v hv
      exact ih _ hil.tail hir (unbalancedPok_kinds _ _ _ _ _ _ hil.head hst hv) h
  | h5 rp rs st ih =>
    simp only [phaseQ, bind, Except.bind] at h
    split at h
    · cases h
    · rename_i v hv
      exact ih _ hil hir.tail (unbalancedPok_kinds _ _ _ _ _ _ hir.head hst hv) h

theorem mergeUnmatched_kinds (side : Side) (l r : Sorted) (st st' : MState) (hst : StKinds st)
    (h : mergeUnmatched side l r st = .ok st') : StKinds st' := by
  have hL : AllKind .ko (pupdate st.kwo st.lUn) := by
    intro p hp
    rcases mem_pupdate _ _ _ hp with hp | hp
    · exact hst.kwo p hp
    · exact hst.lUn p hp
  have hR : AllKind .ko (pupdate st.kwo st.rUn) := by
    intro p hp
    rcases mem_pupdate _ _ _ hp with hp | hp
    · exact hst.kwo p hp
    · exact hst.rUn p hp
  cases side <;> simp only [mergeUnmatched] at h <;> (repeat' split at h) <;>
    first
    | (cases h; done)
    | (simp only [Except.ok.injEq] at h
       subst h
       first | exact hst | exact { hst with kwo := hL } | exact { hst with kwo := hR })

theorem addStarargs_kind (l r : Sorted) (wL wR : Bool) (left right : Option Param) (src : Srcs)
    (k : Kind) (hl : ∀ p, left = some p → p.kind = k) (hr : ∀ p, right = some p → p.kind = k) :
    ∀ p, (addStarargs l r wL wR left right src).1 = some p → p.kind = k := by
  intro p hp
  unfold addStarargs at hp
  split at hp
  · rename_i lp rp
    split at hp
    · simp only [Option.some.injEq] at hp
      subst hp
      exact hl lp rfl
    · split at hp
      · simp only [Option.some.injEq] at hp
        subst hp; exact hl _ rfl
      · simp only [Option.some.injEq] at hp
        subst hp; exact hr _ rfl
  · cases hp

/-- inversion of `mergeStep`: names for all intermediate states -/
theorem mergeStep_ok (l r s : Sorted) (h : mergeStep l r = .ok s) :
    ∃ (st1 st2 st3 st4 : MState) (il ir : List Param),
      phaseP l r l.pos r.pos l.pok r.pok
        (phaseK2 l r.kwo (phaseK1 l r l.kwo
          { vaL := l.va.isSome, vaR := r.va.isSome, vkL := l.vk.isSome, vkR := r.vk.isSome })) =
          .ok (st1, il, ir) ∧
      phaseQ l r il ir st1 = .ok st2 ∧
      mergeUnmatched .L l r st2 = .ok st3 ∧
      mergeUnmatched .R l r st3 = .ok st4 ∧
      s = { pos := st4.pos, pok := st4.pok,
            va := (addStarargs l r st4.vaL st4.vaR l.va r.va st4.src).1,
            kwo := st4.kwo,
            vk := (addStarargs l r st4.vkL st4.vkR l.vk r.vk
                    (addStarargs l r st4.vaL st4.vaR l.va r.va st4.src).2).1,
            src := (addStarargs l r st4.vkL st4.vkR l.vk r.vk
                    (addStarargs l r st4.vaL st4.vaR l.va r.va st4.src).2).2,
            depths := mergeDepths l.depths r.depths } := by
  simp only [mergeStep, bind, Except.bind] at h
  split at h
  · cases h
  · rename_i v1 hv1
    obtain ⟨st1, il, ir⟩ := v1
    split at h
    · cases h
    · rename_i st2 hv2
      split at h
      · cases h
      · rename_i st3 hv3
        split at h
        · cases h
        · rename_i st4 hv4
          simp only [pure, Except.pure, Except.ok.injEq] at h
          exact ⟨st1, st2, st3, st4, il, ir, hv1, hv2, hv3, hv4, h.symm⟩

theorem mergeStep_bucketKinds' (l r s : Sorted) (hl : BucketKinds l) (hr : BucketKinds r)
    (h : mergeStep l r = .ok s) : BucketKinds s := by
  obtain ⟨st1, st2, st3, st4, il, ir, h1, h2, h3, h4, rfl⟩ := mergeStep_ok l r s h
  have k0 : StKinds ({ vaL := l.va.isSome, vaR := r.va.isSome, vkL := l.vk.isSome,
                       vkR := r.vk.isSome } : MState) := by
    constructor <;> simp
  have kK1 := phaseK1_kinds l r l.kwo _ hl.kwo k0
  have kK2 := phaseK2_kinds l r.kwo _ hr.kwo kK1
  obtain ⟨k1, kil, kir⟩ := phaseP_kinds l r _ _ _ _ _ _ _ _ hl.pos hr.pos hl.pok hr.pok kK2 h1
  have k2 := phaseQ_kinds l r _ _ _ _ kil kir k1 h2
  have k3 := mergeUnmatched_kinds _ _ _ _ _ k2 h3
  have k4 := mergeUnmatched_kinds _ _ _ _ _ k3 h4
  exact ⟨k4.pos, k4.pok, addStarargs_kind _ _ _ _ _ _ _ _ hl.va hr.va, k4.kwo,
    addStarargs_kind _ _ _ _ _ _ _ _ hl.vk hr.vk⟩

end SV
