/-
  Lemmas/C05TotalExt.lean — every function of the walker only APPENDS to the `revisit` queue, and
  the appended nodes have total size at most the size of the tree walked (strictly less when the
  node is processed rather than queued).
-/
import Sigverif.Lemmas.C05TotalBasic
namespace SV
namespace C05T

/-- `resolveCore` followed by the unconditional visit (ro = False) -/
theorem rc_visit_ext {t : Tree}
    (hR : ∀ b st, Ext st.revisit (resolveCore t b st).2.revisit (t.size - 1) ∧
      ((∀ v a, t ≠ .attr v a) → (resolveCore t b st).2 = st))
    (hV : ∀ force st, Ext st.revisit (visit force t st).revisit t.size) (b : Bool) (st : VState) :
    Ext st.revisit (visit false t (resolveCore t b st).2).revisit t.size := by
  by_cases h : ∀ v a, t ≠ .attr v a
  · rw [(hR b st).2 h]; exact hV _ _
  · have : ∃ v a, t = .attr v a := by
      apply Classical.byContradiction
      intro hn; apply h; intro v a e; exact hn ⟨v, a, e⟩
    obtain ⟨v, a, rfl⟩ := this
    rw [visit]
    exact (hR b st).1.mono (by omega)

/-- `resolveCore` followed by the conditional visit (ro = True) -/
theorem rc_cvisit_ext {t : Tree}
    (hR : ∀ b st, Ext st.revisit (resolveCore t b st).2.revisit (t.size - 1) ∧
      ((∀ v a, t ≠ .attr v a) → (resolveCore t b st).2 = st))
    (hV : ∀ force st, Ext st.revisit (visit force t st).revisit t.size) (b : Bool) (st : VState) :
    Ext st.revisit
      (if isNameNode t then (resolveCore t b st).2 else visit false t (resolveCore t b st).2).revisit
      t.size := by
  split
  · exact (hR b st).1.mono (by omega)
  · exact rc_visit_ext hR hV b st

/-- the taint step of `process_Call` -/
def taintStep (wrapped : RM) (st : VState) : VState :=
  match wrapped with
  | .attr _ _ => match wrapped.instance with
    | .arg n _ => st.taint n
    | _ => st
  | _ => st

def starStep (as : ArgList) (st : VState) : Option RM × VState :=
  if as.starCount = 0 then (none, st)
  else if as.starCount = 1 then resolveOnlyStar as st
  else (some RM.unknown, st)

def dstarStep (ks : KwList) (st : VState) : Option RM × VState :=
  if ks.dstarCount = 0 then (none, st)
  else if ks.dstarCount = 1 then resolveOnlyDstar ks st
  else (some RM.unknown, st)

/-- the queue after a processed Call, by projections -/
theorem visit_call_revisit (force : Bool) (f : Tree) (as : ArgList) (ks : KwList) (st : VState)
    (h : ¬ ((!force && (st.ns st.cur).parent.isSome) = true)) :
    (visit force (.call f as ks) st).revisit =
      (dstarStep ks (starStep as (resolveKws ks (resolveArgs as
        (taintStep (resolveCore f true st).1.1
          (if isNameNode f then (resolveCore f true st).2
            else visit false f (resolveCore f true st).2))).2).2).2).2.revisit := by
  rw [visit, if_neg h]
  rfl

/-- a Call that is processed (not queued): only proper sub-terms are queued -/
theorem call_processed {f : Tree} {as : ArgList} {ks : KwList} (force : Bool) (st : VState)
    (h : ¬ ((!force && (st.ns st.cur).parent.isSome) = true))
    (hF : ∀ b st, Ext st.revisit
      (if isNameNode f then (resolveCore f b st).2 else visit false f (resolveCore f b st).2).revisit
      f.size)
    (hA : ∀ st, Ext st.revisit (resolveArgs as st).2.revisit (plainSize as))
    (hK : ∀ st, Ext st.revisit (resolveKws ks st).2.revisit (kwSize ks))
    (hS : ∀ st, Ext st.revisit (resolveOnlyStar as st).2.revisit (starSize as))
    (hD : ∀ st, Ext st.revisit (resolveOnlyDstar ks st).2.revisit (dstarSize ks)) :
    Ext st.revisit (visit force (.call f as ks) st).revisit (f.size + as.size + ks.size) := by
  rw [visit_call_revisit force f as ks st h]
  have h1 := hF true st
  generalize (if isNameNode f = true then (resolveCore f true st).2
    else visit false f (resolveCore f true st).2) = st2 at h1 ⊢
  have h2 : (taintStep (resolveCore f true st).1.1 st2).revisit = st2.revisit := by
    unfold taintStep
    exact taintStep_revisit _ _
  generalize taintStep (resolveCore f true st).1.1 st2 = st3 at h2 ⊢
  have h3 := hA st3
  rw [h2] at h3
  generalize (resolveArgs as st3).2 = st4 at h3 ⊢
  have h4 := hK st4
  generalize (resolveKws ks st4).2 = st5 at h4 ⊢
  have h5 : Ext st5.revisit (starStep as st5).2.revisit (starSize as) := by
    unfold starStep
    split
    · exact Ext.refl _ _
    · split
      · exact hS st5
      · exact Ext.refl _ _
  generalize (starStep as st5).2 = st6 at h5 ⊢
  have h6 : Ext st6.revisit (dstarStep ks st6).2.revisit (dstarSize ks) := by
    unfold dstarStep
    split
    · exact Ext.refl _ _
    · split
      · exact hD st6
      · exact Ext.refl _ _
  have hpa := plain_add_star as
  have hkd := kw_add_dstar ks
  exact ((((h1.trans h3).trans h4).trans h5).trans h6).mono (by omega)

mutual
  theorem visit_ext : ∀ (t : Tree) (force : Bool) (st : VState),
      Ext st.revisit (visit force t st).revisit t.size
    | .name id ctx, force, st => by
      rw [visit]; exact Ext.of_eq (by simp) _
    | .attr v a, force, st => by
      rw [visit]; exact Ext.refl _ _
    | .nonloc names, force, st => by
      rw [visit]; exact Ext.of_eq (foldl_revisit _ addNonlocal_revisit _ _) _
    | .other ch, force, st => by
      rw [visit]; exact (visitList_ext ch st).mono (by simp [Tree.size])
    | .fdef po args kwo va vk body, force, st => by
      rw [visit]
      have := visitList_ext body (processParams
        { st with nss := st.nss ++ [{ parent := some st.cur }], cur := st.nss.length }
        po args kwo va vk false)
      rw [processParams_revisit] at this
      exact this.mono (by simp [Tree.size])
    | .call f as ks, force, st => by
      by_cases h : (!force && (st.ns st.cur).parent.isSome) = true
      · rw [visit, if_pos h]
        exact ⟨[(.call f as ks, st.cur)], rfl, by simp [Tree.size]⟩
      · exact (call_processed force st h
          (fun b st => rc_cvisit_ext (resolveCore_ext f) (visit_ext f) b st)
          (resolveArgs_ext as) (resolveKws_ext ks) (resolveOnlyStar_ext as)
          (resolveOnlyDstar_ext ks)).mono (by simp [Tree.size])

  theorem visitList_ext : ∀ (ts : TreeList) (st : VState),
      Ext st.revisit (visitList ts st).revisit ts.size
    | .nil, st => by rw [visitList]; exact Ext.refl _ _
    | .cons t ts, st => by
      rw [visitList]
      exact ((visit_ext t false st).trans (visitList_ext ts _)).mono (by simp [TreeList.size])

  theorem resolveCore_ext : ∀ (t : Tree) (b : Bool) (st : VState),
      Ext st.revisit (resolveCore t b st).2.revisit (t.size - 1) ∧
        ((∀ v a, t ≠ .attr v a) → (resolveCore t b st).2 = st)
    | .name id ctx, b, st => by
      rw [resolveCore]
      split <;> exact ⟨Ext.refl _ _, fun _ => rfl⟩
    | .attr v a, b, st => by
      refine ⟨?_, fun h => absurd rfl (h v a)⟩
      rw [resolveCore]
      exact (rc_cvisit_ext (resolveCore_ext v) (visit_ext v) b st).mono (by simp [Tree.size])
    | .call _ _ _, b, st => by
      rw [resolveCore]
      · exact ⟨Ext.refl _ _, fun _ => rfl⟩
      all_goals (intros; contradiction)
    | .fdef _ _ _ _ _ _, b, st => by
      rw [resolveCore]
      · exact ⟨Ext.refl _ _, fun _ => rfl⟩
      all_goals (intros; contradiction)
    | .nonloc _, b, st => by
      rw [resolveCore]
      · exact ⟨Ext.refl _ _, fun _ => rfl⟩
      all_goals (intros; contradiction)
    | .other _, b, st => by
      rw [resolveCore]
      · exact ⟨Ext.refl _ _, fun _ => rfl⟩
      all_goals (intros; contradiction)

  theorem resolveArgs_ext : ∀ (as : ArgList) (st : VState),
      Ext st.revisit (resolveArgs as st).2.revisit (plainSize as)
    | .nil, st => by rw [resolveArgs]; exact Ext.refl _ _
    | .starred t rest, st => by
      rw [resolveArgs]; exact (resolveArgs_ext rest st).mono (by simp [plainSize])
    | .plain t rest, st => by
      rw [resolveArgs]
      exact ((rc_visit_ext (resolveCore_ext t) (visit_ext t) false st).trans
        (resolveArgs_ext rest _)).mono (by simp [plainSize])

  theorem resolveKws_ext : ∀ (ks : KwList) (st : VState),
      Ext st.revisit (resolveKws ks st).2.revisit (kwSize ks)
    | .nil, st => by rw [resolveKws]; exact Ext.refl _ _
    | .dstar v rest, st => by
      rw [resolveKws]; exact (resolveKws_ext rest st).mono (by simp [kwSize])
    | .kw n v rest, st => by
      rw [resolveKws]
      exact ((rc_visit_ext (resolveCore_ext v) (visit_ext v) false st).trans
        (resolveKws_ext rest _)).mono (by simp [kwSize])

  theorem resolveOnlyStar_ext : ∀ (as : ArgList) (st : VState),
      Ext st.revisit (resolveOnlyStar as st).2.revisit (starSize as)
    | .nil, st => by rw [resolveOnlyStar]; exact Ext.refl _ _
    | .plain t rest, st => by
      rw [resolveOnlyStar]; exact (resolveOnlyStar_ext rest st).mono (by simp [starSize])
    | .starred t rest, st => by
      rw [resolveOnlyStar]
      exact (rc_cvisit_ext (resolveCore_ext t) (visit_ext t) false st).mono (by simp [starSize])

  theorem resolveOnlyDstar_ext : ∀ (ks : KwList) (st : VState),
      Ext st.revisit (resolveOnlyDstar ks st).2.revisit (dstarSize ks)
    | .nil, st => by rw [resolveOnlyDstar]; exact Ext.refl _ _
    | .kw _ _ rest, st => by
      rw [resolveOnlyDstar]; exact (resolveOnlyDstar_ext rest st).mono (by simp [dstarSize])
    | .dstar v rest, st => by
      rw [resolveOnlyDstar]
      exact (rc_cvisit_ext (resolveCore_ext v) (visit_ext v) false st).mono (by simp [dstarSize])
end

/-- a forced visit (what the revisit loop does) queues only proper sub-terms -/
theorem visit_true_ext (t : Tree) (st : VState) :
    Ext st.revisit (visit true t st).revisit (t.size - 1) := by
  cases t with
  | name id ctx => rw [visit]; exact Ext.of_eq (by simp) _
  | attr v a => rw [visit]; exact Ext.refl _ _
  | nonloc names => rw [visit]; exact Ext.of_eq (foldl_revisit _ addNonlocal_revisit _ _) _
  | other ch => rw [visit]; exact (visitList_ext ch st).mono (by simp [Tree.size])
  | fdef po args kwo va vk body =>
    rw [visit]
    have := visitList_ext body (processParams
      { st with nss := st.nss ++ [{ parent := some st.cur }], cur := st.nss.length }
      po args kwo va vk false)
    rw [processParams_revisit] at this
    exact this.mono (by simp [Tree.size])
  | call f as ks =>
    exact (call_processed true st (by simp)
      (fun b st => rc_cvisit_ext (resolveCore_ext f) (visit_ext f) b st)
      (resolveArgs_ext as) (resolveKws_ext ks) (resolveOnlyStar_ext as)
      (resolveOnlyDstar_ext ks)).mono (by simp [Tree.size])

end C05T
end SV
