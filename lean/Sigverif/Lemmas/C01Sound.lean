/-
  Lemmas/C01Sound.lean — bucket-level acceptance of pure calls, soundness of one `mergeStep`
  for it, and the bridges to `accepts` at both ends of `merge`.
-/
import Sigverif.Lemmas.C01Step
import Sigverif.Lemmas.C01Bind
import Sigverif.Lemmas.C01Sort
namespace SV

/-- bucket-level acceptance of the all-positional call with `n` arguments (by counting) -/
def accPosB (B : Sorted) (n : Nat) : Prop :=
  reqCount (B.pos ++ B.pok) ≤ n ∧ (n ≤ B.pos.length + B.pok.length ∨ B.va.isSome = true) ∧
  ¬ anyReq B.kwo

/-- bucket-level acceptance of the all-keyword call with keywords `K` -/
def accKwB (B : Sorted) (K : List Nat) : Prop :=
  ¬ anyReq B.pos ∧ (∀ k ∈ K, k ∈ names B.pok ∨ k ∈ names B.kwo ∨ B.vk.isSome = true) ∧
  (∀ x, hasReq B.pok x ∨ hasReq B.kwo x → x ∈ K)

theorem anyReq_of_hasReq_exists {ps : List Param} : anyReq ps ↔ ∃ x, hasReq ps x := by
  constructor
  · rintro ⟨p, hp, hr⟩; exact ⟨p.name, p, hp, rfl, hr⟩
  · rintro ⟨x, h⟩; exact hasReq_anyReq h

/-! ### one step -/

theorem step_pos {l r m : Sorted} (F : StepFacts l r m) {n : Nat} (h : accPosB m n) :
    accPosB l n ∧ accPosB r n := by
  obtain ⟨h1, h2, h3⟩ := h
  have hk : reqCount m.kwo = 0 := by
    have := @anyReq_iff_reqCount m.kwo
    rcases Nat.eq_zero_or_pos (reqCount m.kwo) with h | h
    · exact h
    · exact absurd (this.2 h) h3
  have va := F.va
  refine ⟨⟨?_, ?_, ?_⟩, ⟨?_, ?_, ?_⟩⟩
  · have := F.wl; omega
  · rcases h2 with h2 | h2
    · rcases F.lenl with h' | h'
      · exact Or.inl (by omega)
      · exact Or.inr h'
    · rw [va] at h2; simp only [Bool.and_eq_true] at h2; exact Or.inr h2.1
  · intro ha
    obtain ⟨x, hx⟩ := anyReq_of_hasReq_exists.1 ha
    exact h3 (hasReq_anyReq (F.kwo x (Or.inl hx)))
  · have := F.wr; omega
  · rcases h2 with h2 | h2
    · rcases F.lenr with h' | h'
      · exact Or.inl (by omega)
      · exact Or.inr h'
    · rw [va] at h2; simp only [Bool.and_eq_true] at h2; exact Or.inr h2.2
  · intro ha
    obtain ⟨x, hx⟩ := anyReq_of_hasReq_exists.1 ha
    exact h3 (hasReq_anyReq (F.kwo x (Or.inr hx)))

theorem step_kw {l r m : Sorted} (F : StepFacts l r m) {K : List Nat} (h : accKwB m K) :
    accKwB l K ∧ accKwB r K := by
  obtain ⟨h1, h2, h3⟩ := h
  have vk := F.vk
  have hnm : ∀ k ∈ K, OKn l r k := by
    intro k hk
    rcases h2 k hk with h | h | h
    · obtain ⟨p, hp, rfl⟩ := mem_names_C01.1 h; exact F.orig p (Or.inl hp)
    · obtain ⟨p, hp, rfl⟩ := mem_names_C01.1 h; exact F.orig p (Or.inr hp)
    · rw [vk] at h; simp only [Bool.and_eq_true] at h
      exact ⟨Or.inr (Or.inr h.1), Or.inr (Or.inr h.2)⟩
  refine ⟨⟨?_, ?_, ?_⟩, ⟨?_, ?_, ?_⟩⟩
  · exact fun ha => h1 (F.pos (Or.inl ha))
  · exact fun k hk => (hnm k hk).1
  · intro x hx
    rcases hx with hx | hx
    · rcases F.pok x (Or.inl hx) with h | h | h
      · exact absurd h h1
      · exact h3 x (Or.inl h)
      · exact h3 x (Or.inr h)
    · exact h3 x (Or.inr (F.kwo x (Or.inl hx)))
  · exact fun ha => h1 (F.pos (Or.inr ha))
  · exact fun k hk => (hnm k hk).2
  · intro x hx
    rcases hx with hx | hx
    · rcases F.pok x (Or.inr hx) with h | h | h
      · exact absurd h h1
      · exact h3 x (Or.inl h)
      · exact h3 x (Or.inr h)
    · exact h3 x (Or.inr (F.kwo x (Or.inr hx)))

/-! ### `sortParams` of a valid signature -/

theorem nodup_names_filter {ps : List Param} (h : (names ps).Nodup) (f : Param → Bool) :
    (names (ps.filter f)).Nodup := h.sublist (List.filter_sublist.map _)

structure SortFacts (s : USig) (B : Sorted) : Prop where
  pos : B.pos = s.params.filter (fun p => p.kind = .po)
  pok : B.pok = s.params.filter (fun p => p.kind = .pk)
  kwo : B.kwo = s.params.filter (fun p => p.kind = .ko)
  va : B.va.isSome = hasVa s.params
  vk : B.vk.isSome = hasVk s.params
  bk : BucketKinds B
  nd : KwInv B

theorem sortParams_facts (s : USig) (h : validate s.params = .ok ()) :
    SortFacts s (sortParams s) := by
  have hn := validate_nodup_C01 h
  unfold sortParams
  have e1 := sortGo_pos_C01 s.params { src := s.src, depths := copyDepths s.depths 0 }
  have e2 := sortGo_pok_C01 s.params { src := s.src, depths := copyDepths s.depths 0 }
  have e3 := sortGo_kwo_C01 s.params { src := s.src, depths := copyDepths s.depths 0 }
    (by simpa using nodup_names_filter hn _)
  have e4 := sortGo_va_C01 s.params { src := s.src, depths := copyDepths s.depths 0 }
  have e5 := sortGo_vk_C01 s.params { src := s.src, depths := copyDepths s.depths 0 }
  simp only [List.nil_append, Option.isSome_none, Bool.false_or, reduceCtorEq, false_or] at e1 e2 e3 e4 e5
  refine ⟨e1, e2, e3, e4.1, e5.1, ⟨?_, ?_, e4.2, ?_, e5.2⟩, ?_⟩
  · rw [e1]; intro p hp; simpa using (List.mem_filter.1 hp).2
  · rw [e2]; intro p hp; simpa using (List.mem_filter.1 hp).2
  · rw [e3]; intro p hp; simpa using (List.mem_filter.1 hp).2
  · unfold KwInv
    rw [e2, e3, names_append_C01, List.nodup_append]
    refine ⟨nodup_names_filter hn _, nodup_names_filter hn _, ?_⟩
    intro a ha b hb hab
    subst hab
    obtain ⟨p, hp, hpn⟩ := mem_names_C01.1 ha
    obtain ⟨q, hq, hqn⟩ := mem_names_C01.1 hb
    obtain ⟨hp1, hp2⟩ := List.mem_filter.1 hp
    obtain ⟨hq1, hq2⟩ := List.mem_filter.1 hq
    have : p = q := eq_of_nodup_names hn hp1 hq1 (hpn.trans hqn.symm)
    subst this
    simp_all

/-! ### from buckets back to an input signature -/

theorem length_positionals (ps : List Param) :
    (positionals ps).length =
      (ps.filter (fun p => p.kind = .po)).length + (ps.filter (fun p => p.kind = .pk)).length := by
  induction ps with
  | nil => rfl
  | cons p ps ih =>
    unfold positionals at ih ⊢
    cases hk : p.kind <;> simp [List.filter_cons, isPositional, hk, ih] <;> omega

theorem reqCount_positionals (ps : List Param) :
    reqCount (positionals ps) =
      reqCount (ps.filter (fun p => p.kind = .po)) + reqCount (ps.filter (fun p => p.kind = .pk)) := by
  induction ps with
  | nil => rfl
  | cons p ps ih =>
    unfold positionals at ih ⊢
    cases hk : p.kind <;> simp [List.filter_cons, isPositional, hk, ih, reqCount_cons] <;> omega

theorem optSuffix_take {ps : List Param} (h : OptSuffix ps) {n : Nat} (hn : reqCount ps ≤ n) :
    ∀ p ∈ ps, p.required = true → p ∈ ps.take n := by
  induction ps generalizing n with
  | nil => simp
  | cons a t ih =>
    obtain ⟨h1, h2⟩ := List.pairwise_cons.1 h
    rw [reqCount_cons] at hn
    intro p hp hr
    cases ha : a.required
    · exfalso
      rcases List.mem_cons.1 hp with rfl | hp
      · simp [ha] at hr
      · have := h1 p hp ha; simp [this] at hr
    · simp only [ha, if_true] at hn
      obtain ⟨n', rfl⟩ : ∃ n', n = n' + 1 := ⟨n - 1, by omega⟩
      rw [List.take_succ_cons]
      rcases List.mem_cons.1 hp with rfl | hp
      · exact List.mem_cons_self
      · exact List.mem_cons_of_mem _ (ih h2 (by omega) p hp hr)

theorem input_pos (s : USig) (h : validate s.params = .ok ()) {n : Nat}
    (ha : accPosB (sortParams s) n) : accepts s.params n [] = true := by
  have F := sortParams_facts s h
  obtain ⟨a1, a2, a3⟩ := ha
  rw [accepts_pos_iff]
  refine ⟨?_, ?_⟩
  · rw [length_positionals, ← F.pos, ← F.pok, ← F.va]; exact a2
  · intro p hp hnm hr
    have hcnt : reqCount (positionals s.params) ≤ n := by
      rw [reqCount_positionals, ← F.pos, ← F.pok, ← reqCount_append]; exact a1
    by_cases hk : p.kind = .ko
    · exfalso; apply a3
      rw [F.kwo]
      exact ⟨p, List.mem_filter.2 ⟨hp, by simpa using hk⟩, hr⟩
    · have hpos : p ∈ positionals s.params := by
        unfold positionals
        refine List.mem_filter.2 ⟨hp, ?_⟩
        unfold isNamed at hnm; unfold isPositional
        cases hk' : p.kind <;> simp_all
      exact mem_names_of_mem_C01 (optSuffix_take (validate_suffix h) hcnt p hpos hr)

theorem input_kw (s : USig) (h : validate s.params = .ok ()) {K : List Nat} (hK : K.Nodup)
    (ha : accKwB (sortParams s) K) : accepts s.params 0 K = true := by
  have F := sortParams_facts s h
  obtain ⟨a1, a2, a3⟩ := ha
  rw [accepts_kw_iff]
  have hkw : ∀ p ∈ s.params, (p.kind = .pk ∨ p.kind = .ko) → p.name ∈ kwNames s.params := by
    intro p hp hk
    unfold kwNames
    refine List.mem_map.2 ⟨p, List.mem_filter.2 ⟨hp, ?_⟩, rfl⟩
    unfold kwPassable; rcases hk with hk | hk <;> simp [hk]
  obtain ⟨bound, hb, hbound⟩ := bindKw_ok (kwp := kwNames s.params) (vk := hasVk s.params)
    (bound := []) hK (by simp) (by
      intro k hk
      rcases a2 k hk with h' | h' | h'
      · rw [F.pok] at h'
        obtain ⟨p, hp, rfl⟩ := mem_names_C01.1 h'
        obtain ⟨hp1, hp2⟩ := List.mem_filter.1 hp
        exact Or.inl (hkw p hp1 (Or.inl (by simpa using hp2)))
      · rw [F.kwo] at h'
        obtain ⟨p, hp, rfl⟩ := mem_names_C01.1 h'
        obtain ⟨hp1, hp2⟩ := List.mem_filter.1 hp
        exact Or.inl (hkw p hp1 (Or.inr (by simpa using hp2)))
      · exact Or.inr (F.vk ▸ h'))
  refine ⟨bound, hb, ?_⟩
  intro p hp hnm hr
  apply hbound
  right
  unfold isNamed at hnm
  cases hk : p.kind
  case po =>
    exfalso; apply a1
    rw [F.pos]; exact ⟨p, List.mem_filter.2 ⟨hp, by simpa using hk⟩, hr⟩
  case pk =>
    refine ⟨a3 _ (Or.inl ?_), hkw p hp (Or.inl hk)⟩
    rw [F.pok]; exact ⟨p, List.mem_filter.2 ⟨hp, by simpa using hk⟩, rfl, hr⟩
  case ko =>
    refine ⟨a3 _ (Or.inr ?_), hkw p hp (Or.inr hk)⟩
    rw [F.kwo]; exact ⟨p, List.mem_filter.2 ⟨hp, by simpa using hk⟩, rfl, hr⟩
  all_goals simp [hk] at hnm

/-! ### from the result signature to buckets -/

section Result
variable {B : Sorted}

theorem filter_eq_self_of {ps : List Param} {f : Param → Bool} (h : ∀ p ∈ ps, f p = true) :
    ps.filter f = ps := List.filter_eq_self.2 h
theorem filter_eq_nil_of {ps : List Param} {f : Param → Bool} (h : ∀ p ∈ ps, f p = false) :
    ps.filter f = [] := List.filter_eq_nil_iff.2 (by intro p hp; simp [h p hp])

theorem all_positionals (bk : BucketKinds B) : positionals B.all = B.pos ++ B.pok := by
  unfold positionals Sorted.all
  simp only [List.filter_append]
  rw [filter_eq_self_of (ps := B.pos) (by intro p hp; simp [isPositional, bk.pos p hp]),
    filter_eq_self_of (ps := B.pok) (by intro p hp; simp [isPositional, bk.pok p hp]),
    filter_eq_nil_of (ps := B.kwo) (by intro p hp; simp [isPositional, bk.kwo p hp]),
    filter_eq_nil_of (ps := B.va.toList) (by
      intro p hp; simp only [Option.mem_toList] at hp; simp [isPositional, bk.va p hp]),
    filter_eq_nil_of (ps := B.vk.toList) (by
      intro p hp; simp only [Option.mem_toList] at hp; simp [isPositional, bk.vk p hp])]
  simp

theorem all_kwNames (bk : BucketKinds B) : kwNames B.all = names B.pok ++ names B.kwo := by
  unfold kwNames Sorted.all
  simp only [List.filter_append]
  rw [filter_eq_nil_of (ps := B.pos) (by intro p hp; simp [kwPassable, bk.pos p hp]),
    filter_eq_self_of (ps := B.pok) (by intro p hp; simp [kwPassable, bk.pok p hp]),
    filter_eq_self_of (ps := B.kwo) (by intro p hp; simp [kwPassable, bk.kwo p hp]),
    filter_eq_nil_of (ps := B.va.toList) (by
      intro p hp; simp only [Option.mem_toList] at hp; simp [kwPassable, bk.va p hp]),
    filter_eq_nil_of (ps := B.vk.toList) (by
      intro p hp; simp only [Option.mem_toList] at hp; simp [kwPassable, bk.vk p hp])]
  simp [names]

theorem all_hasVa (bk : BucketKinds B) : hasVa B.all = B.va.isSome := by
  unfold hasVa Sorted.all
  simp only [List.any_append]
  have e1 : B.pos.any (fun p => decide (p.kind = Kind.vp)) = false := by
    rw [List.any_eq_false]; intro p hp; simp [bk.pos p hp]
  have e2 : B.pok.any (fun p => decide (p.kind = Kind.vp)) = false := by
    rw [List.any_eq_false]; intro p hp; simp [bk.pok p hp]
  have e3 : B.kwo.any (fun p => decide (p.kind = Kind.vp)) = false := by
    rw [List.any_eq_false]; intro p hp; simp [bk.kwo p hp]
  have e4 : B.vk.toList.any (fun p => decide (p.kind = Kind.vp)) = false := by
    rw [List.any_eq_false]; intro p hp; simp only [Option.mem_toList] at hp; simp [bk.vk p hp]
  rw [e1, e2, e3, e4]
  cases hv : B.va with
  | none => simp
  | some p => simp [bk.va p hv]

theorem all_hasVk (bk : BucketKinds B) : hasVk B.all = B.vk.isSome := by
  unfold hasVk Sorted.all
  simp only [List.any_append]
  have e1 : B.pos.any (fun p => decide (p.kind = Kind.vk)) = false := by
    rw [List.any_eq_false]; intro p hp; simp [bk.pos p hp]
  have e2 : B.pok.any (fun p => decide (p.kind = Kind.vk)) = false := by
    rw [List.any_eq_false]; intro p hp; simp [bk.pok p hp]
  have e3 : B.kwo.any (fun p => decide (p.kind = Kind.vk)) = false := by
    rw [List.any_eq_false]; intro p hp; simp [bk.kwo p hp]
  have e4 : B.va.toList.any (fun p => decide (p.kind = Kind.vk)) = false := by
    rw [List.any_eq_false]; intro p hp; simp only [Option.mem_toList] at hp; simp [bk.va p hp]
  rw [e1, e2, e3, e4]
  cases hv : B.vk with
  | none => simp
  | some p => simp [bk.vk p hv]

theorem mem_all_of_pos {p : Param} (h : p ∈ B.pos) : p ∈ B.all := by
  unfold Sorted.all; simp [h]
theorem mem_all_of_pok {p : Param} (h : p ∈ B.pok) : p ∈ B.all := by
  unfold Sorted.all; simp [h]
theorem mem_all_of_kwo {p : Param} (h : p ∈ B.kwo) : p ∈ B.all := by
  unfold Sorted.all; simp [h]

/-- with unique names, a count: all required ones sit among the first `n` -/
theorem reqCount_le_of_names_take {ps : List Param} (hn : (names ps).Nodup) {n : Nat}
    (h : ∀ p ∈ ps, p.required = true → p.name ∈ names (ps.take n)) : reqCount ps ≤ n := by
  induction ps generalizing n with
  | nil => simp
  | cons a t ih =>
    simp only [names_cons_C01, List.nodup_cons] at hn
    cases n with
    | zero =>
      rw [reqCount_eq_zero.2]
      · exact Nat.le_refl _
      · intro p hp
        cases hr : p.required
        · rfl
        · have := h p hp hr; simp at this
    | succ n' =>
      rw [reqCount_cons]
      have : reqCount t ≤ n' := by
        apply ih hn.2
        intro p hp hr
        have := h p (List.mem_cons_of_mem _ hp) hr
        simp only [List.take_succ_cons, names_cons_C01, List.mem_cons] at this
        rcases this with e | e
        · exact absurd (e ▸ mem_names_of_mem_C01 hp) hn.1
        · exact e
      split <;> omega

theorem result_pos (bk : BucketKinds B) (hv : validate B.all = .ok ()) {n : Nat}
    (ha : accepts B.all n [] = true) : accPosB B n := by
  have hn := validate_nodup_C01 hv
  rw [accepts_pos_iff, all_positionals bk, all_hasVa bk] at ha
  obtain ⟨a1, a2⟩ := ha
  have hnpp : (names (B.pos ++ B.pok)).Nodup := by
    refine hn.sublist (List.Sublist.map _ ?_)
    unfold Sorted.all
    exact ((List.sublist_append_left _ _).trans (List.sublist_append_left _ _)).trans
      (List.sublist_append_left _ _)
  refine ⟨?_, by simpa using a1, ?_⟩
  · apply reqCount_le_of_names_take hnpp
    intro p hp hr
    apply a2 p _ _ hr
    · rcases List.mem_append.1 hp with hp | hp
      · exact mem_all_of_pos hp
      · exact mem_all_of_pok hp
    · rcases List.mem_append.1 hp with hp | hp
      · simp [isNamed, bk.pos p hp]
      · simp [isNamed, bk.pok p hp]
  · rintro ⟨p, hp, hr⟩
    have := a2 p (mem_all_of_kwo hp) (by simp [isNamed, bk.kwo p hp]) hr
    obtain ⟨q, hq, hqn⟩ := mem_names_C01.1 this
    have hq' := List.mem_of_mem_take hq
    have hqall : q ∈ B.all := by
      rcases List.mem_append.1 hq' with h | h
      · exact mem_all_of_pos h
      · exact mem_all_of_pok h
    have : q = p := eq_of_nodup_names hn hqall (mem_all_of_kwo hp) hqn
    subst this
    have := bk.kwo q hp
    rcases List.mem_append.1 hq' with h | h
    · have := bk.pos q h; simp_all
    · have := bk.pok q h; simp_all

theorem result_kw (bk : BucketKinds B) (hv : validate B.all = .ok ()) {K : List Nat}
    (ha : accepts B.all 0 K = true) : accKwB B K := by
  have hn := validate_nodup_C01 hv
  rw [accepts_kw_iff, all_kwNames bk, all_hasVk bk] at ha
  obtain ⟨bound, hb, a2⟩ := ha
  obtain ⟨b1, b2⟩ := bindKw_some hb
  simp only [List.not_mem_nil, false_or, List.mem_append] at b1 b2
  refine ⟨?_, ?_, ?_⟩
  · rintro ⟨p, hp, hr⟩
    have := b2 _ (a2 p (mem_all_of_pos hp) (by simp [isNamed, bk.pos p hp]) hr)
    have hk := bk.pos p hp
    rcases this.2 with h | h
    · obtain ⟨q, hq, hqn⟩ := mem_names_C01.1 h
      have : q = p := eq_of_nodup_names hn (mem_all_of_pok hq) (mem_all_of_pos hp) hqn
      subst this
      have := bk.pok q hq; simp_all
    · obtain ⟨q, hq, hqn⟩ := mem_names_C01.1 h
      have : q = p := eq_of_nodup_names hn (mem_all_of_kwo hq) (mem_all_of_pos hp) hqn
      subst this
      have := bk.kwo q hq; simp_all
  · intro k hk
    rcases b1 k hk with (h | h) | h
    · exact Or.inl h
    · exact Or.inr (Or.inl h)
    · exact Or.inr (Or.inr h)
  · intro x hx
    rcases hx with ⟨p, hp, rfl, hr⟩ | ⟨p, hp, rfl, hr⟩
    · exact (b2 _ (a2 p (mem_all_of_pok hp) (by simp [isNamed, bk.pok p hp]) hr)).1
    · exact (b2 _ (a2 p (mem_all_of_kwo hp) (by simp [isNamed, bk.kwo p hp]) hr)).1

end Result

/-! ### the fold and `merge` -/

theorem mergeFold_sound (ss : List USig) (acc res : Sorted) (bk : BucketKinds acc) (nd : KwInv acc)
    (hv : ∀ s ∈ ss, validate s.params = .ok ()) (h : mergeFold acc ss = .ok res) :
    BucketKinds res ∧ KwInv res ∧
    (∀ n, accPosB res n → accPosB acc n ∧ ∀ s ∈ ss, accPosB (sortParams s) n) ∧
    (∀ K, accKwB res K → accKwB acc K ∧ ∀ s ∈ ss, accKwB (sortParams s) K) := by
  induction ss generalizing acc with
  | nil =>
    simp only [mergeFold, Except.ok.injEq] at h
    subst h
    exact ⟨bk, nd, fun n h => ⟨h, by simp⟩, fun K h => ⟨h, by simp⟩⟩
  | cons s ss ih =>
    simp only [mergeFold] at h
    cases hm : mergeStep acc (sortParams s) with
    | error e => simp [hm] at h
    | ok acc' =>
      simp only [hm] at h
      have SF := sortParams_facts s (hv s List.mem_cons_self)
      have F := mergeStep_facts bk SF.bk nd SF.nd hm
      obtain ⟨i1, i2, i3, i4⟩ := ih acc' F.bk F.nd (fun t ht => hv t (List.mem_cons_of_mem _ ht)) h
      refine ⟨i1, i2, ?_, ?_⟩
      · intro n hn
        obtain ⟨j1, j2⟩ := i3 n hn
        obtain ⟨k1, k2⟩ := step_pos F j1
        refine ⟨k1, ?_⟩
        intro t ht
        rcases List.mem_cons.1 ht with rfl | ht
        · exact k2
        · exact j2 t ht
      · intro K hK
        obtain ⟨j1, j2⟩ := i4 K hK
        obtain ⟨k1, k2⟩ := step_kw F j1
        refine ⟨k1, ?_⟩
        intro t ht
        rcases List.mem_cons.1 ht with rfl | ht
        · exact k2
        · exact j2 t ht

theorem merge_inv {ss : List USig} {R : USig} (h : merge ss = .ok R) :
    ∃ s ss' res, ss = s :: ss' ∧ mergeFold (sortParams s) ss' = .ok res ∧
      validate res.all = .ok () ∧ R.params = res.all := by
  cases ss with
  | nil => simp [merge] at h
  | cons s ss' =>
    simp only [merge] at h
    obtain ⟨res, h1, h2⟩ := bind_eq_ok h
    unfold applyParams at h2
    obtain ⟨u, h3, h4⟩ := bind_eq_ok h2
    simp only [pure, Except.pure, Except.ok.injEq] at h4
    subst h4
    exact ⟨s, ss', res, rfl, h1, h3, rfl⟩

theorem WF_validate {ps : List Param} (h : WF ps) : validate ps = .ok () :=
  validOk_iff_C01.1 h.1

end SV
