/-
  Lemmas/C05MRoles.lean — under role-consistency, a keyword-passable parameter of `merge ss` is
  keyword-passable in every input that has a parameter of that name.
-/
import Sigverif.Lemmas.C01RFinal
namespace SV

theorem c05m_merge_kw_roles (ss : List USig) (R : USig)
    (hv : ∀ s ∈ ss, validate s.params = .ok ())
    (hrc : roleCons (ss.map (·.params)))
    (hR : merge ss = .ok R) :
    ∀ k ∈ kwNames R.params, ∀ s ∈ ss, k ∈ allNames s.params → k ∈ kwNames s.params := by
  obtain ⟨ρ, hρ⟩ := exists_roles (ss.map (·.params))
    (by
      intro ps hps
      obtain ⟨s, hs, rfl⟩ := List.mem_map.1 hps
      exact validate_nodup_C01 (hv s hs)) hrc
  let IsIn : Nat → Prop := fun x => ∃ ps ∈ ss.map (·.params), x ∈ allNames ps
  have hri : ∀ s ∈ ss, RI ρ IsIn (sortParams s) := by
    intro s hs
    have hm : s.params ∈ ss.map (·.params) := List.mem_map.2 ⟨s, hs, rfl⟩
    obtain ⟨h1, h2⟩ := hρ s.params hm
    exact RI_sort s (hv s hs) h1 h2 (fun p hp => ⟨s.params, hm, mem_names_of_mem_C01 hp⟩)
  obtain ⟨s0, ss', res, rfl, hf, hvr, hp⟩ := merge_inv hR
  obtain ⟨hres, -⟩ := mergeFold_accB ss' _ res (hri s0 List.mem_cons_self)
    (fun t ht => hri t (List.mem_cons_of_mem _ ht)) hf
  intro k hk s hs hks
  rw [hp, all_kwNames hres.bk, List.mem_append] at hk
  have hκ : ρ.κ k = .pk ∨ ρ.κ k = .ko := by
    rcases hk with hk | hk
    · obtain ⟨p, hp, rfl⟩ := mem_names_C01.1 hk
      exact .inl (hres.kpok p hp)
    · obtain ⟨p, hp, rfl⟩ := mem_names_C01.1 hk
      rcases hres.kkwo p hp with h | h
      · exact .inr h
      · exact .inl h.1
  obtain ⟨q, hq, rfl⟩ := mem_names_C01.1 hks
  have hkq := (hρ s.params (List.mem_map.2 ⟨s, hs, rfl⟩)).1 q hq
  unfold kwNames
  refine List.mem_map.2 ⟨q, List.mem_filter.2 ⟨hq, ?_⟩, rfl⟩
  simp only [kwPassable, Bool.or_eq_true, decide_eq_true_eq]
  rw [hkq]; exact hκ

end SV
