/-
  Lemmas/C11TMask.lean — `_mask` (plain and partial mode) and `forwards` commute with a metadata map.

  `_mask` locates a positional-or-keyword parameter by *equality of parameters* (`list.index`) and a
  metadata map may identify two parameters; but the parameter looked for is always the FIRST one of
  its name among those still positional-or-keyword (a name consumed positionally is rejected before
  the lookup: `KCons`), so the index found is the index of the first parameter of that name — which a
  metadata map keeps.  No hypothesis on the input signature is needed.
-/
import Sigverif.Lemmas.C11TEmbed
namespace SV
set_option linter.unusedSimpArgs false
set_option linter.unusedVariables false

def mapK (f : Param → Param) (st : KState) : KState :=
  { st with pok := st.pok.map f, va := st.va.map f, kwo := st.kwo.map f, byName := st.byName.map f }

section
variable {f : Param → Param} {P : Param → Prop}

theorem x11_indexOf_map (hf : MetaMap f) (ps : List Param) (name : Nat) (bp : Param)
    (h : pget ps name = some bp) :
    indexOf? (ps.map f) (f bp) = indexOf? ps bp := by
  induction ps with
  | nil => rfl
  | cons q t ih =>
    have hbn : bp.name = name := (pget_mem_name h).2
    simp only [List.map_cons, indexOf?]
    simp only [pget, List.find?_cons] at h ih
    by_cases hq : q.name = name
    · simp only [hq, decide_true, Option.some.injEq] at h
      subst h
      simp only [if_true]
    · simp only [hq, decide_false] at h
      have h1 : ¬ q = bp := fun e => hq (by rw [e, hbn])
      have h2 : ¬ f q = f bp := fun e => hq (by
        have := congrArg Param.name e
        rw [hf.name, hf.name, hbn] at this
        exact this)
      rw [if_neg h1, if_neg h2, ih h]

theorem x11_getD_map (ps : List Param) (i : Nat) (d : Param) :
    (ps.map f).getD i (f d) = f (ps.getD i d) := by
  induction ps generalizing i with
  | nil => rfl
  | cons q t ih =>
    cases i with
    | zero => rfl
    | succ i => simp only [List.map_cons, List.getD_cons_succ, ih]

theorem x11_starNamed_map (hf : MetaMap f) (va vk : Option Param) (name : Nat) :
    starNamed (va.map f) (vk.map f) name = starNamed va vk name := by
  cases va <;> cases vk <;> simp only [starNamed, Option.map_some, Option.map_none, hf.name]

theorem x11_srcVa_map (hf : MetaMap f) (va : Option Param) (src : Srcs) :
    srcVa (va.map f) src = srcVa va src := by
  cases va <;> simp only [srcVa, Option.map_some, Option.map_none, hf.name]

/-- the lookup table and the list of what is still positional-or-keyword agree on every name that
    was not consumed -/
def KCons (st : KState) : Prop := ∀ name, name ∉ st.consumed → pget st.byName name = pget st.pok name

/-- the fresh keyword-only parameter of partial mode is a fixed point of `f` -/
def FreshFix (f : Param → Param) : Prop :=
  ∀ n v, f { name := n, kind := .ko, dflt := some v } = { name := n, kind := .ko, dflt := some v }

theorem x11_maskName_map (hf : MetaMap f) (vk : Option Param) (st : KState) (name : Nat)
    (pv : Option (Nat × Nat)) (hfresh : pv ≠ none → FreshFix f) (hinj : KCons st) :
    maskName (vk.map f) (mapK f st) name pv = (maskName vk st name pv).map (mapK f) := by
  unfold maskName
  simp only [mapK, x11_pget_map hf]
  split
  · rfl
  · rename_i hcons
    cases hbp : pget st.byName name with
    | some bp =>
      simp only [Option.map_some]
      have hcons' : name ∉ st.consumed := by
        intro hm; exact hcons (by simpa using hm)
      rw [x11_indexOf_map hf st.pok name bp (by rw [← hinj name hcons']; exact hbp)]
      cases hi : indexOf? st.pok bp with
      | none => rfl
      | some i =>
        cases pv with
        | none =>
          simp only [Except.map, mapK, x11_getD_map, ← List.map_take, ← List.map_drop, x11_mapKind_map hf,
            x11_pupdate_map hf, Option.map_none]
          cases st.va <;> simp only [Option.map_some, Option.map_none, hf.name]
        | some vo =>
          obtain ⟨v, o⟩ := vo
          simp only [Except.map, mapK, x11_getD_map, ← List.map_take, ← List.map_drop, x11_mapKind_map hf,
            x11_pupdate_map hf, Option.map_none, ← hf.withKind, ← hf.withDflt, x11_pset_map hf]
          cases st.va <;> simp only [Option.map_some, Option.map_none, hf.name]
    | none =>
      simp only [Option.map_none]
      cases hp : pget st.kwo name with
      | some param =>
        cases pv with
        | none => simp only [Option.map_some, Except.map, mapK, x11_ppop_map hf]
        | some vo =>
          obtain ⟨v, o⟩ := vo
          simp only [Option.map_some, Except.map, mapK, ← hf.withKind, ← hf.withDflt, x11_pset_map hf]
      | none =>
        simp only [Option.map_none, Option.isNone_map]
        split
        · rfl
        · cases pv with
          | none => rfl
          | some vo =>
            obtain ⟨v, o⟩ := vo
            simp only [x11_starNamed_map hf]
            split
            · rfl
            · have e := hfresh (by simp) name v
              simp only [Except.map, mapK]
              rw [← x11_pset_map hf, e]

theorem maskName_KCons (vk : Option Param) (st st' : KState) (name : Nat) (pv : Option (Nat × Nat))
    (hinj : KCons st) (h : maskName vk st name pv = .ok st') : KCons st' := by
  have weaken : ∀ st'' : KState, st''.pok = st.pok → st''.byName = st.byName →
      st''.consumed = st.consumed ++ [name] → KCons st'' := by
    intro st'' e1 e2 e3 x hx
    rw [e1, e2]
    apply hinj
    intro hm; apply hx; rw [e3]; simp [hm]
  unfold maskName at h
  split at h
  · cases h
  · split at h
    · split at h
      · cases h
      · simp only [Except.ok.injEq] at h
        subst h
        intro x _; rfl
    · split at h
      · cases pv with
        | some vo => simp only [Except.ok.injEq] at h; subst h; exact weaken _ rfl rfl rfl
        | none => simp only [Except.ok.injEq] at h; subst h; exact weaken _ rfl rfl rfl
      · split at h
        · cases h
        · cases pv with
          | some vo =>
            simp only at h
            split at h <;> (simp only [Except.ok.injEq] at h; subst h; exact weaken _ rfl rfl rfl)
          | none => simp only [Except.ok.injEq] at h; subst h; exact weaken _ rfl rfl rfl

theorem x11_maskNames_map (hf : MetaMap f) (vk : Option Param) (st : KState)
    (nms : List (Nat × Option (Nat × Nat))) (hfresh : (∃ x ∈ nms, x.2 ≠ none) → FreshFix f) (hinj : nms ≠ [] → KCons st) :
    maskNames (vk.map f) (mapK f st) nms = (maskNames vk st nms).map (mapK f) := by
  induction nms generalizing st with
  | nil => rfl
  | cons x t ih =>
    obtain ⟨n, pv⟩ := x
    simp only [maskNames, bind, Except.bind]
    have hinj := hinj (by simp)
    rw [x11_maskName_map hf vk st n pv (fun h => hfresh ⟨(n, pv), by simp, h⟩) hinj]
    cases h1 : maskName vk st n pv with
    | error e => rfl
    | ok st1 =>
      simp only [Except.map]
      exact ih st1 (fun ⟨x, hx, hx2⟩ => hfresh ⟨x, by simp [hx], hx2⟩) (fun _ => maskName_KCons vk st st1 n pv hinj h1)

theorem x11_prelude_map (hf : MetaMap f) (s : Sorted) (n : Nat) (h : HideFlags) :
    prelude (mapSorted f s) n h =
      (prelude s n h).map (fun x => (x.1, x.2.1.map f, x.2.2.map f)) := by
  rw [prelude_eq, prelude_eq]
  simp only [mapSorted_pos, mapSorted_pok, mapSorted_va, x11_names_map hf, List.length_map,
    ← List.map_append, ← List.map_take, ← List.map_drop, Option.map_eq_none_iff]
  (repeat' split) <;> rfl

theorem x11_initState_map (hf : MetaMap f) (s : Sorted) (h : HideFlags) (c : List Nat) (pok : List Param) :
    initState (mapSorted f s) h c (pok.map f) = mapK f (initState s h c pok) := by
  unfold initState
  simp only [mapSorted_pos, mapSorted_pok, mapSorted_va, mapSorted_kwo, mapSorted_src, x11_names_map hf,
    x11_srcVa_map hf, mapK]
  cases h.kwargs <;> cases (h.args || h.varargs) <;> rfl

theorem x11_finalVk_map (s : Sorted) (h : HideFlags) :
    finalVk (mapSorted f s) h = (finalVk s h).map f := by
  unfold finalVk
  split <;> rfl

theorem x11_finalSrc_map (hf : MetaMap f) (s : Sorted) (h : HideFlags) (st : KState) :
    finalSrc (mapSorted f s) h (mapK f st) = finalSrc s h st := by
  unfold finalSrc
  simp only [mapSorted_vk, x11_srcVa_map hf, mapK]

theorem pget_drop_of_not_mem (l : List Param) (k : Nat) (name : Nat) (h : name ∉ names (l.take k)) :
    pget (l.drop k) name = pget l name := by
  induction l generalizing k with
  | nil => simp
  | cons q t ih =>
    cases k with
    | zero => rfl
    | succ k =>
      simp only [List.take_succ_cons, names, List.map_cons, List.mem_cons, not_or] at h
      simp only [List.drop_succ_cons]
      rw [ih k h.2]
      simp only [pget, List.find?_cons]
      have : ¬ q.name = name := fun e => h.1 e.symm
      simp only [this, decide_false]

theorem initState_KCons (s : Sorted) (n : Nat) (h : HideFlags) (c : List Nat) (pos pok : List Param)
    (hk : h.kwargs = false) (hp : prelude s n h = .ok (c, pos, pok)) : KCons (initState s h c pok) := by
  intro name hname
  simp only [initState, hk, Bool.false_eq_true, if_false] at hname ⊢
  rw [prelude_eq] at hp
  split at hp
  · simp only [Except.ok.injEq, Prod.mk.injEq] at hp
    obtain ⟨rfl, _, rfl⟩ := hp
    simp only [List.mem_append, not_or] at hname
    rw [pget_eq_none.2 hname.2]; rfl
  · split at hp
    · cases hp
    · simp only [Except.ok.injEq, Prod.mk.injEq] at hp
      obtain ⟨rfl, _, rfl⟩ := hp
      rw [pget_drop_of_not_mem]
      intro hm
      apply hname
      rw [List.take_append]
      simp only [names, List.map_append, List.mem_append] at hm ⊢
      exact .inr hm

theorem x11_maskCore_map (hf : MetaMap f) (sig : USig) (n : Nat) (h : HideFlags) (named : List (Nat × Nat))
    (pobj : Option Nat) (hfresh : pobj ≠ none → FreshFix f) :
    maskCore (mapSig f sig) n h named pobj = (maskCore sig n h named pobj).map (mapSig f) := by
  rw [maskCore_eq, maskCore_eq, x11_sortParams_map hf, x11_prelude_map hf]
  cases hpre : prelude (sortParams sig) n h with
  | error e => rfl
  | ok v =>
    obtain ⟨c, pos, pok⟩ := v
    simp only [Except.map, mapSorted_vk, mapSorted_depths]
    rw [x11_initState_map hf, x11_maskNames_map hf]
    · cases hst : maskNames (sortParams sig).vk (initState (sortParams sig) h c pok)
          (loopNames (if h.kwargs = true then [] else named) pobj) with
      | error e => rfl
      | ok st =>
        simp only [Except.map, x11_finalVk_map, x11_finalSrc_map hf]
        exact x11_applyParams_map hf sig ⟨pos, st.pok, st.va, st.kwo, finalVk (sortParams sig) h,
          finalSrc (sortParams sig) h st, _⟩
    · rintro ⟨x, hx, hx2⟩
      apply hfresh
      rintro rfl
      simp only [loopNames, List.mem_map, Option.map_none] at hx
      obtain ⟨_, _, rfl⟩ := hx
      exact hx2 rfl
    · intro hne
      cases hk : h.kwargs with
      | true => rw [hk] at hne; exact absurd rfl hne
      | false => exact initState_KCons _ _ _ _ _ _ hk hpre

theorem x11_mask_map (hf : MetaMap f) (sig : USig) (n : Nat) (nms : List Nat) (h : HideFlags) :
    mask (mapSig f sig) n nms h = (mask sig n nms h).map (mapSig f) :=
  x11_maskCore_map hf sig n h _ none (fun h => absurd rfl h)

theorem x11_maskPartial_map (hf : MetaMap f) (hfresh : FreshFix f) (sig : USig) (n : Nat)
    (kw : List (Nat × Nat)) (pobj : Nat) :
    maskPartial (mapSig f sig) n kw pobj = (maskPartial sig n kw pobj).map (mapSig f) :=
  x11_maskCore_map hf sig n {} kw (some pobj) (fun _ => hfresh)

/-! ### plain mode keeps an invariant without any assumption on fresh parameters -/

theorem x11_maskName_all_plain (hc : ClosedP P) (vk : Option Param) (st st' : KState) (name : Nat)
    (hst : KAll P st) (h : maskName vk st name none = .ok st') : KAll P st' := by
  unfold maskName at h
  split at h
  · cases h
  · split at h
    · rename_i bp hbp
      split at h
      · cases h
      · rename_i i hi
        simp only [Except.ok.injEq] at h
        subst h
        have hconv : AllP P ((st.pok.drop (i + 1)).map (·.withKind .ko)) := (hst.pok.drop _).mapKind hc _
        exact ⟨hst.pok.take _, (by intro p hp; cases hp), hst.kwo.pupdate hconv, hst.pok.take _⟩
    · split at h
      · simp only [Except.ok.injEq] at h
        subst h
        exact { hst with kwo := hst.kwo.ppop _ }
      · split at h
        · cases h
        · simp only [Except.ok.injEq] at h
          subst h
          exact ⟨hst.pok, hst.va, hst.kwo, hst.byName⟩

theorem x11_maskNames_all_plain (hc : ClosedP P) (vk : Option Param) (st st' : KState)
    (nms : List (Nat × Nat)) (hst : KAll P st)
    (h : maskNames vk st (loopNames nms none) = .ok st') : KAll P st' := by
  induction nms generalizing st with
  | nil => simp only [loopNames, List.map_nil, maskNames, Except.ok.injEq] at h; subst h; exact hst
  | cons x t ih =>
    simp only [loopNames, List.map_cons, Option.map_none, maskNames, bind, Except.bind] at h
    split at h
    · cases h
    · rename_i st1 h1
      exact ih st1 (x11_maskName_all_plain hc vk st st1 x.1 hst h1) h

theorem x11_mask_all_plain (hc : ClosedP P) (sig R : USig) (n : Nat) (nms : List Nat) (hf : HideFlags)
    (hsig : AllP P sig.params) (h : mask sig n nms hf = .ok R) : AllP P R.params := by
  have hs := sortParams_allP sig hsig
  obtain ⟨s1, s2, s3, s4, s5⟩ := (allP_all_iff _).1 hs
  unfold mask at h
  rw [maskCore_eq] at h
  split at h
  · cases h
  · rename_i c pos pok hpre
    obtain ⟨hpos, hpok⟩ := prelude_all _ _ _ _ _ _ s1 s2 hpre
    split at h
    · cases h
    · rename_i st hst
      have k0 : KAll P (initState (sortParams sig) hf c pok) := by
        unfold initState
        refine ⟨?_, ?_, ?_, s2⟩
        · show AllP P (if hf.kwargs = true then [] else pok)
          split
          · exact AllP.nil
          · exact hpok
        · intro p hp
          have hp' : (if (hf.args || hf.varargs) = true then none else (sortParams sig).va) = some p := hp
          split at hp'
          · cases hp'
          · exact s3 p hp'
        · show AllP P (if hf.kwargs = true then [] else (sortParams sig).kwo)
          split
          · exact AllP.nil
          · exact s4
      have kst := x11_maskNames_all_plain hc _ _ _ _ k0 hst
      rw [(applyParams_ok_C08 h).1]
      refine (allP_all_iff _).2 ⟨hpos, kst.pok, kst.va, kst.kwo, ?_⟩
      intro p hp
      have hp' : finalVk (sortParams sig) hf = some p := hp
      unfold finalVk at hp'
      split at hp'
      · cases hp'
      · exact s5 p hp'

/-- what `forwards(partial=True)` does to the parameters of the inner signature -/
def optionalize (p : Param) : Param := if p.kind = .vp || p.kind = .vk then p else p.withDflt (some 0)

theorem x11_optionalize_map (hf : MetaMap f) (p : Param) : optionalize (f p) = f (optionalize p) := by
  unfold optionalize
  rw [hf.kind]
  split
  · rfl
  · exact (hf.withDflt p _).symm

theorem x11_forwards_map (hf : MetaMap f) (hc : ClosedP P) (hcomm : ConcComm f P)
    (outer inner : USig) (n : Nat) (nms : List Nat) (ha hk uva uvk part : Bool)
    (ho : AllP P outer.params) (hi : AllP P inner.params) :
    forwards (mapSig f outer) (mapSig f inner) n nms ha hk uva uvk part =
      (forwards outer inner n nms ha hk uva uvk part).map (mapSig f) := by
  -- the inner signature handed to `mask`
  have key : ∀ inner' : USig, AllP P inner'.params →
      (mask (mapSig f inner') n nms { args := ha, kwargs := hk } >>= fun m => embed uva uvk [mapSig f outer, m]) =
      (mask inner' n nms { args := ha, kwargs := hk } >>= fun m => embed uva uvk [outer, m]).map (mapSig f) := by
    intro inner' hi'
    rw [x11_mask_map hf inner' n nms _]
    simp only [bind, Except.bind]
    cases hm : mask inner' n nms { args := ha, kwargs := hk } with
    | error e => rfl
    | ok m =>
      simp only [Except.map]
      have hm' := x11_mask_all_plain hc inner' m n nms _ hi' hm
      have := x11_embed_map hf hc hcomm uva uvk [outer, m] (by
        intro s hs
        simp only [List.mem_cons, List.mem_nil_iff, or_false] at hs
        rcases hs with rfl | rfl
        · exact ho
        · exact hm')
      simp only [List.map_cons, List.map_nil] at this
      exact this
  unfold forwards
  cases part with
  | false =>
    simp only [Bool.false_eq_true, if_false, pure, Except.pure]
    exact key inner hi
  | true =>
    simp only [if_true, x11_mapSig_params, List.map_map]
    have e1 : List.map ((fun p => if (p.kind = Kind.vp || p.kind = Kind.vk) = true then p
          else p.withDflt (some 0)) ∘ f) inner.params = (inner.params.map optionalize).map f := by
      simp only [List.map_map]
      apply List.map_congr_left
      intro p _
      exact x11_optionalize_map hf p
    have e2 : List.map (fun p => if (p.kind = Kind.vp || p.kind = Kind.vk) = true then p
          else p.withDflt (some 0)) inner.params = inner.params.map optionalize := rfl
    rw [e1, e2, x11_validate_map hf]
    simp only [bind, Except.bind, pure, Except.pure]
    cases validate (inner.params.map optionalize) with
    | error e => rfl
    | ok _ =>
      simp only []
      have hi' : AllP P (inner.params.map optionalize) := by
        intro q hq
        obtain ⟨x, hx, rfl⟩ := List.mem_map.1 hq
        unfold optionalize
        split
        · exact hi x hx
        · exact hc.dflt _ _ (hi x hx)
      exact key { inner with params := inner.params.map optionalize } hi'

end
end SV
