/-
  Lemmas/C18GProps.lean — the statements of Props/C18Get.lean in terms of `irun` / `itrace`.
-/
import Sigverif.Lemmas.C18GFresh
namespace SV

theorem c18g_right_instance_held (ops : List IOp) (i : Nat) (hi : i ∈ (irun .identity ops).heldInst) :
    ∃ w, (istep .identity (irun .identity ops) (.get i)).2 = some (.wrapper w i) ∧
         (istep .identity (irun .identity ops) (.call i)).2 = some (.wrapper w i) := by
  obtain ⟨w, b, h⟩ := get_answers_wrapper .identity _ (IKnown_run .identity ops) i hi
  have hb := step_right_instance _ (IInv_run .identity ops) i w b h
  subst hb
  exact ⟨w, h, by rw [call_answer_eq_get]; exact h⟩

theorem c18g_stable (m : KeyMode) (pre mid : List IOp) (i : Nat) (a : IAns)
    (h1 : (istep m (irun m pre) (.get i)).2 = some a) (ha : a ≠ .noInst)
    (hmid : IOp.dropWrapper i ∉ mid)
    (hheld : i ∈ (irun m (pre ++ .get i :: mid)).heldInst) :
    (istep m (irun m (pre ++ .get i :: mid)) (.get i)).2 = some a ∧
    (istep m (irun m (pre ++ .get i :: mid)) (.call i)).2 = some a := by
  have e : irun m (pre ++ .get i :: mid) = (irunFrom m (istep m (irun m pre) (.get i)).1 mid).1 := by
    rw [irun_append, irunFrom_cons]
  rw [e] at hheld ⊢
  have := get_stable' m (irun m pre) mid i a h1 ha hmid hheld
  exact ⟨this, by rw [call_answer_eq_get]; exact this⟩

theorem c18g_fresh (pre : List IOp) (i : Nat) (hi : i ∈ (irun .identity pre).heldInst) :
    (istep .identity (irun .identity (pre ++ [.dropWrapper i, .gc])) (.get i)).2 =
      some (.wrapper (irun .identity (pre ++ [.dropWrapper i, .gc])).nextWid i) ∧
    ∀ p ∈ itrace .identity (pre ++ [.dropWrapper i, .gc]), ∀ w b, p.2 = .wrapper w b →
      w < (irun .identity (pre ++ [.dropWrapper i, .gc])).nextWid := by
  refine ⟨?_, trace_wid_lt .identity {} (IInv_init _) _⟩
  rw [irun_append]
  exact fresh_after_drop_gc _ (IInv_run .identity pre) (IKnown_run .identity pre) i hi

end SV
