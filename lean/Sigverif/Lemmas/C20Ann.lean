/-
  Lemmas/C20Ann.lean — the string layer of `support`, part 4: `use_modifiers_annotate`.  The annotations `read_sig`
  collects for `modifiers.annotate` give every parameter its own annotation back.
-/
import Sigverif.Lemmas.C20Pipe
import Sigverif.Lemmas.SrcDict
namespace SV
set_option linter.unusedSimpArgs false
set_option linter.unusedVariables false

theorem dget_fold_annUpd_of_not_mem (L : List Param) (a : List (Nat × Nat)) (x : Nat) (h : ∀ p ∈ L, p.name ≠ x) :
    dget (L.foldl (annUpd true) a) x = dget a x := by
  induction L generalizing a with
  | nil => rfl
  | cons p L ih =>
    simp only [List.foldl_cons]
    rw [ih _ (fun q hq => h q (List.mem_cons_of_mem _ hq))]
    have hp := h p (by simp)
    unfold annUpd
    cases p.ann with
    | none => rfl
    | some v =>
      simp only [if_true, dget_dset]
      rw [if_neg (fun e : x = p.name => hp e.symm)]

theorem dget_fold_annUpd (L : List Param) (a : List (Nat × Nat)) (hn : (L.map (·.name)).Pairwise (· ≠ ·)) :
    ∀ p ∈ L, dget (L.foldl (annUpd true) a) p.name = (match p.ann with | some v => some v | none => dget a p.name) := by
  induction L generalizing a with
  | nil => intro p hp; cases hp
  | cons q L ih =>
    intro p hp
    simp only [List.map_cons, List.pairwise_cons] at hn
    simp only [List.foldl_cons]
    rcases List.mem_cons.1 hp with rfl | hpL
    · rw [dget_fold_annUpd_of_not_mem L _ p.name (fun r hr e => hn.1 r.name (List.mem_map_of_mem hr) e.symm)]
      unfold annUpd
      cases p.ann with
      | none => rfl
      | some v => simp [dget_dset]
    · rw [ih _ hn.2 p hpL]
      cases hpa : p.ann with
      | some v => rfl
      | none =>
        simp only
        have hne : q.name ≠ p.name := hn.1 p.name (List.mem_map_of_mem hpL)
        unfold annUpd
        cases q.ann with
        | none => rfl
        | some v =>
          simp only [if_true, dget_dset]
          rw [if_neg (fun e : p.name = q.name => hne e.symm)]

theorem keys_fold_annUpd (L : List Param) (a : List (Nat × Nat)) (x : Nat)
    (h : (dget (L.foldl (annUpd true) a) x).isSome = true) : (dget a x).isSome = true ∨ ∃ p ∈ L, p.name = x := by
  induction L generalizing a with
  | nil => exact Or.inl h
  | cons q L ih =>
    simp only [List.foldl_cons] at h
    rcases ih _ h with h1 | ⟨p, hp, e⟩
    · unfold annUpd at h1
      cases hq : q.ann with
      | none => rw [hq] at h1; exact Or.inl h1
      | some v =>
        rw [hq] at h1
        simp only [if_true, dget_dset] at h1
        by_cases e : x = q.name
        · exact Or.inr ⟨q, by simp, e.symm⟩
        · simp only [e, if_false] at h1; exact Or.inl h1
    · exact Or.inr ⟨p, List.mem_cons_of_mem _ hp, e⟩

/-- giving a parameter written without its annotation the annotation collected for its name restores it -/
theorem annMap_mkP (anns : List (Nat × Nat)) (k : Kind) (p : Param) (hk : p.kind = k) (h : dget anns p.name = p.ann) :
    (annMap anns (mkP true k p)).bare = p.bare := by
  unfold annMap
  simp only [mkP_name, h]
  cases hp : p.ann with
  | none => cases p; simp_all [mkP, Param.bare]
  | some v => cases p; simp_all [mkP, Param.bare]


theorem annMap_nil (p : Param) : annMap [] p = p := rfl

theorem dget_isSome_of_mem (d : List (Nat × Nat)) (e : Nat × Nat) (h : e ∈ d) : (dget d e.1).isSome = true := by
  induction d with
  | nil => cases h
  | cons x xs ih =>
    obtain ⟨k, v⟩ := x
    simp only [dget]
    by_cases hk : k = e.1
    · simp [hk]
    · simp only [hk, if_false]
      rcases List.mem_cons.1 h with rfl | h'
      · exact absurd rfl hk
      · exact ih h'

/-- the whole of `s(text, use_modifiers_annotate=True, use_modifiers_kwoargs=True)` -/
theorem sParams_kwo_ann (upo : Bool) (pk ko : List Param) (va vk : Option Param)
    (hpk : ∀ p ∈ pk, p.kind = .pk) (hko : ∀ p ∈ ko, p.kind = .ko)
    (hva : ∀ p ∈ va, p.kind = .vp) (hvk : ∀ p ∈ vk, p.kind = .vk)
    (hsorted : pk = reqs pk ++ dfls pk) (hvad : ∀ v ∈ va, v.dflt = none) (hvkd : ∀ v ∈ vk, v.dflt = none)
    (hn : ((pk ++ ko ++ va.toList ++ vk.toList).map (·.name)).Pairwise (· ≠ ·)) :
    ∃ r, sParams true upo true (pieces (pk ++ va.toList ++ ko ++ vk.toList)) = .ok r ∧
      r.map Param.bare = (pk ++ va.toList ++ (reqs ko ++ dfls ko) ++ vk.toList).map Param.bare := by
  rw [pieces_buckets pk ko va vk hpk hko hva hvk]
  simp only [List.append_assoc]
  obtain ⟨h1, h2, h3, h4⟩ := readSig_kwo true upo pk ko va vk hsorted hvad hvkd
  have hparse := parseDef_defOf true (reqs pk ++ reqs ko) (dfls pk ++ dfls ko) va vk (reqs_dflt pk ko) (dfls_dflt pk ko)
    hvad hvkd (rearranged_names pk ko va vk hn)
  simp only [List.map_append] at hparse h1
  simp only [List.append_assoc] at hparse h1
  -- the annotations collected, and what they give back
  generalize hanns : (pk ++ va.toList ++ ko ++ vk.toList).foldl (annUpd true) [] = anns at h4
  have hn' : ((pk ++ va.toList ++ ko ++ vk.toList).map (·.name)).Pairwise (· ≠ ·) := by
    have hp : (pk ++ va.toList ++ ko ++ vk.toList).Perm (pk ++ ko ++ va.toList ++ vk.toList) := by
      refine List.Perm.append_right _ ?_
      simp only [List.append_assoc]
      exact List.Perm.append_left _ List.perm_append_comm
    exact List.nodup_iff_pairwise_ne.1 ((hp.map (·.name)).nodup_iff.2 (List.nodup_iff_pairwise_ne.2 hn))
  have hget : ∀ p ∈ pk ++ va.toList ++ ko ++ vk.toList, dget anns p.name = p.ann := by
    intro p hp
    rw [← hanns, dget_fold_annUpd _ [] hn' p hp]
    cases p.ann <;> rfl
  have hkeys : ∀ e ∈ anns, ∃ p ∈ pk ++ va.toList ++ ko ++ vk.toList, p.name = e.1 := by
    intro e he
    have := dget_isSome_of_mem anns e he
    rw [← hanns] at this
    rcases keys_fold_annUpd _ [] e.1 this with h | h
    · simp [dget] at h
    · exact h
  -- the elements of the final list, one bucket at a time
  have hmapK : ∀ (k : Kind) (L : List Param), (∀ p ∈ L, p.kind = k) → (∀ p ∈ L, p ∈ pk ++ va.toList ++ ko ++ vk.toList) →
      ((L.map (mkP true k)).map (annMap anns)).map Param.bare = L.map Param.bare := by
    intro k L hk hsub
    rw [List.map_map, List.map_map]
    exact List.map_congr_left (fun p hp => annMap_mkP anns k p (hk p hp) (hget p (hsub p hp)))
  have hmapO : ∀ (k : Kind) (o : Option Param), (∀ p ∈ o, p.kind = k) → (∀ p ∈ o, p ∈ pk ++ va.toList ++ ko ++ vk.toList) →
      (((o.map (mkP true k)).toList).map (annMap anns)).map Param.bare = o.toList.map Param.bare := by
    intro k o hk hsub
    cases o with
    | none => rfl
    | some v => simpa using annMap_mkP anns k v (hk v rfl) (hget v (hsub v rfl))
  have hsub_pk : ∀ p ∈ pk, p ∈ pk ++ va.toList ++ ko ++ vk.toList := fun p hp => by simp [hp]
  have hsub_ko : ∀ p ∈ ko, p ∈ pk ++ va.toList ++ ko ++ vk.toList := fun p hp => by simp [hp]
  have hsub_va : ∀ p ∈ va, p ∈ pk ++ va.toList ++ ko ++ vk.toList := fun p hp => by
    simp only [List.mem_append, Option.mem_toList]; exact Or.inl (Or.inl (Or.inr hp))
  have hsub_vk : ∀ p ∈ vk, p ∈ pk ++ va.toList ++ ko ++ vk.toList := fun p hp => by
    simp only [List.mem_append, Option.mem_toList]; exact Or.inr hp
  have hsub_rd : ∀ p ∈ reqs ko ++ dfls ko, p ∈ ko := by
    intro p hp
    simp only [reqs, dfls, List.mem_append, List.mem_filter] at hp
    rcases hp with ⟨h, _⟩ | ⟨h, _⟩ <;> exact h
  -- F0 = the compiled def; annotate succeeds on it
  have hann : ∀ F : List Param, (F.map (·.name)).Perm ((pk ++ va.toList ++ ko ++ vk.toList).map (·.name)) →
      annotate F anns = .ok (F.map (annMap anns)) := by
    intro F hF
    unfold annotate
    have : (anns.any fun a => !(F.any fun p => p.name = a.1)) = false := by
      rw [List.any_eq_false]
      intro e he
      obtain ⟨p, hp, hpe⟩ := hkeys e he
      have : e.1 ∈ F.map (·.name) := hF.mem_iff.2 (by rw [← hpe]; exact List.mem_map_of_mem hp)
      obtain ⟨q, hq, hqe⟩ := List.mem_map.1 this
      simp only [Bool.not_eq_true', Bool.not_eq_false', List.any_eq_true, decide_eq_true_eq]
      simpa using ⟨q, hq, hqe⟩
    rw [this]
    rfl
  have hF0names : ((defOf true (reqs pk ++ reqs ko) (dfls pk ++ dfls ko) va vk).map (·.name)).Perm
      ((pk ++ va.toList ++ ko ++ vk.toList).map (·.name)) := by
    have e : (defOf true (reqs pk ++ reqs ko) (dfls pk ++ dfls ko) va vk).map (·.name) =
        ((reqs pk ++ reqs ko) ++ (dfls pk ++ dfls ko) ++ va.toList ++ vk.toList).map (·.name) := by
      cases va <;> cases vk <;> simp [defOf, Function.comp_def]
    rw [e]
    refine ((rearranged_perm pk ko va vk).map _).trans (List.Perm.map _ ?_)
    refine List.Perm.append_right _ ?_
    simp only [List.append_assoc]
    exact List.Perm.append_left _ List.perm_append_comm
  unfold sParams
  simp only [h1, h2, h3, h4, hparse, bind, Except.bind, List.isEmpty_nil, if_true, pure, Except.pure]
  have hA0 := hann _ hF0names
  by_cases hke : ko = []
  · -- no keyword-only parameter: the def, annotated
    subst hke
    simp only [List.map_nil, List.isEmpty_nil, if_true, Bool.and_self]
    refine ⟨(defOf true (reqs pk ++ reqs []) (dfls pk ++ dfls []) va vk).map (annMap anns), ?_, ?_⟩
    · cases hae : anns.isEmpty
      · simp only [Bool.false_eq_true, if_false, hA0, liftV]
      · have : anns = [] := by simpa using hae
        subst this
        have e : annMap ([] : List (Nat × Nat)) = id := funext annMap_nil
        simp [e]
    · simp only [defOf, reqs, dfls, List.filter_nil, List.append_nil, List.map_append]
      have hr : ∀ p ∈ List.filter (fun p => p.dflt.isNone) pk, p.kind = .pk := fun p hp => hpk p (List.mem_filter.1 hp).1
      have hd : ∀ p ∈ List.filter (fun p => p.dflt.isSome) pk, p.kind = .pk := fun p hp => hpk p (List.mem_filter.1 hp).1
      rw [hmapK .pk _ hr (fun p hp => hsub_pk p (List.mem_filter.1 hp).1),
        hmapK .pk _ hd (fun p hp => hsub_pk p (List.mem_filter.1 hp).1), hmapO .vp va hva hsub_va, hmapO .vk vk hvk hsub_vk]
      rw [← List.map_append]
      have e : List.filter (fun p => p.dflt.isNone) pk ++ List.filter (fun p => p.dflt.isSome) pk = pk := hsorted.symm
      rw [e]
      simp
  · have hne : (ko.map (·.name)).isEmpty = false := by
      cases ko with
      | nil => exact absurd rfl hke
      | cons _ _ => rfl
    simp only [hne, Bool.false_eq_true, if_false, Bool.false_and]
    obtain ⟨kp, hprep⟩ := prepare_defOf true pk ko va vk hsorted hvad hvkd hn
    simp only [hprep, liftV]
    -- annotate, then the translator is prepared again
    have hpw := pairwise_VR_defOf true _ _ va vk (reqs_dflt pk ko) (dfls_dflt pk ko) (rearranged_names pk ko va vk hn)
    have hc := defOf_counts true (reqs pk ++ reqs ko) (dfls pk ++ dfls ko) va vk
    have hwf : WF (defOf true (reqs pk ++ reqs ko) (dfls pk ++ dfls ko) va vk) := ⟨(validOk_iff _).2 hpw, hc.1, hc.2⟩
    have hcomm := annotate_prepare_commute _ _ anns [] (ko.map (·.name)) hwf hA0
    rw [hprep] at hcomm
    simp only [Except.map] at hcomm
    refine ⟨(pk.map (mkP true .pk) ++ (va.map (mkP true .vp)).toList ++ (reqs ko ++ dfls ko).map (mkP true .ko)
        ++ (vk.map (mkP true .vk)).toList).map (annMap anns), ?_, ?_⟩
    · cases hae : anns.isEmpty
      · simp only [Bool.false_eq_true, if_false, hA0]
        cases hp2 : prepare ((defOf true (reqs pk ++ reqs ko) (dfls pk ++ dfls ko) va vk).map (annMap anns)) [] (ko.map (·.name)) with
        | error e => rw [hp2] at hcomm; simp at hcomm
        | ok r2 =>
          rw [hp2] at hcomm
          simp only [Except.ok.injEq] at hcomm
          simp [liftV, hcomm]
      · have : anns = [] := by simpa using hae
        subst this
        have e : annMap ([] : List (Nat × Nat)) = id := funext annMap_nil
        simp [e]
    · simp only [List.map_append]
      rw [hmapK .pk pk hpk hsub_pk, hmapO .vp va hva hsub_va, hmapO .vk vk hvk hsub_vk]
      have hk3 : ∀ p ∈ reqs ko ++ dfls ko, p.kind = .ko := fun p hp => hko p (hsub_rd p hp)
      have := hmapK .ko (reqs ko ++ dfls ko) hk3 (fun p hp => hsub_ko p (hsub_rd p hp))
      simp only [List.map_append] at this
      rw [this]
      simp only [List.append_assoc]

end SV
