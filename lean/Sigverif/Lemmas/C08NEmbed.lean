/-
  Lemmas/C08NEmbed.lean — provenance through the n-ary fold of `embed`:
  the invariant of the accumulator (`EmbAcc`), one step, the fold, the depth formula.
-/
import Sigverif.Lemmas.C08EmbedFold
import Sigverif.Lemmas.C02TailFacts
namespace SV
set_option linter.unusedSimpArgs false
set_option linter.unusedVariables false

/-! ### a stronger inversion of `embedStep`: the name checks passed -/

theorem c08n_embedStep_inv (O I R : Sorted) (uva uvk : Bool) (d : Nat)
    (h : embedStep O I uva uvk d = .ok R) :
    ∃ i r, mergeStep I { va := if uva then O.va else none, vk := if uvk then O.vk else none } = .ok i ∧
      embedTailC O i uva uvk = .ok r ∧
      R = { r with src := embedSrc O i uva uvk,
                   depths := mergeDepths O.depths (copyDepths i.depths d) } := by
  rw [embedStep_eq] at h
  simp only [bind, Except.bind] at h
  split at h
  · cases h
  · rename_i i hi
    rw [embedTail_eq] at h
    cases ht : embedTailC O i uva uvk with
    | error e => rw [ht] at h; simp [Except.map] at h
    | ok r =>
      rw [ht] at h
      simp only [Except.map, Except.ok.injEq] at h
      exact ⟨i, r, hi, ht, h.symm⟩

/-- the last two `_check_no_dupes` of `_embed`: the star parameters of the result are not named
    like any named parameter of the result, nor like each other -/
theorem c08n_embedTailC_apart {O i r : Sorted} {uva uvk : Bool} (h : embedTailC O i uva uvk = .ok r) :
    StarsApart r := by
  have hr := embedTailC_ok h
  unfold embedTailC at h
  simp only [bind, Except.bind, pure, Except.pure] at h
  split at h; · cases h
  rename_i c1 h1
  split at h; · cases h
  rename_i c2 h2
  split at h; · cases h
  rename_i c3 h3
  split at h; · cases h
  rename_i c4 h4
  split at h; · cases h
  rename_i c5 h5
  split at h; · cases h
  rename_i c6 h6
  split at h; · cases h
  rename_i c7 h7
  split at h; · cases h
  rename_i c8 h8
  obtain ⟨d1, rfl⟩ := checkNoDupes_ok h1
  obtain ⟨d2, rfl⟩ := checkNoDupes_ok h2
  obtain ⟨d3, rfl⟩ := checkNoDupes_ok h3
  obtain ⟨d4, rfl⟩ := checkNoDupes_ok h4
  obtain ⟨d5, rfl⟩ := checkNoDupes_ok h5
  obtain ⟨d6, rfl⟩ := checkNoDupes_ok h6
  obtain ⟨d7, rfl⟩ := checkNoDupes_ok h7
  obtain ⟨d8, _⟩ := checkNoDupes_ok h8
  simp only [List.nil_append, List.mem_append] at d7 d8
  -- the named parameters of the result are among the collected names
  have hpp : ∀ k, (k ∈ names r.pos ∨ k ∈ names r.pok) →
      (k ∈ names O.pos ∨ k ∈ names O.pok) ∨ (k ∈ names i.pos ∨ k ∈ names i.pok) := by
    intro k hk
    have := (mem_names_ePos_ePok O i k).1 (by rw [hr] at hk; simpa [List.mem_append] using hk)
    exact this
  have hkw : ∀ k, k ∈ names r.kwo → k ∈ names O.kwo ∨ k ∈ names i.kwo := by
    intro k hk
    rw [hr] at hk
    simp only at hk
    rw [mem_names_pupdate, mem_names_pupdate] at hk
    simpa [names] using hk
  have coll : ∀ k, (k ∈ names r.pos ∨ k ∈ names r.pok ∨ k ∈ names r.kwo) →
      (((((k ∈ names O.pos ∨ k ∈ names O.pok) ∨ k ∈ names i.pos) ∨ k ∈ names i.pok) ∨ k ∈ names O.kwo) ∨
        k ∈ names i.kwo) := by
    intro k hk
    rcases hk with hk | hk | hk
    · rcases hpp k (.inl hk) with (t | t) | (t | t)
      · exact .inl (.inl (.inl (.inl (.inl t))))
      · exact .inl (.inl (.inl (.inl (.inr t))))
      · exact .inl (.inl (.inl (.inr t)))
      · exact .inl (.inl (.inr t))
    · rcases hpp k (.inr hk) with (t | t) | (t | t)
      · exact .inl (.inl (.inl (.inl (.inl t))))
      · exact .inl (.inl (.inl (.inl (.inr t))))
      · exact .inl (.inl (.inl (.inr t)))
      · exact .inl (.inl (.inr t))
    · rcases hkw k hk with t | t
      · exact .inl (.inr t)
      · exact .inr t
  have hva : r.va = if uva then i.va else O.va := by rw [hr]
  have hvk : r.vk = if uvk then i.vk else O.vk := by rw [hr]
  refine ⟨?_, ?_, ?_⟩
  · intro a ha
    have hm : a.name ∈ names (if uva then i.va else O.va).toList := by
      rw [← hva, ha]; simp [names]
    have := d7 a.name hm
    exact ⟨fun hn => this (coll _ (.inl hn)), fun hn => this (coll _ (.inr (.inl hn))),
      fun hn => this (coll _ (.inr (.inr hn)))⟩
  · intro b hb
    have hm : b.name ∈ names (if uvk then i.vk else O.vk).toList := by
      rw [← hvk, hb]; simp [names]
    have := d8 b.name hm
    exact ⟨fun hn => this (.inl (coll _ (.inl hn))), fun hn => this (.inl (coll _ (.inr (.inl hn)))),
      fun hn => this (.inl (coll _ (.inr (.inr hn))))⟩
  · intro a b ha hb e
    have hma : a.name ∈ names (if uva then i.va else O.va).toList := by
      rw [← hva, ha]; simp [names]
    have hmb : b.name ∈ names (if uvk then i.vk else O.vk).toList := by
      rw [← hvk, hb]; simp [names]
    exact d8 b.name hmb (.inr (e ▸ hma))

theorem c08n_embedStep_apart (O I R : Sorted) (uva uvk : Bool) (d : Nat)
    (h : embedStep O I uva uvk d = .ok R) : StarsApart R := by
  obtain ⟨i, r, _, ht, rfl⟩ := c08n_embedStep_inv O I R uva uvk d h
  have := c08n_embedTailC_apart ht
  exact ⟨this.va, this.vk, this.ne⟩

/-! ### the invariant of the accumulator -/

/-- what the fold of `embed` maintains about its accumulator: exactly one entry per parameter, none
    empty, no key twice, the star parameters named apart, every listed callable has a depth -/
structure EmbAcc (A : Sorted) : Prop where
  keys : ∀ k, dhas A.src k = true ↔ k ∈ names A.all
  ne : ∀ k, k ∈ names A.all → sget A.src k ≠ []
  nd : KeysND A.src
  apart : StarsApart A
  dep : DepOK A.src A.depths

/-- the first input, classified, satisfies the invariant -/
theorem c08n_sortParams_embAcc (o : USig) (ho : WF o.params) (po : ProvWF1 o) : EmbAcc (sortParams o) := by
  obtain ⟨_, _, _, _, _, osrc, odep⟩ := sortParams_fields o ho
  have oall := sortParams_all_Laws o ho
  refine ⟨?_, ?_, ?_, ?_, ?_⟩
  · intro k; rw [osrc, oall]; exact po.keys k
  · intro k hk; rw [osrc]; rw [oall] at hk; exact po.ne k hk
  · rw [osrc]; exact po.nd
  · exact starsApart_of_nodup _ (by rw [oall]; exact WF_names_nodup _ ho)
  · intro k f hf; rw [osrc] at hf; rw [odep]; exact po.dep k f hf

/-- one step of the fold -/
theorem c08n_embedStep_embAcc (A A' : Sorted) (s : USig) (uva uvk : Bool) (d : Nat)
    (hA : EmbAcc A) (hs : WF s.params) (ps : ProvWF s)
    (h : embedStep A (sortParams s) uva uvk d = .ok A') :
    EmbAcc A' ∧ (∀ k f, f ∈ sget A'.src k → f ∈ sget A.src k ∨ f ∈ sget s.src k) ∧
      A'.depths = mergeDepths A.depths (copyDepths s.depths d) := by
  obtain ⟨_, _, _, _, _, isrc, idep⟩ := sortParams_fields s hs
  have iall := sortParams_all_Laws s hs
  have hI : Sourced (sortParams s).src (sortParams s).all := by
    intro p hp
    rw [isrc]
    rw [iall] at hp
    exact ps.ne _ (mem_names_of_mem_C08 hp)
  obtain ⟨k1, k2, k3, k4⟩ := embedStep_src A (sortParams s) A' uva uvk d hA.keys hA.ne hA.nd hA.apart hI h
  obtain ⟨ii, hii, hacc⟩ := embedStep_ok _ _ _ _ _ _ h
  have hdep : A'.depths = mergeDepths A.depths (copyDepths s.depths d) := by
    rw [hacc]
    show mergeDepths A.depths (copyDepths ii.depths d) = _
    rw [mergeStep_depths _ _ _ hii, mergeDepths_nil, idep]
  have mem : ∀ k f, f ∈ sget A'.src k → f ∈ sget A.src k ∨ f ∈ sget s.src k := by
    intro k f hf
    have := k3 k f hf
    rw [isrc] at this
    exact this
  refine ⟨⟨k1, k2, k4, c08n_embedStep_apart _ _ _ _ _ _ h, ?_⟩, mem, hdep⟩
  intro k f hf
  rw [hdep, dhas_mergeDepths, dhas_copyDepths]
  rcases mem k f hf with h' | h'
  · simp [hA.dep k f h']
  · simp [ps.dep k f h']

/-! ### depths -/

/-- the depth `embed` records for `f`: the `j`-th input's depth plus `j`, the smallest one kept
    (`i` is the index of the head of the list) -/
def embedDepth : Nat → List USig → Nat → Option Nat
  | _, [], _ => none
  | i, s :: ss, f => minDepth ((dget s.depths f).map (· + i)) (embedDepth (i + 1) ss f)

theorem c08n_foldMin (f : Nat) (r : Depths) (acc0 : Option Nat) (hnd : KeysND r) :
    r.foldl (fun acc e => if e.1 = f then minDepth acc (some e.2) else acc) acc0 =
      minDepth acc0 (dget r f) := by
  induction r generalizing acc0 with
  | nil => cases acc0 <;> rfl
  | cons e t ih =>
    have hndt : KeysND t := by
      unfold KeysND dkeys at *
      simp only [List.map_cons, List.nodup_cons] at hnd; exact hnd.2
    have hx : e.1 ∉ dkeys t := by
      unfold KeysND dkeys at *
      simp only [List.map_cons, List.nodup_cons] at hnd; exact hnd.1
    simp only [List.foldl_cons, dget]
    by_cases he : e.1 = f
    · subst he
      simp only [if_true]
      rw [ih _ hndt]
      have : dget t e.1 = none := by
        cases hd : dget t e.1 with
        | none => rfl
        | some v => exfalso; apply hx; rw [mem_dkeys_iff]; simp [dhas, hd]
      rw [this]
      cases acc0 <;> simp [minDepth]
    · simp only [he, if_false]
      exact ih _ hndt

theorem c08n_copyDepths_nd (d : Depths) (n : Nat) (h : KeysND d) : KeysND (copyDepths d n) := by
  unfold KeysND dkeys copyDepths at *
  simpa [List.map_map, Function.comp_def] using h

/-- `merge_depths(l, copy(r, +n))` in closed form -/
theorem c08n_dget_mergeCopy (l r : Depths) (n f : Nat) (hr : KeysND r) :
    dget (mergeDepths l (copyDepths r n)) f = minDepth (dget l f) ((dget r f).map (· + n)) := by
  rw [dget_mergeDepths, c08n_foldMin f _ _ (c08n_copyDepths_nd r n hr), dget_copyDepths]

theorem c08n_mergeDepths_nd (l r : Depths) (h : KeysND l) : KeysND (mergeDepths l r) := by
  rw [mergeDepths_eq]
  induction r generalizing l with
  | nil => exact h
  | cons e t ih =>
    simp only [List.foldl_cons]
    apply ih
    unfold mdStep
    split
    · split
      · exact h
      · exact h.dset _ _
    · exact h.dset _ _

/-! ### the fold -/

theorem c08n_embedFold (uva uvk : Bool) (ss : List USig) (A r : Sorted) (i : Nat)
    (hA : EmbAcc A) (hss : ∀ s ∈ ss, WF s.params ∧ ProvWF s ∧ KeysND s.depths)
    (h : embedFold uva uvk A i ss = .ok r) :
    EmbAcc r ∧ (∀ k f, f ∈ sget r.src k → f ∈ sget A.src k ∨ ∃ s ∈ ss, f ∈ sget s.src k) ∧
      (∀ f, dget r.depths f = minDepth (dget A.depths f) (embedDepth i ss f)) ∧
      (KeysND A.depths → KeysND r.depths) := by
  induction ss generalizing A i with
  | nil =>
    simp only [embedFold, Except.ok.injEq] at h
    subst h
    refine ⟨hA, fun k f hf => .inl hf, ?_, id⟩
    intro f
    simp only [embedDepth]
    cases dget A.depths f <;> rfl
  | cons s ss ih =>
    simp only [embedFold] at h
    split at h
    · rename_i A' hstep
      obtain ⟨hwf, hp, hnd⟩ := hss s (by simp)
      obtain ⟨a1, m1, d1⟩ := c08n_embedStep_embAcc A A' s uva uvk i hA hwf hp hstep
      obtain ⟨a2, m2, d2, n2⟩ := ih A' (i + 1) a1 (fun t ht => hss t (by simp [ht])) h
      refine ⟨a2, ?_, ?_, ?_⟩
      · intro k f hf
        rcases m2 k f hf with h' | ⟨t, ht, h'⟩
        · rcases m1 k f h' with h'' | h''
          · exact .inl h''
          · exact .inr ⟨s, by simp, h''⟩
        · exact .inr ⟨t, by simp [ht], h'⟩
      · intro f
        rw [d2 f, d1, c08n_dget_mergeCopy _ _ _ _ hnd, minDepth_assoc]
        rfl
      · intro hAd
        apply n2
        rw [d1]
        exact c08n_mergeDepths_nd _ _ hAd
    · cases h

theorem c08n_minDepth_none_left (a : Option Nat) : minDepth none a = a := by
  cases a <;> rfl

theorem c08n_map_add_zero (a : Option Nat) : a.map (· + 0) = a := by
  cases a <;> simp

/-- what `embedDepth` is: the least `d + j` over the inputs `j` that know `f` at depth `d` -/
theorem c08n_embedDepth_spec (ss : List USig) (i f : Nat) :
    (∀ j d, (ss[j]?).bind (fun s => dget s.depths f) = some d →
        ∃ m, embedDepth i ss f = some m ∧ m ≤ d + (i + j)) ∧
    (∀ m, embedDepth i ss f = some m →
        ∃ j d, (ss[j]?).bind (fun s => dget s.depths f) = some d ∧ m = d + (i + j)) := by
  induction ss generalizing i with
  | nil =>
    refine ⟨?_, ?_⟩
    · intro j d h; simp at h
    · intro m h; simp [embedDepth] at h
  | cons s ss ih =>
    obtain ⟨ih1, ih2⟩ := ih (i + 1)
    refine ⟨?_, ?_⟩
    · intro j d h
      cases j with
      | zero =>
        simp only [List.getElem?_cons_zero, Option.bind_some] at h
        simp only [embedDepth, h, Option.map_some]
        cases embedDepth (i + 1) ss f with
        | none => exact ⟨d + i, rfl, by omega⟩
        | some b => exact ⟨min (d + i) b, rfl, by omega⟩
      | succ j =>
        simp only [List.getElem?_cons_succ] at h
        obtain ⟨m', hm', hle⟩ := ih1 j d h
        simp only [embedDepth, hm']
        cases dget s.depths f with
        | none => exact ⟨m', rfl, by omega⟩
        | some a => exact ⟨min (a + i) m', rfl, by omega⟩
    · intro m h
      simp only [embedDepth] at h
      cases ha : dget s.depths f with
      | none =>
        rw [ha] at h
        simp only [Option.map_none, c08n_minDepth_none_left] at h
        obtain ⟨j, d, hj, e⟩ := ih2 m h
        exact ⟨j + 1, d, by simpa using hj, by omega⟩
      | some a =>
        rw [ha] at h
        cases hb : embedDepth (i + 1) ss f with
        | none =>
          rw [hb] at h
          simp only [Option.map_some, minDepth, Option.some.injEq] at h
          exact ⟨0, a, by simp [ha], by omega⟩
        | some b =>
          rw [hb] at h
          simp only [Option.map_some, minDepth, Option.some.injEq] at h
          by_cases hle : a + i ≤ b
          · exact ⟨0, a, by simp [ha], by omega⟩
          · obtain ⟨j, d, hj, e⟩ := ih2 b hb
            exact ⟨j + 1, d, by simpa using hj, by omega⟩

/-- `embed` of any number of signatures -/
theorem c08n_embed_provWF (uva uvk : Bool) (o : USig) (ss : List USig) (R : USig)
    (ho : WF o.params) (po : ProvWF1 o)
    (hss : ∀ s ∈ ss, WF s.params ∧ ProvWF s ∧ KeysND s.depths)
    (h : embed uva uvk (o :: ss) = .ok R) :
    ProvWF1 R ∧ (∀ k f, f ∈ sget R.src k → ∃ s ∈ o :: ss, f ∈ sget s.src k) ∧
      (∀ f, dget R.depths f = embedDepth 0 (o :: ss) f) ∧
      (KeysND o.depths → KeysND R.depths) := by
  simp only [embed, bind, Except.bind] at h
  split at h
  · cases h
  · rename_i r hfold
    obtain ⟨e1, e2, e3⟩ := applyParams_ok_C08 h
    obtain ⟨_, _, _, _, _, osrc, odep⟩ := sortParams_fields o ho
    obtain ⟨a, m, d, n⟩ := c08n_embedFold uva uvk ss _ r 1 (c08n_sortParams_embAcc o ho po) hss hfold
    refine ⟨⟨⟨?_, ?_, ?_⟩, ?_⟩, ?_, ?_, ?_⟩
    · intro k; rw [e1, e2]; exact a.keys k
    · intro k hk; rw [e2]; rw [e1] at hk; exact a.ne k hk
    · intro k f hf; rw [e2] at hf; rw [e3]; exact a.dep k f hf
    · rw [e2]; exact a.nd
    · intro k f hf
      rw [e2] at hf
      rcases m k f hf with h' | ⟨t, ht, h'⟩
      · rw [osrc] at h'; exact ⟨o, by simp, h'⟩
      · exact ⟨t, by simp [ht], h'⟩
    · intro f
      rw [e3, d f, odep]
      simp only [embedDepth, c08n_map_add_zero]
    · intro hod
      rw [e3]
      apply n
      rw [odep]; exact hod

end SV
