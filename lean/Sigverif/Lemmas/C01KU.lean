/-
  Lemmas/C01KU.lean — phase K (keyword-only parameters, first two loops) in closed form and the
  two final `_merge_unmatched_kwoargs` calls.
-/
import Sigverif.Lemmas.C01Phases
namespace SV
variable {l r : Sorted}

/-! ### phase K in closed form -/

theorem phaseK1_closed (ps : List Param) (st : MState) (hnd : (names ps).Nodup)
    (hf : ∀ x ∈ names ps, x ∉ names st.kwo ∧ x ∉ names st.lUn) :
    Upd (phaseK1 l r ps st) st.pos st.pok
      (st.kwo ++ ps.filterMap (fun p => (pget r.kwo p.name).map (concile p)))
      (st.lUn ++ ps.filter (fun p => (pget r.kwo p.name).isNone)) st.rUn := by
  induction ps generalizing st with
  | nil => simp [phaseK1, Upd]
  | cons p ps ih =>
    simp only [names_cons_C01, List.nodup_cons, List.mem_cons, forall_eq_or_imp] at hnd hf
    obtain ⟨⟨hf1, hf2⟩, hf3⟩ := hf
    rw [phaseK1]
    cases hq : pget r.kwo p.name with
    | some q =>
      simp only
      have hfr : (concile p q).name ∉ names st.kwo := by simpa using hf1
      rw [pset_of_not_mem_C01 hfr]
      have := ih { st with kwo := st.kwo ++ [concile p q],
                           src := dset st.src p.name (sget l.src p.name ++ sget r.src p.name) }
        hnd.2 (by
          intro x hx
          have := hf3 x hx
          simp only [names_append_C01, names_cons_C01, names_nil_C01, List.mem_append, List.mem_singleton,
            concile_name_C01, not_or]
          exact ⟨⟨this.1, fun e => hnd.1 (e ▸ hx)⟩, this.2⟩)
      obtain ⟨h1, h2, h3, h4, h5⟩ := this
      refine ⟨h1, h2, ?_, ?_, h5⟩
      · rw [h3]; simp [List.filterMap_cons, hq]
      · rw [h4]; simp [List.filter_cons, hq]
    | none =>
      simp only
      rw [pset_of_not_mem_C01 hf2]
      have := ih { st with lUn := st.lUn ++ [p] } hnd.2 (by
          intro x hx
          have := hf3 x hx
          simp only [names_append_C01, names_cons_C01, names_nil_C01, List.mem_append, List.mem_singleton,
            not_or]
          exact ⟨this.1, this.2, fun e => hnd.1 (e ▸ hx)⟩)
      obtain ⟨h1, h2, h3, h4, h5⟩ := this
      refine ⟨h1, h2, ?_, ?_, h5⟩
      · rw [h3]; simp [List.filterMap_cons, hq]
      · rw [h4]; simp [List.filter_cons, hq]

theorem phaseK2_closed (ps : List Param) (st : MState) (hnd : (names ps).Nodup)
    (hf : ∀ x ∈ names ps, x ∉ names st.rUn) :
    Upd (phaseK2 l ps st) st.pos st.pok st.kwo st.lUn
      (st.rUn ++ ps.filter (fun p => !phas l.kwo p.name)) := by
  induction ps generalizing st with
  | nil => simp [phaseK2, Upd]
  | cons p ps ih =>
    simp only [names_cons_C01, List.nodup_cons, List.mem_cons, forall_eq_or_imp] at hnd hf
    rw [phaseK2]
    by_cases hp : phas l.kwo p.name = true
    · simp only [hp, if_true]
      obtain ⟨h1, h2, h3, h4, h5⟩ := ih st hnd.2 hf.2
      refine ⟨h1, h2, h3, h4, ?_⟩
      rw [h5]; simp [List.filter_cons, hp]
    · simp only [hp, Bool.false_eq_true, if_false]
      rw [pset_of_not_mem_C01 hf.1]
      obtain ⟨h1, h2, h3, h4, h5⟩ := ih { st with rUn := st.rUn ++ [p] } hnd.2 (by
        intro x hx
        simp only [names_append_C01, names_cons_C01, names_nil_C01, List.mem_append, List.mem_singleton, not_or]
        exact ⟨hf.2 x hx, fun e => hnd.1 (e ▸ hx)⟩)
      refine ⟨h1, h2, h3, h4, ?_⟩
      rw [h5]; simp [List.filter_cons, hp]

def kInit (l r : Sorted) : MState :=
  { vaL := l.va.isSome, vaR := r.va.isSome, vkL := l.vk.isSome, vkR := r.vk.isSome }

/-- the state after phase K -/
def stK (l r : Sorted) : MState := phaseK2 l r.kwo (phaseK1 l r l.kwo (kInit l r))

def kwoK (l r : Sorted) : List Param :=
  l.kwo.filterMap (fun p => (pget r.kwo p.name).map (concile p))
def lUnK (l r : Sorted) : List Param := l.kwo.filter (fun p => (pget r.kwo p.name).isNone)
def rUnK (l r : Sorted) : List Param := r.kwo.filter (fun p => !phas l.kwo p.name)

theorem stK_upd (hl : (names l.kwo).Nodup) (hr : (names r.kwo).Nodup) :
    Upd (stK l r) [] [] (kwoK l r) (lUnK l r) (rUnK l r) := by
  obtain ⟨a1, a2, a3, a4, a5⟩ := phaseK1_closed (l := l) (r := r) l.kwo (kInit l r) hl
    (by intro x _; simp [kInit])
  obtain ⟨b1, b2, b3, b4, b5⟩ := phaseK2_closed (l := l) r.kwo (phaseK1 l r l.kwo (kInit l r)) hr
    (by intro x _; rw [a5]; simp [kInit])
  unfold stK
  refine ⟨b1.trans a1, b2.trans a2, b3.trans ?_, b4.trans ?_, b5.trans ?_⟩
  · rw [a3]; simp [kInit, kwoK]
  · rw [a4]; simp [kInit, lUnK]
  · rw [a5]; simp [kInit, rUnK]

theorem mem_kwoK {p : Param} :
    p ∈ kwoK l r ↔ ∃ a ∈ l.kwo, ∃ q, pget r.kwo a.name = some q ∧ concile a q = p := by
  simp [kwoK, List.mem_filterMap]

theorem mem_lUnK {p : Param} : p ∈ lUnK l r ↔ p ∈ l.kwo ∧ p.name ∉ names r.kwo := by
  simp [lUnK, List.mem_filter, pget_eq_none_C01, Option.isNone_iff_eq_none]

theorem mem_rUnK {p : Param} : p ∈ rUnK l r ↔ p ∈ r.kwo ∧ p.name ∉ names l.kwo := by
  simp [rUnK, List.mem_filter, phas_false_iff]

theorem mem_names_kwoK {x : Nat} (h : x ∈ names (kwoK l r)) : x ∈ names l.kwo ∧ x ∈ names r.kwo := by
  obtain ⟨p, hp, rfl⟩ := mem_names_C01.1 h
  obtain ⟨a, ha, q, hq, rfl⟩ := mem_kwoK.1 hp
  obtain ⟨hq1, hq2⟩ := pget_some_C01 hq
  exact ⟨by simpa using mem_names_of_mem_C01 ha, by simpa [hq2] using mem_names_of_mem_C01 hq1⟩

theorem mem_names_lUnK {x : Nat} (h : x ∈ names (lUnK l r)) : x ∈ names l.kwo ∧ x ∉ names r.kwo := by
  obtain ⟨p, hp, rfl⟩ := mem_names_C01.1 h
  obtain ⟨h1, h2⟩ := mem_lUnK.1 hp
  exact ⟨mem_names_of_mem_C01 h1, h2⟩

theorem mem_names_rUnK {x : Nat} (h : x ∈ names (rUnK l r)) : x ∈ names r.kwo ∧ x ∉ names l.kwo := by
  obtain ⟨p, hp, rfl⟩ := mem_names_C01.1 h
  obtain ⟨h1, h2⟩ := mem_rUnK.1 hp
  exact ⟨mem_names_of_mem_C01 h1, h2⟩

theorem names_kwoK : names (kwoK l r) = names (l.kwo.filter (fun p => (pget r.kwo p.name).isSome)) := by
  unfold kwoK
  induction l.kwo with
  | nil => rfl
  | cons a t ih =>
    cases hq : pget r.kwo a.name with
    | none => simp [List.filterMap_cons, List.filter_cons, hq, ih]
    | some q => simp [List.filterMap_cons, List.filter_cons, hq, ih]

theorem nodup_names_kwoK (hl : (names l.kwo).Nodup) : (names (kwoK l r)).Nodup := by
  rw [names_kwoK]; exact hl.sublist (List.filter_sublist.map _)
theorem nodup_names_lUnK (hl : (names l.kwo).Nodup) : (names (lUnK l r)).Nodup :=
  hl.sublist (List.filter_sublist.map _)
theorem nodup_names_rUnK (hr : (names r.kwo).Nodup) : (names (rUnK l r)).Nodup :=
  hr.sublist (List.filter_sublist.map _)

/-- name discipline at the start of phase P -/
theorem stK_N (hl : (names (l.pok ++ l.kwo)).Nodup) (hr : (names (r.pok ++ r.kwo)).Nodup) :
    NInv l.pok r.pok (stK l r) := by
  simp only [names_append_C01, List.nodup_append] at hl hr
  obtain ⟨h1, h2, h3, h4, h5⟩ := stK_upd (l := l) (r := r) hl.2.1 hr.2.1
  have k1 := @mem_names_kwoK l r
  have k2 := @mem_names_lUnK l r
  have k3 := @mem_names_rUnK l r
  have n1 := nodup_names_kwoK (l := l) (r := r) hl.2.1
  have n2 := nodup_names_lUnK (l := l) (r := r) hl.2.1
  have n3 := nodup_names_rUnK (l := l) (r := r) hr.2.1
  constructor
  · rw [h2, h3, h4]; simp [List.nodup_append]; grind
  · rw [h2, h3, h5]; simp [List.nodup_append]; grind
  · rw [h4, h5]; grind


theorem stK_S (bl : BucketKinds l) (hl : (names l.kwo).Nodup) (hr : (names r.kwo).Nodup) :
    SInv l r l.pok r.pok (stK l r) := by
  obtain ⟨h1, h2, h3, h4, h5⟩ := stK_upd (l := l) (r := r) hl hr
  refine ⟨fun _ h => h, fun _ h => h, ?_, ?_, ?_, ?_, ?_⟩
  · rw [h4]; intro p hp; exact (mem_lUnK.1 hp).1
  · rw [h5]; intro p hp; exact (mem_rUnK.1 hp).1
  · rw [h1]; simp
  · rw [h2]; simp
  · rw [h3]; intro p hp
    obtain ⟨a, ha, q, hq, rfl⟩ := mem_kwoK.1 hp
    obtain ⟨hq1, hq2⟩ := pget_some_C01 hq
    refine ⟨by simpa using bl.kwo a ha, Or.inr (Or.inl (by simpa using mem_names_of_mem_C01 ha)),
      Or.inr (Or.inl ?_)⟩
    simpa [hq2] using mem_names_of_mem_C01 hq1

theorem stK_W (hl : (names l.kwo).Nodup) (hr : (names r.kwo).Nodup) (x : Nat)
    (h : hasReq l.kwo x ∨ hasReq r.kwo x) : WitK (stK l r) x := by
  obtain ⟨h1, h2, h3, h4, h5⟩ := stK_upd (l := l) (r := r) hl hr
  unfold WitK
  rw [h3, h4, h5]
  rcases h with ⟨p, hp, rfl, hpr⟩ | ⟨q, hq, rfl, hqr⟩
  · cases hg : pget r.kwo p.name with
    | some q =>
      exact Or.inl ⟨concile p q, mem_kwoK.2 ⟨p, hp, q, hg, rfl⟩, rfl, by simp [hpr]⟩
    | none =>
      exact Or.inr (Or.inl ⟨p, mem_lUnK.2 ⟨hp, pget_eq_none_C01.1 hg⟩, rfl, hpr⟩)
  · by_cases hm : q.name ∈ names l.kwo
    · obtain ⟨a, ha, han⟩ := mem_names_C01.1 hm
      cases hg : pget r.kwo a.name with
      | none => exact absurd (han ▸ mem_names_of_mem_C01 hq) (pget_eq_none_C01.1 hg)
      | some q' =>
        obtain ⟨hq1, hq2⟩ := pget_some_C01 hg
        have : q' = q := eq_of_nodup_names hr hq1 hq (hq2.trans han)
        subst this
        exact Or.inl ⟨concile a q', mem_kwoK.2 ⟨a, ha, q', hg, rfl⟩, han, by simp [hqr]⟩
    · exact Or.inr (Or.inr ⟨q, mem_rUnK.2 ⟨hq, hm⟩, rfl, hqr⟩)

/-! ### the two `_merge_unmatched_kwoargs` calls -/

theorem unmatched_spec {st st3 st4 : MState} (hN : NInv [] [] st)
    (h3 : mergeUnmatched .L l r st = .ok st3) (h4 : mergeUnmatched .R l r st3 = .ok st4) :
    ∃ A B, Upd st4 st.pos st.pok (st.kwo ++ A ++ B) st.lUn st.rUn ∧
      ((A = st.lUn ∧ (st.lUn = [] ∨ r.vk.isSome = true)) ∨
        (A = [] ∧ ∀ p ∈ st.lUn, p.dflt.isSome = true)) ∧
      ((B = st.rUn ∧ (st.rUn = [] ∨ l.vk.isSome = true)) ∨
        (B = [] ∧ ∀ p ∈ st.rUn, p.dflt.isSome = true)) := by
  obtain ⟨nl, nr, nu⟩ := hN
  simp only [names_nil_C01, List.nil_append, List.nodup_append] at nl nr
  have e1 : pupdate st.kwo st.lUn = st.kwo ++ st.lUn :=
    pupdate_of_disjoint_C01 nl.2.1 (by
      intro x hx hx'; exact nl.2.2 x (List.mem_append_right _ hx') x hx rfl)
  have e2 : pupdate st.kwo st.rUn = st.kwo ++ st.rUn :=
    pupdate_of_disjoint_C01 nr.2.1 (by
      intro x hx hx'; exact nr.2.2 x (List.mem_append_right _ hx') x hx rfl)
  have e3 : pupdate (st.kwo ++ st.lUn) st.rUn = st.kwo ++ st.lUn ++ st.rUn :=
    pupdate_of_disjoint_C01 nr.2.1 (by
      intro x hx hx'
      simp only [names_append_C01, List.mem_append] at hx'
      rcases hx' with hx' | hx'
      · exact nr.2.2 x (List.mem_append_right _ hx') x hx rfl
      · exact nu x hx' hx)
  rcases mergeUnmatched_L_inv h3 with ⟨he, a1, a2, a3, a4, a5⟩ | ⟨hvk, a1, a2, a3, a4, a5⟩ |
    ⟨ho, a1, a2, a3, a4, a5⟩
  · rcases mergeUnmatched_R_inv h4 with ⟨he', b1, b2, b3, b4, b5⟩ | ⟨hvk', b1, b2, b3, b4, b5⟩ |
      ⟨ho', b1, b2, b3, b4, b5⟩
    · exact ⟨[], [], ⟨by rw [b1, a1], by rw [b2, a2], by simp [b3, a3], by rw [b4, a4],
        by rw [b5, a5]⟩, Or.inl ⟨he.symm, Or.inl he⟩, Or.inl ⟨(a5 ▸ he').symm, Or.inl (a5 ▸ he')⟩⟩
    · exact ⟨[], st.rUn, ⟨by rw [b1, a1], by rw [b2, a2], by simp [b3, a3, a5, e2],
        by rw [b4, a4], by rw [b5, a5]⟩, Or.inl ⟨he.symm, Or.inl he⟩, Or.inl ⟨rfl, Or.inr hvk'⟩⟩
    · exact ⟨[], [], ⟨by rw [b1, a1], by rw [b2, a2], by simp [b3, a3], by rw [b4, a4],
        by rw [b5, a5]⟩, Or.inl ⟨he.symm, Or.inl he⟩, Or.inr ⟨rfl, a5 ▸ ho'⟩⟩
  · rcases mergeUnmatched_R_inv h4 with ⟨he', b1, b2, b3, b4, b5⟩ | ⟨hvk', b1, b2, b3, b4, b5⟩ |
      ⟨ho', b1, b2, b3, b4, b5⟩
    · exact ⟨st.lUn, [], ⟨by rw [b1, a1], by rw [b2, a2], by simp [b3, a3, e1], by rw [b4, a4],
        by rw [b5, a5]⟩, Or.inl ⟨rfl, Or.inr hvk⟩, Or.inl ⟨(a5 ▸ he').symm, Or.inl (a5 ▸ he')⟩⟩
    · exact ⟨st.lUn, st.rUn, ⟨by rw [b1, a1], by rw [b2, a2], by simp [b3, a3, a5, e1, e3],
        by rw [b4, a4], by rw [b5, a5]⟩, Or.inl ⟨rfl, Or.inr hvk⟩, Or.inl ⟨rfl, Or.inr hvk'⟩⟩
    · exact ⟨st.lUn, [], ⟨by rw [b1, a1], by rw [b2, a2], by simp [b3, a3, e1], by rw [b4, a4],
        by rw [b5, a5]⟩, Or.inl ⟨rfl, Or.inr hvk⟩, Or.inr ⟨rfl, a5 ▸ ho'⟩⟩
  · rcases mergeUnmatched_R_inv h4 with ⟨he', b1, b2, b3, b4, b5⟩ | ⟨hvk', b1, b2, b3, b4, b5⟩ |
      ⟨ho', b1, b2, b3, b4, b5⟩
    · exact ⟨[], [], ⟨by rw [b1, a1], by rw [b2, a2], by simp [b3, a3], by rw [b4, a4],
        by rw [b5, a5]⟩, Or.inr ⟨rfl, ho⟩, Or.inl ⟨(a5 ▸ he').symm, Or.inl (a5 ▸ he')⟩⟩
    · exact ⟨[], st.rUn, ⟨by rw [b1, a1], by rw [b2, a2], by simp [b3, a3, a5, e2],
        by rw [b4, a4], by rw [b5, a5]⟩, Or.inr ⟨rfl, ho⟩, Or.inl ⟨rfl, Or.inr hvk'⟩⟩
    · exact ⟨[], [], ⟨by rw [b1, a1], by rw [b2, a2], by simp [b3, a3], by rw [b4, a4],
        by rw [b5, a5]⟩, Or.inr ⟨rfl, ho⟩, Or.inr ⟨rfl, a5 ▸ ho'⟩⟩

end SV
