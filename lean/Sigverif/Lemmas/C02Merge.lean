/-
  Lemmas/C02Merge.lean — closed form of `mergeStep inner stars` when `stars` only has
  star parameters (the merge performed by `_embed`).
-/
import Sigverif.Lemmas.C02Sort
namespace SV

theorem phaseK1_stars (l r : Sorted) (hr : r.kwo = []) (ps : List Param) (st : MState) :
    phaseK1 l r ps st = { st with lUn := pupdate st.lUn ps } := by
  induction ps generalizing st with
  | nil => rfl
  | cons p ps ih =>
    simp only [phaseK1, hr, pget, List.find?_nil]
    rw [ih]
    rfl

def srcFold (l : Sorted) (ls : List Param) (src : Srcs) : Srcs :=
  ls.foldl (fun acc p => addSources acc p.name [l.src]) src

theorem phaseP_L_some (l r : Sorted) (hva : r.va.isSome = true) (ls il : List Param) (st : MState) :
    phaseP l r ls [] il [] st =
      .ok ({ st with pos := st.pos ++ ls, src := srcFold l ls st.src,
                     vaR := st.vaR && ls.isEmpty }, il, []) := by
  induction ls generalizing st with
  | nil => cases st; simp [phaseP, srcFold]
  | cons p ls ih =>
    simp only [phaseP, unbalancedPos, hva, if_true, bind, Except.bind]
    rw [ih]; simp [srcFold]

theorem phaseP_L_none (l r : Sorted) (hva : r.va = none) (ls il : List Param) (st : MState) :
    phaseP l r ls [] il [] st =
      if ls.any (·.dflt.isNone) then .error .valueError else .ok (st, il, []) := by
  induction ls generalizing st with
  | nil => simp [phaseP]
  | cons p ls ih =>
    simp only [phaseP, unbalancedPos, hva, bind, Except.bind, List.any_cons]
    by_cases hd : p.dflt.isNone = true <;> simp [ih, hd]

theorem phaseQ_L_TT (l r : Sorted) (hva : r.va.isSome = true) (hvk : r.vk.isSome = true)
    (ls : List Param) (st : MState) (hun : st.rUn = []) :
    phaseQ l r ls [] st = .ok { st with pok := st.pok ++ ls, src := srcFold l ls st.src } := by
  induction ls generalizing st with
  | nil => cases st; simp [phaseQ, srcFold]
  | cons p ls ih =>
    obtain ⟨pos, pok, kwo, src, vaL, vaR, vkL, vkR, lUn, rUn⟩ := st
    simp only at hun; subst hun
    simp only [phaseQ, unbalancedPok, pget, List.find?_nil, hva, hvk, Bool.and_self, if_true,
      bind, Except.bind]
    rw [ih _ rfl]; simp [srcFold]

theorem phaseQ_L_FT (l r : Sorted) (hva : r.va = none) (hvk : r.vk.isSome = true)
    (ls : List Param) (st : MState) (hun : st.rUn = []) :
    phaseQ l r ls [] st =
      .ok { st with kwo := pupdate st.kwo (ls.map (·.withKind .ko)),
                    src := srcFold l ls st.src } := by
  induction ls generalizing st with
  | nil => cases st; simp [phaseQ, pupdate_nil, srcFold]
  | cons p ls ih =>
    obtain ⟨pos, pok, kwo, src, vaL, vaR, vkL, vkR, lUn, rUn⟩ := st
    simp only at hun; subst hun
    simp only [phaseQ, unbalancedPok, pget, List.find?_nil, hva, hvk, bind, Except.bind]
    simp only [Option.isSome_none, Bool.false_and, Bool.false_eq_true, if_false, if_true]
    rw [ih _ rfl]; simp [pupdate_cons, srcFold]

theorem phaseQ_L_TF (l r : Sorted) (hva : r.va.isSome = true) (hvk : r.vk = none)
    (ls : List Param) (st : MState) (hun : st.rUn = []) (hpok : st.pok = []) :
    phaseQ l r ls [] st =
      .ok { st with pos := st.pos ++ ls.map (·.withKind .po), src := srcFold l ls st.src } := by
  induction ls generalizing st with
  | nil => cases st; simp [phaseQ, srcFold]
  | cons p ls ih =>
    obtain ⟨pos, pok, kwo, src, vaL, vaR, vkL, vkR, lUn, rUn⟩ := st
    simp only at hun hpok; subst hun; subst hpok
    simp only [phaseQ, unbalancedPok, pget, List.find?_nil, hva, hvk, bind, Except.bind]
    simp only [Option.isSome_none, Bool.and_false, Bool.false_eq_true, if_false, if_true,
      List.map_nil, List.append_nil]
    rw [ih _ rfl rfl]; simp [srcFold]

theorem phaseQ_L_FF (l r : Sorted) (hva : r.va = none) (hvk : r.vk = none)
    (ls : List Param) (st : MState) (hun : st.rUn = []) :
    phaseQ l r ls [] st =
      if ls.any (·.dflt.isNone) then .error .valueError else .ok st := by
  induction ls generalizing st with
  | nil => simp [phaseQ]
  | cons p ls ih =>
    obtain ⟨pos, pok, kwo, src, vaL, vaR, vkL, vkR, lUn, rUn⟩ := st
    simp only at hun; subst hun
    simp only [phaseQ, unbalancedPok, pget, List.find?_nil, hva, hvk, bind, Except.bind,
      List.any_cons]
    by_cases hd : p.dflt.isNone = true <;> simp [ih, hd]

/-- the star parameter that `_add_starargs` yields when the left one is still wanted -/
def starOf (l r : Option Param) (w : Bool) : Option Param :=
  match l, r with
  | some lp, some rp => some (if w then concile lp rp else lp)
  | _, _ => none

/-- closed form (buckets only) of `mergeStep I {va := sva, vk := svk}` -/
def mergeStars (I : Sorted) (sva svk : Option Param) : Except Err Sorted :=
  let un := pupdate [] I.kwo
  if sva.isSome then
    if svk.isSome then
      .ok { pos := I.pos, pok := I.pok, kwo := pupdate [] un,
            va := starOf I.va sva I.pos.isEmpty, vk := starOf I.vk svk un.isEmpty }
    else if un.any (·.dflt.isNone) then .error .valueError
    else .ok { pos := I.pos ++ I.pok.map (·.withKind .po), pok := [], kwo := [],
               va := starOf I.va sva I.pos.isEmpty, vk := none }
  else if I.pos.any (·.dflt.isNone) then .error .valueError
  else if svk.isSome then
    .ok { pos := [], pok := [], kwo := pupdate (pupdate [] (I.pok.map (·.withKind .ko))) un,
          va := none, vk := starOf I.vk svk un.isEmpty }
  else if I.pok.any (·.dflt.isNone) then .error .valueError
  else if un.any (·.dflt.isNone) then .error .valueError
  else .ok { pos := [], pok := [], kwo := [], va := none, vk := none }

theorem addStarargs_L (l r : Sorted) (wR : Bool) (left right : Option Param) (src : Srcs)
    (hl : left.isSome = true ∨ right = none) :
    ∃ src', addStarargs l r left.isSome wR left right src = (starOf left right wR, src') := by
  cases left with
  | none => exact ⟨src, by simp [addStarargs, starOf]⟩
  | some lp =>
    cases right with
    | none => exact ⟨src, by simp [addStarargs, starOf]⟩
    | some rp =>
      cases wR
      · exact ⟨_, by simp [addStarargs, starOf]; rfl⟩
      · simp only [addStarargs, starOf, Option.isSome_some, Bool.and_self, if_true]
        split <;> exact ⟨_, rfl⟩

theorem phaseK2_nil (l : Sorted) (st : MState) : phaseK2 l [] st = st := rfl

theorem mergeUnmatched_L_some (l r : Sorted) (hvk : r.vk.isSome = true) (st : MState) :
    mergeUnmatched .L l r st =
      .ok { st with kwo := pupdate st.kwo st.lUn, src := addAllSources st.src st.lUn l.src,
                    vkR := st.vkR && st.lUn.isEmpty } := by
  obtain ⟨pos, pok, kwo, src, vaL, vaR, vkL, vkR, lUn, rUn⟩ := st
  cases lUn with
  | nil => simp [mergeUnmatched, pupdate_nil, addAllSources]
  | cons p t => simp [mergeUnmatched, hvk]

theorem mergeUnmatched_L_none (l r : Sorted) (hvk : r.vk = none) (st : MState) :
    mergeUnmatched .L l r st =
      if st.lUn.any (·.dflt.isNone) then .error .valueError else .ok st := by
  obtain ⟨pos, pok, kwo, src, vaL, vaR, vkL, vkR, lUn, rUn⟩ := st
  cases lUn with
  | nil => simp [mergeUnmatched]
  | cons p t => simp [mergeUnmatched, hvk]

theorem mergeUnmatched_R_nil (l r : Sorted) (st : MState) (h : st.rUn = []) :
    mergeUnmatched .R l r st = .ok st := by
  simp [mergeUnmatched, h]

theorem addStarargs_fst (l r : Sorted) (wR : Bool) (left right : Option Param) (src : Srcs) :
    (addStarargs l r left.isSome wR left right src).fst = starOf left right wR := by
  cases left with
  | none => simp [addStarargs, starOf]
  | some lp =>
    cases right with
    | none => simp [addStarargs, starOf]
    | some rp =>
      cases wR
      · simp [addStarargs, starOf]
      · simp only [addStarargs, starOf, Option.isSome_some, Bool.and_self, if_true]

@[simp] theorem starOf_none (l : Option Param) (w : Bool) : starOf l none w = none := by
  cases l <;> rfl

theorem mergeStep_stars (I : Sorted) (sva svk : Option Param) :
    ∃ src, mergeStep I { va := sva, vk := svk } =
      (mergeStars I sva svk).map (fun r => { r with src := src, depths := mergeDepths I.depths [] }) := by
  unfold mergeStep
  simp only [phaseK1_stars I { va := sva, vk := svk } rfl, phaseK2_nil, bind, Except.bind]
  cases sva with
  | some a =>
    cases svk with
    | some k =>
      simp only [phaseP_L_some I { va := some a, vk := some k } rfl]
      simp only [phaseQ_L_TT I { va := some a, vk := some k } rfl rfl]
      simp only [mergeUnmatched_L_some I { va := some a, vk := some k } rfl]
      simp only [mergeUnmatched_R_nil]
      simp only [addStarargs_fst]
      apply Exists.intro
      simp only [mergeStars, Option.isSome_some, if_true, Except.map, pure, Except.pure, List.nil_append, Bool.true_and]
      rfl
    | none =>
      simp only [phaseP_L_some I { va := some a, vk := none } rfl]
      simp only [phaseQ_L_TF I { va := some a, vk := none } rfl rfl]
      simp only [mergeUnmatched_L_none I { va := some a, vk := none } rfl]
      by_cases hun : (pupdate [] I.kwo).any (·.dflt.isNone) = true
      · exact ⟨[], by simp [mergeStars, hun, Except.map]⟩
      · simp only [hun, if_false, Bool.false_eq_true]
        simp only [mergeUnmatched_R_nil]
        simp only [addStarargs_fst]
        apply Exists.intro
        simp only [mergeStars, Option.isSome_some, Option.isSome_none, if_true, if_false, Except.map, pure, Except.pure,
          List.nil_append, Bool.true_and, hun, Bool.false_eq_true, starOf_none]
        rfl
  | none =>
    simp only [phaseP_L_none I { va := none, vk := svk } rfl]
    by_cases hp : I.pos.any (·.dflt.isNone) = true
    · exact ⟨[], by simp [mergeStars, hp, Except.map]⟩
    · simp only [hp, if_false, Bool.false_eq_true]
      cases svk with
      | some k =>
        simp only [phaseQ_L_FT I { va := none, vk := some k } rfl rfl]
        simp only [mergeUnmatched_L_some I { va := none, vk := some k } rfl]
        simp only [mergeUnmatched_R_nil]
        simp only [addStarargs_fst]
        apply Exists.intro
        simp only [mergeStars, Option.isSome_some, Option.isSome_none, if_true, if_false, Except.map, pure, Except.pure,
          Bool.true_and, hp, Bool.false_eq_true, starOf_none]
        rfl
      | none =>
        simp only [phaseQ_L_FF I { va := none, vk := none } rfl rfl]
        by_cases hq : I.pok.any (·.dflt.isNone) = true
        · exact ⟨[], by simp [mergeStars, hp, hq, Except.map]⟩
        · simp only [hq, if_false, Bool.false_eq_true]
          simp only [mergeUnmatched_L_none I { va := none, vk := none } rfl]
          by_cases hun : (pupdate [] I.kwo).any (·.dflt.isNone) = true
          · exact ⟨[], by simp [mergeStars, hp, hq, hun, Except.map]⟩
          · simp only [hun, if_false, Bool.false_eq_true]
            simp only [mergeUnmatched_R_nil]
            apply Exists.intro
            simp only [mergeStars, Option.isSome_none, if_false, Except.map, pure, Except.pure,
              hp, hq, hun, Bool.false_eq_true, starOf_none, addStarargs_fst]
            rfl
end SV
