/-
  Lemmas/C12Prep.lean — characterisation of `prepStep` / `prepLoop` / `prepare`.
-/
import Sigverif.Lemmas.C12Valid
namespace SV
set_option linter.unusedSimpArgs false

def isKwo (P W : List Nat) (p : Param) : Bool :=
  p.kind = .pk && !P.contains p.name && W.contains p.name
def isPpk (P : List Nat) (p : Param) : Bool := p.kind = .pk && P.contains p.name
def isKept (P W : List Nat) (p : Param) : Bool :=
  p.kind = .pk && !P.contains p.name && !W.contains p.name

def keepMap (P W : List Nat) (ps : List Param) : List Param :=
  (ps.filter (fun p => !isKwo P W p)).map (fun p => if isPpk P p then p.withKind .po else p)
def kwMap (P W : List Nat) (ps : List Param) : List Param :=
  (ps.filter (isKwo P W)).map (·.withKind .ko)
def kwPosFrom (P W : List Nat) : Nat → List Param → List (Nat × Param)
  | _, [] => []
  | i, p :: ps => if isKwo P W p then (i, p) :: kwPosFrom P W (i + 1) ps else kwPosFrom P W (i + 1) ps

def stepCond (P W : List Nat) (st : PrepState) (p : Param) : Prop :=
  (isPpk P p = true → st.foundPok = false) ∧
  (p.kind = .pk → (P.contains p.name = true ∨ W.contains p.name = true) → p.name ∈ st.toUse) ∧
  (p.kind ≠ .pk → p.name ∈ st.toUse →
    (p.kind = .po ∧ P.contains p.name = true) ∨ (p.kind = .ko ∧ W.contains p.name = true))

def stepRes (P W : List Nat) (st : PrepState) (i : Nat) (p : Param) : PrepState :=
  { params := st.params ++ (if p.kind = .vk then st.kwoparams else []) ++ keepMap P W [p],
    kwoparams := st.kwoparams ++ kwMap P W [p],
    kwopos := st.kwopos ++ kwPosFrom P W i [p],
    foundPok := st.foundPok || isKept P W p,
    foundKws := st.foundKws || decide (p.kind = .vk),
    toUse := if isKept P W p then st.toUse else st.toUse.filter (· ≠ p.name) }

theorem filter_ne_of_not_mem {l : List Nat} {x : Nat} (h : x ∉ l) : l.filter (· ≠ x) = l := by
  rw [List.filter_eq_self]
  intro a ha
  simp
  rintro rfl
  exact h ha

theorem prepStep_ok_iff {P W : List Nat} {st st1 : PrepState} {i : Nat} {p : Param} :
    prepStep P W st i p = .ok st1 ↔ stepCond P W st p ∧ st1 = stepRes P W st i p := by
  obtain ⟨params, kwoparams, kwopos, foundPok, foundKws, toUse⟩ := st
  obtain ⟨params1, kwoparams1, kwopos1, foundPok1, foundKws1, toUse1⟩ := st1
  unfold prepStep stepCond stepRes
  by_cases hk : p.kind = .pk
  · by_cases hP : p.name ∈ P
    · by_cases hf : foundPok = true
      · simp [hk, hP, hf, isPpk]
      · by_cases hu : p.name ∈ toUse
        · simp [hk, hP, hf, hu, isPpk, isKept, isKwo, setRemove, keepMap, kwMap, kwPosFrom, bind, Except.bind, pure, Except.pure]
          grind
        · simp [hk, hP, hf, hu, isPpk, isKept, isKwo, setRemove, keepMap, kwMap, kwPosFrom, bind, Except.bind, pure, Except.pure]
    · by_cases hW : p.name ∈ W
      · by_cases hu : p.name ∈ toUse
        · simp [hk, hP, hW, hu, isPpk, isKept, isKwo, setRemove, keepMap, kwMap, kwPosFrom, bind, Except.bind, pure, Except.pure]
          grind
        · simp [hk, hP, hW, hu, isPpk, isKept, isKwo, setRemove, keepMap, kwMap, kwPosFrom, bind, Except.bind, pure, Except.pure]
      · simp [hk, hP, hW, isPpk, isKept, isKwo, setRemove, keepMap, kwMap, kwPosFrom, bind, Except.bind, pure, Except.pure]
        grind
  · have hkept : isKept P W p = false := by simp [isKept, hk]
    have hkwo : isKwo P W p = false := by simp [isKwo, hk]
    have hppk : isPpk P p = false := by simp [isPpk, hk]
    by_cases hu : p.name ∈ toUse
    · by_cases h1 : p.kind = .po ∧ p.name ∈ P
      · simp [hk, hu, h1, hkept, hkwo, hppk, setRemove, keepMap, kwMap, kwPosFrom, bind, Except.bind, pure, Except.pure]
        grind
      · by_cases h2 : p.kind = .ko ∧ p.name ∈ W
        · have h1' : ¬ (p.kind = .po) := by rw [h2.1]; decide
          simp [hk, hu, h1', h2, hkept, hkwo, hppk, setRemove, keepMap, kwMap, kwPosFrom, bind, Except.bind, pure, Except.pure]
          grind
        · have h1' : (decide (p.kind = .po) && P.contains p.name) = false := by
            simpa using h1
          have h2' : (decide (p.kind = .ko) && W.contains p.name) = false := by
            simpa using h2
          simp [hk, hu, h1', h2', hkept, hkwo, hppk, setRemove, keepMap, kwMap, kwPosFrom, bind, Except.bind, pure, Except.pure]
          grind
    · simp [hk, hu, hkept, hkwo, hppk, setRemove, keepMap, kwMap, kwPosFrom, bind, Except.bind, pure, Except.pure]
      have hfl : List.filter (fun x => !decide (x = p.name)) toUse = toUse := by
        have := filter_ne_of_not_mem hu
        simpa using this
      rw [hfl]
      by_cases hv : p.kind = .vk <;> simp [hv] <;> grind

theorem prepStep_err {P W : List Nat} {st : PrepState} {i : Nat} {p : Param} {e : Err}
    (h : prepStep P W st i p = .error e) :
    e = .valueError ∨ (p.kind = .pk ∧ (p.name ∈ P ∨ p.name ∈ W) ∧ p.name ∉ st.toUse) := by
  unfold prepStep at h
  by_cases hk : p.kind = .pk
  · by_cases hP : p.name ∈ P
    · by_cases hf : st.foundPok = true
      · simp [hk, hP, hf] at h; exact Or.inl h.symm
      · by_cases hu : p.name ∈ st.toUse
        · simp [hk, hP, hf, hu, setRemove, bind, Except.bind, pure, Except.pure] at h
        · exact Or.inr ⟨hk, Or.inl hP, hu⟩
    · by_cases hW : p.name ∈ W
      · by_cases hu : p.name ∈ st.toUse
        · simp [hk, hP, hW, hu, setRemove, bind, Except.bind, pure, Except.pure] at h
        · exact Or.inr ⟨hk, Or.inr hW, hu⟩
      · simp [hk, hP, hW, pure, Except.pure] at h
  · left
    by_cases hu : p.name ∈ st.toUse
    · simp [hk, hu, setRemove, bind, Except.bind, pure, Except.pure] at h
      split at h
      · rename_i heq
        cases h
        split at heq
        · cases heq
        · split at heq
          · cases heq
          · cases heq; rfl
      · revert h; split <;> simp
    · simp [hk, hu, setRemove, bind, Except.bind, pure, Except.pure] at h

def loopRes (P W : List Nat) : PrepState → Nat → List Param → PrepState
  | st, _, [] => st
  | st, i, p :: ps => loopRes P W (stepRes P W st i p) (i + 1) ps

def loopCond (P W : List Nat) : PrepState → Nat → List Param → Prop
  | _, _, [] => True
  | st, i, p :: ps => stepCond P W st p ∧ loopCond P W (stepRes P W st i p) (i + 1) ps

theorem prepLoop_ok_iff {P W : List Nat} {st st' : PrepState} {i : Nat} {ps : List Param} :
    prepLoop P W st i ps = .ok st' ↔ loopCond P W st i ps ∧ st' = loopRes P W st i ps := by
  induction ps generalizing st i with
  | nil => simp [prepLoop, loopCond, loopRes, eq_comm]
  | cons p ps ih =>
    simp only [prepLoop, loopCond, loopRes, bind, Except.bind]
    cases hs : prepStep P W st i p with
    | error e =>
      simp only
      constructor
      · intro h; cases h
      · rintro ⟨⟨hc, -⟩, -⟩
        have := (prepStep_ok_iff (st1 := stepRes P W st i p)).2 ⟨hc, rfl⟩
        rw [hs] at this; cases this
    | ok st1 =>
      simp only
      obtain ⟨hc, rfl⟩ := prepStep_ok_iff.1 hs
      rw [ih]
      simp [hc]

theorem kwMap_append (P W : List Nat) (a b : List Param) :
    kwMap P W (a ++ b) = kwMap P W a ++ kwMap P W b := by simp [kwMap]
theorem keepMap_append (P W : List Nat) (a b : List Param) :
    keepMap P W (a ++ b) = keepMap P W a ++ keepMap P W b := by simp [keepMap]
theorem kwMap_cons (P W : List Nat) (p : Param) (ps : List Param) :
    kwMap P W (p :: ps) = kwMap P W [p] ++ kwMap P W ps := by
  rw [← kwMap_append]; rfl
theorem keepMap_cons (P W : List Nat) (p : Param) (ps : List Param) :
    keepMap P W (p :: ps) = keepMap P W [p] ++ keepMap P W ps := by
  rw [← keepMap_append]; rfl
theorem kwPosFrom_cons (P W : List Nat) (i : Nat) (p : Param) (ps : List Param) :
    kwPosFrom P W i (p :: ps) = kwPosFrom P W i [p] ++ kwPosFrom P W (i + 1) ps := by
  simp only [kwPosFrom]; split <;> simp
theorem kwPosFrom_append (P W : List Nat) (i : Nat) (a b : List Param) :
    kwPosFrom P W i (a ++ b) = kwPosFrom P W i a ++ kwPosFrom P W (i + a.length) b := by
  induction a generalizing i with
  | nil => simp [kwPosFrom]
  | cons p a ih =>
    simp only [List.cons_append, kwPosFrom, ih, List.length_cons]
    have : i + 1 + a.length = i + (a.length + 1) := by omega
    split <;> simp [this]

variable {P W : List Nat}

theorem loopRes_append (st : PrepState) (i : Nat) (a b : List Param) :
    loopRes P W st i (a ++ b) = loopRes P W (loopRes P W st i a) (i + a.length) b := by
  induction a generalizing st i with
  | nil => simp [loopRes]
  | cons p a ih =>
    simp only [List.cons_append, loopRes, ih, List.length_cons]
    have : i + 1 + a.length = i + (a.length + 1) := by omega
    rw [this]

theorem loopRes_kwoparams (st : PrepState) (i : Nat) (ps : List Param) :
    (loopRes P W st i ps).kwoparams = st.kwoparams ++ kwMap P W ps := by
  induction ps generalizing st i with
  | nil => simp [loopRes, kwMap]
  | cons p ps ih => rw [loopRes, ih, kwMap_cons]; simp [stepRes]

theorem loopRes_kwopos (st : PrepState) (i : Nat) (ps : List Param) :
    (loopRes P W st i ps).kwopos = st.kwopos ++ kwPosFrom P W i ps := by
  induction ps generalizing st i with
  | nil => simp [loopRes, kwPosFrom]
  | cons p ps ih => rw [loopRes, ih, kwPosFrom_cons]; simp [stepRes]

theorem loopRes_foundPok (st : PrepState) (i : Nat) (ps : List Param) :
    (loopRes P W st i ps).foundPok = (st.foundPok || ps.any (isKept P W)) := by
  induction ps generalizing st i with
  | nil => simp [loopRes]
  | cons p ps ih => rw [loopRes, ih]; simp [stepRes, Bool.or_assoc]

theorem loopRes_foundKws (st : PrepState) (i : Nat) (ps : List Param) :
    (loopRes P W st i ps).foundKws = (st.foundKws || hasVk ps) := by
  induction ps generalizing st i with
  | nil => simp [loopRes, hasVk]
  | cons p ps ih => rw [loopRes, ih]; simp [stepRes, hasVk, Bool.or_assoc]

theorem loopRes_params_novk (st : PrepState) (i : Nat) (ps : List Param)
    (h : ∀ p ∈ ps, p.kind ≠ .vk) :
    (loopRes P W st i ps).params = st.params ++ keepMap P W ps := by
  induction ps generalizing st i with
  | nil => simp [loopRes, keepMap]
  | cons p ps ih =>
    rw [loopRes, ih _ _ (fun q hq => h q (by simp [hq])), keepMap_cons]
    have := h p (by simp)
    simp [stepRes, this]

theorem loopRes_toUse (st : PrepState) (i : Nat) (ps : List Param) (x : Nat) :
    x ∈ (loopRes P W st i ps).toUse ↔
      x ∈ st.toUse ∧ ∀ p ∈ ps, p.name = x → isKept P W p = true := by
  induction ps generalizing st i with
  | nil => simp [loopRes]
  | cons p ps ih =>
    rw [loopRes, ih]
    simp only [stepRes, List.forall_mem_cons]
    by_cases hk : isKept P W p = true
    · simp [hk]
    · simp [hk]
      grind

def LoopSpec (P W : List Nat) (st : PrepState) (ps : List Param) : Prop :=
  (st.foundPok = true → ∀ q ∈ ps, isPpk P q = false) ∧
  ps.Pairwise (fun p q => isKept P W p = true → isPpk P q = false) ∧
  (∀ p ∈ ps, p.kind = .pk → (p.name ∈ P ∨ p.name ∈ W) → p.name ∈ st.toUse) ∧
  (∀ p ∈ ps, p.kind ≠ .pk → p.name ∈ st.toUse →
    (p.kind = .po ∧ p.name ∈ P) ∨ (p.kind = .ko ∧ p.name ∈ W))

theorem loopCond_iff (st : PrepState) (i : Nat) (ps : List Param) (hn : NamesDistinct ps) :
    loopCond P W st i ps ↔ LoopSpec P W st ps := by
  induction ps generalizing st i with
  | nil => simp [loopCond, LoopSpec]
  | cons p ps ih =>
    simp only [NamesDistinct, List.pairwise_cons] at hn
    rw [loopCond, ih _ _ hn.2]
    simp only [LoopSpec, stepCond, List.forall_mem_cons, List.pairwise_cons, stepRes]
    have key : ∀ q ∈ ps, (q.name ∈ (if isKept P W p = true then st.toUse
        else st.toUse.filter (· ≠ p.name)) ↔ q.name ∈ st.toUse) := by
      intro q hq
      have := hn.1 q hq
      split
      · rfl
      · simp; intro _; exact fun h => this h.symm
    constructor
    · rintro ⟨⟨a1, a2, a3⟩, b1, b2, b3, b4⟩
      refine ⟨fun hf => ⟨?_, fun q hq => b1 (by simp [hf]) q hq⟩, ⟨fun q hq hk => b1 (by simp [hk]) q hq, b2⟩,
        ⟨by simpa using a2, fun q hq h1 h2 => (key q hq).1 (b3 q hq h1 h2)⟩,
        ⟨by simpa using a3, fun q hq h1 h2 => b4 q hq h1 ((key q hq).2 h2)⟩⟩
      cases hpp : isPpk P p
      · rfl
      · have := a1 hpp; simp [hf] at this
    · rintro ⟨c1, ⟨c2, c2'⟩, ⟨c3, c3'⟩, c4, c4'⟩
      refine ⟨⟨fun hpp => ?_, by simpa using c3, by simpa using c4⟩, fun hf q hq => ?_, c2',
        fun q hq h1 h2 => (key q hq).2 (c3' q hq h1 h2), fun q hq h1 h2 => c4' q hq h1 ((key q hq).1 h2)⟩
      · cases hf : st.foundPok
        · rfl
        · have := (c1 hf).1; simp [hpp] at this
      · simp at hf
        rcases hf with hf | hf
        · exact (c1 hf).2 q hq
        · exact c2 q hq hf

theorem prepLoop_err (st : PrepState) (i : Nat) (ps : List Param) (e : Err)
    (hn : NamesDistinct ps)
    (hu : ∀ p ∈ ps, p.kind = .pk → (p.name ∈ P ∨ p.name ∈ W) → p.name ∈ st.toUse)
    (h : prepLoop P W st i ps = .error e) : e = .valueError := by
  induction ps generalizing st i with
  | nil => simp [prepLoop] at h
  | cons p ps ih =>
    simp only [NamesDistinct, List.pairwise_cons] at hn
    simp only [prepLoop, bind, Except.bind] at h
    cases hs : prepStep P W st i p with
    | error e' =>
      rw [hs] at h; simp only at h; cases h
      rcases prepStep_err hs with h1 | ⟨h1, h2, h3⟩
      · exact h1
      · exact absurd (hu p (by simp) h1 h2) h3
    | ok st1 =>
      rw [hs] at h; simp only at h
      obtain ⟨-, rfl⟩ := prepStep_ok_iff.1 hs
      refine ih _ _ hn.2 (fun q hq h1 h2 => ?_) h
      have := hu q (by simp [hq]) h1 h2
      have hne := hn.1 q hq
      simp only [stepRes]
      split
      · exact this
      · simp; exact ⟨this, fun h => hne h.symm⟩

theorem mem_dedup (l : List Nat) (x : Nat) : x ∈ dedup l ↔ x ∈ l := by
  unfold dedup
  suffices h : ∀ acc : List Nat, x ∈ l.foldl (fun acc x => if acc.contains x then acc else acc ++ [x]) acc ↔
      x ∈ acc ∨ x ∈ l by simpa using h []
  induction l with
  | nil => simp
  | cons a l ih =>
    intro acc
    rw [List.foldl_cons, ih]
    by_cases h : acc.contains a = true
    · simp [h]; simp at h; grind
    · simp [h]; grind

def st0 (P W : List Nat) : PrepState := { toUse := dedup (P ++ W) }

def finalParams (st : PrepState) : List Param :=
  if st.foundKws then st.params else st.params ++ st.kwoparams

theorem prepare_eq (F : List Param) (P W : List Nat) :
    prepare F P W =
      if P.any (fun x => W.contains x) then .error .valueError else
      match prepLoop P W (st0 P W) 0 F with
      | .error e => .error e
      | .ok st =>
        if !st.toUse.isEmpty then .error .valueError else
        match validate (finalParams st) with
        | .error e => .error e
        | .ok _ => .ok (finalParams st, st.kwopos) := by
  unfold prepare st0 finalParams
  simp only [bind, Except.bind, pure, Except.pure]
  split
  · rfl
  · cases prepLoop P W { toUse := dedup (P ++ W) } 0 F with
    | error e => rfl
    | ok st =>
      simp only
      split
      · rfl
      · cases validate (if st.foundKws = true then st.params else st.params ++ st.kwoparams) <;> rfl

theorem rankSorted_split_C12 (k : Nat) (l : List Param) (h : RankSorted_C12 l) :
    l.filter (fun p => p.kind.rank ≤ k) ++ l.filter (fun p => k < p.kind.rank) = l := by
  induction l with
  | nil => simp
  | cons a l ih =>
    simp only [RankSorted_C12, List.pairwise_cons] at h
    by_cases ha : a.kind.rank ≤ k
    · have : ¬ k < a.kind.rank := by omega
      simp [List.filter_cons, ha, this]
      exact ih h.2
    · have h1 : l.filter (fun p => p.kind.rank ≤ k) = [] := by
        rw [List.filter_eq_nil_iff]; intro b hb; have := h.1 b hb; simp; omega
      have h2 : l.filter (fun p => k < p.kind.rank) = l := by
        rw [List.filter_eq_self]; intro b hb; have := h.1 b hb; simp; omega
      have : k < a.kind.rank := by omega
      simp [List.filter_cons, ha, this, h1, h2]

theorem RankSorted_C12.filter {l : List Param} (h : RankSorted_C12 l) (q : Param → Bool) :
    RankSorted_C12 (l.filter q) := List.Pairwise.filter q h

theorem split_vk (l : List Param) (h : RankSorted_C12 l) :
    l.filter (fun p => p.kind ≠ .vk) ++ l.filter (fun p => p.kind = .vk) = l := by
  have := rankSorted_split_C12 3 l h
  have e1 : (fun p : Param => decide (p.kind.rank ≤ 3)) = (fun p => decide (p.kind ≠ .vk)) := by
    funext p; cases p.kind <;> simp [Kind.rank]
  have e2 : (fun p : Param => decide (3 < p.kind.rank)) = (fun p => decide (p.kind = .vk)) := by
    funext p; cases p.kind <;> simp [Kind.rank]
  rw [e1, e2] at this
  exact this

/-- closed form of the advertised parameter list as the loop computes it -/
def advParams (P W : List Nat) (F : List Param) : List Param :=
  keepMap P W (F.filter (fun p => p.kind ≠ .vk)) ++ kwMap P W F ++ F.filter (fun p => p.kind = .vk)

theorem kwMap_of_not_pk (l : List Param) (h : ∀ p ∈ l, p.kind ≠ .pk) : kwMap P W l = [] := by
  simp only [kwMap, List.map_eq_nil_iff, List.filter_eq_nil_iff]
  intro p hp; simp [isKwo, h p hp]

theorem keepMap_of_not_pk (l : List Param) (h : ∀ p ∈ l, p.kind ≠ .pk) : keepMap P W l = l := by
  simp only [keepMap]
  rw [List.filter_eq_self.2 (by intro p hp; simp [isKwo, h p hp])]
  conv => rhs; rw [← List.map_id l]
  apply List.map_congr_left
  intro p hp; simp [isPpk, h p hp]

theorem finalParams_loopRes (F : List Param) (hs : RankSorted_C12 F)
    (hv : (F.filter (fun p => p.kind = .vk)).length ≤ 1) :
    finalParams (loopRes P W (st0 P W) 0 F) = advParams P W F := by
  have hsplit := split_vk F hs
  generalize hb : F.filter (fun p => p.kind ≠ .vk) = body at hsplit
  generalize hvk : F.filter (fun p => p.kind = .vk) = vks at hsplit hv
  have hbody : ∀ p ∈ body, p.kind ≠ .vk := by
    intro p hp; rw [← hb] at hp; simpa using (List.mem_filter.1 hp).2
  have hvks : ∀ p ∈ vks, p.kind = .vk := by
    intro p hp; rw [← hvk] at hp; simpa using (List.mem_filter.1 hp).2
  unfold advParams
  rw [hb, hvk]
  rw [← hsplit, loopRes_append, kwMap_append,
    kwMap_of_not_pk vks (fun p hp => by rw [hvks p hp]; decide)]
  match vks, hv, hvks with
  | [], _, _ =>
    simp only [loopRes, finalParams, loopRes_foundKws, loopRes_params_novk _ _ _ hbody,
      loopRes_kwoparams]
    have : hasVk body = false := by
      simp only [hasVk, List.any_eq_false]; intro p hp; simpa using hbody p hp
    simp [this, st0]
  | [v], _, hvks =>
    have hv := hvks v (by simp)
    simp only [loopRes, finalParams, stepRes, loopRes_foundKws, loopRes_params_novk _ _ _ hbody,
      loopRes_kwoparams, hv]
    have : keepMap P W [v] = [v] := keepMap_of_not_pk [v] (by simp [hv])
    simp [st0, this]
  | _ :: _ :: _, hv, _ => simp at hv

theorem withKind_self (p : Param) (k : Kind) (h : p.kind = k) : p.withKind k = p := by
  cases p; simp_all [Param.withKind]

theorem split_three (F : List Param) (hs : RankSorted_C12 F) :
    F.filter (fun p => p.kind ≠ .vk) =
      F.filter (fun p => p.kind = .po || p.kind = .pk) ++ F.filter (fun p => p.kind = .vp) ++
        F.filter (fun p => p.kind = .ko) := by
  have h1 := rankSorted_split_C12 1 _ (hs.filter (fun p => p.kind ≠ .vk))
  have h2 := rankSorted_split_C12 2 _ ((hs.filter (fun p => p.kind ≠ .vk)).filter (fun p => 1 < p.kind.rank))
  rw [← h1]
  conv => lhs; rw [← h2]
  simp only [List.filter_filter, List.append_assoc]
  have e1 : (fun p : Param => decide (p.kind.rank ≤ 1) && decide (p.kind ≠ .vk)) =
      (fun p => decide (p.kind = .po) || decide (p.kind = .pk)) := by
    funext p; cases p.kind <;> simp [Kind.rank]
  have e2 : (fun p : Param => decide (p.kind.rank ≤ 2) && (decide (1 < p.kind.rank) && decide (p.kind ≠ .vk))) =
      (fun p => decide (p.kind = .vp)) := by
    funext p; cases p.kind <;> simp [Kind.rank]
  have e3 : (fun p : Param => decide (2 < p.kind.rank) && (decide (1 < p.kind.rank) && decide (p.kind ≠ .vk))) =
      (fun p => decide (p.kind = .ko)) := by
    funext p; cases p.kind <;> simp [Kind.rank]
  rw [e1, e2, e3]

/-- copy of `pokSpec` (defined in the Props file, which imports this one); `rfl`-equal -/
def pokSpec' (F : List Param) (P W : List Nat) : List Param :=
  (F.filter (fun p => (p.kind = .po || p.kind = .pk) && !W.contains p.name)).map
      (fun p => if P.contains p.name then p.withKind .po else p)
  ++ F.filter (fun p => p.kind = .vp)
  ++ F.filter (fun p => p.kind = .ko)
  ++ (F.filter (fun p => p.kind = .pk && W.contains p.name)).map (·.withKind .ko)
  ++ F.filter (fun p => p.kind = .vk)

theorem advParams_eq_pokSpec (F : List Param) (hs : RankSorted_C12 F)
    (hd : ∀ x ∈ P, x ∉ W) (hpo : ∀ p ∈ F, p.kind = .po → p.name ∉ W) :
    advParams P W F = pokSpec' F P W := by
  unfold advParams pokSpec'
  rw [split_three F hs, keepMap_append, keepMap_append,
    keepMap_of_not_pk (F.filter (fun p => p.kind = .vp)) (by
      intro p hp; have := (List.mem_filter.1 hp).2; simp at this; rw [this]; decide),
    keepMap_of_not_pk (F.filter (fun p => p.kind = .ko)) (by
      intro p hp; have := (List.mem_filter.1 hp).2; simp at this; rw [this]; decide)]
  have h1 : keepMap P W (F.filter (fun p => p.kind = .po || p.kind = .pk)) =
      (F.filter (fun p => (p.kind = .po || p.kind = .pk) && !W.contains p.name)).map
        (fun p => if P.contains p.name then p.withKind .po else p) := by
    unfold keepMap
    rw [List.filter_filter]
    have : F.filter (fun p => (!isKwo P W p) && (decide (p.kind = .po) || decide (p.kind = .pk))) =
        F.filter (fun p => (decide (p.kind = .po) || decide (p.kind = .pk)) && !W.contains p.name) := by
      apply List.filter_congr
      intro p hp
      have h1 := hpo p hp
      by_cases hw : p.name ∈ W
      · have : p.name ∉ P := fun h => hd _ h hw
        cases hk : p.kind <;> simp_all [isKwo]
      · simp [isKwo, hw, Bool.and_comm]
    rw [this]
    apply List.map_congr_left
    intro p hp
    have := (List.mem_filter.1 hp).2
    simp only [isPpk]
    by_cases hP : p.name ∈ P
    · by_cases hk : p.kind = .pk
      · simp [hP, hk]
      · have hk' : p.kind = .po := by simp [hk] at this; exact this.1
        simp [hP, hk', withKind_self p .po hk']
    · simp [hP]
  have h2 : kwMap P W F = (F.filter (fun p => p.kind = .pk && W.contains p.name)).map (·.withKind .ko) := by
    unfold kwMap
    congr 1
    apply List.filter_congr
    intro p hp
    by_cases hw : p.name ∈ W
    · have : p.name ∉ P := fun h => hd _ h hw
      simp [isKwo, hw, this]
    · simp [isKwo, hw]
  rw [h1, h2]

/-- copy of `admissible` (defined in the Props file); `Iff.rfl`-equal -/
def admissible' (F : List Param) (P W : List Nat) : Prop :=
  (∀ x ∈ P, x ∉ W) ∧
  (∀ x ∈ P, ∃ p ∈ F, p.name = x ∧ (p.kind = .po ∨ p.kind = .pk)) ∧
  (∀ x ∈ W, ∃ p ∈ F, p.name = x ∧ (p.kind = .pk ∨ p.kind = .ko)) ∧
  (∀ (i j : Nat) (p q : Param), i < j → F[i]? = some p → F[j]? = some q →
      p.kind = .pk → p.name ∉ P → p.name ∉ W → q.kind = .pk → q.name ∉ P)

theorem NamesDistinct.eq_of_name {F : List Param} (hn : NamesDistinct F) {p q : Param}
    (hp : p ∈ F) (hq : q ∈ F) (h : p.name = q.name) : p = q := by
  induction F with
  | nil => simp at hp
  | cons a F ih =>
    simp only [NamesDistinct, List.pairwise_cons] at hn
    rcases List.mem_cons.1 hp with rfl | hp' <;> rcases List.mem_cons.1 hq with rfl | hq'
    · rfl
    · exact absurd h (hn.1 q hq')
    · exact absurd h.symm (hn.1 p hp')
    · exact ih hn.2 hp' hq'

theorem admissible_iff (F : List Param) (hn : NamesDistinct F) (hd : ∀ x ∈ P, x ∉ W) :
    (LoopSpec P W (st0 P W) F ∧ (loopRes P W (st0 P W) 0 F).toUse = []) ↔ admissible' F P W := by
  have hempty : (loopRes P W (st0 P W) 0 F).toUse = [] ↔ ∀ x, (x ∈ P ∨ x ∈ W) → ∃ p ∈ F, p.name = x := by
    rw [List.eq_nil_iff_forall_not_mem]
    constructor
    · intro h x hx
      apply Classical.byContradiction
      intro hne
      apply h x
      rw [loopRes_toUse]
      refine ⟨by simpa [st0, mem_dedup] using hx, fun p hp hpn => absurd ⟨p, hp, hpn⟩ hne⟩
    · intro h x hmem
      rw [loopRes_toUse] at hmem
      obtain ⟨hx, hall⟩ := hmem
      have hx : x ∈ P ∨ x ∈ W := by simpa [st0, mem_dedup] using hx
      obtain ⟨p, hp, hpn⟩ := h x hx
      have := hall p hp hpn
      subst hpn
      rcases hx with hx | hx <;> simp [isKept, hx] at this
  rw [hempty]
  simp only [LoopSpec, st0, mem_dedup, List.mem_append, admissible']
  constructor
  · rintro ⟨⟨-, h2, -, h4⟩, h5⟩
    refine ⟨hd, fun x hx => ?_, fun x hx => ?_, ?_⟩
    · obtain ⟨p, hp, rfl⟩ := h5 x (Or.inl hx)
      refine ⟨p, hp, rfl, ?_⟩
      by_cases hk : p.kind = .pk
      · exact Or.inr hk
      · rcases h4 p hp hk (Or.inl hx) with h | h
        · exact Or.inl h.1
        · exact absurd h.2 (hd _ hx)
    · obtain ⟨p, hp, rfl⟩ := h5 x (Or.inr hx)
      refine ⟨p, hp, rfl, ?_⟩
      by_cases hk : p.kind = .pk
      · exact Or.inl hk
      · rcases h4 p hp hk (Or.inr hx) with h | h
        · exact absurd hx (hd _ h.2)
        · exact Or.inr h.1
    · intro i j p q hij hi hj hpk hpP hpW hqk hqP
      rw [List.pairwise_iff_getElem] at h2
      obtain ⟨hi', rfl⟩ := List.getElem?_eq_some_iff.1 hi
      obtain ⟨hj', rfl⟩ := List.getElem?_eq_some_iff.1 hj
      have := h2 i j hi' hj' hij (by simp [isKept, hpk, hpP, hpW])
      simp [isPpk, hqk, hqP] at this
  · rintro ⟨-, c2, c3, c4⟩
    refine ⟨⟨by simp, ?_, fun p hp hk h => h, fun p hp hk hx => ?_⟩, fun x hx => ?_⟩
    · rw [List.pairwise_iff_getElem]
      intro i j hi hj hij hkept
      simp only [isKept, Bool.and_eq_true, decide_eq_true_eq, Bool.not_eq_true',
        List.contains_eq_mem, decide_eq_false_iff_not] at hkept
      cases hpp : isPpk P F[j]
      · rfl
      · simp only [isPpk, Bool.and_eq_true, decide_eq_true_eq, List.contains_eq_mem] at hpp
        exact absurd hpp.2 (c4 i j F[i] F[j] hij (List.getElem?_eq_getElem hi) (List.getElem?_eq_getElem hj)
          hkept.1.1 hkept.1.2 hkept.2 hpp.1)
    · rcases hx with hx | hx
      · obtain ⟨q, hq, hqn, hqk⟩ := c2 _ hx
        have := hn.eq_of_name hq hp hqn
        subst this
        rcases hqk with h | h
        · exact Or.inl ⟨h, hx⟩
        · exact absurd h hk
      · obtain ⟨q, hq, hqn, hqk⟩ := c3 _ hx
        have := hn.eq_of_name hq hp hqn
        subst this
        rcases hqk with h | h
        · exact absurd h hk
        · exact Or.inr ⟨h, hx⟩
    · rcases hx with hx | hx
      · obtain ⟨q, hq, hqn, -⟩ := c2 _ hx; exact ⟨q, hq, hqn⟩
      · obtain ⟨q, hq, hqn, -⟩ := c3 _ hx; exact ⟨q, hq, hqn⟩

end SV
