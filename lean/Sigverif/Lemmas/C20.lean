/-
  Lemmas/C20.lean — helper lemmas for property C20 (support helpers).
-/
import Sigverif.Props.Defs
import Sigverif.Model.Support
namespace SV

/-! ### consequences of `WF` -/

/-- kinds are sorted by rank -/
def RankSorted (s : List Param) : Prop := s.Pairwise (fun a b => a.kind.rank ≤ b.kind.rank)

theorem validateGo_ok {top : Nat} {seenD : Bool} {seen : List Nat} {ps : List Param}
    (h : validateGo top seenD seen ps = .ok ()) :
    (∀ p ∈ ps, top ≤ p.kind.rank) ∧ RankSorted ps ∧
    (ps.map (·.name)).Nodup ∧ (∀ p ∈ ps, p.name ∉ seen) := by
  induction ps generalizing top seenD seen with
  | nil => simp [RankSorted]
  | cons p ps ih =>
    unfold validateGo at h
    split at h
    · cases h
    simp only [] at h
    split at h
    · cases h
    split at h
    · cases h
    rename_i h1 h2 h3
    obtain ⟨a, b, c, d⟩ := ih h
    have htop : top ≤ p.kind.rank := by omega
    have hge : ∀ q ∈ ps, p.kind.rank ≤ q.kind.rank := by
      intro q hq
      have := a q hq
      split at this <;> omega
    refine ⟨?_, ?_, ?_, ?_⟩
    · intro q hq
      rcases List.mem_cons.1 hq with rfl | hq
      · exact htop
      · exact Nat.le_trans htop (hge q hq)
    · exact List.pairwise_cons.2 ⟨hge, b⟩
    · simp only [List.map_cons, List.nodup_cons]
      refine ⟨?_, c⟩
      intro hm
      obtain ⟨q, hq, hqn⟩ := List.mem_map.1 hm
      have := d q hq
      simp [hqn] at this
    · intro q hq
      rcases List.mem_cons.1 hq with rfl | hq
      · simpa using h3
      · have := d q hq
        simp at this
        exact this.2

theorem WF.rankSorted {s : List Param} (h : WF s) : RankSorted s := by
  have := h.1
  unfold validOk validate at this
  split at this
  · rename_i u hu
    cases u
    exact (validateGo_ok hu).2.1
  · cases this

theorem WF.nodup {s : List Param} (h : WF s) : (s.map (·.name)).Nodup := by
  have := h.1
  unfold validOk validate at this
  split at this
  · rename_i u hu
    cases u
    exact (validateGo_ok hu).2.2.1
  · cases this

/-! ### unique names -/

theorem eq_of_name_eq {s : List Param} (hn : (s.map (·.name)).Nodup) {p q : Param}
    (hp : p ∈ s) (hq : q ∈ s) (h : p.name = q.name) : p = q := by
  induction s with
  | nil => cases hp
  | cons a t ih =>
    simp only [List.map_cons, List.nodup_cons] at hn
    rcases List.mem_cons.1 hp with hpa | hp' <;> rcases List.mem_cons.1 hq with hqa | hq'
    · rw [hpa, hqa]
    · subst hpa; exact (hn.1 (List.mem_map.2 ⟨q, hq', h.symm⟩)).elim
    · subst hqa; exact (hn.1 (List.mem_map.2 ⟨p, hp', h⟩)).elim
    · exact ih hn.2 hp' hq'

theorem mem_kwNames {s : List Param} {k : Nat} :
    k ∈ kwNames s ↔ ∃ p ∈ s, (p.kind = .pk ∨ p.kind = .ko) ∧ p.name = k := by
  simp [kwNames, kwPassable, and_assoc]

theorem hasVk_eq_find (s : List Param) : (s.find? (fun p => p.kind = .vk)).isSome = hasVk s := by
  rw [Bool.eq_iff_iff]; simp [hasVk]

/-! ### positional phase -/

theorem bindPos_nil_args (ps : List Param) (acc : List (Nat × Nat)) : bindPos ps [] acc = (acc, []) := by
  cases ps <;> simp [bindPos]

theorem bindPos_nil_params (as : List Nat) (acc : List (Nat × Nat)) : bindPos [] as acc = (acc, as) := by
  simp [bindPos]

theorem positionals_eq_nil_of_rank {s : List Param} (h : ∀ q ∈ s, 2 ≤ q.kind.rank) : positionals s = [] := by
  unfold positionals
  rw [List.filter_eq_nil_iff]
  intro q hq
  have := h q hq
  unfold isPositional
  cases hk : q.kind <;> simp [hk, Kind.rank] at this ⊢

theorem bcsPos_eq (s : List Param) (hs : RankSorted s) (args : List Nat) (acc : List (Nat × Nat)) :
    bcsPos s args acc =
      (if (bindPos (positionals s) args acc).2 = [] then
         some ((bindPos (positionals s) args acc).1, none)
       else match s.find? (fun p => p.kind = .vp) with
         | some p => some ((bindPos (positionals s) args acc).1,
                           some (p.name, (bindPos (positionals s) args acc).2))
         | none => none) := by
  induction s generalizing args acc with
  | nil =>
    cases args with
    | nil => simp [bcsPos, positionals, bindPos]
    | cons a as => simp [bcsPos, positionals, bindPos]
  | cons p ps ih =>
    cases args with
    | nil => simp [bcsPos, bindPos_nil_args]
    | cons a as =>
      have hps : RankSorted ps := (List.pairwise_cons.1 hs).2
      have hge := (List.pairwise_cons.1 hs).1
      unfold bcsPos
      split
      · rename_i hpos
        have hpp : positionals (p :: ps) = p :: positionals ps := by
          unfold positionals; rw [List.filter_cons_of_pos]; simpa [isPositional] using hpos
        have hf : (p :: ps).find? (fun p => p.kind = .vp) = ps.find? (fun p => p.kind = .vp) := by
          rw [List.find?_cons_of_neg]
          rcases (by simpa using hpos : p.kind = .po ∨ p.kind = .pk) with h | h <;> simp [h]
        rw [hpp, hf, ih hps]
        simp only [bindPos]
        rfl
      · rename_i hpos
        have hnil : positionals (p :: ps) = [] := by
          apply positionals_eq_nil_of_rank
          intro q hq
          rcases List.mem_cons.1 hq with rfl | hq
          · cases hk : q.kind <;> simp [hk, Kind.rank] at hpos ⊢
          · have := hge q hq
            cases hk : p.kind <;> simp [hk, Kind.rank] at hpos this ⊢ <;> omega
        rw [hnil, bindPos_nil_params]
        split
        · rename_i hvp
          simp [hvp]
        · rename_i hvp
          have : (p :: ps).find? (fun p => p.kind = .vp) = none := by
            rw [List.find?_eq_none]
            intro q hq
            rcases List.mem_cons.1 hq with rfl | hq
            · simpa using hvp
            · have := hge q hq
              cases hk : p.kind <;> cases hk' : q.kind <;> simp [hk, hk', Kind.rank] at hpos hvp this ⊢
          simp [this]

/-! ### keyword phase -/

theorem bcsKw_eq (s : List Param) (hn : (s.map (·.name)).Nodup)
    (va : Option (Nat × List Nat)) (hva : ∀ x, va = some x → ∃ q ∈ s, q.kind = .vp ∧ q.name = x.1)
    (kwargs : List (Nat × Nat))
    (hvd : hasVk s = true → ∀ kv ∈ kwargs, ∀ p ∈ s, p.kind = .po → p.name ≠ kv.1)
    (assigned extra : List (Nat × Nat)) :
    bcsKw s (s.find? (fun p => p.kind = .vk)) kwargs assigned va extra
      = bindKws s (hasVk s) kwargs assigned extra := by
  induction kwargs generalizing assigned extra with
  | nil => simp [bcsKw, bindKws]
  | cons kv rest ih =>
    obtain ⟨k, v⟩ := kv
    have hvd' : hasVk s = true → ∀ kv ∈ rest, ∀ p ∈ s, p.kind = .po → p.name ≠ kv.1 :=
      fun h kv hkv => hvd h kv (List.mem_cons_of_mem _ hkv)
    have ih' := fun a e => ih hvd' a e
    unfold bcsKw bindKws
    simp only [hasVk_eq_find]
    cases hf : s.find? (fun p => p.name = k) with
    | none =>
      have hnk : ¬ k ∈ kwNames s := by
        rw [mem_kwNames]
        rintro ⟨p, hp, _, hpk⟩
        have := List.find?_eq_none.1 hf p hp
        simp [hpk] at this
      simp only [List.contains_iff_mem, hnk, if_false, ih']
    | some p =>
      have hps : p ∈ s := List.mem_of_find?_eq_some hf
      have hpk : p.name = k := by simpa using List.find?_some hf
      simp only []
      split
      · -- positional-only
        rename_i hpo
        have hnk : ¬ k ∈ kwNames s := by
          rw [mem_kwNames]
          rintro ⟨q, hq, hqk, hqn⟩
          have := eq_of_name_eq hn hq hps (hqn.trans hpk.symm)
          subst this
          rcases hqk with h | h <;> simp [h] at hpo
        have hnvk : hasVk s = false := by
          cases h : hasVk s with
          | false => rfl
          | true => exact absurd hpk (hvd h (k, v) List.mem_cons_self p hps hpo)
        simp [hnk, hnvk]
      · rename_i hpo
        split
        · rename_i hkk
          have hk : k ∈ kwNames s := mem_kwNames.2 ⟨p, hps, by simpa using hkk, hpk⟩
          have h1 : (va.map (·.1) = some k) = False := by
            apply eq_false
            intro h
            obtain ⟨x, hx, hxk⟩ := Option.map_eq_some_iff.1 h
            obtain ⟨q, hq, hqk, hqn⟩ := hva x hx
            have := eq_of_name_eq hn hq hps (by rw [hqn, hxk, hpk])
            subst this
            simp [hqk] at hkk
          have h2 : ((s.find? (fun p => p.kind = .vk)).map (·.name) = some k) = False := by
            apply eq_false
            intro h
            obtain ⟨q, hq, hqn⟩ := Option.map_eq_some_iff.1 h
            have hqs : q ∈ s := List.mem_of_find?_eq_some hq
            have hqk : q.kind = .vk := by simpa using List.find?_some hq
            have := eq_of_name_eq hn hqs hps (by rw [hqn, hpk])
            subst this
            simp [hqk] at hkk
          simp only [List.contains_iff_mem, hk, if_true, h1, h2, decide_false, Bool.or_false, ih']
        · rename_i hkk
          have hnk : ¬ k ∈ kwNames s := by
            rw [mem_kwNames]
            rintro ⟨q, hq, hqk, hqn⟩
            have := eq_of_name_eq hn hq hps (hqn.trans hpk.symm)
            subst this
            rcases hqk with h | h <;> simp [h] at hkk
          simp only [List.contains_iff_mem, hnk, if_false, ih']

/-! ### sort_callsigs -/

theorem foldl_partition {α β : Type} (g : α → Option β) (f : List β × List α → α → List β × List α)
    (hs : ∀ acc c b, g c = some b → f acc c = (acc.1 ++ [b], acc.2))
    (hn : ∀ acc c, g c = none → f acc c = (acc.1, acc.2 ++ [c]))
    (cs : List α) (acc : List β × List α) :
    cs.foldl f acc = (acc.1 ++ cs.filterMap g, acc.2 ++ cs.filter (fun c => (g c).isNone)) := by
  induction cs generalizing acc with
  | nil => simp
  | cons c cs ih =>
    rw [List.foldl_cons, ih]
    cases h : g c with
    | none => simp [hn acc c h, h]
    | some b => simp [hs acc c b h, h]

theorem sortCallsigs_eq (s : List Param) (cs : List (List Nat × List (Nat × Nat))) :
    sortCallsigs s cs =
      (cs.filterMap (fun c => (bindCallsig s c.1 c.2).map (fun b => (c.1, c.2, b))),
       cs.filter (fun c => (bindCallsig s c.1 c.2).isNone)) := by
  unfold sortCallsigs
  refine (foldl_partition (fun c => (bindCallsig s c.1 c.2).map (fun b => (c.1, c.2, b))) _ ?_ ?_
    cs ([], [])).trans ?_
  · intro acc c b h
    cases h' : bindCallsig s c.1 c.2 <;> simp [h'] at h ⊢
    exact h
  · intro acc c h
    cases h' : bindCallsig s c.1 c.2 <;> simp [h'] at h ⊢
  · simp

theorem filterMap_filter_length {α β : Type} (f : α → Option β) (l : List α) :
    (l.filterMap f).length + (l.filter (fun a => (f a).isNone)).length = l.length := by
  induction l with
  | nil => rfl
  | cons a l ih =>
    cases h : f a <;> simp [h] <;> omega

/-! ### make_up_callsigs -/

theorem mem_sublists {l K : List Nat} : K ∈ sublists l ↔ K.Sublist l := by
  induction l generalizing K with
  | nil => simp [sublists]
  | cons x xs ih =>
    simp only [sublists, List.mem_append, List.mem_map, ih]
    constructor
    · rintro (h | ⟨K', h, rfl⟩)
      · exact h.cons _
      · exact h.cons_cons _
    · intro h
      cases h with
      | cons _ h => exact Or.inl h
      | cons_cons _ h => exact Or.inr ⟨_, h, rfl⟩

theorem filter_isNamed_po (s : List Param) :
    (s.filter isNamed).filter (fun p => p.kind = .po) = s.filter (fun p => p.kind = .po) := by
  rw [List.filter_filter]
  congr 1
  funext p
  cases h : p.kind <;> simp [isNamed, h]

end SV
