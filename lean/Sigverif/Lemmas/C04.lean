/-
  Lemmas/C04.lean — forwards = embed ∘ mask: inversion, transfer of the non-collision hypothesis
  from the result to the masked inner signature, and the combination of `embed_sound` /
  `embed_exact` with `mask_exact`.
-/
import Sigverif.Props.C02
import Sigverif.Props.C03
namespace SV

/-! ### inversion of `forwards` -/

theorem forwards_false_eq (o i : USig) (n : Nat) (nms : List Nat) (ha hk uva uvk : Bool) :
    forwards o i n nms ha hk uva uvk false =
      (mask i n nms { args := ha, kwargs := hk } >>= fun m => embed uva uvk [o, m]) := rfl

theorem forwards_false_ok {o i R : USig} {n : Nat} {nms : List Nat} {ha hk uva uvk : Bool}
    (h : forwards o i n nms ha hk uva uvk false = .ok R) :
    ∃ M, mask i n nms { args := ha, kwargs := hk } = .ok M ∧ embed uva uvk [o, M] = .ok R := by
  rw [forwards_false_eq] at h
  cases hm : mask i n nms { args := ha, kwargs := hk } with
  | error e => rw [hm] at h; cases h
  | ok M => rw [hm] at h; exact ⟨M, rfl, h⟩

/-- the inner signature as `forwards(…, partial=True)` sees it -/
def partialParams (ps : List Param) : List Param :=
  ps.map (fun p => if p.kind = .vp || p.kind = .vk then p else p.withDflt (some 0))

theorem forwards_true_ok {o i R : USig} {n : Nat} {nms : List Nat} {ha hk uva uvk : Bool}
    (h : forwards o i n nms ha hk uva uvk true = .ok R) :
    validate (partialParams i.params) = .ok () ∧
    ∃ M, mask { i with params := partialParams i.params } n nms { args := ha, kwargs := hk } = .ok M ∧
      embed uva uvk [o, M] = .ok R := by
  unfold forwards at h
  simp only [if_true, bind, Except.bind, pure, Except.pure] at h
  have e : (List.map (fun p : Param =>
      if (decide (p.kind = Kind.vp) || decide (p.kind = Kind.vk)) = true then p
      else p.withDflt (some 0)) i.params) = partialParams i.params := rfl
  rw [e] at h
  cases hv : validate (partialParams i.params) with
  | error e => rw [hv] at h; cases h
  | ok u =>
    cases u
    rw [hv] at h
    simp only at h
    refine ⟨rfl, ?_⟩
    cases hm : mask { i with params := partialParams i.params } n nms { args := ha, kwargs := hk } with
    | error e => rw [hm] at h; cases h
    | ok M => rw [hm] at h; exact ⟨M, rfl, h⟩

/-! ### keyword-passable names of an embed result -/

theorem kwNames_all_C04 {S : Sorted} (h : BucketKinds S) : kwNames S.all = names (S.pok ++ S.kwo) := by
  unfold kwNames; rw [kwPassable_all _ h]; rfl

/-- the keyword-passable parameters of `embed [o, i]` are keyword-passable in `o` or in `i` -/
theorem embed_kwNames_subset {o i R : USig} {uva uvk : Bool} (ho : WF o.params) (hi : WF i.params)
    (hR : embed uva uvk [o, i] = .ok R) :
    ∀ x ∈ kwNames R.params, x ∈ kwNames o.params ∨ x ∈ kwNames i.params := by
  obtain ⟨i', r, hRr, hkr, M, T⟩ := embed_facts ho hi hR
  obtain ⟨hallO, hkO, _, _⟩ := sortParams_WF o ho
  obtain ⟨hallI, hkI, _, _⟩ := sortParams_WF i hi
  intro x hx
  rw [hRr, kwNames_all_C04 hkr] at hx
  rw [← hallO, ← hallI, kwNames_all_C04 hkO, kwNames_all_C04 hkI]
  rcases T.t2 x hx with h | h
  · exact .inl h
  · exact .inr (M.m2 x h).2

/-- every parameter name of a mask result is a parameter name of the input -/
theorem mask_names_subset {sig R : USig} {n : Nat} {nms : List Nat} {h : HideFlags}
    (hwf : WF sig.params) (hR : mask sig n nms h = .ok R) :
    ∀ x ∈ names R.params, x ∈ names sig.params := by
  intro x hx
  obtain ⟨p, hp, rfl⟩ := mem_names_C02.1 hx
  obtain ⟨q, hq, hqn, -⟩ := (mask_hide_removes sig R n nms h hwf hR).1 p hp
  rw [← hqn]
  exact mem_names_of_mem_C02 hq

/-! ### the core of C04 -/

/-- non-collision w.r.t. `[o, i]` gives non-collision w.r.t. `[o, mask i …]` -/
theorem nonColl_outer_masked {o i R M : USig} {n : Nat} {nms K : List Nat} {h : HideFlags}
    (hi : WF i.params) (hM : mask i n nms h = .ok M)
    (hnc : nonColl R.params [o.params, i.params] K) :
    nonColl R.params [o.params, M.params] K := by
  intro k hk
  rcases hnc k hk with h1 | h1
  · exact .inl h1
  · right
    intro s hs
    simp only [List.mem_cons, List.not_mem_nil, or_false] at hs
    rcases hs with rfl | rfl
    · exact h1 _ (by simp)
    · intro hc
      exact h1 i.params (by simp) (mask_names_subset hi hM k hc)

/-- the keywords that reach the inner call do not collide with the masked inner signature -/
theorem nonColl_masked {o i R M : USig} {n : Nat} {nms K : List Nat} {uva uvk : Bool}
    (ho : WF o.params) (hi : WF i.params)
    (hM : mask i n nms {} = .ok M) (hE : embed uva uvk [o, M] = .ok R)
    (hnc : nonColl R.params [o.params, i.params] K) :
    nonColl M.params [i.params]
      (if uvk then K.filter (fun k => !(kwNames o.params).contains k) else []) := by
  have hMwf := mask_wf i M n nms {} hi hM
  intro k hk
  split at hk
  · obtain ⟨hkK, hno⟩ := List.mem_filter.1 hk
    have hno' : k ∉ kwNames o.params := by simpa using hno
    rcases hnc k hkK with h1 | h1
    · rcases embed_kwNames_subset ho hMwf hE k h1 with h2 | h2
      · exact absurd h2 hno'
      · exact .inl h2
    · right
      intro s hs
      simp only [List.mem_cons, List.not_mem_nil, or_false] at hs
      subst hs
      exact h1 _ (by simp)
  · cases hk

/-- `composite` on the masked inner = the wrapper's execution model -/
theorem composite_masked {o i R M : USig} {n : Nat} {nms K : List Nat} {uva uvk : Bool} (m : Nat)
    (ho : WF o.params) (hi : WF i.params) (hn : nms.Nodup) (hK : K.Nodup)
    (hpo : ∀ p ∈ i.params, p.kind = .po → p.name ∉ nms)
    (hdisj : ∀ k ∈ K, k ∉ nms)
    (hM : mask i n nms {} = .ok M) (hE : embed uva uvk [o, M] = .ok R)
    (hnc : nonColl R.params [o.params, i.params] K) :
    composite o.params M.params uva uvk m K =
      (accepts o.params m K &&
       accepts i.params (n + (if uva then m - (positionals o.params).length else 0))
         (nms ++ (if uvk then K.filter (fun k => !(kwNames o.params).contains k) else []))) := by
  unfold composite
  congr 1
  have hK' : (if uvk then K.filter (fun k => !(kwNames o.params).contains k) else []).Nodup := by
    split
    · exact hK.sublist List.filter_sublist
    · exact List.nodup_nil
  have hdisj' : ∀ k ∈ (if uvk then K.filter (fun k => !(kwNames o.params).contains k) else []),
      k ∉ nms := by
    intro k hk
    split at hk
    · exact hdisj k (List.mem_filter.1 hk).1
    · cases hk
  exact mask_exact i M n _ nms _ hi hn hK' hpo hdisj' hM (nonColl_masked ho hi hM hE hnc)

end SV
