/-
  Lemmas/C12Trans.lean — functional characterisation of `translateLoop` over `kwPosFrom`.
-/
import Sigverif.Lemmas.C12Prep
import Sigverif.Lemmas.C12Bind
namespace SV
set_option linter.unusedSimpArgs false

/-- F's positional argument list rebuilt from A's: keyword-only slots are filled as long as
    original positional arguments remain -/
def fill (w : Param → Bool) (val : Param → Nat) : List Param → List Nat → List Nat
  | [], as => as
  | _ :: _, [] => []
  | f :: fs, a :: as => if w f then val f :: fill w val fs (a :: as) else a :: fill w val fs as

/-- the keyword-only parameters whose slot was filled positionally -/
def filledW (w : Param → Bool) : List Param → List Nat → List Param
  | [], _ => []
  | _ :: _, [] => []
  | f :: fs, a :: as => if w f then f :: filledW w fs (a :: as) else filledW w fs as

def valOf (kw : List (Nat × Nat)) (f : Param) : Nat := ((dget kw f.name).or f.dflt).getD 0

theorem fill_nil_args (w : Param → Bool) (val : Param → Nat) (ps : List Param) :
    fill w val ps [] = [] := by cases ps <;> simp [fill]

theorem filledW_nil_args (w : Param → Bool) (ps : List Param) : filledW w ps [] = [] := by
  cases ps <;> simp [filledW]

theorem fill_congr (w : Param → Bool) (val val' : Param → Nat) (ps : List Param) (args : List Nat)
    (h : ∀ f ∈ ps, val f = val' f) : fill w val ps args = fill w val' ps args := by
  induction ps generalizing args with
  | nil => simp [fill]
  | cons f fs ih =>
    cases args with
    | nil => simp [fill]
    | cons a as =>
      simp only [fill, h f (by simp)]
      rw [ih _ (fun g hg => h g (by simp [hg])), ih _ (fun g hg => h g (by simp [hg]))]

theorem mem_filledW {w : Param → Bool} {ps : List Param} {args : List Nat} {f : Param}
    (h : f ∈ filledW w ps args) : f ∈ ps ∧ w f = true := by
  induction ps generalizing args with
  | nil => simp [filledW] at h
  | cons g gs ih =>
    cases args with
    | nil => simp [filledW] at h
    | cons a as =>
      simp only [filledW] at h
      split at h
      · rcases List.mem_cons.1 h with rfl | h
        · simp [*]
        · have := ih h; simp [this]
      · have := ih h; simp [this]

theorem dget_dpop_ne (kw : List (Nat × Nat)) (y x : Nat) (h : y ≠ x) :
    dget (dpop kw y) x = dget kw x := by
  unfold dpop
  have := dget_filter_key kw (fun k => k ≠ y) x
  simp only [ne_eq, decide_not] at this ⊢
  rw [this]
  have : ¬ x = y := fun h' => h h'.symm
  simp [this]

theorem dget_dpop_none (kw : List (Nat × Nat)) (y x : Nat) (h : dget kw x = none) :
    dget (dpop kw y) x = none := by
  unfold dpop
  have := dget_filter_key kw (fun k => k ≠ y) x
  simp only [ne_eq, decide_not] at this ⊢
  rw [this, h]; simp

theorem mem_kwPosFrom {P W : List Nat} {i : Nat} {ps : List Param} {e : Nat × Param}
    (h : e ∈ kwPosFrom P W i ps) : i ≤ e.1 ∧ e.2 ∈ ps ∧ isKwo P W e.2 = true := by
  induction ps generalizing i with
  | nil => simp [kwPosFrom] at h
  | cons f fs ih =>
    simp only [kwPosFrom] at h
    split at h
    · rcases List.mem_cons.1 h with rfl | h
      · simp [*]
      · have := ih h; exact ⟨by omega, by simp [this.2.1], this.2.2⟩
    · have := ih h; exact ⟨by omega, by simp [this.2.1], this.2.2⟩

theorem translateLoop_nopos (kp : List (Nat × Param)) (args : List Nat) (kw : List (Nat × Nat))
    (h : ∀ e ∈ kp, args.length ≤ e.1)
    (hval : ∀ e ∈ kp, ((dget kw e.2.name).or e.2.dflt).isSome = true) :
    translateLoop kp args kw [] = (args, kw, []) := by
  induction kp with
  | nil => simp [translateLoop]
  | cons e t ih =>
    obtain ⟨pos, p⟩ := e
    have h1 : ¬ pos < args.length := by have := h (pos, p) (by simp); simp at this; omega
    have h2 := hval (pos, p) (by simp)
    have iht := ih (fun e he => h e (by simp [he])) (fun e he => hval e (by simp [he]))
    simp only [translateLoop]
    cases hg : dget kw p.name with
    | some v => simp [h1, iht]
    | none =>
      cases hd : p.dflt with
      | none => simp [hg, hd] at h2
      | some d => simp [h1, iht]

theorem translateLoop_missing_mono (kp : List (Nat × Param)) (args : List Nat)
    (kw : List (Nat × Nat)) (miss : List Nat) (h : miss ≠ []) :
    (translateLoop kp args kw miss).2.2 ≠ [] := by
  induction kp generalizing args kw miss with
  | nil => simpa [translateLoop] using h
  | cons e t ih =>
    obtain ⟨pos, p⟩ := e
    simp only [translateLoop]
    split
    · split <;> exact ih _ _ _ h
    · split
      · exact ih _ _ _ (by simp)
      · split <;> exact ih _ _ _ h

theorem translateLoop_missing {P W : List Nat} (ps : List Param) (i : Nat) (args : List Nat)
    (kw : List (Nat × Nat)) (miss : List Nat)
    (h : ∃ f ∈ ps, isKwo P W f = true ∧ dget kw f.name = none ∧ f.dflt = none) :
    (translateLoop (kwPosFrom P W i ps) args kw miss).2.2 ≠ [] := by
  induction ps generalizing i args kw miss with
  | nil => simp at h
  | cons g gs ih =>
    obtain ⟨f, hf, hw, hg, hd⟩ := h
    simp only [kwPosFrom]
    by_cases hwg : isKwo P W g = true
    · simp only [hwg, ↓reduceIte, translateLoop]
      rcases List.mem_cons.1 hf with rfl | hf'
      · simp only [hg, hd]
        exact translateLoop_missing_mono _ _ _ _ (by simp)
      · split
        · split
          · exact ih _ _ _ _ ⟨f, hf', hw, dget_dpop_none _ _ _ hg, hd⟩
          · exact ih _ _ _ _ ⟨f, hf', hw, hg, hd⟩
        · split
          · exact ih _ _ _ _ ⟨f, hf', hw, hg, hd⟩
          · split <;> exact ih _ _ _ _ ⟨f, hf', hw, hg, hd⟩
    · simp only [hwg, Bool.false_eq_true, ↓reduceIte]
      rcases List.mem_cons.1 hf with rfl | hf'
      · exact absurd hw hwg
      · exact ih _ _ _ _ ⟨f, hf', hw, hg, hd⟩

theorem filter_const_true {α : Type} (l : List α) : l.filter (fun _ => true) = l := by
  rw [List.filter_eq_self]; simp

theorem listInsert_at_length (done todo : List Nat) (v : Nat) :
    listInsert (done ++ todo) done.length v = (done ++ [v]) ++ todo := by
  simp [listInsert]

theorem translateLoop_eq {P W : List Nat} (ps : List Param) (i : Nat) (done todo : List Nat)
    (kw : List (Nat × Nat)) (hlen : done.length = i) (hn : NamesDistinct ps)
    (hval : ∀ f ∈ ps, isKwo P W f = true → ((dget kw f.name).or f.dflt).isSome = true) :
    translateLoop (kwPosFrom P W i ps) (done ++ todo) kw [] =
      (done ++ fill (isKwo P W) (valOf kw) ps todo,
       kw.filter (fun kv => !(names (filledW (isKwo P W) ps todo)).contains kv.1), []) := by
  induction ps generalizing i done todo kw with
  | nil => simp [kwPosFrom, translateLoop, fill, filledW, names, filter_const_true]
  | cons f fs ih =>
    cases todo with
    | nil =>
      rw [translateLoop_nopos]
      · simp [fill, filledW, names, filter_const_true]
      · intro e he; have := (mem_kwPosFrom he).1; simp; omega
      · intro e he; have := mem_kwPosFrom he; exact hval _ this.2.1 this.2.2
    | cons a as =>
      simp only [NamesDistinct, List.pairwise_cons] at hn
      simp only [kwPosFrom, fill, filledW]
      by_cases hw : isKwo P W f = true
      · simp only [hw, ↓reduceIte, translateLoop]
        have hlt : i < (done ++ a :: as).length := by simp; omega
        have hv := hval f (by simp) hw
        cases hg : dget kw f.name with
        | some v =>
          simp only [hlt, ↓reduceIte]
          rw [← hlen, listInsert_at_length]
          have hval' : ∀ g ∈ fs, isKwo P W g = true →
              ((dget (dpop kw f.name) g.name).or g.dflt).isSome = true := by
            intro g hg' hwg
            rw [dget_dpop_ne _ _ _ (hn.1 g hg')]
            exact hval g (by simp [hg']) hwg
          rw [ih (i := done.length + 1) (done ++ [v]) (a :: as) (dpop kw f.name) (by simp) hn.2 hval']
          have e1 : fill (isKwo P W) (valOf (dpop kw f.name)) fs (a :: as) =
              fill (isKwo P W) (valOf kw) fs (a :: as) := by
            apply fill_congr
            intro g hg'
            simp only [valOf, dget_dpop_ne _ _ _ (hn.1 g hg')]
          have e2 : valOf kw f = v := by simp [valOf, hg]
          rw [e1, e2]
          simp only [List.append_assoc, List.singleton_append, Prod.mk.injEq, true_and, and_true]
          simp only [dpop, List.filter_filter, names, List.map_cons]
          apply List.filter_congr
          intro kv _
          simp [Bool.and_comm]
        | none =>
          cases hd : f.dflt with
          | none => simp [hg, hd] at hv
          | some d =>
            simp only [hlt, ↓reduceIte]
            rw [← hlen, listInsert_at_length]
            rw [ih (i := done.length + 1) (done ++ [d]) (a :: as) kw (by simp) hn.2
              (fun g hg' => hval g (by simp [hg']))]
            have e2 : valOf kw f = d := by simp [valOf, hg, hd]
            rw [e2]
            simp only [List.append_assoc, List.singleton_append, Prod.mk.injEq, true_and, and_true]
            simp only [names, List.map_cons]
            apply List.filter_congr
            intro kv hkv
            have : kv.1 ≠ f.name := by
              intro h
              have := (dget_eq_none_iff kw f.name).1 hg
              exact this (List.mem_map.2 ⟨kv, hkv, h⟩)
            simp [this]
      · simp only [hw, Bool.false_eq_true, ↓reduceIte]
        have : done ++ a :: as = (done ++ [a]) ++ as := by simp
        rw [this, ih (i := i + 1) (done ++ [a]) as kw (by simp [hlen]) hn.2
          (fun g hg' => hval g (by simp [hg']))]
        simp

/-! ### pure facts about `fill` / `filledW` -/

theorem posNamed_cons (f : Param) (fs : List Param) (a : Nat) (as : List Nat) :
    posNamed (f :: fs) (a :: as) = (f.name, a) :: posNamed fs as := by simp [posNamed]

theorem posNamed_nil_args (ps : List Param) : posNamed ps [] = [] := by simp [posNamed]

theorem dget_posNamed_none (ps : List Param) (args : List Nat) (x : Nat)
    (h : ∀ p ∈ ps, p.name ≠ x) : dget (posNamed ps args) x = none := by
  induction ps generalizing args with
  | nil => simp [posNamed, dget]
  | cons f fs ih =>
    cases args with
    | nil => simp [posNamed, dget]
    | cons a as =>
      rw [posNamed_cons, dget]
      simp [h f (by simp), ih as (fun p hp => h p (by simp [hp]))]

theorem fill_drop (w : Param → Bool) (val : Param → Nat) (ps : List Param) (args : List Nat) :
    (fill w val ps args).drop ps.length = args.drop (ps.filter (fun p => !w p)).length := by
  induction ps generalizing args with
  | nil => simp [fill]
  | cons f fs ih =>
    cases args with
    | nil => simp [fill]
    | cons a as =>
      simp only [fill, List.filter_cons]
      by_cases hw : w f = true
      · simp [hw, ih]
      · simp [hw, ih]

theorem fill_posNamed (w : Param → Bool) (val : Param → Nat) (ps : List Param) (args : List Nat)
    (hn : NamesDistinct ps) (x : Nat) :
    dget (posNamed ps (fill w val ps args)) x =
      (dget (posNamed (ps.filter (fun p => !w p)) args) x).or
        (dget ((filledW w ps args).map (fun f => (f.name, val f))) x) := by
  induction ps generalizing args with
  | nil => simp [fill, filledW, posNamed, dget]
  | cons f fs ih =>
    simp only [NamesDistinct, List.pairwise_cons] at hn
    cases args with
    | nil => simp [fill, filledW, posNamed, dget]
    | cons a as =>
      simp only [fill, filledW, List.filter_cons]
      by_cases hw : w f = true
      · simp only [hw, ↓reduceIte, Bool.not_true, Bool.false_eq_true, posNamed_cons, List.map_cons, dget]
        by_cases hx : f.name = x
        · simp only [hx, ↓reduceIte]
          rw [dget_posNamed_none]
          · simp
          · intro p hp
            have := hn.1 p (List.mem_filter.1 hp).1
            rw [← hx]; exact fun h => this h.symm
        · simp only [hx, ↓reduceIte]
          exact ih _ hn.2
      · simp only [hw, Bool.false_eq_true, ↓reduceIte, Bool.not_false, posNamed_cons, dget]
        by_cases hx : f.name = x
        · simp [hx]
        · simp only [hx, ↓reduceIte]
          exact ih _ hn.2

end SV
