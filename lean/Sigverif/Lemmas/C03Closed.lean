/-
  Lemmas/C03Closed.lean — closed form of the loop over the names in `_mask`: the final state as a
  function of the *set* of names (positional-or-keyword prefix before the first named parameter,
  the rest converted to keyword-only, named ones removed, `*args` dropped iff a
  positional-or-keyword parameter was named).  Order independence follows.
-/
import Sigverif.Lemmas.C03Main
namespace SV


/-! ### list helpers -/

theorem takeWhile_stop {α : Type} (f : α → Bool) (A C : List α) (b : α)
    (hA : ∀ a ∈ A, f a = true) (hb : f b = false) :
    (A ++ b :: C).takeWhile f = A ∧ (A ++ b :: C).dropWhile f = b :: C := by
  induction A with
  | nil => simp [hb]
  | cons a t ih =>
    have ha := hA a (by simp)
    have := ih (fun x hx => hA x (by simp [hx]))
    simp [ha, this.1, this.2]

theorem takeWhile_mono {α : Type} (f g : α → Bool) (l : List α)
    (h1 : ∀ a ∈ l.takeWhile g, f a = true) (h2 : ∀ a ∈ l, f a = true → g a = true) :
    l.takeWhile f = l.takeWhile g ∧ l.dropWhile f = l.dropWhile g := by
  induction l with
  | nil => simp
  | cons a t ih =>
    by_cases hg : g a = true
    · have hf : f a = true := h1 a (by simp [List.takeWhile, hg])
      have := ih (fun x hx => h1 x (by simp [List.takeWhile, hg, hx]))
        (fun x hx => h2 x (by simp [hx]))
      simp [List.takeWhile, List.dropWhile, hg, hf, this.1, this.2]
    · have hf : ¬ f a = true := fun h => hg (h2 a (by simp) h)
      simp [List.takeWhile, List.dropWhile, hg, hf]

theorem mem_takeWhile {α : Type} {f : α → Bool} {l : List α} {a : α} (h : a ∈ l.takeWhile f) :
    f a = true ∧ a ∈ l := by
  induction l with
  | nil => simp at h
  | cons b t ih =>
    by_cases hb : f b = true
    · simp only [List.takeWhile, hb, List.mem_cons] at h ⊢
      rcases h with rfl | h
      · exact ⟨hb, Or.inl rfl⟩
      · exact ⟨(ih h).1, Or.inr (ih h).2⟩
    · simp [List.takeWhile, hb] at h

theorem takeWhile_true {α : Type} (l : List α) :
    l.takeWhile (fun _ => true) = l ∧ l.dropWhile (fun _ => true) = [] ∧ l.filter (fun _ => true) = l := by
  induction l with
  | nil => simp
  | cons a t ih => simp [List.takeWhile, List.dropWhile, ih.1, ih.2.1]

theorem takeWhile_congr_mem {α : Type} (f g : α → Bool) (l : List α)
    (h : ∀ a ∈ l, f a = g a) :
    l.takeWhile f = l.takeWhile g ∧ l.dropWhile f = l.dropWhile g := by
  apply takeWhile_mono
  · intro a ha
    have := mem_takeWhile ha
    rw [h a this.2]; exact this.1
  · intro a ha hf; rw [← h a ha]; exact hf

/-! ### closed form of the loop -/

def notin (X : List Nat) (p : Param) : Bool := decide (p.name ∉ X)

@[simp] theorem notin_iff {X : List Nat} {p : Param} : notin X p = true ↔ p.name ∉ X := by
  simp [notin]
@[simp] theorem notin_false_iff {X : List Nat} {p : Param} : notin X p = false ↔ p.name ∈ X := by
  simp [notin]
@[simp] theorem notin_withKind (X : List Nat) (p : Param) (k : Kind) :
    notin X (p.withKind k) = notin X p := rfl

def remKey (st0 : KState) (X : List Nat) (k : Nat) : Bool :=
  (decide (k ∈ X) && (decide (k ∈ names st0.pok) || decide (k ∈ names st0.kwo))) ||
  (!(st0.pok.all (notin X)) && decide (st0.va.map (·.name) = some k))

structure Closed (st0 : KState) (X : List Nat) (st : KState) : Prop where
  pok : st.pok = st0.pok.takeWhile (notin X)
  va : st.va = if st0.pok.all (notin X) then st0.va else none
  kwo : st.kwo.Perm ((st0.kwo ++ (st0.pok.dropWhile (notin X)).map (·.withKind .ko)).filter (notin X))
  src : st.src = st0.src.filter (fun e => !(remKey st0 X e.1))

theorem notin_congr {X X' : List Nat} (h : ∀ y, y ∈ X ↔ y ∈ X') : notin X = notin X' := by
  funext p; simp [notin, h]

theorem remKey_congr (st0 : KState) {X X' : List Nat} (h : ∀ y, y ∈ X ↔ y ∈ X') :
    remKey st0 X = remKey st0 X' := by
  funext k; simp [remKey, h, notin_congr h]

theorem Closed.congr {st0 st : KState} {X X' : List Nat} (h : ∀ y, y ∈ X ↔ y ∈ X')
    (c : Closed st0 X st) : Closed st0 X' st := by
  obtain ⟨a, b, c, d⟩ := c
  rw [notin_congr h] at a b c
  rw [remKey_congr st0 h] at d
  exact ⟨a, b, c, d⟩

theorem Closed.init (st0 : KState) : Closed st0 [] st0 := by
  have e : notin [] = fun _ => true := by funext p; simp [notin]
  refine ⟨?_, ?_, ?_, ?_⟩
  · rw [e, (takeWhile_true _).1]
  · rw [e]; simp
  · rw [e, (takeWhile_true _).2.1, (takeWhile_true _).2.2]; simp
  · have : (fun e : Nat × List Nat => !(remKey st0 [] e.1)) = fun _ => true := by
      funext k; simp [remKey, e]
    rw [this, (takeWhile_true _).2.2]


theorem dpop_filter {α : Type} (l : List (Nat × α)) (f : Nat × α → Bool) (x : Nat) :
    dpop (l.filter f) x = l.filter (fun e => f e && decide (e.1 ≠ x)) := by
  unfold dpop
  rw [List.filter_filter]
  congr 1
  funext e
  rw [Bool.and_comm]

theorem src_hit (st0 : KState) (X : List Nat) (x : Nat) (hx1 : x ∈ names st0.pok)
    (hall' : st0.pok.all (notin (x :: X)) = false) :
    srcVa (if st0.pok.all (notin X) then st0.va else none)
      (dpop (st0.src.filter (fun e => !(remKey st0 X e.1))) x) =
    st0.src.filter (fun e => !(remKey st0 (x :: X) e.1)) := by
  rw [dpop_filter]
  cases hall : st0.pok.all (notin X) <;> cases hva : st0.va
  all_goals simp only [srcVa, Bool.false_eq_true, if_false, if_true]
  all_goals try rw [dpop_filter]
  all_goals
    apply List.filter_congr
    intro e _
    by_cases hex : e.1 = x
    · simp [remKey, hall, hall', hva, hex, hx1]
    · simp [remKey, hall, hall', hva, hex, @eq_comm _ e.1]


theorem src_kwo (st0 : KState) (X : List Nat) (x : Nat)
    (hx1 : x ∈ names st0.pok ∨ x ∈ names st0.kwo)
    (hall : st0.pok.all (notin (x :: X)) = st0.pok.all (notin X)) :
    dpop (st0.src.filter (fun e => !(remKey st0 X e.1))) x =
    st0.src.filter (fun e => !(remKey st0 (x :: X) e.1)) := by
  rw [dpop_filter]
  apply List.filter_congr
  intro e _
  by_cases hex : e.1 = x
  · rcases hx1 with h | h <;> simp [remKey, hall, hex, h]
  · simp [remKey, hall, hex]

theorem src_vk (st0 : KState) (X : List Nat) (x : Nat)
    (hx1 : x ∉ names st0.pok) (hx2 : x ∉ names st0.kwo)
    (hall : st0.pok.all (notin (x :: X)) = st0.pok.all (notin X)) :
    st0.src.filter (fun e => !(remKey st0 X e.1)) =
    st0.src.filter (fun e => !(remKey st0 (x :: X) e.1)) := by
  apply List.filter_congr
  intro e _
  by_cases hex : e.1 = x
  · simp [remKey, hall, hex, hx1, hx2]
  · simp [remKey, hall, hex]

theorem mem_of_mem_dropWhile {α : Type} {f : α → Bool} {l : List α} {a : α}
    (h : a ∈ l.dropWhile f) : a ∈ l := by
  have := List.takeWhile_append_dropWhile (p := f) (l := l)
  rw [← this]
  exact List.mem_append_right _ h

theorem takeWhile_of_all {α : Type} (g : α → Bool) (l : List α) (h : ∀ a ∈ l, g a = true) :
    l.takeWhile g = l := by
  induction l with
  | nil => rfl
  | cons a t ih =>
    simp [List.takeWhile, h a (by simp), ih (fun x hx => h x (by simp [hx]))]

/-- a name that is neither a remaining positional-or-keyword nor a remaining keyword-only
    parameter, and was not processed before, never was one -/
theorem closed_fresh {st0 st : KState} {X : List Nat} {x : Nat}
    (cl : Closed st0 X st) (hx : x ∉ X) (hp : x ∉ names st.pok) (hkw : x ∉ names st.kwo) :
    x ∉ names st0.pok ∧ x ∉ names st0.kwo := by
  obtain ⟨cp, -, ck, -⟩ := cl
  have hsplit := List.takeWhile_append_dropWhile (p := notin X) (l := st0.pok)
  constructor
  · intro h
    obtain ⟨q, hq, rfl⟩ := mem_names.1 h
    rw [← hsplit, List.mem_append] at hq
    rcases hq with hq | hq
    · apply hp; rw [cp]; exact mem_names_of_mem hq
    · apply hkw
      have : q.withKind .ko ∈ st.kwo := by
        rw [ck.mem_iff, List.mem_filter]
        refine ⟨?_, by simpa using hx⟩
        simp only [List.mem_append, List.mem_map]
        exact Or.inr ⟨q, hq, rfl⟩
      exact mem_names_of_mem this (p := q.withKind .ko)
  · intro h
    obtain ⟨q, hq, rfl⟩ := mem_names.1 h
    apply hkw
    have : q ∈ st.kwo := by
      rw [ck.mem_iff, List.mem_filter]
      exact ⟨by simp [hq], by simpa using hx⟩
    exact mem_names_of_mem this

theorem closed_step {vk : Option Param} {st0 st st' : KState} {X : List Nat} {x : Nat}
    (hnd0 : (names (st0.pok ++ st0.kwo)).Nodup)
    (cl : Closed st0 X st) (hx : x ∉ X) (hk : StepKind vk st x (.ok st')) :
    Closed st0 (x :: X) st' ∧ (x ∈ names st0.pok ∨ x ∈ names st0.kwo ∨ vk.isSome = true) := by
  obtain ⟨cp, cv, ck, cs⟩ := cl
  have hsplit := List.takeWhile_append_dropWhile (p := notin X) (l := st0.pok)
  cases hk with
  | hitPok before conv bp hc hpok hbx =>
    subst hbx
    generalize hrest : st0.pok.dropWhile (notin X) = rest at *
    have hP0 : st0.pok = before ++ bp :: (conv ++ rest) := by
      rw [← hsplit, ← cp, hpok]; simp
    rw [hP0, List.append_assoc] at hnd0
    obtain ⟨ua, uc⟩ := nodup_names_split hnd0
    have hbefore : ∀ a ∈ before, notin (bp.name :: X) a = true := by
      intro a ha
      have : a ∈ st0.pok.takeWhile (notin X) := by rw [← cp, hpok]; simp [ha]
      have := (mem_takeWhile this).1
      simp only [notin_iff, List.mem_cons, not_or] at this ⊢
      exact ⟨ua a ha, this⟩
    have hconv : ∀ a ∈ conv, notin (bp.name :: X) a = true := by
      intro a ha
      have : a ∈ st0.pok.takeWhile (notin X) := by rw [← cp, hpok]; simp [ha]
      have := (mem_takeWhile this).1
      simp only [notin_iff, List.mem_cons, not_or] at this ⊢
      exact ⟨uc a (by simp [ha]), this⟩
    have hbp : notin (bp.name :: X) bp = false := by simp
    obtain ⟨tw, dw⟩ := takeWhile_stop _ before (conv ++ rest) bp hbefore hbp
    have hall' : st0.pok.all (notin (bp.name :: X)) = false := by
      rw [Bool.eq_false_iff]
      intro h
      rw [List.all_eq_true] at h
      have := h bp (by rw [hP0]; simp)
      rw [hbp] at this; cases this
    have hfK : ∀ p ∈ st0.kwo, notin (bp.name :: X) p = notin X p := by
      intro p hp
      have := uc p (by simp [hp])
      simp [notin, this]
    have hfR : ∀ p ∈ rest, notin (bp.name :: X) p = notin X p := by
      intro p hp
      have := uc p (by simp [hp])
      simp [notin, this]
    refine ⟨⟨?_, ?_, ?_, ?_⟩, Or.inl ?_⟩
    · simp only; rw [hP0, tw]
    · simp only; rw [hall']; simp
    · simp only
      rw [hP0, dw]
      simp only [List.map_cons, List.map_append, List.filter_append, List.filter_cons,
        notin_withKind, hbp, Bool.false_eq_true, if_false] at ck ⊢
      have e1 : List.filter (notin (bp.name :: X)) st0.kwo = List.filter (notin X) st0.kwo :=
        List.filter_congr hfK
      have e2 : List.filter (notin (bp.name :: X)) (conv.map (·.withKind .ko)) =
          conv.map (·.withKind .ko) := by
        apply List.filter_eq_self.2
        intro a ha
        obtain ⟨q, hq, rfl⟩ := List.mem_map.1 ha
        rw [notin_withKind]; exact hconv q hq
      have e3 : List.filter (notin (bp.name :: X)) (rest.map (·.withKind .ko)) =
          List.filter (notin X) (rest.map (·.withKind .ko)) := by
        apply List.filter_congr
        intro a ha
        obtain ⟨q, hq, rfl⟩ := List.mem_map.1 ha
        rw [notin_withKind, notin_withKind]; exact hfR q hq
      rw [e1, e2, e3]
      refine (ck.append_right _).trans ?_
      rw [List.append_assoc]
      exact List.Perm.append_left _ List.perm_append_comm
    · simp only
      rw [cs, cv]
      apply src_hit _ _ _ _ hall'
      rw [hP0]; simp
    · rw [hP0]; simp
  | hitKwo hc hp hkw =>
    have h1 : ∀ a ∈ st0.pok.takeWhile (notin X), notin (x :: X) a = true := by
      intro a ha
      have hg := (mem_takeWhile ha).1
      have : a.name ≠ x := by
        intro e; apply hp; rw [cp, ← e]; exact mem_names_of_mem ha
      simp only [notin_iff, List.mem_cons, not_or] at hg ⊢
      exact ⟨this, hg⟩
    have h2 : ∀ a ∈ st0.pok, notin (x :: X) a = true → notin X a = true := by
      intro a _ h
      simp only [notin_iff, List.mem_cons, not_or] at h ⊢
      exact h.2
    obtain ⟨tw, dw⟩ := takeWhile_mono _ _ _ h1 h2
    have hall : st0.pok.all (notin (x :: X)) = st0.pok.all (notin X) := by
      rw [Bool.eq_iff_iff, List.all_eq_true, List.all_eq_true]
      constructor
      · intro h a ha; exact h2 a ha (h a ha)
      · intro h a ha
        apply h1
        rw [takeWhile_of_all _ _ h]; exact ha
    have hmem : x ∈ names st0.pok ∨ x ∈ names st0.kwo := by
      obtain ⟨q, hq, rfl⟩ := mem_names.1 hkw
      rw [ck.mem_iff, List.mem_filter, List.mem_append, List.mem_map] at hq
      rcases hq.1 with h | ⟨r, hr, rfl⟩
      · exact Or.inr (mem_names_of_mem h)
      · left
        have : r ∈ st0.pok := mem_of_mem_dropWhile hr
        exact mem_names_of_mem this (p := r)
    refine ⟨⟨?_, ?_, ?_, ?_⟩, ?_⟩
    · simp only; rw [tw]; exact cp
    · simp only; rw [hall]; exact cv
    · simp only
      rw [dw]
      have : ppop st.kwo x = st.kwo.filter (fun p => decide (p.name ≠ x)) := rfl
      rw [this]
      refine (ck.filter _).trans ?_
      rw [List.filter_filter]
      apply List.Perm.of_eq
      apply List.filter_congr
      intro p _
      simp [notin]
    · simp only
      rw [cs]
      exact src_kwo _ _ _ hmem hall
    · rcases hmem with h | h
      · exact Or.inl h
      · exact Or.inr (Or.inl h)
  | toVk hc hp hkw hv =>
    obtain ⟨f1, f2⟩ := closed_fresh ⟨cp, cv, ck, cs⟩ hx hp hkw
    have hP : ∀ p ∈ st0.pok, notin (x :: X) p = notin X p := by
      intro p hp'
      have : p.name ≠ x := fun e => f1 (e ▸ mem_names_of_mem hp')
      simp [notin, this]
    have hK : ∀ p ∈ st0.kwo, notin (x :: X) p = notin X p := by
      intro p hp'
      have : p.name ≠ x := fun e => f2 (e ▸ mem_names_of_mem hp')
      simp [notin, this]
    obtain ⟨tw, dw⟩ := takeWhile_congr_mem _ _ _ hP
    have hall : st0.pok.all (notin (x :: X)) = st0.pok.all (notin X) := by
      rw [Bool.eq_iff_iff, List.all_eq_true, List.all_eq_true]
      constructor
      · intro h a ha; rw [← hP a ha]; exact h a ha
      · intro h a ha; rw [hP a ha]; exact h a ha
    refine ⟨⟨?_, ?_, ?_, ?_⟩, Or.inr (Or.inr hv)⟩
    · simp only; rw [tw]; exact cp
    · simp only; rw [hall]; exact cv
    · simp only
      rw [dw]
      refine ck.trans (List.Perm.of_eq ?_)
      apply List.filter_congr
      intro p hp'
      rw [List.mem_append, List.mem_map] at hp'
      rcases hp' with h | ⟨r, hr, rfl⟩
      · exact (hK p h).symm
      · rw [notin_withKind, notin_withKind]
        have : r ∈ st0.pok := mem_of_mem_dropWhile hr
        exact (hP r this).symm
    · simp only
      rw [cs]
      exact src_vk _ _ _ f1 f2 hall


theorem maskNames_closed_gen {pos : List Param} {vk : Option Param} {st0 : KState}
    (hnd0 : (names (st0.pok ++ st0.kwo)).Nodup) (xs : List Nat) {st : KState} {X : List Nat}
    (inv : Inv pos vk st) (cl : Closed st0 X st)
    (hcons : ∀ y, y ∈ st.consumed → y ∈ st0.consumed ∨ y ∈ X)
    (hcons' : ∀ y ∈ st0.consumed, y ∈ st.consumed)
    (hxs : xs.Nodup) (hX : ∀ x ∈ xs, x ∉ X) :
    match maskNames vk st (plainNames xs) with
    | .ok st' => Closed st0 (xs.reverse ++ X) st' ∧ (∀ x ∈ xs, x ∉ st0.consumed) ∧
        (∀ x ∈ xs, x ∈ names st0.pok ∨ x ∈ names st0.kwo ∨ vk.isSome = true)
    | .error _ => (∃ x ∈ xs, x ∈ st0.consumed) ∨
        (vk = none ∧ ∃ x ∈ xs, x ∉ names st0.pok ∧ x ∉ names st0.kwo) := by
  induction xs generalizing st X with
  | nil => simp [plainNames, maskNames, cl]
  | cons x rest ih =>
    rw [maskNames_cons]
    have hk := maskName_kind inv x
    have hxX : x ∉ X := hX x (by simp)
    rw [List.nodup_cons] at hxs
    cases hr : maskName vk st x none with
    | error e =>
      rw [hr] at hk
      simp only
      cases hk with
      | isConsumed _ h =>
        rcases hcons x h with h | h
        · exact Or.inl ⟨x, by simp, h⟩
        · exact absurd h hxX
      | noVk hc hp hkw hv =>
        obtain ⟨f1, f2⟩ := closed_fresh cl hxX hp hkw
        exact Or.inr ⟨hv, x, by simp, f1, f2⟩
    | ok st1 =>
      rw [hr] at hk
      simp only
      obtain ⟨inv1, hcons1, -⟩ := step_inv inv hk
      obtain ⟨cl1, hmem1⟩ := closed_step hnd0 cl hxX hk
      obtain ⟨hxc, -⟩ := maskName_ok_consumed hr
      have hx0 : x ∉ st0.consumed := fun h => hxc (hcons' x h)
      have := ih (st := st1) (X := x :: X) inv1 cl1
        (by
          intro y hy
          rw [hcons1, List.mem_append, List.mem_singleton] at hy
          rcases hy with hy | rfl
          · rcases hcons y hy with h | h
            · exact Or.inl h
            · exact Or.inr (by simp [h])
          · exact Or.inr (by simp))
        (by intro y hy; rw [hcons1]; simp [hcons' y hy])
        hxs.2
        (by
          intro y hy
          simp only [List.mem_cons, not_or]
          exact ⟨fun e => hxs.1 (e ▸ hy), hX y (by simp [hy])⟩)
      cases hr2 : maskNames vk st1 (plainNames rest) with
      | error e =>
        rw [hr2] at this
        simp only at this ⊢
        rcases this with ⟨y, hy, h⟩ | ⟨hv, y, hy, h⟩
        · exact Or.inl ⟨y, by simp [hy], h⟩
        · exact Or.inr ⟨hv, y, by simp [hy], h⟩
      | ok st' =>
        rw [hr2] at this
        simp only at this ⊢
        obtain ⟨c1, c2, c3⟩ := this
        refine ⟨?_, ?_, ?_⟩
        · rw [List.reverse_cons, List.append_assoc]; exact c1
        · intro y hy
          simp only [List.mem_cons] at hy
          rcases hy with rfl | hy
          · exact hx0
          · exact c2 y hy
        · intro y hy
          simp only [List.mem_cons] at hy
          rcases hy with rfl | hy
          · exact hmem1
          · exact c3 y hy

theorem Inv.nodup0 {pos : List Param} {vk : Option Param} {st : KState} (inv : Inv pos vk st) :
    (names (st.pok ++ st.kwo)).Nodup := by
  obtain ⟨-, p2, p3, -, -, p6⟩ := inv.swf.parts
  rw [names_append]
  exact List.nodup_append.2 ⟨p2, p3, fun a ha b hb e => p6 a ha (e ▸ hb)⟩

/-- closed form of the loop over the names, from the initial state -/
theorem maskNames_closed {pos : List Param} {vk : Option Param} {st0 : KState}
    (inv0 : Inv pos vk st0) (xs : List Nat) (hxs : xs.Nodup) :
    match maskNames vk st0 (plainNames xs) with
    | .ok st' => Closed st0 xs st' ∧ (∀ x ∈ xs, x ∉ st0.consumed) ∧
        (∀ x ∈ xs, x ∈ names st0.pok ∨ x ∈ names st0.kwo ∨ vk.isSome = true)
    | .error _ => (∃ x ∈ xs, x ∈ st0.consumed) ∨
        (vk = none ∧ ∃ x ∈ xs, x ∉ names st0.pok ∧ x ∉ names st0.kwo) := by
  have := maskNames_closed_gen inv0.nodup0 xs inv0 (Closed.init st0) (fun y hy => Or.inl hy)
    (fun y hy => hy) hxs (by simp)
  cases hr : maskNames vk st0 (plainNames xs) with
  | error e => rw [hr] at this; exact this
  | ok st' =>
    rw [hr] at this
    simp only at this ⊢
    exact ⟨this.1.congr (by simp), this.2⟩

theorem maskNames_perm {pos : List Param} {vk : Option Param} {st0 : KState}
    (inv0 : Inv pos vk st0) (xs xs' : List Nat) (hxs : xs.Nodup) (hp : xs.Perm xs') :
    match maskNames vk st0 (plainNames xs), maskNames vk st0 (plainNames xs') with
    | .ok a, .ok b => a.pok = b.pok ∧ a.va = b.va ∧ a.kwo.Perm b.kwo ∧ a.src = b.src
    | .error _, .error _ => True
    | _, _ => False := by
  have h1 := maskNames_closed inv0 xs hxs
  have h2 := maskNames_closed inv0 xs' (hp.nodup_iff.1 hxs)
  have hmem : ∀ y, y ∈ xs ↔ y ∈ xs' := fun y => hp.mem_iff
  cases hr1 : maskNames vk st0 (plainNames xs) with
  | error e1 =>
    cases hr2 : maskNames vk st0 (plainNames xs') with
    | error e2 => trivial
    | ok b =>
      rw [hr1] at h1; rw [hr2] at h2
      simp only at h1 h2 ⊢
      obtain ⟨-, c2, c3⟩ := h2
      rcases h1 with ⟨y, hy, h⟩ | ⟨hv, y, hy, h⟩
      · exact c2 y ((hmem y).1 hy) h
      · rcases c3 y ((hmem y).1 hy) with c | c | c
        · exact h.1 c
        · exact h.2 c
        · rw [hv] at c; cases c
  | ok a =>
    cases hr2 : maskNames vk st0 (plainNames xs') with
    | error e2 =>
      rw [hr1] at h1; rw [hr2] at h2
      simp only at h1 h2 ⊢
      obtain ⟨-, c2, c3⟩ := h1
      rcases h2 with ⟨y, hy, h⟩ | ⟨hv, y, hy, h⟩
      · exact c2 y ((hmem y).2 hy) h
      · rcases c3 y ((hmem y).2 hy) with c | c | c
        · exact h.1 c
        · exact h.2 c
        · rw [hv] at c; cases c
    | ok b =>
      rw [hr1] at h1; rw [hr2] at h2
      simp only at h1 h2 ⊢
      obtain ⟨ca, -, -⟩ := h1
      obtain ⟨cb, -, -⟩ := h2
      have cb' := cb.congr (fun y => (hmem y).symm)
      refine ⟨ca.pok.trans cb'.pok.symm, ca.va.trans cb'.va.symm, ca.kwo.trans cb'.kwo.symm,
        ca.src.trans cb'.src.symm⟩




theorem SigEquiv.refl (a : USig) : SigEquiv a a := ⟨rfl, List.Perm.refl _, rfl, rfl⟩

theorem sigEquiv_of_states {pos : List Param} {vk : Option Param} {a b : KState}
    (ha : BucketKinds (sOf pos vk a)) (hb : BucketKinds (sOf pos vk b))
    (h1 : a.pok = b.pok) (h2 : a.va = b.va) (h3 : a.kwo.Perm b.kwo)
    (src src' : Srcs) (d d' : Depths) (r : Option Nat) (u : UAnn) :
    SigEquiv { params := (sOf pos vk a).all, src := src, depths := d, ret := r, uret := u }
             { params := (sOf pos vk b).all, src := src', depths := d', ret := r, uret := u } := by
  refine ⟨?_, ?_, rfl, rfl⟩
  · simp only
    rw [filter_all_of_kind ha _ (fun k => decide (k ≠ .ko)) (fun p => rfl),
      filter_all_of_kind hb _ (fun k => decide (k ≠ .ko)) (fun p => rfl)]
    simp [sOf, h1, h2]
  · simp only
    rw [filter_all_of_kind ha _ (fun k => decide (k = .ko)) (fun p => rfl),
      filter_all_of_kind hb _ (fun k => decide (k = .ko)) (fun p => rfl)]
    simpa [sOf] using h3



theorem maskNames_ok_nodup {vk : Option Param} (xs : List Nat) {st st' : KState}
    (h : maskNames vk st (plainNames xs) = .ok st') : xs.Nodup := by
  induction xs generalizing st with
  | nil => simp
  | cons x rest ih =>
    rw [maskNames_cons] at h
    cases hr : maskName vk st x none with
    | error e => rw [hr] at h; cases h
    | ok st1 =>
      rw [hr] at h
      simp only at h
      obtain ⟨-, h2⟩ := maskName_ok_consumed hr
      have := maskNames_ok_consumed rest h
      rw [List.nodup_cons]
      refine ⟨fun hx => ?_, ih h⟩
      apply this x hx
      rw [h2]; simp

theorem mem_sOf_all {pos : List Param} {vk : Option Param} {st : KState} {p : Param} :
    p ∈ (sOf pos vk st).all ↔
      p ∈ pos ∨ p ∈ st.pok ∨ st.va = some p ∨ p ∈ st.kwo ∨ vk = some p := by
  simp only [sOf, Sorted.all, List.mem_append, Option.mem_toList, or_assoc]

/-- inversion of a successful `mask`, with the closed form of the loop -/
theorem mask_ok_closed {sig R : USig} (hwf : WF sig.params) {n : Nat} {nms : List Nat} {h : HideFlags}
    (hR : mask sig n nms h = .ok R) :
    ∃ c pos pok st, prelude (sortParams sig) n h = .ok (c, pos, pok) ∧
      Closed (initState (sortParams sig) h c pok) (if h.kwargs then [] else nms) st ∧
      SWF (sOf pos (finalVk (sortParams sig) h) st) ∧
      R = { params := (sOf pos (finalVk (sortParams sig) h) st).all,
            src := finalSrc (sortParams sig) h st, depths := sig.depths,
            ret := sig.ret, uret := sig.uret } := by
  obtain ⟨c, pos, pok, st, hp, hm, -, hs2, rfl⟩ := mask_ok hwf hR
  refine ⟨c, pos, pok, st, hp, ?_, hs2, rfl⟩
  by_cases hk : h.kwargs = true
  · simp only [hk, if_true, plainNames, List.map_nil, maskNames] at hm ⊢
    cases hm
    exact Closed.init _
  · have hk' : h.kwargs = false := by simpa using hk
    simp only [hk', Bool.false_eq_true, if_false] at hm ⊢
    have := maskNames_closed (init_inv (sortParams_swf hwf) hp hk') nms (maskNames_ok_nodup nms hm)
    rw [hm] at this
    exact this.1


end SV
