/-
  Lemmas/SrcDict.lean — facts about the association-list dictionaries that carry
  provenance (`Srcs`, `Depths`): `dget`/`dset`/`dpop`/`dupdate`, `sget`, `addSources`,
  `addAllSources`, `mergeDepths`, `copyDepths`.
-/
import Sigverif.Model.Embed
namespace SV

section
variable {α : Type}

theorem dget_dset (d : List (Nat × α)) (k k' : Nat) (v : α) :
    dget (dset d k v) k' = if k' = k then some v else dget d k' := by
  induction d with
  | nil =>
    simp only [dset, dget]
    by_cases h : k = k'
    · subst h; simp
    · have : ¬ k' = k := fun e => h e.symm
      simp [h, this]
  | cons e t ih =>
    obtain ⟨a, b⟩ := e
    simp only [dset]
    by_cases hak : a = k
    · subst hak
      simp only [if_true, dget]
      by_cases h : a = k'
      · subst h; simp
      · have : ¬ k' = a := fun e => h e.symm
        simp [h, this]
    · simp only [hak, if_false, dget]
      by_cases h : a = k'
      · subst h
        have : ¬ a = k := hak
        simp [this]
      · simp only [h, if_false]
        exact ih

theorem dhas_dset (d : List (Nat × α)) (k k' : Nat) (v : α) :
    dhas (dset d k v) k' = (decide (k' = k) || dhas d k') := by
  simp only [dhas, dget_dset]
  by_cases h : k' = k <;> simp [h]

theorem dget_dpop (d : List (Nat × α)) (k k' : Nat) :
    dget (dpop d k) k' = if k' = k then none else dget d k' := by
  induction d with
  | nil => simp [dpop, dget]
  | cons e t ih =>
    obtain ⟨a, b⟩ := e
    simp only [dpop, List.filter] at ih ⊢
    by_cases hak : a = k
    · subst hak
      simp only [ne_eq, not_true_eq_false, decide_false]
      rw [ih]
      by_cases h : k' = a
      · simp [h]
      · have : ¬ a = k' := fun e => h e.symm
        simp [dget, h, this]
    · simp only [ne_eq, hak, not_false_eq_true, decide_true, dget]
      by_cases h : a = k'
      · subst h
        simp [hak]
      · simp only [h, if_false]
        exact ih

theorem dhas_dpop (d : List (Nat × α)) (k k' : Nat) :
    dhas (dpop d k) k' = (!decide (k' = k) && dhas d k') := by
  simp only [dhas, dget_dpop]
  by_cases h : k' = k <;> simp [h]

theorem dget_dupdate (d e : List (Nat × α)) (k : Nat) :
    dget (dupdate d e) k = match dget e.reverse k with
                           | some v => some v
                           | none => dget d k := by
  unfold dupdate
  induction e generalizing d with
  | nil => simp [dget]
  | cons x t ih =>
    simp only [List.foldl_cons, List.reverse_cons]
    rw [ih]
    -- dget (t.reverse ++ [x]) k
    have happ : ∀ (a : List (Nat × α)), dget (a ++ [x]) k =
        match dget a k with
        | some v => some v
        | none => if x.1 = k then some x.2 else none := by
      intro a
      induction a with
      | nil => simp [dget]
      | cons y s ihs =>
        simp only [List.cons_append, dget]
        by_cases h : y.1 = k
        · simp [h]
        · simp only [h, if_false]; exact ihs
    rw [happ]
    cases hg : dget t.reverse k with
    | some v => rfl
    | none =>
      simp only [dget_dset]
      by_cases h : x.1 = k
      · simp [h]
      · have : ¬ k = x.1 := fun e => h e.symm
        simp [h, this]

theorem dhas_dupdate (d e : List (Nat × α)) (k : Nat) :
    dhas (dupdate d e) k = (dhas e k || dhas d k) := by
  unfold dupdate
  induction e generalizing d with
  | nil => simp [dhas, dget]
  | cons x t ih =>
    simp only [List.foldl_cons]
    rw [ih, dhas_dset]
    simp only [dhas, dget]
    by_cases h : x.1 = k
    · subst h; simp
    · have : ¬ k = x.1 := fun e => h e.symm
      simp [h, this]

end

theorem sget_dset (d : Srcs) (k k' : Nat) (v : List Nat) :
    sget (dset d k v) k' = if k' = k then v else sget d k' := by
  simp only [sget, dget_dset]
  by_cases h : k' = k <;> simp [h]

theorem sget_of_not_dhas (d : Srcs) (k : Nat) (h : dhas d k = false) : sget d k = [] := by
  simp only [dhas, Option.isSome_eq_false_iff, Option.isNone_iff_eq_none] at h
  simp [sget, h]

theorem dhas_of_mem_sget (d : Srcs) (k f : Nat) (h : f ∈ sget d k) : dhas d k = true := by
  cases hd : dhas d k with
  | true => rfl
  | false => rw [sget_of_not_dhas d k hd] at h; cases h

theorem sget_addSources (ret : Srcs) (n : Nat) (frm : List Srcs) (k : Nat) :
    sget (addSources ret n frm) k =
      if k = n then sget ret n ++ (frm.map (fun s => sget s n)).flatten else sget ret k := by
  simp only [addSources, sget_dset]

theorem dhas_addSources (ret : Srcs) (n : Nat) (frm : List Srcs) (k : Nat) :
    dhas (addSources ret n frm) k = (decide (k = n) || dhas ret k) := by
  simp only [addSources, dhas_dset]

theorem dhas_addAllSources (ret : Srcs) (ps : List Param) (frm : Srcs) (k : Nat) :
    dhas (addAllSources ret ps frm) k = (decide (k ∈ names ps) || dhas ret k) := by
  unfold addAllSources
  induction ps generalizing ret with
  | nil => simp [names]
  | cons p t ih =>
    simp only [List.foldl_cons]
    rw [ih, dhas_dset]
    simp only [names, List.map_cons, List.mem_cons]
    by_cases h1 : k = p.name <;> by_cases h2 : k ∈ List.map (fun x => x.name) t <;> simp [h1, h2]

/-- every member of an entry after `_add_all_sources` was there before or comes from `frm` -/
theorem mem_sget_addAllSources (ret : Srcs) (ps : List Param) (frm : Srcs) (k f : Nat)
    (h : f ∈ sget (addAllSources ret ps frm) k) : f ∈ sget ret k ∨ f ∈ sget frm k := by
  unfold addAllSources at h
  induction ps generalizing ret with
  | nil => exact Or.inl h
  | cons p t ih =>
    simp only [List.foldl_cons] at h
    rcases ih _ h with h' | h'
    · rw [sget_dset] at h'
      by_cases hk : k = p.name
      · subst hk
        simp only [if_true, List.mem_append] at h'
        exact h'
      · simp only [hk, if_false] at h'
        exact Or.inl h'
    · exact Or.inr h'

/-- what was in an entry stays there through `_add_all_sources` -/
theorem sget_addAllSources_mono (ret : Srcs) (ps : List Param) (frm : Srcs) (k f : Nat)
    (h : f ∈ sget ret k) : f ∈ sget (addAllSources ret ps frm) k := by
  unfold addAllSources
  induction ps generalizing ret with
  | nil => exact h
  | cons p t ih =>
    simp only [List.foldl_cons]
    apply ih
    rw [sget_dset]
    by_cases hk : k = p.name
    · subst hk; simp [h]
    · simp [hk, h]

/-- `_add_all_sources` brings in the whole entry of `frm` for each listed parameter -/
theorem sget_addAllSources_from (ret : Srcs) (ps : List Param) (frm : Srcs) (k f : Nat)
    (hk : k ∈ names ps) (h : f ∈ sget frm k) : f ∈ sget (addAllSources ret ps frm) k := by
  unfold addAllSources
  induction ps generalizing ret with
  | nil => simp [names] at hk
  | cons p t ih =>
    simp only [List.foldl_cons]
    by_cases hp : k = p.name
    · subst hp
      have := sget_addAllSources_mono (dset ret p.name (sget ret p.name ++ sget frm p.name)) t frm p.name f
        (by rw [sget_dset]; simp [h])
      exact this
    · apply ih
      simp only [names, List.map_cons, List.mem_cons] at hk
      rcases hk with hk | hk
      · exact absurd hk hp
      · exact hk

/-! ### depths -/

/-- one iteration of the loop of `merge_depths` -/
def mdStep (acc : Depths) (e : Nat × Nat) : Depths :=
  match dget acc e.1 with
  | some d => if e.2 > d then acc else dset acc e.1 e.2
  | none => dset acc e.1 e.2

theorem mergeDepths_eq (l r : Depths) : mergeDepths l r = r.foldl mdStep l := rfl

theorem dhas_mdStep (l : Depths) (e : Nat × Nat) (g : Nat) :
    dhas (mdStep l e) g = (decide (g = e.1) || dhas l g) := by
  unfold mdStep
  cases hd : dget l e.1 with
  | none => simp only [dhas_dset]
  | some d =>
    simp only
    split
    · by_cases hg : g = e.1
      · subst hg; simp [dhas, hd]
      · simp [hg]
    · simp only [dhas_dset]

theorem dhas_mergeDepths (l r : Depths) (f : Nat) :
    dhas (mergeDepths l r) f = (dhas l f || dhas r f) := by
  rw [mergeDepths_eq]
  induction r generalizing l with
  | nil => simp [dhas, dget]
  | cons e t ih =>
    simp only [List.foldl_cons]
    rw [ih, dhas_mdStep]
    simp only [dhas, dget]
    by_cases h : e.1 = f
    · subst h; simp
    · have : ¬ f = e.1 := fun x => h x.symm
      simp [h, this]

theorem dhas_copyDepths (d : Depths) (n f : Nat) : dhas (copyDepths d n) f = dhas d f := by
  unfold copyDepths
  induction d with
  | nil => rfl
  | cons e t ih =>
    simp only [List.map_cons, dhas, dget] at ih ⊢
    by_cases h : e.1 = f
    · simp [h]
    · simp only [h, if_false]; exact ih

theorem dget_copyDepths (d : Depths) (n f : Nat) :
    dget (copyDepths d n) f = (dget d f).map (· + n) := by
  unfold copyDepths
  induction d with
  | nil => rfl
  | cons e t ih =>
    simp only [List.map_cons, dget]
    by_cases h : e.1 = f
    · simp [h]
    · simp only [h, if_false]; exact ih

/-- `merge_depths` keeps the smaller depth of a callable reached twice -/
def minDepth : Option Nat → Option Nat → Option Nat
  | some a, some b => some (min a b)
  | some a, none => some a
  | none, some b => some b
  | none, none => none

theorem dget_mdStep (l : Depths) (e : Nat × Nat) (f : Nat) :
    dget (mdStep l e) f = if f = e.1 then minDepth (dget l f) (some e.2) else dget l f := by
  unfold mdStep
  cases hd : dget l e.1 with
  | none =>
    simp only [dget_dset]
    by_cases h : f = e.1
    · subst h; simp [hd, minDepth]
    · simp [h]
  | some d =>
    simp only
    by_cases hgt : e.2 > d
    · simp only [hgt, if_true]
      by_cases h : f = e.1
      · subst h
        simp only [hd, if_true, minDepth]
        congr 1; omega
      · simp [h]
    · simp only [hgt, if_false, dget_dset]
      by_cases h : f = e.1
      · subst h
        simp only [hd, if_true, minDepth]
        congr 1; omega
      · simp [h]

theorem minDepth_assoc (a b c : Option Nat) : minDepth (minDepth a b) c = minDepth a (minDepth b c) := by
  cases a <;> cases b <;> cases c <;> simp [minDepth, Nat.min_assoc]

/-- fold of `minDepth` over the depths recorded for `f` in an association list that may
    list `f` several times (the Python dict on the right never does) -/
def depthOf (r : Depths) (f : Nat) : Option Nat :=
  r.foldl (fun acc e => if e.1 = f then minDepth acc (some e.2) else acc) none

theorem dget_mergeDepths (l r : Depths) (f : Nat) :
    dget (mergeDepths l r) f =
      r.foldl (fun acc e => if e.1 = f then minDepth acc (some e.2) else acc) (dget l f) := by
  rw [mergeDepths_eq]
  induction r generalizing l with
  | nil => rfl
  | cons e t ih =>
    simp only [List.foldl_cons]
    rw [ih, dget_mdStep]
    by_cases h : e.1 = f
    · subst h; simp
    · have : ¬ f = e.1 := fun x => h x.symm
      simp [h, this]

end SV
