/-
  Lemmas/C02MergeFacts.lean — what the merge with the forwarded stars does to a valid inner
  signature, as facts about names / required names.
-/
import Sigverif.Lemmas.C02Inv
import Sigverif.Lemmas.C02View
namespace SV

/-- names of the required parameters of a list -/
def rq (l : List Param) : List Nat := names (l.filter (·.required))

@[simp] theorem rq_nil : rq [] = [] := rfl
@[simp] theorem rq_append (a b : List Param) : rq (a ++ b) = rq a ++ rq b := by simp [rq]
@[simp] theorem rq_map_withKind (l : List Param) (k : Kind) : rq (l.map (·.withKind k)) = rq l := by
  induction l with
  | nil => rfl
  | cons p l ih =>
    simp only [rq, List.map_cons, List.filter_cons] at ih ⊢
    have : (p.withKind k).required = p.required := rfl
    rw [this]
    split
    · simp only [names_cons_C02]; rw [ih]; rfl
    · exact ih
@[simp] theorem names_map_withKind_C02 (l : List Param) (k : Kind) :
    names (l.map (·.withKind k)) = names l := by
  simp [names, Param.withKind]

theorem mem_rq {x : Nat} {l : List Param} : x ∈ rq l ↔ ∃ p ∈ l, p.required = true ∧ p.name = x := by
  simp [rq, mem_names_C02, List.mem_filter, and_assoc]

theorem rq_subset_names {x : Nat} {l : List Param} (h : x ∈ rq l) : x ∈ names l := by
  obtain ⟨p, hp, _, rfl⟩ := mem_rq.1 h
  exact mem_names_of_mem_C02 hp

theorem rq_eq_nil_of_any {l : List Param} (h : ¬ (l.any (·.dflt.isNone)) = true) : rq l = [] := by
  unfold rq
  have : l.filter (·.required) = [] := by
    rw [List.filter_eq_nil_iff]
    intro p hp hr
    apply h
    rw [List.any_eq_true]
    exact ⟨p, hp, hr⟩
  rw [this]; rfl

theorem starOf_isSome (l r : Option Param) (w : Bool) :
    (starOf l r w).isSome = (l.isSome && r.isSome) := by
  cases l <;> cases r <;> simp [starOf]

structure MergeFacts (I i' : Sorted) (sA sK : Bool) : Prop where
  m1 : names (i'.pos ++ i'.pok) = if sA = true then names (I.pos ++ I.pok) else []
  m2 : ∀ x ∈ names (i'.pok ++ i'.kwo), sK = true ∧ x ∈ names (I.pok ++ I.kwo)
  m3 : ∀ x ∈ names (i'.pos ++ i'.pok ++ i'.kwo), x ∈ names (I.pos ++ I.pok ++ I.kwo)
  m4 : ∀ x, x ∈ rq (I.pos ++ I.pok ++ I.kwo) ↔ x ∈ rq (i'.pos ++ i'.pok ++ i'.kwo)
  m5 : i'.va.isSome = (I.va.isSome && sA)
  m6 : i'.vk.isSome = (I.vk.isSome && sK)
  m7 : (names (i'.pos ++ i'.pok ++ i'.kwo)).Nodup

theorem mergeStars_facts {I i' : Sorted} {a k : Option Param}
    (hn : (names (I.pos ++ I.pok ++ I.kwo)).Nodup)
    (h : mergeStars I a k = .ok i') : MergeFacts I i' a.isSome k.isSome := by
  simp only [names_append_C02] at hn
  have hnk : (names I.kwo).Nodup := (List.nodup_append.1 hn).2.1
  have hn1 : (names I.pos ++ names I.pok).Nodup := (List.nodup_append.1 hn).1
  have hn2 : (names I.pok ++ names I.kwo).Nodup := by
    rw [List.append_assoc] at hn
    exact (List.nodup_append.1 hn).2.1
  have hnq : (names I.pok).Nodup := (List.nodup_append.1 hn2).1
  have hpu : pupdate [] I.kwo = I.kwo := by
    simpa using pupdate_of_nodup [] I.kwo (by simpa using hnk)
  unfold mergeStars at h
  simp only [hpu] at h
  split at h
  · rename_i ha
    split at h
    · rename_i hk
      cases h
      simp only [ha, hk]
      exact ⟨by simp, by simp, by simp, by simp, by simp [starOf_isSome, ha],
             by simp [starOf_isSome, hk], by simpa using hn⟩
    · rename_i hk
      split at h
      · cases h
      · rename_i hun
        cases h
        have hr := rq_eq_nil_of_any hun
        simp only [ha, hk]
        refine ⟨by simp, by simp, ?_, by simp [hr], by simp [starOf_isSome, ha], by simp, ?_⟩
        · intro x hx
          simp only [List.append_nil, names_append_C02, names_map_withKind_C02, List.mem_append] at hx ⊢
          exact .inl hx
        · simp only [List.append_nil, names_append_C02, names_map_withKind_C02]
          exact hn1
  · rename_i ha
    split at h
    · cases h
    · rename_i hpos
      have hrp := rq_eq_nil_of_any hpos
      split at h
      · rename_i hk
        cases h
        have hpu2 : pupdate (pupdate [] (I.pok.map (·.withKind .ko))) I.kwo
            = I.pok.map (·.withKind .ko) ++ I.kwo := by
          have h1 : pupdate [] (I.pok.map (·.withKind .ko)) = I.pok.map (·.withKind .ko) := by
            have := pupdate_of_nodup [] (I.pok.map (·.withKind .ko)) (by
              simp only [List.nil_append, names_map_withKind_C02]
              exact hnq)
            simpa using this
          rw [h1]
          apply pupdate_of_nodup
          simp only [names_append_C02, names_map_withKind_C02]
          exact hn2
        simp only [ha, hk, hpu2]
        refine ⟨by simp, by simp, ?_, by simp [hrp], by simp, by simp [starOf_isSome, hk], ?_⟩
        · intro x hx
          simp only [List.nil_append, names_append_C02, names_map_withKind_C02, List.mem_append] at hx ⊢
          rcases hx with hx | hx
          · exact .inl (.inr hx)
          · exact .inr hx
        · simp only [List.nil_append, names_append_C02, names_map_withKind_C02]
          exact hn2
      · rename_i hk
        split at h
        · cases h
        · rename_i hpok
          split at h
          · cases h
          · rename_i hun
            cases h
            simp only [ha, hk]
            exact ⟨by simp, by simp, by simp,
                   by simp [hrp, rq_eq_nil_of_any hpok, rq_eq_nil_of_any hun], by simp, by simp,
                   by simp⟩

end SV
