/-
  Lemmas/C01Mono.lean — the quantities tracked through phases P and Q of `mergeStep`.

  * `NInv ls rs st`  : name discipline (every `pset` into `st.kwo` is an append)
  * `QMono …`        : potentials that only move in the right direction
  * `SInv …`         : kinds and origins of the parameters held by the state
-/
import Sigverif.Lemmas.C01Inv
namespace SV

theorem eq_of_nodup_names {d : List Param} (hn : (names d).Nodup) {p q : Param}
    (hp : p ∈ d) (hq : q ∈ d) (e : p.name = q.name) : p = q := by
  induction d with
  | nil => simp at hp
  | cons a t ih =>
    simp only [names_cons_C01, List.nodup_cons] at hn
    simp only [List.mem_cons] at hp hq
    rcases hp with rfl | hp <;> rcases hq with rfl | hq
    · rfl
    · exact absurd (e ▸ mem_names_of_mem_C01 hq) hn.1
    · exact absurd (e ▸ mem_names_of_mem_C01 hp) hn.1
    · exact ih hn.2 hp hq

/-! ### "some required parameter (named x)" -/

def hasReq (ps : List Param) (x : Nat) : Prop := ∃ p ∈ ps, p.name = x ∧ p.required = true
def anyReq (ps : List Param) : Prop := ∃ p ∈ ps, p.required = true

@[simp] theorem hasReq_nil (x : Nat) : hasReq [] x ↔ False := by simp [hasReq]
@[simp] theorem hasReq_cons (p : Param) (t : List Param) (x : Nat) :
    hasReq (p :: t) x ↔ (p.name = x ∧ p.required = true) ∨ hasReq t x := by simp [hasReq]
@[simp] theorem hasReq_append (a b : List Param) (x : Nat) :
    hasReq (a ++ b) x ↔ hasReq a x ∨ hasReq b x := by
  simp only [hasReq, List.mem_append]
  constructor
  · rintro ⟨p, hp | hp, h⟩
    · exact Or.inl ⟨p, hp, h⟩
    · exact Or.inr ⟨p, hp, h⟩
  · rintro (⟨p, hp, h⟩ | ⟨p, hp, h⟩)
    · exact ⟨p, Or.inl hp, h⟩
    · exact ⟨p, Or.inr hp, h⟩
@[simp] theorem anyReq_nil : anyReq [] ↔ False := by simp [anyReq]
@[simp] theorem anyReq_cons (p : Param) (t : List Param) :
    anyReq (p :: t) ↔ p.required = true ∨ anyReq t := by simp [anyReq]
@[simp] theorem anyReq_append (a b : List Param) : anyReq (a ++ b) ↔ anyReq a ∨ anyReq b := by
  simp only [anyReq, List.mem_append]
  constructor
  · rintro ⟨p, hp | hp, h⟩
    · exact Or.inl ⟨p, hp, h⟩
    · exact Or.inr ⟨p, hp, h⟩
  · rintro (⟨p, hp, h⟩ | ⟨p, hp, h⟩)
    · exact ⟨p, Or.inl hp, h⟩
    · exact ⟨p, Or.inr hp, h⟩
@[simp] theorem anyReq_map_withKind (ps : List Param) (k : Kind) :
    anyReq (ps.map (·.withKind k)) ↔ anyReq ps := by
  simp only [anyReq, List.mem_map]
  constructor
  · rintro ⟨p, ⟨a, ha, rfl⟩, hr⟩; exact ⟨a, ha, by simpa using hr⟩
  · rintro ⟨p, hp, hr⟩; exact ⟨_, ⟨p, hp, rfl⟩, by simpa using hr⟩
theorem hasReq_anyReq {ps : List Param} {x : Nat} (h : hasReq ps x) : anyReq ps := by
  obtain ⟨p, hp, _, hr⟩ := h; exact ⟨p, hp, hr⟩
theorem hasReq_mem_names {ps : List Param} {x : Nat} (h : hasReq ps x) : x ∈ names ps := by
  obtain ⟨p, hp, hx, _⟩ := h; exact mem_names_C01.2 ⟨p, hp, hx⟩
theorem anyReq_iff_reqCount {ps : List Param} : anyReq ps ↔ 0 < reqCount ps := by
  unfold anyReq reqCount; rw [List.countP_pos_iff]

theorem hasReq_ppop {d : List Param} {k x : Nat} : hasReq (ppop d k) x ↔ hasReq d x ∧ x ≠ k := by
  simp only [hasReq, mem_ppop_C01]
  constructor
  · rintro ⟨p, ⟨hp, hk⟩, rfl, hr⟩; exact ⟨⟨p, hp, rfl, hr⟩, hk⟩
  · rintro ⟨⟨p, hp, rfl, hr⟩, hk⟩; exact ⟨p, ⟨hp, hk⟩, rfl, hr⟩

theorem hasReq_of_pget {d : List Param} {k : Nat} {q : Param} (hn : (names d).Nodup)
    (hq : pget d k = some q) : hasReq d k ↔ q.required = true := by
  obtain ⟨hqm, hqn⟩ := pget_some_C01 hq
  constructor
  · rintro ⟨p, hp, hpn, hr⟩
    have : p = q := eq_of_nodup_names hn hp hqm (hpn.trans hqn.symm)
    exact this ▸ hr
  · intro hr; exact ⟨q, hqm, hqn, hr⟩

/-! ### tracked quantities -/

def mlen (st : MState) : Nat := st.pos.length + st.pok.length
def wgt (st : MState) : Nat := reqCount st.pos + reqCount st.pok + reqCount st.kwo

/-- a required parameter named `x` is still "alive": either the result will have a required
    positional-only parameter, or a required keyword-passable parameter named `x` is in the state
    or still to be processed -/
def Wit (ls rs : List Param) (st : MState) (x : Nat) : Prop :=
  anyReq st.pos ∨ hasReq st.pok x ∨ hasReq st.kwo x ∨ hasReq ls x ∨ hasReq rs x

def WitK (st : MState) (x : Nat) : Prop :=
  hasReq st.kwo x ∨ hasReq st.lUn x ∨ hasReq st.rUn x

structure NInv (ls rs : List Param) (st : MState) : Prop where
  nl : (names ls ++ names st.pok ++ names st.kwo ++ names st.lUn).Nodup
  nr : (names rs ++ names st.pok ++ names st.kwo ++ names st.rUn).Nodup
  nu : ∀ x ∈ names st.lUn, x ∉ names st.rUn

structure QMono (l r : Sorted) (ls rs : List Param) (st : MState)
    (ls' rs' : List Param) (st' : MState) : Prop where
  wl : wgt st + reqCount ls ≤ wgt st' + reqCount ls'
  wr : wgt st + reqCount rs ≤ wgt st' + reqCount rs'
  lenl : mlen st' + ls'.length ≤ mlen st + ls.length ∨ l.va.isSome = true
  lenr : mlen st' + rs'.length ≤ mlen st + rs.length ∨ r.va.isSome = true
  pr : anyReq st.pos → anyReq st'.pos
  wit : ∀ x, Wit ls rs st x → Wit ls' rs' st' x
  witK : ∀ x, WitK st x → WitK st' x

theorem QMono.refl (l r : Sorted) (ls rs : List Param) (st : MState) : QMono l r ls rs st ls rs st :=
  ⟨Nat.le_refl _, Nat.le_refl _, Or.inl (Nat.le_refl _), Or.inl (Nat.le_refl _), id,
    fun _ h => h, fun _ h => h⟩

theorem QMono.trans {l r : Sorted} {ls rs ls' rs' ls'' rs'' : List Param} {st st' st'' : MState}
    (a : QMono l r ls rs st ls' rs' st') (b : QMono l r ls' rs' st' ls'' rs'' st'') :
    QMono l r ls rs st ls'' rs'' st'' := by
  refine ⟨Nat.le_trans a.wl b.wl, Nat.le_trans a.wr b.wr, ?_, ?_, fun h => b.pr (a.pr h),
    fun x h => b.wit x (a.wit x h), fun x h => b.witK x (a.witK x h)⟩
  · rcases a.lenl with h | h
    · rcases b.lenl with h' | h'
      · exact Or.inl (by omega)
      · exact Or.inr h'
    · exact Or.inr h
  · rcases a.lenr with h | h
    · rcases b.lenr with h' | h'
      · exact Or.inl (by omega)
      · exact Or.inr h'
    · exact Or.inr h

/-- the allowed name origins of a keyword-passable parameter of the result -/
def OKn (l r : Sorted) (x : Nat) : Prop :=
  (x ∈ names l.pok ∨ x ∈ names l.kwo ∨ l.vk.isSome = true) ∧
  (x ∈ names r.pok ∨ x ∈ names r.kwo ∨ r.vk.isSome = true)

structure SInv (l r : Sorted) (ls rs : List Param) (st : MState) : Prop where
  ls_sub : ∀ p ∈ ls, p ∈ l.pok
  rs_sub : ∀ p ∈ rs, p ∈ r.pok
  lun_sub : ∀ p ∈ st.lUn, p ∈ l.kwo
  run_sub : ∀ p ∈ st.rUn, p ∈ r.kwo
  kpos : ∀ p ∈ st.pos, p.kind = .po
  kpok : ∀ p ∈ st.pok, p.kind = .pk ∧ OKn l r p.name
  kkwo : ∀ p ∈ st.kwo, p.kind = .ko ∧ OKn l r p.name

end SV
