/-
  Lemmas/C05TotalLoop.lean — the revisit loop terminates within `Φ + 1` iterations, where
  `Φ(i, st)` = total size of the queue entries from index `i` on.
-/
import Sigverif.Lemmas.C05TotalExt
namespace SV
namespace C05T

theorem sz_drop_of_getElem? {l : List (Tree × Nat)} {i : Nat} {e : Tree × Nat}
    (h : l[i]? = some e) : sz (l.drop i) = e.1.size + sz (l.drop (i + 1)) := by
  induction l generalizing i with
  | nil => simp at h
  | cons a l ih =>
    cases i with
    | zero => simp at h; subst h; simp
    | succ i => simp at h; simpa using ih h

/-- the fuel suffices as soon as it exceeds the potential -/
theorem revisitLoop_some : ∀ (fuel i : Nat) (st : VState),
    sz (st.revisit.drop i) < fuel → ∃ st', revisitLoop fuel i st = some st'
  | 0, _, _, h => absurd h (Nat.not_lt_zero _)
  | fuel + 1, i, st, h => by
    rw [revisitLoop]
    cases hg : st.revisit[i]? with
    | none => exact ⟨st, rfl⟩
    | some e =>
      obtain ⟨node, ns⟩ := e
      simp only []
      apply revisitLoop_some fuel (i + 1)
      obtain ⟨new, hnew, hsz⟩ := visit_true_ext node { st with cur := ns }
      have hlt : i < st.revisit.length := by
        rcases Nat.lt_or_ge i st.revisit.length with h' | h'
        · exact h'
        · rw [List.getElem?_eq_none h'] at hg; cases hg
      have hd := sz_drop_of_getElem? hg
      have hpos := Tree.size_pos node
      rw [hnew]
      change sz (List.drop (i + 1) (st.revisit ++ new)) < fuel
      rw [List.drop_append_of_le_length (by omega), sz_append]
      simp only [] at hd
      omega

end C05T
end SV
