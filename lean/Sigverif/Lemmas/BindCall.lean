/-
  Lemmas/BindCall.lean — helper lemmas for the bridge between the value-level binding model
  (`bindCall`, Model/Call.lean) and the shape-level one (`accepts`, Model/Bind.lean).
-/
import Sigverif.Model.Call
namespace SV

theorem dhas_nil (k : Nat) : dhas ([] : List (Nat × Nat)) k = false := rfl

theorem dhas_cons (n v : Nat) (t : List (Nat × Nat)) (k : Nat) :
    dhas ((n, v) :: t) k = (n == k || dhas t k) := by
  unfold dhas
  simp only [dget]
  by_cases h : n = k <;> simp [h]

theorem dhas_append (a b : List (Nat × Nat)) (k : Nat) :
    dhas (a ++ b) k = (dhas a k || dhas b k) := by
  induction a with
  | nil => simp [dhas_nil]
  | cons e t ih =>
    obtain ⟨n, v⟩ := e
    simp [dhas_cons, ih, Bool.or_assoc]

theorem dhas_snoc (a : List (Nat × Nat)) (n v k : Nat) :
    dhas (a ++ [(n, v)]) k = (dhas a k || n == k) := by
  simp [dhas_append, dhas_cons, dhas_nil]

/-! ### positional phase -/

theorem bindPos_snd (ps : List Param) (args : List Nat) (acc : List (Nat × Nat)) :
    (bindPos ps args acc).2 = args.drop ps.length := by
  induction ps generalizing args acc with
  | nil => simp [bindPos]
  | cons p ps ih =>
    cases args with
    | nil => simp [bindPos]
    | cons a as => simp [bindPos, ih]

theorem bindPos_dhas (ps : List Param) (args : List Nat) (acc : List (Nat × Nat)) (k : Nat) :
    dhas (bindPos ps args acc).1 k
      = (dhas acc k || ((ps.take args.length).map (·.name)).contains k) := by
  induction ps generalizing args acc with
  | nil => simp [bindPos]
  | cons p ps ih =>
    cases args with
    | nil => simp [bindPos]
    | cons a as =>
      simp only [bindPos, ih, dhas_snoc, List.length_cons, List.take_succ_cons, List.map_cons,
        List.contains_cons, Bool.or_assoc]
      congr 2
      exact Bool.beq_comm

/-! ### keyword phase -/

/-- the two keyword loops run in lock step -/
theorem bindKws_bindKw (s : List Param) (vk : Bool) (kwargs : List (Nat × Nat))
    (named extra : List (Nat × Nat)) (bound : List Nat)
    (hinv : ∀ k, dhas named k = bound.contains k) :
    match bindKws s vk kwargs named extra, bindKw (kwNames s) vk bound (kwargs.map (·.1)) with
    | none, none => True
    | some r, some b => ∀ k, dhas r.1 k = b.contains k
    | _, _ => False := by
  induction kwargs generalizing named extra bound with
  | nil => simpa [bindKws, bindKw] using hinv
  | cons kv rest ih =>
    obtain ⟨k, v⟩ := kv
    simp only [bindKws, bindKw, List.map_cons]
    by_cases hk : (kwNames s).contains k = true
    · simp only [hk, if_true]
      rw [hinv k]
      simp only [List.contains_iff_mem]
      by_cases hb : k ∈ bound
      · simp [hb]
      · simp only [hb, if_false]
        apply ih
        intro k'
        rw [dhas_snoc, hinv k', List.contains_cons, Bool.or_comm]
        congr 1
        exact Bool.beq_comm
    · simp only [hk]
      cases vk with
      | false => simp
      | true =>
        simp only [if_true]
        exact ih _ _ _ hinv

/-! ### defaults -/

theorem fillDefaults_isSome (ps : List Param) (hn : (ps.map (·.name)).Nodup) (named : List (Nat × Nat)) :
    (fillDefaults ps named).isSome = ps.all (fun p => !p.required || dhas named p.name) := by
  induction ps generalizing named with
  | nil => simp [fillDefaults]
  | cons p ps ih =>
    simp only [List.map_cons, List.nodup_cons] at hn
    simp only [fillDefaults, List.all_cons]
    by_cases hb : dhas named p.name = true
    · simp [hb, ih hn.2]
    · have hb' : dhas named p.name = false := by simpa using hb
      simp only [hb', Bool.false_eq_true, if_false]
      cases hd : p.dflt with
      | none => simp [Param.required, hd]
      | some d =>
        simp only [Param.required, hd]
        rw [ih hn.2]
        simp only [Option.isNone_some, Bool.not_false, Bool.true_or, Bool.true_and]
        rw [Bool.eq_iff_iff, List.all_eq_true, List.all_eq_true]
        apply forall_congr'; intro q
        apply imp_congr_right; intro hq
        have : p.name ≠ q.name := fun h => hn.1 (List.mem_map.2 ⟨q, hq, h.symm⟩)
        simp [dhas_snoc, this, Param.required]

/-! ### the bridge, under the weakest hypothesis we need: the named parameters have unique names -/

theorem bindCall_isSome_eq_accepts_of_nodup (s : List Param) (args : List Nat) (kwargs : List (Nat × Nat))
    (hn : ((s.filter isNamed).map (·.name)).Nodup) :
    (bindCall s args kwargs).isSome = accepts s args.length (kwargs.map (·.1)) := by
  unfold bindCall accepts
  have hsnd := bindPos_snd (positionals s) args []
  have hdh := bindPos_dhas (positionals s) args []
  generalize bindPos (positionals s) args [] = r at hsnd hdh
  obtain ⟨named, surplus⟩ := r
  simp only [] at hsnd hdh ⊢
  subst hsnd
  have hc : (!(args.drop (positionals s).length).isEmpty && !hasVa s)
      = (decide (args.length > (positionals s).length) && !hasVa s) := by
    congr 1
    rw [Bool.eq_iff_iff]
    simp [List.drop_eq_nil_iff]
  rw [hc]
  by_cases hgt : (decide (args.length > (positionals s).length) && !hasVa s) = true
  · simp [hgt]
  · simp only [hgt]
    have hinv : ∀ k, dhas named k = (((positionals s).take args.length).map (·.name)).contains k := by
      intro k; rw [hdh k]; simp [dhas_nil]
    have hkw := bindKws_bindKw s (hasVk s) kwargs named [] _ hinv
    revert hkw
    cases bindKws s (hasVk s) kwargs named [] with
    | none =>
      cases bindKw (kwNames s) (hasVk s) (((positionals s).take args.length).map (·.name)) (kwargs.map (·.1)) with
      | none => simp
      | some b => simp
    | some r =>
      cases bindKw (kwNames s) (hasVk s) (((positionals s).take args.length).map (·.name)) (kwargs.map (·.1)) with
      | none => simp
      | some b =>
        obtain ⟨named', extra'⟩ := r
        intro hkw
        simp only [] at hkw ⊢
        have := fillDefaults_isSome (s.filter isNamed) hn named'
        revert this
        cases fillDefaults (s.filter isNamed) named' with
        | none =>
          intro h; simp only [] ; rw [← (funext hkw : (fun k => dhas named' k) = _)]
          simpa using h
        | some nm =>
          intro h; simp only []; rw [← (funext hkw : (fun k => dhas named' k) = _)]
          simpa using h

end SV
