/-
  Lemmas/C20Mod.lean — the string layer of `support`, part 2: the modifiers-based spellings
  (`use_modifiers_annotate`, `use_modifiers_posoargs`, `use_modifiers_kwoargs`) on texts without `/` and `<…>`.
  The loop of `read_sig` phase by phase, for any option combination.
-/
import Sigverif.Lemmas.C20Text
namespace SV
set_option linter.unusedSimpArgs false
set_option linter.unusedVariables false

/-- the item `read_sig` makes of a parameter: with `use_modifiers_annotate` the annotation goes to the decorator -/
def itemU (ua : Bool) (stars : Nat) (p : Param) : Item := .par stars p.name (if ua then none else p.ann) p.dflt

/-- `annotations[name] = annotation` (only with `use_modifiers_annotate`) -/
def annUpd (ua : Bool) (anns : List (Nat × Nat)) (p : Param) : List (Nat × Nat) :=
  match p.ann with
  | some a => if ua then dset anns p.name a else anns
  | none => anns

theorem rsMeta_eq (ua : Bool) (st : RS) (i stars : Nat) (p : Param) :
    rsMeta ua st i stars p.name p.ann p.dflt =
      ({ st with anns := annUpd ua st.anns p, dfltIdx := newDfltIdx st i p.dflt }, itemU ua stars p) := by
  cases ha : p.ann <;> cases ua <;>
    simp only [rsMeta, newDfltIdx, annUpd, itemU, ha, Bool.false_eq_true, if_false, if_true] <;> split <;> simp_all

def plainP (p : Param) : Piece := .plain p.name p.ann p.dflt

/-- index of the first defaulted parameter, counting from `i` -/
def firstD : Nat → List Param → Option Nat
  | _, [] => none
  | i, p :: ps => if p.dflt.isSome then some i else firstD (i + 1) ps

/-! ### phase A: the positional-or-keyword parameters (before any star) -/

theorem rsLoop_pk (ua upo ukw : Bool) (L : List Param) : ∀ (st : RS) (i : Nat), st.foundStar = false →
    rsLoop ua upo ukw st i (L.map plainP) =
      { st with params := st.params ++ L.map (itemU ua 0), names := st.names ++ L.map (·.name),
                anns := L.foldl (annUpd ua) st.anns,
                dfltIdx := if st.dfltIdx.isSome then st.dfltIdx else firstD i L } := by
  induction L with
  | nil => intro st i _; obtain ⟨a, b, c, d, e, f, g, h, j, k⟩ := st; cases k <;> simp [rsLoop, firstD]
  | cons p L ih =>
    intro st i hfs
    simp only [List.map_cons, plainP, rsLoop, rsStep, rsMeta_eq, rsNamed, hfs, Bool.false_eq_true, if_false]
    rw [ih]
    · simp only [newDfltIdx, hfs, Bool.false_eq_true, if_false, List.foldl_cons, firstD]
      cases hd : st.dfltIdx <;> cases hp : p.dflt <;> simp [hd, hp]
    · simpa using hfs

/-! ### phase C: the keyword-only parameters under `use_modifiers_kwoargs` -/

theorem insertAt_append (R X : List Item) (it : Item) : insertAt (R ++ X) R.length it = R ++ it :: X := by
  simp [insertAt]

theorem insertBeforeLast_snoc (X : List Item) (t it : Item) : insertBeforeLast (X ++ [t]) it = X ++ [it, t] := by
  simp [insertBeforeLast]

def reqs (K : List Param) : List Param := K.filter (fun p => p.dflt.isNone)
def dfls (K : List Param) : List Param := K.filter (fun p => p.dflt.isSome)

/-- `params[-1].startswith('*')` for `R ++ D ++ T` when only `T` holds star items -/
theorem last_isStar (X T : List Item) (hX : ∀ x ∈ X, x.isStar = false)
    (hT : T = [] ∨ ∃ t, T = [t] ∧ t.isStar = true) :
    (X ++ T).getLast?.any Item.isStar = !T.isEmpty := by
  rcases hT with rfl | ⟨t, rfl, ht⟩
  · simp only [List.append_nil, List.isEmpty_nil, Bool.not_true]
    cases h : X.getLast? with
    | none => rfl
    | some x =>
      have : x ∈ X := List.mem_of_getLast? h
      simp [hX x this]
  · simp [ht]

theorem rsLoop_ko (ua upo : Bool) (K : List Param) : ∀ (R D : List Item) (T : List Item) (st : RS) (i : Nat),
    st.foundStar = true → st.chev = none → st.params = R ++ D ++ T →
    (T = [] ∨ ∃ t, T = [t] ∧ t.isStar = true) →
    (∀ x ∈ R ++ D, x.isStar = false) →
    st.dfltIdx = (if D = [] then none else some R.length) →
    i = R.length + D.length + 1 →
    rsLoop ua upo true st i (K.map plainP) =
      { st with params := (R ++ (reqs K).map (itemU ua 0)) ++ (D ++ (dfls K).map (itemU ua 0)) ++ T,
                names := st.names ++ K.map (·.name), kwo := st.kwo ++ K.map (·.name),
                anns := K.foldl (annUpd ua) st.anns,
                dfltIdx := if D ++ (dfls K).map (itemU ua 0) = [] then none
                           else some (R ++ (reqs K).map (itemU ua 0)).length } := by
  induction K with
  | nil =>
    intro R D T st i _ _ hp _ _ hd _
    obtain ⟨a, b, c, d, e, f, g, h, j, k⟩ := st
    simp only at hp hd
    subst hp hd
    by_cases hD : D = [] <;> simp [rsLoop, reqs, dfls, hD]
  | cons p K ih =>
    intro R D T st i hfs hch hp hT hRD hd hi
    simp only [List.map_cons, plainP, rsLoop, rsStep, rsMeta_eq, rsNamed, hfs, if_true, Bool.not_true, Bool.false_eq_true, if_false]
    have hlast : ∀ X, (∀ x ∈ X, x.isStar = false) → (X ++ T).getLast?.any Item.isStar = !T.isEmpty :=
      fun X hX => last_isStar X T hX hT
    have hstarR : ∀ x ∈ R ++ [itemU ua 0 p], x.isStar = false := by
      intro x hx
      simp only [List.mem_append, List.mem_singleton] at hx
      rcases hx with hx | rfl
      · exact hRD x (by simp [hx])
      · simp [itemU, Item.isStar]
    have hstarRD : ∀ x ∈ (R ++ [itemU ua 0 p]) ++ D, x.isStar = false := by
      intro x hx
      simp only [List.mem_append, List.mem_singleton] at hx
      rcases hx with (hx | rfl) | hx
      · exact hRD x (by simp [hx])
      · simp [itemU, Item.isStar]
      · exact hRD x (by simp [hx])
    have hstarDp : ∀ x ∈ R ++ (D ++ [itemU ua 0 p]), x.isStar = false := by
      intro x hx
      simp only [List.mem_append, List.mem_singleton] at hx
      rcases hx with hx | hx | rfl
      · exact hRD x (by simp [hx])
      · exact hRD x (by simp [hx])
      · simp [itemU, Item.isStar]
    cases hpd : p.dflt with
    | none =>
      -- required: goes in front of the defaulted ones
      have hnd : newDfltIdx st i none = st.dfltIdx := by simp [newDfltIdx]
      simp only [hnd, Option.isSome_none, Bool.not_false, if_true]
      have hreq : reqs (p :: K) = p :: reqs K := by simp [reqs, hpd]
      have hdfl : dfls (p :: K) = dfls K := by simp [dfls, hpd]
      by_cases hD : D = []
      · subst hD
        rw [hd]; simp only [if_true]
        simp only [List.append_nil] at hp hRD
        rw [hp, hlast R hRD]
        rcases hT with rfl | ⟨t, rfl, ht⟩
        · simp only [List.isEmpty_nil, Bool.not_true, Bool.false_eq_true, if_false, List.append_nil]
          rw [ih (R ++ [itemU ua 0 p]) [] []]
          · simp [hreq, hdfl, hpd]
          · rfl
          · exact hch
          · simp
          · exact Or.inl rfl
          · simpa using hstarR
          · simp [hd]
          · simp [hi]
        · simp only [List.isEmpty_cons, Bool.not_false, if_true]
          rw [insertBeforeLast_snoc]
          rw [ih (R ++ [itemU ua 0 p]) [] [t]]
          · simp [hreq, hdfl, hpd]
          · rfl
          · exact hch
          · simp
          · exact Or.inr ⟨t, rfl, ht⟩
          · simpa using hstarR
          · simp [hd]
          · simp [hi]
      · rw [hd]; simp only [hD, if_false]
        rw [hp, List.append_assoc, insertAt_append]
        rw [ih (R ++ [itemU ua 0 p]) D T]
        · simp [hreq, hdfl, hpd, hD]
        · rfl
        · exact hch
        · simp
        · exact hT
        · exact hstarRD
        · simp [hD]
        · simp [hi]; omega
    | some dv =>
      have hreq : reqs (p :: K) = reqs K := by simp [reqs, hpd]
      have hdfl : dfls (p :: K) = p :: dfls K := by simp [dfls, hpd]
      have hnd : newDfltIdx st i (some dv) = some R.length := by
        simp only [newDfltIdx, Option.isSome_some, Bool.true_and, hfs, if_true, hd]
        by_cases hD : D = []
        · subst hD; simp [hi]
        · simp [hD]
      simp only [hnd, Option.isSome_some, Bool.not_true, Bool.false_eq_true, if_false]
      rw [hp, hlast (R ++ D) hRD]
      rcases hT with rfl | ⟨t, rfl, ht⟩
      · simp only [List.isEmpty_nil, Bool.not_true, Bool.false_eq_true, if_false, List.append_nil]
        rw [ih R (D ++ [itemU ua 0 p]) []]
        · simp [hreq, hdfl, hpd]
        · rfl
        · exact hch
        · simp
        · exact Or.inl rfl
        · exact hstarDp
        · simp
        · simp [hi]; omega
      · simp only [List.isEmpty_cons, Bool.not_false, if_true]
        rw [← List.append_assoc, insertBeforeLast_snoc]
        rw [ih R (D ++ [itemU ua 0 p]) [t]]
        · simp [hreq, hdfl, hpd]
        · rfl
        · exact hch
        · simp
        · exact Or.inr ⟨t, rfl, ht⟩
        · exact hstarDp
        · simp
        · simp [hi]; omega


/-! ### the text of a signature without positional-only parameters, bucket by bucket -/

/-- the star piece between the positional and the keyword-only parameters -/
def midPieces (va : Option Param) (ko : List Param) : List Piece :=
  match va with
  | some v => [.star false v.name v.ann v.dflt]
  | none => if ko = [] then [] else [.bare]

def vkPieces (vk : Option Param) : List Piece :=
  match vk with
  | some v => [.star true v.name v.ann v.dflt]
  | none => []

theorem piecesAux_pk (L rest : List Param) (hk : ∀ p ∈ L, p.kind = .pk) :
    ∀ prev, (prev = none ∨ prev = some .pk) →
    piecesAux prev (L ++ rest) = L.map plainP ++ piecesAux (if L = [] then prev else some .pk) rest := by
  induction L with
  | nil => intro prev _; simp
  | cons p L ih =>
    intro prev hprev
    have hkp := hk p (by simp)
    rw [List.cons_append, piecesAux_cons, ih (fun q hq => hk q (List.mem_cons_of_mem _ hq)) _ (Or.inr (by rw [hkp]))]
    rcases hprev with rfl | rfl <;> simp [hkp, pieceOf, plainP]

theorem piecesAux_ko (L rest : List Param) (hk : ∀ p ∈ L, p.kind = .ko) :
    ∀ prev, (prev = some .vp ∨ prev = some .ko) →
    piecesAux prev (L ++ rest) = L.map plainP ++ piecesAux (if L = [] then prev else some .ko) rest := by
  induction L with
  | nil => intro prev _; simp
  | cons p L ih =>
    intro prev hprev
    have hkp := hk p (by simp)
    rw [List.cons_append, piecesAux_cons, ih (fun q hq => hk q (List.mem_cons_of_mem _ hq)) _ (Or.inr (by rw [hkp]))]
    rcases hprev with rfl | rfl <;> simp [hkp, pieceOf, plainP]

theorem piecesAux_vk (vk : Option Param) (hk : ∀ p ∈ vk, p.kind = .vk) (prev : Option Kind) (h : prev ≠ some .po) :
    piecesAux prev vk.toList = vkPieces vk := by
  cases vk with
  | none => simp [piecesAux, vkPieces, h]
  | some v =>
    have := hk v rfl
    simp [piecesAux, vkPieces, this, h]

/-- `str(sig)[1:-1]` for `sig = pk ++ *va ++ ko ++ **vk`, piece by piece -/
theorem pieces_buckets (pk ko : List Param) (va vk : Option Param)
    (hpk : ∀ p ∈ pk, p.kind = .pk) (hko : ∀ p ∈ ko, p.kind = .ko)
    (hva : ∀ p ∈ va, p.kind = .vp) (hvk : ∀ p ∈ vk, p.kind = .vk) :
    pieces (pk ++ va.toList ++ ko ++ vk.toList) = pk.map plainP ++ midPieces va ko ++ ko.map plainP ++ vkPieces vk := by
  unfold pieces
  rw [List.append_assoc, List.append_assoc, piecesAux_pk pk _ hpk none (Or.inl rfl)]
  have hprev : (if pk = [] then (none : Option Kind) else some .pk) = none ∨
      (if pk = [] then (none : Option Kind) else some .pk) = some .pk := by split <;> simp
  generalize (if pk = [] then (none : Option Kind) else some .pk) = prev at hprev
  have hnpo : prev ≠ some .po := by rcases hprev with rfl | rfl <;> simp
  cases va with
  | some v =>
    have hv := hva v rfl
    simp only [Option.toList_some, List.cons_append, List.nil_append, midPieces]
    rw [piecesAux_cons, piecesAux_ko ko _ hko _ (Or.inl (by rw [hv])), piecesAux_vk vk hvk _ (by split <;> simp [hv])]
    rcases hprev with rfl | rfl <;> simp [hv, pieceOf]
  | none =>
    simp only [Option.toList_none, List.nil_append, midPieces]
    cases ko with
    | nil => simp [piecesAux_vk vk hvk prev hnpo]
    | cons k ko =>
      have hk := hko k (by simp)
      rw [List.cons_append, piecesAux_cons, piecesAux_ko ko _ (fun q hq => hko q (List.mem_cons_of_mem _ hq)) _ (Or.inr (by rw [hk])),
        piecesAux_vk vk hvk _ (by split <;> simp [hk])]
      rcases hprev with rfl | rfl <;> simp [hk, pieceOf, plainP]

theorem rsLoop_append (ua upo ukw : Bool) (a b : List Piece) : ∀ (st : RS) (i : Nat),
    rsLoop ua upo ukw st i (a ++ b) = rsLoop ua upo ukw (rsLoop ua upo ukw st i a) (i + a.length) b := by
  induction a with
  | nil => intro st i; simp [rsLoop]
  | cons x xs ih => intro st i; simp only [List.cons_append, rsLoop, ih, List.length_cons]; congr 1; omega


theorem firstD_sorted (pk : List Param) (h : pk = reqs pk ++ dfls pk) (i : Nat) :
    firstD i pk = if dfls pk = [] then none else some (i + (reqs pk).length) := by
  induction pk generalizing i with
  | nil => simp [firstD, dfls]
  | cons p pk ih =>
    cases hd : p.dflt with
    | some d =>
      -- p is defaulted: nothing required may follow, so there is nothing required at all
      have h1 : reqs (p :: pk) = reqs pk := by simp [reqs, hd]
      have h2 : dfls (p :: pk) = p :: dfls pk := by simp [dfls, hd]
      rw [h1, h2] at h
      have : reqs pk = [] := by
        cases hr : reqs pk with
        | nil => rfl
        | cons q qs =>
          exfalso
          rw [hr] at h
          have hq : q = p := by simpa using (List.cons.inj h).1.symm
          have : q ∈ reqs pk := by rw [hr]; simp
          simp only [reqs, List.mem_filter] at this
          rw [hq, hd] at this; simp at this
      simp [firstD, hd, h1, h2, this]
    | none =>
      have h1 : reqs (p :: pk) = p :: reqs pk := by simp [reqs, hd]
      have h2 : dfls (p :: pk) = dfls pk := by simp [dfls, hd]
      rw [h1, h2] at h
      have h' : pk = reqs pk ++ dfls pk := by simpa using (List.cons.inj h).2
      simp only [firstD, hd, Option.isSome_none, Bool.false_eq_true, if_false, h1, h2, List.length_cons]
      rw [ih h']; split <;> simp; omega

/-- the loop of `read_sig` with `use_modifiers_kwoargs` over the text of `pk ++ *va ++ ko ++ **vk` -/
theorem rsLoop_buckets (ua upo : Bool) (pk ko : List Param) (va vk : Option Param)
    (hsorted : pk = reqs pk ++ dfls pk) (hvad : ∀ v ∈ va, v.dflt = none) (hvkd : ∀ v ∈ vk, v.dflt = none) :
    ∃ st, rsLoop ua upo true {} 0 (pk.map plainP ++ (midPieces va ko ++ (ko.map plainP ++ vkPieces vk))) = st ∧
    st.params = ((reqs pk ++ reqs ko).map (itemU ua 0)) ++ ((dfls pk ++ dfls ko).map (itemU ua 0))
                ++ (va.toList.map (itemU ua 1)) ++ (vk.toList.map (itemU ua 2)) ∧
    st.kwo = ko.map (·.name) ∧ st.poso = [] ∧ st.chev = none ∧
    st.anns = (pk ++ va.toList ++ ko ++ vk.toList).foldl (annUpd ua) [] := by
  refine ⟨_, rfl, ?_⟩
  simp only [rsLoop_append]
  rw [rsLoop_pk ua upo true pk {} 0 rfl]
  simp only [List.nil_append, Option.isSome_none, Bool.false_eq_true, if_false, List.length_map, Nat.zero_add]
  rw [firstD_sorted pk hsorted 0]
  simp only [Nat.zero_add]
  have hpkmap : pk.map (itemU ua 0) = (reqs pk).map (itemU ua 0) ++ (dfls pk).map (itemU ua 0) := by
    rw [← List.map_append, ← hsorted]
  have hstar0 : ∀ x ∈ (reqs pk).map (itemU ua 0) ++ (dfls pk).map (itemU ua 0), x.isStar = false := by
    intro x hx
    simp only [List.mem_append, List.mem_map] at hx
    rcases hx with ⟨q, _, rfl⟩ | ⟨q, _, rfl⟩ <;> simp [itemU, Item.isStar]
  have hD : ((dfls pk).map (itemU ua 0) = []) ↔ dfls pk = [] := by simp
  have hlen : pk.length = (reqs pk).length + (dfls pk).length := by
    conv => lhs; rw [hsorted]
    simp
  cases va with
  | some v =>
    have hvd := hvad v rfl
    simp only [midPieces, rsLoop, rsStep, rsMeta_eq, rsChevFix, Bool.false_eq_true, if_false, List.length_cons, List.length_nil]
    rw [rsLoop_ko ua upo ko ((reqs pk).map (itemU ua 0)) ((dfls pk).map (itemU ua 0)) [itemU ua 1 v]]
    rotate_left
    · rfl
    · rfl
    · simp [hpkmap]
    · exact Or.inr ⟨_, rfl, by simp [itemU, Item.isStar]⟩
    · exact hstar0
    · simp [newDfltIdx, hvd, hD]
    · simp [hlen]
    cases vk with
    | none => simp [vkPieces, rsLoop, List.foldl_append]
    | some w => simp [vkPieces, rsLoop, rsStep, rsMeta_eq, rsChevFix, List.foldl_append]
  | none =>
    by_cases hko : ko = []
    · subst hko
      simp only [midPieces, if_true, rsLoop, List.map_nil]
      cases vk with
      | none => simp [vkPieces, rsLoop, reqs, dfls, hpkmap, List.foldl_append]
      | some w => simp [vkPieces, rsLoop, rsStep, rsMeta_eq, rsChevFix, reqs, dfls, hpkmap, List.foldl_append]
    · simp only [midPieces, hko, if_false, rsLoop, rsStep, rsChevFix, Bool.not_true, Bool.false_eq_true, List.length_cons,
        List.length_nil]
      rw [rsLoop_ko ua upo ko ((reqs pk).map (itemU ua 0)) ((dfls pk).map (itemU ua 0)) []]
      rotate_left
      · rfl
      · rfl
      · simp [hpkmap]
      · exact Or.inl rfl
      · exact hstar0
      · simp [hD]
      · simp [hlen]
      cases vk with
      | none => simp [vkPieces, rsLoop, List.foldl_append]
      | some w => simp [vkPieces, rsLoop, rsStep, rsMeta_eq, rsChevFix, List.foldl_append]

/-- **`read_sig` with `use_modifiers_kwoargs`**: on the text of `pk ++ *va ++ ko ++ **vk` the generated `def` lists the
    required parameters (positional first, then the keyword-only ones), then the defaulted ones (same order), then the
    star parameters; `kwoarg_n` names the keyword-only parameters; nothing is asked of `posoargs` -/
theorem readSig_kwo (ua upo : Bool) (pk ko : List Param) (va vk : Option Param)
    (hsorted : pk = reqs pk ++ dfls pk) (hvad : ∀ v ∈ va, v.dflt = none) (hvkd : ∀ v ∈ vk, v.dflt = none) :
    (readSig ua upo true (pk.map plainP ++ (midPieces va ko ++ (ko.map plainP ++ vkPieces vk)))).params =
        ((reqs pk ++ reqs ko).map (itemU ua 0)) ++ ((dfls pk ++ dfls ko).map (itemU ua 0))
          ++ (va.toList.map (itemU ua 1)) ++ (vk.toList.map (itemU ua 2)) ∧
    (readSig ua upo true (pk.map plainP ++ (midPieces va ko ++ (ko.map plainP ++ vkPieces vk)))).kwo = ko.map (·.name) ∧
    (readSig ua upo true (pk.map plainP ++ (midPieces va ko ++ (ko.map plainP ++ vkPieces vk)))).poso = [] ∧
    (readSig ua upo true (pk.map plainP ++ (midPieces va ko ++ (ko.map plainP ++ vkPieces vk)))).anns =
        (pk ++ va.toList ++ ko ++ vk.toList).foldl (annUpd ua) [] := by
  obtain ⟨st, h, h1, h2, h3, h4, h5⟩ := rsLoop_buckets ua upo pk ko va vk hsorted hvad hvkd
  simp only [readSig, h, rsChevFix, h4]
  exact ⟨h1, h2, h3, h5⟩

end SV
