/-
  Lemmas/C03Main.lean — assembling the phases of `mask`: the state before the loop satisfies the
  invariant, the loop preserves it, the rebuilt signature is valid.
-/
import Sigverif.Lemmas.C03Mask
namespace SV

theorem maskNames_inv {pos : List Param} {vk : Option Param} (xs : List Nat) {st st' : KState}
    (inv : Inv pos vk st) (h : maskNames vk st (plainNames xs) = .ok st') : Inv pos vk st' := by
  induction xs generalizing st with
  | nil => simp only [plainNames, List.map_nil, maskNames] at h; cases h; exact inv
  | cons x rest ih =>
    rw [maskNames_cons] at h
    have hk := maskName_kind inv x
    cases hr : maskName vk st x none with
    | error e => rw [hr] at h; cases h
    | ok st1 =>
      rw [hr] at h hk
      exact ih (step_inv inv hk).1 h

/-- what the first phase returns -/
theorem prelude_ok {s : Sorted} {n : Nat} {h : HideFlags} {c : List Nat} {pos pok : List Param}
    (hp : prelude s n h = .ok (c, pos, pok)) :
    (h.args = true ∧ c = names s.pos ++ names s.pok ∧ pos = [] ∧ pok = []) ∨
    (h.args = false ∧ (n ≤ (s.pos ++ s.pok).length ∨ s.va.isSome = true) ∧
      c = names ((s.pos ++ s.pok).take n) ∧ pos = s.pos.drop n ∧
      pok = s.pok.drop (n - s.pos.length)) := by
  rw [prelude_eq] at hp
  by_cases ha : h.args = true
  · rw [if_pos ha] at hp
    cases hp
    exact Or.inl ⟨ha, rfl, rfl, rfl⟩
  · rw [if_neg ha] at hp
    split at hp
    · cases hp
    · rename_i hneg
      cases hp
      refine Or.inr ⟨by simpa using ha, ?_, rfl, rfl, rfl⟩
      by_cases hl : n ≤ (s.pos ++ s.pok).length
      · exact Or.inl hl
      · right
        simp only [List.length_append] at hl
        cases hv : s.va with
        | none => exact absurd ⟨by omega, hv⟩ hneg
        | some a => rfl

theorem prelude_err {s : Sorted} {n : Nat} {h : HideFlags} {e : Err}
    (hp : prelude s n h = .error e) :
    e = .valueError ∧ h.args = false ∧ s.pos.length + s.pok.length < n ∧ s.va = none := by
  rw [prelude_eq] at hp
  by_cases ha : h.args = true
  · rw [if_pos ha] at hp; cases hp
  · rw [if_neg ha] at hp
    split at hp
    · rename_i hc
      cases hp
      exact ⟨rfl, by simpa using ha, hc.1, hc.2⟩
    · cases hp

/-- the bucketed signature before the loop is well-formed (any flags) -/
theorem init_swf {s : Sorted} (hs : SWF s) {n : Nat} {h : HideFlags} {c : List Nat}
    {pos pok : List Param} (hp : prelude s n h = .ok (c, pos, pok)) :
    SWF (sOf pos s.vk (initState s h c pok)) := by
  have hsub : (pos ++ pok).Sublist (s.pos ++ s.pok) ∧ (∀ p ∈ pos, p ∈ s.pos) ∧ (∀ p ∈ pok, p ∈ s.pok) := by
    rcases prelude_ok hp with ⟨-, -, rfl, rfl⟩ | ⟨-, -, -, rfl, rfl⟩
    · simp
    · refine ⟨?_, fun p hp => List.mem_of_mem_drop hp, fun p hp => List.mem_of_mem_drop hp⟩
      rw [← List.drop_append]
      exact List.drop_sublist _ _
  apply swf_sub hs
  · simp only [sOf, initState]
    split
    · simp only [List.append_nil]
      exact ((List.sublist_append_left pos pok).trans hsub.1)
    · exact hsub.1
  · exact hsub.2.1
  · simp only [sOf, initState]
    split
    · simp
    · exact hsub.2.2
  · simp only [sOf, initState]
    split
    · exact Or.inl rfl
    · exact Or.inr rfl
  · simp only [sOf, initState]
    split
    · simp
    · exact List.Sublist.refl _
  · exact Or.inr rfl

/-- ... and satisfies the loop invariant when the loop runs (hide_kwargs off) -/
theorem init_inv {s : Sorted} (hs : SWF s) {n : Nat} {h : HideFlags} {c : List Nat}
    {pos pok : List Param} (hp : prelude s n h = .ok (c, pos, pok)) (hk : h.kwargs = false) :
    Inv pos s.vk (initState s h c pok) := by
  refine ⟨init_swf hs hp, ?_⟩
  simp only [initState, hk, Bool.false_eq_true, if_false]
  rcases prelude_ok hp with ⟨-, rfl, rfl, rfl⟩ | ⟨-, -, rfl, rfl, rfl⟩
  · exact ⟨s.pok, by simp, fun x hx => by simp [hx]⟩
  · refine ⟨s.pok.take (n - s.pos.length), by simp, ?_⟩
    intro x hx
    rw [List.take_append]
    simp [hx]

/-- removing `**kwargs` at the end keeps well-formedness -/
theorem final_swf {pos : List Param} {vk : Option Param} {st : KState} (hs : SWF (sOf pos vk st))
    (vk' : Option Param) (hvk : vk' = none ∨ vk' = vk) : SWF (sOf pos vk' st) := by
  apply swf_sub hs
  · exact List.Sublist.refl _
  · exact fun p hp => hp
  · exact fun p hp => hp
  · exact Or.inr rfl
  · exact List.Sublist.refl _
  · exact hvk

theorem finalVk_cases (s : Sorted) (h : HideFlags) : finalVk s h = none ∨ finalVk s h = s.vk := by
  unfold finalVk; split
  · exact Or.inl rfl
  · exact Or.inr rfl

/-- `mask` unfolded into its three phases, with the final validation discharged -/
theorem mask_phases {sig : USig} (hwf : WF sig.params) (n : Nat) (nms : List Nat) (h : HideFlags) :
    mask sig n nms h =
      match prelude (sortParams sig) n h with
      | .error e => .error e
      | .ok (c, pos, pok) =>
        match maskNames (sortParams sig).vk (initState (sortParams sig) h c pok)
            (plainNames (if h.kwargs then [] else nms)) with
        | .error e => .error e
        | .ok st =>
          .ok { params := (sOf pos (finalVk (sortParams sig) h) st).all,
                src := finalSrc (sortParams sig) h st, depths := sig.depths,
                ret := sig.ret, uret := sig.uret } := by
  rw [mask_eq]
  have hs := sortParams_swf hwf
  cases hp : prelude (sortParams sig) n h with
  | error e => rfl
  | ok t =>
    obtain ⟨c, pos, pok⟩ := t
    simp only
    cases hm : maskNames (sortParams sig).vk (initState (sortParams sig) h c pok)
        (plainNames (if h.kwargs then [] else nms)) with
    | error e => rfl
    | ok st =>
      simp only
      have inv : SWF (sOf pos (sortParams sig).vk st) := by
        by_cases hk : h.kwargs = true
        · simp only [hk, if_true, plainNames, List.map_nil, maskNames] at hm
          cases hm
          exact init_swf hs hp
        · have hk' : h.kwargs = false := by simpa using hk
          exact (maskNames_inv _ (init_inv hs hp hk') hm).swf
      have fin := final_swf inv _ (finalVk_cases (sortParams sig) h)
      have hv := fin.validate
      unfold applyParams
      simp only [sOf, Sorted.all] at hv
      simp only [Sorted.all, hv, bind, Except.bind, pure, Except.pure, sOf, (sortParams_src sig).2]


/-- the loop result is well-formed whenever the loop succeeds (any flags) -/
theorem loop_swf {s : Sorted} (hs : SWF s) {n : Nat} {nms : List Nat} {h : HideFlags} {c : List Nat}
    {pos pok : List Param} (hp : prelude s n h = .ok (c, pos, pok)) {st : KState}
    (hm : maskNames s.vk (initState s h c pok) (plainNames (if h.kwargs then [] else nms)) = .ok st) :
    SWF (sOf pos s.vk st) := by
  by_cases hk : h.kwargs = true
  · simp only [hk, if_true, plainNames, List.map_nil, maskNames] at hm
    cases hm
    exact init_swf hs hp
  · have hk' : h.kwargs = false := by simpa using hk
    exact (maskNames_inv _ (init_inv hs hp hk') hm).swf

/-- inversion of a successful `mask` -/
theorem mask_ok {sig R : USig} (hwf : WF sig.params) {n : Nat} {nms : List Nat} {h : HideFlags}
    (hR : mask sig n nms h = .ok R) :
    ∃ c pos pok st, prelude (sortParams sig) n h = .ok (c, pos, pok) ∧
      maskNames (sortParams sig).vk (initState (sortParams sig) h c pok)
        (plainNames (if h.kwargs then [] else nms)) = .ok st ∧
      SWF (sOf pos (sortParams sig).vk st) ∧
      SWF (sOf pos (finalVk (sortParams sig) h) st) ∧
      R = { params := (sOf pos (finalVk (sortParams sig) h) st).all,
            src := finalSrc (sortParams sig) h st, depths := sig.depths,
            ret := sig.ret, uret := sig.uret } := by
  rw [mask_phases hwf] at hR
  have hs := sortParams_swf hwf
  cases hp : prelude (sortParams sig) n h with
  | error e => rw [hp] at hR; cases hR
  | ok t =>
    obtain ⟨c, pos, pok⟩ := t
    rw [hp] at hR
    simp only at hR
    cases hm : maskNames (sortParams sig).vk (initState (sortParams sig) h c pok)
        (plainNames (if h.kwargs then [] else nms)) with
    | error e => rw [hm] at hR; cases hR
    | ok st =>
      rw [hm] at hR
      simp only at hR
      cases hR
      have l := loop_swf hs hp hm
      exact ⟨c, pos, pok, st, rfl, hm, l, final_swf l _ (finalVk_cases _ h), rfl⟩



theorem SWF.nodup_pp {s : Sorted} (hs : SWF s) : (names (s.pos ++ s.pok)).Nodup := by
  have := hs.nd
  simp only [Sorted.all, List.append_assoc] at this
  rw [← List.append_assoc, names_append] at this
  exact (List.nodup_append.1 this).1

theorem SWF.kwo_disj {s : Sorted} (hs : SWF s) : ∀ p ∈ s.kwo, p.name ∉ names (s.pos ++ s.pok) := by
  obtain ⟨-, -, -, -, p5, p6⟩ := hs.parts
  intro p hp h
  have hk := mem_names_of_mem hp
  simp only [names_append, List.mem_append] at h
  rcases h with h | h
  · exact p5 _ h hk
  · exact p6 _ h hk

theorem take_drop_disj {s : Sorted} (hs : SWF s) (n : Nat) :
    ∀ k, k ∈ names ((s.pos ++ s.pok).take n) →
      k ∉ names (s.pok.drop (n - s.pos.length)) ∧ k ∉ names s.kwo := by
  intro k hk
  constructor
  · intro h
    have nd := hs.nodup_pp
    rw [← List.take_append_drop n (s.pos ++ s.pok), names_append] at nd
    have h2 : k ∈ names ((s.pos ++ s.pok).drop n) := by
      rw [List.drop_append]; simp [h]
    exact (List.nodup_append.1 nd).2.2 k hk k h2 rfl
  · intro h
    obtain ⟨p, hp, rfl⟩ := mem_names.1 h
    apply hs.kwo_disj p hp
    rw [names_take] at hk
    exact List.mem_of_mem_take hk

/-- every well-formed signature accepts the call that passes every positional parameter
    positionally and every keyword-only parameter by name -/
theorem accP_full {s : Sorted} (hs : SWF s) : AccP s (s.pos ++ s.pok).length (names s.kwo) := by
  refine ⟨Or.inl (Nat.le_refl _), ?_, ?_⟩
  · intro k hk
    refine ⟨fun _ => ?_, fun h => absurd (Or.inr hk) h⟩
    rw [List.take_length]
    obtain ⟨p, hp, rfl⟩ := mem_names.1 hk
    exact hs.kwo_disj p hp
  · intro p hp hr
    rw [List.take_length]
    rcases hp with hp | hp | hp
    · right; exact mem_names_of_mem (by simp [hp])
    · right; exact mem_names_of_mem (by simp [hp])
    · left; exact ⟨mem_names_of_mem hp, Or.inr (mem_names_of_mem hp)⟩




/-- the sub-signature left after consuming `n` positionals -/
def popped (s : Sorted) (n : Nat) : Sorted :=
  { pos := s.pos.drop n, pok := s.pok.drop (n - s.pos.length), va := s.va, kwo := s.kwo, vk := s.vk }

def maskNil (s : Sorted) (sig : USig) (n : Nat) : Except Err USig :=
  if s.pos.length + s.pok.length < n ∧ s.va = none then .error .valueError
  else .ok { params := (popped s n).all,
             src := removeFromSrc sig.src (names ((s.pos ++ s.pok).take n)),
             depths := sig.depths, ret := sig.ret, uret := sig.uret }

theorem mask_nil {sig : USig} (hwf : WF sig.params) (n : Nat) :
    mask sig n [] {} = maskNil (sortParams sig) sig n := by
  rw [mask_phases hwf, prelude_eq]
  unfold maskNil
  simp only [Bool.false_eq_true, if_false]
  by_cases hc : (sortParams sig).pos.length + (sortParams sig).pok.length < n ∧ (sortParams sig).va = none
  · rw [if_pos hc, if_pos hc]
  · rw [if_neg hc, if_neg hc]
    simp only [plainNames, List.map_nil, maskNames, sOf, initState, finalVk, finalSrc, Bool.or_self,
      Bool.false_eq_true, if_false, (sortParams_src sig).1, popped]

theorem popped_swf {s : Sorted} (hs : SWF s) (n : Nat) : SWF (popped s n) := by
  apply swf_sub hs
  · simp only [popped]; rw [← List.drop_append]; exact List.drop_sublist _ _
  · exact fun p hp => List.mem_of_mem_drop hp
  · exact fun p hp => List.mem_of_mem_drop hp
  · exact Or.inr rfl
  · exact List.Sublist.refl _
  · exact Or.inr rfl

theorem removeFromSrc_append (src : Srcs) (a b : List Nat) :
    removeFromSrc (removeFromSrc src a) b = removeFromSrc src (a ++ b) := by
  simp [removeFromSrc, List.foldl_append]


end SV
