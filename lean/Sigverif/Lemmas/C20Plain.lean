/-
  Lemmas/C20Plain.lean — the string layer of `support`, part 5: the spellings WITHOUT `use_modifiers_kwoargs`
  (any setting of `use_modifiers_annotate` and `use_modifiers_posoargs`) on texts without `/` and `<…>`:
  `read_sig` hands the pieces over in order, annotations stripped and collected when `use_modifiers_annotate` is set.
-/
import Sigverif.Lemmas.C20Ann
namespace SV
set_option linter.unusedSimpArgs false
set_option linter.unusedVariables false

/-- pieces that are neither `/` nor `<name>` -/
def Piece.simple : Piece → Bool
  | .slash => false
  | .chev _ _ _ => false
  | _ => true

/-- the item of a piece; with `use_modifiers_annotate` the annotation is left to the decorator -/
def Piece.toItemU (ua : Bool) : Piece → Item
  | .slash => .slash
  | .bare => .bare
  | .chev n a d => .par 0 n (if ua then none else a) d
  | .star two n a d => .par (if two then 2 else 1) n (if ua then none else a) d
  | .plain n a d => .par 0 n (if ua then none else a) d

def annUpdRaw (ua : Bool) (anns : List (Nat × Nat)) (n : Nat) (ann : Option Nat) : List (Nat × Nat) :=
  match ann with
  | some a => if ua then dset anns n a else anns
  | none => anns

/-- `annotations[name] = annotation` for one piece -/
def Piece.annUpd (ua : Bool) (anns : List (Nat × Nat)) : Piece → List (Nat × Nat)
  | .slash => anns
  | .bare => anns
  | .chev n a _ => annUpdRaw ua anns n a
  | .star _ n a _ => annUpdRaw ua anns n a
  | .plain n a _ => annUpdRaw ua anns n a

theorem rsMeta_raw (ua : Bool) (st : RS) (i stars n : Nat) (ann dflt : Option Nat) :
    rsMeta ua st i stars n ann dflt =
      ({ st with anns := annUpdRaw ua st.anns n ann, dfltIdx := newDfltIdx st i dflt },
       .par stars n (if ua then none else ann) dflt) := by
  cases ann <;> cases ua <;>
    simp only [rsMeta, newDfltIdx, annUpdRaw, Bool.false_eq_true, if_false, if_true] <;> split <;> simp_all

theorem rsLoop_plain_any (ua upo : Bool) (ps : List Piece) : ∀ (st : RS) (i : Nat), st.chev = none →
    (∀ p ∈ ps, p.simple = true) →
    (rsLoop ua upo false st i ps).params = st.params ++ ps.map (Piece.toItemU ua) ∧
    (rsLoop ua upo false st i ps).chev = none ∧
    (rsLoop ua upo false st i ps).poso = st.poso ∧
    (rsLoop ua upo false st i ps).kwo = st.kwo ∧
    (rsLoop ua upo false st i ps).anns = ps.foldl (Piece.annUpd ua) st.anns := by
  induction ps with
  | nil => intro st i h _; simp [rsLoop, h]
  | cons p ps ih =>
    intro st i hch hs
    have hp := hs p (by simp)
    have hrest : ∀ q ∈ ps, q.simple = true := fun q hq => hs q (List.mem_cons_of_mem _ hq)
    simp only [rsLoop, List.foldl_cons, List.map_cons]
    have key : ∃ st1 : RS, rsStep ua upo false st i p = st1 ∧
        st1.params = st.params ++ [p.toItemU ua] ∧ st1.chev = none ∧ st1.poso = st.poso ∧ st1.kwo = st.kwo ∧
        st1.anns = p.annUpd ua st.anns := by
      refine ⟨_, rfl, ?_⟩
      cases p with
      | slash => simp [Piece.simple] at hp
      | chev n a d => simp [Piece.simple] at hp
      | bare => simp [rsStep, rsChevFix, hch, Piece.toItemU, Piece.annUpd]
      | star two n a d =>
        simp only [rsStep, rsMeta_raw, rsChevFix, hch, Piece.toItemU, Piece.annUpd]
        cases two <;> simp
      | plain n a d =>
        simp only [rsStep, rsMeta_raw, rsNamed, Bool.not_false, if_true, Piece.toItemU, Piece.annUpd]
        split <;> simp [hch]
    obtain ⟨st1, e1, k1, k2, k3, k4, k5⟩ := key
    rw [e1]
    obtain ⟨a, b, c, d, e⟩ := ih st1 (i + 1) k2 hrest
    exact ⟨by rw [a, k1]; simp, b, by rw [c, k3], by rw [d, k4], by rw [e, k5]⟩


def Param.stripU (ua : Bool) (p : Param) : Param := { p with ann := if ua then none else p.ann }

def Piece.stripU (ua : Bool) : Piece → Piece
  | .slash => .slash
  | .bare => .bare
  | .chev n a d => .chev n (if ua then none else a) d
  | .star two n a d => .star two n (if ua then none else a) d
  | .plain n a d => .plain n (if ua then none else a) d

theorem toItem_stripU (ua : Bool) (pc : Piece) : (pc.stripU ua).toItem = pc.toItemU ua := by
  cases pc <;> rfl

theorem pieceOf_stripU (ua : Bool) (p : Param) : pieceOf (p.stripU ua) = (pieceOf p).stripU ua := by
  simp only [pieceOf, Param.stripU]
  cases p.kind <;> rfl

theorem piecesAux_stripU (ua : Bool) (s : List Param) : ∀ prev,
    piecesAux prev (s.map (Param.stripU ua)) = (piecesAux prev s).map (Piece.stripU ua) := by
  induction s with
  | nil => intro prev; simp only [List.map_nil, piecesAux]; split <;> rfl
  | cons p ps ih =>
    intro prev
    rw [List.map_cons, piecesAux_cons, piecesAux_cons, ih]
    have hk : (p.stripU ua).kind = p.kind := rfl
    simp only [hk, pieceOf_stripU, List.map_append, List.map_cons]
    congr 1
    · congr 1
      · split <;> rfl
      · split <;> rfl

theorem piecesAux_simple (s : List Param) (hnpo : ∀ p ∈ s, p.kind ≠ .po) : ∀ prev, prev ≠ some .po →
    ∀ pc ∈ piecesAux prev s, pc.simple = true := by
  induction s with
  | nil => intro prev h pc hpc; simp [piecesAux, h] at hpc
  | cons p ps ih =>
    intro prev h pc hpc
    rw [piecesAux_cons] at hpc
    have hp := hnpo p (by simp)
    simp only [List.mem_append, List.mem_cons] at hpc
    rcases hpc with (hpc | hpc) | hpc | hpc
    · simp [h] at hpc
    · split at hpc <;> simp_all [Piece.simple]
    · subst hpc; simp only [pieceOf]; cases p.kind <;> rfl
    · exact ih (fun q hq => hnpo q (List.mem_cons_of_mem _ hq)) _ (by simpa using hp) pc hpc

theorem fold_annUpd_pieces (ua : Bool) (s : List Param) : ∀ prev (a : List (Nat × Nat)),
    (piecesAux prev s).foldl (Piece.annUpd ua) a = s.foldl (annUpd ua) a := by
  induction s with
  | nil => intro prev a; simp only [piecesAux]; split <;> rfl
  | cons p ps ih =>
    intro prev a
    rw [piecesAux_cons, List.foldl_append, List.foldl_append, List.foldl_cons, List.foldl_cons, ih]
    congr 1
    have e1 : List.foldl (Piece.annUpd ua) a (if (prev = some Kind.po && p.kind ≠ Kind.po) = true then [Piece.slash] else []) = a := by
      split <;> rfl
    rw [e1]
    have e2 : List.foldl (Piece.annUpd ua) a (if (p.kind = Kind.ko && prev ≠ some Kind.vp && prev ≠ some Kind.ko) = true then [Piece.bare] else []) = a := by
      split <;> rfl
    rw [e2]
    simp only [pieceOf, annUpd]
    cases p.kind <;> rfl

theorem VR_stripU (ua : Bool) (p q : Param) (h : VR p q) : VR (p.stripU ua) (q.stripU ua) := h

/-- the whole of `s(text, …)` without `use_modifiers_kwoargs`, for any setting of the two other options: the parameters of
    the signature, in order -/
theorem sParams_plain (ua upo : Bool) (s : List Param) (hpw : s.Pairwise VR)
    (hvp : (s.filter (fun p => p.kind = .vp)).length ≤ 1) (hvk : (s.filter (fun p => p.kind = .vk)).length ≤ 1)
    (hstar : ∀ p ∈ s, (p.kind = .vp ∨ p.kind = .vk) → p.dflt = none) (hnpo : ∀ p ∈ s, p.kind ≠ .po) :
    ∃ r, sParams ua upo false (pieces s) = .ok r ∧ r.map Param.bare = s.map Param.bare := by
  have hsimple := piecesAux_simple s hnpo none (by simp)
  obtain ⟨h1, h2, h3, h4, h5⟩ := rsLoop_plain_any ua upo (pieces s) {} 0 rfl hsimple
  -- what the def says: the signature with its annotations stripped when they go to the decorator
  have hitems : (pieces s).map (Piece.toItemU ua) = (pieces (s.map (Param.stripU ua))).map Piece.toItem := by
    unfold pieces
    rw [piecesAux_stripU, List.map_map]
    exact List.map_congr_left (fun pc _ => (toItem_stripU ua pc).symm)
  have hpw' : (s.map (Param.stripU ua)).Pairwise VR := by
    rw [List.pairwise_map]; exact hpw.imp (fun h => VR_stripU ua _ _ h)
  have hfil : ∀ k : Kind, (s.map (Param.stripU ua)).filter (fun p => p.kind = k) = (s.filter (fun p => p.kind = k)).map (Param.stripU ua) := by
    intro k
    rw [List.filter_map]
    rfl
  have hparse := parseDef_pieces' (s.map (Param.stripU ua)) hpw'
    (by rw [hfil, List.length_map]; exact hvp) (by rw [hfil, List.length_map]; exact hvk)
    (by intro p hp hk
        simp only [List.mem_map] at hp
        obtain ⟨q, hq, rfl⟩ := hp
        exact hstar q hq hk)
  have hanns : (rsLoop ua upo false {} 0 (pieces s)).anns = s.foldl (annUpd ua) [] := by
    rw [h5]; exact fold_annUpd_pieces ua s none []
  unfold sParams
  simp only [readSig, rsChevFix, h2, h1, h3, h4, List.nil_append, hitems, hparse, bind, Except.bind,
    List.isEmpty_nil, if_true, pure, Except.pure, hanns, Bool.and_self]
  cases ua with
  | false =>
    rw [fold_annUpd_false]
    refine ⟨(s.map (Param.stripU false)).map Param.bare, by simp, ?_⟩
    rw [List.map_map, List.map_map]
    exact List.map_congr_left (fun p _ => by cases p; rfl)
  | true =>
    generalize hA : s.foldl (annUpd true) [] = anns
    have hn : (s.map (·.name)).Pairwise (· ≠ ·) := by
      rw [List.pairwise_map]; exact hpw.imp (fun h => h.2.2)
    have hget : ∀ p ∈ s, dget anns p.name = p.ann := by
      intro p hp
      rw [← hA, dget_fold_annUpd _ [] hn p hp]
      cases p.ann <;> rfl
    let F0 := (s.map (Param.stripU true)).map Param.bare
    have hF0 : F0 = s.map (fun p => mkP true p.kind p) := by
      simp only [F0, List.map_map]
      exact List.map_congr_left (fun p _ => by cases p; rfl)
    have hann : annotate F0 anns = .ok (F0.map (annMap anns)) := by
      unfold annotate
      have : (anns.any fun a => !(F0.any fun p => p.name = a.1)) = false := by
        rw [List.any_eq_false]
        intro e he
        have h1 := dget_isSome_of_mem anns e he
        rw [← hA] at h1
        rcases keys_fold_annUpd _ [] e.1 h1 with h | ⟨p, hp, hpe⟩
        · simp [dget] at h
        · have : mkP true p.kind p ∈ F0 := by rw [hF0]; exact List.mem_map_of_mem hp
          simp only [Bool.not_eq_true', Bool.not_eq_false', List.any_eq_true, decide_eq_true_eq]
          simpa using ⟨_, this, hpe⟩
      rw [this]; rfl
    refine ⟨F0.map (annMap anns), ?_, ?_⟩
    · cases hae : anns.isEmpty
      · simp only [Bool.false_eq_true, if_false]
        simp only [F0] at hann ⊢
        rw [hann]; rfl
      · have : anns = [] := by simpa using hae
        subst this
        have e : annMap ([] : List (Nat × Nat)) = id := funext annMap_nil
        simp [e, F0]
    · rw [hF0, List.map_map, List.map_map]
      exact List.map_congr_left (fun p hp => annMap_mkP anns p.kind p rfl (hget p hp))

end SV
