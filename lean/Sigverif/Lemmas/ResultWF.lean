/-
  Lemmas/ResultWF.lean — every result of merge / embed / forwards is a well-formed signature in
  the sense of `WF` (valid order, unique names, defaults form a suffix, at most one `*` and one
  `**` parameter), for any number of inputs.
-/
import Sigverif.Lemmas.C03Sort
import Sigverif.Lemmas.C02Fold
import Sigverif.Lemmas.LawsKinds
import Sigverif.Lemmas.C04
namespace SV
set_option linter.unusedSimpArgs false
set_option linter.unusedVariables false

theorem wf_of_validate {s : Sorted} (bk : BucketKinds s) (hv : validate s.all = .ok ()) : WF s.all := by
  have hp := (validate_ok_iff _).1 hv
  obtain ⟨nd, df⟩ := (pairwiseVR_all_iff bk).1 hp
  exact (wf_all_iff bk).2 ⟨bk, nd, df⟩

theorem applyParams_wf {sig : USig} {s : Sorted} {R : USig} (bk : BucketKinds s)
    (h : applyParams sig s = .ok R) : WF R.params := by
  obtain ⟨hv, rfl⟩ := applyParams_ok sig s R h
  exact wf_of_validate bk hv

theorem mergeFold_kinds (acc r : Sorted) (ss : List USig) (hacc : BucketKinds acc)
    (h : mergeFold acc ss = .ok r) : BucketKinds r := by
  induction ss generalizing acc with
  | nil => simp only [mergeFold, Except.ok.injEq] at h; subst h; exact hacc
  | cons s ss ih =>
    simp only [mergeFold] at h
    split at h
    · rename_i acc' hstep
      exact ih acc' (mergeStep_bucketKinds' _ _ _ hacc (sortParams_bucketKinds s) hstep) h
    · cases h

/-- the result of `merge` (any number of inputs, valid or not) is well-formed -/
theorem merge_result_wf (ss : List USig) (R : USig) (h : merge ss = .ok R) : WF R.params := by
  cases ss with
  | nil => simp [merge] at h
  | cons s ss =>
    simp only [merge, bind, Except.bind] at h
    split at h
    · cases h
    · rename_i r hfold
      exact applyParams_wf (mergeFold_kinds _ _ _ (sortParams_bucketKinds s) hfold) h

theorem embedFold_kinds (uva uvk : Bool) (acc r : Sorted) (n : Nat) (ss : List USig) (hacc : BucketKinds acc)
    (h : embedFold uva uvk acc n ss = .ok r) : BucketKinds r := by
  induction ss generalizing acc n with
  | nil => simp only [embedFold, Except.ok.injEq] at h; subst h; exact hacc
  | cons s ss ih =>
    simp only [embedFold] at h
    split at h
    · rename_i acc' hstep
      exact ih acc' (n + 1) (embedStep_kinds hacc (sortParams_bucketKinds s) hstep) h
    · cases h

/-- the result of `embed` (any number of inputs) is well-formed -/
theorem embed_result_wf (uva uvk : Bool) (ss : List USig) (R : USig) (h : embed uva uvk ss = .ok R) :
    WF R.params := by
  cases ss with
  | nil => simp [embed] at h
  | cons s ss =>
    simp only [embed, bind, Except.bind] at h
    split at h
    · cases h
    · rename_i r hfold
      exact applyParams_wf (embedFold_kinds uva uvk _ _ _ _ (sortParams_bucketKinds s) hfold) h

/-- `forwards` is an `embed` of the outer signature with *some* well-formed signature (the masked
    inner one), whatever the flags -/
theorem forwards_ok_embed (o i R : USig) (n : Nat) (nms : List Nat) (ha hk uva uvk pt : Bool)
    (hi : WF i.params) (h : forwards o i n nms ha hk uva uvk pt = .ok R) :
    ∃ M, WF M.params ∧ embed uva uvk [o, M] = .ok R := by
  unfold forwards at h
  simp only [bind, Except.bind, pure, Except.pure] at h
  split at h
  · cases h
  · rename_i inner' hinner
    have hi' : WF inner'.params := by
      split at hinner
      · split at hinner
        · cases hinner
        · rename_i hv
          simp only [Except.ok.injEq] at hinner
          subst hinner
          refine ⟨?_, ?_, ?_⟩
          · exact (validOk_iff_Laws _).2 (by
              cases hvv : validate (List.map (fun p => if (p.kind = Kind.vp || p.kind = Kind.vk) = true then p
                  else p.withDflt (some 0)) i.params) with
              | ok u => rfl
              | error e => rw [hvv] at hv; cases hv)
          · have : (List.map (fun p => if (p.kind = Kind.vp || p.kind = Kind.vk) = true then p
                else p.withDflt (some 0)) i.params).filter (fun p => p.kind = .vp) =
                (i.params.filter (fun p => p.kind = .vp)).map (fun p => if (p.kind = Kind.vp || p.kind = Kind.vk) = true then p
                else p.withDflt (some 0)) := by
              rw [List.filter_map]
              congr 1
              apply List.filter_congr
              intro p _
              simp only [Function.comp]
              split <;> rfl
            simp only at this ⊢
            rw [this, List.length_map]
            exact hi.2.1
          · have : (List.map (fun p => if (p.kind = Kind.vp || p.kind = Kind.vk) = true then p
                else p.withDflt (some 0)) i.params).filter (fun p => p.kind = .vk) =
                (i.params.filter (fun p => p.kind = .vk)).map (fun p => if (p.kind = Kind.vp || p.kind = Kind.vk) = true then p
                else p.withDflt (some 0)) := by
              rw [List.filter_map]
              congr 1
              apply List.filter_congr
              intro p _
              simp only [Function.comp]
              split <;> rfl
            simp only at this ⊢
            rw [this, List.length_map]
            exact hi.2.2
      · simp only [Except.ok.injEq] at hinner
        subst hinner
        exact hi
    split at h
    · cases h
    · rename_i m hm
      exact ⟨m, mask_wf inner' m n nms _ hi' hm, h⟩

theorem forwards_result_wf (o i R : USig) (n : Nat) (nms : List Nat) (ha hk uva uvk pt : Bool)
    (hi : WF i.params) (h : forwards o i n nms ha hk uva uvk pt = .ok R) : WF R.params := by
  obtain ⟨M, _, hE⟩ := forwards_ok_embed o i R n nms ha hk uva uvk pt hi h
  exact embed_result_wf uva uvk _ R hE

end SV
